(* Proofs about model/Cast.v (numeric casts). *)
From Coq Require Import NArith ZArith List Bool Lia ZifyBool.
From GV Require Import model.Cast gen.TablesCast.
Import ListNotations.
Open Scope Z_scope.
Ltac Zify.zify_post_hook ::= Z.div_mod_to_equations.

Definition std_width (b : Z) : Prop := b = 8 \/ b = 16 \/ b = 32 \/ b = 64 \/ b = 128.

Ltac eval_pows :=
  repeat match goal with
         | |- context [2 ^ ?k] => let v := eval vm_compute in (2 ^ k) in change (2 ^ k) with v
         | H : context [2 ^ ?k] |- _ => let v := eval vm_compute in (2 ^ k) in change (2 ^ k) with v in H
         end.

(* ---------- integer -> integer: the value or an error, never a wrapped value ---------- *)
Lemma cast_int_exact_or_error : forall s d v,
  std_width (i_bits s) -> std_width (i_bits d) -> in_range s v = true ->
  cast_int s d v = int_spec d v.
Proof.
  intros [ss sb] [ds db] v Hs Hd Hr. cbn [i_bits] in Hs, Hd.
  unfold cast_int, int_spec in *. cbn [i_signed i_bits] in *.
  destruct Hs as [-> | [-> | [-> | [-> | ->]]]];
  destruct Hd as [-> | [-> | [-> | [-> | ->]]]];
  destruct ss, ds; cbn [andb orb] in *;
  (* the bounds `DstT::MIN as SrcT`, `DstT::MAX as SrcT` are closed terms *)
  repeat match goal with
         | |- context [wrap ?t ?c] =>
             lazymatch c with
             | v => fail
             | _ => let r := eval vm_compute in (wrap t c) in change (wrap t c) with r
             end
         end;
  unfold in_range, imin, imax, wrap in *; cbn [i_signed i_bits andb orb] in *; eval_pows;
  repeat match goal with
         | |- context [if ?b then _ else _] => destruct b eqn:?
         end; try reflexivity; try (f_equal; lia); try (exfalso; lia).
Qed.

Example cast_int_hyps_sat : std_width 32 /\ std_width 16 /\ in_range (mk_ity true 32) 70000 = true
  /\ cast_int (mk_ity true 32) (mk_ity true 16) 70000 = Err.
Proof. unfold std_width. repeat split; auto; try lia. Qed.

(* ---------- float -> integer: truncation toward zero, error iff out of range / not finite ---------- *)
Lemma imin_nonpos t : imin t <= 0.
Proof. unfold imin. destruct (i_signed t); [|lia]. pose proof (Z.pow_nonneg 2 (i_bits t - 1)). lia. Qed.

Lemma imax_nonneg t : 1 <= i_bits t -> 0 <= imax t.
Proof.
  intros Hb. unfold imax. destruct (i_signed t).
  - assert (0 < 2 ^ (i_bits t - 1)) by (apply Z.pow_pos_nonneg; lia). lia.
  - assert (0 < 2 ^ i_bits t) by (apply Z.pow_pos_nonneg; lia). lia.
Qed.

Lemma fin_range_trunc : forall d neg m e, 1 <= i_bits d -> 0 <= m ->
  fin_gt neg m e (imin d - 1) && fin_lt neg m e (imax d + 1) = in_range d (signed neg (trunc_me m e)).
Proof.
  intros d neg m e Hb Hm. pose proof (imin_nonpos d) as Hlo. pose proof (imax_nonneg d Hb) as Hhi.
  unfold fin_gt, fin_lt, in_range, trunc_me, signed.
  destruct (0 <=? e) eqn:He.
  - destruct neg; lia.
  - assert (HP : 0 < 2 ^ (- e)) by (apply Z.pow_pos_nonneg; lia).
    remember (2 ^ (- e)) as P eqn:EP. clear EP He.
    remember (imin d) as lo eqn:Elo. remember (imax d) as hi eqn:Ehi. clear Elo Ehi Hb.
    pose proof (Z.div_mod m P ltac:(lia)) as Hdm. pose proof (Z.mod_pos_bound m P HP) as Hr.
    remember (m / P) as q eqn:Eq. remember (m mod P) as r eqn:Er. clear Eq Er.
    assert (Hq : 0 <= q) by nia.
    destruct neg.
    + (* -(m) against the bounds *)
      apply eq_true_iff_eq. rewrite !andb_true_iff, !Z.ltb_lt, !Z.leb_le. split; intros [H1 H2]; split; nia.
    + apply eq_true_iff_eq. rewrite !andb_true_iff, !Z.ltb_lt, !Z.leb_le. split; intros [H1 H2]; split; nia.
Qed.

Lemma decode_mant_nonneg : forall f bits neg m e, 0 <= f_mbits f -> decode f bits = FFin neg m e -> 0 <= m.
Proof.
  intros f bits neg m e Hmb. unfold decode.
  assert (HP : 0 < 2 ^ f_mbits f) by (apply Z.pow_pos_nonneg; lia).
  pose proof (Z.mod_pos_bound bits (2 ^ f_mbits f) HP) as Hm.
  destruct (_ =? 2 ^ f_ebits f - 1).
  - destruct (_ =? 0); discriminate.
  - destruct (_ =? 0); intros H; inversion H; subst; lia.
Qed.

Lemma cast_float_int_trunc : forall f d bits, 0 <= f_mbits f -> 1 <= i_bits d ->
  cast_float_int f d bits = float_int_spec f d bits.
Proof.
  intros f d bits Hmb Hb. unfold cast_float_int, float_int_spec, int_spec.
  destruct (decode f bits) as [| ng | ng m e] eqn:Hd; try reflexivity.
  pose proof (decode_mant_nonneg f bits ng m e Hmb Hd) as Hm.
  rewrite (fin_range_trunc d ng m e Hb Hm). reflexivity.
Qed.

(* ---------- decimals ---------- *)
Lemma unchecked_true_ok : forall t x y, unchecked true t x = Ok y -> y = x /\ in_range t x = true.
Proof. intros t x y. unfold unchecked. destruct (in_range t x); intros H; inversion H; auto. Qed.

Lemma unchecked_in_range : forall oc t x, in_range t x = true -> unchecked oc t x = Ok x.
Proof. intros oc t x H. unfold unchecked. rewrite H. reflexivity. Qed.

Lemma checked_ok : forall t x y, checked t x = Ok y -> y = x /\ in_range t x = true.
Proof. intros t x y. unfold checked. destruct (in_range t x); intros H; inversion H; auto. Qed.

Lemma pow_in_true_ok : forall t b n r, pow_in true t b n = Ok r -> r = b ^ Z.of_nat n.
Proof.
  intros t b n. induction n as [|n IH]; intros r H.
  - cbn in H. inversion H. reflexivity.
  - cbn [pow_in] in H. destruct (pow_in true t b n) as [r0| |] eqn:E; cbn [obind] in H; try discriminate.
    apply unchecked_true_ok in H. destruct H as [-> _]. rewrite (IH r0 eq_refl).
    rewrite Nat2Z.inj_succ, Z.pow_succ_r by lia. lia.
Qed.

(* the digit count is exact *)
Lemma ndigits_fuel_spec : forall f v p, 0 < v -> v < 10 ^ Z.of_nat f ->
  (ndigits_fuel f v <= p <-> v < 10 ^ p).
Proof.
  induction f as [|f IH]; intros v p Hv Hlt.
  - cbn in Hlt. lia.
  - cbn [ndigits_fuel]. destruct (v <? 10) eqn:E.
    + destruct (Z_le_gt_dec 1 p) as [Hp|Hp].
      * split; [intros _|lia]. assert (10 ^ 1 <= 10 ^ p) by (apply Z.pow_le_mono_r; lia). lia.
      * split; [lia|]. intros H. destruct (Z.eq_dec p 0) as [->|]; [cbn in H; lia|].
        rewrite Z.pow_neg_r in H by lia. lia.
    + rewrite Nat2Z.inj_succ, Z.pow_succ_r in Hlt by lia.
      assert (Hq : 0 < v / 10 /\ v / 10 < 10 ^ Z.of_nat f) by lia.
      destruct Hq as [Hq1 Hq2]. specialize (IH (v / 10) (p - 1) Hq1 Hq2).
      destruct (Z_le_gt_dec 1 p) as [Hp|Hp].
      * replace (10 ^ p) with (10 * 10 ^ (p - 1)) by (rewrite <- Z.pow_succ_r by lia; f_equal; lia).
        split; intros H.
        -- assert (v / 10 < 10 ^ (p - 1)) by (apply IH; lia). lia.
        -- assert (ndigits_fuel f (v / 10) <= p - 1) by (apply IH; lia). lia.
      * split; intros H.
        -- exfalso. assert (v / 10 < 10 ^ (p - 1 )) by (apply IH; lia).
           rewrite Z.pow_neg_r in H0 by lia. lia.
        -- exfalso. destruct (Z.eq_dec p 0) as [->|]; [cbn in H; lia|].
           rewrite Z.pow_neg_r in H by lia. lia.
Qed.

Definition std_dty (d : dty) : Prop := d = D64 \/ d = D128.

(* the primitive holds every value of the widest precision, and is symmetric up to one *)
Lemma std_dty_facts : forall d, std_dty d ->
  std_width (i_bits (d_prim d)) /\ 10 ^ d_maxp d <= imax (d_prim d) /\ imin (d_prim d) = - imax (d_prim d) - 1
  /\ imax (d_prim d) < 10 ^ 40 /\ 0 <= d_maxp d <= 38.
Proof.
  intros d [-> | ->]; unfold std_width; cbn [d_prim d_maxp D64 D128 I64 I128 i_bits]; repeat split; auto;
    try (vm_compute; congruence).
Qed.

Lemma in_range_iff t x : in_range t x = true <-> imin t <= x <= imax t.
Proof. unfold in_range. lia. Qed.

Lemma pow10_le_maxp : forall d p, std_dty d -> 0 <= p <= d_maxp d -> 0 < 10 ^ p /\ 10 ^ p <= imax (d_prim d).
Proof.
  intros d p Hd Hp. destruct (std_dty_facts d Hd) as [_ [Hm _]].
  assert (10 ^ p <= 10 ^ d_maxp d) by (apply Z.pow_le_mono_r; lia).
  assert (0 < 10 ^ p) by (apply Z.pow_pos_nonneg; lia). lia.
Qed.

(* validate_precision as repaired: total (no panic for any value of the primitive, MIN included,
   with or without overflow checks) and exact *)
Lemma validate_precision_spec : forall oc d value p, std_dty d -> in_range (d_prim d) value = true ->
  0 <= p <= d_maxp d ->
  validate_precision oc d value p = (if Z.abs value <? 10 ^ p then Ok tt else Err).
Proof.
  intros oc d value p Hd Hr Hp. destruct (std_dty_facts d Hd) as [_ [Hm [Hs [H40 Hmp]]]].
  destruct (pow10_le_maxp d p Hd Hp) as [Hpos Hle]. apply in_range_iff in Hr.
  unfold validate_precision. replace (d_maxp d <? p) with false by lia.
  destruct (value =? 0) eqn:E0; [replace (Z.abs value <? 10 ^ p) with true by lia; reflexivity|].
  destruct (value =? imin (d_prim d)) eqn:Em.
  - assert (p < 2 ^ 32 - 1) by (change (2 ^ 32 - 1) with 4294967295; lia).
    replace (p <? 2 ^ 32 - 1) with true by lia. replace (Z.abs value <? 10 ^ p) with false by lia. reflexivity.
  - rewrite unchecked_in_range by (apply in_range_iff; lia). cbn [obind].
    replace (Z.abs value <=? 0) with false by lia.
    pose proof (ndigits_fuel_spec 40 (Z.abs value) p ltac:(lia) ltac:(change (Z.of_nat 40) with 40; lia)) as Hn.
    unfold ndigits. destruct (Z.abs value <? 10 ^ p) eqn:El.
    + replace (p <? ndigits_fuel 40 (Z.abs value)) with false by lia. reflexivity.
    + replace (p <? ndigits_fuel 40 (Z.abs value)) with true by lia. reflexivity.
Qed.

Lemma validate_precision_total : forall oc d value p, std_dty d -> in_range (d_prim d) value = true ->
  validate_precision oc d value p <> Panic.
Proof.
  intros oc d value p Hd Hr. destruct (std_dty_facts d Hd) as [_ [_ [Hs _]]]. apply in_range_iff in Hr.
  unfold validate_precision. destruct (d_maxp d <? p); [discriminate|].
  destruct (value =? 0) eqn:E0; [discriminate|].
  destruct (value =? imin (d_prim d)) eqn:Em; [destruct (p <? 2 ^ 32 - 1); discriminate|].
  rewrite unchecked_in_range by (apply in_range_iff; lia). cbn [obind].
  replace (Z.abs value <=? 0) with false by lia. destruct (p <? ndigits (Z.abs value)); discriminate.
Qed.

Lemma validate_precision_sound : forall oc d value p, std_dty d -> in_range (d_prim d) value = true -> 0 <= p ->
  validate_precision oc d value p = Ok tt -> Z.abs value < 10 ^ p.
Proof.
  intros oc d value p Hd Hr Hp H. destruct (std_dty_facts d Hd) as [_ [_ [_ [_ Hmp]]]].
  destruct (Z_le_gt_dec p (d_maxp d)) as [Hle|Hgt].
  - rewrite validate_precision_spec in H by (auto; lia). destruct (Z.abs value <? 10 ^ p) eqn:E; [lia|discriminate].
  - unfold validate_precision in H. replace (d_maxp d <? p) with true in H by lia. discriminate.
Qed.

Lemma not_in_range_big : forall d x, std_dty d -> in_range (d_prim d) x = false -> imax (d_prim d) < Z.abs x.
Proof.
  intros d x Hd H. destruct (std_dty_facts d Hd) as [_ [_ [Hs _]]]. unfold in_range in H. lia.
Qed.

(* integer -> DECIMAL(p,s), every scale 0..p, every value of every integer type: exactly
   v * 10^s when that fits the precision, otherwise an error — never a panic *)
Lemma int_to_decimal_exact_or_error : forall oc s d p sc v,
  std_width (i_bits s) -> std_dty d -> in_range s v = true -> 0 <= sc <= p -> p <= d_maxp d ->
  int_to_decimal oc s d p sc v = (if Z.abs (v * 10 ^ sc) <? 10 ^ p then Ok (v * 10 ^ sc) else Err).
Proof.
  intros oc s d p sc v Hs Hd Hr Hsc Hp. destruct (std_dty_facts d Hd) as [Hw [Hm [Hsym _]]].
  destruct (pow10_le_maxp d sc Hd ltac:(lia)) as [Hpos Hle].
  destruct (pow10_le_maxp d p Hd ltac:(lia)) as [Hppos Hple].
  unfold int_to_decimal, checked_pow. rewrite Z.abs_eq by lia.
  unfold checked at 1. rewrite (proj2 (in_range_iff _ _)) by lia. cbn [obind].
  rewrite (cast_int_exact_or_error s (d_prim d) v Hs Hw Hr). unfold int_spec.
  assert (Hmul : Z.abs v <= Z.abs (v * 10 ^ sc)) by (rewrite Z.abs_mul, (Z.abs_eq (10 ^ sc)) by lia; nia).
  destruct (in_range (d_prim d) v) eqn:Ev; cbn [obind].
  2:{ pose proof (not_in_range_big d v Hd Ev). replace (Z.abs (v * 10 ^ sc) <? 10 ^ p) with false by lia. reflexivity. }
  assert (Hval : forall val, val = v * 10 ^ sc ->
     obind (checked (d_prim d) val) (fun val0 => obind (validate_precision oc d val0 p) (fun _ => Ok val0))
     = (if Z.abs val <? 10 ^ p then Ok val else Err)).
  { intros val _. unfold checked. destruct (in_range (d_prim d) val) eqn:Evv; cbn [obind].
    - rewrite validate_precision_spec by (auto; lia). destruct (Z.abs val <? 10 ^ p); reflexivity.
    - pose proof (not_in_range_big d val Hd Evv). replace (Z.abs val <? 10 ^ p) with false by lia. reflexivity. }
  destruct (0 <? sc) eqn:Esc.
  - apply Hval. reflexivity.
  - assert (sc = 0) by lia. subst sc. change (10 ^ 0) with 1 in *. unfold checked_div. cbn [Z.eqb].
    rewrite Z.quot_1_r. rewrite Z.mul_1_r. apply Hval. lia.
Qed.

Example int_to_decimal_sat : int_to_decimal true (mk_ity true 32) D64 5 2 123 = Ok 12300
  /\ int_to_decimal true (mk_ity true 32) D64 18 10 1 = Ok 10000000000
  /\ int_to_decimal true I64 D64 18 0 (- 2 ^ 63) = Err.
Proof. vm_compute. repeat split; reflexivity. Qed.

(* float -> DECIMAL(p,s): the result fits the precision *)
Lemma float_to_decimal_fits_or_error : forall oc f d p sc bits r, std_dty d -> 0 <= p ->
  float_to_decimal oc f d p sc bits = Ok r -> Z.abs r < 10 ^ p.
Proof.
  intros oc f d p sc bits r Hd Hp. unfold float_to_decimal.
  destruct (fmul F64 _ _) as [|n3|n3 m3 e3]; try discriminate.
  destruct (in_range (d_prim d) _) eqn:Er; try discriminate.
  destruct (validate_precision oc d _ p) as [[]| |] eqn:Ev; cbn [obind]; try discriminate.
  intros H; inversion H; subst r. apply (validate_precision_sound oc d _ p Hd Er Hp Ev).
Qed.

(* decimal -> decimal, downscale: round half away from zero *)
Lemma quot_half_away : forall v h, 0 < h ->
  Z.quot (v + (if 0 <=? v then h else - h)) (2 * h) = rha_div v (2 * h).
Proof.
  intros v h Hh. unfold rha_div. destruct (0 <=? v) eqn:E.
  - rewrite Z.quot_div_nonneg by lia. rewrite Z.abs_eq by lia.
    replace (2 * v + 2 * h) with (2 * (v + h)) by lia. rewrite Z.div_mul_cancel_l by lia.
    destruct (Z.eq_dec v 0) as [->|Hn].
    + cbn [Z.sgn]. rewrite Z.div_small by lia. reflexivity.
    + rewrite Z.sgn_pos by lia. lia.
  - replace (v + - h) with (- (- v + h)) by lia. rewrite Z.quot_opp_l by lia.
    rewrite Z.quot_div_nonneg by lia. rewrite Z.sgn_neg by lia. rewrite Z.abs_neq by lia.
    replace (2 * - v + 2 * h) with (2 * (- v + h)) by lia. rewrite Z.div_mul_cancel_l by lia. lia.
Qed.

(* the arithmetic of DecimalToDecimal::cast between NumCast and validate_precision *)
Definition rescale_body (t : ity) (diff amt rounding v : Z) : outcome Z :=
  if diff <? 0 then checked t (v * amt)
  else if 0 <? diff then
    obind (checked t (v + (if 0 <=? v then rounding else - rounding))) (fun w => checked_div t w amt)
  else Ok v.

Lemma rescale_body_range : forall t diff amt rounding v r, in_range t v = true ->
  rescale_body t diff amt rounding v = Ok r -> in_range t r = true.
Proof.
  intros t diff amt rounding v r Hv. unfold rescale_body.
  destruct (diff <? 0).
  - intros H. apply checked_ok in H. destruct H as [-> Hx]. exact Hx.
  - destruct (0 <? diff).
    + destruct (checked t (v + (if 0 <=? v then rounding else - rounding))) as [w| |]; cbn [obind]; intros H; try discriminate H.
      unfold checked_div in H. destruct (amt =? 0); [discriminate H|].
      apply checked_ok in H. destruct H as [-> Hx]. exact Hx.
    + intros H. inversion H. subst. exact Hv.
Qed.

Lemma checked_no_panic : forall t x, checked t x <> Panic.
Proof. intros t x. unfold checked. destruct (in_range t x); discriminate. Qed.

Lemma rescale_body_no_panic : forall t diff amt rounding v, rescale_body t diff amt rounding v <> Panic.
Proof.
  intros t diff amt rounding v. unfold rescale_body.
  destruct (diff <? 0); [apply checked_no_panic|].
  destruct (0 <? diff); [|discriminate].
  destruct (checked t (v + (if 0 <=? v then rounding else - rounding))) as [w| |] eqn:Ec; cbn [obind]; try discriminate.
  - unfold checked_div. destruct (amt =? 0); [discriminate|apply checked_no_panic].
  - exfalso. exact (checked_no_panic _ _ Ec).
Qed.

(* the wider primitive of DecimalToDecimal (RescaleTo::Wider) *)
Definition maxp_w (d1 d2 : dty) : Z := Z.max (d_maxp d1) (d_maxp d2).

Lemma wider_facts : forall d1 d2, std_dty d1 -> std_dty d2 ->
  std_width (i_bits (wider d1 d2)) /\ imin (wider d1 d2) = - imax (wider d1 d2) - 1
  /\ 3 * 10 ^ maxp_w d1 d2 <= 2 * imax (wider d1 d2)
  /\ imax (d_prim d1) <= imax (wider d1 d2) /\ imax (d_prim d2) <= imax (wider d1 d2)
  /\ d_maxp d1 <= maxp_w d1 d2 /\ d_maxp d2 <= maxp_w d1 d2.
Proof.
  intros d1 d2 [-> | ->] [-> | ->]; unfold std_width; vm_compute; repeat split; auto 10; congruence.
Qed.

(* conversion to the target primitive + validate_precision = "fits the precision" *)
Lemma range_validate : forall oc d p r, std_dty d -> 0 <= p <= d_maxp d ->
  (if in_range (d_prim d) r then obind (validate_precision oc d r p) (fun _ => Ok r) else Err)
  = (if Z.abs r <? 10 ^ p then Ok r else Err).
Proof.
  intros oc d p r Hd Hp. destruct (pow10_le_maxp d p Hd Hp) as [Hpos Hle].
  destruct (in_range (d_prim d) r) eqn:Er.
  - rewrite validate_precision_spec by auto. destruct (Z.abs r <? 10 ^ p); reflexivity.
  - pose proof (not_in_range_big d r Hd Er). replace (Z.abs r <? 10 ^ p) with false by lia. reflexivity.
Qed.

Lemma rha_div_bound : forall v b, 0 < b -> Z.abs (rha_div v b) <= Z.abs v + 1.
Proof.
  intros v b Hb. unfold rha_div. rewrite Z.abs_mul.
  assert (Hq : 0 <= (2 * Z.abs v + b) / (2 * b) <= Z.abs v + 1).
  { split; [apply Z.div_pos; lia|]. apply Z.div_le_upper_bound; [lia|]. nia. }
  rewrite (Z.abs_eq ((2 * Z.abs v + b) / (2 * b))) by lia.
  assert (Z.abs (Z.sgn v) <= 1) by lia. nia.
Qed.

(* decimal -> decimal (any direction), FULL strength: for every value of the source decimal type and
   every pair of scales whose difference is at most the precision of the wider type, the cast IS the
   specification: the exactly scaled / half-away rounded value when it fits DECIMAL(p2,s2), an
   error otherwise.  (Before 770f0ed44 only the soundness half held, see Old.decimal_to_decimal_narrow.) *)
Lemma rescale_exact_or_error : forall oc d1 d2 s1 p2 s2 v,
  std_dty d1 -> std_dty d2 -> Z.abs v < 10 ^ d_maxp d1 -> 0 <= p2 <= d_maxp d2 ->
  Z.abs (s1 - s2) <= maxp_w d1 d2 ->
  decimal_to_decimal oc d1 d2 s1 p2 s2 v = rescale_spec s1 p2 s2 v.
Proof.
  intros oc d1 d2 s1 p2 s2 v Hd1 Hd2 Hv Hp Hk.
  destruct (wider_facts d1 d2 Hd1 Hd2) as [Hww [Hsym [H3 [Hi1 [Hi2 [HW1 HW2]]]]]].
  destruct (std_dty_facts d1 Hd1) as [Hw1 [Hm1 [Hsy1 [_ Hmp1]]]].
  destruct (std_dty_facts d2 Hd2) as [Hw2 [Hm2 [Hsy2 [_ Hmp2]]]].
  destruct (pow10_le_maxp d2 p2 Hd2 Hp) as [Hp2pos Hp2le].
  unfold decimal_to_decimal, checked_pow.
  set (w := wider d1 d2) in *. set (W := maxp_w d1 d2) in *. set (k := s1 - s2) in *.
  assert (HWpos : 0 < 10 ^ W) by (apply Z.pow_pos_nonneg; lia).
  assert (Hamt : 0 < 10 ^ Z.abs k <= 10 ^ W)
    by (split; [apply Z.pow_pos_nonneg; lia | apply Z.pow_le_mono_r; lia]).
  assert (HvW : Z.abs v < 10 ^ W).
  { assert (10 ^ d_maxp d1 <= 10 ^ W) by (apply Z.pow_le_mono_r; lia). lia. }
  unfold checked at 1. rewrite (proj2 (in_range_iff w (10 ^ Z.abs k))) by lia. cbn [obind].
  rewrite (cast_int_exact_or_error (d_prim d1) w v Hw1 Hww) by (apply in_range_iff; lia).
  unfold int_spec. rewrite (proj2 (in_range_iff w v)) by lia. cbn [obind].
  set (amt := 10 ^ Z.abs k) in *.
  (* the specified value *)
  set (d := if s1 <=? s2 then v * 10 ^ (s2 - s1) else rha_div v (10 ^ (s1 - s2))).
  assert (Hbody : (if k <? 0 then checked w (v * amt)
                   else if 0 <? k then
                     obind (checked w (v + (if 0 <=? v then (if 0 <? k then Z.quot amt 2 else 0)
                                            else - (if 0 <? k then Z.quot amt 2 else 0))))
                           (fun x => checked_div w x amt)
                   else Ok v) = checked w d).
  { destruct (k <? 0) eqn:E1.
    - subst d. replace (s1 <=? s2) with true by lia. subst amt. rewrite Z.abs_neq by lia.
      replace (- k) with (s2 - s1) by lia. reflexivity.
    - destruct (0 <? k) eqn:E2.
      + subst d. replace (s1 <=? s2) with false by lia. fold k.
        assert (Ha : amt = 10 ^ k) by (subst amt; rewrite Z.abs_eq by lia; reflexivity).
        assert (Hamt2 : amt = 2 * (5 * 10 ^ (k - 1))).
        { rewrite Ha. replace k with (Z.succ (k - 1)) at 1 by lia. rewrite Z.pow_succ_r by lia. lia. }
        set (h := 5 * 10 ^ (k - 1)) in *.
        assert (Hh : 0 < h) by lia.
        assert (Hq : Z.quot amt 2 = h) by (rewrite Hamt2, Z.mul_comm, Z.quot_mul by lia; reflexivity).
        rewrite Hq. unfold checked at 1.
        rewrite (proj2 (in_range_iff w (v + (if 0 <=? v then h else - h)))) by (destruct (0 <=? v) eqn:?; lia).
        cbn [obind]. unfold checked_div. replace (amt =? 0) with false by lia.
        rewrite <- Ha, Hamt2. rewrite (quot_half_away v h Hh). reflexivity.
      + subst d. replace (s1 <=? s2) with true by lia. replace (s2 - s1) with 0 by lia.
        change (10 ^ 0) with 1. rewrite Z.mul_1_r. unfold checked.
        rewrite (proj2 (in_range_iff w v)) by lia. reflexivity. }
  cbv zeta. rewrite Hbody. unfold rescale_spec. fold d.
  unfold checked. destruct (in_range w d) eqn:Ewd; cbn [obind].
  - rewrite (cast_int_exact_or_error w (d_prim d2) d Hww Hw2 Ewd). unfold int_spec.
    destruct (in_range (d_prim d2) d) eqn:E2d; cbn [obind].
    + rewrite validate_precision_spec by auto. destruct (Z.abs d <? 10 ^ p2); reflexivity.
    + pose proof (not_in_range_big d2 d Hd2 E2d). replace (Z.abs d <? 10 ^ p2) with false by lia. reflexivity.
  - assert (imax w < Z.abs d) by (unfold in_range in Ewd; lia).
    replace (Z.abs d <? 10 ^ p2) with false by lia. reflexivity.
Qed.

Example rescale_exact_hyps_sat :
  std_dty D128 /\ std_dty D64 /\ Z.abs 9999999999999999999 < 10 ^ d_maxp D128 /\ 0 <= 18 <= d_maxp D64
  /\ Z.abs (5 - 0) <= maxp_w D128 D64 /\ Z.abs (20 - 0) <= maxp_w D128 D64.
Proof. unfold std_dty. repeat split; auto; vm_compute; congruence. Qed.

(* decimal -> decimal, soundness for ANY scales and any value of the primitive (no bound on the scale
   difference): a result respects the target precision and is the exactly scaled / half-away value *)
Lemma rescale_exact_and_respects_precision : forall oc d1 d2 s1 p2 s2 v r,
  std_dty d1 -> std_dty d2 -> in_range (d_prim d1) v = true -> 0 <= p2 ->
  decimal_to_decimal oc d1 d2 s1 p2 s2 v = Ok r ->
  Z.abs r < 10 ^ p2 /\
  r = (if s1 <=? s2 then v * 10 ^ (s2 - s1) else rha_div v (10 ^ (s1 - s2))).
Proof.
  intros oc d1 d2 s1 p2 s2 v r Hd1 Hd2 Hr Hp. unfold decimal_to_decimal, checked_pow.
  destruct (wider_facts d1 d2 Hd1 Hd2) as [Hww _].
  set (w := wider d1 d2) in *.
  destruct (checked w (10 ^ Z.abs (s1 - s2))) as [amt| |] eqn:Ep; cbn [obind]; try discriminate.
  apply checked_ok in Ep. destruct Ep as [Ha _].
  destruct (std_dty_facts d1 Hd1) as [Hw1 _]. destruct (std_dty_facts d2 Hd2) as [Hw2 _].
  rewrite (cast_int_exact_or_error (d_prim d1) w v Hw1 Hww Hr).
  unfold int_spec. destruct (in_range w v) eqn:Ev2; cbn [obind]; try discriminate.
  match goal with |- obind ?X _ = _ -> _ => destruct X as [r0| |] eqn:Ex end; cbn [obind]; try discriminate.
  assert (Hr0 : in_range w r0 = true)
    by exact (rescale_body_range w (s1 - s2) amt (if 0 <? s1 - s2 then Z.quot amt 2 else 0) v r0 Ev2 Ex).
  rewrite (cast_int_exact_or_error w (d_prim d2) r0 Hww Hw2 Hr0). unfold int_spec.
  destruct (in_range (d_prim d2) r0) eqn:Hrr; cbn [obind]; try discriminate.
  destruct (validate_precision oc d2 r0 p2) as [[]| |] eqn:Ev; try discriminate.
  intros H; inversion H; subst r0. clear H.
  split; [apply (validate_precision_sound oc d2 r p2 Hd2 Hrr Hp Ev)|].
  destruct (s1 - s2 <? 0) eqn:E1.
  - apply checked_ok in Ex. destruct Ex as [-> _]. replace (s1 <=? s2) with true by lia.
    rewrite Ha. rewrite Z.abs_neq by lia. f_equal. f_equal. lia.
  - destruct (0 <? s1 - s2) eqn:E2.
    + replace (s1 <=? s2) with false by lia. rewrite Z.abs_eq in Ha by lia.
      set (k := s1 - s2) in *.
      assert (Hamt : amt = 2 * (5 * 10 ^ (k - 1))).
      { rewrite Ha. replace k with (Z.succ (k - 1)) at 1 by lia. rewrite Z.pow_succ_r by lia. lia. }
      assert (Hh : 0 < 5 * 10 ^ (k - 1)) by (assert (0 < 10 ^ (k - 1)) by (apply Z.pow_pos_nonneg; lia); lia).
      set (h := 5 * 10 ^ (k - 1)) in *.
      assert (Hq : Z.quot amt 2 = h) by (rewrite Hamt, Z.mul_comm, Z.quot_mul by lia; reflexivity).
      rewrite Hq in Ex.
      destruct (checked w (v + (if 0 <=? v then h else - h))) as [x| |] eqn:Ec; cbn [obind] in Ex; try discriminate.
      apply checked_ok in Ec. destruct Ec as [-> _].
      unfold checked_div in Ex. replace (amt =? 0) with false in Ex by lia.
      apply checked_ok in Ex. destruct Ex as [-> _].
      rewrite <- Ha, Hamt. apply quot_half_away. exact Hh.
    + inversion Ex; subst. replace (s1 <=? s2) with true by lia. replace (s2 - s1) with 0 by lia. cbn. lia.
Qed.

Lemma rescale_sound : forall oc d1 d2 s1 p2 s2 v r,
  std_dty d1 -> std_dty d2 -> in_range (d_prim d1) v = true -> 0 <= p2 ->
  decimal_to_decimal oc d1 d2 s1 p2 s2 v = Ok r -> rescale_spec s1 p2 s2 v = Ok r.
Proof.
  intros oc d1 d2 s1 p2 s2 v r Hd1 Hd2 Hr Hp H.
  destruct (rescale_exact_and_respects_precision oc d1 d2 s1 p2 s2 v r Hd1 Hd2 Hr Hp H) as [Hlt Heq].
  unfold rescale_spec. rewrite <- Heq. replace (Z.abs r <? 10 ^ p2) with true by lia. reflexivity.
Qed.

(* no panic either: the scale factor is a checked power, validate_precision is total *)
Lemma rescale_never_panics : forall oc d1 d2 s1 p2 s2 v,
  std_dty d1 -> std_dty d2 -> in_range (d_prim d1) v = true ->
  decimal_to_decimal oc d1 d2 s1 p2 s2 v <> Panic.
Proof.
  intros oc d1 d2 s1 p2 s2 v Hd1 Hd2 Hr. unfold decimal_to_decimal, checked_pow.
  destruct (wider_facts d1 d2 Hd1 Hd2) as [Hww _].
  set (w := wider d1 d2) in *.
  destruct (checked w (10 ^ Z.abs (s1 - s2))) as [amt| |] eqn:Ep; cbn [obind]; try discriminate.
  2:{ exfalso. exact (checked_no_panic _ _ Ep). }
  destruct (std_dty_facts d1 Hd1) as [Hw1 _]. destruct (std_dty_facts d2 Hd2) as [Hw2 _].
  rewrite (cast_int_exact_or_error (d_prim d1) w v Hw1 Hww Hr).
  unfold int_spec. destruct (in_range w v) eqn:Ev; cbn [obind]; try discriminate.
  match goal with |- obind ?X _ <> _ => destruct X as [r0| |] eqn:Ex end; cbn [obind]; try discriminate.
  - pose proof (rescale_body_range w (s1 - s2) amt (if 0 <? s1 - s2 then Z.quot amt 2 else 0) v r0 Ev Ex) as Hr0.
    rewrite (cast_int_exact_or_error w (d_prim d2) r0 Hww Hw2 Hr0). unfold int_spec.
    destruct (in_range (d_prim d2) r0) eqn:Hrr; cbn [obind]; try discriminate.
    pose proof (validate_precision_total oc d2 r0 p2 Hd2 Hrr) as Hv.
    destruct (validate_precision oc d2 r0 p2); congruence.
  - exfalso. exact (rescale_body_no_panic w (s1 - s2) amt (if 0 <? s1 - s2 then Z.quot amt 2 else 0) v Ex).
Qed.

(* the two witnesses of the defects repaired by 770f0ed44 now succeed ... *)
Example rescale_sat : decimal_to_decimal true D64 D64 3 5 2 12345 = Ok 1235 /\ decimal_to_decimal true D64 D64 3 5 2 (-12345) = Ok (-1235)
  /\ decimal_to_decimal true D64 D64 2 3 1 12345 = Err
  /\ decimal_to_decimal true D128 D64 5 18 0 9999999999999999999 = Ok 100000000000000
  /\ decimal_to_decimal true D128 D64 20 18 0 150000000000000000000 = Ok 2.
Proof. vm_compute. repeat split; reflexivity. Qed.

(* ... and were refused by the code before it: Decimal128 -> Decimal64 converted the unscaled value
   to i64 first, and computed 10^|scale difference| in i64 *)
Lemma old_rescale_narrows_before_downscale :
  Old.decimal_to_decimal_narrow true D128 D64 5 18 0 9999999999999999999 = Err
  /\ rescale_spec 5 18 0 9999999999999999999 = Ok 100000000000000
  /\ decimal_to_decimal true D128 D64 5 18 0 9999999999999999999 = Ok 100000000000000.
Proof. vm_compute. repeat split; reflexivity. Qed.

Lemma old_rescale_factor_exceeds_target_primitive :
  Old.decimal_to_decimal_narrow true D128 D64 20 18 0 150000000000000000000 = Err
  /\ rescale_spec 20 18 0 150000000000000000000 = Ok 2
  /\ decimal_to_decimal true D128 D64 20 18 0 150000000000000000000 = Ok 2.
Proof. vm_compute. repeat split; reflexivity. Qed.

(* ---------- float -> decimal ---------- *)
Lemma log2_lt_pow : forall a, 0 < a -> a < 2 ^ (Z.log2 a + 1).
Proof. intros a Ha. pose proof (Z.log2_spec a Ha) as [_ H]. rewrite Z.add_1_r. exact H. Qed.

(* IEEE rounding of a * 2^t * 2^E is exact when a fits the mantissa and the result is neither
   below the subnormal ulp nor above the largest exponent *)
Lemma round_float_exact : forall f neg a t E,
  0 <= f_mbits f -> 0 < a -> a < 2 ^ (f_mbits f + 1) -> 0 <= t -> emin f <= E + t ->
  Z.max (E + t + (Z.log2 a + 1) - (f_mbits f + 1)) (emin f) <= emax f ->
  round_float f neg (a * 2 ^ t) E =
  FFin neg (a * 2 ^ (E + t - Z.max (E + t + (Z.log2 a + 1) - (f_mbits f + 1)) (emin f)))
           (Z.max (E + t + (Z.log2 a + 1) - (f_mbits f + 1)) (emin f)).
Proof.
  intros f neg a t E Hmb Ha Hap Ht Hemin Hemax.
  set (e' := Z.max (E + t + (Z.log2 a + 1) - (f_mbits f + 1)) (emin f)) in *.
  assert (HP : 0 < 2 ^ t) by (apply Z.pow_pos_nonneg; lia).
  assert (HM : 0 < a * 2 ^ t) by (apply Z.mul_pos_pos; lia).
  assert (Hlog : Z.log2 (a * 2 ^ t) = t + Z.log2 a) by (apply Z.log2_mul_pow2; lia).
  assert (Hl : 0 <= Z.log2 a) by apply Z.log2_nonneg.
  assert (Hlp : Z.log2 a < f_mbits f + 1) by (apply Z.log2_lt_pow2; lia).
  assert (He'E : e' <= E + t) by (subst e'; lia).
  unfold round_float. replace (a * 2 ^ t =? 0) with false by lia. cbv zeta. rewrite Hlog.
  match goal with |- context [Z.max ?x (emin f)] => replace (Z.max x (emin f)) with e' by (subst e'; lia) end.
  assert (Hm : (if e' <=? E then a * 2 ^ t * 2 ^ (E - e') else rne_shift (a * 2 ^ t) (e' - E)) = a * 2 ^ (E + t - e')).
  { destruct (e' <=? E) eqn:Ee.
    - rewrite <- Z.mul_assoc, <- Z.pow_add_r by lia. f_equal. f_equal. lia.
    - unfold rne_shift. set (k := e' - E). assert (Hk : 0 < k <= t) by lia.
      replace (a * 2 ^ t) with (a * 2 ^ (t - k) * 2 ^ k)
        by (rewrite <- Z.mul_assoc, <- Z.pow_add_r by lia; do 2 f_equal; lia).
      assert (Hk2 : 2 ^ k <> 0) by (apply Z.pow_nonzero; lia).
      rewrite Z.div_mul, Z.mod_mul by exact Hk2.
      assert (0 < 2 ^ (k - 1)) by (apply Z.pow_pos_nonneg; lia).
      replace (0 <? 2 ^ (k - 1)) with true by lia. f_equal. f_equal. lia. }
  rewrite Hm.
  assert (Hlt : a * 2 ^ (E + t - e') < 2 ^ (f_mbits f + 1)).
  { pose proof (log2_lt_pow a Ha) as Hb.
    assert (Hle : 2 ^ (Z.log2 a + 1) * 2 ^ (E + t - e') <= 2 ^ (f_mbits f + 1)).
    { rewrite <- Z.pow_add_r by lia. apply Z.pow_le_mono_r; subst e'; lia. }
    assert (0 < 2 ^ (E + t - e')) by (apply Z.pow_pos_nonneg; lia). nia. }
  replace (a * 2 ^ (E + t - e') =? 2 ^ (f_mbits f + 1)) with false by lia.
  replace (emax f <? e') with false by lia. reflexivity.
Qed.

(* .round() does not depend on the representation of the value *)
Lemma rha_me_scale : forall a e j, 0 <= j -> round_half_away_me (a * 2 ^ j) (e - j) = round_half_away_me a e.
Proof.
  intros a e j Hj. unfold round_half_away_me.
  destruct (0 <=? e - j) eqn:E1.
  - replace (0 <=? e) with true by lia. rewrite <- Z.mul_assoc, <- Z.pow_add_r by lia. do 2 f_equal. lia.
  - destruct (0 <=? e) eqn:E2.
    + set (k := - (e - j)). assert (Hk : 0 < k) by lia.
      assert (Hk2 : 0 < 2 ^ k) by (apply Z.pow_pos_nonneg; lia).
      replace (a * 2 ^ j) with (a * 2 ^ e * 2 ^ k)
        by (rewrite <- Z.mul_assoc, <- Z.pow_add_r by lia; do 2 f_equal; lia).
      rewrite Z.div_add_l by lia. rewrite Z.div_small; [lia|].
      split; [apply Z.pow_nonneg; lia|]. apply Z.pow_lt_mono_r; lia.
    + set (k0 := - e). assert (Hk0 : 0 < k0) by lia.
      replace (- (e - j)) with (j + k0) by lia.
      replace (j + k0 - 1) with (j + (k0 - 1)) by lia.
      rewrite !Z.pow_add_r by lia.
      replace (a * 2 ^ j + 2 ^ j * 2 ^ (k0 - 1)) with (2 ^ j * (a + 2 ^ (k0 - 1))) by lia.
      assert (0 < 2 ^ j) by (apply Z.pow_pos_nonneg; lia).
      assert (0 < 2 ^ k0) by (apply Z.pow_pos_nonneg; lia).
      rewrite Z.div_mul_cancel_l by lia. reflexivity.
Qed.

(* the integer the specification asks for, from the factored form 10^s = 5^s * 2^s *)
Lemma rha_me_scaled : forall m e s, 0 <= m -> 0 <= s ->
  round_half_away_me (m * 5 ^ s) (e + s) = scaled_rha m e s.
Proof.
  intros m e s Hm Hs. unfold round_half_away_me, scaled_rha.
  assert (H10 : 10 ^ s = 5 ^ s * 2 ^ s) by (change 10 with (5 * 2); apply Z.pow_mul_l).
  assert (H5 : 0 < 5 ^ s) by (apply Z.pow_pos_nonneg; lia).
  assert (H2 : 0 < 2 ^ s) by (apply Z.pow_pos_nonneg; lia).
  destruct (0 <=? e) eqn:E1.
  - replace (0 <=? e + s) with true by lia. rewrite H10, Z.pow_add_r by lia. lia.
  - set (k := - e). assert (Hk : 0 < k) by lia.
    assert (Hk2 : 0 < 2 ^ k) by (apply Z.pow_pos_nonneg; lia).
    assert (Ha : 0 <= m * 10 ^ s) by nia.
    unfold rha_div. rewrite (Z.abs_eq (m * 10 ^ s)) by exact Ha.
    destruct (0 <=? e + s) eqn:E2.
    + (* k <= s: the product is an integer *)
      assert (Hx : m * 10 ^ s = m * 5 ^ s * 2 ^ (e + s) * 2 ^ k).
      { rewrite H10. replace s with ((e + s) + k) at 2 by lia. rewrite Z.pow_add_r by lia. lia. }
      set (X := m * 5 ^ s * 2 ^ (e + s)) in *.
      assert (HX : 0 <= X) by (subst X; assert (0 <= 2 ^ (e + s)) by (apply Z.pow_nonneg; lia); nia).
      rewrite Hx.
      replace (2 * (X * 2 ^ k) + 2 ^ k) with (X * (2 * 2 ^ k) + 2 ^ k) by lia.
      rewrite Z.div_add_l by lia. rewrite (Z.div_small (2 ^ k)) by lia.
      destruct (Z.eq_dec X 0) as [H0|H0].
      * rewrite H0. reflexivity.
      * rewrite Z.sgn_pos by nia. lia.
    + set (k' := - (e + s)). assert (Hk' : 0 < k') by lia.
      assert (Hkk : 2 ^ k = 2 ^ s * 2 ^ k') by (rewrite <- Z.pow_add_r by lia; f_equal; lia).
      assert (Hk'2 : 0 < 2 ^ k') by (apply Z.pow_pos_nonneg; lia).
      rewrite H10, Hkk.
      replace (2 * (m * (5 ^ s * 2 ^ s)) + 2 ^ s * 2 ^ k') with (2 ^ s * (2 * (m * 5 ^ s) + 2 ^ k')) by lia.
      replace (2 * (2 ^ s * 2 ^ k')) with (2 ^ s * (2 * 2 ^ k')) by lia.
      rewrite Z.div_mul_cancel_l by lia.
      assert (Hhalf : 2 ^ k' = 2 * 2 ^ (k' - 1)).
      { replace k' with (Z.succ (k' - 1)) at 1 by lia. rewrite Z.pow_succ_r by lia. reflexivity. }
      set (A := m * 5 ^ s) in *. assert (HA : 0 <= A) by (subst A; nia).
      assert (Hq : (A + 2 ^ (k' - 1)) / 2 ^ k' = (2 * A + 2 ^ k') / (2 * 2 ^ k')).
      { rewrite Hhalf at 2. replace (2 * A + 2 * 2 ^ (k' - 1)) with (2 * (A + 2 ^ (k' - 1))) by lia.
        rewrite Z.div_mul_cancel_l by lia. reflexivity. }
      rewrite Hq.
      destruct (Z.eq_dec m 0) as [H0|H0].
      * assert (HA0 : A = 0) by (unfold A; rewrite H0; apply Z.mul_0_l).
        rewrite HA0, H0. replace (Z.sgn (0 * (5 ^ s * 2 ^ s))) with 0 by reflexivity.
        rewrite Z.mul_0_l. apply Z.div_small. lia.
      * rewrite Z.sgn_pos by nia. lia.
Qed.

(* 10f64.powi(s) is exactly 10^s for 0 <= s <= 22, with a normalised 53-bit mantissa *)
Lemma powi10_exact : forall s, 0 <= s <= 22 ->
  exists j, 0 <= j /\ powi10 s = FFin false (5 ^ s * 2 ^ j) (s - j).
Proof.
  intros s Hs.
  assert (H : s = 0 \/ s = 1 \/ s = 2 \/ s = 3 \/ s = 4 \/ s = 5 \/ s = 6 \/ s = 7 \/ s = 8 \/ s = 9 \/ s = 10 \/ s = 11
              \/ s = 12 \/ s = 13 \/ s = 14 \/ s = 15 \/ s = 16 \/ s = 17 \/ s = 18 \/ s = 19 \/ s = 20 \/ s = 21 \/ s = 22) by lia.
  repeat (destruct H as [-> | H]); try subst s;
    match goal with |- exists j, _ /\ powi10 ?c = _ =>
      first [ exists 0; split; [lia | vm_compute; reflexivity]       (* s = 0: the literal 1.0 *)
            | exists (52 - Z.log2 (5 ^ c)); split; [vm_compute; congruence | vm_compute; reflexivity] ]
    end.
Qed.

(* float -> DECIMAL(p,s), exact whenever the scaled odd part of the mantissa fits the 53 bits of an
   f64 (m = a * 2^t, a * 5^s < 2^53: the product v * 10^s is then computed without a rounding
   error): the cast IS the specification round_half_away(v * 10^s) of the exact binary value, an
   error when that does not fit DECIMAL(p,s) *)
Lemma float_to_decimal_exact_when_representable : forall oc f d p s bits neg m e a t,
  std_dty d -> 0 <= p <= d_maxp d -> 0 <= s <= 22 ->
  decode f bits = FFin neg m e -> m = a * 2 ^ t -> 0 <= a -> 0 <= t -> m < 2 ^ 53 -> a * 5 ^ s < 2 ^ 53 ->
  -1074 <= e -> e + t + s <= 971 ->
  float_to_decimal oc f d p s bits = float_decimal_spec f p s bits.
Proof.
  intros oc f d p s bits neg m e a t Hd Hp Hs Hdec Hma Ha0 Ht Hm53 Hfit Hlo Hhi.
  unfold float_to_decimal, float_decimal_spec, to_f64. rewrite Hdec. rewrite Z.abs_eq by lia.
  destruct (powi10_exact s Hs) as [j2 [Hj2 Hpow]]. rewrite Hpow.
  assert (H5 : 0 < 5 ^ s) by (apply Z.pow_pos_nonneg; lia).
  assert (H2t : 0 < 2 ^ t) by (apply Z.pow_pos_nonneg; lia).
  destruct (Z.eq_dec a 0) as [Ha | Ha].
  - (* zero *)
    assert (Hm0 : m = 0) by (rewrite Hma, Ha; apply Z.mul_0_l). rewrite Hm0.
    assert (Hz : forall n E, round_float F64 n 0 E = FFin n 0 (-1074)) by reflexivity.
    rewrite Hz. cbn [fmul]. rewrite Z.mul_0_l. rewrite Hz.
    assert (Hr : round_half_away_me 0 (-1074) = 0) by (vm_compute; reflexivity).
    rewrite Hr.
    assert (Hs0 : scaled_rha 0 e s = 0).
    { unfold scaled_rha. destruct (0 <=? e); [lia|]. unfold rha_div. rewrite Z.mul_0_l. reflexivity. }
    rewrite Hs0.
    assert (Hsg : forall b, signed b 0 = 0) by (intros []; reflexivity).
    rewrite !Hsg. cbv zeta. apply range_validate; auto.
  - assert (Hapos : 0 < a) by lia.
    assert (Hmpos : 0 < m) by (rewrite Hma; apply Z.mul_pos_pos; lia).
    (* widening to f64 is exact *)
    pose proof (round_float_exact F64 neg m 0 e) as Hw.
    change (f_mbits F64 + 1) with 53 in Hw. change (emin F64) with (-1074) in Hw. change (emax F64) with 971 in Hw.
    change (2 ^ 0) with 1 in Hw. rewrite Z.mul_1_r in Hw.
    assert (Hl1 : 0 <= Z.log2 m < 53) by (split; [apply Z.log2_nonneg | apply Z.log2_lt_pow2; lia]).
    assert (Hlt : t <= Z.log2 m) by (rewrite Hma, Z.log2_mul_pow2 by lia; pose proof (Z.log2_nonneg a); lia).
    specialize (Hw ltac:(cbn; lia) Hmpos Hm53 ltac:(lia) ltac:(lia) ltac:(lia)).
    set (e1 := Z.max (e + 0 + (Z.log2 m + 1) - 53) (-1074)) in *.
    rewrite Hw. cbn [fmul]. rewrite Bool.xorb_false_r.
    (* the product is exact *)
    set (j1 := e + 0 - e1) in *. assert (Hj1 : 0 <= j1) by (subst j1 e1; lia).
    replace (m * 2 ^ j1 * (5 ^ s * 2 ^ j2)) with (a * 5 ^ s * 2 ^ (t + j1 + j2))
      by (rewrite Hma, !Z.pow_add_r by lia; lia).
    set (c := a * 5 ^ s) in *. assert (Hc : 0 < c) by (subst c; nia).
    pose proof (round_float_exact F64 neg c (t + j1 + j2) (e1 + (s - j2))) as Hx.
    change (f_mbits F64 + 1) with 53 in Hx. change (emin F64) with (-1074) in Hx. change (emax F64) with 971 in Hx.
    assert (Hl2 : 0 <= Z.log2 c < 53) by (split; [apply Z.log2_nonneg | apply Z.log2_lt_pow2; lia]).
    assert (HEt : e1 + (s - j2) + (t + j1 + j2) = e + t + s) by (subst j1; lia).
    rewrite HEt in Hx.
    specialize (Hx ltac:(cbn; lia) Hc Hfit ltac:(lia) ltac:(lia) ltac:(lia)).
    set (e2 := Z.max (e + t + s + (Z.log2 c + 1) - 53) (-1074)) in *.
    rewrite Hx.
    assert (Hr : round_half_away_me (c * 2 ^ (e + t + s - e2)) e2 = scaled_rha m e s).
    { replace e2 with ((e + t + s) - (e + t + s - e2)) at 2 by lia.
      rewrite rha_me_scale by (subst e2; lia).
      rewrite <- (rha_me_scaled m e s) by lia.
      replace (m * 5 ^ s) with (c * 2 ^ t) by (subst c; rewrite Hma; lia).
      replace (e + s) with ((e + t + s) - t) by lia. rewrite rha_me_scale by lia. reflexivity. }
    cbv zeta. rewrite Hr. apply range_validate; auto.
Qed.

Lemma float_to_decimal_exact_when_representable_val : forall oc f d p s bits neg m e a t,
  std_dty d -> 0 <= p <= d_maxp d -> 0 <= s <= 22 ->
  decode f bits = FFin neg m e -> m = a * 2 ^ t -> 0 <= a -> 0 <= t -> m < 2 ^ 53 -> a * 5 ^ s < 2 ^ 53 ->
  -1074 <= e -> e + t + s <= 971 ->
  float_to_decimal oc f d p s bits =
  (let r := signed neg (if 0 <=? e then m * 10 ^ s * 2 ^ e else rha_div (m * 10 ^ s) (2 ^ (- e))) in
   if Z.abs r <? 10 ^ p then Ok r else Err).
Proof.
  intros oc f d p s bits neg m e a t Hd Hp Hs Hdec Hma Ha0 Ht Hm53 Hfit Hlo Hhi.
  rewrite (float_to_decimal_exact_when_representable oc f d p s bits neg m e a t Hd Hp Hs Hdec Hma Ha0 Ht Hm53 Hfit Hlo Hhi).
  unfold float_decimal_spec. rewrite Hdec. reflexivity.
Qed.

Example float_representable_hyps_sat :      (* f64 2.5 = 5 * 2^50 * 2^-51 as DECIMAL(5,2) *)
  decode F64 4612811918334230528 = FFin false 5629499534213120 (-51) /\ 5629499534213120 = 5 * 2 ^ 50
  /\ 5 * 5 ^ 2 < 2 ^ 53 /\ float_to_decimal true F64 D64 5 2 4612811918334230528 = Ok 250.
Proof. vm_compute. repeat split; reflexivity. Qed.

Lemma decode_f32_bounds : forall bits neg m e, decode F32 bits = FFin neg m e -> 0 <= m < 2 ^ 24 /\ -149 <= e <= 104.
Proof.
  intros bits neg m e H. unfold decode, f_bias in H. cbn [F32 f_mbits f_ebits] in H.
  change (8 - 1) with 7 in H. change (23 + 8) with 31 in H. eval_pows.
  pose proof (Z.mod_pos_bound bits 8388608 eq_refl) as H1.
  pose proof (Z.mod_pos_bound (bits / 8388608) 256 eq_refl) as H2.
  destruct (_ =? 256 - 1) eqn:E1 in H; [destruct (_ =? 0) in H; discriminate|].
  destruct ((bits / 8388608) mod 256 =? 0) eqn:E2; inversion H; subst; lia.
Qed.

(* every f32 (zero, subnormals, both signs), every scale 0..12: v * 10^s is exact in f64 *)
Lemma float32_to_decimal_exact_or_error : forall oc d p s bits,
  std_dty d -> 0 <= p <= d_maxp d -> 0 <= s <= 12 ->
  float_to_decimal oc F32 d p s bits = float_decimal_spec F32 p s bits.
Proof.
  intros oc d p s bits Hd Hp Hs.
  destruct (decode F32 bits) as [|ng|ng m e] eqn:Hdec.
  - unfold float_to_decimal, float_decimal_spec, to_f64. rewrite Hdec.
    destruct (powi10 (Z.abs s)); reflexivity.
  - unfold float_to_decimal, float_decimal_spec, to_f64. rewrite Hdec.
    destruct (powi10_exact s ltac:(lia)) as [j [Hj Hpw]]. rewrite Z.abs_eq by lia. rewrite Hpw. cbn [fmul].
    assert (H5 : 0 < 5 ^ s) by (apply Z.pow_pos_nonneg; lia).
    assert (0 < 2 ^ j) by (apply Z.pow_pos_nonneg; lia).
    replace (5 ^ s * 2 ^ j =? 0) with false by nia. reflexivity.
  - destruct (decode_f32_bounds bits ng m e Hdec) as [Hm He].
    assert (H5 : 0 < 5 ^ s <= 5 ^ 12) by (split; [apply Z.pow_pos_nonneg; lia | apply Z.pow_le_mono_r; lia]).
    change (5 ^ 12) with 244140625 in H5. change (2 ^ 24) with 16777216 in Hm.
    apply (float_to_decimal_exact_when_representable oc F32 d p s bits ng m e m 0); auto; try lia.
    change (2 ^ 53) with 9007199254740992. nia.
Qed.

Example float_to_decimal_sat :
  float_to_decimal true F32 D64 18 9 1092091904 = Ok 9500000000               (* 9.5f32 *)
  /\ float_decimal_spec F32 18 9 1092091904 = Ok 9500000000
  /\ float_to_decimal true F64 D64 5 2 4612811918334230528 = Ok 250            (* 2.5f64 *)
  /\ float_to_decimal true F32 D64 3 1 1120403456 = Err.                      (* 100f32 as DECIMAL(3,1) *)
Proof. vm_compute. repeat split; reflexivity. Qed.

(* the defect repaired by 770f0ed44: scale factor and product in the SOURCE float type *)
Lemma old_float_to_decimal_source_format :
  Old.float_to_decimal_srcfmt true F32 D64 18 9 1092091904 = Ok 9500000256
  /\ float_decimal_spec F32 18 9 1092091904 = Ok 9500000000
  /\ float_to_decimal true F32 D64 18 9 1092091904 = Ok 9500000000.
Proof. vm_compute. repeat split; reflexivity. Qed.

(* STILL OPEN for f64 (and for f32 with a scale above 12): the product v * 10^s is rounded to f64
   before .round().  f64 1.115 is exactly 1.1149999999999999911..., the product rounds to 111.5 *)
Lemma float_to_decimal_double_rounding :
  float_to_decimal true F64 D64 5 2 4607700332757165015 = Ok 112
  /\ float_decimal_spec F64 5 2 4607700332757165015 = Ok 111.
Proof. vm_compute. split; reflexivity. Qed.


(* ---------- nested casts ---------- *)
Definition ity_of (x : bool * Z) : ity := mk_ity (fst x) (snd x).
Definition std_widthb (b : Z) : bool := (b =? 8) || (b =? 16) || (b =? 32) || (b =? 64) || (b =? 128).
Definition widening (x a : ity) : bool :=
  std_widthb (i_bits x) && std_widthb (i_bits a) && (imin a <=? imin x) && (imax x <=? imax a).
Definition safe_flag (x a : ity) : bool :=
  existsb (fun e => Bool.eqb (i_signed x) (fst (fst e)) && (i_bits x =? snd (fst e))
                    && Bool.eqb (i_signed a) (fst (snd e)) && (i_bits a =? snd (snd e))) safe_int_casts.

(* every integer cast the current source flags CastFlatten::Safe is a widening (cannot fail) *)
Lemma safe_table_widening : forallb (fun e => widening (ity_of (fst e)) (ity_of (snd e))) safe_int_casts = true.
Proof. vm_compute. reflexivity. Qed.

Lemma std_widthb_ok b : std_widthb b = true -> std_width b.
Proof. unfold std_widthb, std_width. lia. Qed.

Lemma safe_flag_widening : forall x a, safe_flag x a = true -> widening x a = true.
Proof.
  intros [xs xb] [as_ ab] H. unfold safe_flag in H. apply existsb_exists in H. destruct H as [e [Hin He]].
  pose proof (proj1 (forallb_forall _ _) safe_table_widening e Hin) as Hw.
  cbn [i_signed i_bits] in He. destruct e as [[es eb] [fs fb]]. cbn [fst snd] in *.
  assert (xs = es /\ xb = eb /\ as_ = fs /\ ab = fb) as [-> [-> [-> ->]]].
  { repeat (apply andb_true_iff in He; destruct He as [He ?]).
    repeat match goal with H : Bool.eqb _ _ = true |- _ => apply Bool.eqb_prop in H end. repeat split; auto; lia. }
  exact Hw.
Qed.

Lemma widening_cast_ok : forall x a v, widening x a = true -> in_range x v = true ->
  cast_int x a v = Ok v /\ in_range a v = true /\ std_width (i_bits x) /\ std_width (i_bits a).
Proof.
  intros x a v Hw Hr. unfold widening in Hw.
  repeat (apply andb_true_iff in Hw; destruct Hw as [Hw ?]).
  pose proof (std_widthb_ok _ Hw) as Hx. pose proof (std_widthb_ok _ H1) as Ha.
  assert (Hra : in_range a v = true) by (unfold in_range in *; lia).
  rewrite (cast_int_exact_or_error x a v Hx Ha Hr). unfold int_spec. rewrite Hra. auto.
Qed.

(* flattening CAST(CAST(x AS A) AS B) to CAST(x AS B): done only when both x -> B and the dropped
   x -> A are flagged Safe (read from the current source), and then the planned expression computes
   exactly what the nested one does *)
Lemma cast_flatten_sound :
  flatten_requires_direct_safe = Some true /\ flatten_requires_inner_safe = Some true /\
  (forall x a b v, std_width (i_bits b) -> in_range x v = true ->
     planned_nested_cast safe_flag x a b v = nested_cast x a b v).
Proof.
  split; [reflexivity|]. split; [reflexivity|].
  intros x a b v Hb Hr. unfold planned_nested_cast, flatten_decision.
  destruct (safe_flag x b) eqn:Eb; cbn [andb]; [|reflexivity].
  destruct (safe_flag x a) eqn:Ea; [|reflexivity].
  destruct (widening_cast_ok x a v (safe_flag_widening x a Ea) Hr) as [Hc [Hra [Hx Ha]]].
  unfold nested_cast. rewrite Hc. cbn [obind].
  rewrite (cast_int_exact_or_error x b v Hx Hb Hr), (cast_int_exact_or_error a b v Ha Hb Hra). reflexivity.
Qed.

Example flatten_sat : safe_flag (mk_ity true 16) (mk_ity true 64) = true /\ safe_flag (mk_ity true 32) (mk_ity true 16) = false
  /\ planned_nested_cast safe_flag (mk_ity true 32) (mk_ity true 16) (mk_ity true 64) 70000 = Err.
Proof. vm_compute. repeat split; reflexivity. Qed.

(* ---------- the code before the repairs: closed witnesses of the defects (Module Old) ---------- *)
Lemma old_rescale_respects_precision_refuted :
  exists d1 d2 s1 p2 s2 v r, Old.decimal_to_decimal true d1 d2 s1 p2 s2 v = Ok r /\ 10 ^ p2 <= Z.abs r
                             /\ rescale_spec s1 p2 s2 v = Err.
Proof. exists D64, D64, 2, 3, 1, 12345, 1235. vm_compute. repeat split; congruence. Qed.

Lemma old_int_to_decimal_scale10_panics : Old.int_to_decimal true (mk_ity true 32) D64 18 10 1 = Panic
  /\ Old.int_to_decimal false (mk_ity true 32) D64 18 10 1 = Ok 1410065408.
Proof. vm_compute. split; reflexivity. Qed.

Lemma old_int_to_decimal_min_panics : Old.int_to_decimal true I64 D64 18 0 (- 2 ^ 63) = Panic.
Proof. vm_compute. reflexivity. Qed.

Lemma old_flatten_unsound :
  (* before ba9d5049d only the direct cast was required to be Safe *)
  cast_int (mk_ity true 32) (mk_ity true 64) 70000 = Ok 70000
  /\ nested_cast (mk_ity true 32) (mk_ity true 16) (mk_ity true 64) 70000 = Err.
Proof. vm_compute. split; reflexivity. Qed.
