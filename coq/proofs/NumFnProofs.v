(* Proofs about model/NumFn.v: each transcribed function against its mathematical definition, for
   every width w (universally quantified, no finite sweep). *)
From Coq Require Import ZArith List Bool Lia ZifyBool Znumtheory.
From GV Require Import model.Arith model.Decimal model.NumFn proofs.ArithProofs proofs.DecimalProofs gen.TablesNumfn.
Import ListNotations.
Open Scope Z_scope.

(* ------------------------------------------------------------------ ranges *)
Lemma lo_signed_neg : forall w, 0 < w -> lo Signed w < 0.
Proof. intros w Hw. cbn [lo]. pose proof (pow2_pos (w - 1) ltac:(lia)). lia. Qed.

Lemma hi_signed : forall w, hi Signed w = - lo Signed w - 1.
Proof. intros w. cbn [hi lo]. lia. Qed.

Lemma signed_range : forall w x, in_range Signed w x = true <-> - 2 ^ (w - 1) <= x <= 2 ^ (w - 1) - 1.
Proof. intros w x. rewrite in_range_iff. cbn [lo hi]. tauto. Qed.

Lemma unsigned_range : forall w x, in_range Unsigned w x = true <-> 0 <= x <= 2 ^ w - 1.
Proof. intros w x. rewrite in_range_iff. cbn [lo hi]. tauto. Qed.

(* ------------------------------------------------------------------ abs *)
Lemma rust_abs_ok : forall m w a, 0 < w -> in_range Signed w a = true -> a <> lo Signed w ->
  rust_abs m w a = Ok (Z.abs a) /\ 0 <= Z.abs a <= hi Signed w.
Proof.
  intros m w a Hw Ha Hmin. apply signed_range in Ha. cbn [lo] in Hmin.
  assert (Hr : in_range Signed w (Z.abs a) = true) by (apply signed_range; lia).
  split.
  - unfold rust_abs. apply arith_result_exact; assumption.
  - cbn [hi]. lia.
Qed.

Lemma rust_abs_min : forall m w, 0 < w ->
  rust_abs m w (lo Signed w) = match m with Debug => Panic | Release => Ok (lo Signed w) end.
Proof.
  intros m w Hw. unfold rust_abs, arith_result.
  pose proof (pow2_pos (w - 1) ltac:(lia)) as Hp.
  assert (Habs : Z.abs (lo Signed w) = 2 ^ (w - 1)) by (cbn [lo]; lia).
  assert (Hout : in_range Signed w (2 ^ (w - 1)) = false).
  { apply in_range_false_iff. cbn [lo hi]. lia. }
  rewrite Habs, Hout. destruct m; [reflexivity|].
  f_equal. cbn [wrap lo]. rewrite (pow2_split w Hw).
  replace (2 ^ (w - 1) + 2 ^ (w - 1)) with (0 + 1 * (2 * 2 ^ (w - 1))) by lia.
  rewrite Z.mod_add by lia. rewrite Z.mod_0_l by lia. lia.
Qed.

Lemma rust_abs_cases : forall m w a, 0 < w -> in_range Signed w a = true ->
  rust_abs m w a = Panic \/ exists a', rust_abs m w a = Ok a' /\ in_range Signed w a' = true.
Proof.
  intros m w a Hw Ha. destruct (Z.eq_dec a (lo Signed w)) as [E|E].
  - subst a. rewrite rust_abs_min by assumption. destruct m; [left; reflexivity|].
    right. exists (lo Signed w). split; [reflexivity|assumption].
  - destruct (rust_abs_ok m w a Hw Ha E) as [H1 H2]. right. exists (Z.abs a). split; [assumption|].
    apply in_range_iff. pose proof (lo_signed_neg w Hw). lia.
Qed.

(* ------------------------------------------------------------------ the Euclid loop *)
Lemma rust_rem_nonneg : forall w a b, 0 < w -> 0 <= a -> b <> 0 -> rust_rem w a b = Ok (Z.rem a b).
Proof.
  intros w a b Hw Ha Hb. unfold rust_rem, div_fault.
  pose proof (lo_signed_neg w Hw).
  replace (b =? 0) with false by lia. replace (a =? lo Signed w) with false by lia. reflexivity.
Qed.

Lemma euclid_gcd : forall fuel w a b r, 0 < w -> 0 <= a -> 0 <= b ->
  euclid fuel w a b = Some r -> r = Ok (Z.gcd a b).
Proof.
  induction fuel as [|f IH]; intros w a b r Hw Ha Hb He; cbn [euclid] in He.
  - destruct (b =? 0) eqn:Eb; [|discriminate].
    apply Z.eqb_eq in Eb. subst b. inversion He. rewrite Z.gcd_0_r, Z.abs_eq by assumption. reflexivity.
  - destruct (b =? 0) eqn:Eb.
    + apply Z.eqb_eq in Eb. subst b. inversion He. rewrite Z.gcd_0_r, Z.abs_eq by assumption. reflexivity.
    + apply Z.eqb_neq in Eb. rewrite rust_rem_nonneg in He by assumption.
      assert (Hr : 0 <= Z.rem a b) by (apply Z.rem_nonneg; lia).
      specialize (IH w b (Z.rem a b) r Hw Hb Hr He). subst r. f_equal.
      rewrite Z.rem_mod_nonneg by lia.
      rewrite (Z.gcd_comm b (a mod b)), Z.gcd_mod by assumption. apply Z.gcd_comm.
Qed.

(* |x mod y| at least halves x *)
Lemma mod_halves : forall x y, 0 < y -> y < x -> 2 * (x mod y) < x.
Proof.
  intros x y Hy Hxy.
  pose proof (Z.mod_pos_bound x y Hy) as Hm.
  pose proof (Z.div_mod x y ltac:(lia)) as Hd.
  assert (Hq : 1 <= x / y) by (apply Z.div_le_lower_bound; lia).
  nia.
Qed.

Lemma rust_rem_cases : forall w a b, rust_rem w a b = Panic \/ rust_rem w a b = Ok (Z.rem a b).
Proof. intros w a b. unfold rust_rem. destruct (div_fault Signed w a b); [left|right]; reflexivity. Qed.

Lemma abs_rem_lt : forall a b, b <> 0 -> Z.abs (Z.rem a b) < Z.abs b.
Proof. intros a b Hb. rewrite <- Z.rem_abs by assumption. apply Z.rem_bound_pos; lia. Qed.

(* termination: |b| < 2^n needs at most 2n + 1 iterations *)
Lemma euclid_terminates : forall n w a b, Z.abs b < 2 ^ Z.of_nat n -> euclid (S (2 * n)) w a b <> None.
Proof.
  induction n as [|n IH]; intros w a b Hb.
  - cbn [Z.of_nat] in Hb. change (2 ^ 0) with 1 in Hb. assert (b = 0) by lia. subst b.
    cbn. discriminate.
  - replace (S (2 * S n)) with (S (S (S (2 * n)))) by lia.
    cbn [euclid]. destruct (b =? 0) eqn:Eb; [discriminate|]. apply Z.eqb_neq in Eb.
    destruct (rust_rem_cases w a b) as [E|E]; rewrite E; [discriminate|].
    set (r1 := Z.rem a b).
    destruct (r1 =? 0) eqn:Er1; [discriminate|]. apply Z.eqb_neq in Er1.
    destruct (rust_rem_cases w b r1) as [E2|E2]; rewrite E2; [discriminate|].
    apply IH.
    pose proof (abs_rem_lt a b Eb) as H1. fold r1 in H1.
    rewrite <- Z.rem_abs by assumption.
    rewrite Z.rem_mod_nonneg by lia.
    pose proof (mod_halves (Z.abs b) (Z.abs r1) ltac:(lia) H1) as H2.
    rewrite Nat2Z.inj_succ, Z.pow_succ_r in Hb by lia. lia.
Qed.

Lemma euclid_fuel_ok : forall w a b, 0 < w -> in_range Signed w b = true ->
  euclid (euclid_fuel w) w a b <> None.
Proof.
  intros w a b Hw Hb. unfold euclid_fuel. apply euclid_terminates.
  rewrite Z2Nat.id by lia. apply signed_range in Hb.
  pose proof (pow2_split w Hw). pose proof (pow2_pos (w - 1) ltac:(lia)). lia.
Qed.

(* ------------------------------------------------------------------ gcd *)
Lemma gcd_le_abs : forall a b, a <> 0 -> Z.gcd a b <= Z.abs a.
Proof.
  intros a b Ha. pose proof (Z.gcd_divide_l a b) as Hd. pose proof (Z.gcd_nonneg a b) as Hn.
  apply Z.divide_abs_r in Hd. apply Z.divide_pos_le in Hd; lia.
Qed.

Lemma gcd_in_range : forall w a b, 0 < w -> in_range Signed w a = true -> in_range Signed w b = true ->
  a <> lo Signed w -> b <> lo Signed w -> in_range Signed w (Z.gcd a b) = true.
Proof.
  intros w a b Hw Ha Hb Na Nb. apply signed_range in Ha. apply signed_range in Hb. cbn [lo] in Na, Nb.
  apply signed_range. pose proof (Z.gcd_nonneg a b) as Hn.
  pose proof (pow2_pos (w - 1) ltac:(lia)).
  destruct (Z.eq_dec a 0) as [E|E].
  - subst a. rewrite Z.gcd_0_l. lia.
  - pose proof (gcd_le_abs a b E). lia.
Qed.

Lemma old_gcd_correct_partial : forall m w a b, 0 < w ->
  in_range Signed w a = true -> in_range Signed w b = true -> a <> lo Signed w -> b <> lo Signed w ->
  old_impl_gcd m w a b = Some (spec_gcd w a b).
Proof.
  intros m w a b Hw Ha Hb Na Nb.
  destruct (rust_abs_ok m w a Hw Ha Na) as [Ea Ra]. destruct (rust_abs_ok m w b Hw Hb Nb) as [Eb Rb].
  pose proof (gcd_in_range w a b Hw Ha Hb Na Nb) as Hg.
  unfold old_impl_gcd, spec_gcd, spec_of. rewrite Ea, Eb, Hg.
  destruct (Z.abs a =? 0) eqn:Za.
  - apply Z.eqb_eq in Za. assert (a = 0) by lia. subst a. reflexivity.
  - destruct (Z.abs b =? 0) eqn:Zb.
    + apply Z.eqb_eq in Zb. assert (b = 0) by lia. subst b. rewrite Z.gcd_0_r. reflexivity.
    + destruct (euclid (euclid_fuel w) w (Z.abs a) (Z.abs b)) as [r|] eqn:Ee.
      * apply euclid_gcd in Ee; [|lia..]. subst r. rewrite Z.gcd_abs_l, Z.gcd_abs_r. reflexivity.
      * exfalso. revert Ee. apply euclid_fuel_ok; [assumption|]. apply in_range_iff.
        pose proof (lo_signed_neg w Hw). lia.
Qed.

Lemma old_gcd_terminates : forall m w a b, 0 < w -> in_range Signed w a = true -> in_range Signed w b = true ->
  old_impl_gcd m w a b <> None.
Proof.
  intros m w a b Hw Ha Hb. unfold old_impl_gcd.
  destruct (rust_abs_cases m w a Hw Ha) as [E|[a' [E Ra]]]; rewrite E; [discriminate|].
  destruct (rust_abs_cases m w b Hw Hb) as [E2|[b' [E2 Rb]]]; rewrite E2; [discriminate|].
  destruct (a' =? 0); [discriminate|]. destruct (b' =? 0); [discriminate|].
  apply euclid_fuel_ok; assumption.
Qed.

(* at the type minimum: a panic with overflow checks, for every second argument *)
Lemma old_gcd_min_panics_debug : forall w b, 0 < w ->
  old_impl_gcd Debug w (lo Signed w) b = Some Panic /\ old_impl_gcd Debug w b (lo Signed w) <> Some (spec_gcd w b (lo Signed w)).
Proof.
  intros w b Hw. unfold old_impl_gcd. rewrite (rust_abs_min Debug w Hw). split; [reflexivity|].
  unfold rust_abs, arith_result. destruct (in_range Signed w (Z.abs b));
    unfold spec_gcd, spec_of; destruct (in_range Signed w (Z.gcd b (lo Signed w))); discriminate.
Qed.

Lemma old_gcd_refuted :
  old_impl_gcd Debug 8 (-128) 6 = Some Panic /\ old_impl_gcd Release 8 (-128) 6 = Some (Ok (-2)) /\ spec_gcd 8 (-128) 6 = Ok 2 /\
  old_impl_gcd Release 8 (-128) (-128) = Some (Ok (-128)) /\ spec_gcd 8 (-128) (-128) = Err /\
  old_impl_gcd Release 64 (- 2 ^ 63) 0 = Some (Ok (- 2 ^ 63)) /\ spec_gcd 64 (- 2 ^ 63) 0 = Err.
Proof. vm_compute. repeat split; reflexivity. Qed.

(* ------------------------------------------------------------------ lcm *)
Lemma lcm_formula : forall a b, a <> 0 -> Z.quot (Z.abs a) (Z.gcd a b) * Z.abs b = Z.lcm a b.
Proof.
  intros a b Ha. unfold Z.lcm.
  pose proof (Z.gcd_nonneg a b) as Hn.
  assert (Hg : Z.gcd a b <> 0) by (intro E; apply Z.gcd_eq_0_l in E; contradiction).
  destruct (Z.gcd_divide_l a b) as [a' Ea]. destruct (Z.gcd_divide_r a b) as [b' Eb].
  set (g := Z.gcd a b) in *.
  rewrite Z.quot_div_nonneg by lia.
  rewrite Eb at 2. rewrite Z.div_mul by assumption.
  rewrite Ea at 1. rewrite Z.abs_mul, (Z.abs_eq g) by lia. rewrite Z.div_mul by assumption.
  rewrite Eb at 1. rewrite Ea at 1. rewrite !Z.abs_mul, (Z.abs_eq g) by lia. ring.
Qed.

Lemma old_lcm_euclid : forall m w a b, 0 < w ->
  in_range Signed w a = true -> in_range Signed w b = true -> a <> lo Signed w -> b <> lo Signed w ->
  a <> 0 -> b <> 0 ->
  old_impl_lcm m w a b = Some (arith_result Native m Signed w (Z.lcm a b)).
Proof.
  intros m w a b Hw Ha Hb Na Nb Za Zb.
  destruct (rust_abs_ok m w a Hw Ha Na) as [Ea Ra]. destruct (rust_abs_ok m w b Hw Hb Nb) as [Eb Rb].
  unfold old_impl_lcm. replace (a =? 0) with false by lia. replace (b =? 0) with false by lia. cbn [orb].
  rewrite Ea, Eb.
  destruct (euclid (euclid_fuel w) w (Z.abs a) (Z.abs b)) as [r|] eqn:Ee.
  - apply euclid_gcd in Ee; [|lia..]. subst r. rewrite Z.gcd_abs_l, Z.gcd_abs_r.
    pose proof (Z.gcd_nonneg a b) as Hn.
    assert (Hg : Z.gcd a b <> 0) by (intro E; apply Z.gcd_eq_0_l in E; contradiction).
    pose proof (lo_signed_neg w Hw).
    unfold rust_div, div_fault.
    replace (Z.gcd a b =? 0) with false by lia. replace (Z.abs a =? lo Signed w) with false by lia.
    cbn [orb andb bind_out]. unfold rust_mul. rewrite lcm_formula by assumption. reflexivity.
  - exfalso. revert Ee. apply euclid_fuel_ok; [assumption|]. apply in_range_iff.
    pose proof (lo_signed_neg w Hw). lia.
Qed.

Lemma old_lcm_correct_partial : forall m w a b, 0 < w ->
  in_range Signed w a = true -> in_range Signed w b = true -> a <> lo Signed w -> b <> lo Signed w ->
  in_range Signed w (Z.lcm a b) = true ->
  old_impl_lcm m w a b = Some (spec_lcm w a b).
Proof.
  intros m w a b Hw Ha Hb Na Nb Hl. unfold spec_lcm, spec_of. rewrite Hl.
  destruct (Z.eq_dec a 0) as [Za|Za].
  - subst a. rewrite Z.lcm_0_l. reflexivity.
  - destruct (Z.eq_dec b 0) as [Zb|Zb].
    + subst b. rewrite Z.lcm_0_r. unfold old_impl_lcm. rewrite Z.eqb_refl, orb_true_r. reflexivity.
    + rewrite old_lcm_euclid by assumption. rewrite arith_result_exact by assumption. reflexivity.
Qed.

(* an unrepresentable least common multiple: a panic or a wrapped value, never the error *)
Lemma old_lcm_unrepresentable_deviates : forall m w a b, 0 < w ->
  in_range Signed w a = true -> in_range Signed w b = true -> a <> lo Signed w -> b <> lo Signed w ->
  in_range Signed w (Z.lcm a b) = false ->
  spec_lcm w a b = Err /\
  old_impl_lcm m w a b = Some (match m with Debug => Panic | Release => Ok (wrap Signed w (Z.lcm a b)) end) /\
  wrap Signed w (Z.lcm a b) <> Z.lcm a b.
Proof.
  intros m w a b Hw Ha Hb Na Nb Hl. split; [|split].
  - unfold spec_lcm, spec_of. rewrite Hl. reflexivity.
  - assert (Za : a <> 0).
    { intro E. subst a. rewrite Z.lcm_0_l in Hl. apply in_range_false_iff in Hl. apply Hl.
      pose proof (lo_signed_neg w Hw). rewrite hi_signed. lia. }
    assert (Zb : b <> 0).
    { intro E. subst b. rewrite Z.lcm_0_r in Hl. apply in_range_false_iff in Hl. apply Hl.
      pose proof (lo_signed_neg w Hw). rewrite hi_signed. lia. }
    rewrite old_lcm_euclid by assumption. unfold arith_result. rewrite Hl. destruct m; reflexivity.
  - apply wrap_wrong_when_unrepresentable; assumption.
Qed.

Lemma old_lcm_terminates : forall m w a b, 0 < w -> in_range Signed w a = true -> in_range Signed w b = true ->
  old_impl_lcm m w a b <> None.
Proof.
  intros m w a b Hw Ha Hb. unfold old_impl_lcm. destruct ((a =? 0) || (b =? 0)); [discriminate|].
  destruct (rust_abs_cases m w a Hw Ha) as [E|[a' [E Ra]]]; rewrite E; [discriminate|].
  destruct (rust_abs_cases m w b Hw Hb) as [E2|[b' [E2 Rb]]]; rewrite E2; [discriminate|].
  pose proof (euclid_fuel_ok w a' b' Hw Rb) as Ht.
  destruct (euclid (euclid_fuel w) w a' b') as [[g| |]|]; try discriminate. contradiction.
Qed.

Lemma old_lcm_refuted :
  old_impl_lcm Debug 8 127 126 = Some Panic /\ old_impl_lcm Release 8 127 126 = Some (Ok (-126)) /\ spec_lcm 8 127 126 = Err /\
  old_impl_lcm Debug 8 (-128) 1 = Some Panic /\ old_impl_lcm Release 8 (-128) 1 = Some (Ok (-128)) /\ spec_lcm 8 (-128) 1 = Err /\
  old_impl_lcm Release 8 (-128) 127 = Some Panic /\
  old_impl_lcm Release 64 (2 ^ 62) 3 = Some (Ok (- 2 ^ 62)) /\ spec_lcm 64 (2 ^ 62) 3 = Err.
Proof. vm_compute. repeat split; reflexivity. Qed.

(* ------------------------------------------------------------------ factorial *)
Definition zf (n : Z) : Z := zfact (Z.to_nat n).

Lemma zfact_pos : forall k, 1 <= zfact k.
Proof. induction k as [|k IH]; [cbn; lia|]. cbn [zfact]. nia. Qed.

Lemma zfact_mono : forall j k, (j <= k)%nat -> zfact j <= zfact k.
Proof.
  intros j k Hjk. induction Hjk as [|k Hjk IH]; [lia|].
  cbn [zfact]. pose proof (zfact_pos k). nia.
Qed.

Lemma zf_step : forall i, 1 <= i -> zf i = i * zf (i - 1).
Proof.
  intros i Hi. unfold zf. replace (Z.to_nat i) with (S (Z.to_nat (i - 1))) by lia.
  cbn [zfact]. rewrite Nat2Z.inj_succ, Z2Nat.id by lia. f_equal. lia.
Qed.

Lemma zf_mono : forall i n, i <= n -> zf i <= zf n.
Proof. intros i n Hin. apply zfact_mono. lia. Qed.

Lemma zfact_34 : hi Signed 128 < zfact 34.
Proof. vm_compute. reflexivity. Qed.

Lemma zf_big : forall n, 34 <= n -> in_range Signed 128 (zf n) = false.
Proof.
  intros n Hn. apply in_range_false_iff. pose proof zfact_34.
  assert (zfact 34 <= zf n) by (apply zfact_mono; lia). lia.
Qed.

Lemma fact_loop_spec : forall fuel i n r, 2 <= i -> i <= n + 1 -> r = zf (i - 1) ->
  in_range Signed 128 r = true -> 35 <= Z.of_nat fuel + i ->
  fact_loop fuel i n r = Some (if in_range Signed 128 (zf n) then Some (zf n) else None).
Proof.
  induction fuel as [|f IH]; intros i n r Hi Hin Hr Hrr Hf.
  - exfalso. subst r. rewrite zf_big in Hrr by lia. discriminate.
  - cbn [fact_loop]. destruct (n <? i) eqn:E.
    + assert (i - 1 = n) by lia. subst r. replace (i - 1) with n in * by lia. rewrite Hrr. reflexivity.
    + assert (Hz : r * i = zf i) by (rewrite (zf_step i) by lia; subst r; ring).
      rewrite Hz. destruct (in_range Signed 128 (zf i)) eqn:Ei.
      * apply IH; [lia | lia | f_equal; lia | assumption | lia].
      * assert (Hn : in_range Signed 128 (zf n) = false).
        { apply in_range_false_iff in Ei. apply in_range_false_iff.
          pose proof (zf_mono i n ltac:(lia)). pose proof (zfact_pos (Z.to_nat i)). unfold zf in *.
          cbn [lo hi] in *. lia. }
        rewrite Hn. reflexivity.
Qed.

(* what the implementation returns for every n: n! when it fits, otherwise NULL *)
Lemma old_factorial_characterised : forall n,
  old_impl_factorial n = Some (Ok (if (0 <=? n) && in_range Signed 128 (zf n) then Some (zf n) else None)).
Proof.
  intros n. unfold old_impl_factorial. destruct (n <? 0) eqn:E0.
  - replace (0 <=? n) with false by lia. reflexivity.
  - replace (0 <=? n) with true by lia. cbn [andb].
    destruct ((n =? 0) || (n =? 1)) eqn:E1.
    + assert (n = 0 \/ n = 1) as [H|H] by lia; subst n; vm_compute; reflexivity.
    + rewrite (fact_loop_spec fact_fuel 2 n 1); try lia; try reflexivity.
      unfold fact_fuel. lia.
Qed.

Lemma old_factorial_correct_partial : forall n v, spec_factorial n = Ok v -> old_impl_factorial n = Some (Ok v).
Proof.
  intros n v Hs. rewrite old_factorial_characterised. unfold spec_factorial in Hs. fold (zf n) in Hs.
  destruct (n <? 0) eqn:E0; [discriminate|]. replace (0 <=? n) with true by lia. cbn [andb].
  destruct (in_range Signed 128 (zf n)); [|discriminate]. inversion Hs. reflexivity.
Qed.

(* where the definition has no (representable) value the function returns NULL, not an error *)
Lemma old_factorial_null_where_undefined : forall n, spec_factorial n = Err -> old_impl_factorial n = Some (Ok None).
Proof.
  intros n Hs. rewrite old_factorial_characterised. unfold spec_factorial in Hs. fold (zf n) in Hs.
  destruct (n <? 0) eqn:E0.
  - replace (0 <=? n) with false by lia. reflexivity.
  - replace (0 <=? n) with true by lia. cbn [andb].
    destruct (in_range Signed 128 (zf n)); [discriminate|reflexivity].
Qed.

Lemma spec_factorial_exec_eq : forall n, spec_factorial_exec n = spec_factorial n.
Proof.
  intros n. unfold spec_factorial_exec. destruct (n <? 0) eqn:E0.
  - unfold spec_factorial. rewrite E0. reflexivity.
  - destruct (33 <? n) eqn:E1; [|reflexivity].
    unfold spec_factorial. rewrite E0. fold (zf n). rewrite zf_big by lia. reflexivity.
Qed.

Lemma old_factorial_refuted :
  old_impl_factorial (-1) = Some (Ok None) /\ spec_factorial (-1) = Err /\
  old_impl_factorial 34 = Some (Ok None) /\ spec_factorial 34 = Err /\
  old_impl_factorial 33 = Some (Ok (Some 8683317618811886495518194401280000000)).
Proof. vm_compute. repeat split; reflexivity. Qed.

(* ------------------------------------------------------------------ bits and ranges *)
Lemma testbit_high_nonneg : forall k x i, 0 <= x < 2 ^ k -> k <= i -> Z.testbit x i = false.
Proof.
  intros k x i Hx Hi. destruct (Z.eq_dec x 0) as [E|E]; [subst x; apply Z.bits_0|].
  apply Z.bits_above_log2; [lia|].
  assert (Z.log2 x < k) by (apply Z.log2_lt_pow2; lia). lia.
Qed.

Lemma high_bits_false_bound : forall k x, 0 <= k -> 0 <= x ->
  (forall i, k <= i -> Z.testbit x i = false) -> x < 2 ^ k.
Proof.
  intros k x Hk Hx Hb. destruct (Z.eq_dec x 0) as [E|E]; [subst x; apply Z.pow_pos_nonneg; lia|].
  destruct (Z.lt_ge_cases x (2 ^ k)) as [H|H]; [assumption|exfalso].
  assert (Hl : k <= Z.log2 x) by (apply Z.log2_le_pow2; lia).
  specialize (Hb (Z.log2 x) Hl). rewrite Z.bit_log2 in Hb by lia. discriminate.
Qed.

Lemma signed_bits : forall w x i, 0 < w -> in_range Signed w x = true -> w - 1 <= i ->
  Z.testbit x i = (x <? 0).
Proof.
  intros w x i Hw Hx Hi. apply signed_range in Hx. destruct (x <? 0) eqn:E.
  - replace x with (Z.lnot (- x - 1)) by (unfold Z.lnot; lia).
    rewrite Z.lnot_spec by lia. rewrite (testbit_high_nonneg (w - 1)) by lia. reflexivity.
  - apply (testbit_high_nonneg (w - 1)); lia.
Qed.

Lemma bits_signed : forall w x, 0 < w -> (forall i, w - 1 <= i -> Z.testbit x i = (x <? 0)) ->
  in_range Signed w x = true.
Proof.
  intros w x Hw Hb. apply signed_range. pose proof (pow2_pos (w - 1) ltac:(lia)) as Hp.
  destruct (x <? 0) eqn:E.
  - assert (Hz : - x - 1 < 2 ^ (w - 1)).
    { apply high_bits_false_bound; [lia|lia|]. intros i Hi.
      replace (- x - 1) with (Z.lnot x) by (unfold Z.lnot; lia).
      rewrite Z.lnot_spec by lia. rewrite Hb by assumption. reflexivity. }
    lia.
  - assert (Hz : x < 2 ^ (w - 1)) by (apply high_bits_false_bound; [lia|lia|assumption]).
    lia.
Qed.

Lemma land_neg_b : forall a b, (Z.land a b <? 0) = (a <? 0) && (b <? 0).
Proof. intros a b. pose proof (Z.land_neg a b). lia. Qed.
Lemma lor_neg_b : forall a b, (Z.lor a b <? 0) = (a <? 0) || (b <? 0).
Proof. intros a b. pose proof (Z.lor_neg a b). lia. Qed.
Lemma lxor_neg_b : forall a b, (Z.lxor a b <? 0) = xorb (a <? 0) (b <? 0).
Proof. intros a b. pose proof (Z.lxor_nonneg a b). destruct (a <? 0) eqn:Ea, (b <? 0) eqn:Eb; cbn [xorb]; lia. Qed.

Lemma unsigned_bits : forall w x, 0 <= w -> (in_range Unsigned w x = true <->
  0 <= x /\ forall i, w <= i -> Z.testbit x i = false).
Proof.
  intros w x Hw. rewrite unsigned_range. split.
  - intros Hx. split; [lia|]. intros i Hi. apply (testbit_high_nonneg w); lia.
  - intros [Hx Hb]. pose proof (high_bits_false_bound w x Hw Hx Hb). lia.
Qed.

Lemma bitop_in_range : forall (f : Z -> Z -> Z) (g : bool -> bool -> bool) sg w a b, 0 < w ->
  (forall x y i, 0 <= i -> Z.testbit (f x y) i = g (Z.testbit x i) (Z.testbit y i)) ->
  (forall x y, (f x y <? 0) = g (x <? 0) (y <? 0)) -> g false false = false ->
  in_range sg w a = true -> in_range sg w b = true -> in_range sg w (f a b) = true.
Proof.
  intros f g sg w a b Hw Hbit Hneg Hff Ha Hb. destruct sg.
  - apply bits_signed; [assumption|]. intros i Hi.
    rewrite Hbit by lia. rewrite (signed_bits w a), (signed_bits w b) by assumption. symmetry. apply Hneg.
  - apply unsigned_bits in Ha; [|lia]. apply unsigned_bits in Hb; [|lia]. destruct Ha as [Ha0 Ha], Hb as [Hb0 Hb].
    apply unsigned_bits; [lia|]. split.
    + pose proof (Hneg a b) as H. replace (a <? 0) with false in H by lia. replace (b <? 0) with false in H by lia.
      rewrite Hff in H. lia.
    + intros i Hi. rewrite Hbit by lia. rewrite Ha, Hb by assumption. assumption.
Qed.

Lemma land_in_range : forall sg w a b, 0 < w -> in_range sg w a = true -> in_range sg w b = true ->
  in_range sg w (Z.land a b) = true.
Proof.
  intros sg w a b Hw. apply (bitop_in_range Z.land andb); try assumption; try reflexivity.
  - intros x y i Hi. apply Z.land_spec.
  - apply land_neg_b.
Qed.
Lemma lor_in_range : forall sg w a b, 0 < w -> in_range sg w a = true -> in_range sg w b = true ->
  in_range sg w (Z.lor a b) = true.
Proof.
  intros sg w a b Hw. apply (bitop_in_range Z.lor orb); try assumption; try reflexivity.
  - intros x y i Hi. apply Z.lor_spec.
  - apply lor_neg_b.
Qed.
Lemma lxor_in_range : forall sg w a b, 0 < w -> in_range sg w a = true -> in_range sg w b = true ->
  in_range sg w (Z.lxor a b) = true.
Proof.
  intros sg w a b Hw. apply (bitop_in_range Z.lxor xorb); try assumption; try reflexivity.
  - intros x y i Hi. apply Z.lxor_spec.
  - apply lxor_neg_b.
Qed.

(* the operation on the w-bit patterns is the pattern of the operation on the integers *)
Lemma bitop_mod : forall (f : Z -> Z -> Z) (g : bool -> bool -> bool) w a b, 0 <= w ->
  (forall x y i, 0 <= i -> Z.testbit (f x y) i = g (Z.testbit x i) (Z.testbit y i)) -> g false false = false ->
  f (a mod 2 ^ w) (b mod 2 ^ w) = (f a b) mod 2 ^ w.
Proof.
  intros f g w a b Hw Hbit Hff. apply Z.bits_inj'. intros i Hi. rewrite Hbit by assumption.
  destruct (Z.lt_ge_cases i w) as [H|H].
  - rewrite !Z.mod_pow2_bits_low by lia. rewrite Hbit by assumption. reflexivity.
  - rewrite !Z.mod_pow2_bits_high by lia. assumption.
Qed.

Lemma wrap_shift : forall sg w x y k, 0 < w -> x = y + k * 2 ^ w -> wrap sg w x = wrap sg w y.
Proof.
  intros sg w x y k Hw E. subst x. pose proof (pow2_pos w ltac:(lia)). destruct sg; cbn [wrap].
  - replace (y + k * 2 ^ w + 2 ^ (w - 1)) with (y + 2 ^ (w - 1) + k * 2 ^ w) by ring.
    rewrite Z.mod_add by lia. reflexivity.
  - rewrite Z.mod_add by lia. reflexivity.
Qed.

Lemma wrap_mod : forall sg w x, 0 < w -> wrap sg w (x mod 2 ^ w) = wrap sg w x.
Proof.
  intros sg w x Hw. pose proof (pow2_pos w ltac:(lia)).
  apply (wrap_shift sg w _ _ (- (x / 2 ^ w)) Hw). rewrite Z.mod_eq by lia. ring.
Qed.

Lemma bitop_correct : forall (f : Z -> Z -> Z) (g : bool -> bool -> bool) sg w a b, 0 < w ->
  (forall x y i, 0 <= i -> Z.testbit (f x y) i = g (Z.testbit x i) (Z.testbit y i)) ->
  (forall x y, (f x y <? 0) = g (x <? 0) (y <? 0)) -> g false false = false ->
  in_range sg w a = true -> in_range sg w b = true ->
  of_bits sg w (f (to_bits w a) (to_bits w b)) = f a b.
Proof.
  intros f g sg w a b Hw Hbit Hneg Hff Ha Hb. unfold of_bits, to_bits.
  rewrite (bitop_mod f g) by (assumption || lia). rewrite wrap_mod by assumption.
  apply wrap_id; [assumption|]. apply (bitop_in_range f g); assumption.
Qed.

Lemma bitand_correct : forall sg w a b, 0 < w -> in_range sg w a = true -> in_range sg w b = true ->
  impl_bitand sg w a b = spec_bitand sg w a b /\ in_range sg w (Z.land a b) = true.
Proof.
  intros sg w a b Hw Ha Hb. split; [|apply land_in_range; assumption].
  unfold impl_bitand, spec_bitand. f_equal. apply (bitop_correct Z.land andb); try assumption; try reflexivity.
  - intros x y i Hi. apply Z.land_spec.
  - apply land_neg_b.
Qed.
Lemma bitor_correct : forall sg w a b, 0 < w -> in_range sg w a = true -> in_range sg w b = true ->
  impl_bitor sg w a b = spec_bitor sg w a b /\ in_range sg w (Z.lor a b) = true.
Proof.
  intros sg w a b Hw Ha Hb. split; [|apply lor_in_range; assumption].
  unfold impl_bitor, spec_bitor. f_equal. apply (bitop_correct Z.lor orb); try assumption; try reflexivity.
  - intros x y i Hi. apply Z.lor_spec.
  - apply lor_neg_b.
Qed.
Lemma xor_correct : forall sg w a b, 0 < w -> in_range sg w a = true -> in_range sg w b = true ->
  impl_xor sg w a b = spec_xor sg w a b /\ in_range sg w (Z.lxor a b) = true.
Proof.
  intros sg w a b Hw Ha Hb. split; [|apply lxor_in_range; assumption].
  unfold impl_xor, spec_xor. f_equal. apply (bitop_correct Z.lxor xorb); try assumption; try reflexivity.
  - intros x y i Hi. apply Z.lxor_spec.
  - apply lxor_neg_b.
Qed.

(* ~a: -a - 1 for iN, 2^w - 1 - a for uN *)
Lemma lxor_ones : forall w a, 0 <= w -> 0 <= a < 2 ^ w -> Z.lxor a (Z.ones w) = 2 ^ w - 1 - a.
Proof.
  intros w a Hw Ha.
  transitivity ((Z.lnot a) mod 2 ^ w).
  - apply Z.bits_inj'. intros i Hi. rewrite Z.lxor_spec.
    destruct (Z.lt_ge_cases i w) as [H|H].
    + rewrite Z.ones_spec_low, Z.mod_pow2_bits_low, Z.lnot_spec by lia. apply xorb_true_r.
    + rewrite Z.ones_spec_high, Z.mod_pow2_bits_high by lia. rewrite (testbit_high_nonneg w) by lia. reflexivity.
  - unfold Z.lnot. symmetry. apply (Z.mod_unique _ _ (-1)); lia.
Qed.

Lemma bitnot_correct : forall sg w a, 0 < w -> in_range sg w a = true ->
  impl_bitnot sg w a = spec_bitnot sg w a /\
  spec_bitnot sg w a = Ok (match sg with Signed => - a - 1 | Unsigned => 2 ^ w - 1 - a end) /\
  in_range sg w (match sg with Signed => - a - 1 | Unsigned => 2 ^ w - 1 - a end) = true.
Proof.
  intros sg w a Hw Ha. pose proof (pow2_pos w ltac:(lia)) as Hp.
  assert (Hspec : spec_bitnot sg w a = Ok (match sg with Signed => - a - 1 | Unsigned => 2 ^ w - 1 - a end)).
  { unfold spec_bitnot. destruct sg; [unfold Z.lnot; f_equal; lia|].
    apply unsigned_range in Ha. rewrite lxor_ones by lia. reflexivity. }
  assert (Hr : in_range sg w (match sg with Signed => - a - 1 | Unsigned => 2 ^ w - 1 - a end) = true).
  { destruct sg; [apply signed_range in Ha; apply signed_range|apply unsigned_range in Ha; apply unsigned_range]; lia. }
  split; [|split; assumption].
  rewrite Hspec. unfold impl_bitnot, of_bits, to_bits. f_equal.
  rewrite <- (wrap_id sg w _ Hw Hr). destruct sg.
  - apply (wrap_shift Signed w _ _ (1 + a / 2 ^ w) Hw). rewrite Z.mod_eq by lia. ring.
  - apply (wrap_shift Unsigned w _ _ (a / 2 ^ w) Hw). rewrite Z.mod_eq by lia. ring.
Qed.

(* ------------------------------------------------------------------ shifts *)
Lemma as_u32_nonneg : forall b, 0 <= b -> in_range Signed 32 b = true -> as_u32 b = b.
Proof. intros b Hb Hr. apply signed_range in Hr. unfold as_u32. apply Z.mod_small. lia. Qed.

Lemma as_u32_neg : forall b, b < 0 -> in_range Signed 32 b = true -> 2 ^ 31 <= as_u32 b.
Proof.
  intros b Hb Hr. apply signed_range in Hr. unfold as_u32.
  replace (b mod 2 ^ 32) with (b + 2 ^ 32); [lia|]. apply (Z.mod_unique _ _ (-1)); lia.
Qed.

Lemma wrap_multiple : forall sg w k, 0 < w -> wrap sg w (k * 2 ^ w) = 0.
Proof.
  intros sg w k Hw. rewrite (wrap_shift sg w _ 0 k Hw) by ring. apply wrap_id; [assumption|].
  pose proof (pow2_pos (w - 1) ltac:(lia)). pose proof (pow2_pos w ltac:(lia)).
  apply in_range_iff. destruct sg; cbn [lo hi]; lia.
Qed.

Lemma shl_correct : forall sg w a b, 0 < w <= 2 ^ 31 -> in_range Signed 32 b = true ->
  impl_shl sg w a b = spec_shl sg w a b.
Proof.
  intros sg w a b Hw Hb. unfold impl_shl, spec_shl. destruct (b <? 0) eqn:E.
  - pose proof (as_u32_neg b ltac:(lia) Hb). replace (as_u32 b <? w) with false by lia. reflexivity.
  - rewrite as_u32_nonneg by (assumption || lia). pose proof (pow2_pos w ltac:(lia)) as Hp.
    destruct (b <? w) eqn:E2.
    + f_equal. unfold of_bits, to_bits. rewrite !Z.shiftl_mul_pow2 by lia.
      apply (wrap_shift sg w _ _ (- (a / 2 ^ w) * 2 ^ b)); [lia|]. rewrite Z.mod_eq by lia. ring.
    + f_equal. rewrite Z.shiftl_mul_pow2 by lia. symmetry.
      replace (a * 2 ^ b) with ((a * 2 ^ (b - w)) * 2 ^ w).
      * apply wrap_multiple. lia.
      * rewrite <- Z.mul_assoc, <- Z.pow_add_r by lia. f_equal. f_equal. lia.
Qed.

Lemma shl_in_range : forall sg w a b v, 0 < w -> impl_shl sg w a b = Ok v -> in_range sg w v = true.
Proof.
  intros sg w a b v Hw H. unfold impl_shl in H. destruct (as_u32 b <? w); inversion H.
  - apply wrap_in_range. assumption.
  - apply in_range_iff. pose proof (pow2_pos (w - 1) ltac:(lia)). pose proof (pow2_pos w ltac:(lia)).
    destruct sg; cbn [lo hi]; lia.
Qed.

Lemma old_shr_correct_partial : forall sg w a b, 0 < w <= 2 ^ 31 -> in_range Signed 32 b = true ->
  in_range sg w a = true -> (b < w \/ 0 <= a) ->
  old_impl_shr sg w a b = spec_shr sg w a b.
Proof.
  intros sg w a b Hw Hb Ha Hc. unfold old_impl_shr, spec_shr. destruct (b <? 0) eqn:E.
  - pose proof (as_u32_neg b ltac:(lia) Hb). replace (as_u32 b <? w) with false by lia. reflexivity.
  - rewrite as_u32_nonneg by (assumption || lia). rewrite Z.shiftr_div_pow2 by lia.
    destruct (b <? w) eqn:E2; [reflexivity|].
    f_equal. symmetry. apply Z.div_small.
    assert (a < 2 ^ w).
    { pose proof (pow2_split w ltac:(lia)). pose proof (pow2_pos (w - 1) ltac:(lia)).
      apply in_range_iff in Ha. destruct sg; cbn [lo hi] in Ha; lia. }
    assert (2 ^ w <= 2 ^ b) by (apply Z.pow_le_mono_r; lia). lia.
Qed.

(* a negative value shifted right by at least the width: 0 instead of -1 *)
Lemma old_shr_overshift_negative : forall w a b, 0 < w <= 2 ^ 31 -> in_range Signed 32 b = true ->
  in_range Signed w a = true -> a < 0 -> w <= b ->
  old_impl_shr Signed w a b = Ok 0 /\ spec_shr Signed w a b = Ok (-1).
Proof.
  intros w a b Hw Hb Ha Hneg Hwb. unfold old_impl_shr, spec_shr.
  rewrite as_u32_nonneg by (assumption || lia).
  replace (b <? w) with false by lia. replace (b <? 0) with false by lia. split; [reflexivity|].
  f_equal. rewrite Z.shiftr_div_pow2 by lia. apply signed_range in Ha.
  assert (2 ^ (w - 1) <= 2 ^ b) by (apply Z.pow_le_mono_r; lia).
  symmetry. apply (Z.div_unique _ _ _ (a + 2 ^ b)); lia.
Qed.

Lemma old_shr_in_range : forall sg w a b v, 0 < w -> in_range sg w a = true -> old_impl_shr sg w a b = Ok v ->
  in_range sg w v = true.
Proof.
  intros sg w a b v Hw Ha H. unfold old_impl_shr in H.
  pose proof (pow2_pos (w - 1) ltac:(lia)). pose proof (pow2_pos w ltac:(lia)).
  destruct (as_u32 b <? w); inversion H.
  - assert (Hn : 0 <= as_u32 b) by (unfold as_u32; apply Z.mod_pos_bound; lia).
    pose proof (pow2_pos (as_u32 b) Hn) as Hp.
    apply in_range_iff in Ha. apply in_range_iff.
    assert (Hd := Z.div_mod a (2 ^ as_u32 b) ltac:(lia)).
    assert (Hm := Z.mod_pos_bound a (2 ^ as_u32 b) Hp).
    destruct sg; cbn [lo hi] in *; nia.
  - apply in_range_iff. destruct sg; cbn [lo hi]; lia.
Qed.

Lemma spec_shl_exec_eq : forall sg w a b, 0 < w -> spec_shl_exec sg w a b = spec_shl sg w a b.
Proof.
  intros sg w a b Hw. unfold spec_shl_exec, spec_shl. destruct (b <? 0) eqn:E; [reflexivity|].
  destruct (w <=? b) eqn:E2; [|reflexivity].
  f_equal. rewrite Z.shiftl_mul_pow2 by lia. symmetry.
  replace (a * 2 ^ b) with ((a * 2 ^ (b - w)) * 2 ^ w).
  - apply wrap_multiple. lia.
  - rewrite <- Z.mul_assoc, <- Z.pow_add_r by lia. f_equal. f_equal. lia.
Qed.

Lemma spec_shr_exec_eq : forall sg w a b, 0 < w -> in_range sg w a = true -> spec_shr_exec sg w a b = spec_shr sg w a b.
Proof.
  intros sg w a b Hw Ha. unfold spec_shr_exec, spec_shr. destruct (b <? 0) eqn:E; [reflexivity|].
  destruct (w <=? b) eqn:E2; [|reflexivity].
  f_equal. rewrite Z.shiftr_div_pow2 by lia.
  pose proof (pow2_split w ltac:(lia)). pose proof (pow2_pos (w - 1) ltac:(lia)).
  assert (2 ^ w <= 2 ^ b) by (apply Z.pow_le_mono_r; lia).
  apply in_range_iff in Ha.
  destruct (a <? 0) eqn:En.
  - apply (Z.div_unique _ _ _ (a + 2 ^ b)); destruct sg; cbn [lo hi] in Ha; lia.
  - symmetry. apply Z.div_small. destruct sg; cbn [lo hi] in Ha; lia.
Qed.

Lemma old_shift_witnesses :
  old_impl_shr Signed 8 (-1) 8 = Ok 0 /\ spec_shr Signed 8 (-1) 8 = Ok (-1) /\ old_impl_shr Signed 8 (-1) 7 = Ok (-1) /\
  impl_shl Signed 8 1 7 = Ok (-128) /\ impl_shl Signed 8 1 8 = Ok 0 /\ impl_shl Signed 32 1 (-1) = Ok 0 /\
  old_impl_shr Signed 32 (-8) (-1) = Ok 0.
Proof. vm_compute. repeat split; reflexivity. Qed.

(* ------------------------------------------------------------------ round(decimal, n) *)
Definition maxp (kd : dkind) : Z := match kd with D64 => 18 | D128 => 38 end.

Lemma pow10_le_max : forall kd k, 0 <= k <= maxp kd -> 0 < 10 ^ k <= 10 ^ maxp kd.
Proof. intros kd k Hk. split; [apply pow10_pos; lia|apply Z.pow_le_mono_r; lia]. Qed.

Lemma prim_room : forall kd, 10 ^ maxp kd + 10 ^ maxp kd / 2 <= hi Signed (prim_bits kd) /\
  lo Signed (prim_bits kd) <= - (10 ^ maxp kd + 10 ^ maxp kd / 2).
Proof. intros kd. destruct kd; vm_compute; split; discriminate. Qed.

Lemma vprec_ok : forall v p, 0 <= p -> Z.abs v < 10 ^ p -> vprec v p = true.
Proof.
  intros v p Hp Hv. unfold vprec, digits. destruct (v =? 0) eqn:E; [reflexivity|]. cbn [orb].
  apply Z.leb_le. apply digits_fuel_le; lia.
Qed.

Lemma rha_abs_le : forall v d, 2 <= d -> Z.abs (rha v d) <= Z.abs v.
Proof.
  intros v d Hd. unfold rha. rewrite Z.abs_mul.
  destruct (Z.eq_dec v 0) as [E|E]; [subst v; cbn; lia|].
  assert (Hs : Z.abs (Z.sgn v) = 1) by lia. rewrite Hs, Z.mul_1_l.
  assert (Hq : 0 <= (2 * Z.abs v + d) / (2 * d)) by (apply Z.div_pos; lia).
  rewrite Z.abs_eq by assumption.
  apply Z.div_le_upper_bound; [lia|]. nia.
Qed.

Lemma rha_1 : forall v, rha v 1 = v.
Proof.
  intros v. unfold rha. replace ((2 * Z.abs v + 1) / (2 * 1)) with (Z.abs v).
  - lia.
  - apply (Z.div_unique _ _ _ 1); lia.
Qed.

(* the value the definition prescribes is a nearest multiple, ties away from zero *)
Lemma rha_nearest : forall v d, 0 < d ->
  2 * Z.abs (rha v d * d - v) <= d /\ (2 * Z.abs (rha v d * d - v) = d -> Z.abs v < Z.abs (rha v d * d)).
Proof.
  intros v d Hd. unfold rha.
  pose proof (Z.div_mod (2 * Z.abs v + d) (2 * d) ltac:(lia)) as Hdm.
  pose proof (Z.mod_pos_bound (2 * Z.abs v + d) (2 * d) ltac:(lia)) as Hmb.
  set (q := (2 * Z.abs v + d) / (2 * d)) in *. set (r := (2 * Z.abs v + d) mod (2 * d)) in *.
  assert (Hq : 0 <= q) by (apply Z.div_pos; lia).
  destruct (Z.lt_trichotomy v 0) as [Hv|[Hv|Hv]].
  - replace (Z.sgn v) with (-1) by lia. rewrite Z.abs_neq in Hdm by lia. split; nia.
  - subst v. cbn [Z.sgn Z.abs] in *. split; nia.
  - replace (Z.sgn v) with 1 by lia. rewrite Z.abs_eq in Hdm by lia. split; nia.
Qed.

(* (v +- d/2) quot d for an even d is round-half-away *)
Lemma quot_half_rha : forall v h, 0 < h ->
  Z.quot (v + (if 0 <=? v then h else - h)) (2 * h) = rha v (2 * h).
Proof.
  intros v h Hh. unfold rha.
  assert (Hk : forall x, 0 <= x -> (x + h) / (2 * h) = (2 * x + 2 * h) / (2 * (2 * h))).
  { intros x Hx. replace (2 * x + 2 * h) with (2 * (x + h)) by ring. rewrite Z.div_mul_cancel_l by lia. reflexivity. }
  destruct (0 <=? v) eqn:E.
  - rewrite Z.quot_div_nonneg by lia. rewrite Hk by lia. rewrite Z.abs_eq by lia.
    destruct (Z.eq_dec v 0) as [Ev|Ev].
    + subst v. cbn [Z.sgn]. rewrite Z.mul_0_l. replace (2 * 0 + 2 * h) with (2 * h) by ring.
      apply Z.div_small. lia.
    + replace (Z.sgn v) with 1 by lia. lia.
  - replace (v + - h) with (- (- v + h)) by ring. rewrite Z.quot_opp_l by lia.
    rewrite Z.quot_div_nonneg by lia. rewrite Hk by lia. rewrite Z.abs_neq by lia.
    replace (Z.sgn v) with (-1) by lia. lia.
Qed.

Lemma pow10_even : forall k, 0 < k -> 10 ^ k = 2 * (10 ^ k / 2) /\ 0 < 10 ^ k / 2.
Proof.
  intros k Hk. rewrite (pow10_succ k) by lia. pose proof (pow10_pos (k - 1) ltac:(lia)).
  replace (10 * 10 ^ (k - 1)) with (5 * 10 ^ (k - 1) * 2) by ring. rewrite Z.div_mul by lia. lia.
Qed.

Lemma round_val_down : forall kd p k v, 0 < k <= maxp kd -> 0 <= p <= maxp kd -> Z.abs v < 10 ^ p ->
  round_val kd p k (10 ^ k) v = Ok (rha v (10 ^ k)).
Proof.
  intros kd p k v Hk Hp Hv. unfold round_val.
  replace (k <? 0) with false by lia. replace (0 <? k) with true by lia.
  destruct (pow10_even k ltac:(lia)) as [He Hh]. set (h := 10 ^ k / 2) in *.
  pose proof (pow10_le_max kd k ltac:(lia)) as Hk10. pose proof (pow10_le_max kd p Hp) as Hp10.
  destruct (prim_room kd) as [Hhi Hlo].
  assert (Hhm : h <= 10 ^ maxp kd / 2) by (apply Z.div_le_mono; lia).
  set (adj := if 0 <=? v then h else - h).
  assert (Hr : in_range Signed (prim_bits kd) (v + adj) = true).
  { apply in_range_iff. unfold adj. destruct (0 <=? v); lia. }
  unfold checked. rewrite Hr. cbn [bind_out].
  assert (Hq : Z.quot (v + adj) (10 ^ k) = rha v (10 ^ k)).
  { unfold adj. rewrite He. apply quot_half_rha. assumption. }
  rewrite Hq. rewrite vprec_ok; [reflexivity|lia|].
  pose proof (rha_abs_le v (10 ^ k) ltac:(lia)). lia.
Qed.

Lemma old_round_bind_ok : forall m kd s n, in_range Signed 8 n = true -> s - Z.min n s <= maxp kd ->
  old_round_bind m kd s n = Ok (Z.min n s, s - Z.min n s, 10 ^ (s - Z.min n s)).
Proof.
  intros m kd s n Hn Hd. unfold old_round_bind. rewrite Hn.
  assert (H0 : 0 <= s - Z.min n s) by lia.
  assert (Hm : maxp kd <= 38) by (destruct kd; cbn; lia).
  rewrite arith_result_exact; [|lia|apply signed_range; cbn; lia]. cbn [bind_out].
  rewrite Z.abs_eq by assumption.
  pose proof (pow10_le_max kd (s - Z.min n s) ltac:(lia)). destruct (prim_room kd) as [Hhi Hlo].
  assert (0 <= 10 ^ maxp kd / 2) by (apply Z.div_pos; lia).
  unfold checked. replace (in_range Signed (prim_bits kd) (10 ^ (s - Z.min n s))) with true; [reflexivity|].
  symmetry. apply in_range_iff. lia.
Qed.

Lemma old_round_correct_partial : forall m kd p s n v, 0 <= p <= maxp kd -> -128 <= s ->
  in_range Signed 8 n = true -> s - Z.min n s <= maxp kd -> Z.abs v < 10 ^ p ->
  old_impl_round m kd p s n v = spec_round p s n v.
Proof.
  intros m kd p s n v Hp Hs Hn Hd Hv. unfold old_impl_round, spec_round.
  rewrite old_round_bind_ok by assumption. cbn [bind_out].
  apply signed_range in Hn. cbn in Hn. replace (Z.min n s <? -128) with false by lia.
  destruct (Z.eq_dec (s - Z.min n s) 0) as [E|E].
  - rewrite E. change (10 ^ 0) with 1. rewrite rha_1. unfold round_val. cbn [Z.ltb Z.compare].
    cbn [bind_out]. rewrite vprec_ok by lia. cbn [bind_out]. unfold fits. replace (Z.abs v <? 10 ^ p) with true by lia.
    reflexivity.
  - rewrite round_val_down by lia. cbn [bind_out]. unfold fits.
    pose proof (pow10_even (s - Z.min n s) ltac:(lia)) as [He Hh].
    pose proof (rha_abs_le v (10 ^ (s - Z.min n s)) ltac:(lia)).
    replace (Z.abs (rha v (10 ^ (s - Z.min n s))) <? 10 ^ p) with true by lia. reflexivity.
Qed.

Lemma old_round_refuted :
  old_impl_round Debug D64 10 4 (-128) 1 = Panic /\ old_impl_round Release D64 10 4 (-128) 1 = Err /\
  spec_round 10 4 (-128) 1 = Ok (-128, 0) /\
  old_impl_round Debug D64 18 18 (-1) 5 = Err /\ spec_round 18 18 (-1) 5 = Ok (-1, 0) /\
  old_impl_round Debug D64 10 4 128 1 = Err /\ spec_round 10 4 128 1 = Ok (4, 1).
Proof. vm_compute. repeat split; reflexivity. Qed.

Lemma old_round_examples :
  old_impl_round Debug D64 10 4 2 12345678 = Ok (2, 123457) /\ old_impl_round Debug D64 10 4 (-2) 12545678 = Ok (-2, 13) /\
  old_impl_round Debug D64 10 4 (-2) (-12500000) = Ok (-2, -13) /\ old_impl_round Debug D64 5 1 0 99995 = Ok (0, 10000) /\
  old_impl_round Debug D128 38 38 0 (5 * 10 ^ 37) = Ok (0, 1).
Proof. vm_compute. repeat split; reflexivity. Qed.

(* ------------------------------------------------------------------ abs sign ceil floor trunc round via Float64 *)
Lemma int_as_f64_small : forall a, Z.abs a <= 2 ^ 53 -> int_as_f64 a = (a, 1).
Proof.
  intros a Ha. destruct (Z.eq_dec (Z.abs a) (2 ^ 53)) as [E|E].
  - assert (a = 2 ^ 53 \/ a = - 2 ^ 53) as [H|H] by lia; subst a; vm_compute; reflexivity.
  - unfold int_as_f64. destruct (Z.eq_dec (Z.abs a) 0) as [E0|E0].
    + rewrite E0. cbn. reflexivity.
    + assert (Hl : Z.log2 (Z.abs a) < 53) by (apply Z.log2_lt_pow2; lia).
      replace (Z.log2 (Z.abs a) - 52 <=? 0) with true by lia. rewrite orb_true_r. reflexivity.
Qed.

Lemma int_fn_exact_partial : forall op a, Z.abs a <= 2 ^ 53 -> impl_int_fn op a = spec_int_fn op a.
Proof. intros op a Ha. unfold impl_int_fn. rewrite int_as_f64_small by assumption. reflexivity. Qed.

Lemma int_fn_exact_narrow : forall op sg w a, 0 < w <= 53 -> in_range sg w a = true ->
  impl_int_fn op a = spec_int_fn op a.
Proof.
  intros op sg w a Hw Ha. apply int_fn_exact_partial.
  assert (2 ^ w <= 2 ^ 53) by (apply Z.pow_le_mono_r; lia).
  pose proof (pow2_split w ltac:(lia)). pose proof (pow2_pos (w - 1) ltac:(lia)).
  apply in_range_iff in Ha. destruct sg; cbn [lo hi] in Ha; lia.
Qed.

Lemma int_fn_refuted :
  in_range Signed 64 (- (2 ^ 53 + 1)) = true /\
  impl_int_fn FAbs (- (2 ^ 53 + 1)) = FInt false (2 ^ 53) /\ spec_int_fn FAbs (- (2 ^ 53 + 1)) = FInt false (2 ^ 53 + 1) /\
  impl_int_fn FCeil (2 ^ 63 - 1) = FInt false (2 ^ 63) /\ spec_int_fn FCeil (2 ^ 63 - 1) = FInt false (2 ^ 63 - 1).
Proof. vm_compute. repeat split; reflexivity. Qed.

Lemma dec_fn_refuted :
  impl_dec_fn FCeil (10 ^ 19 + 1) 19 = Some (FInt false 1) /\ spec_dec_fn FCeil (10 ^ 19 + 1) 19 = Some (FInt false 2) /\
  impl_dec_fn FFloor 9007199254740993 0 = Some (FInt false 9007199254740992) /\
  spec_dec_fn FFloor 9007199254740993 0 = Some (FInt false 9007199254740993).
Proof. vm_compute. repeat split; reflexivity. Qed.

(* scale > 22: the divisor 1e38 is a rounded constant, the quotient is one ulp off the nearest Float64 *)
Lemma dec_fn_abs_refuted :
  impl_dec_fn FAbs (-975) 38 = Some (FBits 4083053478943854748) /\ spec_dec_fn FAbs (-975) 38 = Some (FBits 4083053478943854747).
Proof. vm_compute. split; reflexivity. Qed.

Lemma dec_fn_examples :
  impl_dec_fn FCeil (-150) 2 = Some (FInt false (-1)) /\ impl_dec_fn FCeil (-50) 2 = Some (FInt true 0) /\
  impl_dec_fn FFloor 155 2 = Some (FInt false 1) /\ impl_dec_fn FTrunc (-159) 2 = Some (FInt false (-1)) /\
  impl_dec_fn FRound 250 2 = Some (FInt false 3) /\ impl_dec_fn FSign (-150) 2 = Some (FInt false (-1)) /\
  impl_dec_fn FAbs (-150) 2 = Some (FBits 4609434218613702656) /\ spec_dec_fn FAbs (-150) 2 = Some (FBits 4609434218613702656).
Proof. vm_compute. repeat split; reflexivity. Qed.

(* ------------------------------------------------------------------ the hypotheses of the implication-shaped
   theorems are satisfiable *)
Example gcd_hyps_sat : 0 < 32 /\ in_range Signed 32 12 = true /\ in_range Signed 32 (-18) = true /\
  12 <> lo Signed 32 /\ -18 <> lo Signed 32 /\ old_impl_gcd Debug 32 12 (-18) = Some (Ok 6).
Proof. vm_compute. repeat split; discriminate. Qed.
Example lcm_hyps_sat : in_range Signed 8 (Z.lcm 4 (-6)) = true /\ old_impl_lcm Release 8 4 (-6) = Some (Ok 12) /\
  in_range Signed 8 (Z.lcm 127 126) = false.
Proof. vm_compute. repeat split. Qed.
Example factorial_hyps_sat : spec_factorial 5 = Ok (Some 120) /\ spec_factorial (-3) = Err.
Proof. vm_compute. split; reflexivity. Qed.
Example bit_hyps_sat : in_range Unsigned 8 200 = true /\ in_range Signed 8 (-128) = true /\
  impl_bitand Signed 8 (-128) (-1) = Ok (-128) /\ impl_bitnot Unsigned 8 200 = Ok 55.
Proof. vm_compute. repeat split. Qed.
Example shift_hyps_sat : 0 < 8 <= 2 ^ 31 /\ in_range Signed 32 (-5) = true /\ in_range Signed 32 9 = true /\
  in_range Signed 8 (-3) = true /\ -3 < 0 /\ 8 <= 9 /\ (3 < 8 \/ 0 <= -3).
Proof. vm_compute. repeat split; try discriminate. left. reflexivity. Qed.
Example round_hyps_sat : 0 <= 10 <= maxp D64 /\ -128 <= 4 /\ in_range Signed 8 (-2) = true /\
  4 - Z.min (-2) 4 <= maxp D64 /\ Z.abs 12545678 < 10 ^ 10.
Proof. vm_compute. repeat split; discriminate. Qed.
Example int_fn_hyps_sat : Z.abs (- 2 ^ 53) <= 2 ^ 53 /\ 0 < 32 <= 53 /\ in_range Unsigned 32 4294967295 = true.
Proof. vm_compute. repeat split; discriminate. Qed.

(* ------------------------------------------------------------------ comparisons *)
Lemma spec_cmp_reflects : forall a b,
  (spec_cmp CLt a b = true <-> a < b) /\ (spec_cmp CLe a b = true <-> a <= b) /\ (spec_cmp CEq a b = true <-> a = b) /\
  (spec_cmp CNe a b = true <-> a <> b) /\ (spec_cmp CGe a b = true <-> a >= b) /\ (spec_cmp CGt a b = true <-> a > b).
Proof. intros a b. cbn [spec_cmp]. repeat split; lia. Qed.

(* ================================================================== the current source (after 9b10c8448, e09e186b9, eb21ac26a,
   36f5e65a8): checked operations, an unrepresentable result is an error, an over-long right shift keeps the sign.
   Everything named old_* above is about the variants the source had before (regression witnesses). *)
Lemma gcd_rem : forall a b, Z.gcd b (Z.rem a b) = Z.gcd a b.
Proof.
  intros a b. destruct (Z.eq_dec b 0) as [E|E].
  - subst b. rewrite Z.rem_0_r_ext by reflexivity. apply Z.gcd_comm.
  - rewrite (Z.rem_eq a b E). replace (a - b * (a ÷ b)) with (a + (- (a ÷ b)) * b) by ring.
    rewrite Z.gcd_add_mult_diag_r. apply Z.gcd_comm.
Qed.

Lemma rem_signed_in_range : forall w a b, 0 < w -> b <> 0 -> in_range Signed w b = true ->
  in_range Signed w (Z.rem a b) = true.
Proof.
  intros w a b Hw Hb Hr. apply signed_range in Hr. apply signed_range.
  pose proof (abs_rem_lt a b Hb). lia.
Qed.

Lemma euclid_c_gcd : forall fuel w a b g, 0 < w -> in_range Signed w a = true -> in_range Signed w b = true ->
  euclid_c fuel a b = Some g -> Z.abs g = Z.gcd a b /\ in_range Signed w g = true.
Proof.
  induction fuel as [|f IH]; intros w a b g Hw Ha Hb He; cbn [euclid_c] in He.
  - destruct (b =? 0) eqn:Eb; [|discriminate]. apply Z.eqb_eq in Eb. subst b. inversion He. subst g.
    rewrite Z.gcd_0_r. split; [reflexivity|assumption].
  - destruct (b =? 0) eqn:Eb.
    + apply Z.eqb_eq in Eb. subst b. inversion He. subst g. rewrite Z.gcd_0_r. split; [reflexivity|assumption].
    + apply Z.eqb_neq in Eb. unfold rem_checked in He. replace (b =? 0) with false in He by lia.
      destruct (IH w b (Z.rem a b) g Hw Hb (rem_signed_in_range w a b Hw Eb Hb) He) as [H1 H2].
      split; [|assumption]. rewrite H1. apply gcd_rem.
Qed.

Lemma euclid_c_terminates : forall n a b, Z.abs b < 2 ^ Z.of_nat n -> euclid_c (S (2 * n)) a b <> None.
Proof.
  induction n as [|n IH]; intros a b Hb.
  - cbn [Z.of_nat] in Hb. change (2 ^ 0) with 1 in Hb. assert (b = 0) by lia. subst b. cbn. discriminate.
  - replace (S (2 * S n)) with (S (S (S (2 * n)))) by lia.
    cbn [euclid_c]. destruct (b =? 0) eqn:Eb; [discriminate|]. apply Z.eqb_neq in Eb.
    assert (R1 : rem_checked a b = Some (Z.rem a b)) by (unfold rem_checked; replace (b =? 0) with false by lia; reflexivity).
    rewrite R1. set (r1 := Z.rem a b).
    destruct (r1 =? 0) eqn:Er1; [discriminate|]. apply Z.eqb_neq in Er1.
    assert (R2 : rem_checked b r1 = Some (Z.rem b r1)) by (unfold rem_checked; replace (r1 =? 0) with false by lia; reflexivity).
    rewrite R2.
    apply IH.
    pose proof (abs_rem_lt a b Eb) as H1. fold r1 in H1.
    rewrite <- Z.rem_abs by assumption. rewrite Z.rem_mod_nonneg by lia.
    pose proof (mod_halves (Z.abs b) (Z.abs r1) ltac:(lia) H1) as H2.
    rewrite Nat2Z.inj_succ, Z.pow_succ_r in Hb by lia. lia.
Qed.

Lemma euclid_c_fuel_ok : forall w a b, 0 < w -> in_range Signed w b = true -> euclid_c (euclid_fuel w) a b <> None.
Proof.
  intros w a b Hw Hb. unfold euclid_fuel. apply euclid_c_terminates.
  rewrite Z2Nat.id by lia. apply signed_range in Hb.
  pose proof (pow2_split w Hw). pose proof (pow2_pos (w - 1) ltac:(lia)). lia.
Qed.

(* |g| through neg_checked is exactly "representable or an error" *)
Lemma abs_checked_spec : forall w g, 0 < w -> in_range Signed w g = true ->
  of_opt (abs_checked w g) = spec_of Signed w (Some (Z.abs g)).
Proof.
  intros w g Hw Hg. unfold abs_checked, neg_checked, spec_of. destruct (g <? 0) eqn:E.
  - rewrite Z.abs_neq by lia. destruct (in_range Signed w (- g)); reflexivity.
  - rewrite Z.abs_eq by lia. rewrite Hg. reflexivity.
Qed.

Lemma gcd_correct : forall w a b, 0 < w -> in_range Signed w a = true -> in_range Signed w b = true ->
  impl_gcd w a b = Some (spec_gcd w a b).
Proof.
  intros w a b Hw Ha Hb. unfold impl_gcd, spec_gcd.
  destruct (euclid_c (euclid_fuel w) a b) as [g|] eqn:Ee.
  - destruct (euclid_c_gcd _ w a b g Hw Ha Hb Ee) as [H1 H2]. cbn [option_map].
    rewrite abs_checked_spec by assumption. rewrite H1. reflexivity.
  - exfalso. revert Ee. apply euclid_c_fuel_ok; assumption.
Qed.

Lemma lcm_signed_formula : forall a b g, a <> 0 -> Z.abs g = Z.gcd a b -> Z.abs (Z.quot a g * b) = Z.lcm a b.
Proof.
  intros a b g Ha Hg.
  assert (Hg0 : g <> 0).
  { intro E. subst g. cbn in Hg. symmetry in Hg. apply Z.gcd_eq_0_l in Hg. contradiction. }
  rewrite Z.abs_mul, <- Z.quot_abs by assumption. rewrite Hg. apply lcm_formula. assumption.
Qed.

Lemma lcm_correct : forall w a b, 0 < w -> in_range Signed w a = true -> in_range Signed w b = true ->
  impl_lcm w a b = Some (spec_lcm w a b).
Proof.
  intros w a b Hw Ha Hb. unfold impl_lcm, spec_lcm.
  pose proof (lo_signed_neg w Hw) as Hlo. pose proof (hi_signed w) as Hhi.
  destruct (Z.eq_dec a 0) as [Za|Za].
  { subst a. cbn [Z.eqb orb]. rewrite Z.lcm_0_l. unfold spec_of. rewrite Ha. reflexivity. }
  destruct (Z.eq_dec b 0) as [Zb|Zb].
  { subst b. rewrite Z.eqb_refl, orb_true_r. rewrite Z.lcm_0_r. unfold spec_of. rewrite Hb. reflexivity. }
  replace (a =? 0) with false by lia. replace (b =? 0) with false by lia. cbn [orb].
  destruct (euclid_c (euclid_fuel w) a b) as [g|] eqn:Ee.
  2:{ exfalso. revert Ee. apply euclid_c_fuel_ok; assumption. }
  destruct (euclid_c_gcd _ w a b g Hw Ha Hb Ee) as [Hg Hgr]. cbn [option_map]. f_equal.
  pose proof (lcm_signed_formula a b g Za Hg) as HL.
  pose proof (Z.gcd_nonneg a b) as Hn.
  assert (Hg0 : g <> 0).
  { intro E. subst g. cbn in Hg. symmetry in Hg. apply Z.gcd_eq_0_l in Hg. contradiction. }
  unfold div_checked, div_fault. replace (g =? 0) with false by lia. cbn [orb].
  destruct ((a =? lo Signed w) && (g =? -1)) eqn:Ef.
  - (* MIN / -1: the lcm is |MIN| * |b| *)
    apply andb_true_iff in Ef. destruct Ef as [E1 E2]. apply Z.eqb_eq in E1. apply Z.eqb_eq in E2. subst g.
    cbn [of_opt]. unfold spec_of.
    replace (in_range Signed w (Z.lcm a b)) with false; [reflexivity|].
    symmetry. apply in_range_false_iff. rewrite <- HL.
    assert (Hq : a ÷ -1 = - a).
    { transitivity (- (a ÷ 1)); [exact (Z.quot_opp_r a 1 ltac:(lia))|rewrite Z.quot_1_r; reflexivity]. }
    rewrite Hq, Z.abs_mul, Z.abs_opp. rewrite E1. cbn [lo hi] in *. nia.
  - unfold mul_checked. set (v := Z.quot a g * b) in *.
    destruct (in_range Signed w v) eqn:Ev.
    + rewrite abs_checked_spec by assumption. rewrite HL. reflexivity.
    + cbn [of_opt]. unfold spec_of.
      replace (in_range Signed w (Z.lcm a b)) with false; [reflexivity|].
      symmetry. apply in_range_false_iff. apply in_range_false_iff in Ev. rewrite <- HL. lia.
Qed.

Lemma factorial_correct : forall n, impl_factorial n = Some (spec_factorial n).
Proof.
  intros n. unfold impl_factorial, spec_factorial. fold (zf n). destruct (n <? 0) eqn:E0; [reflexivity|].
  destruct ((n =? 0) || (n =? 1)) eqn:E1.
  - assert (n = 0 \/ n = 1) as [H|H] by lia; subst n; vm_compute; reflexivity.
  - rewrite (fact_loop_spec fact_fuel 2 n 1); try lia; try reflexivity.
    + destruct (in_range Signed 128 (zf n)); reflexivity.
    + unfold fact_fuel. lia.
Qed.

Lemma shr_correct : forall sg w a b, 0 < w <= 2 ^ 31 -> in_range Signed 32 b = true -> in_range sg w a = true ->
  impl_shr sg w a b = spec_shr sg w a b.
Proof.
  intros sg w a b Hw Hb Ha. unfold impl_shr, spec_shr. destruct (b <? 0) eqn:E.
  - pose proof (as_u32_neg b ltac:(lia) Hb). replace (as_u32 b <? w) with false by lia.
    replace (0 <? b) with false by lia. reflexivity.
  - rewrite as_u32_nonneg by (assumption || lia). rewrite Z.shiftr_div_pow2 by lia.
    destruct (b <? w) eqn:E2; [reflexivity|].
    replace (0 <? b) with true by lia. f_equal.
    pose proof (pow2_split w ltac:(lia)) as Hs. pose proof (pow2_pos (w - 1) ltac:(lia)) as Hp.
    assert (Hwb : 2 ^ w <= 2 ^ b) by (apply Z.pow_le_mono_r; lia).
    apply in_range_iff in Ha.
    destruct (Z.lt_ge_cases a 0) as [Hn|Hn].
    + assert (sg = Signed) by (destruct sg; [reflexivity|cbn [lo] in Ha; lia]). subst sg. cbn [lo hi] in Ha.
      replace (a / 2 ^ (w - 1)) with (-1) by (apply (Z.div_unique _ _ _ (a + 2 ^ (w - 1))); lia).
      change (-1 / 2) with (-1). apply (Z.div_unique _ _ _ (a + 2 ^ b)); lia.
    + rewrite (Z.div_small a (2 ^ b)) by (destruct sg; cbn [lo hi] in Ha; lia).
      destruct (Z.lt_ge_cases a (2 ^ (w - 1))) as [Hs1|Hs1].
      * rewrite (Z.div_small a (2 ^ (w - 1))) by lia. reflexivity.
      * replace (a / 2 ^ (w - 1)) with 1; [reflexivity|].
        apply (Z.div_unique _ _ _ (a - 2 ^ (w - 1))); destruct sg; cbn [lo hi] in Ha; lia.
Qed.

Lemma round_val_no_panic : forall kd p diff amount v, round_val kd p diff amount v <> Panic.
Proof.
  intros kd p diff amount v. unfold round_val, checked.
  repeat match goal with |- context [if ?c then _ else _] => destruct c end; cbn [bind_out];
    repeat match goal with |- context [if ?c then _ else _] => destruct c end; discriminate.
Qed.

Lemma round_never_panics : forall kd p s n v, impl_round kd p s n v <> Panic.
Proof.
  intros kd p s n v. unfold impl_round, round_bind, checked.
  destruct (in_range Signed 8 n); [|discriminate].
  destruct (in_range Signed 8 (s - Z.min n s)); cbn [bind_out]; [|discriminate].
  destruct (in_range Signed (prim_bits kd) (10 ^ Z.abs (s - Z.min n s))); cbn [bind_out]; [|discriminate].
  pose proof (round_val_no_panic kd p (s - Z.min n s) (10 ^ Z.abs (s - Z.min n s)) v) as H.
  destruct (round_val kd p (s - Z.min n s) (10 ^ Z.abs (s - Z.min n s)) v); cbn [bind_out]; try discriminate.
  contradiction.
Qed.

Lemma round_correct_partial : forall kd p s n v, 0 <= p <= maxp kd -> -128 <= s ->
  in_range Signed 8 n = true -> s - Z.min n s <= maxp kd -> Z.abs v < 10 ^ p ->
  impl_round kd p s n v = spec_round p s n v.
Proof.
  intros kd p s n v Hp Hs Hn Hd Hv. rewrite <- (old_round_correct_partial Debug kd p s n v) by assumption.
  unfold impl_round, old_impl_round. f_equal.
  rewrite old_round_bind_ok by assumption. unfold round_bind. rewrite Hn.
  assert (Hm : maxp kd <= 38) by (destruct kd; cbn; lia).
  replace (in_range Signed 8 (s - Z.min n s)) with true by (symmetry; apply signed_range; cbn; lia).
  cbn [bind_out]. rewrite Z.abs_eq by lia.
  pose proof (pow10_le_max kd (s - Z.min n s) ltac:(lia)). destruct (prim_room kd) as [Hhi Hlo].
  assert (0 <= 10 ^ maxp kd / 2) by (apply Z.div_pos; lia).
  unfold checked. replace (in_range Signed (prim_bits kd) (10 ^ (s - Z.min n s))) with true; [reflexivity|].
  symmetry. apply in_range_iff. lia.
Qed.

Lemma round_witness : impl_round D64 10 4 (-128) 1 = Err /\ impl_round D64 10 4 (-2) 12545678 = Ok (-2, 13).
Proof. vm_compute. split; reflexivity. Qed.

Lemma shr_in_range : forall sg w a b v, 0 < w -> in_range sg w a = true -> impl_shr sg w a b = Ok v ->
  in_range sg w v = true.
Proof.
  intros sg w a b v Hw Ha H. unfold impl_shr in H.
  pose proof (pow2_pos (w - 1) ltac:(lia)) as Hp1. pose proof (pow2_pos w ltac:(lia)).
  apply in_range_iff in Ha.
  assert (Hdiv : forall d, 0 < d -> in_range sg w (a / d) = true).
  { intros d Hd. apply in_range_iff.
    assert (Hdm := Z.div_mod a d ltac:(lia)). assert (Hm := Z.mod_pos_bound a d Hd).
    destruct sg; cbn [lo hi] in *; nia. }
  destruct (as_u32 b <? w).
  - inversion H. apply Hdiv. apply pow2_pos. unfold as_u32. apply Z.mod_pos_bound. lia.
  - destruct (0 <? b); inversion H.
    + pose proof (Hdiv (2 ^ (w - 1)) Hp1) as H1. apply in_range_iff in H1. apply in_range_iff.
      assert (Hdm := Z.div_mod (a / 2 ^ (w - 1)) 2 ltac:(lia)). assert (Hm := Z.mod_pos_bound (a / 2 ^ (w - 1)) 2 ltac:(lia)).
      destruct sg; cbn [lo hi] in *; lia.
    + apply in_range_iff. destruct sg; cbn [lo hi]; lia.
Qed.

(* what remains: an error although the rounded value is representable *)
Lemma round_refuted :
  impl_round D64 18 18 (-1) 5 = Err /\ spec_round 18 18 (-1) 5 = Ok (-1, 0) /\
  impl_round D64 10 4 128 1 = Err /\ spec_round 10 4 128 1 = Ok (4, 1) /\
  impl_round D64 10 4 (-128) 1 = Err /\ spec_round 10 4 (-128) 1 = Ok (-128, 0).
Proof. vm_compute. repeat split; reflexivity. Qed.

Lemma current_witnesses :
  impl_gcd 8 (-128) 6 = Some (Ok 2) /\ impl_gcd 8 (-128) (-128) = Some Err /\ impl_gcd 64 (- 2 ^ 63) 0 = Some Err /\
  impl_lcm 8 127 126 = Some Err /\ impl_lcm 8 (-128) 127 = Some Err /\ impl_lcm 8 (-64) (-1) = Some (Ok 64) /\
  impl_factorial (-1) = Some Err /\ impl_factorial 34 = Some Err /\
  impl_shr Signed 8 (-1) 8 = Ok (-1) /\ impl_shr Unsigned 8 200 8 = Ok 0 /\ impl_shr Signed 32 (-8) (-1) = Ok 0.
Proof. vm_compute. repeat split; reflexivity. Qed.

(* ================================================================== comparisons with a decimal operand *)
Lemma maxprec_maxp : forall kd, maxprec kd = maxp kd.
Proof. intros kd. destruct kd; reflexivity. Qed.

Lemma spec_dec_cmp_cross : forall s1 v1 s2 v2, 0 <= s1 -> 0 <= s2 ->
  spec_dec_cmp s1 v1 s2 v2 = (v1 * 10 ^ s2 ?= v2 * 10 ^ s1).
Proof.
  intros s1 v1 s2 v2 H1 H2. unfold spec_dec_cmp. set (S := Z.max s1 s2).
  assert (Hm : 0 <= s1 + s2 - S) by (unfold S; lia).
  pose proof (pow10_pos (s1 + s2 - S) Hm) as Hp.
  rewrite (Zmult_compare_compat_r (v1 * 10 ^ (S - s1)) (v2 * 10 ^ (S - s2)) (10 ^ (s1 + s2 - S)) ltac:(lia)).
  rewrite <- !Z.mul_assoc, <- !Z.pow_add_r by (unfold S; lia).
  replace (S - s1 + (s1 + s2 - S)) with s2 by lia. replace (S - s2 + (s1 + s2 - S)) with s1 by lia. reflexivity.
Qed.

Lemma dec_bind_meta_scale : forall P m kd p1 s1 p2 s2 np ns,
  dec_bind_meta P m kd p1 s1 p2 s2 = Ok (np, ns) -> ns = Z.max s1 s2.
Proof.
  intros P m kd p1 s1 p2 s2 np ns H. unfold dec_bind_meta in H.
  destruct ((p1 =? p2) && (s1 =? s2)) eqn:E.
  - inversion H. lia.
  - destruct (bind_i8 P); [|inversion H; reflexivity].
    destruct (arith_result Native m Signed 8 (p1 - s1)); cbn [bind_out] in H; try discriminate.
    destruct (arith_result Native m Signed 8 (p2 - s2)); cbn [bind_out] in H; try discriminate.
    destruct (arith_result Native m Signed 8 (Z.max a a0 + Z.max s1 s2)); cbn [bind_out] in H; try discriminate.
    inversion H. reflexivity.
Qed.

Lemma round_val_up_inv : forall kd np diff x y, diff <= 0 ->
  round_val kd np diff (10 ^ Z.abs diff) x = Ok y -> y = x * 10 ^ (- diff).
Proof.
  intros kd np diff x y Hd H. unfold round_val in H. destruct (diff <? 0) eqn:E.
  - unfold checked in H. destruct (in_range Signed (prim_bits kd) (x * 10 ^ Z.abs diff)); cbn [bind_out] in H; [|discriminate].
    destruct (vprec (x * 10 ^ Z.abs diff) np); inversion H. rewrite Z.abs_neq by lia. reflexivity.
  - replace (0 <? diff) with false in H by lia. cbn [bind_out] in H.
    destruct (vprec x np); inversion H. assert (diff = 0) by lia. subst diff. cbn. lia.
Qed.

Lemma cast_side_inv : forall kd p s np ns x y, s <= ns ->
  cast_side kd p s np ns (Some x) = Ok (Some y) -> y = x * 10 ^ (ns - s).
Proof.
  intros kd p s np ns x y Hs H. unfold cast_side in H. destruct ((p =? np) && (s =? ns)) eqn:E.
  - inversion H. assert (s = ns) by lia. subst ns. rewrite Z.sub_diag. cbn. lia.
  - destruct (in_range Signed 8 (s - ns)); cbn [bind_out] in H; [|discriminate].
    unfold checked in H. destruct (in_range Signed (prim_bits kd) (10 ^ Z.abs (s - ns))); cbn [bind_out] in H; [|discriminate].
    destruct (round_val kd np (s - ns) (10 ^ Z.abs (s - ns)) x) as [z| |] eqn:Er; cbn [bind_out] in H; try discriminate.
    inversion H. subst z. apply round_val_up_inv in Er; [|lia]. rewrite Er. f_equal. f_equal. lia.
Qed.

(* never a wrong answer: whatever the common type, whenever a truth value comes back it is the order of the rationals *)
Lemma dec_cmp_sound : forall P m kd p1 s1 v1 p2 s2 v2 c,
  dec_cmp_core P m kd p1 s1 (Some v1) p2 s2 (Some v2) = Ok (Some c) -> c = spec_dec_cmp s1 v1 s2 v2.
Proof.
  intros P m kd p1 s1 v1 p2 s2 v2 c H. unfold dec_cmp_core in H.
  destruct (dec_bind_meta P m kd p1 s1 p2 s2) as [[np ns]| |] eqn:Em; cbn [bind_out] in H; try discriminate.
  apply dec_bind_meta_scale in Em.
  destruct (cast_side kd p1 s1 np ns (Some v1)) as [a| |] eqn:E1; cbn [bind_out] in H; try discriminate.
  destruct (cast_side kd p2 s2 np ns (Some v2)) as [b| |] eqn:E2; cbn [bind_out] in H; try discriminate.
  destruct a as [x|]; [|inversion H]. destruct b as [y|]; [|inversion H]. inversion H.
  apply cast_side_inv in E1; [|lia]. apply cast_side_inv in E2; [|lia]. subst x y ns. reflexivity.
Qed.

Lemma dec_cmp_null : forall P m kd p1 s1 v1 p2 s2 v2 c,
  dec_cmp_core P m kd p1 s1 v1 p2 s2 v2 = Ok c -> (v1 = None \/ v2 = None) -> c = None.
Proof.
  intros P m kd p1 s1 v1 p2 s2 v2 c H Hn. unfold dec_cmp_core in H.
  destruct (dec_bind_meta P m kd p1 s1 p2 s2) as [[np ns]| |]; cbn [bind_out] in H; try discriminate.
  destruct (cast_side kd p1 s1 np ns v1) as [a| |] eqn:E1; cbn [bind_out] in H; try discriminate.
  destruct (cast_side kd p2 s2 np ns v2) as [b| |] eqn:E2; cbn [bind_out] in H; try discriminate.
  inversion H.
  assert (Hnone : forall p s, forall o, cast_side kd p s np ns None = Ok o -> o = None).
  { intros p s o Ho. unfold cast_side in Ho. destruct ((p =? np) && (s =? ns)); [inversion Ho; reflexivity|].
    destruct (in_range Signed 8 (s - ns)); cbn [bind_out] in Ho; [|discriminate].
    destruct (checked kd (10 ^ Z.abs (s - ns))); cbn [bind_out] in Ho; try discriminate. inversion Ho. reflexivity. }
  destruct Hn as [Hn|Hn]; subst.
  - apply Hnone in E1. subst a. reflexivity.
  - apply Hnone in E2. subst b. destruct a; reflexivity.
Qed.

(* one side, under the hypotheses of the completeness theorem *)
Lemma cast_side_ok : forall kd p s np ns v, 1 <= p -> p <= np <= maxp kd -> s <= ns -> p + (ns - s) <= np ->
  Z.abs v < 10 ^ p -> cast_side kd p s np ns (Some v) = Ok (Some (v * 10 ^ (ns - s))).
Proof.
  intros kd p s np ns v Hp Hnp Hs Hfit Hv. unfold cast_side. destruct ((p =? np) && (s =? ns)) eqn:E.
  - assert (s = ns) by lia. subst ns. rewrite Z.sub_diag. cbn [Z.pow Z.pow_pos Pos.iter]. rewrite Z.mul_1_r. reflexivity.
  - assert (Hm : maxp kd <= 38) by (destruct kd; cbn; lia).
    replace (in_range Signed 8 (s - ns)) with true by (symmetry; apply signed_range; cbn; lia). cbn [bind_out].
    rewrite Z.abs_neq by lia. replace (- (s - ns)) with (ns - s) by lia.
    pose proof (pow10_le_max kd (ns - s) ltac:(lia)) as Ha. pose proof (pow10_le_max kd np ltac:(lia)) as Hn10.
    destruct (prim_room kd) as [Hhi Hlo]. assert (H0 : 0 <= 10 ^ maxp kd / 2) by (apply Z.div_pos; lia).
    unfold checked. replace (in_range Signed (prim_bits kd) (10 ^ (ns - s))) with true by (symmetry; apply in_range_iff; lia).
    cbn [bind_out].
    assert (Hb : Z.abs (v * 10 ^ (ns - s)) < 10 ^ np).
    { rewrite Z.abs_mul, (Z.abs_eq (10 ^ (ns - s))) by lia.
      apply Z.lt_le_trans with (10 ^ p * 10 ^ (ns - s)); [apply Z.mul_lt_mono_pos_r; lia|].
      rewrite <- Z.pow_add_r by lia. apply Z.pow_le_mono_r; lia. }
    unfold round_val. destruct (s - ns <? 0) eqn:Ed.
    + unfold checked. replace (in_range Signed (prim_bits kd) (v * 10 ^ (ns - s))) with true by (symmetry; apply in_range_iff; lia).
      cbn [bind_out]. rewrite vprec_ok by lia. reflexivity.
    + replace (0 <? s - ns) with false by lia. cbn [bind_out]. assert (s = ns) by lia. subst ns.
      rewrite Z.sub_diag in *. cbn [Z.pow Z.pow_pos Pos.iter] in *. rewrite Z.mul_1_r in *.
      rewrite vprec_ok by lia. reflexivity.
Qed.

(* full statement (refuted: dec_cmp_refuted -- the common precision is clamped at MAX_PRECISION and the rescaled value
   does not fit: an error although the comparison is defined):
     forall P m kd p1 s1 v1 p2 s2 v2, 1 <= p1 <= maxprec kd -> 1 <= p2 <= maxprec kd -> -128 <= s1 <= p1 -> -128 <= s2 <= p2 ->
       Z.abs v1 < 10 ^ p1 -> Z.abs v2 < 10 ^ p2 ->
       dec_cmp_core P m kd p1 s1 (Some v1) p2 s2 (Some v2) = Ok (Some (spec_dec_cmp s1 v1 s2 v2)) *)
Lemma dec_cmp_correct_partial : forall P m kd p1 s1 v1 p2 s2 v2,
  1 <= p1 <= maxprec kd -> 1 <= p2 <= maxprec kd -> s1 <= p1 -> s2 <= p2 ->
  (bind_i8 P = true -> -64 <= s1 /\ -64 <= s2) ->
  Z.max (p1 - s1) (p2 - s2) + Z.max s1 s2 <= maxprec kd ->
  Z.abs v1 < 10 ^ p1 -> Z.abs v2 < 10 ^ p2 ->
  dec_cmp_core P m kd p1 s1 (Some v1) p2 s2 (Some v2) = Ok (Some (spec_dec_cmp s1 v1 s2 v2)).
Proof.
  intros P m kd p1 s1 v1 p2 s2 v2 Hp1 Hp2 Hs1 Hs2 Hi8 Hn Hv1 Hv2. rewrite maxprec_maxp in *.
  assert (Hm : maxp kd <= 38) by (destruct kd; cbn; lia).
  set (N := Z.max (p1 - s1) (p2 - s2) + Z.max s1 s2) in *. set (S := Z.max s1 s2) in *.
  assert (Hmeta : exists np, dec_bind_meta P m kd p1 s1 p2 s2 = Ok (np, S) /\ p1 <= np <= maxp kd /\ p2 <= np /\
                             p1 + (S - s1) <= np /\ p2 + (S - s2) <= np).
  { unfold dec_bind_meta. destruct ((p1 =? p2) && (s1 =? s2)) eqn:E.
    - exists p1. assert (p1 = p2 /\ s1 = s2) as [-> ->] by lia. unfold S. rewrite Z.max_id.
      repeat split; try reflexivity; lia.
    - exists N. destruct (bind_i8 P) eqn:Eb8.
      2:{ fold S. fold N. rewrite maxprec_maxp. replace (Z.max 1 (Z.min N (maxp kd))) with N by (unfold N, S in *; lia).
          repeat split; try reflexivity; unfold N, S in *; lia. }
      destruct (Hi8 eq_refl) as [Hb1 Hb2].
      rewrite (arith_result_exact Native m Signed 8 (p1 - s1)); [|lia|apply signed_range; cbn; unfold N, S in *; lia].
      rewrite (arith_result_exact Native m Signed 8 (p2 - s2)); [|lia|apply signed_range; cbn; unfold N, S in *; lia].
      cbn [bind_out]. fold S. fold N.
      rewrite (arith_result_exact Native m Signed 8 N); [|lia|apply signed_range; cbn; unfold N, S in *; lia].
      cbn [bind_out]. rewrite Z.mod_small by (unfold N, S in *; lia). rewrite maxprec_maxp.
      replace (maxp kd <? N) with false by lia.
      repeat split; try reflexivity; unfold N, S in *; lia. }
  destruct Hmeta as [np [Em [Hnp1 [Hnp2 [Hf1 Hf2]]]]].
  unfold dec_cmp_core. rewrite Em. cbn [bind_out].
  rewrite (cast_side_ok kd p1 s1 np S v1) by (unfold S; lia). cbn [bind_out].
  rewrite (cast_side_ok kd p2 s2 np S v2) by (unfold S; lia). cbn [bind_out]. reflexivity.
Qed.

Definition P_old : cparams := {| bind_i8 := true; u64_prec := 19; wide128 := false |}.
Definition P_current : cparams := {| bind_i8 := false; u64_prec := 20; wide128 := true |}.

Lemma dec_cmp_refuted :
  dec_cmp_core P_old Debug D64 18 0 (Some 1) 18 18 (Some (5 * 10 ^ 17)) = Err /\ spec_dec_cmp 0 1 18 (5 * 10 ^ 17) = Gt /\
  dec_cmp_core P_old Debug D128 38 0 (Some 1) 38 38 (Some (5 * 10 ^ 37)) = Err /\
  dec_cmp_core P_old Debug D128 38 (-100) None 5 2 (Some 50) = Panic /\ dec_cmp_core P_old Release D128 38 (-100) None 5 2 (Some 50) = Err /\
  dec_cmp_core P_old Debug D128 18 0 (Some 1) 19 18 (Some (5 * 10 ^ 17)) = Ok (Some Gt).
Proof. vm_compute. repeat split; reflexivity. Qed.

Lemma dec_cmp_examples :
  dec_cmp_core P_old Debug D64 10 2 (Some 150) 4 1 (Some 15) = Ok (Some Eq) /\
  dec_cmp_core P_old Debug D64 10 2 (Some 150) 10 2 (Some 15) = Ok (Some Gt) /\
  dec_cmp_core P_old Debug D64 10 2 (Some 15) 10 1 (Some 15) = Ok (Some Lt) /\
  dec_cmp_core P_old Debug D128 10 2 (Some (-150)) 20 1 (Some (-15)) = Ok (Some Eq) /\
  dec_cmp_core P_old Debug D64 10 (-2) (Some 1) 10 2 (Some 10000) = Ok (Some Eq) /\
  dec_cmp_core P_old Debug D64 10 2 None 4 1 (Some 15) = Ok None.
Proof. vm_compute. repeat split; reflexivity. Qed.

(* ---- mixed operands: every resolution that stays in decimals is exact *)
Definition exact_path (P : cparams) (l r : cop) : bool :=
  match l, r with
  | OpDec _ _ _ _, OpDec _ _ _ _ => true
  | OpDec kd _ _ _, OpInt _ w _ | OpInt _ w _, OpDec kd _ _ _ =>
    (w <=? 32) || wide128 P || match kd with D128 => true | D64 => false end
  | _, _ => false
  end.

Lemma comparison_flip : forall a b c, (a ?= b) = c -> (b ?= a) = CompOpp c.
Proof. intros a b c H. subst c. apply Z.compare_antisym. Qed.

Lemma spec_dec_cmp_flip : forall s1 v1 s2 v2, spec_dec_cmp s2 v2 s1 v1 = CompOpp (spec_dec_cmp s1 v1 s2 v2).
Proof. intros. unfold spec_dec_cmp. rewrite (Z.max_comm s2 s1). apply Z.compare_antisym. Qed.

Lemma int_as_dec_inv : forall P sg w x y, int_as_dec P sg w x = Ok y -> y = x.
Proof. intros P sg w x y H. unfold int_as_dec in H. destruct x as [x|]; [destruct (vprec x (int_prec P sg w))|]; inversion H; reflexivity. Qed.

Lemma cmp_mixed_sound : forall P m l r c, exact_path P l r = true ->
  impl_cmp_mixed P m l r = Ok (Some c) -> spec_cmp_mixed l r = Ok (Some c).
Proof.
  intros P m l r c Hp H.
  destruct l as [kd1 p1 s1 v1|sg1 w1 x1|b1]; destruct r as [kd2 p2 s2 v2|sg2 w2 x2|b2]; cbn [exact_path] in Hp; try discriminate.
  - (* decimal ~ decimal *)
    cbn [impl_cmp_mixed dec_vs] in H.
    destruct v1 as [v1|]; [|apply dec_cmp_null in H; [discriminate|left; reflexivity]].
    destruct v2 as [v2|]; [|apply dec_cmp_null in H; [discriminate|right; reflexivity]].
    apply dec_cmp_sound in H. subst c. reflexivity.
  - (* decimal ~ integer *)
    cbn [impl_cmp_mixed dec_vs] in H.
    assert (Hcore : exists k, bind_out (int_as_dec P sg2 w2 x2) (fun y => dec_cmp_core P m k p1 s1 v1 (int_prec P sg2 w2) 0 y) = Ok (Some c)).
    { destruct (w2 <=? 32); [eexists; exact H|]. destruct (wide128 P); [eexists; exact H|].
      destruct kd1; [discriminate|eexists; exact H]. }
    destruct Hcore as [k Hcore].
    destruct (int_as_dec P sg2 w2 x2) as [y| |] eqn:Ei; cbn [bind_out] in Hcore; try discriminate.
    apply int_as_dec_inv in Ei. subst y.
    destruct v1 as [v1|]; [|apply dec_cmp_null in Hcore; [discriminate|left; reflexivity]].
    destruct x2 as [x2|]; [|apply dec_cmp_null in Hcore; [discriminate|right; reflexivity]].
    apply dec_cmp_sound in Hcore. subst c. reflexivity.
  - (* integer ~ decimal *)
    cbn [impl_cmp_mixed dec_vs] in H.
    assert (Hcore : exists k, bind_out (int_as_dec P sg1 w1 x1) (fun y => dec_cmp_core P m k (int_prec P sg1 w1) 0 y p2 s2 v2) = Ok (Some c)).
    { destruct (w1 <=? 32); [eexists; exact H|]. destruct (wide128 P); [eexists; exact H|].
      destruct kd2; [discriminate|eexists; exact H]. }
    destruct Hcore as [k Hcore].
    destruct (int_as_dec P sg1 w1 x1) as [y| |] eqn:Ei; cbn [bind_out] in Hcore; try discriminate.
    apply int_as_dec_inv in Ei. subst y.
    destruct x1 as [x1|]; [|apply dec_cmp_null in Hcore; [discriminate|left; reflexivity]].
    destruct v2 as [v2|]; [|apply dec_cmp_null in Hcore; [discriminate|right; reflexivity]].
    apply dec_cmp_sound in Hcore. subst c. reflexivity.
Qed.

(* with the wide casts every decimal ~ integer comparison stays in decimals *)
Lemma exact_path_current : forall l r, exact_path P_current l r =
  match l, r with OpDec _ _ _ _, OpDec _ _ _ _ | OpDec _ _ _ _, OpInt _ _ _ | OpInt _ _ _, OpDec _ _ _ _ => true | _, _ => false end.
Proof. intros l r. destruct l, r; cbn [exact_path P_current wide128]; try reflexivity; rewrite orb_true_r; reflexivity. Qed.

(* Int64 against a Decimal64: both sides go through Float64 and integers beyond 2^53 that differ compare equal;
   UInt64 of 20 digits against a Decimal128: the cast to decimal(19,0) fails *)
Lemma cmp_mixed_refuted :
  impl_cmp_mixed P_old Debug (OpInt Signed 64 (Some 9007199254740993)) (OpDec D64 18 0 (Some 9007199254740992)) = Ok (Some Eq) /\
  spec_cmp_mixed (OpInt Signed 64 (Some 9007199254740993)) (OpDec D64 18 0 (Some 9007199254740992)) = Ok (Some Gt) /\
  impl_cmp_mixed P_old Debug (OpDec D128 20 2 (Some 150)) (OpInt Unsigned 64 (Some 18446744073709551615)) = Err /\
  spec_cmp_mixed (OpDec D128 20 2 (Some 150)) (OpInt Unsigned 64 (Some 18446744073709551615)) = Ok (Some Lt) /\
  impl_cmp_mixed P_old Debug (OpInt Unsigned 64 (Some 5)) (OpDec D64 10 2 (Some 500)) = Err /\
  (* the same operands with the repaired variants *)
  impl_cmp_mixed P_current Debug (OpInt Signed 64 (Some 9007199254740993)) (OpDec D64 18 0 (Some 9007199254740992)) = Ok (Some Gt) /\
  impl_cmp_mixed P_current Debug (OpDec D128 20 2 (Some 150)) (OpInt Unsigned 64 (Some 18446744073709551615)) = Ok (Some Lt) /\
  impl_cmp_mixed P_current Debug (OpInt Unsigned 64 (Some 5)) (OpDec D64 10 2 (Some 500)) = Ok (Some Eq) /\
  dec_cmp_core P_current Debug D128 38 (-100) None 5 2 (Some 50) = Err.
Proof. vm_compute. repeat split; reflexivity. Qed.

Lemma cmp_results_spec : forall c,
  cmp_results (Some c) false false =
  map Some [match c with Lt => true | _ => false end; match c with Gt => false | _ => true end;
            match c with Eq => true | _ => false end; match c with Eq => false | _ => true end;
            match c with Lt => false | _ => true end; match c with Gt => true | _ => false end;
            match c with Eq => false | _ => true end; match c with Eq => true | _ => false end].
Proof. intros c. destruct c; reflexivity. Qed.

Example dec_cmp_hyps_sat : 1 <= 10 <= maxprec D64 /\ 1 <= 4 <= maxprec D64 /\ -64 <= 2 <= 10 /\ -64 <= 1 <= 4 /\
  Z.max (10 - 2) (4 - 1) + Z.max 2 1 <= maxprec D64 /\ Z.abs 150 < 10 ^ 10 /\ Z.abs 15 < 10 ^ 4 /\
  exact_path P_old (OpDec D64 10 2 (Some 150)) (OpInt Signed 32 (Some 2)) = true.
Proof. vm_compute. repeat split; discriminate. Qed.

(* ---- the current source (3e3b1e8ef, 2085adc17, 2b7187fb9): P_current *)
Lemma cast_side_no_panic : forall kd p s np ns v, cast_side kd p s np ns v <> Panic.
Proof.
  intros kd p s np ns v. unfold cast_side, checked. destruct ((p =? np) && (s =? ns)); [discriminate|].
  destruct (in_range Signed 8 (s - ns)); cbn [bind_out]; [|discriminate].
  destruct (in_range Signed (prim_bits kd) (10 ^ Z.abs (s - ns))); cbn [bind_out]; [|discriminate].
  destruct v as [x|]; [|discriminate].
  pose proof (round_val_no_panic kd np (s - ns) (10 ^ Z.abs (s - ns)) x) as H.
  destruct (round_val kd np (s - ns) (10 ^ Z.abs (s - ns)) x); cbn [bind_out]; try discriminate. contradiction.
Qed.

Lemma dec_cmp_never_panics : forall P m kd p1 s1 v1 p2 s2 v2, bind_i8 P = false ->
  dec_cmp_core P m kd p1 s1 v1 p2 s2 v2 <> Panic.
Proof.
  intros P m kd p1 s1 v1 p2 s2 v2 Hb. unfold dec_cmp_core, dec_bind_meta. rewrite Hb.
  destruct ((p1 =? p2) && (s1 =? s2)); cbn [bind_out].
  - pose proof (cast_side_no_panic kd p1 s1 p1 s1 v1) as H1. destruct (cast_side kd p1 s1 p1 s1 v1); cbn [bind_out]; try discriminate; [|contradiction].
    pose proof (cast_side_no_panic kd p2 s2 p1 s1 v2) as H2. destruct (cast_side kd p2 s2 p1 s1 v2); cbn [bind_out]; try discriminate. contradiction.
  - set (np := Z.max 1 (Z.min (Z.max (p1 - s1) (p2 - s2) + Z.max s1 s2) (maxprec kd))). set (ns := Z.max s1 s2).
    pose proof (cast_side_no_panic kd p1 s1 np ns v1) as H1. destruct (cast_side kd p1 s1 np ns v1); cbn [bind_out]; try discriminate; [|contradiction].
    pose proof (cast_side_no_panic kd p2 s2 np ns v2) as H2. destruct (cast_side kd p2 s2 np ns v2); cbn [bind_out]; try discriminate. contradiction.
Qed.

Lemma dec_cmp_current_correct_partial : forall m kd p1 s1 v1 p2 s2 v2,
  1 <= p1 <= maxprec kd -> 1 <= p2 <= maxprec kd -> s1 <= p1 -> s2 <= p2 ->
  Z.max (p1 - s1) (p2 - s2) + Z.max s1 s2 <= maxprec kd ->
  Z.abs v1 < 10 ^ p1 -> Z.abs v2 < 10 ^ p2 ->
  dec_cmp_core P_current m kd p1 s1 (Some v1) p2 s2 (Some v2) = Ok (Some (spec_dec_cmp s1 v1 s2 v2)).
Proof.
  intros. apply dec_cmp_correct_partial; try assumption. cbn [P_current bind_i8]. discriminate.
Qed.

Definition no_float (l r : cop) : bool :=
  match l, r with OpDec _ _ _ _, OpDec _ _ _ _ | OpDec _ _ _ _, OpInt _ _ _ | OpInt _ _ _, OpDec _ _ _ _ => true | _, _ => false end.

(* a decimal against a decimal or an integer of any width, either order: never a wrong answer *)
Lemma cmp_mixed_current_sound : forall m l r c, no_float l r = true ->
  impl_cmp_mixed P_current m l r = Ok (Some c) -> spec_cmp_mixed l r = Ok (Some c).
Proof.
  intros m l r c Hn H. apply (cmp_mixed_sound P_current m); [|assumption].
  rewrite exact_path_current. exact Hn.
Qed.

(* what remains: the common precision is clamped and the rescaled value does not fit -- an error *)
Lemma dec_cmp_current_refuted :
  dec_cmp_core P_current Debug D64 18 0 (Some 1) 18 18 (Some (5 * 10 ^ 17)) = Err /\ spec_dec_cmp 0 1 18 (5 * 10 ^ 17) = Gt /\
  dec_cmp_core P_current Debug D128 38 0 (Some 1) 38 38 (Some (5 * 10 ^ 37)) = Err /\
  dec_cmp_core P_current Debug D128 18 0 (Some 1) 19 18 (Some (5 * 10 ^ 17)) = Ok (Some Gt) /\
  dec_cmp_core P_current Debug D128 38 (-100) None 5 2 (Some 50) = Err.
Proof. vm_compute. repeat split; reflexivity. Qed.

Lemma src_cmp_is_repaired : decbind_i8 = Some 0 /\ u64_dec_precision = Some 20 /\ wide_dec128 = Some 1.
Proof. repeat split; reflexivity. Qed.

(* ------------------------------------------------------------------ which variant the source has *)
Definition style_of (k : Z) : style := if k =? 0 then Checked else Native.

Lemma src_variants_known : exists g l f s r,
  gcd_native = Some g /\ lcm_native = Some l /\ factorial_null = Some f /\ shr_zero_fill = Some s /\
  d2d_scale_sub_native = Some r /\ In g [0; 1] /\ In l [0; 1] /\ In f [0; 1] /\ In s [0; 1] /\ In r [0; 1].
Proof. do 5 eexists. repeat split; try reflexivity; vm_compute; tauto. Qed.

Lemma src_cmp_params_known : exists b u w,
  decbind_i8 = Some b /\ u64_dec_precision = Some u /\ wide_dec128 = Some w /\ In b [0; 1] /\ In u [19; 20] /\ In w [0; 1].
Proof. do 3 eexists. repeat split; try reflexivity; vm_compute; tauto. Qed.

(* the source has the repaired variant of all five files: the theorems about impl_gcd, impl_lcm, impl_factorial,
   impl_shr, impl_round are theorems about the current source *)
Lemma src_is_repaired :
  gcd_native = Some 0 /\ lcm_native = Some 0 /\ factorial_null = Some 0 /\ shr_zero_fill = Some 0 /\ d2d_scale_sub_native = Some 0.
Proof. repeat split; reflexivity. Qed.
