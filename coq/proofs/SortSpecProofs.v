(* Proofs about model/SortSpec.v: the declared order is a total preorder on
   well-formed rows, insertion sort is a sorting function, and the checker
   check_order_slice is sound. *)
From Coq Require Import NArith ZArith List Bool Lia Permutation Sorted.
From GV Require Import lib.Bytes model.SortKey model.SortSpec proofs.SortKeyProofs.
Import ListNotations.
Local Open Scope nat_scope.

(* ---------- comparison triples ---------- *)

Definition cmp_eqb (x y : comparison) : bool :=
  match x, y with Eq, Eq | Lt, Lt | Gt, Gt => true | _, _ => false end.

Lemma cmp_eqb_eq x y : cmp_eqb x y = true -> x = y.
Proof. destruct x, y; cbn; congruence. Qed.

(* (cmp a b, cmp b c, cmp a c) is what a total preorder allows *)
Definition ctrip (ab bc ac : comparison) : bool :=
  match ab, bc with
  | Eq, _ => cmp_eqb ac bc
  | _, Eq => cmp_eqb ac ab
  | Lt, Lt => cmp_eqb ac Lt
  | Gt, Gt => cmp_eqb ac Gt
  | _, _ => true
  end.

Definition lexc (x y : comparison) : comparison :=
  match x with Eq => y | Lt => Lt | Gt => Gt end.

Lemma ctrip_lexc x1 x2 x3 y1 y2 y3 :
  ctrip x1 x2 x3 = true -> ctrip y1 y2 y3 = true ->
  ctrip (lexc x1 y1) (lexc x2 y2) (lexc x3 y3) = true.
Proof. destruct x1, x2, x3, y1, y2, y3; cbn; congruence. Qed.

Lemma ctrip_opp x y z : ctrip x y z = true -> ctrip (CompOpp x) (CompOpp y) (CompOpp z) = true.
Proof. destruct x, y, z; cbn; congruence. Qed.

Lemma CompOpp_lexc x y : CompOpp (lexc x y) = lexc (CompOpp x) (CompOpp y).
Proof. destruct x; reflexivity. Qed.

Lemma N_compare_ctrip (x y z : N) : ctrip (x ?= y)%N (y ?= z)%N (x ?= z)%N = true.
Proof.
  destruct (N.compare_spec x y) as [E1|L1|G1]; destruct (N.compare_spec y z) as [E2|L2|G2];
    destruct (N.compare_spec x z) as [E3|L3|G3]; cbn; try reflexivity; exfalso; lia.
Qed.

Lemma Z_compare_ctrip (x y z : Z) : ctrip (x ?= y)%Z (y ?= z)%Z (x ?= z)%Z = true.
Proof.
  destruct (Z.compare_spec x y) as [E1|L1|G1]; destruct (Z.compare_spec y z) as [E2|L2|G2];
    destruct (Z.compare_spec x z) as [E3|L3|G3]; cbn; try reflexivity; exfalso; lia.
Qed.

Lemma lex_cmp_ctrip a : forall b c, ctrip (lex_cmp a b) (lex_cmp b c) (lex_cmp a c) = true.
Proof.
  induction a as [|x a IH]; intros [|y b] [|z c]; try reflexivity;
    try (destruct (lex_cmp (_ :: _) (_ :: _)); reflexivity).
  change (ctrip (lexc (x ?= y)%N (lex_cmp a b)) (lexc (y ?= z)%N (lex_cmp b c))
                (lexc (x ?= z)%N (lex_cmp a c)) = true).
  apply ctrip_lexc; [apply N_compare_ctrip|apply IH].
Qed.

(* transitivity of lex_cmp in the usual forms (lex_cmp_trans_lt is in lib/Bytes.v) *)
Lemma lex_cmp_trans_le a b c : lex_cmp a b <> Gt -> lex_cmp b c <> Gt -> lex_cmp a c <> Gt.
Proof.
  generalize (lex_cmp_ctrip a b c).
  destruct (lex_cmp a b), (lex_cmp b c), (lex_cmp a c); cbn; congruence.
Qed.

(* ---------- 1. antisymmetry, for all values ---------- *)

Lemma val_cmp_antisym t a b : val_cmp t b a = CompOpp (val_cmp t a b).
Proof.
  destruct t as [w|w|w k|tk fk|pw|]; destruct a as [|x|sx|m1 d1 n1];
    destruct b as [|y|sy|m2 d2 n2]; cbn [val_cmp CompOpp]; try reflexivity.
  - apply N.compare_antisym.
  - apply Z.compare_antisym.
  - apply Z.compare_antisym.
  - apply N.compare_antisym.
  - apply lex_cmp_antisym.
  - rewrite (Z.compare_antisym (sint 4 m1) (sint 4 m2)),
            (Z.compare_antisym (sint 4 d1) (sint 4 d2)),
            (Z.compare_antisym (sint 8 n1) (sint 8 n2)).
    destruct (sint 4 m1 ?= sint 4 m2)%Z; cbn [CompOpp]; try reflexivity.
    destruct (sint 4 d1 ?= sint 4 d2)%Z; cbn [CompOpp]; reflexivity.
Qed.

Lemma col_cmp_antisym c a b : col_cmp c b a = CompOpp (col_cmp c a b).
Proof.
  destruct a as [|x|sx|m1 d1 n1]; destruct b as [|y|sy|m2 d2 n2]; cbn [col_cmp];
    try (destruct (k_nulls_first c); reflexivity); try reflexivity;
    rewrite val_cmp_antisym; destruct (k_desc c); try reflexivity;
    rewrite CompOpp_involutive; reflexivity.
Qed.

Theorem row_cmp_antisym : forall cs a b, row_cmp cs b a = CompOpp (row_cmp cs a b).
Proof.
  induction cs as [|c cs IH]; intros a b; [reflexivity|].
  destruct a as [|x a]; destruct b as [|y b]; try reflexivity.
  cbn [row_cmp]. rewrite (col_cmp_antisym c x y).
  destruct (col_cmp c x y); cbn [CompOpp]; [apply IH|reflexivity|reflexivity].
Qed.

Lemma row_cmp_refl cs a : row_cmp cs a a = Eq.
Proof. generalize (row_cmp_antisym cs a a). destruct (row_cmp cs a a); cbn; congruence. Qed.

(* ---------- 2. totality ---------- *)

Theorem rle_total : forall cs a b, rle cs a b = true \/ rle cs b a = true.
Proof.
  intros cs a b. unfold rle. rewrite (row_cmp_antisym cs a b).
  destruct (row_cmp cs a b); cbn [CompOpp]; auto.
Qed.

Lemma rle_refl cs a : rle cs a a = true.
Proof. unfold rle. rewrite row_cmp_refl. reflexivity. Qed.

(* ---------- 3. transitivity on well-formed rows ---------- *)

Definition row_wf (cs : list kcol) (r : list kval) : Prop :=
  Forall2 (fun c v => val_wf (k_ty c) v) cs r.

Lemma val_cmp_ctrip t a b c :
  val_wf t a -> val_wf t b -> val_wf t c -> a <> KNull -> b <> KNull -> c <> KNull ->
  ctrip (val_cmp t a b) (val_cmp t b c) (val_cmp t a c) = true.
Proof.
  intros Ha Hb Hc Na Nb Nc.
  destruct t as [w|w|w k|tk fk|pw|];
    destruct a as [|x|sx|m1 d1 n1]; try congruence;
    destruct b as [|y|sy|m2 d2 n2]; try congruence;
    destruct c as [|z|sz|m3 d3 n3]; try congruence;
    cbn [val_wf] in Ha, Hb, Hc; try contradiction; cbn [val_cmp].
  - apply N_compare_ctrip.
  - apply Z_compare_ctrip.
  - apply Z_compare_ctrip.
  - apply N_compare_ctrip.
  - apply lex_cmp_ctrip.
  - change (ctrip
      (lexc (sint 4 m1 ?= sint 4 m2)%Z (lexc (sint 4 d1 ?= sint 4 d2)%Z (sint 8 n1 ?= sint 8 n2)%Z))
      (lexc (sint 4 m2 ?= sint 4 m3)%Z (lexc (sint 4 d2 ?= sint 4 d3)%Z (sint 8 n2 ?= sint 8 n3)%Z))
      (lexc (sint 4 m1 ?= sint 4 m3)%Z (lexc (sint 4 d1 ?= sint 4 d3)%Z (sint 8 n1 ?= sint 8 n3)%Z))
      = true).
    apply ctrip_lexc; [apply Z_compare_ctrip|].
    apply ctrip_lexc; apply Z_compare_ctrip.
Qed.

Lemma col_cmp_ctrip c a b d :
  val_wf (k_ty c) a -> val_wf (k_ty c) b -> val_wf (k_ty c) d ->
  ctrip (col_cmp c a b) (col_cmp c b d) (col_cmp c a d) = true.
Proof.
  intros Ha Hb Hd.
  assert (NN : a <> KNull -> b <> KNull -> d <> KNull ->
               ctrip (col_cmp c a b) (col_cmp c b d) (col_cmp c a d) = true).
  { intros Na Nb Nd. rewrite !col_cmp_nonnull by assumption.
    pose proof (val_cmp_ctrip (k_ty c) a b d Ha Hb Hd Na Nb Nd) as H.
    destruct (k_desc c); [apply ctrip_opp|]; exact H. }
  clear Ha Hb Hd.
  destruct a as [|x|sx|m1 d1 n1]; destruct b as [|y|sy|m2 d2 n2];
    destruct d as [|z|sz|m3 d3 n3]; try (apply NN; discriminate); clear NN;
    cbn [col_cmp]; destruct (k_nulls_first c); destruct (k_desc c);
    repeat match goal with
           | |- context [val_cmp ?t ?u ?v] => destruct (val_cmp t u v)
           end; reflexivity.
Qed.

Lemma row_cmp_ctrip cs : forall a b c, row_wf cs a -> row_wf cs b -> row_wf cs c ->
  ctrip (row_cmp cs a b) (row_cmp cs b c) (row_cmp cs a c) = true.
Proof.
  unfold row_wf. induction cs as [|k cs IH]; intros a b c Ha Hb Hc.
  - reflexivity.
  - inversion Ha as [|k1 x cs1 a' Hx Ha']; inversion Hb as [|k2 y cs2 b' Hy Hb'];
      inversion Hc as [|k3 z cs3 c' Hz Hc']; subst.
    change (ctrip (lexc (col_cmp k x y) (row_cmp cs a' b')) (lexc (col_cmp k y z) (row_cmp cs b' c'))
                  (lexc (col_cmp k x z) (row_cmp cs a' c')) = true).
    apply ctrip_lexc; [apply col_cmp_ctrip; assumption|apply IH; assumption].
Qed.

Theorem rle_trans cs a b c : row_wf cs a -> row_wf cs b -> row_wf cs c ->
  rle cs a b = true -> rle cs b c = true -> rle cs a c = true.
Proof.
  intros Ha Hb Hc. unfold rle. generalize (row_cmp_ctrip cs a b c Ha Hb Hc).
  destruct (row_cmp cs a b), (row_cmp cs b c), (row_cmp cs a c); cbn; congruence.
Qed.

Theorem row_cmp_lt_trans cs a b c : row_wf cs a -> row_wf cs b -> row_wf cs c ->
  row_cmp cs a b = Lt -> row_cmp cs b c = Lt -> row_cmp cs a c = Lt.
Proof.
  intros Ha Hb Hc. generalize (row_cmp_ctrip cs a b c Ha Hb Hc).
  destruct (row_cmp cs a b), (row_cmp cs b c), (row_cmp cs a c); cbn; congruence.
Qed.

(* rows with equal keys are interchangeable in every comparison *)
Lemma row_cmp_eq_l cs a b c : row_wf cs a -> row_wf cs b -> row_wf cs c ->
  row_cmp cs a b = Eq -> row_cmp cs a c = row_cmp cs b c.
Proof.
  intros Ha Hb Hc. generalize (row_cmp_ctrip cs a b c Ha Hb Hc).
  destruct (row_cmp cs a b), (row_cmp cs b c), (row_cmp cs a c); cbn; congruence.
Qed.

Lemma row_cmp_eq_r cs a b c : row_wf cs a -> row_wf cs b -> row_wf cs c ->
  row_cmp cs b c = Eq -> row_cmp cs a c = row_cmp cs a b.
Proof.
  intros Ha Hb Hc. generalize (row_cmp_ctrip cs a b c Ha Hb Hc).
  destruct (row_cmp cs a b), (row_cmp cs b c), (row_cmp cs a c); cbn; congruence.
Qed.

Theorem row_cmp_trans cs a b c : row_wf cs a -> row_wf cs b -> row_wf cs c ->
  (rle cs a b = true -> rle cs b c = true -> rle cs a c = true) /\
  (row_cmp cs a b = Lt -> row_cmp cs b c = Lt -> row_cmp cs a c = Lt).
Proof.
  intros Ha Hb Hc. split; [apply rle_trans|apply row_cmp_lt_trans]; assumption.
Qed.

(* ---------- 4. insertion sort ---------- *)

Lemma sle_total cs a b : sle cs a b = true \/ sle cs b a = true.
Proof. apply rle_total. Qed.

Lemma sle_refl cs a : sle cs a a = true.
Proof. apply rle_refl. Qed.

Lemma sle_false_flip cs a b : sle cs a b = false -> sle cs b a = true.
Proof. intros H. destruct (sle_total cs a b) as [H'|H']; [congruence|exact H']. Qed.

Lemma insert_perm cs x l : Permutation (insert cs x l) (x :: l).
Proof.
  induction l as [|y l IH]; cbn [insert]; [apply Permutation_refl|].
  destruct (sle cs x y); [apply Permutation_refl|].
  eapply perm_trans; [apply perm_skip, IH|apply perm_swap].
Qed.

Theorem isort_perm : forall cs l, Permutation (isort cs l) l.
Proof.
  intros cs l. induction l as [|x l IH]; [apply perm_nil|].
  change (isort cs (x :: l)) with (insert cs x (isort cs l)).
  eapply perm_trans; [apply insert_perm|apply perm_skip, IH].
Qed.

Lemma insert_sorted cs x l : sortedb cs l = true -> sortedb cs (insert cs x l) = true.
Proof.
  induction l as [|y l IH]; intros Hs; [reflexivity|].
  cbn [insert]. destruct (sle cs x y) eqn:Exy.
  - change (sle cs x y && sortedb cs (y :: l) = true). rewrite Exy, Hs. reflexivity.
  - pose proof (sle_false_flip cs x y Exy) as Eyx.
    destruct l as [|z l].
    + cbn [insert sortedb]. rewrite Eyx. reflexivity.
    + cbn [sortedb] in Hs. apply andb_prop in Hs. destruct Hs as [Eyz Hs].
      specialize (IH Hs). cbn [insert] in IH |- *.
      destruct (sle cs x z).
      * change (sle cs y x && sortedb cs (x :: z :: l) = true). rewrite Eyx, IH. reflexivity.
      * change (sle cs y z && sortedb cs (z :: insert cs x l) = true). rewrite Eyz, IH. reflexivity.
Qed.

Theorem isort_sorted : forall cs l, sortedb cs (isort cs l) = true.
Proof.
  intros cs l. induction l as [|x l IH]; [reflexivity|].
  change (isort cs (x :: l)) with (insert cs x (isort cs l)). apply insert_sorted, IH.
Qed.

(* ---------- 5. sortedb reflects Sorted ---------- *)

Theorem sortedb_Sorted cs l :
  sortedb cs l = true <-> Sorted (fun a b => sle cs a b = true) l.
Proof.
  induction l as [|x l IH]; [split; [constructor|reflexivity]|].
  destruct l as [|y l].
  - split; [intros _; repeat constructor|reflexivity].
  - change (sortedb cs (x :: y :: l)) with (sle cs x y && sortedb cs (y :: l)). split.
    + intros H. apply andb_prop in H. destruct H as [Hxy Hs].
      constructor; [apply IH, Hs|constructor; exact Hxy].
    + intros H. inversion H as [|x' l' Hs Hhd]; subst. inversion Hhd as [|y' l'' Hxy]; subst.
      rewrite Hxy. apply IH in Hs. rewrite Hs. reflexivity.
Qed.

(* ---------- 6. the multiset check ---------- *)

Lemma bytes_eqb_eq a : forall b, bytes_eqb a b = true -> a = b.
Proof.
  induction a as [|x a IH]; intros [|y b] H; cbn [bytes_eqb] in H; try discriminate; [reflexivity|].
  apply andb_prop in H. destruct H as [Hxy H]. apply N.eqb_eq in Hxy. subst y.
  f_equal. apply IH, H.
Qed.

Lemma kval_eqb_eq a b : kval_eqb a b = true -> a = b.
Proof.
  destruct a as [|x|sx|m1 d1 n1]; destruct b as [|y|sy|m2 d2 n2]; cbn [kval_eqb]; intros H;
    try discriminate; try reflexivity.
  - apply N.eqb_eq in H. subst. reflexivity.
  - apply bytes_eqb_eq in H. subst. reflexivity.
  - apply andb_prop in H. destruct H as [H Hn]. apply andb_prop in H. destruct H as [Hm Hd].
    apply N.eqb_eq in Hm, Hd, Hn. subst. reflexivity.
Qed.

Lemma kvals_eqb_eq a : forall b, kvals_eqb a b = true -> a = b.
Proof.
  induction a as [|x a IH]; intros [|y b] H; cbn [kvals_eqb] in H; try discriminate; [reflexivity|].
  apply andb_prop in H. destruct H as [Hxy H]. apply kval_eqb_eq in Hxy. subst y.
  f_equal. apply IH, H.
Qed.

Lemma srow_eqb_eq (x y : srow) : srow_eqb x y = true -> x = y.
Proof.
  destruct x as [k1 p1]; destruct y as [k2 p2]. unfold srow_eqb. cbn [fst snd]. intros H.
  apply andb_prop in H. destruct H as [Hk Hp].
  apply kvals_eqb_eq in Hk, Hp. subst. reflexivity.
Qed.

Lemma remove1_perm x l : forall r, remove1 x l = Some r -> Permutation l (x :: r).
Proof.
  induction l as [|y l IH]; intros r H; cbn [remove1] in H; [discriminate|].
  destruct (srow_eqb x y) eqn:E.
  - apply srow_eqb_eq in E. inversion H; subst. apply Permutation_refl.
  - destruct (remove1 x l) as [r'|]; [|discriminate]. inversion H; subst.
    eapply perm_trans; [apply perm_skip, (IH r' eq_refl)|apply perm_swap].
Qed.

Theorem sub_bag_sound : forall out inp, sub_bag out inp = true ->
  exists rest, Permutation inp (out ++ rest).
Proof.
  induction out as [|x out IH]; intros inp H.
  - exists inp. apply Permutation_refl.
  - cbn [sub_bag] in H. destruct (remove1 x inp) as [inp'|] eqn:E; [|discriminate].
    destruct (IH inp' H) as [rest Hr]. exists rest.
    eapply perm_trans; [apply (remove1_perm x inp inp' E)|].
    cbn [app]. apply perm_skip, Hr.
Qed.

(* ---------- 7. soundness of check_order_slice ---------- *)

Definition srow_wf (cs : list kcol) (x : srow) : Prop := row_wf cs (fst x).
Definition keq (cs : list kcol) (a b : srow) : Prop := req cs (fst a) (fst b) = true.

Lemma sle_trans cs a b c : srow_wf cs a -> srow_wf cs b -> srow_wf cs c ->
  sle cs a b = true -> sle cs b c = true -> sle cs a c = true.
Proof. unfold srow_wf, sle. apply rle_trans. Qed.

Lemma keq_sle_l cs a b c : srow_wf cs a -> srow_wf cs b -> srow_wf cs c ->
  keq cs a b -> sle cs a c = sle cs b c.
Proof.
  unfold srow_wf, keq, req, sle, rle. intros Ha Hb Hc H.
  rewrite (row_cmp_eq_l cs (fst a) (fst b) (fst c) Ha Hb Hc); [reflexivity|].
  destruct (row_cmp cs (fst a) (fst b)); congruence.
Qed.

Lemma keq_sle_r cs a b c : srow_wf cs a -> srow_wf cs b -> srow_wf cs c ->
  keq cs a b -> sle cs c a = sle cs c b.
Proof.
  unfold srow_wf, keq, req, sle, rle. intros Ha Hb Hc H.
  rewrite (row_cmp_eq_r cs (fst c) (fst a) (fst b) Hc Ha Hb); [reflexivity|].
  destruct (row_cmp cs (fst a) (fst b)); congruence.
Qed.

Lemma keys_eqb_Forall2 cs a : forall b, keys_eqb cs a b = true -> Forall2 (keq cs) a b.
Proof.
  induction a as [|x a IH]; intros [|y b] H; cbn [keys_eqb] in H; try discriminate; [constructor|].
  apply andb_prop in H. destruct H as [Hxy H]. constructor; [exact Hxy|apply IH, H].
Qed.

Lemma Forall2_length_eq {A B} (R : A -> B -> Prop) l l' : Forall2 R l l' -> length l = length l'.
Proof. intros H. induction H as [|x y l l' Hxy H IH]; [reflexivity|]. cbn [length]. rewrite IH. reflexivity. Qed.

(* list helpers *)
Lemma skipn_app_len {A} (l1 l2 : list A) k : length l1 = k -> skipn k (l1 ++ l2) = l2.
Proof. intros <-. induction l1 as [|x l1 IH]; [reflexivity|exact IH]. Qed.

Lemma firstn_app_len {A} (l1 l2 : list A) k : length l1 = k -> firstn k (l1 ++ l2) = l1.
Proof. intros <-. induction l1 as [|x l1 IH]; [reflexivity|]. cbn [length app firstn]. rewrite IH. reflexivity. Qed.

Lemma Forall_firstn_ {A} (P : A -> Prop) k : forall l, Forall P l -> Forall P (firstn k l).
Proof.
  induction k as [|k IH]; intros l H; [constructor|].
  destruct l as [|x l]; [constructor|]. inversion H; subst. cbn [firstn]. constructor; [assumption|apply IH; assumption].
Qed.

Lemma Forall_skipn_ {A} (P : A -> Prop) k : forall l, Forall P l -> Forall P (skipn k l).
Proof.
  induction k as [|k IH]; intros l H; [exact H|].
  destruct l as [|x l]; [constructor|]. inversion H; subst. cbn [skipn]. apply IH; assumption.
Qed.

(* counting *)
Definition count (f : srow -> bool) (l : list srow) : nat := length (filter f l).

Lemma count_app f l1 l2 : count f (l1 ++ l2) = count f l1 + count f l2.
Proof. unfold count. rewrite filter_app, app_length. reflexivity. Qed.

Lemma count_perm f l l' : Permutation l l' -> count f l = count f l'.
Proof.
  unfold count. intros H. induction H as [|x l l' H IH|x y l|l l' l'' H1 IH1 H2 IH2].
  - reflexivity.
  - cbn [filter]. destruct (f x); cbn [length]; congruence.
  - cbn [filter]. destruct (f x); destruct (f y); reflexivity.
  - congruence.
Qed.

Lemma count_le_length f l : count f l <= length l.
Proof.
  unfold count. induction l as [|x l IH]; [apply le_n|].
  cbn [filter]. destruct (f x); cbn [length]; lia.
Qed.

Lemma count_all f l : Forall (fun y => f y = true) l -> count f l = length l.
Proof.
  unfold count. intros H. induction H as [|x l Hx H IH]; [reflexivity|].
  cbn [filter]. rewrite Hx. cbn [length]. rewrite IH. reflexivity.
Qed.

Lemma count_none f l : Forall (fun y => f y = false) l -> count f l = 0.
Proof.
  unfold count. intros H. induction H as [|x l Hx H IH]; [reflexivity|].
  cbn [filter]. rewrite Hx. exact IH.
Qed.

Section Slice.
Variable cs : list kcol.
Let le (a b : srow) : Prop := sle cs a b = true.
Let wf := srow_wf cs.

Lemma Sorted_StronglySorted_wf l : Forall wf l -> Sorted le l -> StronglySorted le l.
Proof.
  induction l as [|x l IH]; intros Hwf Hs; [constructor|].
  inversion Hwf as [|x' l' Hx Hl]; subst. inversion Hs as [|x' l' Hs' Hhd]; subst.
  specialize (IH Hl Hs'). constructor; [exact IH|].
  destruct l as [|y l]; [constructor|].
  inversion Hhd as [|y' l'' Hxy]; subst. inversion IH as [|y' l'' _ Hy]; subst.
  inversion Hl as [|y' l'' Hywf Hl']; subst.
  constructor; [exact Hxy|].
  rewrite Forall_forall in Hy, Hl' |- *. intros z Hz.
  apply (sle_trans cs x y z Hx Hywf (Hl' z Hz) Hxy (Hy z Hz)).
Qed.

Lemma SSorted_app_inv l1 l2 : StronglySorted le (l1 ++ l2) ->
  StronglySorted le l1 /\ StronglySorted le l2 /\ (forall a b, In a l1 -> In b l2 -> le a b).
Proof.
  induction l1 as [|x l1 IH]; intros H.
  - split; [constructor|]. split; [exact H|]. intros a b [].
  - cbn [app] in H. inversion H as [|x' l' Hs Hall]; subst.
    destruct (IH Hs) as (H1 & H2 & H12). apply Forall_app in Hall. destruct Hall as [Hx1 Hx2].
    split; [constructor; assumption|]. split; [exact H2|].
    intros a b [<-|Ha] Hb.
    + rewrite Forall_forall in Hx2. apply Hx2, Hb.
    + apply H12; assumption.
Qed.

Lemma SSorted_app l1 l2 : StronglySorted le l1 -> StronglySorted le l2 ->
  (forall a b, In a l1 -> In b l2 -> le a b) -> StronglySorted le (l1 ++ l2).
Proof.
  intros H1 H2 H12. induction H1 as [|x l1 H1 IH Hx]; [exact H2|].
  cbn [app]. constructor.
  - apply IH. intros a b Ha Hb. apply H12; [right; exact Ha|exact Hb].
  - apply Forall_app. split; [exact Hx|].
    rewrite Forall_forall. intros b Hb. apply H12; [left; reflexivity|exact Hb].
Qed.

(* a sorted list is a block where f holds followed by a block where it does not,
   for every f that is downward closed *)
Lemma sorted_split (f : srow -> bool) l :
  (forall x y, wf x -> wf y -> le x y -> f y = true -> f x = true) ->
  Forall wf l -> StronglySorted le l ->
  exists l1 l2, l = l1 ++ l2 /\ Forall (fun y => f y = true) l1 /\ Forall (fun y => f y = false) l2.
Proof.
  intros Hmono. induction l as [|x l IH]; intros Hwf Hs.
  - exists [], []. repeat split; constructor.
  - inversion Hwf as [|x' l' Hx Hl]; subst. inversion Hs as [|x' l' Hs' Hall]; subst.
    destruct (f x) eqn:Efx.
    + destruct (IH Hl Hs') as (l1 & l2 & -> & F1 & F2).
      exists (x :: l1), l2. repeat split; [constructor; assumption|assumption].
    + exists [], (x :: l). repeat split; [constructor|].
      constructor; [exact Efx|].
      rewrite Forall_forall in Hall, Hl |- *. intros y Hy.
      destruct (f y) eqn:Efy; [|reflexivity].
      rewrite (Hmono x y Hx (Hl y Hy) (Hall y Hy) Efy) in Efx. discriminate.
Qed.

Lemma keq_transfer (f : srow -> bool) (v : bool) w o :
  (forall a b, wf a -> wf b -> keq cs a b -> f a = f b) ->
  Forall2 (keq cs) w o -> Forall wf w -> Forall wf o ->
  Forall (fun y => f y = v) o -> Forall (fun y => f y = v) w.
Proof.
  intros Hf H. induction H as [|a b w o Hab H IH]; intros Hw Ho Hv; [constructor|].
  constructor.
  - rewrite (Hf a b (Forall_inv Hw) (Forall_inv Ho) Hab). exact (Forall_inv Hv).
  - apply IH; [exact (Forall_inv_tail Hw)|exact (Forall_inv_tail Ho)|exact (Forall_inv_tail Hv)].
Qed.

Section Core.
Variables (s out rest r pre want tail : list srow) (o : srow).
Hypothesis Hwf_s : Forall wf s.
Hypothesis Hss : StronglySorted le s.
Hypothesis Hso : StronglySorted le out.
Hypothesis Hsr : StronglySorted le r.
Hypothesis Hperm : Permutation s (out ++ rest).
Hypothesis Hr : Permutation r rest.
Hypothesis Hdec : s = pre ++ want ++ tail.
Hypothesis Hkeys : Forall2 (keq cs) want out.
Hypothesis Ho : In o out.

Lemma core_wf : Forall wf out /\ Forall wf r /\ wf o /\ Forall wf pre /\ Forall wf want /\ Forall wf tail.
Proof.
  pose proof (Permutation_Forall Hperm Hwf_s) as H. apply Forall_app in H. destruct H as [H1 H2].
  pose proof (Permutation_Forall (Permutation_sym Hr) H2) as H3.
  pose proof Hwf_s as H4. rewrite Hdec in H4. apply Forall_app in H4. destruct H4 as [H4 H5].
  apply Forall_app in H5. destruct H5 as [H5 H6].
  repeat split; try assumption. rewrite Forall_forall in H1. apply H1, Ho.
Qed.

Lemma core_before : Forall (fun b => sle cs b o = true) (firstn (length pre) r).
Proof.
  destruct core_wf as (Wout & Wr & Wo & Wpre & Wwant & Wtail).
  set (f := fun y : srow => sle cs y o).
  assert (Hmono : forall x y, wf x -> wf y -> le x y -> f y = true -> f x = true).
  { intros x y Hx Hy Hxy Hyo. apply (sle_trans cs x y o Hx Hy Wo Hxy Hyo). }
  assert (Hcong : forall a b, wf a -> wf b -> keq cs a b -> f a = f b).
  { intros a b Ha Hb Hab. apply (keq_sle_l cs a b o Ha Hb Wo Hab). }
  destruct (sorted_split f out Hmono Wout Hso) as (o1 & o2 & Eout & Fo1 & Fo2).
  destruct (sorted_split f r Hmono Wr Hsr) as (r1 & r2 & Er & Fr1 & Fr2).
  (* o is in the first block of out *)
  assert (Ho1 : In o o1).
  { rewrite Eout in Ho. apply in_app_or in Ho. destruct Ho as [H|H]; [exact H|].
    rewrite Forall_forall in Fo2. specialize (Fo2 o H). unfold f in Fo2.
    rewrite sle_refl in Fo2. discriminate. }
  rewrite Eout in Hkeys. apply Forall2_app_inv_r in Hkeys.
  destruct Hkeys as (w1 & w2 & K1 & K2 & Ewant).
  rewrite Eout in Wout. apply Forall_app in Wout. destruct Wout as [Wo1 Wo2].
  rewrite Ewant in Wwant. apply Forall_app in Wwant. destruct Wwant as [Ww1 Ww2].
  pose proof (keq_transfer f true w1 o1 Hcong K1 Ww1 Wo1 Fo1) as Fw1.
  (* w1 is non-empty; its head is <= o, and everything in pre is below it *)
  assert (Fpre : Forall (fun y => f y = true) pre).
  { destruct o1 as [|y0 o1']; [destruct Ho1|].
    destruct w1 as [|y w1']; [inversion K1|].
    pose proof (Forall_inv Fw1) as Fy. pose proof (Forall_inv Ww1) as Wy. cbn beta in Fy.
    rewrite Hdec, Ewant in Hss. apply SSorted_app_inv in Hss. destruct Hss as (_ & _ & H12).
    rewrite Forall_forall in Wpre |- *. intros a Ha.
    apply (Hmono a y (Wpre a Ha) Wy); [|exact Fy].
    apply H12; [exact Ha|]. cbn [app]. left. reflexivity. }
  (* count the rows <= o *)
  assert (Cs : length pre + length o1 <= count f s).
  { rewrite Hdec, Ewant, !count_app, (count_all f pre Fpre), (count_all f w1 Fw1).
    rewrite (Forall2_length_eq _ _ _ K1). lia. }
  assert (Cs' : count f s = length o1 + length r1).
  { rewrite (count_perm f _ _ Hperm), count_app, <- (count_perm f _ _ Hr), Eout, Er, !count_app.
    rewrite (count_all f o1 Fo1), (count_none f o2 Fo2), (count_all f r1 Fr1), (count_none f r2 Fr2).
    lia. }
  rewrite Er, firstn_app.
  replace (length pre - length r1) with 0 by lia. cbn [firstn]. rewrite app_nil_r.
  apply Forall_firstn_. exact Fr1.
Qed.

Lemma core_after : Forall (fun a => sle cs o a = true) (skipn (length pre) r).
Proof.
  destruct core_wf as (Wout & Wr & Wo & Wpre & Wwant & Wtail).
  set (g := fun y : srow => negb (sle cs o y)).
  assert (Hmono : forall x y, wf x -> wf y -> le x y -> g y = true -> g x = true).
  { intros x y Hx Hy Hxy Hyo. unfold g in *. apply negb_true_iff in Hyo. apply negb_true_iff.
    destruct (sle cs o x) eqn:E; [|reflexivity].
    rewrite (sle_trans cs o x y Wo Hx Hy E Hxy) in Hyo. discriminate. }
  assert (Hcong : forall a b, wf a -> wf b -> keq cs a b -> g a = g b).
  { intros a b Ha Hb Hab. unfold g. rewrite (keq_sle_r cs a b o Ha Hb Wo Hab). reflexivity. }
  destruct (sorted_split g out Hmono Wout Hso) as (o1 & o2 & Eout & Fo1 & Fo2).
  destruct (sorted_split g r Hmono Wr Hsr) as (r1 & r2 & Er & Fr1 & Fr2).
  assert (Ho2 : In o o2).
  { rewrite Eout in Ho. apply in_app_or in Ho. destruct Ho as [H|H]; [|exact H].
    rewrite Forall_forall in Fo1. specialize (Fo1 o H). unfold g in Fo1.
    rewrite sle_refl in Fo1. discriminate. }
  rewrite Eout in Hkeys. apply Forall2_app_inv_r in Hkeys.
  destruct Hkeys as (w1 & w2 & K1 & K2 & Ewant).
  rewrite Eout in Wout. apply Forall_app in Wout. destruct Wout as [Wo1 Wo2].
  rewrite Ewant in Wwant. apply Forall_app in Wwant. destruct Wwant as [Ww1 Ww2].
  pose proof (keq_transfer g false w2 o2 Hcong K2 Ww2 Wo2 Fo2) as Fw2.
  assert (Ftail : Forall (fun y => g y = false) tail).
  { destruct o2 as [|y0 o2']; [destruct Ho2|].
    destruct w2 as [|y w2']; [inversion K2|].
    pose proof (Forall_inv Fw2) as Fy. pose proof (Forall_inv Ww2) as Wy. cbn beta in Fy.
    rewrite Hdec, Ewant in Hss. rewrite <- app_assoc, app_assoc in Hss.
    apply SSorted_app_inv in Hss. destruct Hss as (_ & Hss2 & _).
    apply SSorted_app_inv in Hss2. destruct Hss2 as (_ & _ & H12).
    rewrite Forall_forall in Wtail |- *. intros a Ha.
    destruct (g a) eqn:Ega; [|reflexivity].
    rewrite (Hmono y a Wy (Wtail a Ha)) in Fy; [discriminate| |exact Ega].
    apply H12; [left; reflexivity|exact Ha]. }
  assert (Cs : count g s <= length pre + length o1).
  { rewrite Hdec, Ewant, !count_app, (count_none g w2 Fw2), (count_none g tail Ftail).
    pose proof (count_le_length g pre). pose proof (count_le_length g w1).
    rewrite <- (Forall2_length_eq _ _ _ K1). lia. }
  assert (Cs' : count g s = length o1 + length r1).
  { rewrite (count_perm g _ _ Hperm), count_app, <- (count_perm g _ _ Hr), Eout, Er, !count_app.
    rewrite (count_all g o1 Fo1), (count_none g o2 Fo2), (count_all g r1 Fr1), (count_none g r2 Fr2).
    lia. }
  rewrite Er, skipn_app, (skipn_all2 r1) by lia. cbn [app].
  apply (Forall_skipn_ _ (length pre - length r1)) in Fr2.
  rewrite Forall_forall in Fr2 |- *. intros a Ha. specialize (Fr2 a Ha).
  unfold g in Fr2. apply negb_false_iff in Fr2. exact Fr2.
Qed.
End Core.
End Slice.

(* out sits at offset `off` inside a sorted permutation of inp, as soon as its keys
   are those of a segment of the sorted input starting at `off` *)
Lemma order_slice_core cs inp off out want tail :
  Forall (srow_wf cs) inp ->
  sub_bag out inp = true -> sortedb cs out = true ->
  skipn off (isort cs inp) = want ++ tail -> Forall2 (keq cs) want out ->
  exists r, Permutation (firstn off r ++ out ++ skipn off r) inp /\
    Sorted (fun a b => sle cs a b = true) (firstn off r ++ out ++ skipn off r) /\
    length inp = length out + length r.
Proof.
  intros Hwf Hbag Hsorted Hdec Hkeys.
  destruct (sub_bag_sound out inp Hbag) as [rest Hrest].
  pose (s := isort cs inp). pose (r := isort cs rest). exists r.
  assert (Hr : Permutation r rest) by apply isort_perm.
  assert (Hs : Permutation s inp) by apply isort_perm.
  assert (Hperm : Permutation s (out ++ rest)) by (eapply perm_trans; [exact Hs|exact Hrest]).
  assert (Wfs : Forall (srow_wf cs) s) by apply (Permutation_Forall (Permutation_sym Hs) Hwf).
  pose proof (Permutation_Forall Hrest Hwf) as W. apply Forall_app in W. destruct W as [Wout Wrest].
  assert (Wr : Forall (srow_wf cs) r) by apply (Permutation_Forall (Permutation_sym Hr) Wrest).
  assert (SSs : StronglySorted (fun a b => sle cs a b = true) s).
  { apply Sorted_StronglySorted_wf; [exact Wfs|]. apply sortedb_Sorted, isort_sorted. }
  assert (SSr : StronglySorted (fun a b => sle cs a b = true) r).
  { apply Sorted_StronglySorted_wf; [exact Wr|]. apply sortedb_Sorted, isort_sorted. }
  assert (SSo : StronglySorted (fun a b => sle cs a b = true) out).
  { apply Sorted_StronglySorted_wf; [exact Wout|]. apply sortedb_Sorted, Hsorted. }
  split; [|split].
  - eapply perm_trans; [apply Permutation_app_swap_app|]. rewrite firstn_skipn.
    eapply perm_trans; [apply Permutation_app_head, Hr|apply Permutation_sym, Hrest].
  - destruct (Nat.le_gt_cases (length s) off) as [Hge|Hlt].
    + fold s in Hdec. rewrite (skipn_all2 s Hge) in Hdec. symmetry in Hdec.
      apply app_eq_nil in Hdec. destruct Hdec as [Ew _]. rewrite Ew in Hkeys.
      destruct out as [|o0 out']; [|inversion Hkeys].
      cbn [app]. rewrite firstn_skipn. apply sortedb_Sorted, isort_sorted.
    + assert (Hdec' : s = firstn off s ++ want ++ tail).
      { rewrite <- Hdec. symmetry. apply firstn_skipn. }
      assert (Hlen : length (firstn off s) = off) by (apply firstn_length_le; lia).
      apply StronglySorted_Sorted.
      destruct (SSorted_app_inv cs (firstn off r) (skipn off r)) as (SSb & SSa & Hba).
      { rewrite firstn_skipn. exact SSr. }
      apply SSorted_app; [exact SSb|apply SSorted_app; [exact SSo|exact SSa|]|].
      * intros a b Ha Hb.
        pose proof (core_after cs s out rest r (firstn off s) want tail a
                      Wfs SSs SSo SSr Hperm Hr Hdec' Hkeys Ha) as H.
        rewrite Hlen in H. rewrite Forall_forall in H. apply H, Hb.
      * intros a b Ha Hb. apply in_app_or in Hb. destruct Hb as [Hb|Hb]; [|apply Hba; assumption].
        pose proof (core_before cs s out rest r (firstn off s) want tail b
                      Wfs SSs SSo SSr Hperm Hr Hdec' Hkeys Hb) as H.
        rewrite Hlen in H. rewrite Forall_forall in H. apply H, Ha.
  - rewrite (Permutation_length Hrest), app_length, (Permutation_length Hr). reflexivity.
Qed.

(* The engine's output is exactly the requested slice of SOME correctly sorted
   arrangement of the input (rows with equal keys may appear in any order). *)
Theorem check_order_slice_sound cs inp off lim out :
  Forall (srow_wf cs) inp ->
  check_order_slice cs inp off lim out = true ->
  exists p, Permutation p inp /\ Sorted (fun a b => sle cs a b = true) p /\
    out = match lim with Some n => slice off n p | None => skipn off p end.
Proof.
  intros Hwf H. unfold check_order_slice in H.
  apply andb_prop in H. destruct H as [H Hkeys]. apply andb_prop in H. destruct H as [Hbag Hsorted].
  apply keys_eqb_Forall2 in Hkeys.
  pose proof (Forall2_length_eq _ _ _ Hkeys) as Hlen.
  pose proof (Permutation_length (isort_perm cs inp)) as Hls.
  destruct lim as [n|].
  - destruct (order_slice_core cs inp off out (slice off n (isort cs inp))
                (skipn n (skipn off (isort cs inp))) Hwf Hbag Hsorted) as (r & Hp & Hs & Hl).
    { unfold slice. symmetry. apply firstn_skipn. }
    { exact Hkeys. }
    exists (firstn off r ++ out ++ skipn off r). split; [exact Hp|]. split; [exact Hs|].
    unfold slice in Hlen |- *. rewrite firstn_length, skipn_length in Hlen.
    destruct (Nat.le_gt_cases off (length r)) as [Hle|Hgt].
    + rewrite (skipn_app_len (firstn off r)) by (apply firstn_length_le; exact Hle).
      destruct (Nat.eq_dec n (length out)) as [En|Nn].
      * rewrite firstn_app_len by (symmetry; exact En). reflexivity.
      * rewrite (skipn_all2 r) by lia. rewrite app_nil_r. rewrite firstn_all2 by lia. reflexivity.
    + destruct out as [|o0 out']; [|cbn [length] in *; lia].
      cbn [app]. rewrite firstn_skipn. rewrite skipn_all2 by lia. rewrite firstn_nil. reflexivity.
  - destruct (order_slice_core cs inp off out (skipn off (isort cs inp)) [] Hwf Hbag Hsorted)
      as (r & Hp & Hs & Hl).
    { symmetry. apply app_nil_r. }
    { exact Hkeys. }
    exists (firstn off r ++ out ++ skipn off r). split; [exact Hp|]. split; [exact Hs|].
    rewrite skipn_length in Hlen.
    destruct (Nat.le_gt_cases off (length r)) as [Hle|Hgt].
    + rewrite (skipn_app_len (firstn off r)) by (apply firstn_length_le; exact Hle).
      rewrite (skipn_all2 r) by lia. rewrite app_nil_r. reflexivity.
    + destruct out as [|o0 out']; [|cbn [length] in *; lia].
      cbn [app]. rewrite firstn_skipn. rewrite skipn_all2 by lia. reflexivity.
Qed.

(* the same with the hypotheses spelled out on key columns and key rows; the
   kty_ok hypothesis is not used: the declared order is a total preorder on
   well-formed values whatever the source constants are *)
Corollary check_order_slice_sound_kty_ok cs inp off lim out :
  Forall (fun c => kty_ok (k_ty c)) cs ->
  Forall (fun x : srow => Forall2 (fun c v => val_wf (k_ty c) v) cs (fst x)) inp ->
  check_order_slice cs inp off lim out = true ->
  exists p, Permutation p inp /\ Sorted (fun a b => sle cs a b = true) p /\
    out = match lim with Some n => slice off n p | None => skipn off p end.
Proof. intros _ Hwf. apply check_order_slice_sound. exact Hwf. Qed.

(* ---------- 8. the checker on a concrete case ---------- *)

Module Example.
  (* ORDER BY k1 ASC NULLS LAST, k2 DESC NULLS FIRST over two i32 key columns *)
  Definition cs : list kcol :=
    [ {| k_ty := KS 4; k_desc := false; k_nulls_first := false |};
      {| k_ty := KS 4; k_desc := true;  k_nulls_first := true  |} ].
  Definition i (z : N) : kval := KBits z.
  Definition neg1 : kval := KBits 4294967295%N.          (* -1 as an i32 bit pattern *)
  Definition row (k1 k2 : kval) (id : N) : srow := ([k1; k2], [KBits id]).

  Definition inp : list srow :=
    [ row (i 2) (i 5) 0; row (i 1) KNull 1; row (i 1) (i 7) 2; row KNull (i 3) 3;
      row (i 1) (i 7) 4; row (i 2) (i 9) 5; row (i 1) (i 3) 6; row neg1 (i 2) 7 ]%N.

  (* the declared order: -1 | 1,NULL | 1,7 | 1,7 | 1,3 | 2,9 | 2,5 | NULL,3 *)
  Example sorted_ids :
    map snd (isort cs inp) = map (fun n => [KBits n]) [7; 1; 2; 4; 6; 5; 0; 3]%N.
  Proof. vm_compute. reflexivity. Qed.

  (* OFFSET 3 LIMIT 3.  The model's own slice is rows 4,6,5; an engine that breaks the
     tie between rows 2 and 4 (equal keys 1,7) the other way returns 2,6,5: accepted *)
  Example accept_model_slice :
    check_order_slice cs inp 3 (Some 3)
      [row (i 1) (i 7) 4; row (i 1) (i 3) 6; row (i 2) (i 9) 5]%N = true.
  Proof. vm_compute. reflexivity. Qed.

  Example accept_tie_swapped :
    check_order_slice cs inp 3 (Some 3)
      [row (i 1) (i 7) 2; row (i 1) (i 3) 6; row (i 2) (i 9) 5]%N = true.
  Proof. vm_compute. reflexivity. Qed.

  (* OFFSET 6, no limit: the NULL key comes last *)
  Example accept_no_limit :
    check_order_slice cs inp 6 None [row (i 2) (i 5) 0; row KNull (i 3) 3]%N = true.
  Proof. vm_compute. reflexivity. Qed.

  (* rejected: k2 ascending inside k1 = 1 (DESC ignored) *)
  Example reject_wrong_order :
    check_order_slice cs inp 3 (Some 3)
      [row (i 1) (i 3) 6; row (i 1) (i 7) 4; row (i 2) (i 9) 5]%N = false.
  Proof. vm_compute. reflexivity. Qed.

  (* rejected: sorted and drawn from the input, but not the rows at offset 3 *)
  Example reject_wrong_window :
    check_order_slice cs inp 3 (Some 3)
      [row (i 1) (i 7) 4; row (i 1) (i 3) 6; row (i 2) (i 5) 0]%N = false.
  Proof. vm_compute. reflexivity. Qed.

  (* rejected: NULL placed first in k1 (NULLS LAST ignored) *)
  Example reject_null_first :
    check_order_slice cs inp 0 (Some 2) [row KNull (i 3) 3; row neg1 (i 2) 7]%N = false.
  Proof. vm_compute. reflexivity. Qed.

  (* rejected: right keys, but a payload that is not in the input *)
  Example reject_foreign_row :
    check_order_slice cs inp 3 (Some 3)
      [row (i 1) (i 7) 9; row (i 1) (i 3) 6; row (i 2) (i 9) 5]%N = false.
  Proof. vm_compute. reflexivity. Qed.

  (* rejected: one row short *)
  Example reject_short :
    check_order_slice cs inp 3 (Some 3) [row (i 1) (i 7) 4; row (i 1) (i 3) 6]%N = false.
  Proof. vm_compute. reflexivity. Qed.

  (* the input is well-formed, so the soundness theorem applies to the accepted case *)
  Lemma inp_wf : Forall (srow_wf cs) inp.
  Proof.
    unfold inp. repeat constructor; cbn [val_wf k_ty fst]; try exact I;
      apply N.ltb_lt; vm_compute; reflexivity.
  Qed.

  Example accepted_is_a_slice_of_a_sorted_permutation :
    exists p, Permutation p inp /\ Sorted (fun a b => sle cs a b = true) p /\
      [row (i 1) (i 7) 2; row (i 1) (i 3) 6; row (i 2) (i 9) 5]%N = slice 3 3 p.
  Proof. apply (check_order_slice_sound cs inp 3 (Some 3) _ inp_wf accept_tie_swapped). Qed.
End Example.

Print Assumptions row_cmp_antisym.
Print Assumptions rle_total.
Print Assumptions row_cmp_trans.
Print Assumptions isort_perm.
Print Assumptions isort_sorted.
Print Assumptions sortedb_Sorted.
Print Assumptions sub_bag_sound.
Print Assumptions check_order_slice_sound.
Print Assumptions check_order_slice_sound_kty_ok.
Print Assumptions Example.accepted_is_a_slice_of_a_sorted_permutation.
