(* Proofs about model/SortSpec.v: the declared order is a total preorder on
   well-formed rows, insertion sort is a sorting function, and the checker
   check_order_slice is sound. *)
From Coq Require Import NArith ZArith List Bool Lia Permutation Sorted.
From GV Require Import lib.Bytes model.SortKey model.SortSpec proofs.SortKeyProofs.
Import ListNotations.

(* ---------- comparison triples ---------- *)

Definition cmp_eqb (x y : comparison) : bool :=
  match x, y with Eq, Eq | Lt, Lt | Gt, Gt => true | _, _ => false end.

Lemma cmp_eqb_eq x y : cmp_eqb x y = true -> x = y.
Proof. destruct x, y; cbn; congruence. Qed.

(* (cmp a b, cmp b c, cmp a c) is what a total preorder allows *)
Definition ctrip (ab bc ac : comparison) : bool :=
  match ab, bc with
  | Eq, _ => cmp_eqb ac bc
  | _, Eq => cmp_eqb ac ab
  | Lt, Lt => cmp_eqb ac Lt
  | Gt, Gt => cmp_eqb ac Gt
  | _, _ => true
  end.

Definition lexc (x y : comparison) : comparison := match x with Eq => y | c => c end.

Lemma ctrip_lexc x1 x2 x3 y1 y2 y3 :
  ctrip x1 x2 x3 = true -> ctrip y1 y2 y3 = true ->
  ctrip (lexc x1 y1) (lexc x2 y2) (lexc x3 y3) = true.
Proof. destruct x1, x2, x3, y1, y2, y3; cbn; congruence. Qed.

Lemma ctrip_opp x y z : ctrip x y z = true -> ctrip (CompOpp x) (CompOpp y) (CompOpp z) = true.
Proof. destruct x, y, z; cbn; congruence. Qed.

Lemma CompOpp_lexc x y : CompOpp (lexc x y) = lexc (CompOpp x) (CompOpp y).
Proof. destruct x; reflexivity. Qed.

Lemma N_compare_ctrip (x y z : N) : ctrip (x ?= y)%N (y ?= z)%N (x ?= z)%N = true.
Proof.
  destruct (N.compare_spec x y) as [E1|L1|G1]; destruct (N.compare_spec y z) as [E2|L2|G2];
    destruct (N.compare_spec x z) as [E3|L3|G3]; cbn; try reflexivity; exfalso; lia.
Qed.

Lemma Z_compare_ctrip (x y z : Z) : ctrip (x ?= y)%Z (y ?= z)%Z (x ?= z)%Z = true.
Proof.
  destruct (Z.compare_spec x y) as [E1|L1|G1]; destruct (Z.compare_spec y z) as [E2|L2|G2];
    destruct (Z.compare_spec x z) as [E3|L3|G3]; cbn; try reflexivity; exfalso; lia.
Qed.

Lemma lex_cmp_ctrip a : forall b c, ctrip (lex_cmp a b) (lex_cmp b c) (lex_cmp a c) = true.
Proof.
  induction a as [|x a IH]; intros [|y b] [|z c]; try reflexivity;
    try (destruct (lex_cmp (_ :: _) (_ :: _)); reflexivity).
  change (ctrip (lexc (x ?= y)%N (lex_cmp a b)) (lexc (y ?= z)%N (lex_cmp b c))
                (lexc (x ?= z)%N (lex_cmp a c)) = true).
  apply ctrip_lexc; [apply N_compare_ctrip|apply IH].
Qed.

(* transitivity of lex_cmp in the usual forms (lex_cmp_trans_lt is in lib/Bytes.v) *)
Lemma lex_cmp_trans_le a b c : lex_cmp a b <> Gt -> lex_cmp b c <> Gt -> lex_cmp a c <> Gt.
Proof.
  generalize (lex_cmp_ctrip a b c).
  destruct (lex_cmp a b), (lex_cmp b c), (lex_cmp a c); cbn; congruence.
Qed.

(* ---------- 1. antisymmetry, for all values ---------- *)

Lemma val_cmp_antisym t a b : val_cmp t b a = CompOpp (val_cmp t a b).
Proof.
  destruct t as [w|w|w k|tk fk|pw|]; destruct a as [|x|sx|m1 d1 n1];
    destruct b as [|y|sy|m2 d2 n2]; cbn [val_cmp CompOpp]; try reflexivity.
  - apply N.compare_antisym.
  - apply Z.compare_antisym.
  - apply Z.compare_antisym.
  - apply N.compare_antisym.
  - apply lex_cmp_antisym.
  - rewrite (Z.compare_antisym (sint 4 m1) (sint 4 m2)),
            (Z.compare_antisym (sint 4 d1) (sint 4 d2)),
            (Z.compare_antisym (sint 8 n1) (sint 8 n2)).
    destruct (sint 4 m1 ?= sint 4 m2)%Z; cbn [CompOpp]; try reflexivity.
    destruct (sint 4 d1 ?= sint 4 d2)%Z; cbn [CompOpp]; reflexivity.
Qed.

Lemma col_cmp_antisym c a b : col_cmp c b a = CompOpp (col_cmp c a b).
Proof.
  destruct a as [|x|sx|m1 d1 n1]; destruct b as [|y|sy|m2 d2 n2]; cbn [col_cmp];
    try (destruct (k_nulls_first c); reflexivity); try reflexivity;
    rewrite val_cmp_antisym; destruct (k_desc c); try reflexivity;
    rewrite CompOpp_involutive; reflexivity.
Qed.

Theorem row_cmp_antisym : forall cs a b, row_cmp cs b a = CompOpp (row_cmp cs a b).
Proof.
  induction cs as [|c cs IH]; intros a b; [reflexivity|].
  destruct a as [|x a]; destruct b as [|y b]; try reflexivity.
  cbn [row_cmp]. rewrite (col_cmp_antisym c x y).
  destruct (col_cmp c x y); cbn [CompOpp]; [apply IH|reflexivity|reflexivity].
Qed.

Lemma row_cmp_refl cs a : row_cmp cs a a = Eq.
Proof. generalize (row_cmp_antisym cs a a). destruct (row_cmp cs a a); cbn; congruence. Qed.

(* ---------- 2. totality ---------- *)

Theorem rle_total : forall cs a b, rle cs a b = true \/ rle cs b a = true.
Proof.
  intros cs a b. unfold rle. rewrite (row_cmp_antisym cs a b).
  destruct (row_cmp cs a b); cbn [CompOpp]; auto.
Qed.

Lemma rle_refl cs a : rle cs a a = true.
Proof. unfold rle. rewrite row_cmp_refl. reflexivity. Qed.

(* ---------- 3. transitivity on well-formed rows ---------- *)

Definition row_wf (cs : list kcol) (r : list kval) : Prop :=
  Forall2 (fun c v => val_wf (k_ty c) v) cs r.

Lemma val_cmp_ctrip t a b c :
  val_wf t a -> val_wf t b -> val_wf t c -> a <> KNull -> b <> KNull -> c <> KNull ->
  ctrip (val_cmp t a b) (val_cmp t b c) (val_cmp t a c) = true.
Proof.
  intros Ha Hb Hc Na Nb Nc.
  destruct t as [w|w|w k|tk fk|pw|];
    destruct a as [|x|sx|m1 d1 n1]; try congruence;
    destruct b as [|y|sy|m2 d2 n2]; try congruence;
    destruct c as [|z|sz|m3 d3 n3]; try congruence;
    cbn [val_wf] in Ha, Hb, Hc; try contradiction; cbn [val_cmp].
  - apply N_compare_ctrip.
  - apply Z_compare_ctrip.
  - apply Z_compare_ctrip.
  - apply N_compare_ctrip.
  - apply lex_cmp_ctrip.
  - change (ctrip
      (lexc (sint 4 m1 ?= sint 4 m2)%Z (lexc (sint 4 d1 ?= sint 4 d2)%Z (sint 8 n1 ?= sint 8 n2)%Z))
      (lexc (sint 4 m2 ?= sint 4 m3)%Z (lexc (sint 4 d2 ?= sint 4 d3)%Z (sint 8 n2 ?= sint 8 n3)%Z))
      (lexc (sint 4 m1 ?= sint 4 m3)%Z (lexc (sint 4 d1 ?= sint 4 d3)%Z (sint 8 n1 ?= sint 8 n3)%Z))
      = true).
    apply ctrip_lexc; [apply Z_compare_ctrip|].
    apply ctrip_lexc; apply Z_compare_ctrip.
Qed.

Lemma col_cmp_ctrip c a b d :
  val_wf (k_ty c) a -> val_wf (k_ty c) b -> val_wf (k_ty c) d ->
  ctrip (col_cmp c a b) (col_cmp c b d) (col_cmp c a d) = true.
Proof.
  intros Ha Hb Hd.
  destruct (kval_null_dec a) as [Ea|Na]; destruct (kval_null_dec b) as [Eb|Nb];
    destruct (kval_null_dec d) as [Ed|Nd].
  8:{ rewrite !col_cmp_nonnull by assumption.
      pose proof (val_cmp_ctrip (k_ty c) a b d Ha Hb Hd Na Nb Nd) as H.
      destruct (k_desc c); [apply ctrip_opp|]; exact H. }
  all: clear Ha Hb Hd; subst;
    destruct a as [|x|sx|m1 d1 n1]; try congruence;
    destruct b as [|y|sy|m2 d2 n2]; try congruence;
    destruct d as [|z|sz|m3 d3 n3]; try congruence;
    cbn [col_cmp]; destruct (k_nulls_first c); destruct (k_desc c);
    repeat match goal with
           | |- context [val_cmp ?t ?u ?v] => destruct (val_cmp t u v)
           end; reflexivity.
Qed.

Lemma row_cmp_ctrip cs : forall a b c, row_wf cs a -> row_wf cs b -> row_wf cs c ->
  ctrip (row_cmp cs a b) (row_cmp cs b c) (row_cmp cs a c) = true.
Proof.
  unfold row_wf. induction cs as [|k cs IH]; intros a b c Ha Hb Hc.
  - reflexivity.
  - inversion Ha as [|k1 x cs1 a' Hx Ha']; inversion Hb as [|k2 y cs2 b' Hy Hb'];
      inversion Hc as [|k3 z cs3 c' Hz Hc']; subst.
    change (ctrip (lexc (col_cmp k x y) (row_cmp cs a' b')) (lexc (col_cmp k y z) (row_cmp cs b' c'))
                  (lexc (col_cmp k x z) (row_cmp cs a' c')) = true).
    apply ctrip_lexc; [apply col_cmp_ctrip; assumption|apply IH; assumption].
Qed.

Theorem rle_trans cs a b c : row_wf cs a -> row_wf cs b -> row_wf cs c ->
  rle cs a b = true -> rle cs b c = true -> rle cs a c = true.
Proof.
  intros Ha Hb Hc. unfold rle. generalize (row_cmp_ctrip cs a b c Ha Hb Hc).
  destruct (row_cmp cs a b), (row_cmp cs b c), (row_cmp cs a c); cbn; congruence.
Qed.

Theorem row_cmp_lt_trans cs a b c : row_wf cs a -> row_wf cs b -> row_wf cs c ->
  row_cmp cs a b = Lt -> row_cmp cs b c = Lt -> row_cmp cs a c = Lt.
Proof.
  intros Ha Hb Hc. generalize (row_cmp_ctrip cs a b c Ha Hb Hc).
  destruct (row_cmp cs a b), (row_cmp cs b c), (row_cmp cs a c); cbn; congruence.
Qed.

(* rows with equal keys are interchangeable in every comparison *)
Lemma row_cmp_eq_l cs a b c : row_wf cs a -> row_wf cs b -> row_wf cs c ->
  row_cmp cs a b = Eq -> row_cmp cs a c = row_cmp cs b c.
Proof.
  intros Ha Hb Hc. generalize (row_cmp_ctrip cs a b c Ha Hb Hc).
  destruct (row_cmp cs a b), (row_cmp cs b c), (row_cmp cs a c); cbn; congruence.
Qed.

Lemma row_cmp_eq_r cs a b c : row_wf cs a -> row_wf cs b -> row_wf cs c ->
  row_cmp cs b c = Eq -> row_cmp cs a c = row_cmp cs a b.
Proof.
  intros Ha Hb Hc. generalize (row_cmp_ctrip cs a b c Ha Hb Hc).
  destruct (row_cmp cs a b), (row_cmp cs b c), (row_cmp cs a c); cbn; congruence.
Qed.

Theorem row_cmp_trans cs a b c : row_wf cs a -> row_wf cs b -> row_wf cs c ->
  (rle cs a b = true -> rle cs b c = true -> rle cs a c = true) /\
  (row_cmp cs a b = Lt -> row_cmp cs b c = Lt -> row_cmp cs a c = Lt).
Proof.
  intros Ha Hb Hc. split; [apply rle_trans|apply row_cmp_lt_trans]; assumption.
Qed.
