(* Proofs for model/LimitOp.v (C03 part). *)
From Coq Require Import NArith ZArith List Bool Arith Lia Permutation.
From Coq Require Import ZifyBool ZifyNat.
From GV Require Import model.LimitOp.
Import ListNotations.

(* ------------------------------------------------------------------ LIMIT *)

Lemma sub_chk_some a b : b <= a -> sub_chk a b = Some (a - b).
Proof. intros Hle. unfold sub_chk. destruct (Nat.leb b a) eqn:E; [reflexivity|]. apply Nat.leb_gt in E. lia. Qed.

(* one step: never underflows, and emits exactly the part of the batch that belongs to the window *)
Lemma limit_step_spec {A} ro rc (b rest : list A) :
  exists st1 sk p,
    limit_step (ro, rc) (length b) = Some (st1, sk, p) /\
    firstn rc (skipn ro (b ++ rest)) = slice_of sk b ++ firstn (snd st1) (skipn (fst st1) rest) /\
    (p = LExhausted -> snd st1 = 0) /\
    (p = LNeedsMore -> slice_of sk b = []) /\
    fst st1 <= ro /\ snd st1 <= rc /\
    length (slice_of sk b) = rc - snd st1.
Proof.
  unfold limit_step.
  destruct (Nat.ltb 0 ro) eqn:Hro.
  - apply Nat.ltb_lt in Hro.
    destruct (Nat.leb (length b) ro) eqn:Hn.
    + apply Nat.leb_le in Hn. rewrite sub_chk_some by exact Hn.
      eexists _, _, _. split; [reflexivity|]. unfold slice_of; cbn [fst snd firstn app].
      repeat split; try (cbn [length]; lia); try discriminate.
      rewrite skipn_app. rewrite (skipn_all2 b) by exact Hn. reflexivity.
    + apply Nat.leb_gt in Hn. rewrite sub_chk_some by lia.
      rewrite sub_chk_some by lia.
      eexists _, _, _. split; [reflexivity|]. unfold slice_of; cbn [fst snd].
      assert (Hlen : length (skipn ro b) = length b - ro) by apply skipn_length.
      repeat split; try (cbn [length]; lia); try discriminate.
      * rewrite skipn_app. replace (ro - length b) with 0 by lia. cbn [skipn].
        rewrite firstn_app. rewrite Hlen.
        destruct (Nat.le_ge_cases (length b - ro) rc) as [Hle|Hge].
        -- rewrite Nat.min_l by exact Hle.
           rewrite (firstn_all2 (skipn ro b)) by lia.
           rewrite (firstn_all2 (skipn ro b)) by lia. reflexivity.
        -- rewrite Nat.min_r by exact Hge.
           replace (rc - (length b - ro)) with 0 by lia. replace (rc - rc) with 0 by lia.
           cbn [firstn]. reflexivity.
      * intros Hp. destruct (Nat.eqb (rc - Nat.min (length b - ro) rc) 0) eqn:E; [|discriminate].
        apply Nat.eqb_eq in E. exact E.
      * destruct (Nat.eqb (rc - Nat.min (length b - ro) rc) 0); discriminate.
      * rewrite firstn_length, Hlen. lia.
  - apply Nat.ltb_ge in Hro. assert (ro = 0) by lia. subst ro.
    destruct (Nat.ltb rc (length b)) eqn:Hn.
    + apply Nat.ltb_lt in Hn.
      eexists _, _, _. split; [reflexivity|]. unfold slice_of; cbn [fst snd skipn firstn].
      repeat split; try (cbn [length]; lia); try discriminate.
      * rewrite app_nil_r. rewrite firstn_app. replace (rc - length b) with 0 by lia.
        cbn [firstn]. rewrite app_nil_r. reflexivity.
      * rewrite firstn_length. lia.
    + apply Nat.ltb_ge in Hn. rewrite sub_chk_some by exact Hn.
      eexists _, _, _. split; [reflexivity|]. unfold slice_of; cbn [fst snd skipn].
      repeat split; try (cbn [length]; lia); try discriminate.
      * rewrite firstn_app. rewrite (firstn_all2 b) by exact Hn. rewrite firstn_all. reflexivity.
      * rewrite firstn_all. lia.
Qed.

Lemma limit_run_spec {A} (bs : list (list A)) : forall ro rc,
  exists st outs ps,
    limit_run (ro, rc) bs = Some (st, outs, ps) /\
    concat outs = firstn rc (skipn ro (concat bs)) /\
    length ps = length bs /\ length outs = length bs.
Proof.
  induction bs as [|b bs IH]; intros ro rc.
  - exists (ro, rc), [], []. cbn. rewrite skipn_nil, firstn_nil. auto.
  - cbn [limit_run concat].
    destruct (limit_step_spec ro rc b (concat bs)) as (st1 & sk & p & Hs & Heq & _).
    rewrite Hs. destruct st1 as [ro1 rc1].
    destruct (IH ro1 rc1) as (st2 & outs & ps & Hr & Hc & Hl1 & Hl2).
    rewrite Hr. eexists _, _, _. split; [reflexivity|].
    cbn [concat length]. rewrite Hc, Heq. cbn [fst snd]. auto.
Qed.

(* THE theorem: any sequence of batches (= the interleaving of all partitions' streams in lock
   order), any limit and offset *)
Theorem limit_slice_exact : forall (A : Type) (lim : nat) (off : option nat) (bs : list (list A)),
  exists st outs ps,
    limit_run (limit_init lim off) bs = Some (st, outs, ps) /\
    concat outs = firstn lim (skipn (match off with Some o => o | None => 0 end) (concat bs)).
Proof.
  intros A lim off bs. unfold limit_init.
  destruct (limit_run_spec bs (match off with Some o => o | None => 0 end) lim)
    as (st & outs & ps & Hr & Hc & _).
  eauto 6.
Qed.

(* ... in particular for every interleaving schedule of the partitions' batch streams *)
Theorem limit_any_interleaving : forall (A : Type) (lim : nat) (off : option nat)
    (parts : list (list (list A))) (sched : list nat),
  exists st outs ps,
    limit_run (limit_init lim off) (interleave sched parts) = Some (st, outs, ps) /\
    concat outs = firstn lim (skipn (match off with Some o => o | None => 0 end)
                                    (concat (interleave sched parts))).
Proof. intros A lim off parts sched. apply limit_slice_exact. Qed.

(* the interleaving really is a merge of the partition streams: it loses/duplicates nothing when the
   schedule is long enough, and keeps each partition's order (stated as: bag of batches) *)
Lemma interleave_sub {A} (sched : list nat) : forall (parts : list (list A)),
  exists rest, Permutation (concat parts) (interleave sched parts ++ concat rest) /\
               length rest = length parts.
Proof.
  induction sched as [|i sched IH]; intros parts.
  - exists parts. cbn. auto.
  - cbn [interleave]. destruct (nth_error parts i) as [[|b rest]|] eqn:Hn.
    + apply IH.
    + destruct (IH (firstn i parts ++ rest :: skipn (S i) parts)) as (r & Hp & Hl).
      exists r. split.
      * cbn [app]. etransitivity; [|apply perm_skip; exact Hp].
        rewrite <- (firstn_skipn i parts) at 1.
        assert (Hsk : skipn i parts = (b :: rest) :: skipn (S i) parts).
        { clear -Hn. revert i Hn. induction parts as [|p parts IHp]; intros [|i] Hn; cbn in *; try discriminate.
          - inversion Hn. reflexivity. - apply IHp. exact Hn. }
        rewrite Hsk. rewrite !concat_app. cbn [concat app].
        symmetry. apply Permutation_middle.
      * rewrite Hl. rewrite !app_length. cbn [length]. rewrite firstn_length, skipn_length.
        assert (i < length parts) by (apply nth_error_Some; rewrite Hn; discriminate). lia.
    + apply IH.
Qed.

(* counters never underflow: every step succeeds (no `None`), from every reachable state *)
Theorem limit_no_underflow : forall (A : Type) (st : lstate) (bs : list (list A)),
  limit_run st bs <> None.
Proof.
  intros A [ro rc] bs. destruct (limit_run_spec bs ro rc) as (st & outs & ps & Hr & _).
  rewrite Hr. discriminate.
Qed.

(* once a call has returned Exhausted the remaining count is 0 and no later call (of any partition)
   emits a row *)
Lemma limit_run_count0 {A} (bs : list (list A)) : forall ro st outs ps,
  limit_run (ro, 0) bs = Some (st, outs, ps) -> concat outs = [] /\ snd st = 0.
Proof.
  intros ro st outs ps Hr.
  destruct (limit_run_spec bs ro 0) as (st' & outs' & ps' & Hr' & Hc & _).
  rewrite Hr in Hr'. inversion Hr'; subst. split; [exact Hc|].
  clear Hc Hr'. revert ro st' outs' ps' Hr. induction bs as [|b bs IH]; intros ro st outs ps Hr.
  - cbn in Hr. inversion Hr. reflexivity.
  - cbn [limit_run] in Hr.
    destruct (limit_step_spec ro 0 b (@nil A)) as (st1 & sk & p & Hs & _ & _ & _ & _ & Hle & _).
    rewrite Hs in Hr. destruct st1 as [ro1 rc1]. cbn in Hle. assert (rc1 = 0) by lia. subst rc1.
    destruct (limit_run (ro1, 0) bs) as [[[st2 o2] p2]|] eqn:E; [|discriminate].
    inversion Hr; subst. eapply IH. exact E.
Qed.

Theorem limit_exhausted_final : forall (A : Type) (st st1 : lstate) (b : list A) sk (later : list (list A)) st2 outs ps,
  limit_step st (length b) = Some (st1, sk, LExhausted) ->
  limit_run st1 later = Some (st2, outs, ps) ->
  concat outs = [] /\ snd st2 = 0.
Proof.
  intros A [ro rc] st1 b sk later st2 outs ps Hs Hr.
  destruct (limit_step_spec ro rc b (@nil A)) as (st1' & sk' & p' & Hs' & _ & Hex & _).
  rewrite Hs in Hs'. inversion Hs'; subst. specialize (Hex eq_refl).
  destruct st1' as [ro1 rc1]. cbn in Hex. subst rc1.
  eapply limit_run_count0. exact Hr.
Qed.

(* hypotheses of limit_exhausted_final are satisfiable *)
Example limit_exhausted_final_sat :
  limit_step (1, 2) (length [10; 11; 12; 13]) = Some ((0, 0), (1, 2), LExhausted) /\
  limit_run (0, 0) [[14; 15]; [16]] = Some ((0, 0), [[]; []], [LExhausted; LExhausted]).
Proof. vm_compute. auto. Qed.

(* Deviation from the comment "returns Exhausted as soon as remaining_count hits 0": the third branch
   returns Ready when the batch has exactly remaining_count rows; harmless (the next call emits 0 rows
   and returns Exhausted). *)
Example limit_ready_with_zero_left :
  limit_step (0, 3) 3 = Some ((0, 0), (0, 3), LReady).
Proof. reflexivity. Qed.

Example limit_run_ex1 :
  limit_run (limit_init 4 (Some 3)) [[1; 2]; [3; 4; 5]; []; [6; 7; 8; 9]; [10]]
  = Some ((0, 0), [[]; [4; 5]; []; [6; 7]; []], [LNeedsMore; LReady; LReady; LExhausted; LExhausted]).
Proof. vm_compute. reflexivity. Qed.

Example limit_interleave_ex :
  let parts := [[[1; 2]; [3]]; [[10; 20; 30]]; []] in
  interleave [1; 2; 0; 0; 1] parts = [[10; 20; 30]; [1; 2]; [3]] /\
  limit_run (limit_init 3 (Some 2)) (interleave [1; 2; 0; 0; 1] parts)
  = Some ((0, 0), [[30]; [1; 2]; []], [LReady; LReady; LExhausted]).
Proof. vm_compute. auto. Qed.

(* ------------------------------------------------------------------ generate_series *)

Open Scope Z_scope.

Definition within (up : bool) (curr stop : Z) : bool := if up then Z.leb curr stop else Z.geb curr stop.
Definition series_vals (start step : Z) (k n : nat) : list Z :=
  map (fun i => start + Z.of_nat i * step) (seq k n).

Section Series.
  Variables (up : bool) (start stop step : Z) (n : nat).
  Hypothesis Hin : forall i, (i < n)%nat -> within up (start + Z.of_nat i * step) stop = true.
  Hypothesis Hout : within up (start + Z.of_nat n * step) stop = false.
  Hypothesis Hok : forall i, (i <= n)%nat -> i64_ok (start + Z.of_nat i * step) = true.

  Lemma gen_loop_spec : forall fuel k acc, (k <= n)%nat ->
    gen_loop up (start + Z.of_nat k * step) stop step fuel acc
    = GOk (rev acc ++ series_vals start step k (Nat.min fuel (n - k)))
          (start + Z.of_nat (k + Nat.min fuel (n - k)) * step).
  Proof.
    induction fuel as [|f IH]; intros k acc Hk.
    - cbn [gen_loop Nat.min]. unfold series_vals. cbn [seq map]. rewrite app_nil_r, Nat.add_0_r. reflexivity.
    - cbn [gen_loop]. fold (within up (start + Z.of_nat k * step) stop).
      destruct (Nat.eq_dec k n) as [->|Hne].
      + rewrite Hout. rewrite Nat.sub_diag, Nat.min_0_r, Nat.add_0_r.
        unfold series_vals. cbn [seq map]. rewrite app_nil_r. reflexivity.
      + rewrite Hin by lia.
        replace (start + Z.of_nat k * step + step) with (start + Z.of_nat (S k) * step) by lia.
        rewrite Hok by lia. rewrite IH by lia.
        replace (n - k)%nat with (S (n - S k)) by lia. cbn [Nat.min].
        unfold series_vals. cbn [seq map rev]. rewrite <- app_assoc. cbn [app].
        f_equal. f_equal. lia.
  Qed.
End Series.

(* direction-agnostic statement about one parameter row *)
Lemma series_row_spec (up : bool) (start stop step : Z) (cap : nat) :
  (0 < cap)%nat ->
  (if up then 0 < step else step < 0) ->
  forall fuel n k,
  (forall i, (i < n)%nat -> within up (start + Z.of_nat i * step) stop = true) ->
  within up (start + Z.of_nat n * step) stop = false ->
  (forall i, (i <= n)%nat -> i64_ok (start + Z.of_nat i * step) = true) ->
  (k <= n)%nat -> (n - k < fuel)%nat ->
  exists bs, series_row (start + Z.of_nat k * step) stop step cap fuel = Some bs /\
             concat bs = series_vals start step k (n - k) /\
             Forall (fun b => b <> [] /\ (length b <= cap)%nat) bs.
Proof.
  intros Hcap Hstep. induction fuel as [|f IH]; intros n k Hin Hout Hok Hk Hf; [lia|].
  cbn [series_row]. unfold generate_next.
  assert (Hgl : forall c, gen_loop up (start + Z.of_nat k * step) stop step c []
      = GOk (series_vals start step k (Nat.min c (n - k)))
            (start + Z.of_nat (k + Nat.min c (n - k)) * step)).
  { intros c. rewrite (gen_loop_spec up start stop step n Hin Hout Hok c k [] Hk). reflexivity. }
  assert (Hgn : (if (Z.leb (start + Z.of_nat k * step) stop && Z.ltb 0 step)%bool
      then gen_loop true (start + Z.of_nat k * step) stop step cap []
      else if (Z.geb (start + Z.of_nat k * step) stop && Z.ltb step 0)%bool
           then gen_loop false (start + Z.of_nat k * step) stop step cap []
           else GOk [] (start + Z.of_nat k * step))
      = GOk (series_vals start step k (Nat.min cap (n - k)))
            (start + Z.of_nat (k + Nat.min cap (n - k)) * step)).
  { destruct (Nat.eq_dec k n) as [->|Hne].
    - rewrite Nat.sub_diag, Nat.min_0_r, Nat.add_0_r. unfold series_vals; cbn [seq map].
      destruct up; unfold within in Hout.
      + rewrite Hout. cbn [andb].
        assert (Z.ltb step 0 = false) as -> by lia. rewrite andb_false_r. reflexivity.
      + assert (Z.ltb 0 step = false) as -> by lia. rewrite andb_false_r. rewrite Hout. reflexivity.
    - specialize (Hin k ltac:(lia)). destruct up; unfold within in Hin.
      + rewrite Hin. assert (Z.ltb 0 step = true) as -> by lia. cbn [andb]. apply Hgl.
      + assert (Z.ltb 0 step = false) as -> by lia. rewrite andb_false_r.
        rewrite Hin. assert (Z.ltb step 0 = true) as -> by lia. cbn [andb]. apply Hgl. }
  rewrite Hgn. clear Hgn Hgl.
  destruct (Nat.eq_dec k n) as [->|Hne].
  - rewrite Nat.sub_diag, Nat.min_0_r. unfold series_vals; cbn [seq map].
    exists []. cbn. auto.
  - set (m := Nat.min cap (n - k)). assert (Hm : (0 < m)%nat) by (unfold m; lia).
    assert (Hm2 : (m <= n - k)%nat) by (unfold m; lia).
    assert (Hm3 : (m <= cap)%nat) by (unfold m; lia).
    destruct (IH n (k + m)%nat Hin Hout Hok ltac:(lia) ltac:(lia)) as (bs & Hr & Hc & Hall).
    rewrite Hr.
    assert (Hne2 : series_vals start step k m <> []).
    { unfold series_vals. destruct m; [lia|]. cbn. discriminate. }
    destruct (series_vals start step k m) as [|v vs] eqn:Ev; [congruence|].
    eexists. split; [reflexivity|]. split.
    + cbn [concat]. rewrite Hc, <- Ev. unfold series_vals. rewrite <- map_app, <- seq_app.
      f_equal. f_equal. lia.
    + constructor; [|exact Hall]. split; [discriminate|].
      rewrite <- Ev. unfold series_vals. rewrite map_length, seq_length. exact Hm3.
Qed.

(* ascending series, arithmetic hypotheses *)
Theorem series_row_exact_up : forall (start stop step : Z) (cap fuel n : nat),
  (0 < cap)%nat -> 0 < step ->
  (n = 0%nat -> stop < start) -> (0 < n)%nat \/ n = 0%nat ->
  ((0 < n)%nat -> start + (Z.of_nat n - 1) * step <= stop) ->
  stop < start + Z.of_nat n * step ->
  - 2 ^ 63 <= start -> start + Z.of_nat n * step < 2 ^ 63 ->
  (n < fuel)%nat ->
  exists bs, series_row start stop step cap fuel = Some bs /\
             concat bs = series_vals start step 0 n /\
             Forall (fun b => b <> [] /\ (length b <= cap)%nat) bs.
Proof.
  intros start stop step cap fuel n Hcap Hstep Hn0 _ Hlast Hnext Hlo Hhi Hf.
  destruct (series_row_spec true start stop step cap Hcap Hstep fuel n 0%nat) as (bs & Hr & Hc & Hall).
  - intros i Hi. unfold within. specialize (Hlast ltac:(lia)). nia.
  - unfold within. lia.
  - intros i Hi. unfold i64_ok. nia.
  - lia.
  - lia.
  - replace (start + Z.of_nat 0 * step) with start in Hr by lia. rewrite Nat.sub_0_r in Hc. eauto.
Qed.

Theorem series_row_exact_down : forall (start stop step : Z) (cap fuel n : nat),
  (0 < cap)%nat -> step < 0 ->
  (n = 0%nat -> start < stop) ->
  ((0 < n)%nat -> stop <= start + (Z.of_nat n - 1) * step) ->
  start + Z.of_nat n * step < stop ->
  start < 2 ^ 63 -> - 2 ^ 63 <= start + Z.of_nat n * step ->
  (n < fuel)%nat ->
  exists bs, series_row start stop step cap fuel = Some bs /\
             concat bs = series_vals start step 0 n /\
             Forall (fun b => b <> [] /\ (length b <= cap)%nat) bs.
Proof.
  intros start stop step cap fuel n Hcap Hstep Hn0 Hlast Hnext Hhi Hlo Hf.
  destruct (series_row_spec false start stop step cap Hcap Hstep fuel n 0%nat) as (bs & Hr & Hc & Hall).
  - intros i Hi. unfold within. specialize (Hlast ltac:(lia)). nia.
  - unfold within. lia.
  - intros i Hi. unfold i64_ok. nia.
  - lia.
  - lia.
  - replace (start + Z.of_nat 0 * step) with start in Hr by lia. rewrite Nat.sub_0_r in Hc. eauto.
Qed.

Close Scope Z_scope.

(* dealing: whatever way the parameter rows are dealt to partitions (any partition count, empty
   partitions included), the bag of produced values is the bag of the per-row series; nothing is
   produced twice, nothing is lost *)
Lemma series_partition_concat rows cap fuel : forall bs,
  series_partition rows cap fuel = Some bs ->
  exists per_row, mapM_opt (fun r => match r with (a, b, c) => series_row a b c cap fuel end) rows = Some per_row /\
                  bs = concat per_row.
Proof.
  induction rows as [|[[a b] c] rows IH]; intros bs H; cbn [series_partition mapM_opt] in *.
  - inversion H. exists []. auto.
  - destruct (Z.eqb c 0); [discriminate|].
    destruct (series_row a b c cap fuel) as [x|]; [|discriminate].
    destruct (series_partition rows cap fuel) as [y|]; [|discriminate].
    inversion H; subst. destruct (IH y eq_refl) as (pr & Hm & ->).
    rewrite Hm. exists (x :: pr). auto.
Qed.

Lemma mapM_opt_app {A B} (f : A -> option B) l1 l2 :
  mapM_opt f (l1 ++ l2) = match mapM_opt f l1, mapM_opt f l2 with
                          | Some a, Some b => Some (a ++ b) | _, _ => None end.
Proof.
  induction l1 as [|x l1 IH]; cbn [mapM_opt app].
  - destruct (mapM_opt f l2); reflexivity.
  - rewrite IH. destruct (f x); [|reflexivity].
    destruct (mapM_opt f l1); [|reflexivity]. destruct (mapM_opt f l2); reflexivity.
Qed.

Theorem series_partition_exact : forall (deal : list (list (Z * Z * Z))) (cap fuel : nat) outs,
  series_exec deal cap fuel = Some outs ->
  exists per_row,
    mapM_opt (fun r => match r with (a, b, c) => series_row a b c cap fuel end) (concat deal) = Some per_row /\
    concat (concat outs) = concat (concat per_row) /\
    length outs = length deal.
Proof.
  unfold series_exec. induction deal as [|rows deal IH]; intros cap fuel outs H; cbn [mapM_opt concat] in *.
  - inversion H. exists []. auto.
  - destruct (series_partition rows cap fuel) as [x|] eqn:Ex; [|discriminate].
    destruct (mapM_opt (fun rows0 => series_partition rows0 cap fuel) deal) as [y|] eqn:Ey; [|discriminate].
    inversion H; subst. destruct (IH cap fuel y Ey) as (pr & Hm & Hc & Hl).
    destruct (series_partition_concat rows cap fuel x Ex) as (pr1 & Hm1 & ->).
    rewrite mapM_opt_app, Hm1, Hm. exists (pr1 ++ pr). split; [reflexivity|]. split.
    + cbn [concat]. rewrite !concat_app. rewrite Hc. reflexivity.
    + cbn [length]. rewrite Hl. reflexivity.
Qed.

(* FROM generate_series(a, b, c): SingleRow gives the parameter row to partition 0 only; for every
   partition count >= 1 the output over all partitions is the series of that one row *)
Theorem series_single_row_exact : forall (a b c : Z) (cap fuel partitions : nat) bs,
  (0 < partitions)%nat -> c <> 0%Z ->
  series_row a b c cap fuel = Some bs ->
  exists outs, series_exec (single_row_deal (a, b, c) partitions) cap fuel = Some outs /\
               length outs = partitions /\
               concat (concat outs) = concat bs /\
               (forall i, (0 < i)%nat -> nth i outs [] = []).
Proof.
  intros a b c cap fuel [|p] bs Hp Hc Hr; [lia|].
  unfold series_exec, single_row_deal. cbn [mapM_opt series_partition].
  destruct (Z.eqb c 0) eqn:E; [apply Z.eqb_eq in E; contradiction|].
  rewrite Hr.
  assert (Hrep : mapM_opt (fun rows => series_partition rows cap fuel) (repeat [] p) = Some (repeat [] p)).
  { clear. induction p as [|p IH]; cbn [repeat mapM_opt series_partition]; [reflexivity|]. rewrite IH. reflexivity. }
  rewrite Hrep. eexists. split; [reflexivity|]. split; [|split].
  - cbn [length]. rewrite repeat_length. reflexivity.
  - cbn [concat]. rewrite !app_nil_r.
    assert (Hz : concat (repeat (@nil (list Z)) p) = []) by (clear; induction p; cbn; auto).
    rewrite Hz, app_nil_r. reflexivity.
  - intros [|i] Hi; [lia|]. cbn [nth]. clear. revert i. induction p as [|p IH]; intros [|i]; cbn; auto.
Qed.

Example series_up_sat :
  series_row 1 10 3 2 10 = Some [[1; 4]; [7; 10]]%Z /\ series_vals 1 3 0 4 = [1; 4; 7; 10]%Z /\
  series_spec 1 10 3 = [1; 4; 7; 10]%Z.
Proof. vm_compute. auto. Qed.

Example series_down_ex :
  series_row 5 (-2) (-3) 2 10 = Some [[5; 2]; [-1]]%Z /\ series_spec 5 (-2) (-3) = [5; 2; -1]%Z.
Proof. vm_compute. auto. Qed.

Example series_more_partitions_than_rows :
  series_exec (single_row_deal (1, 3, 1)%Z 4) 2 10 = Some [[[1; 2]; [3]]; []; []; []]%Z.
Proof. vm_compute. reflexivity. Qed.

(* DEVIATION (concrete input): a series that ends at i64::MAX.  The value MAX is produced, then
   `self.curr += self.step` overflows the i64: a panic in debug builds; in release builds the counter
   wraps to i64::MIN, `curr <= stop` holds again and the series never ends. *)
Example series_overflow_at_i64_max :
  generate_next 9223372036854775806 9223372036854775807 1 4
  = GOverflow [9223372036854775806; 9223372036854775807]%Z /\
  series_spec 9223372036854775806 9223372036854775807 1 = [9223372036854775806; 9223372036854775807]%Z.
Proof. vm_compute. auto. Qed.

(* ------------------------------------------------------------------ UNION ALL *)

(* invariant of one partition's state machine: emitted ++ right-to-pass ++ buffered ++ left-to-push
   is constantly  r ++ l  (as a sequence of batches, not only as a bag) *)
Definition union_pending {A} (s : ustate A) : list (list A) :=
  u_right s ++ match u_buf s with Some b => [b] | None => [] end ++ u_left s.

Definition union_inv {A} (l r : list (list A)) (s : ustate A) : Prop :=
  rev (u_out s) ++ union_pending s = r ++ l /\
  (u_draining s = true -> u_right s = []) /\
  (u_push_finished s = true -> u_left s = []) /\
  (u_done s = true -> u_draining s = true /\ u_buf s = None /\ u_push_finished s = true).

Lemma union_init_inv {A} (l r : list (list A)) : union_inv l r (union_init l r).
Proof. unfold union_inv, union_init, union_pending. cbn. repeat split; discriminate. Qed.

Lemma union_step_inv {A} (l r : list (list A)) e s : union_inv l r s -> union_inv l r (union_step e s).
Proof.
  destruct s as [sl sr buf pf dr dn out]. unfold union_inv, union_pending.
  cbn [u_left u_right u_buf u_push_finished u_draining u_done u_out].
  intros (Heq & Hdr & Hpf & Hdn).
  destruct e; unfold union_step;
    cbn [u_left u_right u_buf u_push_finished u_draining u_done u_out];
    destruct pf, dn, dr, sl as [|b1 sl], sr as [|b2 sr], buf as [b3|];
    cbn [negb u_left u_right u_buf u_push_finished u_draining u_done u_out rev app] in *;
    try (specialize (Hdr eq_refl)); try (specialize (Hpf eq_refl)); try (specialize (Hdn eq_refl));
    try (match goal with H : _ :: _ = [] |- _ => discriminate H end);
    try (match goal with H : _ /\ _ /\ _ |- _ => destruct H as (Hd1 & Hd2 & Hd3); discriminate end);
    repeat (try assumption; match goal with
            | |- _ /\ _ => split
            | |- _ -> _ => intros ?
            end);
    try discriminate; try assumption; try reflexivity;
    try (rewrite <- app_assoc; exact Heq).
Qed.

Lemma union_run_inv {A} (l r : list (list A)) sched : forall s, union_inv l r s -> union_inv l r (union_run sched s).
Proof.
  unfold union_run. induction sched as [|e sched IH]; intros s Hs; cbn [fold_left]; [exact Hs|].
  apply IH. apply union_step_inv. exact Hs.
Qed.

(* UNION ALL, one partition: under ANY schedule of the two sides, once the execute side has reported
   Exhausted the output is exactly  right batches ++ left batches  (nothing lost, nothing twice);
   before that it is a prefix of it *)
Theorem union_concat : forall (A : Type) (l r : list (list A)) (sched : list uevent),
  let s := union_run sched (union_init l r) in
  (exists rest, concat r ++ concat l = union_output s ++ rest) /\ (u_done s = true -> union_output s = concat r ++ concat l).
Proof.
  intros A l r sched s.
  destruct (union_run_inv l r sched _ (union_init_inv l r)) as (Heq & Hdr & Hpf & Hdn). fold s in Heq, Hdr, Hpf, Hdn.
  unfold union_output. split.
  - exists (concat (union_pending s)). rewrite <- !concat_app, <- Heq. reflexivity.
  - intros Hd. destruct (Hdn Hd) as (Hd1 & Hb & Hp).
    rewrite <- !concat_app, <- Heq. unfold union_pending.
    rewrite (Hdr Hd1), Hb, (Hpf Hp). cbn [app]. rewrite app_nil_r. reflexivity.
Qed.

(* the hypothesis `u_done = true` is reachable: a concrete schedule *)
Example union_concat_sat :
  let s := union_run [UPush; UExec; UPush; UExec; UExec; UExec; UPush; UExec; UPush; UExec]
                     (union_init [[1; 2]; [3]] [[10]; [20; 30]]) in
  u_done s = true /\ union_output s = [10; 20; 30; 1; 2; 3].
Proof. vm_compute. auto. Qed.

(* all partitions together: the bag of all output rows is the bag of all input rows *)
Theorem union_all_partitions_bag : forall (A : Type) (ls rs : list (list (list A))) (scheds : list (list uevent)),
  length ls = length rs -> length scheds = length rs ->
  Forall (fun x => u_done x = true)
         (map (fun p => union_run (snd p) (union_init (fst (fst p)) (snd (fst p)))) (combine (combine ls rs) scheds)) ->
  Permutation
    (concat (map (fun p => union_output (union_run (snd p) (union_init (fst (fst p)) (snd (fst p)))))
                 (combine (combine ls rs) scheds)))
    (concat (map (@concat A) rs) ++ concat (map (@concat A) ls)).
Proof.
  intros A ls. induction ls as [|l ls IH]; intros rs scheds Hl Hs Hall.
  - destruct rs; [|discriminate]. cbn. constructor.
  - destruct rs as [|r rs]; [discriminate|]. destruct scheds as [|sc scheds]; [discriminate|].
    cbn [combine map concat fst snd] in *. inversion Hall as [|? ? Hd Hrest]; subst.
    rewrite (proj2 (union_concat A l r sc) Hd).
    specialize (IH rs scheds ltac:(cbn in Hl; lia) ltac:(cbn in Hs; lia) Hrest).
    rewrite <- !app_assoc. apply Permutation_app_head.
    etransitivity; [apply Permutation_app_head; exact IH|].
    rewrite !app_assoc. apply Permutation_app_tail. apply Permutation_app_comm.
Qed.
