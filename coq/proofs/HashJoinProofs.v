(* C06 — the hash join model (model/HashJoin.v) emits the same bag of rows as `Sql.join_rows`. *)
From Coq Require Import NArith ZArith List Bool Lia PeanoNat.
From Coq Require Import Sorting.Permutation.
From GV Require Import model.Sql model.HashJoin model.NlJoin proofs.JoinSpecProofs.
Import ListNotations.

(* ------------------------------------------------------------------ list lemmas *)

Lemma perm_flat_map_app : forall {A B} (f g : A -> list B) (l : list A),
  Permutation (flat_map (fun x => f x ++ g x) l) (flat_map f l ++ flat_map g l).
Proof.
  intros A B f g l. induction l as [|x l IH]; cbn; [constructor|].
  rewrite <- !app_assoc. apply Permutation_app_head.
  eapply Permutation_trans; [apply Permutation_app_head; exact IH|].
  apply Permutation_app_swap_app.
Qed.

Lemma flat_map_map_in : forall {A B C} (f : B -> list C) (g : A -> B) (l : list A),
  flat_map f (map g l) = flat_map (fun x => f (g x)) l.
Proof. intros A B C f g l. induction l as [|x l IH]; cbn; [reflexivity|]. rewrite IH. reflexivity. Qed.

Lemma map_flat_map_out : forall {A B C} (g : B -> C) (h : A -> list B) (l : list A),
  map g (flat_map h l) = flat_map (fun x => map g (h x)) l.
Proof.
  intros A B C g h l. induction l as [|x l IH]; cbn; [reflexivity|].
  rewrite map_app, IH. reflexivity.
Qed.

Lemma flat_map_concat : forall {A B} (f : A -> list B) (ls : list (list A)),
  flat_map f (concat ls) = flat_map (flat_map f) ls.
Proof.
  intros A B f ls. induction ls as [|l ls IH]; cbn; [reflexivity|].
  rewrite flat_map_app, IH. reflexivity.
Qed.

Lemma filter_map_comm : forall {A B} (f : B -> bool) (g : A -> B) (l : list A),
  filter f (map g l) = map g (filter (fun x => f (g x)) l).
Proof.
  intros A B f g l. induction l as [|x l IH]; cbn; [reflexivity|].
  destruct (f (g x)); cbn; rewrite IH; reflexivity.
Qed.

Lemma filter_filter_implies : forall {A} (m q : A -> bool) (l : list A),
  (forall x, In x l -> m x = true -> q x = true) -> filter m (filter q l) = filter m l.
Proof.
  intros A m q l. induction l as [|x l IH]; intros H; cbn; [reflexivity|].
  assert (IH' : filter m (filter q l) = filter m l).
  { apply IH. intros y Hy. apply H. right. exact Hy. }
  destruct (q x) eqn:Q; cbn.
  - rewrite IH'. reflexivity.
  - destruct (m x) eqn:M.
    + rewrite (H x (or_introl eq_refl) M) in Q. discriminate.
    + exact IH'.
Qed.

Lemma flat_map_if_filter : forall {A B} (f : A -> bool) (g : A -> B) (l : list A),
  flat_map (fun x => if f x then [g x] else []) l = map g (filter f l).
Proof.
  intros A B f g l. induction l as [|x l IH]; cbn; [reflexivity|].
  destruct (f x); cbn; rewrite IH; reflexivity.
Qed.

Lemma flat_map_singleton : forall {A B} (g : A -> B) (l : list A),
  flat_map (fun x => [g x]) l = map g l.
Proof. intros A B g l. induction l as [|x l IH]; cbn; [reflexivity|]. rewrite IH. reflexivity. Qed.

Lemma perm_concat : forall {A} (l l' : list (list A)), Permutation l l' -> Permutation (concat l) (concat l').
Proof.
  intros A l l' H.
  induction H as [|x l l' H IH|x y l|l l' l'' H1 IH1 H2 IH2]; cbn.
  - constructor.
  - apply Permutation_app_head. exact IH.
  - rewrite !app_assoc. apply Permutation_app_tail. apply Permutation_app_comm.
  - eapply Permutation_trans; eassumption.
Qed.

Lemma existsb_eq_iff : forall {A} (f : A -> bool) (l : list A) {B} (g : B -> bool) (l' : list B),
  ((exists x, In x l /\ f x = true) <-> (exists y, In y l' /\ g y = true)) -> existsb f l = existsb g l'.
Proof.
  intros A f l B g l' H. apply eq_true_iff_eq. rewrite !existsb_exists. exact H.
Qed.

Lemma or_pad_decomp : forall {A} (f : A -> row) (q : A -> bool) (l : list A) (pad : row),
  or_pad (map f (filter q l)) pad = map f (filter q l) ++ (if existsb q l then [] else [pad]).
Proof.
  intros A f q l pad. destruct (existsb q l) eqn:E.
  - rewrite app_nil_r. destruct (filter q l) as [|x m] eqn:F; [|reflexivity].
    apply filter_nil_existsb in F. congruence.
  - apply filter_nil_existsb in E. rewrite E. reflexivity.
Qed.

(* ------------------------------------------------------------------ strided drain *)

Lemma flat_map_pick_seq : forall {A} (x : A) (k n a : nat),
  flat_map (fun p => if Nat.eqb k p then [x] else []) (seq a n)
  = if (Nat.leb a k && Nat.ltb k (a + n))%bool then [x] else [].
Proof.
  intros A x k n. induction n as [|n IH]; intros a; cbn [seq flat_map].
  - destruct (Nat.leb_spec a k), (Nat.ltb_spec k (a + 0)); cbn [andb]; try reflexivity; lia.
  - rewrite IH.
    destruct (Nat.eqb_spec k a), (Nat.leb_spec (S a) k), (Nat.leb_spec a k),
             (Nat.ltb_spec k (S a + n)), (Nat.ltb_spec k (a + S n));
      cbn [andb app]; try reflexivity; lia.
Qed.

Lemma filter_classes_cover : forall {A} (cls : A -> nat) (P : nat) (l : list A),
  (forall x, In x l -> cls x < P)%nat ->
  Permutation (flat_map (fun p => filter (fun x => Nat.eqb (cls x) p) l) (seq 0 P)) l.
Proof.
  intros A cls P l. induction l as [|x l IH]; intros H.
  - cbn. clear. induction (seq 0 P) as [|a s IHs]; cbn; [constructor|exact IHs].
  - assert (E : forall p, filter (fun y => Nat.eqb (cls y) p) (x :: l)
                 = (if Nat.eqb (cls x) p then [x] else []) ++ filter (fun y => Nat.eqb (cls y) p) l).
    { intros p. cbn. destruct (Nat.eqb (cls x) p); reflexivity. }
    erewrite flat_map_ext; [|intros p; apply E].
    eapply Permutation_trans; [apply perm_flat_map_app|].
    rewrite flat_map_pick_seq.
    assert (Hx : (cls x < P)%nat) by (apply H; left; reflexivity).
    replace (Nat.leb 0 (cls x)) with true by (symmetry; apply Nat.leb_le; lia).
    replace (Nat.ltb (cls x) (0 + P)) with true by (symmetry; apply Nat.ltb_lt; lia).
    cbn. constructor. apply IH. intros y Hy. apply H. right. exact Hy.
Qed.

(* (4) the strided block assignment covers every block exactly once, for any P >= 1 *)
Theorem strided_cover : forall {A} (P : nat) (l : list A), (1 <= P)%nat ->
  Permutation (flat_map (fun p => strided P p l) (seq 0 P)) l.
Proof.
  intros A P l HP. unfold strided.
  assert (E : map snd (combine (seq 0 (length l)) l) = l).
  { generalize 0%nat. induction l as [|x l IH]; intros s; cbn; [reflexivity|]. rewrite IH. reflexivity. }
  apply Permutation_trans with (map snd (combine (seq 0 (length l)) l)); [|rewrite E; apply Permutation_refl].
  rewrite <- (map_flat_map_out snd
     (fun p => filter (fun ix => Nat.eqb (Nat.modulo (fst ix) P) p) (combine (seq 0 (length l)) l))).
  apply Permutation_map.
  apply (filter_classes_cover (fun ix : nat * A => Nat.modulo (fst ix) P)).
  intros x _. apply Nat.mod_upper_bound. lia.
Qed.

(* ------------------------------------------------------------------ numbering of stored rows *)

Lemma combine_app_eq : forall {A B} (a1 a2 : list A) (b1 b2 : list B),
  length a1 = length b1 -> combine (a1 ++ a2) (b1 ++ b2) = combine a1 b1 ++ combine a2 b2.
Proof.
  intros A B a1. induction a1 as [|x a1 IH]; intros a2 b1 b2 H; destruct b1 as [|y b1]; cbn in *;
    try discriminate; [reflexivity|]. rewrite IH by lia. reflexivity.
Qed.

Lemma number_blocks_concat : forall blocks s,
  concat (number_blocks s blocks) = combine (seq s (length (concat blocks))) (concat blocks).
Proof.
  induction blocks as [|b bs IH]; intros s; cbn; [reflexivity|].
  rewrite IH, app_length, seq_app, combine_app_eq by (rewrite seq_length; reflexivity). reflexivity.
Qed.

Lemma combine_seq_snd : forall {A} (l : list A) s, map snd (combine (seq s (length l)) l) = l.
Proof. intros A l. induction l as [|x l IH]; intros s; cbn; [reflexivity|]. rewrite IH. reflexivity. Qed.

Lemma combine_seq_fst : forall {A} (l : list A) s, map fst (combine (seq s (length l)) l) = seq s (length l).
Proof. intros A l. induction l as [|x l IH]; intros s; cbn; [reflexivity|]. rewrite IH. reflexivity. Qed.

Lemma stored_rows_snd : forall Lparts, map snd (stored_rows Lparts) = concat (concat Lparts).
Proof. intros Lparts. unfold stored_rows. rewrite number_blocks_concat. apply combine_seq_snd. Qed.

Lemma stored_rows_nodup : forall Lparts, NoDup (map fst (stored_rows Lparts)).
Proof.
  intros Lparts. unfold stored_rows. rewrite number_blocks_concat, combine_seq_fst. apply seq_NoDup.
Qed.

Lemma nodup_fst_inj : forall {A B} (l : list (A * B)) x y,
  NoDup (map fst l) -> In x l -> In y l -> fst x = fst y -> x = y.
Proof.
  intros A B l. induction l as [|z l IH]; intros x y Hnd Hx Hy E; [destruct Hx|].
  cbn in Hnd. inversion Hnd as [|z' l' Hnot Hnd']; subst.
  destruct Hx as [Hx|Hx], Hy as [Hy|Hy].
  - congruence.
  - subst z. exfalso. apply Hnot. rewrite E. apply in_map. exact Hy.
  - subst z. exfalso. apply Hnot. rewrite <- E. apply in_map. exact Hx.
  - apply IH; assumption.
Qed.

(* ------------------------------------------------------------------ loop interchange, decomposition *)

Lemma existsb_map : forall {A B} (f : B -> bool) (g : A -> B) (l : list A),
  existsb f (map g l) = existsb (fun x => f (g x)) l.
Proof. intros A B f g l. induction l as [|x l IH]; cbn; [reflexivity|]. rewrite IH. reflexivity. Qed.

(* the pairs of one right row, in left order *)
Definition RMp (p : row -> row -> bool) (L : list row) (r : row) : list row :=
  map (fun l => l ++ r) (lmatches p L r).

(* right-major enumeration of the matching pairs = left-major enumeration, as bags *)
Lemma inner_swap_perm_g : forall p (L0 R : list row) la ra,
  Permutation (flat_map (RMp p L0) R) (pure_join JInner L0 R la ra p).
Proof.
  intros p L0 R la ra. cbn [pure_join]. induction L0 as [|l L0 IH]; cbn [flat_map].
  - unfold RMp, lmatches. cbn. induction R as [|r R IHR]; cbn; [constructor|exact IHR].
  - assert (E : forall r, RMp p (l :: L0) r = (if p l r then [l ++ r] else []) ++ RMp p L0 r).
    { intros r. unfold RMp, lmatches. cbn. destruct (p l r); reflexivity. }
    erewrite flat_map_ext; [|intros r; apply E].
    eapply Permutation_trans; [apply perm_flat_map_app|].
    rewrite (flat_map_if_filter (p l) (fun r => l ++ r)). unfold rmatches.
    apply Permutation_app_head. exact IH.
Qed.

Lemma left_decompose_g : forall p (L0 R0 : list row) la ra,
  Permutation (pure_join JLeft L0 R0 la ra p)
              (pure_join JInner L0 R0 la ra p
               ++ flat_map (fun l => if existsb (p l) R0 then [] else [l ++ nulls ra]) L0).
Proof.
  intros p L0 R0 la ra. cbn [pure_join]. unfold rmatches.
  erewrite flat_map_ext; [|intros l; apply or_pad_decomp].
  apply perm_flat_map_app.
Qed.

Lemma right_rows_perm : forall p (L0 : list row) la (batch : list row),
  Permutation (flat_map (RMp p L0) batch
               ++ flat_map (fun r => if existsb (fun l => p l r) L0 then [] else [nulls la ++ r]) batch)
              (flat_map (fun r => or_pad (map (fun l => l ++ r) (lmatches p L0 r)) (nulls la ++ r)) batch).
Proof.
  intros p L0 la batch.
  eapply Permutation_trans; [apply Permutation_sym; apply perm_flat_map_app|].
  erewrite flat_map_ext; [apply Permutation_refl|].
  intros r. unfold RMp, lmatches. symmetry.
  apply (or_pad_decomp (fun l => l ++ r) (fun l => p l r)).
Qed.

Lemma flat_map_concat_flat_map : forall {A B C} (g : B -> list C) (S : A -> list (list B)) (ps : list A),
  flat_map (fun p => flat_map g (concat (S p))) ps = flat_map g (concat (flat_map S ps)).
Proof.
  intros A B C g S ps. induction ps as [|p ps IH]; cbn; [reflexivity|].
  rewrite concat_app, flat_map_app, IH. reflexivity.
Qed.

(* ------------------------------------------------------------------ the model *)

Section HashJoinCorrect.
  Variable hash : list value -> N.
  (* the ONE hypothesis about the hash function (interface of arrays/compute/hash.rs) *)
  Hypothesis hash_respects_eq : forall k1 k2, keys_match k1 k2 = true -> hash k1 = hash k2.

  Variable ops : list cmpop.
  Variables bkeys pkeys : row -> list value.
  Variable kbits : N.

  Notation matcher := (matcher ops bkeys pkeys).
  Notation bhash := (bhash hash ops bkeys).
  Notation phash := (phash hash ops pkeys).
  Notation slot := (slot kbits).
  Notation build_dir := (build_dir hash ops bkeys kbits).
  Notation dir_insert := (dir_insert hash ops bkeys kbits).

  (* ---- directory ---- *)
  Lemma build_dir_fold : forall ins d0 s,
    fold_left dir_insert ins d0 s
    = rev (filter (fun x => N.eqb s (slot (bhash (snd x)))) ins) ++ d0 s.
  Proof.
    induction ins as [|x ins IH]; intros d0 s; cbn [fold_left filter]; [reflexivity|].
    rewrite IH. unfold HashJoin.dir_insert.
    destruct (N.eqb s (slot (bhash (snd x)))); cbn [rev]; [|reflexivity].
    rewrite <- app_assoc. reflexivity.
  Qed.

  Lemma build_dir_spec : forall ins s,
    build_dir ins s = rev (filter (fun x => N.eqb s (slot (bhash (snd x)))) ins).
  Proof. intros ins s. unfold HashJoin.build_dir. rewrite build_dir_fold, app_nil_r. reflexivity. Qed.

  (* chains hold stored rows only (no phantom rows) *)
  Lemma chain_sound : forall ins s x, In x (build_dir ins s) -> In x ins.
  Proof.
    intros ins s x H. rewrite build_dir_spec in H. apply in_rev in H.
    apply filter_In in H. tauto.
  Qed.

  Lemma conds_match_eq_cols : forall o k1 k2,
    conds_match o k1 k2 = true -> keys_match (eq_cols o k1) (eq_cols o k2) = true.
  Proof.
    induction o as [|op o IH]; intros k1 k2 H.
    - destruct k1, k2; cbn in *; try discriminate; reflexivity.
    - destruct k1 as [|a k1], k2 as [|b k2]; cbn in H; try discriminate.
      apply andb_true_iff in H. destruct H as [Hc Hr].
      cbn [eq_cols]. destruct op; cbn [app]; try (apply IH; exact Hr).
      cbn [keys_match]. rewrite Hc. cbn. apply IH. exact Hr.
  Qed.

  Lemma matcher_same_slot : forall b r, matcher b r = true -> slot (bhash b) = slot (phash r).
  Proof.
    intros b r H. unfold HashJoin.slot, HashJoin.bhash, HashJoin.phash. f_equal.
    apply hash_respects_eq. apply conds_match_eq_cols. exact H.
  Qed.

  (* KEY LEMMA: every stored row that satisfies the conditions with the probe row is in the probed
     chain, whatever the capacity and the insertion order *)
  Theorem bucket_complete : forall ins x r,
    In x ins -> matcher (snd x) r = true -> In x (build_dir ins (slot (phash r))).
  Proof.
    intros ins x r Hin Hm. rewrite build_dir_spec. apply -> in_rev.
    apply filter_In. split; [exact Hin|].
    rewrite (matcher_same_slot _ _ Hm). apply N.eqb_refl.
  Qed.

  Definition chain_matches (ins : list bptr) (r : row) : list bptr :=
    filter (fun b => matcher (snd b) r) (build_dir ins (slot (phash r))).

  Lemma chain_matches_perm : forall ins r,
    Permutation (chain_matches ins r) (filter (fun b => matcher (snd b) r) ins).
  Proof.
    intros ins r. unfold chain_matches. rewrite build_dir_spec.
    eapply Permutation_trans.
    - apply perm_filter. apply Permutation_sym. apply Permutation_rev.
    - rewrite filter_filter_implies; [apply Permutation_refl|].
      intros x _ Hm. rewrite (matcher_same_slot _ _ Hm). apply N.eqb_refl.
  Qed.

  Lemma chain_exists : forall ins r,
    existsb (fun b => matcher (snd b) r) (build_dir ins (slot (phash r)))
    = existsb (fun b => matcher (snd b) r) ins.
  Proof.
    intros ins r. apply existsb_eq_iff. split; intros [x [Hx Hm]]; exists x; split; try exact Hm.
    - eapply chain_sound. exact Hx.
    - apply bucket_complete; assumption.
  Qed.

  (* ---- lock-step chain walking ---- *)
  Notation entry := HashJoin.entry.
  Notation emit1 := (emit1 ops bkeys pkeys).
  Notation adv1 := (adv1 ops bkeys pkeys).
  Notation walk := (walk ops bkeys pkeys).

  Definition per_entry (e : entry) : list (bptr * row) :=
    map (fun b => (b, e_row e)) (filter (fun b => matcher (snd b) (e_row e)) (e_chain e)).
  Definition fin (e : entry) : entry :=
    (e_row e, [], e_flag e || existsb (fun b => matcher (snd b) (e_row e)) (e_chain e)).

  Lemma per_entry_step : forall e, per_entry e = emit1 e ++ per_entry (adv1 e).
  Proof.
    intros [[r c] f]. unfold per_entry, HashJoin.emit1, HashJoin.adv1, e_chain, e_row, e_flag. cbn.
    destruct c as [|b rest]; cbn; [reflexivity|].
    destruct (conds_match ops (bkeys (snd b)) (pkeys r)) eqn:M; unfold HashJoin.matcher; rewrite M; reflexivity.
  Qed.

  Lemma fin_step : forall e, fin (adv1 e) = fin e.
  Proof.
    intros [[r c] f]. unfold fin, HashJoin.adv1, e_chain, e_row, e_flag. cbn.
    destruct c as [|b rest]; cbn; [reflexivity|]. rewrite orb_assoc. reflexivity.
  Qed.

  Lemma all_done_spec : forall st, forallb chain_done st = true ->
    flat_map per_entry st = [] /\ map fin st = st.
  Proof.
    induction st as [|e st IH]; intros H; cbn in *; [split; reflexivity|].
    apply andb_true_iff in H. destruct H as [He Hst]. destruct (IH Hst) as [I1 I2].
    destruct e as [[r c] f]. unfold chain_done, e_chain in He. cbn in He.
    destruct c; [|discriminate]. rewrite I1, I2. unfold per_entry, fin, e_chain, e_row, e_flag. cbn.
    rewrite orb_false_r. split; reflexivity.
  Qed.

  Lemma len0_done : forall st, Forall (fun e : entry => (length (e_chain e) <= 0)%nat) st ->
    forallb chain_done st = true.
  Proof.
    induction st as [|e st IH]; intros H; [reflexivity|]. inversion H as [|e' st' He Hst]; subst.
    cbn. rewrite (IH Hst). destruct e as [[r c] f]. unfold chain_done, e_chain in *. cbn in *.
    destruct c; [reflexivity|cbn in He; lia].
  Qed.

  Lemma adv_len : forall st f, Forall (fun e : entry => (length (e_chain e) <= S f)%nat) st ->
    Forall (fun e : entry => (length (e_chain e) <= f)%nat) (map adv1 st).
  Proof.
    intros st f H. apply Forall_map. eapply Forall_impl; [|exact H].
    intros [[r c] fl] He. unfold HashJoin.adv1, e_chain in *. cbn in *.
    destruct c; cbn in *; lia.
  Qed.

  Lemma concat_opt_cons : forall {A} (b : list A) (x : list (list A)),
    concat (match b with [] => x | _ :: _ => b :: x end) = b ++ concat x.
  Proof. intros A b x. destruct b; reflexivity. Qed.

  Lemma walk_spec : forall fuel st,
    Forall (fun e : entry => (length (e_chain e) <= fuel)%nat) st ->
    Permutation (concat (fst (walk fuel st))) (flat_map per_entry st) /\
    snd (walk fuel st) = map fin st.
  Proof.
    induction fuel as [|f IH]; intros st H.
    - apply len0_done in H. destruct (all_done_spec st H) as [E1 E2]. cbn. rewrite E1, E2.
      split; [constructor|reflexivity].
    - cbn [HashJoin.walk]. destruct (forallb chain_done st) eqn:D.
      + destruct (all_done_spec st D) as [E1 E2]. cbn. rewrite E1, E2. split; [constructor|reflexivity].
      + destruct (IH (map adv1 st) (adv_len st f H)) as [I1 I2]. cbn [fst snd].
        rewrite concat_opt_cons. split.
        * erewrite (flat_map_ext per_entry); [|intros e; apply per_entry_step].
          eapply Permutation_trans; [|apply Permutation_sym; apply perm_flat_map_app].
          apply Permutation_app_head. rewrite flat_map_map_in in I1. exact I1.
        * rewrite I2, map_map. apply map_ext. intros e. apply fin_step.
  Qed.

  Lemma max_chain_bound : forall (st : list entry),
    Forall (fun e : entry => (length (e_chain e) <= S (max_chain st))%nat) st.
  Proof.
    induction st as [|e st IH]; [constructor|]. cbn [max_chain fold_right]. constructor.
    - lia.
    - eapply Forall_impl; [|exact IH]. intros e' He'. unfold max_chain in He'. cbn beta in He'. lia.
  Qed.

  Notation scan_batch := (scan_batch hash ops bkeys pkeys kbits).

  Lemma scan_batch_pairs : forall ins batch,
    Permutation (concat (fst (scan_batch (build_dir ins) batch)))
                (flat_map (fun r => map (fun b => (b, r)) (chain_matches ins r)) batch).
  Proof.
    intros ins batch. unfold HashJoin.scan_batch.
    destruct (walk_spec _ _ (max_chain_bound (probe_init hash ops pkeys kbits (build_dir ins) batch))) as [W _].
    eapply Permutation_trans; [exact W|]. unfold probe_init. rewrite flat_map_map_in.
    apply Permutation_refl.
  Qed.

  Lemma scan_batch_flags : forall ins batch,
    snd (scan_batch (build_dir ins) batch)
    = map (fun r => (r, [], existsb (fun b => matcher (snd b) r) ins)) batch.
  Proof.
    intros ins batch. unfold HashJoin.scan_batch.
    destruct (walk_spec _ _ (max_chain_bound (probe_init hash ops pkeys kbits (build_dir ins) batch))) as [_ W].
    rewrite W. unfold probe_init. rewrite map_map. apply map_ext. intros r.
    unfold fin, e_row, e_chain, e_flag. cbn. rewrite chain_exists. reflexivity.
  Qed.

  (* ---- assembling the operator ---- *)
  Definition pm (l r : row) : bool := matcher l r.
  Notation RM := (RMp pm).

  Section Inputs.
    Variable Lparts : list (list (list row)).
    Variable ins : list bptr.
    Hypothesis ins_perm : Permutation ins (stored_rows Lparts).
    Let L := concat (concat Lparts).
    Let d := build_dir ins.

    Lemma lift_chain : forall r,
      Permutation (map (fun b : bptr => snd b ++ r) (chain_matches ins r)) (RM L r).
    Proof.
      intros r. unfold RMp, lmatches, L. rewrite <- stored_rows_snd.
      rewrite (filter_map_comm (fun l => pm l r) snd), map_map.
      apply Permutation_map.
      eapply Permutation_trans; [apply chain_matches_perm|].
      apply perm_filter. exact ins_perm.
    Qed.

    Lemma batch_inner : forall batch,
      Permutation (map pair_row (concat (fst (scan_batch d batch)))) (flat_map (RM L) batch).
    Proof.
      intros batch.
      eapply Permutation_trans; [apply Permutation_map; apply scan_batch_pairs|].
      rewrite map_flat_map_out. apply perm_flat_map_ext. intros r _.
      rewrite map_map. unfold pair_row. cbn [fst snd]. apply lift_chain.
    Qed.

    Lemma exists_ins_L : forall r,
      existsb (fun b : bptr => matcher (snd b) r) ins = existsb (fun l => pm l r) L.
    Proof.
      intros r. rewrite (existsb_perm _ _ _ ins_perm). unfold L. rewrite <- stored_rows_snd.
      rewrite existsb_map. reflexivity.
    Qed.

    Lemma flush_flags : forall la (flag : row -> bool) (batch : list row),
      map (fun e : entry => nulls la ++ e_row e)
          (filter (fun e : entry => negb (e_flag e)) (map (fun r => (r, @nil bptr, flag r)) batch))
      = flat_map (fun r => if flag r then [] else [nulls la ++ r]) batch.
    Proof.
      intros la flag batch. induction batch as [|r batch IH]; [reflexivity|].
      cbn [map filter flat_map]. unfold e_flag at 1. cbn [snd].
      destruct (flag r); cbn [negb map app]; rewrite IH; reflexivity.
    Qed.

    Lemma batch_right_flush : forall la batch,
      map (fun e : entry => nulls la ++ e_row e) (filter (fun e => negb (e_flag e)) (snd (scan_batch d batch)))
      = flat_map (fun r => if existsb (fun l => pm l r) L then [] else [nulls la ++ r]) batch.
    Proof.
      intros la batch. unfold d. rewrite scan_batch_flags.
      rewrite (flush_flags la (fun r => existsb (fun b : bptr => matcher (snd b) r) ins)).
      apply flat_map_ext. intros r. rewrite exists_ins_L. reflexivity.
    Qed.

    Variable Rparts : list (list (list row)).
    Let R := concat (concat Rparts).
    Let scans := map (scan_batch d) (concat Rparts).

    Lemma probe_inner_perm : forall la ra,
      Permutation (flat_map (fun s => map pair_row (concat (fst s))) scans) (pure_join JInner L R la ra pm).
    Proof.
      intros la ra. unfold scans. rewrite flat_map_map_in.
      eapply Permutation_trans; [apply perm_flat_map_ext; intros batch _; apply batch_inner|].
      rewrite <- flat_map_concat. apply inner_swap_perm_g.
    Qed.

    (* all (build, probe) pairs found by all probes *)
    Lemma emitted_perm :
      Permutation (flat_map (fun s => concat (fst s)) scans)
                  (flat_map (fun r => map (fun b => (b, r)) (chain_matches ins r)) R).
    Proof.
      unfold scans, R. rewrite flat_map_map_in, (flat_map_concat _ (concat Rparts)).
      apply perm_flat_map_ext. intros batch _. apply scan_batch_pairs.
    Qed.

    Lemma in_emitted : forall b r,
      In (b, r) (flat_map (fun r => map (fun b => (b, r)) (chain_matches ins r)) R)
      <-> In r R /\ In b ins /\ matcher (snd b) r = true.
    Proof.
      intros b r. rewrite in_flat_map. split.
      - intros [r' [Hr' Hin]]. apply in_map_iff in Hin. destruct Hin as [b' [E Hb']].
        inversion E; subst b' r'. unfold chain_matches in Hb'. apply filter_In in Hb'.
        destruct Hb' as [Hc Hm]. repeat split; [exact Hr'| |exact Hm].
        eapply chain_sound. exact Hc.
      - intros [Hr [Hb Hm]]. exists r. split; [exact Hr|]. apply in_map_iff. exists b.
        split; [reflexivity|]. unfold chain_matches. apply filter_In. split; [|exact Hm].
        apply bucket_complete; assumption.
    Qed.

    (* the `matched` flag of a stored row after all probing: it has a partner among the probe rows *)
    Lemma is_marked_spec : forall k b, needs_match_column k = true -> In b (stored_rows Lparts) ->
      is_marked (flat_map (probe_marks k) scans) b = existsb (pm (snd b)) R.
    Proof.
      intros k b Hk Hb. apply eq_true_iff_eq. unfold is_marked. rewrite !existsb_exists.
      assert (EM : flat_map (probe_marks k) scans
                   = map (fun x : bptr * row => fst (fst x)) (flat_map (fun s => concat (fst s)) scans)).
      { rewrite map_flat_map_out. apply flat_map_ext. intros s. unfold probe_marks. rewrite Hk. reflexivity. }
      rewrite EM. split.
      - intros [i [Hi Heq]]. apply Nat.eqb_eq in Heq. apply in_map_iff in Hi.
        destruct Hi as [[b' r] [Hf Hx]]. cbn in Hf.
        apply (Permutation_in _ emitted_perm) in Hx. apply in_emitted in Hx.
        destruct Hx as [Hr [Hb' Hm]].
        assert (b' = b).
        { apply (nodup_fst_inj (stored_rows Lparts)); [apply stored_rows_nodup| |exact Hb|congruence].
          eapply Permutation_in; [exact ins_perm|exact Hb']. }
        subst b'. exists r. split; [exact Hr|exact Hm].
      - intros [r [Hr Hm]]. exists (fst b). split; [|apply Nat.eqb_refl].
        apply in_map_iff. exists (b, r). split; [reflexivity|].
        apply (Permutation_in _ (Permutation_sym emitted_perm)). apply in_emitted.
        repeat split; [exact Hr| |exact Hm].
        eapply Permutation_in; [apply Permutation_sym; exact ins_perm|exact Hb].
    Qed.

    Lemma drain_all_perm : forall k ra marked (blocks : list (list bptr)) P,
      needs_drain k = true -> (1 <= P)%nat ->
      Permutation (drain_all k ra marked blocks P) (flat_map (drain_row k ra marked) (concat blocks)).
    Proof.
      intros k ra marked blocks P Hk HP. unfold drain_all, drain_partition. rewrite Hk.
      rewrite (flat_map_concat_flat_map (drain_row k ra marked) (fun p => strided P p blocks)).
      apply perm_flat_map. apply perm_concat. apply strided_cover. exact HP.
    Qed.

    (* what the drain emits, in terms of the inputs *)
    Definition drain_spec (k : hkind) (ra : nat) (l : row) : list row :=
      match k with
      | HLeft => if existsb (pm l) R then [] else [l ++ nulls ra]
      | HSemi => if existsb (pm l) R then [l] else []
      | HMark => [l ++ [VBool (existsb (pm l) R)]]
      | HInner | HRight => []
      end.

    Lemma drain_perm : forall k ra P, needs_drain k = true -> (1 <= P)%nat ->
      Permutation (drain_all k ra (flat_map (probe_marks k) scans) (number_blocks 0 (concat Lparts)) P)
                  (flat_map (drain_spec k ra) L).
    Proof.
      intros k ra P Hk HP.
      eapply Permutation_trans; [apply drain_all_perm; assumption|].
      fold (stored_rows Lparts). unfold L. rewrite <- stored_rows_snd, flat_map_map_in.
      apply perm_flat_map_ext. intros b Hb.
      assert (Hm : needs_match_column k = true) by (destruct k; cbn in *; congruence).
      unfold drain_row, drain_spec. rewrite (is_marked_spec k b Hm Hb).
      apply Permutation_refl.
    Qed.

    Notation hj := (hash_join hash ops bkeys pkeys kbits).

    Lemma hash_inner_pure : forall la ra P,
      Permutation (hj HInner la ra P Lparts ins Rparts) (pure_join JInner L R la ra pm).
    Proof.
      intros la ra P. unfold HashJoin.hash_join. cbn [drain_all needs_drain]. rewrite app_nil_r.
      apply (probe_inner_perm la ra).
    Qed.

    Lemma hash_left_pure : forall la ra P, (1 <= P)%nat ->
      Permutation (hj HLeft la ra P Lparts ins Rparts) (pure_join JLeft L R la ra pm).
    Proof.
      intros la ra P HP. unfold HashJoin.hash_join.
      eapply Permutation_trans; [|apply Permutation_sym; apply left_decompose_g].
      apply Permutation_app.
      - apply (probe_inner_perm la ra).
      - apply (drain_perm HLeft ra P eq_refl HP).
    Qed.

    Lemma hash_right_pure : forall la ra P,
      Permutation (hj HRight la ra P Lparts ins Rparts) (pure_join JRight L R la ra pm).
    Proof.
      intros la ra P. unfold HashJoin.hash_join. cbn [drain_all needs_drain]. rewrite app_nil_r.
      fold d. fold scans. unfold scans. rewrite flat_map_map_in. cbn [pure_join].
      unfold R. rewrite (flat_map_concat _ (concat Rparts)). apply perm_flat_map_ext. intros batch _.
      cbn [probe_output]. rewrite batch_right_flush.
      eapply Permutation_trans; [apply Permutation_app_tail; apply batch_inner|].
      apply right_rows_perm.
    Qed.

    Lemma hash_semi_pure : forall la ra P, (1 <= P)%nat ->
      Permutation (hj HSemi la ra P Lparts ins Rparts) (pure_join JSemi L R la ra pm).
    Proof.
      intros la ra P HP. unfold HashJoin.hash_join.
      replace (flat_map (probe_output HSemi la) (map (scan_batch (build_dir ins)) (concat Rparts))) with (@nil row).
      - cbn [app]. eapply Permutation_trans; [apply (drain_perm HSemi ra P eq_refl HP)|].
        cbn [pure_join]. unfold drain_spec.
        rewrite (flat_map_if_filter (fun l => existsb (pm l) R) (fun l => l)), map_id.
        apply Permutation_refl.
      - induction (map (scan_batch (build_dir ins)) (concat Rparts)) as [|s ss IH]; [reflexivity|exact IH].
    Qed.

    (* LEFT MARK: every left row once, with the flag "has a partner" *)
    Definition mark_rows (L0 R0 : list row) : list row :=
      map (fun l => l ++ [VBool (existsb (pm l) R0)]) L0.

    Lemma hash_mark_pure : forall la ra P, (1 <= P)%nat ->
      Permutation (hj HMark la ra P Lparts ins Rparts) (mark_rows L R).
    Proof.
      intros la ra P HP. unfold HashJoin.hash_join.
      replace (flat_map (probe_output HMark la) (map (scan_batch (build_dir ins)) (concat Rparts))) with (@nil row).
      - cbn [app]. eapply Permutation_trans; [apply (drain_perm HMark ra P eq_refl HP)|].
        unfold drain_spec, mark_rows. rewrite flat_map_singleton. apply Permutation_refl.
      - induction (map (scan_batch (build_dir ins)) (concat Rparts)) as [|s ss IH]; [reflexivity|exact IH].
    Qed.
  End Inputs.
End HashJoinCorrect.

(* ------------------------------------------------------------------ (2) hash join refines the spec *)

Definition spec_kind (k : hkind) : jkind :=
  match k with HInner => JInner | HLeft => JLeft | HRight => JRight | HSemi | HMark => JSemi end.

Definition hash_ok (hash : list value -> N) : Prop :=
  forall k1 k2, keys_match k1 k2 = true -> hash k1 = hash k2.

(* INNER, LEFT, RIGHT, LEFT SEMI: any hash function respecting key equality, any capacity 2^kbits,
   any insertion order, any split of both inputs into partitions and blocks/batches, any number
   P >= 1 of drain partitions. *)
Theorem hash_join_refines_spec :
  forall hash, hash_ok hash ->
  forall ops bkeys pkeys kbits k la ra P Lparts ins Rparts on,
  k <> HMark -> (1 <= P)%nat ->
  Permutation ins (stored_rows Lparts) ->
  on_total on (fun l r => conds_match ops (bkeys l) (pkeys r))
           (concat (concat Lparts)) (concat (concat Rparts)) ->
  exists out,
    join_rows (spec_kind k) (concat (concat Lparts)) (concat (concat Rparts)) la ra on = Ok out /\
    Permutation (hash_join hash ops bkeys pkeys kbits k la ra P Lparts ins Rparts) out.
Proof.
  intros hash Hh ops bkeys pkeys kbits k la ra P Lparts ins Rparts on Hk HP Hins Hon.
  eexists. split; [apply (join_rows_pure _ _ _ _ _ _ _ Hon)|].
  destruct k; cbn [spec_kind].
  - apply hash_inner_pure; assumption.
  - apply hash_left_pure; assumption.
  - apply hash_right_pure; assumption.
  - apply hash_semi_pure; assumption.
  - congruence.
Qed.

Lemma mark_filter_mark_rows : forall (q : row -> bool) (want : bool) (L : list row),
  mark_filter want (map (fun l => l ++ [VBool (q l)]) L) = filter (fun l => Bool.eqb (q l) want) L.
Proof.
  intros q want L. unfold mark_filter. rewrite flat_map_map_in.
  induction L as [|l L IH]; cbn [flat_map filter]; [reflexivity|].
  unfold last_flag_filter at 1. rewrite last_last, removelast_last.
  destruct (Bool.eqb (q l) want); cbn [app]; rewrite IH; reflexivity.
Qed.

(* LEFT MARK (what EXISTS / IN / NOT EXISTS / NOT IN / = ANY compile to): the filter on the mark
   column placed above it yields exactly SEMI, its negation exactly ANTI. *)
Theorem hash_mark_refines_spec :
  forall hash, hash_ok hash ->
  forall ops bkeys pkeys kbits la ra P Lparts ins Rparts on,
  (1 <= P)%nat ->
  Permutation ins (stored_rows Lparts) ->
  on_total on (fun l r => conds_match ops (bkeys l) (pkeys r))
           (concat (concat Lparts)) (concat (concat Rparts)) ->
  let out := hash_join hash ops bkeys pkeys kbits HMark la ra P Lparts ins Rparts in
  Permutation out (map (fun l => l ++ [VBool (existsb (fun r => conds_match ops (bkeys l) (pkeys r))
                                                      (concat (concat Rparts)))])
                       (concat (concat Lparts))) /\
  exists s a,
    join_rows JSemi (concat (concat Lparts)) (concat (concat Rparts)) la ra on = Ok s /\
    join_rows JAnti (concat (concat Lparts)) (concat (concat Rparts)) la ra on = Ok a /\
    Permutation (mark_filter true out) s /\ Permutation (mark_filter false out) a.
Proof.
  intros hash Hh ops bkeys pkeys kbits la ra P Lparts ins Rparts on HP Hins Hon out.
  assert (HM : Permutation out (mark_rows ops bkeys pkeys (concat (concat Lparts)) (concat (concat Rparts)))).
  { apply hash_mark_pure; assumption. }
  split; [exact HM|].
  exists (pure_join JSemi (concat (concat Lparts)) (concat (concat Rparts)) la ra
            (fun l r => conds_match ops (bkeys l) (pkeys r))),
         (pure_join JAnti (concat (concat Lparts)) (concat (concat Rparts)) la ra
            (fun l r => conds_match ops (bkeys l) (pkeys r))).
  rewrite !(join_rows_pure _ _ _ _ _ _ _ Hon). repeat split.
  - eapply Permutation_trans; [apply perm_flat_map; exact HM|].
    fold (mark_filter true (mark_rows ops bkeys pkeys (concat (concat Lparts)) (concat (concat Rparts)))).
    unfold mark_rows. rewrite mark_filter_mark_rows. cbn [pure_join].
    erewrite filter_ext_in'; [apply Permutation_refl|].
    intros l _. unfold pm, matcher. destruct (existsb _ _); reflexivity.
  - eapply Permutation_trans; [apply perm_flat_map; exact HM|].
    fold (mark_filter false (mark_rows ops bkeys pkeys (concat (concat Lparts)) (concat (concat Rparts)))).
    unfold mark_rows. rewrite mark_filter_mark_rows. cbn [pure_join].
    erewrite filter_ext_in'; [apply Permutation_refl|].
    intros l _. unfold pm, matcher. destruct (existsb _ _); reflexivity.
Qed.

(* the join condition of the hash join is "equality keys match AND the other comparisons hold" *)
Fixpoint extra_match (ops : list cmpop) (k1 k2 : list value) : bool :=
  match ops, k1, k2 with
  | [], [], [] => true
  | op :: ops', a :: k1', b :: k2' =>
      (match op with CEq => true | _ => cmp_true op a b end) && extra_match ops' k1' k2'
  | _, _, _ => false
  end.

Lemma conds_match_split : forall ops k1 k2,
  conds_match ops k1 k2 = keys_match (eq_cols ops k1) (eq_cols ops k2) && extra_match ops k1 k2.
Proof.
  induction ops as [|op ops IH]; intros k1 k2.
  - destruct k1, k2; reflexivity.
  - destruct k1 as [|a k1], k2 as [|b k2]; cbn [conds_match extra_match eq_cols];
      try (rewrite andb_false_r; reflexivity).
    rewrite IH. destruct op; cbn [app keys_match];
      destruct (cmp_true _ a b), (keys_match (eq_cols ops k1) (eq_cols ops k2)), (extra_match ops k1 k2);
      reflexivity.
Qed.

(* NULL in an equality key column: the row matches nothing in the hash join either *)
Lemma conds_match_null_key : forall ops k1 k2,
  In VNull (eq_cols ops k1) \/ In VNull (eq_cols ops k2) -> conds_match ops k1 k2 = false.
Proof.
  intros ops k1 k2 H. rewrite conds_match_split, (keys_match_null _ _ H). reflexivity.
Qed.

(* a hash function that satisfies the hypothesis (sum of the integer components), and the constant one *)
Definition hash_ints (ks : list value) : N :=
  fold_right (fun v acc => match v with VInt z => Z.to_N (Z.abs z) + acc | _ => acc end)%N 0%N ks.

Lemma hash_ints_ok : hash_ok hash_ints.
Proof.
  intros k1. induction k1 as [|a k1 IH]; intros k2 H; destruct k2 as [|b k2]; cbn in H; try discriminate.
  - reflexivity.
  - apply andb_true_iff in H. destruct H as [Hc Hr]. cbn [hash_ints fold_right].
    fold (hash_ints k1). fold (hash_ints k2). rewrite (IH k2 Hr).
    destruct a, b; cbn in Hc; try discriminate; try reflexivity.
    unfold cmp_true in Hc. cbn in Hc. destruct (Z.compare_spec z z0); cbn in Hc; try discriminate.
    subst. reflexivity.
Qed.

Lemma hash_const_ok : hash_ok (fun _ => 0%N).
Proof. intros k1 k2 _. reflexivity. Qed.

(* hypotheses of the two theorems are satisfiable *)
Example hash_join_refines_spec_ex :
  hash_ok hash_ints /\ HLeft <> HMark /\ (1 <= 2)%nat /\
  Permutation [(1%nat, [VInt 2]); (0%nat, [VInt 1])] (stored_rows [[[[VInt 1]]; [[VInt 2]]]]) /\
  on_total (fun x => Ok (conds_match [CEq] [nth 0 x VNull] [nth 1 x VNull]))
           (fun l r => conds_match [CEq] ((fun l => [nth 0 l VNull]) l) ((fun r => [nth 0 r VNull]) r))
           (concat (concat [[[[VInt 1]]; [[VInt 2]]]])) (concat (concat [[[[VInt 2]; [VNull]]]])).
Proof.
  split; [exact hash_ints_ok|]. split; [discriminate|]. split; [lia|]. split; [constructor|].
  intros l r Hl Hr. cbn in Hl, Hr.
  destruct Hl as [<-|[<-|[]]]; destruct Hr as [<-|[<-|[]]]; reflexivity.
Qed.

(* ------------------------------------------------------------------ executable example *)
(* many-to-many with duplicates and NULL keys on both sides, an inequality as second condition,
   2 build partitions, 3 probe batches in 2 partitions, capacity 2^1, scrambled insertion order *)
Definition ex_L : list (list (list row)) :=
  [ [ [[VInt 1; VInt 10]; [VInt 2; VInt 20]; [VNull; VInt 30]] ; [[VInt 1; VInt 11]] ];
    [ [[VInt 3; VInt 40]; [VInt 1; VInt 12]; [VInt 2; VInt 21]] ] ].
Definition ex_R : list (list (list row)) :=
  [ [ [[VInt 1; VInt 11]; [VNull; VInt 5]; [VInt 2; VInt 100]] ; [[VInt 1; VInt 0]] ];
    [ [[VInt 4; VInt 7]; [VInt 1; VInt 50]; [VInt 2; VInt 20]] ] ].
Definition ex_ops := [CEq; CLt].
Definition ex_bk (l : row) : list value := [nth 0 l VNull; nth 1 l VNull].
Definition ex_pk (r : row) : list value := [nth 0 r VNull; nth 1 r VNull].
Definition ex_ins : list bptr :=
  let s := stored_rows ex_L in
  List.filter (fun b => Nat.odd (fst b)) s ++ rev (List.filter (fun b => Nat.even (fst b)) s).
Definition ex_on (x : row) : res bool :=
  Ok (conds_match ex_ops [nth 0 x VNull; nth 1 x VNull] [nth 2 x VNull; nth 3 x VNull]).

Definition ex_check (k : hkind) (kbits : N) (P : nat) : bool :=
  match join_rows (spec_kind k) (concat (concat ex_L)) (concat (concat ex_R)) 2 2 ex_on with
  | Ok want => bag_eqb want (hash_join hash_ints ex_ops ex_bk ex_pk kbits k 2 2 P ex_L ex_ins ex_R)
  | Err _ => false
  end.

Example hash_join_runs :
  forallb (fun k => ex_check k 1 3 && ex_check k 0 1 && ex_check k 4 2) [HInner; HLeft; HRight; HSemi] = true
  /\ length (hash_join hash_ints ex_ops ex_bk ex_pk 1 HLeft 2 2 3 ex_L ex_ins ex_R) = 8%nat
  /\ match join_rows JAnti (concat (concat ex_L)) (concat (concat ex_R)) 2 2 ex_on with
     | Ok want => bag_eqb want (mark_filter false
                                  (hash_join hash_ints ex_ops ex_bk ex_pk 1 HMark 2 2 3 ex_L ex_ins ex_R))
     | Err _ => false
     end = true.
Proof. vm_compute. repeat split. Qed.


(* ------------------------------------------------------------------ (3) nested-loop join *)

Definition kind_of_n (k : nkind) : hkind :=
  match k with NInner => HInner | NLeft => HLeft | NRight => HRight | NSemi => HSemi | NMark => HMark end.

Definition mark_rows_g (p : row -> row -> bool) (L R : list row) : list row :=
  map (fun l => l ++ [VBool (existsb (p l) R)]) L.

(* the bag both operators have to produce *)
Definition pure_h (k : hkind) (L R : list row) (la ra : nat) (p : row -> row -> bool) : list row :=
  match k with
  | HMark => mark_rows_g p L R
  | _ => pure_join (spec_kind k) L R la ra p
  end.

Lemma filter_true : forall {A} (l : list A), filter (fun _ => true) l = l.
Proof. intros A l. induction l as [|x l IH]; cbn; [reflexivity|]. rewrite IH. reflexivity. Qed.

Section NlJoinCorrect.
  Variable f : row -> row -> bool.
  Notation nlj := (nl_join (Some f)).

  Lemma collected_snd : forall Lparts, map snd (collected Lparts) = concat (concat Lparts).
  Proof. intros Lparts. unfold collected. apply combine_seq_snd. Qed.

  Lemma collected_nodup : forall Lparts, NoDup (map fst (collected Lparts)).
  Proof. intros Lparts. unfold collected. rewrite combine_seq_fst. apply seq_NoDup. Qed.

  Lemma nl_flags : forall (IL : list lptr) (st : list (row * bool)),
    fold_left (nl_right_step (Some f)) IL st
    = map (fun rm => (fst rm, snd rm || existsb (fun il : lptr => f (snd il) (fst rm)) IL)) st.
  Proof.
    induction IL as [|x IL IH]; intros st; cbn [fold_left existsb].
    - rewrite <- (map_id st) at 1. apply map_ext. intros [r m]. cbn. rewrite orb_false_r. reflexivity.
    - rewrite IH. unfold nl_right_step. rewrite map_map. apply map_ext. intros [r m]. cbn.
      rewrite orb_assoc. reflexivity.
  Qed.

  Lemma nl_flush : forall la (flag : row -> bool) (rb : list row),
    map (fun rm : row * bool => nulls la ++ fst rm)
        (filter (fun rm => negb (snd rm)) (map (fun r => (r, flag r)) rb))
    = flat_map (fun r => if flag r then [] else [nulls la ++ r]) rb.
  Proof.
    intros la flag rb. induction rb as [|r rb IH]; [reflexivity|].
    cbn [map filter flat_map snd]. destruct (flag r); cbn [negb map app fst]; rewrite IH; reflexivity.
  Qed.

  Section NlInputs.
    Variable Lparts : list (list (list row)).
    Variable dr : list lptr.
    Hypothesis dr_perm : Permutation dr (collected Lparts).
    Variable Rparts : list (list (list row)).
    Let L := concat (concat Lparts).
    Let R := concat (concat Rparts).
    Let IL := collected Lparts.

    Lemma nl_pairs_batch : forall k rb, k <> NSemi -> k <> NMark ->
      Permutation (flat_map (fun il : lptr => nl_cross_out (Some f) k rb (snd il)) IL)
                  (flat_map (RMp f L) rb).
    Proof.
      intros k rb H1 H2.
      assert (E : flat_map (fun il : lptr => nl_cross_out (Some f) k rb (snd il)) IL
                  = flat_map (nl_cross_out (Some f) k rb) (map snd IL)) by (symmetry; apply flat_map_map_in).
      rewrite E. unfold IL. rewrite collected_snd.
      fold L. apply Permutation_sym.
      eapply Permutation_trans; [apply (inner_swap_perm_g f L rb 0 0)|].
      cbn [pure_join]. unfold rmatches, nl_cross_out.
      destruct k; try congruence; apply Permutation_refl.
    Qed.

    Lemma nl_nopairs_batch : forall k rb, k = NSemi \/ k = NMark ->
      flat_map (fun il : lptr => nl_cross_out (Some f) k rb (snd il)) IL = [].
    Proof.
      intros k rb H. induction IL as [|il l IH]; [reflexivity|]. cbn [flat_map]. rewrite IH.
      destruct H; subst k; reflexivity.
    Qed.

    Lemma nl_right_flush : forall la rb,
      map (fun rm : row * bool => nulls la ++ fst rm)
          (filter (fun rm => negb (snd rm))
                  (fold_left (nl_right_step (Some f)) IL (map (fun r => (r, false)) rb)))
      = flat_map (fun r => if existsb (fun l => f l r) L then [] else [nulls la ++ r]) rb.
    Proof.
      intros la rb. rewrite nl_flags, map_map. cbn [fst snd orb].
      rewrite (nl_flush la (fun r => existsb (fun il : lptr => f (snd il) r) IL)).
      apply flat_map_ext. intros r. unfold L. rewrite <- collected_snd, existsb_map. reflexivity.
    Qed.

    Let res (k : nkind) (la : nat) := map (nl_probe_batch (Some f) k la IL) (concat Rparts).

    Lemma nl_marked_spec : forall k la il, tracks_left k = true -> In il IL ->
      nl_is_marked (flat_map snd (res k la)) il = existsb (f (snd il)) R.
    Proof.
      intros k la il Hk Hil. apply eq_true_iff_eq. unfold nl_is_marked. rewrite !existsb_exists.
      unfold res. rewrite flat_map_map_in. unfold nl_probe_batch; cbn [snd]. split.
      - intros [i [Hi Heq]]. apply Nat.eqb_eq in Heq. apply in_flat_map in Hi.
        destruct Hi as [rb [Hrb Hi]]. apply in_flat_map in Hi. destruct Hi as [il' [Hil' Hi]].
        unfold nl_left_mark in Hi. rewrite Hk in Hi. cbn [andb] in Hi.
        destruct (existsb (f (snd il')) rb) eqn:E; [|destruct Hi].
        destruct Hi as [Hi|[]].
        assert (il' = il).
        { apply (nodup_fst_inj IL); [apply collected_nodup|exact Hil'|exact Hil|congruence]. }
        subst il'. apply existsb_exists in E. destruct E as [r [Hr Hf]].
        exists r. split; [|exact Hf]. unfold R. apply in_concat. exists rb. split; assumption.
      - intros [r [Hr Hf]]. unfold R in Hr. apply in_concat in Hr. destruct Hr as [rb [Hrb Hr]].
        exists (fst il). split; [|apply Nat.eqb_refl].
        apply in_flat_map. exists rb. split; [exact Hrb|].
        apply in_flat_map. exists il. split; [exact Hil|].
        unfold nl_left_mark. rewrite Hk. cbn [andb].
        replace (existsb (f (snd il)) rb) with true; [left; reflexivity|].
        symmetry. apply existsb_exists. exists r. split; assumption.
    Qed.

    Definition nl_drain_spec (k : nkind) (ra : nat) (l : row) : list row :=
      match k with
      | NLeft => if existsb (f l) R then [] else [l ++ nulls ra]
      | NSemi => if existsb (f l) R then [l] else []
      | NMark => [l ++ [VBool (existsb (f l) R)]]
      | NInner | NRight => []
      end.

    Lemma nl_drain_perm : forall k la ra, tracks_left k = true ->
      Permutation (flat_map (nl_drain_row k ra (flat_map snd (res k la))) dr)
                  (flat_map (nl_drain_spec k ra) L).
    Proof.
      intros k la ra Hk.
      eapply Permutation_trans; [apply perm_flat_map; exact dr_perm|].
      unfold L. rewrite <- collected_snd, flat_map_map_in. fold IL.
      apply perm_flat_map_ext. intros il Hil.
      unfold nl_drain_row, nl_drain_spec. rewrite (nl_marked_spec k la il Hk Hil).
      apply Permutation_refl.
    Qed.

    Lemma nl_probe_inner_perm : forall k la ra, k = NInner \/ k = NLeft ->
      Permutation (flat_map fst (res k la)) (pure_join JInner L R la ra f).
    Proof.
      intros k la ra Hk. unfold res. rewrite flat_map_map_in.
      eapply Permutation_trans.
      - apply perm_flat_map_ext. intros rb _.
        apply Permutation_trans with (flat_map (fun il : lptr => nl_cross_out (Some f) k rb (snd il)) IL).
        + destruct Hk; subst k; unfold nl_probe_batch; cbn [fst]; rewrite app_nil_r; apply Permutation_refl.
        + apply nl_pairs_batch; destruct Hk; subst k; discriminate.
      - apply Permutation_trans with (flat_map (RMp f L) R); [|apply inner_swap_perm_g].
        unfold R. rewrite (flat_map_concat (RMp f L) (concat Rparts)). apply Permutation_refl.
    Qed.

    Lemma nl_probe_none : forall k la, k = NSemi \/ k = NMark -> flat_map fst (res k la) = [].
    Proof.
      intros k la Hk. unfold res. rewrite flat_map_map_in.
      induction (concat Rparts) as [|rb rbs IH]; [reflexivity|]. cbn [flat_map].
      rewrite IH, app_nil_r.
      destruct Hk; subst k; unfold nl_probe_batch; cbn [fst]; rewrite app_nil_r;
        apply nl_nopairs_batch; auto.
    Qed.

    Theorem nl_join_pure : forall k la ra,
      Permutation (nlj k la ra Lparts dr Rparts) (pure_h (kind_of_n k) L R la ra f).
    Proof.
      intros k la ra. unfold nl_join. fold IL. fold (res k la).
      destruct k; cbn [tracks_left kind_of_n pure_h spec_kind].
      - rewrite app_nil_r. apply nl_probe_inner_perm. left. reflexivity.
      - eapply Permutation_trans; [|apply Permutation_sym; apply left_decompose_g].
        apply Permutation_app.
        + apply nl_probe_inner_perm. right. reflexivity.
        + apply (nl_drain_perm NLeft la ra eq_refl).
      - rewrite app_nil_r. unfold res. rewrite flat_map_map_in. unfold nl_probe_batch; cbn [fst pure_join].
        unfold R. rewrite (flat_map_concat _ (concat Rparts)). apply perm_flat_map_ext. intros rb _.
        rewrite nl_right_flush.
        eapply Permutation_trans; [apply Permutation_app_tail; apply nl_pairs_batch; discriminate|].
        apply right_rows_perm.
      - rewrite nl_probe_none by (left; reflexivity). cbn [app].
        eapply Permutation_trans; [apply (nl_drain_perm NSemi la ra eq_refl)|].
        cbn [pure_join]. unfold nl_drain_spec.
        rewrite (flat_map_if_filter (fun l => existsb (f l) R) (fun l => l)), map_id.
        apply Permutation_refl.
      - rewrite nl_probe_none by (right; reflexivity). cbn [app].
        eapply Permutation_trans; [apply (nl_drain_perm NMark la ra eq_refl)|].
        unfold nl_drain_spec, mark_rows_g. rewrite flat_map_singleton. apply Permutation_refl.
    Qed.
  End NlInputs.
End NlJoinCorrect.

(* CROSS JOIN: filter None, kind INNER *)
Lemma nl_cross_as_true : forall la ra Lparts dr Rparts,
  nl_join None NInner la ra Lparts dr Rparts = nl_join (Some (fun _ _ => true)) NInner la ra Lparts dr Rparts.
Proof.
  intros la ra Lparts dr Rparts. unfold nl_join. cbn [tracks_left]. f_equal.
  rewrite !flat_map_map_in. apply flat_map_ext. intros rb. unfold nl_probe_batch; cbn [fst]. f_equal.
  apply flat_map_ext. intros il. unfold nl_cross_out. rewrite filter_true. reflexivity.
Qed.

Definition nspec_kind (k : nkind) : jkind := spec_kind (kind_of_n k).

Theorem nl_join_refines_spec :
  forall f k la ra Lparts dr Rparts on,
  k <> NMark ->
  Permutation dr (collected Lparts) ->
  on_total on f (concat (concat Lparts)) (concat (concat Rparts)) ->
  exists out,
    join_rows (nspec_kind k) (concat (concat Lparts)) (concat (concat Rparts)) la ra on = Ok out /\
    Permutation (nl_join (Some f) k la ra Lparts dr Rparts) out.
Proof.
  intros f k la ra Lparts dr Rparts on Hk Hdr Hon.
  eexists. split; [apply (join_rows_pure _ _ _ _ _ _ _ Hon)|].
  eapply Permutation_trans; [apply nl_join_pure; exact Hdr|].
  destruct k; try congruence; apply Permutation_refl.
Qed.

Theorem nl_cross_refines_spec : forall la ra Lparts dr Rparts,
  exists out,
    join_rows JCross (concat (concat Lparts)) (concat (concat Rparts)) la ra (fun _ => Ok true) = Ok out /\
    Permutation (nl_join None NInner la ra Lparts dr Rparts) out.
Proof.
  intros la ra Lparts dr Rparts. rewrite nl_cross_as_true.
  eexists. split.
  - apply (join_rows_pure JCross _ _ _ _ _ (fun _ _ => true)). intros l r _ _. reflexivity.
  - unfold nl_join. cbn [tracks_left]. rewrite app_nil_r.
    (* INNER needs no drain, so `dr` is irrelevant *)
    pose proof (nl_join_pure (fun _ _ => true) Lparts (collected Lparts) (Permutation_refl _) Rparts NInner la ra) as H.
    unfold nl_join in H. cbn [tracks_left] in H. rewrite app_nil_r in H. exact H.
Qed.

Theorem nl_mark_refines_spec :
  forall f la ra Lparts dr Rparts on,
  Permutation dr (collected Lparts) ->
  on_total on f (concat (concat Lparts)) (concat (concat Rparts)) ->
  let out := nl_join (Some f) NMark la ra Lparts dr Rparts in
  Permutation out (mark_rows_g f (concat (concat Lparts)) (concat (concat Rparts))) /\
  exists s a,
    join_rows JSemi (concat (concat Lparts)) (concat (concat Rparts)) la ra on = Ok s /\
    join_rows JAnti (concat (concat Lparts)) (concat (concat Rparts)) la ra on = Ok a /\
    Permutation (mark_filter true out) s /\ Permutation (mark_filter false out) a.
Proof.
  intros f la ra Lparts dr Rparts on Hdr Hon out.
  assert (HM : Permutation out (mark_rows_g f (concat (concat Lparts)) (concat (concat Rparts)))).
  { apply (nl_join_pure f Lparts dr Hdr Rparts NMark la ra). }
  split; [exact HM|].
  exists (pure_join JSemi (concat (concat Lparts)) (concat (concat Rparts)) la ra f),
         (pure_join JAnti (concat (concat Lparts)) (concat (concat Rparts)) la ra f).
  rewrite !(join_rows_pure _ _ _ _ _ _ _ Hon). repeat split.
  - eapply Permutation_trans; [apply perm_flat_map; exact HM|].
    fold (mark_filter true (mark_rows_g f (concat (concat Lparts)) (concat (concat Rparts)))).
    unfold mark_rows_g. rewrite mark_filter_mark_rows. cbn [pure_join].
    erewrite filter_ext_in'; [apply Permutation_refl|].
    intros l _. cbn beta.
    match goal with |- Bool.eqb ?x _ = ?y => change y with x; destruct x; reflexivity end.
  - eapply Permutation_trans; [apply perm_flat_map; exact HM|].
    fold (mark_filter false (mark_rows_g f (concat (concat Lparts)) (concat (concat Rparts)))).
    unfold mark_rows_g. rewrite mark_filter_mark_rows. cbn [pure_join].
    erewrite filter_ext_in'; [apply Permutation_refl|].
    intros l _. cbn beta.
    match goal with |- Bool.eqb ?x _ = negb ?y => change y with x; destruct x; reflexivity end.
Qed.

(* the hash join in the same form *)
Theorem hash_join_pure :
  forall hash, hash_ok hash ->
  forall ops bkeys pkeys kbits k la ra P Lparts ins Rparts,
  (1 <= P)%nat -> Permutation ins (stored_rows Lparts) ->
  Permutation (hash_join hash ops bkeys pkeys kbits k la ra P Lparts ins Rparts)
              (pure_h k (concat (concat Lparts)) (concat (concat Rparts)) la ra
                      (fun l r => conds_match ops (bkeys l) (pkeys r))).
Proof.
  intros hash Hh ops bkeys pkeys kbits k la ra P Lparts ins Rparts HP Hins.
  destruct k; cbn [pure_h spec_kind].
  - apply hash_inner_pure; assumption.
  - apply hash_left_pure; assumption.
  - apply hash_right_pure; assumption.
  - apply hash_semi_pure; assumption.
  - apply hash_mark_pure; assumption.
Qed.

(* hash join and nested-loop join give the same answer (all five kinds, no condition on `on`:
   both are run with the same comparison conditions) *)
Theorem join_algo_irrelevant :
  forall hash, hash_ok hash ->
  forall ops bkeys pkeys kbits k la ra P Lparts ins dr Rparts,
  (1 <= P)%nat -> Permutation ins (stored_rows Lparts) -> Permutation dr (collected Lparts) ->
  Permutation (hash_join hash ops bkeys pkeys kbits (kind_of_n k) la ra P Lparts ins Rparts)
              (nl_join (Some (fun l r => conds_match ops (bkeys l) (pkeys r))) k la ra Lparts dr Rparts).
Proof.
  intros hash Hh ops bkeys pkeys kbits k la ra P Lparts ins dr Rparts HP Hins Hdr.
  eapply Permutation_trans; [apply hash_join_pure; assumption|].
  apply Permutation_sym. apply nl_join_pure. exact Hdr.
Qed.

Example join_algo_irrelevant_ex :
  hash_ok hash_ints /\ (1 <= 3)%nat /\ Permutation ex_ins (stored_rows ex_L)
  /\ Permutation (rev (collected ex_L)) (collected ex_L).
Proof.
  split; [exact hash_ints_ok|]. split; [lia|]. split.
  - unfold ex_ins. apply Permutation_sym.
    eapply Permutation_trans; [apply Permutation_sym; apply (filter_partition_perm (fun b : bptr => Nat.odd (fst b)))|].
    apply Permutation_app_head.
    eapply Permutation_trans; [|apply Permutation_rev].
    erewrite filter_ext_in'; [apply Permutation_refl|].
    intros b _. cbn beta. rewrite <- Nat.negb_odd. reflexivity.
  - apply Permutation_sym. apply Permutation_rev.
Qed.

Example nl_join_runs :
  let f := fun l r => conds_match ex_ops (ex_bk l) (ex_pk r) in
  forallb (fun k =>
    match join_rows (nspec_kind k) (concat (concat ex_L)) (concat (concat ex_R)) 2 2 ex_on with
    | Ok want => bag_eqb want (nl_join (Some f) k 2 2 ex_L (rev (collected ex_L)) ex_R)
                 && bag_eqb (hash_join hash_ints ex_ops ex_bk ex_pk 1 (kind_of_n k) 2 2 3 ex_L ex_ins ex_R)
                            (nl_join (Some f) k 2 2 ex_L (rev (collected ex_L)) ex_R)
    | Err _ => false
    end) [NInner; NLeft; NRight; NSemi] = true.
Proof. vm_compute. reflexivity. Qed.

(* Latent (not reachable from SQL as far as we found: `ON TRUE` is planned with filter Some(true)):
   without a filter the source sets no match flags, so an outer kind would emit the cross product AND
   every preserved row padded. *)
Example nl_no_filter_left_latent :
  nl_join None NLeft 1 1 [[[[VInt 1]]]] (collected [[[[VInt 1]]]]) [[[[VInt 7]]]]
  = [[VInt 1; VInt 7]; [VInt 1; VNull]].
Proof. reflexivity. Qed.
Example nl_no_filter_right_latent :
  nl_join None NRight 1 1 [[[[VInt 1]]]] (collected [[[[VInt 1]]]]) [[[[VInt 7]]]]
  = [[VInt 1; VInt 7]; [VNull; VInt 7]].
Proof. reflexivity. Qed.

(* ------------------------------------------------------------------ (4) drain partitions *)

(* Drain partition p reads blocks p, p+P, p+2P, ...: together the P partitions read every block, hence
   every stored row, exactly once (the addresses read have no duplicate), for every P >= 1; and the
   drain output is the per-row output over all stored rows. *)
Theorem drain_partitions_disjoint_cover : forall (blocks : list (list row)) (P : nat), (1 <= P)%nat ->
  let nb := number_blocks 0 blocks in
  let read := concat (flat_map (fun p => strided P p nb) (seq 0 P)) in
  Permutation read (concat nb) /\ NoDup (map fst read) /\
  forall k ra marked, needs_drain k = true ->
    Permutation (drain_all k ra marked nb P) (flat_map (drain_row k ra marked) (concat nb)).
Proof.
  intros blocks P HP nb read.
  assert (H : Permutation read (concat nb)).
  { apply perm_concat. apply strided_cover. exact HP. }
  split; [exact H|]. split.
  - apply (Permutation_NoDup (l := map fst (concat nb))).
    + apply Permutation_sym. apply Permutation_map. exact H.
    + unfold nb. rewrite number_blocks_concat, combine_seq_fst. apply seq_NoDup.
  - intros k ra marked Hk. apply drain_all_perm; assumption.
Qed.

Example drain_partitions_disjoint_cover_ex :
  map (fun p => strided 3 p [10; 11; 12; 13; 14; 15; 16]%nat) (seq 0 3)
  = [[10; 13; 16]; [11; 14]; [12; 15]]%nat.
Proof. reflexivity. Qed.

(* empty sides (JoinType::empty_output_on_empty_build): with an empty build side INNER/LEFT/SEMI are
   empty and RIGHT pads every probe row; with an empty probe side LEFT pads every build row *)
Theorem empty_side_behaviour : forall (R L : list row) la ra (p : row -> row -> bool),
  pure_join JInner [] R la ra p = [] /\ pure_join JLeft [] R la ra p = [] /\
  pure_join JSemi [] R la ra p = [] /\ pure_join JAnti [] R la ra p = [] /\
  pure_join JRight [] R la ra p = map (fun r => nulls la ++ r) R /\
  pure_join JLeft L [] la ra p = map (fun l => l ++ nulls ra) L /\
  pure_join JAnti L [] la ra p = L /\ pure_join JSemi L [] la ra p = [].
Proof.
  intros R L la ra p.
  split; [reflexivity|]. split; [reflexivity|]. split; [reflexivity|]. split; [reflexivity|].
  split; [|split; [|split]]; cbn [pure_join].
  - rewrite <- (flat_map_singleton (fun r => nulls la ++ r) R). apply flat_map_ext. intros r. reflexivity.
  - rewrite <- (flat_map_singleton (fun l => l ++ nulls ra) L). apply flat_map_ext. intros l. reflexivity.
  - exact (filter_true L).
  - induction L as [|l L IH]; [reflexivity|exact IH].
Qed.
