(* C06 — the hash join model (model/HashJoin.v) emits the same bag of rows as `Sql.join_rows`. *)
From Coq Require Import NArith ZArith List Bool Lia PeanoNat.
From Coq Require Import Sorting.Permutation.
From GV Require Import model.Sql model.HashJoin proofs.JoinSpecProofs.
Import ListNotations.

(* ------------------------------------------------------------------ list lemmas *)

Lemma perm_flat_map_app : forall {A B} (f g : A -> list B) (l : list A),
  Permutation (flat_map (fun x => f x ++ g x) l) (flat_map f l ++ flat_map g l).
Proof.
  intros A B f g l. induction l as [|x l IH]; cbn; [constructor|].
  rewrite <- !app_assoc. apply Permutation_app_head.
  eapply Permutation_trans; [apply Permutation_app_head; exact IH|].
  apply Permutation_app_swap_app.
Qed.

Lemma flat_map_map_in : forall {A B C} (f : B -> list C) (g : A -> B) (l : list A),
  flat_map f (map g l) = flat_map (fun x => f (g x)) l.
Proof. intros A B C f g l. induction l as [|x l IH]; cbn; [reflexivity|]. rewrite IH. reflexivity. Qed.

Lemma map_flat_map_out : forall {A B C} (g : B -> C) (h : A -> list B) (l : list A),
  map g (flat_map h l) = flat_map (fun x => map g (h x)) l.
Proof.
  intros A B C g h l. induction l as [|x l IH]; cbn; [reflexivity|].
  rewrite map_app, IH. reflexivity.
Qed.

Lemma flat_map_concat : forall {A B} (f : A -> list B) (ls : list (list A)),
  flat_map f (concat ls) = flat_map (flat_map f) ls.
Proof.
  intros A B f ls. induction ls as [|l ls IH]; cbn; [reflexivity|].
  rewrite flat_map_app, IH. reflexivity.
Qed.

Lemma filter_map_comm : forall {A B} (f : B -> bool) (g : A -> B) (l : list A),
  filter f (map g l) = map g (filter (fun x => f (g x)) l).
Proof.
  intros A B f g l. induction l as [|x l IH]; cbn; [reflexivity|].
  destruct (f (g x)); cbn; rewrite IH; reflexivity.
Qed.

Lemma filter_filter_implies : forall {A} (m q : A -> bool) (l : list A),
  (forall x, In x l -> m x = true -> q x = true) -> filter m (filter q l) = filter m l.
Proof.
  intros A m q l. induction l as [|x l IH]; intros H; cbn; [reflexivity|].
  assert (IH' : filter m (filter q l) = filter m l).
  { apply IH. intros y Hy. apply H. right. exact Hy. }
  destruct (q x) eqn:Q; cbn.
  - rewrite IH'. reflexivity.
  - destruct (m x) eqn:M.
    + rewrite (H x (or_introl eq_refl) M) in Q. discriminate.
    + exact IH'.
Qed.

Lemma flat_map_if_filter : forall {A B} (f : A -> bool) (g : A -> B) (l : list A),
  flat_map (fun x => if f x then [g x] else []) l = map g (filter f l).
Proof.
  intros A B f g l. induction l as [|x l IH]; cbn; [reflexivity|].
  destruct (f x); cbn; rewrite IH; reflexivity.
Qed.

Lemma flat_map_singleton : forall {A B} (g : A -> B) (l : list A),
  flat_map (fun x => [g x]) l = map g l.
Proof. intros A B g l. induction l as [|x l IH]; cbn; [reflexivity|]. rewrite IH. reflexivity. Qed.

Lemma perm_concat : forall {A} (l l' : list (list A)), Permutation l l' -> Permutation (concat l) (concat l').
Proof.
  intros A l l' H.
  induction H as [|x l l' H IH|x y l|l l' l'' H1 IH1 H2 IH2]; cbn.
  - constructor.
  - apply Permutation_app_head. exact IH.
  - rewrite !app_assoc. apply Permutation_app_tail. apply Permutation_app_comm.
  - eapply Permutation_trans; eassumption.
Qed.

Lemma existsb_eq_iff : forall {A} (f : A -> bool) (l : list A) {B} (g : B -> bool) (l' : list B),
  ((exists x, In x l /\ f x = true) <-> (exists y, In y l' /\ g y = true)) -> existsb f l = existsb g l'.
Proof.
  intros A f l B g l' H. apply eq_true_iff_eq. rewrite !existsb_exists. exact H.
Qed.

Lemma or_pad_decomp : forall {A} (f : A -> row) (q : A -> bool) (l : list A) (pad : row),
  or_pad (map f (filter q l)) pad = map f (filter q l) ++ (if existsb q l then [] else [pad]).
Proof.
  intros A f q l pad. destruct (existsb q l) eqn:E.
  - rewrite app_nil_r. destruct (filter q l) as [|x m] eqn:F; [|reflexivity].
    apply filter_nil_existsb in F. congruence.
  - apply filter_nil_existsb in E. rewrite E. reflexivity.
Qed.

(* ------------------------------------------------------------------ strided drain *)

Lemma flat_map_pick_seq : forall {A} (x : A) (k n a : nat),
  flat_map (fun p => if Nat.eqb k p then [x] else []) (seq a n)
  = if (Nat.leb a k && Nat.ltb k (a + n))%bool then [x] else [].
Proof.
  intros A x k n. induction n as [|n IH]; intros a; cbn [seq flat_map].
  - destruct (Nat.leb_spec a k), (Nat.ltb_spec k (a + 0)); cbn [andb]; try reflexivity; lia.
  - rewrite IH.
    destruct (Nat.eqb_spec k a), (Nat.leb_spec (S a) k), (Nat.leb_spec a k),
             (Nat.ltb_spec k (S a + n)), (Nat.ltb_spec k (a + S n));
      cbn [andb app]; try reflexivity; lia.
Qed.

Lemma filter_classes_cover : forall {A} (cls : A -> nat) (P : nat) (l : list A),
  (forall x, In x l -> cls x < P)%nat ->
  Permutation (flat_map (fun p => filter (fun x => Nat.eqb (cls x) p) l) (seq 0 P)) l.
Proof.
  intros A cls P l. induction l as [|x l IH]; intros H.
  - cbn. clear. induction (seq 0 P) as [|a s IHs]; cbn; [constructor|exact IHs].
  - assert (E : forall p, filter (fun y => Nat.eqb (cls y) p) (x :: l)
                 = (if Nat.eqb (cls x) p then [x] else []) ++ filter (fun y => Nat.eqb (cls y) p) l).
    { intros p. cbn. destruct (Nat.eqb (cls x) p); reflexivity. }
    erewrite flat_map_ext; [|intros p; apply E].
    eapply Permutation_trans; [apply perm_flat_map_app|].
    rewrite flat_map_pick_seq.
    assert (Hx : (cls x < P)%nat) by (apply H; left; reflexivity).
    replace (Nat.leb 0 (cls x)) with true by (symmetry; apply Nat.leb_le; lia).
    replace (Nat.ltb (cls x) (0 + P)) with true by (symmetry; apply Nat.ltb_lt; lia).
    cbn. constructor. apply IH. intros y Hy. apply H. right. exact Hy.
Qed.

(* (4) the strided block assignment covers every block exactly once, for any P >= 1 *)
Theorem strided_cover : forall {A} (P : nat) (l : list A), (1 <= P)%nat ->
  Permutation (flat_map (fun p => strided P p l) (seq 0 P)) l.
Proof.
  intros A P l HP. unfold strided.
  assert (E : map snd (combine (seq 0 (length l)) l) = l).
  { generalize 0%nat. induction l as [|x l IH]; intros s; cbn; [reflexivity|]. rewrite IH. reflexivity. }
  apply Permutation_trans with (map snd (combine (seq 0 (length l)) l)); [|rewrite E; apply Permutation_refl].
  rewrite <- (map_flat_map_out snd
     (fun p => filter (fun ix => Nat.eqb (Nat.modulo (fst ix) P) p) (combine (seq 0 (length l)) l))).
  apply Permutation_map.
  apply (filter_classes_cover (fun ix : nat * A => Nat.modulo (fst ix) P)).
  intros x _. apply Nat.mod_upper_bound. lia.
Qed.

(* ------------------------------------------------------------------ numbering of stored rows *)

Lemma combine_app_eq : forall {A B} (a1 a2 : list A) (b1 b2 : list B),
  length a1 = length b1 -> combine (a1 ++ a2) (b1 ++ b2) = combine a1 b1 ++ combine a2 b2.
Proof.
  intros A B a1. induction a1 as [|x a1 IH]; intros a2 b1 b2 H; destruct b1 as [|y b1]; cbn in *;
    try discriminate; [reflexivity|]. rewrite IH by lia. reflexivity.
Qed.

Lemma number_blocks_concat : forall blocks s,
  concat (number_blocks s blocks) = combine (seq s (length (concat blocks))) (concat blocks).
Proof.
  induction blocks as [|b bs IH]; intros s; cbn; [reflexivity|].
  rewrite IH, app_length, seq_app, combine_app_eq by (rewrite seq_length; reflexivity). reflexivity.
Qed.

Lemma combine_seq_snd : forall {A} (l : list A) s, map snd (combine (seq s (length l)) l) = l.
Proof. intros A l. induction l as [|x l IH]; intros s; cbn; [reflexivity|]. rewrite IH. reflexivity. Qed.

Lemma combine_seq_fst : forall {A} (l : list A) s, map fst (combine (seq s (length l)) l) = seq s (length l).
Proof. intros A l. induction l as [|x l IH]; intros s; cbn; [reflexivity|]. rewrite IH. reflexivity. Qed.

Lemma stored_rows_snd : forall Lparts, map snd (stored_rows Lparts) = concat (concat Lparts).
Proof. intros Lparts. unfold stored_rows. rewrite number_blocks_concat. apply combine_seq_snd. Qed.

Lemma stored_rows_nodup : forall Lparts, NoDup (map fst (stored_rows Lparts)).
Proof.
  intros Lparts. unfold stored_rows. rewrite number_blocks_concat, combine_seq_fst. apply seq_NoDup.
Qed.

Lemma nodup_fst_inj : forall {A B} (l : list (A * B)) x y,
  NoDup (map fst l) -> In x l -> In y l -> fst x = fst y -> x = y.
Proof.
  intros A B l. induction l as [|z l IH]; intros x y Hnd Hx Hy E; [destruct Hx|].
  cbn in Hnd. inversion Hnd as [|z' l' Hnot Hnd']; subst.
  destruct Hx as [Hx|Hx], Hy as [Hy|Hy].
  - congruence.
  - subst z. exfalso. apply Hnot. rewrite E. apply in_map. exact Hy.
  - subst z. exfalso. apply Hnot. rewrite <- E. apply in_map. exact Hx.
  - apply IH; assumption.
Qed.

(* ------------------------------------------------------------------ the model *)

Section HashJoinCorrect.
  Variable hash : list value -> N.
  (* the ONE hypothesis about the hash function (interface of arrays/compute/hash.rs) *)
  Hypothesis hash_respects_eq : forall k1 k2, keys_match k1 k2 = true -> hash k1 = hash k2.

  Variable ops : list cmpop.
  Variables bkeys pkeys : row -> list value.
  Variable kbits : N.

  Notation matcher := (matcher ops bkeys pkeys).
  Notation bhash := (bhash hash ops bkeys).
  Notation phash := (phash hash ops pkeys).
  Notation slot := (slot kbits).
  Notation build_dir := (build_dir hash ops bkeys kbits).
  Notation dir_insert := (dir_insert hash ops bkeys kbits).

  (* ---- directory ---- *)
  Lemma build_dir_fold : forall ins d0 s,
    fold_left dir_insert ins d0 s
    = rev (filter (fun x => N.eqb s (slot (bhash (snd x)))) ins) ++ d0 s.
  Proof.
    induction ins as [|x ins IH]; intros d0 s; cbn [fold_left filter]; [reflexivity|].
    rewrite IH. unfold HashJoin.dir_insert at 2.
    destruct (N.eqb s (slot (bhash (snd x)))); cbn [rev]; [|reflexivity].
    rewrite <- app_assoc. reflexivity.
  Qed.

  Lemma build_dir_spec : forall ins s,
    build_dir ins s = rev (filter (fun x => N.eqb s (slot (bhash (snd x)))) ins).
  Proof. intros ins s. unfold HashJoin.build_dir. rewrite build_dir_fold, app_nil_r. reflexivity. Qed.

  (* chains hold stored rows only (no phantom rows) *)
  Lemma chain_sound : forall ins s x, In x (build_dir ins s) -> In x ins.
  Proof.
    intros ins s x H. rewrite build_dir_spec in H. apply in_rev in H.
    apply filter_In in H. tauto.
  Qed.

  Lemma conds_match_eq_cols : forall o k1 k2,
    conds_match o k1 k2 = true -> keys_match (eq_cols o k1) (eq_cols o k2) = true.
  Proof.
    induction o as [|op o IH]; intros k1 k2 H.
    - destruct k1, k2; cbn in *; try discriminate; reflexivity.
    - destruct k1 as [|a k1], k2 as [|b k2]; cbn in H; try discriminate.
      apply andb_true_iff in H. destruct H as [Hc Hr].
      cbn [eq_cols]. destruct op; cbn [app]; try (apply IH; exact Hr).
      cbn [keys_match]. rewrite Hc. cbn. apply IH. exact Hr.
  Qed.

  Lemma matcher_same_slot : forall b r, matcher b r = true -> slot (bhash b) = slot (phash r).
  Proof.
    intros b r H. unfold HashJoin.slot, HashJoin.bhash, HashJoin.phash. f_equal.
    apply hash_respects_eq. apply conds_match_eq_cols. exact H.
  Qed.

  (* KEY LEMMA: every stored row that satisfies the conditions with the probe row is in the probed
     chain, whatever the capacity and the insertion order *)
  Theorem bucket_complete : forall ins x r,
    In x ins -> matcher (snd x) r = true -> In x (build_dir ins (slot (phash r))).
  Proof.
    intros ins x r Hin Hm. rewrite build_dir_spec. apply -> in_rev.
    apply filter_In. split; [exact Hin|].
    rewrite (matcher_same_slot _ _ Hm). apply N.eqb_refl.
  Qed.

  Definition chain_matches (ins : list bptr) (r : row) : list bptr :=
    filter (fun b => matcher (snd b) r) (build_dir ins (slot (phash r))).

  Lemma chain_matches_perm : forall ins r,
    Permutation (chain_matches ins r) (filter (fun b => matcher (snd b) r) ins).
  Proof.
    intros ins r. unfold chain_matches. rewrite build_dir_spec.
    eapply Permutation_trans.
    - apply perm_filter. apply Permutation_sym. apply Permutation_rev.
    - rewrite filter_filter_implies; [apply Permutation_refl|].
      intros x _ Hm. rewrite (matcher_same_slot _ _ Hm). apply N.eqb_refl.
  Qed.

  Lemma chain_exists : forall ins r,
    existsb (fun b => matcher (snd b) r) (build_dir ins (slot (phash r)))
    = existsb (fun b => matcher (snd b) r) ins.
  Proof.
    intros ins r. apply existsb_eq_iff. split; intros [x [Hx Hm]]; exists x; split; try exact Hm.
    - eapply chain_sound. exact Hx.
    - apply bucket_complete; assumption.
  Qed.

  (* ---- lock-step chain walking ---- *)
  Notation entry := HashJoin.entry.
  Notation emit1 := (emit1 ops bkeys pkeys).
  Notation adv1 := (adv1 ops bkeys pkeys).
  Notation walk := (walk ops bkeys pkeys).

  Definition per_entry (e : entry) : list (bptr * row) :=
    map (fun b => (b, e_row e)) (filter (fun b => matcher (snd b) (e_row e)) (e_chain e)).
  Definition fin (e : entry) : entry :=
    (e_row e, [], e_flag e || existsb (fun b => matcher (snd b) (e_row e)) (e_chain e)).

  Lemma per_entry_step : forall e, per_entry e = emit1 e ++ per_entry (adv1 e).
  Proof.
    intros [[r c] f]. unfold per_entry, HashJoin.emit1, HashJoin.adv1, e_chain, e_row, e_flag. cbn.
    destruct c as [|b rest]; cbn; [reflexivity|].
    destruct (conds_match ops (bkeys (snd b)) (pkeys r)) eqn:M; unfold HashJoin.matcher; rewrite M; reflexivity.
  Qed.

  Lemma fin_step : forall e, fin (adv1 e) = fin e.
  Proof.
    intros [[r c] f]. unfold fin, HashJoin.adv1, e_chain, e_row, e_flag. cbn.
    destruct c as [|b rest]; cbn; [reflexivity|]. rewrite orb_assoc. reflexivity.
  Qed.

  Lemma all_done_spec : forall st, forallb chain_done st = true ->
    flat_map per_entry st = [] /\ map fin st = st.
  Proof.
    induction st as [|e st IH]; intros H; cbn in *; [split; reflexivity|].
    apply andb_true_iff in H. destruct H as [He Hst]. destruct (IH Hst) as [I1 I2].
    destruct e as [[r c] f]. unfold chain_done, e_chain in He. cbn in He.
    destruct c; [|discriminate]. rewrite I1, I2. unfold per_entry, fin, e_chain, e_row, e_flag. cbn.
    rewrite orb_false_r. split; reflexivity.
  Qed.

  Lemma len0_done : forall st, Forall (fun e : entry => (length (e_chain e) <= 0)%nat) st ->
    forallb chain_done st = true.
  Proof.
    induction st as [|e st IH]; intros H; [reflexivity|]. inversion H as [|e' st' He Hst]; subst.
    cbn. rewrite (IH Hst). destruct e as [[r c] f]. unfold chain_done, e_chain in *. cbn in *.
    destruct c; [reflexivity|cbn in He; lia].
  Qed.

  Lemma adv_len : forall st f, Forall (fun e : entry => (length (e_chain e) <= S f)%nat) st ->
    Forall (fun e : entry => (length (e_chain e) <= f)%nat) (map adv1 st).
  Proof.
    intros st f H. apply Forall_map. eapply Forall_impl; [|exact H].
    intros [[r c] fl] He. unfold HashJoin.adv1, e_chain in *. cbn in *.
    destruct c; cbn in *; lia.
  Qed.

  Lemma concat_opt_cons : forall {A} (b : list A) (x : list (list A)),
    concat (match b with [] => x | _ :: _ => b :: x end) = b ++ concat x.
  Proof. intros A b x. destruct b; reflexivity. Qed.

  Lemma walk_spec : forall fuel st,
    Forall (fun e : entry => (length (e_chain e) <= fuel)%nat) st ->
    Permutation (concat (fst (walk fuel st))) (flat_map per_entry st) /\
    snd (walk fuel st) = map fin st.
  Proof.
    induction fuel as [|f IH]; intros st H.
    - apply len0_done in H. destruct (all_done_spec st H) as [E1 E2]. cbn. rewrite E1, E2.
      split; [constructor|reflexivity].
    - cbn [HashJoin.walk]. destruct (forallb chain_done st) eqn:D.
      + destruct (all_done_spec st D) as [E1 E2]. cbn. rewrite E1, E2. split; [constructor|reflexivity].
      + destruct (IH (map adv1 st) (adv_len st f H)) as [I1 I2]. cbn [fst snd].
        rewrite concat_opt_cons. split.
        * erewrite (flat_map_ext per_entry); [|intros e; apply per_entry_step].
          eapply Permutation_trans; [|apply Permutation_sym; apply perm_flat_map_app].
          apply Permutation_app_head. rewrite flat_map_map_in in I1. exact I1.
        * rewrite I2, map_map. apply map_ext. intros e. apply fin_step.
  Qed.

  Lemma max_chain_bound : forall (st : list entry),
    Forall (fun e : entry => (length (e_chain e) <= S (max_chain st))%nat) st.
  Proof.
    induction st as [|e st IH]; [constructor|]. cbn [max_chain fold_right]. constructor.
    - lia.
    - eapply Forall_impl; [|exact IH]. intros e' He'. unfold max_chain in He'. cbn beta in He'. lia.
  Qed.

  Notation scan_batch := (scan_batch hash ops bkeys pkeys kbits).

  Lemma scan_batch_pairs : forall ins batch,
    Permutation (concat (fst (scan_batch (build_dir ins) batch)))
                (flat_map (fun r => map (fun b => (b, r)) (chain_matches ins r)) batch).
  Proof.
    intros ins batch. unfold HashJoin.scan_batch.
    destruct (walk_spec _ _ (max_chain_bound (probe_init hash ops pkeys kbits (build_dir ins) batch))) as [W _].
    eapply Permutation_trans; [exact W|]. unfold probe_init. rewrite flat_map_map_in.
    apply Permutation_refl.
  Qed.

  Lemma scan_batch_flags : forall ins batch,
    snd (scan_batch (build_dir ins) batch)
    = map (fun r => (r, [], existsb (fun b => matcher (snd b) r) ins)) batch.
  Proof.
    intros ins batch. unfold HashJoin.scan_batch.
    destruct (walk_spec _ _ (max_chain_bound (probe_init hash ops pkeys kbits (build_dir ins) batch))) as [_ W].
    rewrite W. unfold probe_init. rewrite map_map. apply map_ext. intros r.
    unfold fin, e_row, e_chain, e_flag. cbn. rewrite chain_exists. reflexivity.
  Qed.
End HashJoinCorrect.
