(* C04 — proofs about the ResultStream hand-off model (model/BarrierStream.v), arbitrary number
   of pushing partitions, arbitrary batch queues, every interleaving incl. spurious polls. *)
From Coq Require Import List Arith Lia Bool.
From GV Require Import lib.Lts model.BarrierStream.
Import ListNotations.

Lemma sw_parked l : count is_sparked (map swake l) = 0.
Proof. rewrite count_map, (count_ext _ (fun _ => false)); [apply count_false|]. intros []; reflexivity. Qed.

Lemma sw_prod l : count is_sprod (map swake l) = count is_sprod l + count is_sparked l.
Proof.
  rewrite count_map, (count_ext _ (fun p => is_sprod p || is_sparked p)).
  - apply count_orb. intros []; reflexivity.
  - intros []; reflexivity.
Qed.

Lemma sw_other f l : (forall p, f (swake p) = f p) -> count f (map swake l) = count f l.
Proof. intros H. rewrite count_map. apply count_ext. exact H. Qed.

Lemma ssum_wake (w : sph -> nat) l : (forall p, w (swake p) = w p) -> sumw w (map swake l) = sumw w l.
Proof. intros H. rewrite sumw_map. apply sumw_ext. exact H. Qed.

Lemma sweight_wake p : sweight (swake p) = sweight p.
Proof. destruct p; cbn [swake sweight length]; lia. Qed.

Lemma holds_wake b p : holds_occ b (swake p) = holds_occ b p.
Proof. destruct p; reflexivity. Qed.

Lemma slength_parts l :
  length l = count is_sprod l + count is_sparked l + count is_sdone l + count is_sfailed l + count is_spanic l.
Proof.
  induction l as [|a l IH]; [reflexivity|]. rewrite !count_cons. cbn [length].
  destruct a; cbn [b2n is_sprod is_sparked is_sdone is_sfailed is_spanic]; lia.
Qed.

Lemma occ_app b l1 l2 : occ b (l1 ++ l2) = occ b l1 + occ b l2.
Proof. induction l1 as [|x t IH]; [reflexivity|]. cbn [app occ]. rewrite IH. lia. Qed.

Ltac sfacts H q :=
  pose proof (count_upd is_sprod _ _ _ q H);
  pose proof (count_upd is_sparked _ _ _ q H);
  pose proof (count_upd is_sdone _ _ _ q H);
  pose proof (count_upd is_sfailed _ _ _ q H);
  pose proof (count_upd is_spanic _ _ _ q H);
  pose proof (sumw_upd sweight _ _ _ q H);
  pose proof (count_nth_ge is_sprod _ _ _ H);
  pose proof (count_nth_ge is_sparked _ _ _ H);
  pose proof (length_upd _ _ _ q H).

Ltac swake_rw :=
  rewrite ?sw_parked, ?sw_prod, ?(sw_other is_sdone), ?(sw_other is_sfailed), ?(sw_other is_spanic),
    ?(ssum_wake sweight), ?map_length in *
    by (first [exact sweight_wake | intros []; reflexivity]).

Ltac sred :=
  cbn [b2n is_sprod is_sparked is_sdone is_sfailed is_spanic sweight cweight length
       sps slot serr srem cons delivered dropped wake_pull swake c_pollable] in *.

(* numeric views of the non-numeric fields, so that the invariant is linear arithmetic *)
Definition slot_n (s : sst) : nat := match slot s with Some _ => 1 | None => 0 end.
Definition err_n (s : sst) : nat := if serr s then 1 else 0.
Definition cpark_n (s : sst) : nat := match cons s with CParked => 1 | _ => 0 end.
Definition cerr_n (s : sst) : nat := match cons s with CErr => 1 | _ => 0 end.
Definition cend_n (s : sst) : nat := match cons s with CEnded => 1 | _ => 0 end.

Record SInv (s : sst) : Prop := {
  jA : srem s = count is_sprod (sps s) + count is_sparked (sps s) + count is_sfailed (sps s);
  jB : 0 < count is_sparked (sps s) -> slot_n s = 1;
  jC : cpark_n s = 1 -> slot_n s = 0 /\ err_n s = 0 /\ 0 < srem s;
  jD : 0 < count is_sfailed (sps s) -> 1 <= err_n s + cerr_n s;
  jF : cend_n s = 1 -> srem s = 0 /\ slot_n s = 0;
  jP : count is_spanic (sps s) = 0;
  jN : count is_sfailed (sps s) = 0 -> dropped s = []
}.

Ltac nviews := unfold slot_n, err_n, cpark_n, cerr_n, cend_n in *; sred.

Lemma count_map_prod f qs : (forall q, f (SProd q) = false) -> count f (map SProd qs) = 0.
Proof. intros H. induction qs as [|k ks IH]; [reflexivity|]. cbn [map]. rewrite count_cons, H, IH. reflexivity. Qed.

Lemma count_prod_init qs : count is_sprod (map SProd qs) = length qs.
Proof. induction qs as [|k ks IH]; [reflexivity|]. cbn [map]. rewrite count_cons, IH. reflexivity. Qed.

Lemma sinv_init qs : SInv (sinit qs).
Proof.
  unfold sinit. constructor; nviews;
    rewrite ?count_prod_init, ?(count_map_prod is_sparked), ?(count_map_prod is_sdone),
      ?(count_map_prod is_sfailed), ?(count_map_prod is_spanic) by reflexivity; intros; try reflexivity; try lia.
Qed.

Lemma offers_cases p b q : offers p = Some (b, q) -> p = SProd (b :: q) \/ p = SParked b q.
Proof.
  destruct p as [[|x t]|x t| | |]; cbn [offers]; intros H; try discriminate; inversion H; subst; auto.
Qed.

Lemma sinv_step s s' : SInv s -> sstep s s' -> SInv s'.
Proof.
  intros [A B C D F P N] Hs.
  destruct Hs as [i p b q x s H Ho Hsl | i p b q s H Ho Hsl | i s H Hr | i s H Hr | i p s H Hf | s | s Hc].
  - (* push_full *)
    destruct (offers_cases _ _ _ Ho) as [-> | ->]; sfacts H (SParked b q);
      destruct s as [ps sl er rm cn dl dr]; nviews; subst sl; destruct er, cn;
      constructor; nviews; intros; try assumption; try lia; try (apply N; lia).
  - (* push_ok *)
    destruct (offers_cases _ _ _ Ho) as [-> | ->]; sfacts H (SProd q);
      destruct s as [ps sl er rm cn dl dr]; nviews; subst sl; destruct er, cn;
      constructor; nviews; intros; try assumption; try lia; try (apply N; lia).
  - (* finalize *)
    sfacts H SDone. destruct s as [ps sl er rm cn dl dr]; nviews; destruct sl, er, cn;
      constructor; nviews; intros; try assumption; try lia; try (apply N; lia).
  - (* underflow: impossible *)
    sfacts H SPanic. nviews. exfalso. lia.
  - (* fail *)
    destruct p; try discriminate; sfacts H SFailed;
      destruct s as [ps sl er rm cn dl dr]; nviews; destruct sl, er, cn;
      constructor; nviews; intros; try assumption; try lia.
  - (* env_error *)
    destruct s as [ps sl er rm cn dl dr]; nviews; destruct sl, er, cn;
      constructor; nviews; intros; try assumption; try lia; try (apply N; lia).
  - (* consume *)
    unfold c_poll. destruct s as [ps sl er rm cn dl dr]; nviews.
    destruct er.
    + destruct sl, cn; try discriminate; constructor; nviews; intros; try assumption; try lia; try (apply N; lia).
    + destruct sl as [b|].
      * destruct cn; try discriminate; constructor; nviews; swake_rw; intros; try assumption; try lia; try (apply N; lia).
      * destruct (Nat.eqb_spec rm 0) as [Z|NZ];
          destruct cn; try discriminate; constructor; nviews; intros; try assumption; try lia; try (apply N; lia).
Qed.

Theorem sinv_reach qs s : sreach qs s -> SInv s.
Proof. induction 1; [apply sinv_init | eapply sinv_step; eassumption]. Qed.

(* ---------- multiset conservation ---------- *)
Definition SM (qs : list (list nat)) (s : sst) : Prop :=
  forall b, occ b (delivered s) + slot_occ b (slot s) + sumw (holds_occ b) (sps s) + occ b (dropped s)
            = occ b (concat qs).

Lemma holds_init b qs : sumw (holds_occ b) (map SProd qs) = occ b (concat qs).
Proof.
  induction qs as [|q qs IH]; [reflexivity|]. cbn [map concat]. rewrite sumw_cons, occ_app, IH. reflexivity.
Qed.

Lemma sm_init qs : SM qs (sinit qs).
Proof. intros b. unfold sinit. cbn [delivered slot sps dropped occ slot_occ]. rewrite holds_init. lia. Qed.

Lemma holds_upd b0 l i old p :
  nth_error l i = Some old ->
  sumw (holds_occ b0) (upd l i p) + occ b0 (holds old) = sumw (holds_occ b0) l + occ b0 (holds p).
Proof. intros H. exact (sumw_upd (holds_occ b0) l i old p H). Qed.

Lemma sm_step qs s s' : SM qs s -> sstep s s' -> SM qs s'.
Proof.
  intros M Hs b0. specialize (M b0).
  destruct Hs as [i p b q x s H Ho Hsl | i p b q s H Ho Hsl | i s H Hr | i s H Hr | i p s H Hf | s | s Hc];
    cbn [sps slot serr srem cons delivered dropped].
  - destruct (offers_cases _ _ _ Ho) as [-> | ->];
      pose proof (holds_upd b0 _ _ _ (SParked b q) H) as X;
      cbn [holds occ] in X; lia.
  - destruct (offers_cases _ _ _ Ho) as [-> | ->];
      pose proof (holds_upd b0 _ _ _ (SProd q) H) as X;
      cbn [holds occ] in X; rewrite Hsl in M; cbn [slot_occ] in *; lia.
  - pose proof (holds_upd b0 _ _ _ SDone H) as X.
    cbn [holds occ] in X; lia.
  - pose proof (holds_upd b0 _ _ _ SPanic H) as X.
    cbn [holds occ] in X; lia.
  - pose proof (holds_upd b0 _ _ _ SFailed H) as X.
    cbn [holds occ] in X. rewrite occ_app. lia.
  - lia.
  - unfold c_poll. destruct (serr s); cbn [sps slot serr srem cons delivered dropped]; [lia|].
    destruct (slot s) as [b|] eqn:Hsl; cbn [sps slot serr srem cons delivered dropped].
    + rewrite occ_app, (ssum_wake (holds_occ b0)) by (intros p; apply holds_wake).
      cbn [occ slot_occ] in *. lia.
    + destruct (srem s =? 0); cbn [sps slot serr srem cons delivered dropped slot_occ] in *; lia.
Qed.

Theorem sm_reach qs s : sreach qs s -> SM qs s.
Proof. induction 1; [apply sm_init | eapply sm_step; eassumption]. Qed.

Lemma no_holders b l : count is_sprod l = 0 -> count is_sparked l = 0 -> sumw (holds_occ b) l = 0.
Proof.
  induction l as [|a l IH]; [reflexivity|]. rewrite !count_cons, sumw_cons.
  destruct a; cbn [b2n is_sprod is_sparked]; intros; try lia; unfold holds_occ at 1; cbn [holds occ]; rewrite IH; lia.
Qed.

(* ---------- the theorems ---------- *)

(* a parked pusher implies the slot is (still) full; a parked consumer implies there is nothing
   to deliver: slot empty, no error, inputs remaining *)
Theorem stream_inv_parked_implies_flag_unset qs s :
  sreach qs s ->
  (0 < count is_sparked (sps s) -> slot s <> None) /\
  (cons s = CParked -> slot s = None /\ serr s = false /\ 0 < srem s).
Proof.
  intros R. destruct (sinv_reach _ _ R) as [A B C D F P N]. split.
  - intros H. specialize (B H). unfold slot_n in B. destruct (slot s); [discriminate|lia].
  - intros H. unfold cpark_n, slot_n, err_n in C. rewrite H in C. specialize (C eq_refl).
    destruct (slot s), (serr s); try lia. repeat split; try reflexivity; lia.
Qed.

Theorem stream_no_underflow qs s : sreach qs s -> count is_spanic (sps s) = 0.
Proof. intros R. apply (jP _ (sinv_reach _ _ R)). Qed.

(* when the stream ends normally, the consumer has received exactly the multiset of batches the
   partitions pushed: nothing lost, nothing duplicated; every partition finalized; slot empty *)
Theorem stream_no_loss_no_dup qs s :
  sreach qs s -> cons s = CEnded ->
  (forall b, occ b (delivered s) = occ b (concat qs)) /\
  count is_sdone (sps s) = length (sps s) /\ slot s = None.
Proof.
  intros R HE. destruct (sinv_reach _ _ R) as [A B C D F P N]. pose proof (sm_reach _ _ R) as M.
  unfold cend_n, slot_n in F. rewrite HE in F. specialize (F eq_refl).
  assert (Hs : slot s = None) by (destruct (slot s); [lia|reflexivity]).
  pose proof (slength_parts (sps s)) as LP.
  split; [|split; [lia|assumption]].
  intros b. specialize (M b). rewrite Hs in M. cbn [slot_occ] in M.
  rewrite (no_holders b (sps s)) in M by lia. rewrite N in M by lia. cbn [occ] in M. lia.
Qed.

(* the stream ends (None) only after every partition finalized *)
Theorem stream_ends_only_when_all_finalized qs s :
  sreach qs s -> cons s = CEnded -> count is_sdone (sps s) = length (sps s).
Proof. intros R HE. apply (stream_no_loss_no_dup qs s R HE). Qed.

(* an error (task failure, cancel) is never slept on and the next consumer poll returns it; a
   failed partition excludes a normal end of the stream *)
Theorem stream_error_reaches_consumer qs s :
  sreach qs s ->
  (serr s = true -> cons s <> CParked /\ cons (c_poll s) = CErr) /\
  (0 < count is_sfailed (sps s) -> cons s <> CEnded /\ (serr s = true \/ cons s = CErr)).
Proof.
  intros R. destruct (sinv_reach _ _ R) as [A B C D F P N]. split.
  - intros He. split.
    + intros Hc. unfold cpark_n, err_n in C. rewrite Hc, He in C. specialize (C eq_refl). lia.
    + unfold c_poll. rewrite He. reflexivity.
  - intros Hf. specialize (D Hf). unfold err_n, cerr_n, cend_n in *. split.
    + intros Hc. rewrite Hc in F. specialize (F eq_refl). lia.
    + destruct (serr s); [left; reflexivity|]. destruct (cons s); try lia. right; reflexivity.
Qed.

Theorem stream_no_deadlock qs s :
  sreach qs s -> ~ consumer_finished s -> exists s', sstep s s' /\ s' <> s.
Proof.
  intros R NF. destruct (sinv_reach _ _ R) as [A B C D F P N].
  unfold consumer_finished in NF.
  destruct (cons s) eqn:Hc; try (exfalso; apply NF; auto; fail).
  - (* runnable consumer: its poll changes the state *)
    exists (c_poll s). split; [apply s_consume; rewrite Hc; reflexivity|].
    unfold c_poll. destruct (serr s) eqn:He.
    + intros X. apply (f_equal cons) in X. cbn [cons] in X. congruence.
    + destruct (slot s) eqn:Hs.
      * intros X. apply (f_equal slot) in X. cbn [slot] in X. congruence.
      * destruct (srem s =? 0); intros X; apply (f_equal cons) in X; cbn [cons] in X; congruence.
  - (* parked consumer: some pusher can push or finalize *)
    unfold cpark_n, slot_n, err_n, cerr_n in *. rewrite Hc in *. specialize (C eq_refl).
    destruct (slot s) eqn:Hs; [lia|]. destruct (serr s) eqn:He; [lia|].
    assert (Hf0 : count is_sfailed (sps s) = 0) by lia.
    assert (Hp0 : count is_sparked (sps s) = 0) by lia.
    destruct (count_pos_nth is_sprod (sps s)) as (i & p & Hi & Hp); [lia|].
    destruct p as [q| | | |]; try discriminate. destruct q as [|b q].
    + eexists. split; [eapply s_finalize; [eassumption|lia]|].
      intros X. apply (f_equal srem) in X. cbn [srem] in X. lia.
    + eexists. split; [eapply (s_push_ok i _ b q); [eassumption|reflexivity|assumption]|].
      intros X. apply (f_equal slot) in X. cbn [slot] in X. congruence.
Qed.

(* spurious polls of parked agents change nothing *)
Theorem stream_spurious_poll_stutters s :
  (forall i b q x, nth_error (sps s) i = Some (SParked b q) -> slot s = Some x -> cons s <> CParked ->
     {| sps := upd (sps s) i (SParked b q); slot := slot s; serr := serr s; srem := srem s;
        cons := wake_pull (cons s); delivered := delivered s; dropped := dropped s |} = s) /\
  (cons s = CParked -> serr s = false -> slot s = None -> srem s <> 0 -> c_poll s = s).
Proof.
  split.
  - intros i b q x H _ Hc. rewrite (upd_id _ _ _ H). destruct s as [ps sl er rm cn dl dr]. cbn in *.
    destruct cn; try reflexivity. congruence.
  - intros Hc He Hs Hr. unfold c_poll. rewrite He, Hs. destruct (Nat.eqb_spec (srem s) 0); [congruence|].
    destruct s; cbn in *; subst; reflexivity.
Qed.

Theorem stream_progress_measure_decreases qs s s' :
  sreach qs s -> sstep s s' -> s' <> s -> smeasure s' < smeasure s.
Proof.
  intros R Hs Hne. destruct (sinv_reach _ _ R) as [A B C D F P N].
  pose proof (slength_parts (sps s)) as LP.
  unfold smeasure, swork, srunnable.
  destruct Hs as [i p b q x s H Ho Hsl | i p b q s H Ho Hsl | i s H Hr | i s H Hr | i p s H Hf | s | s Hc].
  - destruct (offers_cases _ _ _ Ho) as [-> | ->].
    + sfacts H (SParked b q). destruct s as [ps sl er rm cn dl dr]; nviews; subst sl; destruct er, cn; nviews; nia.
    + exfalso. apply Hne. rewrite (upd_id _ _ _ H). destruct s as [ps sl er rm cn dl dr]; nviews; subst sl.
      destruct cn; try reflexivity. exfalso. lia.
  - destruct (offers_cases _ _ _ Ho) as [-> | ->]; sfacts H (SProd q);
      destruct s as [ps sl er rm cn dl dr]; nviews; subst sl; destruct er, cn; nviews; nia.
  - sfacts H SDone. destruct s as [ps sl er rm cn dl dr]; nviews; destruct sl, er, cn; nviews; nia.
  - sfacts H SPanic. nviews. exfalso. lia.
  - destruct p; try discriminate; sfacts H SFailed;
      destruct s as [ps sl er rm cn dl dr]; nviews; destruct sl, er, cn; nviews; nia.
  - destruct s as [ps sl er rm cn dl dr]; nviews. destruct er.
    + exfalso. apply Hne. destruct cn; try reflexivity. exfalso. lia.
    + destruct sl, cn; nviews; nia.
  - unfold c_poll in *. destruct s as [ps sl er rm cn dl dr]; nviews.
    pose proof (count_le_length is_sparked ps).
    destruct er.
    + destruct sl, cn; try discriminate; nviews; nia.
    + destruct sl as [b|].
      * destruct cn; try discriminate; nviews; swake_rw; nia.
      * destruct (Nat.eqb_spec rm 0) as [Z|NZ].
        -- destruct cn; try discriminate; nviews; nia.
        -- destruct cn; try discriminate; nviews; try nia. exfalso. apply Hne. reflexivity.
Qed.

Example stream_run_example : exists s, sreach [[7]] s /\ cons s = CEnded /\ delivered s = [7].
Proof.
  eexists. split; [|split].
  - eapply sr_step. eapply sr_step. eapply sr_step. eapply sr_step. apply sr_init.
    + apply (s_push_ok 0 (SProd [7]) 7 []); reflexivity.
    + apply s_consume. reflexivity.
    + apply (s_finalize 0); [reflexivity | cbn; lia].
    + apply s_consume. reflexivity.
  - reflexivity.
  - reflexivity.
Qed.

Print Assumptions stream_no_deadlock.
Print Assumptions stream_no_loss_no_dup.
Print Assumptions stream_error_reaches_consumer.
Print Assumptions stream_progress_measure_decreases.
