(* DELTA_BINARY_PACKED: closed witnesses.  (1) On the decoder as it was before commit ec3835a3f
   (model/PqDeltaOld.v, Module Old) the resumption property is refuted and the two crashes are
   reproduced; (2) on the current decoder (model/PqDelta.v) the same inputs decode correctly.
   The general theorems about the current decoder are in PqDbpSplit.v / PqDbpRoundtrip.v. *)
From Coq Require Import NArith ZArith List Bool Lia.
From GV Require Import model.PqBits model.PqDelta model.PqDeltaOld.
Import ListNotations.
Open Scope N_scope.

Definition witness_page : list N := dbp_encode 32 128 4 [1; 2; 3; 4].

Lemma witness_page_bytes : witness_page = [128; 1; 4; 4; 2; 2; 0; 0; 0; 0].
Proof. vm_compute. reflexivity. Qed.

(* ---- before the repair ---- *)
Lemma old_witness_split_read : Old.dbp_decode_split 32 witness_page [2%nat; 2%nat] = Ok [[1; 2]; [2; 3]].
Proof. vm_compute. reflexivity. Qed.
Lemma old_single_value_page_oob : Old.dbp_decode_split 32 (dbp_encode 32 128 4 [7]) [1%nat] = OOB.
Proof. vm_compute. reflexivity. Qed.
Lemma old_delta_lengths_full_block_panics : Old.dbp_read_lengths (dbp_encode 32 128 4 (repeat 1 129)) = Panic.
Proof. vm_compute. reflexivity. Qed.

(* ---- the current decoder on the same inputs ---- *)
Lemma witness_single_read : dbp_decode_split 32 witness_page [4%nat] = Ok [[1; 2; 3; 4]].
Proof. vm_compute. reflexivity. Qed.
Lemma witness_split_read : dbp_decode_split 32 witness_page [2%nat; 2%nat] = Ok [[1; 2]; [3; 4]].
Proof. vm_compute. reflexivity. Qed.
Lemma witness_single_value_page : dbp_decode_split 32 (dbp_encode 32 128 4 [7]) [1%nat] = Ok [[7]].
Proof. vm_compute. reflexivity. Qed.
Lemma witness_lengths_full_block :
  dbp_read_lengths (dbp_encode 32 128 4 (repeat 1 129) ++ [9; 9]) = Ok (repeat 1 129, [9; 9]).
Proof. vm_compute. reflexivity. Qed.

(* asking for more values than the page holds fails (`values_remaining.checked_sub(1)`: an error since the repair
   c80d6338b, an underflow panic before): the resumption theorem needs n1 + n2 <= available values *)
Lemma dbp_over_read_panics : dbp_decode_split 32 witness_page [3%nat; 2%nat] = Err.
Proof. vm_compute. reflexivity. Qed.
Lemma dbp_over_read_single_panics : dbp_decode_split 32 witness_page [5%nat] = Err.
Proof. vm_compute. reflexivity. Qed.

(* single read round trip on a non-trivial instance: negative deltas, 64 bit wrap-around, two
   blocks, a partially filled last miniblock *)
Definition sample64 : list N :=
  map (fun i => (N.of_nat i * N.of_nat i * 7919 + (if Nat.even i then 2 ^ 63 else 5)) mod 2 ^ 64) (seq 0 200).
Lemma dbp_roundtrip_sample64 :
  dbp_decode_split 64 (dbp_encode 64 128 4 sample64) [200%nat] = Ok [sample64].
Proof. vm_compute. reflexivity. Qed.

(* ---------- definition levels: NULL positions and value order ---------- *)
Lemma levels_assemble {A} : forall (rows : list (option A)) (rest : list A),
  assemble 1 (map def_level rows) (present rows ++ rest) = Ok (rows, rest).
Proof.
  induction rows as [|o rows IH]; intros rest; [reflexivity|].
  destruct o as [v|]; cbn [map def_level assemble present flat_map app].
  - change (1 <? 1) with false. cbn iota.
    change (flat_map (fun o => match o with Some v0 => [v0] | None => [] end) rows) with (present rows).
    rewrite IH. reflexivity.
  - change (0 <? 1) with true. cbn iota.
    change (flat_map (fun o => match o with Some v0 => [v0] | None => [] end) rows) with (present rows).
    rewrite IH. reflexivity.
Qed.

(* a batch boundary anywhere in the page: placing l1 then l2 is placing l1 ++ l2 *)
Lemma assemble_split {A} : forall max (l1 l2 : list N) (vals : list A),
  assemble max (l1 ++ l2) vals =
  ('(r1, v1) <- assemble max l1 vals ;; '(r2, v2) <- assemble max l2 v1 ;; Ok (r1 ++ r2, v2)).
Proof.
  intros max l1. induction l1 as [|l l1 IH]; intros l2 vals.
  - cbn [app assemble bind]. destruct (assemble max l2 vals) as [[r v]| | |]; reflexivity.
  - cbn [app assemble]. destruct (l <? max).
    + rewrite IH. destruct (assemble max l1 vals) as [[r1 v1]| | |]; cbn [bind]; try reflexivity.
      destruct (assemble max l2 v1) as [[r2 v2]| | |]; reflexivity.
    + destruct vals as [|v vs]; [reflexivity|]. rewrite IH.
      destruct (assemble max l1 vs) as [[r1 v1]| | |]; cbn [bind]; try reflexivity.
      destruct (assemble max l2 v1) as [[r2 v2]| | |]; reflexivity.
Qed.

Example levels_assemble_example :
  assemble 1 (map def_level [Some 5; None; Some 7]) (present [Some 5; None; Some 7]) = Ok ([Some 5; None; Some 7], []).
Proof. reflexivity. Qed.
