(* Proofs about model/Like.v: the regex matcher vs the declarative LIKE, and the optimizer's
   rewrite of constant patterns vs both. *)
From Coq Require Import NArith ZArith List Bool Lia ZifyBool ZifyN.
From GV Require Import model.Utf8 model.Like proofs.Utf8Proofs.
Import ListNotations.
Open Scope N_scope.

(* ---------- unfolding of `.*` ---------- *)
Lemma tmatch_many dot ts s :
  tmatch dot (TMany :: ts) s =
  tmatch dot ts s || match s with x :: s' => dot x && tmatch dot (TMany :: ts) s' | [] => false end.
Proof. destruct s; reflexivity. Qed.

Lemma has_cons c x l : has c (x :: l) = (c =? x) || has c l.
Proof. reflexivity. Qed.

Lemma has_app c a b : has c (a ++ b) = has c a || has c b.
Proof. unfold has. apply existsb_app. Qed.

Lemma has_rev c l : has c (rev l) = has c l.
Proof.
  induction l as [|x l IH]; [reflexivity|].
  cbn [rev]. rewrite has_app, IH, !has_cons. cbn [has existsb]. rewrite orb_false_r. apply orb_comm.
Qed.

(* ---------- (a) vs (b) ---------- *)
Lemma tmatch_dot_ext d1 d2 ts : forall s,
  forallb (fun x => eqb (d1 x) (d2 x)) s = true -> tmatch d1 ts s = tmatch d2 ts s.
Proof.
  induction ts as [|t ts IH]; intros s H; [reflexivity|].
  destruct t as [c| |].
  - destruct s as [|x s]; [reflexivity|]. cbn [tmatch]. cbn [forallb] in H.
    apply andb_true_iff in H as [_ H]. rewrite (IH s H). reflexivity.
  - destruct s as [|x s]; [reflexivity|]. cbn [tmatch]. cbn [forallb] in H.
    apply andb_true_iff in H as [Hx H]. rewrite (IH s H). apply eqb_prop in Hx. rewrite Hx. reflexivity.
  - induction s as [|x s IHs].
    + rewrite !tmatch_many. rewrite (IH [] H). reflexivity.
    + rewrite (tmatch_many d1), (tmatch_many d2). rewrite (IH _ H).
      cbn [forallb] in H. apply andb_true_iff in H as [Hx H]. apply eqb_prop in Hx.
      rewrite Hx, (IHs H). reflexivity.
Qed.

Lemma dots_agree s : forallb (fun x => eqb (dot_regex x) (dot_any x)) s = true.
Proof. induction s as [|x s IH]; [reflexivity|]. cbn [forallb]. rewrite IH. reflexivity. Qed.

(* full strength: the regex the engine builds accepts exactly the declarative LIKE language *)
Lemma like_matcher_is_like pat s : like_regex pat s = like_spec pat s.
Proof. apply tmatch_dot_ext, dots_agree. Qed.

(* the boolean (b) is the declarative relation *)
Lemma like_spec_sound ts : forall s, tmatch dot_any ts s = true -> LikeRel ts s.
Proof.
  induction ts as [|t ts IH]; intros s H.
  - destruct s; [constructor|discriminate].
  - destruct t as [c| |].
    + destruct s as [|x s]; [discriminate|]. cbn [tmatch] in H.
      apply andb_true_iff in H as [E H]. apply N.eqb_eq in E. subst x. constructor. apply IH, H.
    + destruct s as [|x s]; [discriminate|]. cbn [tmatch] in H.
      apply andb_true_iff in H as [_ H]. constructor. apply IH, H.
    + induction s as [|x s IHs].
      * rewrite tmatch_many, orb_false_r in H. apply (LR_many ts [] []), IH, H.
      * rewrite tmatch_many in H. apply orb_true_iff in H as [H|H].
        -- apply (LR_many ts [] (x :: s)), IH, H.
        -- apply andb_true_iff in H as [_ H]. specialize (IHs H).
           inversion IHs as [| | |ts' s1 s2 R E1 E2]; subst.
           apply (LR_many ts (x :: s1) s2), R.
Qed.

Lemma like_spec_complete ts s : LikeRel ts s -> tmatch dot_any ts s = true.
Proof.
  induction 1 as [|c ts s _ IH|x ts s _ IH|ts s1 s2 _ IH].
  - reflexivity.
  - cbn [tmatch]. rewrite N.eqb_refl, IH. reflexivity.
  - cbn [tmatch]. rewrite IH. reflexivity.
  - induction s1 as [|x s1 IHs]; rewrite tmatch_many.
    + cbn [app]. rewrite IH. reflexivity.
    + cbn [app]. cbn [app] in IHs. rewrite IHs. unfold dot_any at 1. cbn [andb]. apply orb_true_r.
Qed.

Lemma like_spec_declarative pat s : like_spec pat s = true <-> LikeRel (like_tokens pat) s.
Proof. split; [apply like_spec_sound|apply like_spec_complete]. Qed.

(* ---------- patterns without an escape ---------- *)
Definition tok_plain (c : N) : ltok :=
  if c =? PCT then TMany else if c =? USC then TOne else TLit c.

Lemma tokens_plain pat : no_bsl pat = true -> like_tokens pat = map tok_plain pat.
Proof.
  unfold no_bsl. induction pat as [|c r IH]; [reflexivity|].
  rewrite has_cons. intros H. apply negb_true_iff, orb_false_iff in H as [Hc H].
  cbn [like_tokens map]. rewrite N.eqb_sym, Hc.
  rewrite IH by (rewrite H; reflexivity). unfold tok_plain.
  destruct (c =? PCT); [reflexivity|]. destruct (c =? USC); reflexivity.
Qed.

Lemma plain_lits l : has PCT l = false -> has USC l = false -> map tok_plain l = map TLit l.
Proof.
  induction l as [|c l IH]; [reflexivity|].
  rewrite !has_cons. intros H1 H2.
  apply orb_false_iff in H1 as [P1 H1]. apply orb_false_iff in H2 as [P2 H2].
  cbn [map]. rewrite (IH H1 H2). unfold tok_plain.
  rewrite N.eqb_sym, P1, N.eqb_sym, P2. reflexivity.
Qed.

Lemma tmatch_lits dot l : forall s, tmatch dot (map TLit l) s = list_eqb s l.
Proof.
  induction l as [|c l IH]; intros [|x s]; try reflexivity.
  cbn [map tmatch list_eqb]. rewrite IH. reflexivity.
Qed.

Lemma tmatch_many_all dot s : forallb dot s = true -> tmatch dot [TMany] s = true.
Proof.
  induction s as [|x s IH]; [reflexivity|].
  cbn [forallb]. intros H. apply andb_true_iff in H as [Hx H].
  rewrite tmatch_many, Hx, (IH H). apply orb_true_r.
Qed.

Lemma tmatch_prefix dot l : forall s, forallb dot s = true ->
  tmatch dot (map TLit l ++ [TMany]) s = starts_with s l.
Proof.
  induction l as [|c l IH]; intros s H.
  - cbn [map app]. rewrite tmatch_many_all by exact H. destruct s; reflexivity.
  - destruct s as [|x s]; [reflexivity|]. cbn [map app tmatch starts_with].
    cbn [forallb] in H. apply andb_true_iff in H as [_ H]. rewrite (IH s H). reflexivity.
Qed.

Lemma tmatch_suffix dot l : forall s, forallb dot s = true ->
  tmatch dot (TMany :: map TLit l) s = ends_with s l.
Proof.
  induction s as [|x s IH]; intros H; rewrite tmatch_many, tmatch_lits.
  - reflexivity.
  - cbn [forallb] in H. apply andb_true_iff in H as [Hx H].
    cbn [ends_with]. rewrite Hx, (IH H). reflexivity.
Qed.

Lemma tmatch_contains dot l : forall s, forallb dot s = true ->
  tmatch dot (TMany :: map TLit l ++ [TMany]) s = contains s l.
Proof.
  induction s as [|x s IH]; intros H; rewrite tmatch_many, (tmatch_prefix dot l _ H).
  - destruct l; reflexivity.
  - cbn [forallb] in H. apply andb_true_iff in H as [Hx H].
    cbn [contains]. rewrite Hx, (IH H). reflexivity.
Qed.

(* ---------- shapes accepted by the classifiers ---------- *)
Lemma split_first_spec c l a b : split_first c l = Some (a, b) ->
  l = a ++ c :: b /\ has c a = false.
Proof.
  revert a b. induction l as [|x l IH]; intros a b H; [discriminate|].
  cbn [split_first] in H. destruct (x =? c) eqn:E.
  - apply N.eqb_eq in E. inversion H; subst. split; reflexivity.
  - destruct (split_first c l) as [[a' b']|]; [|discriminate]. inversion H; subst.
    destruct (IH a' b eq_refl) as [-> Ha]. split; [reflexivity|].
    rewrite has_cons, Ha, N.eqb_sym, E. reflexivity.
Qed.

Lemma prefix_shape p : is_prefix_pattern p = true ->
  exists pre, p = pre ++ [PCT] /\ has PCT pre = false /\ has USC pre = false.
Proof.
  unfold is_prefix_pattern. destruct (split_first PCT p) as [[pre post]|] eqn:S; [|discriminate].
  destruct (has USC p) eqn:U; [discriminate|].
  destruct post; [|discriminate]. cbn [negb]. intros _.
  apply split_first_spec in S as [-> Hp]. exists pre. split; [reflexivity|]. split; [exact Hp|].
  rewrite has_app in U. apply orb_false_iff in U as [U _]. exact U.
Qed.

Lemma suffix_shape p : is_suffix_pattern p = true ->
  exists r, p = PCT :: r /\ has PCT r = false /\ has USC r = false.
Proof.
  unfold is_suffix_pattern. destruct p as [|c r]; [discriminate|].
  destruct (c =? PCT) eqn:E; [|discriminate]. apply N.eqb_eq in E. subst c. cbn [negb].
  destruct (has PCT r) eqn:H1; [discriminate|]. cbn [orb].
  destruct (has USC (PCT :: r)) eqn:H2; [discriminate|]. intros _.
  exists r. rewrite has_cons in H2. apply orb_false_iff in H2 as [_ H2]. auto.
Qed.

Lemma contains_shape p : is_contains_pattern p = true ->
  exists sub, p = PCT :: sub ++ [PCT] /\ has PCT sub = false /\ has USC sub = false.
Proof.
  unfold is_contains_pattern. destruct p as [|c r]; [discriminate|].
  destruct (rev r) as [|l m] eqn:R; [discriminate|].
  destruct (c =? PCT) eqn:E1; [|discriminate]. destruct (l =? PCT) eqn:E2; [|discriminate].
  cbn [negb]. destruct (last_is BSL (rev m)); [discriminate|].
  destruct (has PCT (rev m)) eqn:H1; [discriminate|]. destruct (has USC (rev m)) eqn:H2; [discriminate|].
  intros _. apply N.eqb_eq in E1, E2. subst c l.
  exists (rev m). split; [|auto].
  f_equal. rewrite <- (rev_involutive r), R. reflexivity.
Qed.

(* ---------- trim_matches on those shapes ---------- *)
Lemma trim_start_nohas c m : has c m = false -> trim_start c m = m.
Proof.
  destruct m as [|x m]; [reflexivity|]. rewrite has_cons. intros H.
  apply orb_false_iff in H as [H _]. cbn [trim_start]. rewrite N.eqb_sym, H. reflexivity.
Qed.

Lemma trim_start_hd c l : trim_start c (c :: l) = trim_start c l.
Proof. cbn [trim_start]. rewrite N.eqb_refl. reflexivity. Qed.

Lemma trim_start_app c m l : has c m = false -> m <> [] -> trim_start c (m ++ l) = m ++ l.
Proof.
  destruct m as [|x m]; [congruence|]. rewrite has_cons. intros H _.
  apply orb_false_iff in H as [H _]. cbn [app trim_start]. rewrite N.eqb_sym, H. reflexivity.
Qed.

Lemma trim_end_one c m : has c m = false -> rev (trim_start c (rev (m ++ [c]))) = m.
Proof.
  intros H. rewrite rev_app_distr. cbn [rev app]. rewrite trim_start_hd.
  rewrite trim_start_nohas by (rewrite has_rev; exact H). apply rev_involutive.
Qed.

Lemma trim_end_none c m : has c m = false -> rev (trim_start c (rev m)) = m.
Proof.
  intros H. rewrite trim_start_nohas by (rewrite has_rev; exact H). apply rev_involutive.
Qed.

Lemma trim_prefix_shape c m : has c m = false -> trim_matches c (m ++ [c]) = m.
Proof.
  intros H. unfold trim_matches. destruct m as [|x m].
  - cbn [app]. rewrite trim_start_hd. reflexivity.
  - rewrite trim_start_app by (exact H || discriminate). apply trim_end_one, H.
Qed.

Lemma trim_suffix_shape c m : has c m = false -> trim_matches c (c :: m) = m.
Proof.
  intros H. unfold trim_matches. rewrite trim_start_hd, (trim_start_nohas c m H).
  apply trim_end_none, H.
Qed.

Lemma trim_contains_shape c m : has c m = false -> trim_matches c (c :: m ++ [c]) = m.
Proof.
  intros H. unfold trim_matches. rewrite trim_start_hd.
  fold (trim_matches c (m ++ [c])). apply trim_prefix_shape, H.
Qed.

(* ---------- the rewrite ---------- *)
(* Generic form: for a `.` predicate that holds on every character of s, and a pattern without
   '\', the rewritten predicate accepts s iff the token matcher does. *)
Lemma rewrite_equiv_dot dot pat s : no_bsl pat = true -> forallb dot s = true ->
  match classify pat with
  | RKeep _ => True
  | r => rewrite_sem r s = tmatch dot (like_tokens pat) s
  end.
Proof.
  intros B D. rewrite (tokens_plain pat B). unfold classify.
  assert (HB : has BSL pat = false) by (unfold no_bsl in B; apply negb_true_iff in B; exact B).
  rewrite HB.
  destruct (can_str_compare pat) eqn:C.
  { unfold can_str_compare in C. apply andb_true_iff in C as [C1 C2].
    apply negb_true_iff in C1, C2. rewrite (plain_lits pat C1 C2), tmatch_lits. reflexivity. }
  destruct (is_prefix_pattern pat) eqn:P.
  { apply prefix_shape in P as (pre & -> & H1 & H2).
    rewrite (trim_prefix_shape PCT pre H1), map_app, (plain_lits pre H1 H2).
    cbn [map rewrite_sem]. change (tok_plain PCT) with TMany. rewrite (tmatch_prefix dot pre s D). reflexivity. }
  destruct (is_suffix_pattern pat) eqn:S.
  { apply suffix_shape in S as (r & -> & H1 & H2).
    rewrite (trim_suffix_shape PCT r H1). cbn [map rewrite_sem]. change (tok_plain PCT) with TMany.
    rewrite (plain_lits r H1 H2), (tmatch_suffix dot r s D). reflexivity. }
  destruct (is_contains_pattern pat) eqn:K; [|exact I].
  apply contains_shape in K as (sub & -> & H1 & H2).
  rewrite (trim_contains_shape PCT sub H1). cbn [map rewrite_sem]. rewrite map_app.
  cbn [map]. change (tok_plain PCT) with TMany.
  rewrite (plain_lits sub H1 H2), (tmatch_contains dot sub s D). reflexivity.
Qed.

Lemma forallb_dot_regex s : forallb dot_regex s = true.
Proof. induction s as [|x s IH]; [reflexivity|]. cbn [forallb]. rewrite IH. reflexivity. Qed.

(* full strength: whatever the optimizer does to a constant pattern accepts exactly the strings
   the general matcher accepts.  A pattern containing '\' is left alone (RKeep). *)
Lemma like_rewrite_equiv pat s : rewrite_sem (classify pat) s = like_regex pat s.
Proof.
  destruct (has BSL pat) eqn:HB.
  { unfold classify. rewrite HB. reflexivity. }
  assert (B : no_bsl pat = true) by (unfold no_bsl; rewrite HB; reflexivity).
  pose proof (rewrite_equiv_dot dot_regex pat s B (forallb_dot_regex s)) as H.
  unfold like_regex. destruct (classify pat) eqn:C; try exact H.
  unfold classify in C. rewrite HB in C.
  destruct (can_str_compare pat); [discriminate|]. destruct (is_prefix_pattern pat); [discriminate|].
  destruct (is_suffix_pattern pat); [discriminate|]. destruct (is_contains_pattern pat); [discriminate|].
  inversion C; subst. reflexivity.
Qed.

Lemma like_rewrite_is_like pat s : rewrite_sem (classify pat) s = like_spec pat s.
Proof. rewrite like_rewrite_equiv. apply like_matcher_is_like. Qed.

Lemma escape_pattern_kept pat : has BSL pat = true -> classify pat = RKeep pat.
Proof. intros H. unfold classify. rewrite H. reflexivity. Qed.

(* regression witnesses: the definitions before 243b792b2 / 41580d7d1 fail on these inputs *)
Lemma old_like_matcher_refuted : exists pat s, Old.like_regex pat s <> like_spec pat s.
Proof. exists [37], [97; 10; 98]. vm_compute. discriminate. Qed.
Lemma old_like_rewrite_refuted_backslash :   (* 'ab' LIKE 'a\b' *)
  exists pat s, no_nl s = true /\ Old.rewrite_sem (Old.classify pat) s <> Old.like_regex pat s.
Proof. exists [97; 92; 98], [97; 98]. split; [reflexivity|]. vm_compute. discriminate. Qed.
Lemma old_like_rewrite_refuted_newline :     (* 'a\nb' LIKE '%' *)
  exists pat s, no_bsl pat = true /\ Old.rewrite_sem (Old.classify pat) s <> Old.like_regex pat s.
Proof. exists [37], [97; 10; 98]. split; [reflexivity|]. vm_compute. discriminate. Qed.

(* the byte-level tests of like.rs see the same '%', '_', '\' as the code-point tests *)
Lemma has_ascii_bytes a cs : a < 0x80 -> has a (encode cs) = has a cs.
Proof.
  intros A. apply eq_true_iff_eq. unfold has. rewrite !existsb_exists.
  split; intros (x & I & E); apply N.eqb_eq in E; subst x.
  - exists a. split; [apply (Utf8Proofs.ascii_in_encode a cs A), I|apply N.eqb_refl].
  - exists a. split; [apply (Utf8Proofs.ascii_in_encode a cs A), I|apply N.eqb_refl].
Qed.
