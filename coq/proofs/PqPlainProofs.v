(* Round trips and read splits of the non-delta Parquet value encodings of model/PqDelta.v:
   PLAIN (fixed width, byte arrays, booleans), BYTE_STREAM_SPLIT, and DELTA_LENGTH_BYTE_ARRAY /
   DELTA_BYTE_ARRAY relative to the DELTA_BINARY_PACKED length-prefix round trip. *)
From Coq Require Import NArith ZArith List Bool Lia ZifyBool ZifyNat ZifyN.
From GV Require Import model.PqBits model.PqDelta proofs.PqBitsProofs.
Import ListNotations.
Local Open Scope N_scope.

(* ---------- generic helpers ---------- *)

Lemma flat_map_map_comp {A B C} (f : B -> list C) (g : A -> B) (l : list A) :
  flat_map f (map g l) = flat_map (fun x => f (g x)) l.
Proof.
  induction l as [|x l IH]; cbn [map flat_map]; [reflexivity|]. rewrite IH. reflexivity.
Qed.

(* take_bytes is total up to OOB: a closed form *)
Lemma take_bytes_char k : forall buf,
  take_bytes k buf = if Nat.leb k (length buf) then Ok (firstn k buf, skipn k buf) else OOB.
Proof.
  induction k as [|k IH]; intros buf.
  - cbn [take_bytes Nat.leb firstn skipn]. reflexivity.
  - destruct buf as [|b r]; cbn [take_bytes length Nat.leb firstn skipn]; [reflexivity|].
    rewrite IH. destruct (Nat.leb k (length r)); reflexivity.
Qed.

Lemma take_bytes_split n1 n2 buf :
  take_bytes (n1 + n2) buf =
  ('(a, b1) <- take_bytes n1 buf ;; '(b, b2) <- take_bytes n2 b1 ;; Ok (a ++ b, b2)).
Proof.
  revert buf. induction n1 as [|k IH]; intros buf.
  - cbn [Nat.add take_bytes bind app].
    destruct (take_bytes n2 buf) as [[b b2]| | |]; reflexivity.
  - cbn [Nat.add take_bytes]. destruct buf as [|x r]; [reflexivity|].
    rewrite IH.
    destruct (take_bytes k r) as [[a b1]| | |]; cbn [bind]; try reflexivity.
    destruct (take_bytes n2 b1) as [[b b2]| | |]; reflexivity.
Qed.

(* ---------- 1. PLAIN, fixed width ---------- *)

Theorem plain_num_roundtrip : forall w vals rest,
  Forall (fun v => v < 256 ^ N.of_nat w) vals ->
  plain_decode_num w (length vals) (flat_map (fun v => le_bytes w v) vals ++ rest) = Ok (vals, rest).
Proof.
  intros w vals rest Hvals.
  induction Hvals as [|v vs Hv Hvs IH]; cbn [length flat_map plain_decode_num app]; [reflexivity|].
  rewrite <- app_assoc.
  pose proof (take_bytes_app (le_bytes w v) (flat_map (fun v0 => le_bytes w v0) vs ++ rest)) as Ht.
  rewrite le_bytes_length in Ht. rewrite Ht. cbn [bind].
  rewrite IH. cbn [bind]. rewrite (le_num_le_bytes w v Hv). reflexivity.
Qed.

Example plain_num_roundtrip_ex :
  Forall (fun v => v < 256 ^ N.of_nat 4) [1; 70000; 4294967295] /\
  plain_decode_num 4 3 (flat_map (fun v => le_bytes 4 v) [1; 70000; 4294967295] ++ [9])
  = Ok ([1; 70000; 4294967295], [9]).
Proof. split; [repeat constructor|vm_compute; reflexivity]. Qed.

Definition fixed_width (t : ptype) : Prop :=
  match t with PInt32 | PInt64 | PFloat | PDouble | PInt96 => True | _ => False end.

Lemma plain_encode_fixed t vals : fixed_width t ->
  plain_encode t (map VNum vals) = flat_map (fun v => le_bytes (num_bytes t) v) vals.
Proof.
  intros Ht. destruct t; cbn [fixed_width] in Ht; try contradiction;
    unfold plain_encode; rewrite flat_map_map_comp; reflexivity.
Qed.

Theorem plain_encode_num_roundtrip : forall t vals rest,
  fixed_width t ->
  Forall (fun v => v < 256 ^ N.of_nat (num_bytes t)) vals ->
  plain_decode_num (num_bytes t) (length vals) (plain_encode t (map VNum vals) ++ rest) = Ok (vals, rest).
Proof.
  intros t vals rest Ht Hvals. rewrite (plain_encode_fixed t vals Ht).
  apply plain_num_roundtrip. exact Hvals.
Qed.

Example plain_encode_num_roundtrip_ex :
  fixed_width PInt96 /\ Forall (fun v => v < 256 ^ N.of_nat (num_bytes PInt96)) [5; 2 ^ 95] /\
  plain_decode_num (num_bytes PInt96) 2 (plain_encode PInt96 (map VNum [5; 2 ^ 95]) ++ [1]) = Ok ([5; 2 ^ 95], [1]).
Proof. split; [exact I|]. split; [repeat constructor|vm_compute; reflexivity]. Qed.

Theorem plain_decode_num_split : forall w n1 n2 buf,
  plain_decode_num w (n1 + n2) buf =
  ('(v1, b1) <- plain_decode_num w n1 buf ;;
   '(v2, b2) <- plain_decode_num w n2 b1 ;; Ok (v1 ++ v2, b2)).
Proof.
  intros w n1 n2. induction n1 as [|k IH]; intros buf.
  - cbn [Nat.add plain_decode_num bind app].
    destruct (plain_decode_num w n2 buf) as [[v2 b2]| | |]; reflexivity.
  - cbn [Nat.add plain_decode_num].
    destruct (take_bytes w buf) as [[bs b1]| | |]; cbn [bind]; try reflexivity.
    rewrite IH.
    destruct (plain_decode_num w k b1) as [[v1 b1']| | |]; cbn [bind]; try reflexivity.
    destruct (plain_decode_num w n2 b1') as [[v2 b2]| | |]; reflexivity.
Qed.

(* ---------- 2. PLAIN, byte arrays ---------- *)

Lemma take_checked_app bs rest : take_checked (length bs) (bs ++ rest) = Ok (bs, rest).
Proof.
  unfold take_checked.
  destruct (Nat.ltb (length (bs ++ rest)) (length bs)) eqn:Hlt.
  - apply Nat.ltb_lt in Hlt. rewrite app_length in Hlt. lia.
  - apply take_bytes_app.
Qed.

Lemma plain_encode_bytes vals :
  plain_encode PByteArray (map VBytes vals)
  = flat_map (fun v => le_bytes 4 (N.of_nat (length v)) ++ v) vals.
Proof. unfold plain_encode. rewrite flat_map_map_comp. reflexivity. Qed.

Theorem plain_bytes_roundtrip : forall vals rest,
  Forall (fun v => N.of_nat (length v) < 2 ^ 32) vals ->
  plain_decode_bytes (length vals) (plain_encode PByteArray (map VBytes vals) ++ rest) = Ok (vals, rest).
Proof.
  intros vals rest Hvals. rewrite plain_encode_bytes.
  induction Hvals as [|v vs Hv Hvs IH]; cbn [length flat_map plain_decode_bytes app]; [reflexivity|].
  rewrite <- !app_assoc.
  pose proof (take_checked_app (le_bytes 4 (N.of_nat (length v)))
                (v ++ flat_map (fun v0 => le_bytes 4 (N.of_nat (length v0)) ++ v0) vs ++ rest)) as Ht.
  rewrite le_bytes_length in Ht. rewrite Ht. cbn [bind].
  rewrite le_num_le_bytes by (change (256 ^ N.of_nat 4) with (2 ^ 32); exact Hv).
  rewrite Nat2N.id, take_checked_app. cbn [bind].
  rewrite IH. reflexivity.
Qed.

Example plain_bytes_roundtrip_ex :
  Forall (fun v => N.of_nat (length v) < 2 ^ 32) [[1; 2; 3]; []; [255]] /\
  plain_decode_bytes 3 (plain_encode PByteArray (map VBytes [[1; 2; 3]; []; [255]]) ++ [7])
  = Ok ([[1; 2; 3]; []; [255]], [7]).
Proof. split; [repeat constructor|vm_compute; reflexivity]. Qed.

Theorem plain_decode_bytes_split : forall n1 n2 buf,
  plain_decode_bytes (n1 + n2) buf =
  ('(v1, b1) <- plain_decode_bytes n1 buf ;;
   '(v2, b2) <- plain_decode_bytes n2 b1 ;; Ok (v1 ++ v2, b2)).
Proof.
  intros n1 n2. induction n1 as [|k IH]; intros buf.
  - cbn [Nat.add plain_decode_bytes bind app].
    destruct (plain_decode_bytes n2 buf) as [[v2 b2]| | |]; reflexivity.
  - cbn [Nat.add plain_decode_bytes].
    destruct (take_checked 4 buf) as [[lb b1]| | |]; cbn [bind]; try reflexivity.
    destruct (take_checked (N.to_nat (le_num lb)) b1) as [[bs b2]| | |]; cbn [bind]; try reflexivity.
    rewrite IH.
    destruct (plain_decode_bytes k b2) as [[v1 b1']| | |]; cbn [bind]; try reflexivity.
    destruct (plain_decode_bytes n2 b1') as [[v2 b2']| | |]; reflexivity.
Qed.

(* ---------- 3. PLAIN, booleans ---------- *)

Lemma plain_encode_bool vals : plain_encode PBool (map VNum vals) = bitpack 1 vals.
Proof.
  unfold plain_encode. rewrite map_map. cbn [pnum]. rewrite map_id. reflexivity.
Qed.

Theorem plain_bool_roundtrip : forall vals rest n,
  Forall (fun v => v < 2) vals -> bytes_ok rest -> (n <= length vals)%nat ->
  exists buf' pos',
    plain_decode_bool n (plain_encode PBool (map VNum vals) ++ rest) 0 = Ok (firstn n vals, buf', pos').
Proof.
  intros vals rest n Hvals Hrest Hn. rewrite plain_encode_bool. unfold plain_decode_bool.
  apply bitpack_prefix.
  - lia.
  - lia.
  - exact Hvals.
  - exact Hrest.
  - exact Hn.
Qed.

(* a whole number of bytes: the cursor ends exactly at `rest` *)
Theorem plain_bool_roundtrip_full : forall vals rest,
  Forall (fun v => v < 2) vals -> bytes_ok rest -> (N.of_nat (length vals)) mod 8 = 0 ->
  plain_decode_bool (length vals) (plain_encode PBool (map VNum vals) ++ rest) 0 = Ok (vals, rest, 0).
Proof.
  intros vals rest Hvals Hrest Hmod. rewrite plain_encode_bool. unfold plain_decode_bool.
  apply bitpack_roundtrip.
  - lia.
  - lia.
  - exact Hvals.
  - exact Hrest.
  - rewrite N.mul_1_l. exact Hmod.
Qed.

Example plain_bool_roundtrip_full_ex :
  Forall (fun v => v < 2) [1; 0; 1; 1; 0; 0; 0; 1] /\ bytes_ok [200] /\ N.of_nat 8 mod 8 = 0 /\
  plain_decode_bool 8 (plain_encode PBool (map VNum [1; 0; 1; 1; 0; 0; 0; 1]) ++ [200]) 0
  = Ok ([1; 0; 1; 1; 0; 0; 0; 1], [200], 0).
Proof.
  split; [repeat constructor|]. split; [repeat constructor|]. split; vm_compute; reflexivity.
Qed.

Example plain_bool_roundtrip_ex :
  Forall (fun v => v < 2) [1; 0; 1; 1; 0; 0; 0; 1; 1; 0] /\ bytes_ok [200] /\
  plain_decode_bool 9 (plain_encode PBool (map VNum [1; 0; 1; 1; 0; 0; 0; 1; 1; 0]) ++ [200]) 0
  = Ok ([1; 0; 1; 1; 0; 0; 0; 1; 1], [1; 200], 1).
Proof.
  split; [repeat constructor|]. split; [repeat constructor|]. vm_compute. reflexivity.
Qed.

Theorem plain_decode_bool_split : forall n1 n2 buf pos,
  plain_decode_bool (n1 + n2) buf pos =
  ('(v1, b1, p1) <- plain_decode_bool n1 buf pos ;;
   '(v2, b2, p2) <- plain_decode_bool n2 b1 p1 ;; Ok (v1 ++ v2, b2, p2)).
Proof. intros n1 n2 buf pos. unfold plain_decode_bool. apply bit_unpack_split. Qed.

(* ---------- 4. BYTE_STREAM_SPLIT ---------- *)

Definition bss_byte (i : nat) (v : N) : N := (v / 256 ^ N.of_nat i) mod 256.
Definition bss_cols (s k : nat) (vals : list N) : list (list N) :=
  map (fun i => map (bss_byte i) vals) (seq s k).

Lemma bss_encode_cols k vals : bss_encode k vals = concat (bss_cols 0 k vals).
Proof. unfold bss_encode, bss_cols. rewrite flat_map_concat_map. reflexivity. Qed.

Lemma bss_cols_length s k vals : length (bss_cols s k vals) = k.
Proof. unfold bss_cols. rewrite map_length, seq_length. reflexivity. Qed.

Lemma bss_cols_each s k vals : Forall (fun c => length c = length vals) (bss_cols s k vals).
Proof.
  unfold bss_cols. apply Forall_forall. intros c Hc.
  apply in_map_iff in Hc. destruct Hc as (i & Hi & _). subst c. apply map_length.
Qed.

Lemma concat_length_const {A} (n : nat) (cols : list (list A)) :
  Forall (fun c => length c = n) cols -> length (concat cols) = (length cols * n)%nat.
Proof.
  intros H. induction H as [|c cs Hc Hcs IH]; cbn [concat length]; [reflexivity|].
  rewrite app_length, IH, Hc. cbn [Nat.mul]. reflexivity.
Qed.

Lemma bss_encode_length k vals : length (bss_encode k vals) = (k * length vals)%nat.
Proof.
  rewrite bss_encode_cols, (concat_length_const (length vals)) by apply bss_cols_each.
  rewrite bss_cols_length. reflexivity.
Qed.

Lemma bss_streams_concat total cols : Forall (fun c => length c = total) cols ->
  bss_streams (length cols) total (concat cols) = cols.
Proof.
  intros H. induction H as [|c cs Hc Hcs IH]; cbn [concat length bss_streams]; [reflexivity|].
  subst total.
  rewrite firstn_app, firstn_all, Nat.sub_diag, skipn_app, skipn_all, Nat.sub_diag.
  cbn [firstn skipn app]. rewrite app_nil_r, IH. reflexivity.
Qed.

Lemma bss_take_char n : forall streams,
  bss_take n streams =
  if forallb (fun s => Nat.leb n (length s)) streams
  then Ok (map (firstn n) streams, map (skipn n) streams) else OOB.
Proof.
  induction streams as [|st r IH]; cbn [bss_take forallb map]; [reflexivity|].
  rewrite take_bytes_char.
  destruct (Nat.leb n (length st)); cbn [bind andb]; [|reflexivity].
  rewrite IH. destruct (forallb (fun s => Nat.leb n (length s)) r); reflexivity.
Qed.

Lemma bss_take_all n cols : Forall (fun c => length c = n) cols ->
  bss_take n cols = Ok (cols, map (fun _ => []) cols).
Proof.
  intros H. induction H as [|c cs Hc Hcs IH]; cbn [bss_take map]; [reflexivity|].
  subst n. pose proof (take_bytes_app c []) as Ht. rewrite app_nil_r in Ht.
  rewrite Ht. cbn [bind]. rewrite IH. reflexivity.
Qed.

(* the bytes of v, least significant first *)
Lemma bss_bytes_le_bytes v k : forall s,
  map (fun i => bss_byte i v) (seq s k) = le_bytes k (v / 256 ^ N.of_nat s).
Proof.
  induction k as [|k IH]; intros s; cbn [seq map le_bytes]; [reflexivity|].
  rewrite IH. unfold bss_byte at 1. f_equal.
  rewrite pow256_S, N.div_div, (N.mul_comm 256).
  - reflexivity.
  - apply N.pow_nonzero. lia.
  - lia.
Qed.

Lemma zip_vals_cols k : forall vals, Forall (fun v => v < 256 ^ N.of_nat k) vals ->
  zip_vals (length vals) (bss_cols 0 k vals) = vals.
Proof.
  intros vals H. induction H as [|v vs Hv Hvs IH]; cbn [length zip_vals]; [reflexivity|].
  unfold bss_cols. rewrite !map_map. cbn [map hd tl].
  rewrite (bss_bytes_le_bytes v k 0). change (256 ^ N.of_nat 0) with 1. rewrite N.div_1_r.
  rewrite (le_num_le_bytes k v Hv). f_equal. exact IH.
Qed.

(* (the statement is also true for k = 0, where the bound forces every value to be 0; the
   hypothesis 0 < k is kept because a zero-width BYTE_STREAM_SPLIT column does not exist) *)
Theorem bss_roundtrip : forall k vals,
  (0 < k)%nat -> Forall (fun v => v < 256 ^ N.of_nat k) vals ->
  exists st',
    bss_new k (bss_encode k vals) = Ok (bss_streams k (length vals) (bss_encode k vals)) /\
    bss_read (length vals) (bss_streams k (length vals) (bss_encode k vals)) = Ok (vals, st').
Proof.
  intros k vals Hk Hvals.
  exists (map (fun _ => []) (bss_cols 0 k vals)). split.
  - unfold bss_new. rewrite bss_encode_length, Nat.mul_comm, Nat.mod_mul by lia.
    cbn [Nat.eqb]. rewrite Nat.div_mul by lia. reflexivity.
  - rewrite bss_encode_cols.
    pose proof (bss_streams_concat (length vals) (bss_cols 0 k vals) (bss_cols_each 0 k vals)) as Hs.
    rewrite bss_cols_length in Hs. rewrite Hs.
    unfold bss_read. rewrite (bss_take_all _ _ (bss_cols_each 0 k vals)). cbn [bind].
    rewrite (zip_vals_cols k vals Hvals). reflexivity.
Qed.

(* the streams are exactly the byte columns and nothing is left *)
Theorem bss_roundtrip_streams : forall k vals,
  bss_streams k (length vals) (bss_encode k vals) = bss_cols 0 k vals.
Proof.
  intros k vals. rewrite bss_encode_cols.
  pose proof (bss_streams_concat (length vals) (bss_cols 0 k vals) (bss_cols_each 0 k vals)) as Hs.
  rewrite bss_cols_length in Hs. exact Hs.
Qed.

Example bss_roundtrip_ex :
  (0 < 4)%nat /\ Forall (fun v => v < 256 ^ N.of_nat 4) [1; 70000; 4294967295] /\
  bss_new 4 (bss_encode 4 [1; 70000; 4294967295])
  = Ok (bss_streams 4 3 (bss_encode 4 [1; 70000; 4294967295])) /\
  bss_read 3 (bss_streams 4 3 (bss_encode 4 [1; 70000; 4294967295]))
  = Ok ([1; 70000; 4294967295], [[]; []; []; []]).
Proof.
  split; [lia|]. split; [repeat constructor|]. split; vm_compute; reflexivity.
Qed.

(* read split: holds for every stream list (also the empty one, where both sides yield zeros),
   every outcome: bss_take can only fail with OOB, and does so iff some stream is shorter than n *)
Lemma skipn_tl {A} n (c : list A) : skipn n (tl c) = skipn (S n) c.
Proof. destruct c as [|x r]; cbn [tl skipn]; [destruct n; reflexivity|reflexivity]. Qed.

Lemma skipn_add {A} n1 n2 : forall c : list A, skipn n2 (skipn n1 c) = skipn (n1 + n2) c.
Proof.
  induction n1 as [|k IH]; intros c; [reflexivity|].
  destruct c as [|x r]; cbn [Nat.add skipn]; [destruct n2; reflexivity|apply IH].
Qed.

Lemma zip_vals_app n1 n2 : forall cols,
  zip_vals (n1 + n2) cols = zip_vals n1 cols ++ zip_vals n2 (map (skipn n1) cols).
Proof.
  induction n1 as [|k IH]; intros cols.
  - cbn [Nat.add zip_vals app]. replace (map (skipn 0) cols) with cols; [reflexivity|].
    symmetry. erewrite map_ext; [apply map_id|]. intros c. reflexivity.
  - cbn [Nat.add zip_vals app]. f_equal. rewrite IH. f_equal. f_equal.
    rewrite map_map. apply map_ext. intros c. apply skipn_tl.
Qed.

Lemma zip_vals_firstn n : forall m cols, (n <= m)%nat ->
  zip_vals n (map (firstn m) cols) = zip_vals n cols.
Proof.
  induction n as [|k IH]; intros m cols Hm; cbn [zip_vals]; [reflexivity|].
  destruct m as [|m]; [lia|].
  rewrite !map_map. f_equal.
  - f_equal. apply map_ext. intros c. destruct c; reflexivity.
  - rewrite <- (IH m (map (@tl N) cols)) by lia. rewrite map_map. f_equal.
    apply map_ext. intros c. destruct c as [|x r]; cbn [firstn tl]; [destruct m; reflexivity|reflexivity].
Qed.

Lemma forallb_take_split n1 n2 (streams : list (list N)) :
  forallb (fun s => Nat.leb (n1 + n2) (length s)) streams =
  forallb (fun s => Nat.leb n1 (length s)) streams
  && forallb (fun s => Nat.leb n2 (length s)) (map (skipn n1) streams).
Proof.
  induction streams as [|st r IH]; cbn [forallb map]; [reflexivity|].
  rewrite IH, skipn_length.
  destruct (Nat.leb (n1 + n2) (length st)) eqn:H12;
  destruct (Nat.leb n1 (length st)) eqn:H1;
  destruct (Nat.leb n2 (length st - n1)) eqn:H2;
  try apply Nat.leb_le in H12; try apply Nat.leb_le in H1; try apply Nat.leb_le in H2;
  try apply Nat.leb_gt in H12; try apply Nat.leb_gt in H1; try apply Nat.leb_gt in H2;
  try lia; cbn [andb];
  try reflexivity;
  destruct (forallb (fun s => Nat.leb n1 (length s)) r); reflexivity.
Qed.

Theorem bss_read_split : forall n1 n2 st,
  bss_read (n1 + n2) st =
  ('(v1, s1) <- bss_read n1 st ;; '(v2, s2) <- bss_read n2 s1 ;; Ok (v1 ++ v2, s2)).
Proof.
  intros n1 n2 st. unfold bss_read. rewrite !bss_take_char, forallb_take_split.
  destruct (forallb (fun s => Nat.leb n1 (length s)) st) eqn:H1; cbn [andb bind]; [|reflexivity].
  rewrite bss_take_char.
  destruct (forallb (fun s => Nat.leb n2 (length s)) (map (skipn n1) st)) eqn:H2; cbn [bind]; [|reflexivity].
  f_equal. f_equal.
  - rewrite zip_vals_app. f_equal.
    + rewrite !zip_vals_firstn by lia. reflexivity.
    + rewrite !map_map. f_equal. apply map_ext. intros c.
      symmetry. apply firstn_skipn_comm.
  - rewrite map_map. apply map_ext. intros c. symmetry. apply skipn_add.
Qed.

(* ---------- 5. DELTA_LENGTH_BYTE_ARRAY / DELTA_BYTE_ARRAY ---------- *)

(* 5a. every byte of a DELTA_BINARY_PACKED stream is a byte (needed because the DELTA_BYTE_ARRAY
   prefix lengths are followed by a second DELTA_BINARY_PACKED stream) *)
Lemma Forall_flat_map_intro {A B} (P : B -> Prop) (f : A -> list B) (l : list A) :
  (forall x, In x l -> Forall P (f x)) -> Forall P (flat_map f l).
Proof.
  induction l as [|x l IH]; intros H; cbn [flat_map]; [constructor|].
  apply Forall_app. split.
  - apply H. left. reflexivity.
  - apply IH. intros y Hy. apply H. right. exact Hy.
Qed.

Lemma Forall_map_intro {A B} (P : B -> Prop) (f : A -> B) (l : list A) :
  (forall x, In x l -> P (f x)) -> Forall P (map f l).
Proof.
  intros H. apply Forall_forall. intros y Hy. apply in_map_iff in Hy.
  destruct Hy as (x & Hx & Hin). subst y. apply H. exact Hin.
Qed.

Lemma Forall_repeat {A} (P : A -> Prop) (x : A) n : P x -> Forall P (repeat x n).
Proof. intros Hx. induction n as [|n IH]; cbn [repeat]; constructor; assumption. Qed.

Lemma Forall_firstn {A} (P : A -> Prop) n : forall l, Forall P l -> Forall P (firstn n l).
Proof.
  induction n as [|n IH]; intros l H; cbn [firstn]; [constructor|].
  destruct H as [|x l Hx Hl]; constructor; [exact Hx|apply IH; exact Hl].
Qed.

Lemma Forall_skipn {A} (P : A -> Prop) n : forall l, Forall P l -> Forall P (skipn n l).
Proof.
  induction n as [|n IH]; intros l H; cbn [skipn]; [exact H|].
  destruct H as [|x l Hx Hl]; [constructor|apply IH; exact Hl].
Qed.

Lemma chunks_Forall {A} (P : A -> Prop) k fuel : forall xs, Forall P xs ->
  Forall (Forall P) (chunks fuel k xs).
Proof.
  induction fuel as [|f IH]; intros xs H; cbn [chunks]; [constructor|].
  destruct xs as [|x r]; [constructor|]. constructor.
  - apply Forall_firstn. exact H.
  - apply IH. apply Forall_skipn. exact H.
Qed.

Lemma of_signed_lt bits z : of_signed bits z < 2 ^ bits.
Proof.
  unfold of_signed.
  assert (Hp : (0 < 2 ^ Z.of_N bits)%Z) by (apply Z.pow_pos_nonneg; lia).
  pose proof (Z.mod_pos_bound z (2 ^ Z.of_N bits) Hp) as Hb.
  apply N2Z.inj_lt. rewrite Z2N.id by apply Hb. rewrite N2Z.inj_pow. apply Hb.
Qed.

Lemma nmax_list_lt B : forall xs a, a < B -> Forall (fun x => x < B) xs -> fold_left N.max xs a < B.
Proof.
  induction xs as [|x r IH]; intros a Ha H; cbn [fold_left]; [exact Ha|].
  inversion H as [|x' r' Hx Hr]; subst. apply IH; [|exact Hr]. clear - Ha Hx. lia.
Qed.

Lemma size_le_bits bits x : x < 2 ^ bits -> N.size x <= bits.
Proof.
  intros Hx. destruct (N.eq_dec x 0) as [H0|H0]; [subst x; cbn [N.size]; lia|].
  rewrite N.size_log2 by exact H0.
  assert (Hl : N.log2 x < bits) by (apply N.log2_lt_pow2; [lia|exact Hx]).
  clear - Hl. lia.
Qed.

Lemma dbp_block_bytes_ok bits mbc per blk : bits < 256 -> bytes_ok (dbp_block bits mbc per blk).
Proof.
  intros Hbits. unfold dbp_block, bytes_ok.
  set (rel := map _ blk).
  assert (Hrel : Forall (fun x => x < 2 ^ bits) rel).
  { apply Forall_map_intro. intros d _. apply of_signed_lt. }
  pose proof (chunks_Forall _ per mbc rel Hrel) as Hmbs.
  apply Forall_app. split; [apply vlq_encode_bytes|].
  apply Forall_app. split.
  - apply Forall_map_intro. intros mb Hmb.
    rewrite Forall_forall in Hmbs. specialize (Hmbs mb Hmb).
    assert (Hmx : nmax_list mb < 2 ^ bits).
    { apply nmax_list_lt; [apply pow2_pos|exact Hmbs]. }
    pose proof (size_le_bits bits _ Hmx) as Hs. clear - Hs Hbits. lia.
  - apply Forall_app. split.
    + apply Forall_repeat. lia.
    + apply Forall_flat_map_intro. intros mb _. apply le_bytes_bytes.
Qed.

Lemma dbp_encode_bytes_ok bits block mbc vals : bits < 256 -> bytes_ok (dbp_encode bits block mbc vals).
Proof.
  intros Hbits. unfold dbp_encode, bytes_ok.
  repeat (apply Forall_app; split; [apply vlq_encode_bytes|]).
  apply Forall_flat_map_intro. intros blk _. apply dbp_block_bytes_ok. exact Hbits.
Qed.

(* 5b. list facts *)
Lemma Forall_concat_intro {A} (P : A -> Prop) (ls : list (list A)) :
  Forall (Forall P) ls -> Forall P (concat ls).
Proof.
  intros H. induction H as [|l r Hl Hr IH]; cbn [concat]; [constructor|].
  apply Forall_app. split; assumption.
Qed.

Lemma in_concat_length {A} (v : list A) : forall vals, In v vals ->
  (length v <= length (concat vals))%nat.
Proof.
  induction vals as [|x r IH]; intros Hin; [destruct Hin|].
  cbn [concat]. rewrite app_length. destruct Hin as [Hx|Hr].
  - subst x. lia.
  - specialize (IH Hr). lia.
Qed.

Lemma sum_lens : forall (vals : list (list N)) a,
  fold_left N.add (map (fun v => N.of_nat (length v)) vals) a = a + N.of_nat (length (concat vals)).
Proof.
  induction vals as [|v r IH]; intros a; cbn [map fold_left concat length].
  - lia.
  - rewrite IH, app_length. lia.
Qed.

Lemma split_lens_concat : forall (vals : list (list N)) rest,
  split_lens (map (fun v => N.of_nat (length v)) vals) (concat vals ++ rest) = Ok vals.
Proof.
  induction vals as [|v r IH]; intros rest; cbn [map split_lens concat]; [reflexivity|].
  rewrite Nat2N.id, <- app_assoc, take_bytes_app. cbn [bind]. rewrite IH. reflexivity.
Qed.

Lemma common_prefix_le : forall a b,
  (common_prefix a b <= length a)%nat /\ (common_prefix a b <= length b)%nat.
Proof.
  induction a as [|x a IH]; intros b; cbn [common_prefix length]; [lia|].
  destruct b as [|y b]; cbn [length]; [lia|].
  destruct (x =? y); [|lia]. specialize (IH b). lia.
Qed.

Lemma common_prefix_firstn_skipn : forall a b,
  firstn (common_prefix a b) a ++ skipn (common_prefix a b) b = b.
Proof.
  induction a as [|x a IH]; intros b; cbn [common_prefix]; [reflexivity|].
  destruct b as [|y b]; [reflexivity|].
  destruct (x =? y) eqn:Hxy; [|reflexivity].
  apply N.eqb_eq in Hxy. subst y. cbn [firstn skipn app]. rewrite IH. reflexivity.
Qed.

Lemma dba_split_length : forall vals prev, length (dba_split prev vals) = length vals.
Proof.
  induction vals as [|v r IH]; intros prev; cbn [dba_split length]; [reflexivity|].
  rewrite IH. reflexivity.
Qed.

Lemma dba_split_bounds B : forall vals prev,
  Forall (fun v => N.of_nat (length v) < B) vals ->
  Forall (fun p => N.of_nat (fst p) < B /\ N.of_nat (length (snd p)) < B) (dba_split prev vals).
Proof.
  induction vals as [|v r IH]; intros prev H; cbn [dba_split]; [constructor|].
  inversion H as [|v' r' Hv Hr]; subst. constructor.
  - cbn [fst snd]. rewrite skipn_length.
    pose proof (common_prefix_le prev v) as [_ Hle]. clear - Hv Hle. lia.
  - apply IH. exact Hr.
Qed.

Lemma dba_split_bytes_ok : forall vals prev,
  Forall bytes_ok vals -> bytes_ok (flat_map snd (dba_split prev vals)).
Proof.
  induction vals as [|v r IH]; intros prev H; cbn [dba_split flat_map]; [constructor|].
  inversion H as [|v' r' Hv Hr]; subst. apply Forall_app. split.
  - cbn [snd]. apply Forall_skipn. exact Hv.
  - apply IH. exact Hr.
Qed.

Lemma dba_values_split : forall vals prev rest,
  dba_values prev
    (map (fun p => N.of_nat (fst p)) (dba_split prev vals))
    (map (fun p => N.of_nat (length (snd p))) (dba_split prev vals))
    (flat_map snd (dba_split prev vals) ++ rest) = Ok vals.
Proof.
  induction vals as [|v r IH]; intros prev rest; cbn [dba_split map dba_values flat_map]; [reflexivity|].
  cbn [fst snd]. rewrite <- app_assoc.
  destruct (N.of_nat (length (skipn (common_prefix prev v) v ++ flat_map snd (dba_split v r) ++ rest))
            <? N.of_nat (length (skipn (common_prefix prev v) v))) eqn:Hlt.
  - apply N.ltb_lt in Hlt. rewrite app_length in Hlt. lia.
  - rewrite !Nat2N.id, take_bytes_app. cbn [bind].
    rewrite common_prefix_firstn_skipn, IH. reflexivity.
Qed.

Section WithLengths.
  Variables (block mbc : N).
  Hypothesis lengths_roundtrip : forall lens rest,
    Forall (fun v => v < 2 ^ 32) lens -> N.of_nat (length lens) < 2 ^ 32 -> bytes_ok rest ->
    dbp_read_lengths (dbp_encode 32 block mbc lens ++ rest) = Ok (lens, rest).

  (* The per-value bound `length v < 2^31` of the task statement is not needed: the decoder's
     check `sum lens mod 2^32 = remaining bytes` only needs the TOTAL size below 2^32, which
     also bounds every single length. *)
  Theorem dlba_roundtrip : forall vals,
    Forall bytes_ok vals ->
    N.of_nat (length vals) < 2 ^ 32 ->
    N.of_nat (length (concat vals)) < 2 ^ 32 ->
    dlba_decode (dlba_encode block mbc vals) = Ok vals.
  Proof.
    intros vals Hbytes Hcount Htotal. unfold dlba_decode, dlba_encode.
    rewrite lengths_roundtrip.
    - cbn [bind]. rewrite sum_lens, N.add_0_l, (N.mod_small _ _ Htotal), N.eqb_refl.
      pose proof (split_lens_concat vals []) as Hs. rewrite app_nil_r in Hs. exact Hs.
    - apply Forall_map_intro. intros v Hv.
      pose proof (in_concat_length v vals Hv) as Hle. clear - Hle Htotal. lia.
    - rewrite map_length. exact Hcount.
    - apply Forall_concat_intro. exact Hbytes.
  Qed.

  (* DELTA_BYTE_ARRAY: the decoder has no total-size check; every value (hence every prefix and
     suffix length) below 2^32 and the value count below 2^32 suffice. *)
  Theorem dba_roundtrip : forall vals,
    Forall bytes_ok vals ->
    Forall (fun v => N.of_nat (length v) < 2 ^ 32) vals ->
    N.of_nat (length vals) < 2 ^ 32 ->
    dba_decode (dba_encode block mbc vals) = Ok vals.
  Proof.
    intros vals Hbytes Hlens Hcount. unfold dba_decode, dba_encode. cbv zeta.
    pose proof (dba_split_bounds (2 ^ 32) vals [] Hlens) as Hb.
    rewrite Forall_forall in Hb.
    rewrite lengths_roundtrip.
    - cbn [bind]. rewrite lengths_roundtrip.
      + cbn [bind]. rewrite !map_length, Nat.eqb_refl. cbn [negb].
        pose proof (dba_values_split vals [] []) as Hv. rewrite app_nil_r in Hv. exact Hv.
      + apply Forall_map_intro. intros p Hp. apply (Hb p Hp).
      + rewrite map_length, dba_split_length. exact Hcount.
      + apply dba_split_bytes_ok. exact Hbytes.
    - apply Forall_map_intro. intros p Hp. apply (Hb p Hp).
    - rewrite map_length, dba_split_length. exact Hcount.
    - apply Forall_app. split.
      + apply dbp_encode_bytes_ok. lia.
      + apply dba_split_bytes_ok. exact Hbytes.
  Qed.
End WithLengths.

(* the hypotheses are satisfiable (and the `lengths_roundtrip` premise holds on the instances used) *)
Example dlba_roundtrip_ex :
  let vals := [[1; 2; 3]; [1; 2; 4; 5]; []; [1; 2; 4; 5; 6]; [9]] in
  Forall bytes_ok vals /\ N.of_nat (length vals) < 2 ^ 32 /\ N.of_nat (length (concat vals)) < 2 ^ 32 /\
  dbp_read_lengths (dbp_encode 32 128 4 (map (fun v => N.of_nat (length v)) vals) ++ concat vals)
  = Ok (map (fun v => N.of_nat (length v)) vals, concat vals) /\
  dlba_decode (dlba_encode 128 4 vals) = Ok vals.
Proof.
  cbv zeta. split; [repeat constructor|]. split; [reflexivity|]. split; [reflexivity|].
  split; vm_compute; reflexivity.
Qed.

Example dba_roundtrip_ex :
  let vals := [[1; 2; 3]; [1; 2; 4; 5]; []; [1; 2; 4; 5; 6]; [9]] in
  Forall bytes_ok vals /\ Forall (fun v => N.of_nat (length v) < 2 ^ 32) vals /\
  N.of_nat (length vals) < 2 ^ 32 /\
  dba_split [] vals = [(0%nat, [1; 2; 3]); (2%nat, [4; 5]); (0%nat, []); (0%nat, [1; 2; 4; 5; 6]); (0%nat, [9])] /\
  dba_decode (dba_encode 128 4 vals) = Ok vals.
Proof.
  cbv zeta. split; [repeat constructor|]. split; [repeat constructor|]. split; [reflexivity|].
  split; vm_compute; reflexivity.
Qed.

(* the premise cannot hold for mbc = 0 (the decoder panics), so the two theorems are vacuous there *)
Example lengths_premise_mbc0 : dbp_read_lengths (dbp_encode 32 128 0 [5] ++ []) = Err.
Proof. vm_compute. reflexivity. Qed.

Print Assumptions plain_num_roundtrip.
Print Assumptions plain_encode_num_roundtrip.
Print Assumptions plain_decode_num_split.
Print Assumptions plain_bytes_roundtrip.
Print Assumptions plain_decode_bytes_split.
Print Assumptions plain_bool_roundtrip.
Print Assumptions plain_bool_roundtrip_full.
Print Assumptions plain_decode_bool_split.
Print Assumptions bss_roundtrip.
Print Assumptions bss_read_split.
Print Assumptions dbp_encode_bytes_ok.
Print Assumptions dlba_roundtrip.
Print Assumptions dba_roundtrip.
