(* Bridging lemmas (res-level operator = Ok (pure shadow) when every evaluation is Ok) and the pure
   list algebra of model/Rel.v.  Everything here is plain induction over lists. *)
From Coq Require Import NArith ZArith List Bool Permutation Lia.
From GV Require Import lib.Bytes model.Sql model.Rel.
Import ListNotations.

(* ---------------------------------------------------------------- res / mapM *)

Lemma mapM_cons {A B} (f : A -> res B) x l :
  mapM f (x :: l) = (do y <- f x; do ys <- mapM f l; Ok (y :: ys)).
Proof. reflexivity. Qed.

Lemma mapM_total {A B} (f : A -> res B) (g : A -> B) l :
  (forall x, In x l -> f x = Ok (g x)) -> mapM f l = Ok (map g l).
Proof.
  induction l as [|x l IH]; intros Hf; [reflexivity|].
  rewrite mapM_cons, (Hf x (or_introl eq_refl)). cbn [bind].
  rewrite IH by (intros y Hy; apply Hf; right; exact Hy). reflexivity.
Qed.

Lemma mapM_ok_total {A B} (f : A -> res B) l ys :
  mapM f l = Ok ys -> forall x, In x l -> exists y, f x = Ok y.
Proof.
  revert ys. induction l as [|a l IH]; intros ys Hm x Hin; [destruct Hin|].
  rewrite mapM_cons in Hm. destruct (f a) as [y|e] eqn:Ha; cbn [bind] in Hm; [|discriminate].
  destruct (mapM f l) as [ys'|e] eqn:Hl; cbn [bind] in Hm; [|discriminate].
  destruct Hin as [<-|Hin]; [eauto|]. eapply IH; eauto.
Qed.

Lemma mapM_ok_map {A B} (f : A -> res B) (d : B) l ys :
  mapM f l = Ok ys -> ys = map (fun x => unres d (f x)) l.
Proof.
  revert ys. induction l as [|a l IH]; intros ys Hm; [cbn in Hm; injection Hm as <-; reflexivity|].
  rewrite mapM_cons in Hm. destruct (f a) as [y|e] eqn:Ha; cbn [bind] in Hm; [|discriminate].
  destruct (mapM f l) as [ys'|e] eqn:Hl; cbn [bind] in Hm; [|discriminate].
  injection Hm as <-. cbn [map]. rewrite Ha. cbn [unres]. f_equal. apply IH. reflexivity.
Qed.

Lemma mapM_app {A B} (f : A -> res B) l1 l2 :
  mapM f (l1 ++ l2) = (do a <- mapM f l1; do b <- mapM f l2; Ok (a ++ b)).
Proof.
  induction l1 as [|x l1 IH]; cbn [app].
  - cbn [mapM bind]. destruct (mapM f l2); reflexivity.
  - rewrite !mapM_cons. destruct (f x); cbn [bind]; [|reflexivity].
    rewrite IH. destruct (mapM f l1); cbn [bind]; [|reflexivity].
    destruct (mapM f l2); reflexivity.
Qed.

Lemma total_on_pure (p : pred) r : total_on p r -> forall x, In x r -> p x = Ok (pure_of p x).
Proof. intros Ht x Hx. destruct (Ht x Hx) as [v Hv]. unfold pure_of. rewrite Hv. reflexivity. Qed.

Lemma total_on_unres {A} (d : A) (p : row -> res A) r :
  total_on p r -> forall x, In x r -> p x = Ok (unres d (p x)).
Proof. intros Ht x Hx. destruct (Ht x Hx) as [v Hv]. rewrite Hv. reflexivity. Qed.

Lemma total_on_incl {A} (p : row -> res A) r r' : incl r' r -> total_on p r -> total_on p r'.
Proof. intros Hi Ht x Hx. apply Ht, Hi, Hx. Qed.

Lemma total_on_app {A} (p : row -> res A) r1 r2 : total_on p (r1 ++ r2) <-> total_on p r1 /\ total_on p r2.
Proof.
  split.
  - intros Ht; split; intros x Hx; apply Ht, in_or_app; auto.
  - intros [H1 H2] x Hx. apply in_app_or in Hx as [Hx|Hx]; auto.
Qed.

(* ---------------------------------------------------------------- list helpers *)

Lemma concat_map_filter {A} (p : A -> bool) l :
  concat (map (fun x => if p x then [x] else []) l) = filter p l.
Proof. induction l as [|x l IH]; [reflexivity|]. cbn. destruct (p x); cbn; rewrite IH; reflexivity. Qed.

Lemma flat_map_filter_single {A} (p : A -> bool) l :
  flat_map (fun x => if p x then [x] else []) l = filter p l.
Proof. rewrite flat_map_concat_map. apply concat_map_filter. Qed.

Lemma filter_flat_map {A B} (p : B -> bool) (f : A -> list B) l :
  filter p (flat_map f l) = flat_map (fun x => filter p (f x)) l.
Proof. induction l as [|x l IH]; [reflexivity|]. cbn. rewrite filter_app, IH. reflexivity. Qed.

Lemma flat_map_ext_in {A B} (f g : A -> list B) l :
  (forall x, In x l -> f x = g x) -> flat_map f l = flat_map g l.
Proof.
  induction l as [|x l IH]; intros H; [reflexivity|]. cbn.
  rewrite (H x (or_introl eq_refl)), IH; [reflexivity|]. intros y Hy. apply H. right. exact Hy.
Qed.

Lemma flat_map_filter {A B} (p : A -> bool) (f : A -> list B) l :
  flat_map f (filter p l) = flat_map (fun x => if p x then f x else []) l.
Proof. induction l as [|x l IH]; [reflexivity|]. cbn. destruct (p x); cbn; rewrite IH; reflexivity. Qed.

Lemma flat_map_map {A B C} (f : A -> B) (g : B -> list C) l :
  flat_map g (map f l) = flat_map (fun x => g (f x)) l.
Proof. induction l as [|x l IH]; [reflexivity|]. cbn. rewrite IH. reflexivity. Qed.

Lemma map_flat_map {A B C} (f : B -> C) (g : A -> list B) l :
  map f (flat_map g l) = flat_map (fun x => map f (g x)) l.
Proof. induction l as [|x l IH]; [reflexivity|]. cbn. rewrite map_app, IH. reflexivity. Qed.

Lemma flat_map_flat_map {A B C} (f : A -> list B) (g : B -> list C) l :
  flat_map g (flat_map f l) = flat_map (fun x => flat_map g (f x)) l.
Proof. induction l as [|x l IH]; [reflexivity|]. cbn. rewrite flat_map_app, IH. reflexivity. Qed.

Lemma flat_map_nil {A B} (l : list A) : flat_map (fun _ => @nil B) l = [].
Proof. induction l; auto. Qed.

Lemma existsb_map {A B} (f : A -> B) (p : B -> bool) l : existsb p (map f l) = existsb (fun x => p (f x)) l.
Proof. induction l as [|x l IH]; [reflexivity|]. cbn. rewrite IH. reflexivity. Qed.

Lemma nonempty_filter {A} (p : A -> bool) l : nonempty (filter p l) = existsb p l.
Proof. induction l as [|x l IH]; [reflexivity|]. cbn. destruct (p x); [reflexivity|exact IH]. Qed.

Lemma split_at {A} (x s : list A) la : length x = la -> firstn la (x ++ s) = x /\ skipn la (x ++ s) = s.
Proof.
  intros <-. split.
  - rewrite firstn_app, Nat.sub_diag, firstn_all. cbn. apply app_nil_r.
  - rewrite skipn_app, Nat.sub_diag, skipn_all. reflexivity.
Qed.

(* ---------------------------------------------------------------- values: row_same is equality *)

Lemma val_same_eq a b : val_same a b = true -> a = b.
Proof.
  destruct a as [|x|x|x], b as [|y|y|y]; cbn; try discriminate; try reflexivity.
  - destruct x, y; try discriminate; reflexivity.
  - destruct (Z.compare x y) eqn:Hc; try discriminate. apply Z.compare_eq in Hc. congruence.
  - destruct (lex_cmp x y) eqn:Hc; try discriminate. apply lex_cmp_eq_iff in Hc. congruence.
Qed.

Lemma val_same_refl a : val_same a a = true.
Proof.
  destruct a as [|x|x|x]; cbn; try reflexivity.
  - destruct x; reflexivity.
  - rewrite Z.compare_refl. reflexivity.
  - rewrite lex_cmp_refl. reflexivity.
Qed.

Lemma row_same_eq a : forall b, row_same a b = true -> a = b.
Proof.
  induction a as [|x a IH]; intros [|y b]; cbn; try discriminate; [reflexivity|].
  intros H. apply andb_prop in H as [H1 H2]. apply val_same_eq in H1. apply IH in H2. congruence.
Qed.

Lemma row_same_refl a : row_same a a = true.
Proof. induction a as [|x a IH]; [reflexivity|]. cbn. rewrite val_same_refl, IH. reflexivity. Qed.

Lemma row_same_iff a b : row_same a b = true <-> a = b.
Proof. split; [apply row_same_eq|intros ->; apply row_same_refl]. Qed.

Lemma dedup_rows_In l : forall x, In x (dedup_rows l) <-> In x l.
Proof.
  induction l as [|r l IH]; intros x; [reflexivity|]. cbn [dedup_rows].
  split.
  - intros [<-|Hx]; [left; reflexivity|]. apply filter_In in Hx as [Hx _]. right. apply IH, Hx.
  - intros [<-|Hx]; [left; reflexivity|].
    destruct (row_same r x) eqn:Hs.
    + left. apply row_same_eq, Hs.
    + right. apply filter_In. split; [apply IH, Hx|]. rewrite Hs. reflexivity.
Qed.

Lemma NoDup_filter {A} (p : A -> bool) l : NoDup l -> NoDup (filter p l).
Proof.
  induction 1 as [|x l Hx Hn IH]; [constructor|]. cbn. destruct (p x); [|exact IH].
  constructor; [|exact IH]. intros Hin. apply filter_In in Hin as [Hin _]. contradiction.
Qed.

Lemma dedup_rows_NoDup l : NoDup (dedup_rows l).
Proof.
  induction l as [|r l IH]; [constructor|]. cbn [dedup_rows]. constructor.
  - intros Hin. apply filter_In in Hin as [_ Hs]. rewrite row_same_refl in Hs. discriminate.
  - apply NoDup_filter, IH.
Qed.

(* exactly one element of a duplicate-free list passes a test that characterises k0 *)
Lemma flat_map_single {A B} (test : A -> bool) (F : A -> list B) k0 D :
  NoDup D -> In k0 D -> (forall k, test k = true <-> k = k0) ->
  flat_map (fun k => if test k then F k else []) D = F k0.
Proof.
  intros Hn Hin Ht. induction Hn as [|k D Hk Hn IH]; [destruct Hin|]. cbn.
  destruct Hin as [->|Hin].
  - rewrite (proj2 (Ht k0) eq_refl).
    rewrite (flat_map_ext_in _ (fun _ => [])), flat_map_nil; [apply app_nil_r|].
    intros k Hk'. destruct (test k) eqn:Htk; [|reflexivity].
    apply Ht in Htk. subst k. contradiction.
  - destruct (test k) eqn:Htk.
    + apply Ht in Htk. subst k. contradiction.
    + cbn. apply IH, Hin.
Qed.

(* ---------------------------------------------------------------- bridges: r-operator = Ok (p-operator) *)

Lemma rfilter_total p r : total_on p r -> rfilter p r = Ok (pfilter (pure_of p) r).
Proof.
  intros Ht. unfold rfilter, pfilter.
  rewrite (mapM_total _ (fun x => if pure_of p x then [x] else [])).
  - cbn [bind]. rewrite concat_map_filter. reflexivity.
  - intros x Hx. rewrite (total_on_pure p r Ht x Hx). reflexivity.
Qed.

Lemma rfilter_ok p r out : rfilter p r = Ok out -> total_on p r /\ out = pfilter (pure_of p) r.
Proof.
  intros H. assert (Ht : total_on p r).
  { unfold rfilter in H.
    destruct (mapM (fun x => do b <- p x; Ok (if b then [x] else [])) r) as [parts|e] eqn:Hm; [|discriminate].
    intros x Hx. destruct (mapM_ok_total _ _ _ Hm x Hx) as [y Hy].
    destruct (p x) as [b|e]; [eauto|discriminate]. }
  split; [exact Ht|]. rewrite (rfilter_total p r Ht) in H. congruence.
Qed.

Lemma rproject_total (f : row -> res row) r :
  total_on f r -> rproject f r = Ok (pproject (fun x => unres [] (f x)) r).
Proof. intros Ht. unfold rproject, pproject. apply mapM_total. apply total_on_unres, Ht. Qed.

Definition pairs_total (on : pred) (a b : rel) : Prop :=
  forall l r, In l a -> In r b -> exists v, on (l ++ r) = Ok v.

Lemma matches_bridge (on : pred) l b :
  (forall r, In r b -> exists v, on (l ++ r) = Ok v) ->
  (do ms <- mapM (fun r => do c <- on (l ++ r); Ok (if c then [l ++ r] else [])) b; Ok (concat ms))
  = Ok (matches (pure_of on) l b).
Proof.
  intros Ht. unfold matches.
  rewrite (mapM_total _ (fun r => if pure_of on (l ++ r) then [l ++ r] else [])).
  - cbn [bind]. rewrite flat_map_concat_map. reflexivity.
  - intros r Hr. destruct (Ht r Hr) as [v Hv]. unfold pure_of. rewrite Hv. reflexivity.
Qed.

Lemma rjoin_total k a b la ra on :
  pairs_total on a b -> rjoin k a b la ra on = Ok (pjoin k a b la ra (pure_of on)).
Proof.
  intros Ht. unfold rjoin, join_rows, pjoin.
  assert (Hm : forall l, In l a ->
     mapM (fun r => do c <- on (l ++ r); Ok (if c then [l ++ r] else [])) b
     = Ok (map (fun r => if pure_of on (l ++ r) then [l ++ r] else []) b)).
  { intros l Hl. apply mapM_total. intros r Hr. destruct (Ht l r Hl Hr) as [v Hv].
    unfold pure_of. rewrite Hv. reflexivity. }
  assert (Hb : forall l, In l a ->
     mapM (fun r => on (l ++ r)) b = Ok (map (fun r => pure_of on (l ++ r)) b)).
  { intros l Hl. apply mapM_total. intros r Hr. destruct (Ht l r Hl Hr) as [v Hv].
    unfold pure_of. rewrite Hv. reflexivity. }
  destruct k.
  - rewrite (mapM_total _ (fun l => matches (pure_of on) l b)).
    + cbn [bind]. rewrite <- flat_map_concat_map. reflexivity.
    + intros l Hl. rewrite (Hm l Hl). cbn [bind]. unfold matches. rewrite flat_map_concat_map. reflexivity.
  - rewrite (mapM_total _ (fun l => matches (pure_of on) l b)).
    + cbn [bind]. rewrite <- flat_map_concat_map. reflexivity.
    + intros l Hl. rewrite (Hm l Hl). cbn [bind]. unfold matches. rewrite flat_map_concat_map. reflexivity.
  - rewrite (mapM_total _ (fun l => match matches (pure_of on) l b with [] => [l ++ nulls ra] | m => m end)).
    + cbn [bind]. rewrite <- flat_map_concat_map. reflexivity.
    + intros l Hl. rewrite (Hm l Hl). cbn [bind]. unfold matches. rewrite flat_map_concat_map.
      destruct (concat _); reflexivity.
  - rewrite (mapM_total _ (fun r => match flat_map (fun l => if pure_of on (l ++ r) then [l ++ r] else []) a with
                                     | [] => [nulls la ++ r] | m => m end)).
    + cbn [bind]. rewrite <- flat_map_concat_map. reflexivity.
    + intros r Hr.
      rewrite (mapM_total _ (fun l => if pure_of on (l ++ r) then [l ++ r] else [])).
      * cbn [bind]. rewrite flat_map_concat_map. destruct (concat _); reflexivity.
      * intros l Hl. destruct (Ht l r Hl Hr) as [v Hv]. unfold pure_of. rewrite Hv. reflexivity.
  - rewrite (mapM_total _ (fun l => if existsb (fun r => pure_of on (l ++ r)) b then [l] else [])).
    + cbn [bind]. rewrite <- flat_map_concat_map. reflexivity.
    + intros l Hl. rewrite (Hb l Hl). cbn [bind]. rewrite existsb_map. reflexivity.
  - rewrite (mapM_total _ (fun l => if existsb (fun r => pure_of on (l ++ r)) b then [] else [l])).
    + cbn [bind]. rewrite <- flat_map_concat_map. reflexivity.
    + intros l Hl. rewrite (Hb l Hl). cbn [bind]. rewrite existsb_map. reflexivity.
Qed.

Lemma rdep_total a (sub : row -> res rel) :
  total_on sub a -> rdep a sub = Ok (pdep a (fun x => unres [] (sub x))).
Proof.
  intros Ht. unfold rdep, pdep.
  rewrite (mapM_total _ (fun x => map (app x) (unres [] (sub x)))).
  - cbn [bind]. rewrite <- flat_map_concat_map. reflexivity.
  - intros x Hx. rewrite (total_on_unres [] sub a Ht x Hx). reflexivity.
Qed.

Lemma rdep_semi_total a (sub : row -> res rel) :
  total_on sub a -> rdep_semi a sub = Ok (pdep_semi a (fun x => unres [] (sub x))).
Proof.
  intros Ht. unfold rdep_semi, pdep_semi.
  rewrite (mapM_total _ (fun x => if nonempty (unres [] (sub x)) then [x] else [])).
  - cbn [bind]. rewrite concat_map_filter. reflexivity.
  - intros x Hx. rewrite (total_on_unres [] sub a Ht x Hx). cbn [bind unres].
    destruct (unres [] (sub x)); reflexivity.
Qed.

Lemma rdep_anti_total a (sub : row -> res rel) :
  total_on sub a -> rdep_anti a sub = Ok (pdep_anti a (fun x => unres [] (sub x))).
Proof.
  intros Ht. unfold rdep_anti, pdep_anti.
  rewrite (mapM_total _ (fun x => if negb (nonempty (unres [] (sub x))) then [x] else [])).
  - cbn [bind]. rewrite concat_map_filter. reflexivity.
  - intros x Hx. rewrite (total_on_unres [] sub a Ht x Hx). cbn [bind unres].
    destruct (unres [] (sub x)); reflexivity.
Qed.

Lemma rdep_mark_total a (sub : row -> res rel) :
  total_on sub a -> rdep_mark a sub = Ok (pdep_mark a (fun x => unres [] (sub x))).
Proof.
  intros Ht. unfold rdep_mark, pdep_mark. apply mapM_total.
  intros x Hx. rewrite (total_on_unres [] sub a Ht x Hx). cbn [bind unres].
  destruct (unres [] (sub x)); reflexivity.
Qed.

(* ---------------------------------------------------------------- bag / res-bag relations *)

Lemma bag_eq_refl a : a ≡b a.  Proof. apply Permutation_refl. Qed.
Lemma bag_eq_of_eq a b : a = b -> a ≡b b.  Proof. intros ->. apply bag_eq_refl. Qed.
Lemma res_bag_eq_ok a b : a ≡b b -> Ok a ≡r Ok b.  Proof. intros H; exact H. Qed.
Lemma res_bag_eq_refines x y : x ≡r y -> refines x y.
Proof.
  destruct x as [a|e], y as [b|e']; cbn; try contradiction.
  intros H a' [= <-]. eauto.
Qed.

(* ---------------------------------------------------------------- pure algebra: filters *)

Lemma pfilter_and p1 p2 r : pfilter (fun x => p1 x && p2 x) r = pfilter p1 (pfilter p2 r).
Proof.
  unfold pfilter. induction r as [|x r IH]; [reflexivity|]. cbn.
  destruct (p2 x); cbn; destruct (p1 x); cbn; rewrite IH; reflexivity.
Qed.

Lemma pfilter_comm p1 p2 r : pfilter p1 (pfilter p2 r) = pfilter p2 (pfilter p1 r).
Proof.
  rewrite <- !pfilter_and. unfold pfilter. apply filter_ext. intros x. apply andb_comm.
Qed.

Lemma matches_cons (on : row -> bool) l r b :
  matches on l (r :: b) = (if on (l ++ r) then [l ++ r] else []) ++ matches on l b.
Proof. reflexivity. Qed.

Lemma filter_matches_const (p on : row -> bool) l b c :
  (forall r, p (l ++ r) = c) -> filter p (matches on l b) = if c then matches on l b else [].
Proof.
  intros Hp. induction b as [|r b IH]; [destruct c; reflexivity|]. rewrite matches_cons.
  rewrite filter_app, IH. destruct (on (l ++ r)); cbn [filter app]; [rewrite Hp|]; destruct c; reflexivity.
Qed.

Lemma matches_and (p on : row -> bool) l b :
  matches (fun x => on x && p x) l b = filter p (matches on l b).
Proof.
  induction b as [|r b IH]; [reflexivity|]. rewrite !matches_cons. rewrite filter_app, IH.
  destruct (on (l ++ r)); cbn [andb filter app]; [destruct (p (l ++ r))|]; reflexivity.
Qed.

Lemma matches_filter_right (p on : row -> bool) (pr : row -> bool) l b :
  (forall r, p (l ++ r) = pr r) -> filter p (matches on l b) = matches on l (filter pr b).
Proof.
  intros Hp. induction b as [|r b IH]; [reflexivity|]. rewrite matches_cons. cbn [filter].
  rewrite filter_app, IH, <- Hp.
  destruct (on (l ++ r)) eqn:Hon; cbn [filter app]; destruct (p (l ++ r)) eqn:Hpp;
    rewrite ?matches_cons, ?Hon; reflexivity.
Qed.

Definition reads_left (la : nat) (p pl : row -> bool) : Prop :=
  forall x y, length x = la -> p (x ++ y) = pl x.
Definition reads_right (la : nat) (p pr : row -> bool) : Prop :=
  forall x y, length x = la -> p (x ++ y) = pr y.
Definition arity (la : nat) (a : rel) : Prop := Forall (fun x => length x = la) a.

Lemma pjoin_inner_filter_left la ra p pl on a b :
  reads_left la p pl -> arity la a ->
  pfilter p (pjoin JInner a b la ra on) = pjoin JInner (pfilter pl a) b la ra on.
Proof.
  intros Hr Ha. unfold pfilter. cbn [pjoin]. induction Ha as [|x a Hx Ha IH]; [reflexivity|]. cbn.
  rewrite filter_app, IH. rewrite (filter_matches_const p on x b (pl x)) by (intros r; apply Hr, Hx).
  destruct (pl x); reflexivity.
Qed.

Lemma pjoin_inner_filter_right la ra p pr on a b :
  reads_right la p pr -> arity la a ->
  pfilter p (pjoin JInner a b la ra on) = pjoin JInner a (pfilter pr b) la ra on.
Proof.
  intros Hr Ha. unfold pfilter. cbn [pjoin]. induction Ha as [|x a Hx Ha IH]; [reflexivity|]. cbn.
  rewrite filter_app, IH. rewrite (matches_filter_right p on pr x b) by (intros r; apply Hr, Hx).
  reflexivity.
Qed.

Lemma pjoin_inner_filter_into_cond la ra p on a b :
  pfilter p (pjoin JInner a b la ra on) = pjoin JInner a b la ra (fun x => on x && p x).
Proof.
  unfold pfilter. cbn [pjoin]. rewrite filter_flat_map. apply flat_map_ext_in. intros l _.
  symmetry. apply matches_and.
Qed.

Lemma matches_true l b : matches (fun _ => true) l b = map (app l) b.
Proof. unfold matches. induction b as [|r b IH]; [reflexivity|]. cbn. rewrite IH. reflexivity. Qed.

Lemma rcross_is_cross_join la ra a b : rcross a b = pjoin JCross a b la ra (fun _ => true).
Proof. unfold rcross. cbn [pjoin]. apply flat_map_ext_in. intros l _. symmetry. apply matches_true. Qed.

Lemma pfilter_cross_is_inner la ra p a b : pfilter p (rcross a b) = pjoin JInner a b la ra p.
Proof.
  rewrite (rcross_is_cross_join la ra). change (pjoin JCross a b la ra (fun _ => true)) with (pjoin JInner a b la ra (fun _ => true)).
  rewrite pjoin_inner_filter_into_cond. reflexivity.
Qed.

(* LEFT join: the preserved side *)
Lemma pjoin_left_filter_left la ra p pl on a b :
  reads_left la p pl -> arity la a ->
  pfilter p (pjoin JLeft a b la ra on) = pjoin JLeft (pfilter pl a) b la ra on.
Proof.
  intros Hr Ha. unfold pfilter. cbn [pjoin]. induction Ha as [|x a Hx Ha IH]; [reflexivity|]. cbn.
  rewrite filter_app, IH. clear IH.
  assert (Hone : filter p (match matches on x b with [] => [x ++ nulls ra] | m => m end)
                 = if pl x then (match matches on x b with [] => [x ++ nulls ra] | m => m end) else []).
  { destruct (matches on x b) as [|m ms] eqn:Hm.
    - cbn. rewrite (Hr x (nulls ra) Hx). destruct (pl x); reflexivity.
    - rewrite <- Hm. apply filter_matches_const. intros r. apply Hr, Hx. }
  rewrite Hone. destruct (pl x); reflexivity.
Qed.

(* LEFT join: a right-only conjunct of ON can be applied to the right input first *)
Lemma pjoin_left_on_right la ra p pr on a b :
  reads_right la p pr -> arity la a ->
  pjoin JLeft a b la ra (fun x => on x && p x) = pjoin JLeft a (pfilter pr b) la ra on.
Proof.
  intros Hr Ha. unfold pfilter. cbn [pjoin]. induction Ha as [|x a Hx Ha IH]; [reflexivity|]. cbn.
  rewrite IH, matches_and. rewrite (matches_filter_right p on pr x b) by (intros r; apply Hr, Hx).
  reflexivity.
Qed.

(* RIGHT join mirror: a left-only conjunct of ON can be applied to the left input first *)
Lemma pjoin_right_on_left la ra p pl on a b :
  reads_left la p pl -> arity la a ->
  pjoin JRight a b la ra (fun x => on x && p x) = pjoin JRight (pfilter pl a) b la ra on.
Proof.
  intros Hr Ha. unfold pfilter. cbn [pjoin]. apply flat_map_ext_in. intros r _.
  assert (He : flat_map (fun l => if on (l ++ r) && p (l ++ r) then [l ++ r] else []) a
             = flat_map (fun l => if on (l ++ r) then [l ++ r] else []) (filter pl a)).
  { clear - Hr Ha. induction Ha as [|x a Hx Ha IH]; [reflexivity|]. cbn. rewrite IH, (Hr x r Hx).
    destruct (pl x); cbn; [|rewrite andb_false_r]; [rewrite andb_true_r|]; reflexivity. }
  rewrite He. reflexivity.
Qed.

(* semi / anti / mark: the output is the left row, so a filter on it commutes *)
Lemma pjoin_semi_filter la ra pl on a b :
  pfilter pl (pjoin JSemi a b la ra on) = pjoin JSemi (pfilter pl a) b la ra on.
Proof.
  unfold pfilter. cbn [pjoin]. induction a as [|x a IH]; [reflexivity|]. cbn [flat_map filter].
  rewrite filter_app, IH.
  destruct (pl x) eqn:Hp; destruct (existsb (fun r => on (x ++ r)) b) eqn:He;
    cbn [flat_map filter app]; rewrite ?Hp, ?He; reflexivity.
Qed.

Lemma pjoin_anti_filter la ra pl on a b :
  pfilter pl (pjoin JAnti a b la ra on) = pjoin JAnti (pfilter pl a) b la ra on.
Proof.
  unfold pfilter. cbn [pjoin]. induction a as [|x a IH]; [reflexivity|]. cbn [flat_map filter].
  rewrite filter_app, IH.
  destruct (pl x) eqn:Hp; destruct (existsb (fun r => on (x ++ r)) b) eqn:He;
    cbn [flat_map filter app]; rewrite ?Hp, ?He; reflexivity.
Qed.

Lemma pmark_filter_left p pl on a b :
  (forall x m, p (x ++ [m]) = pl x) ->
  pfilter p (pmark a b on) = pmark (pfilter pl a) b on.
Proof.
  intros Hp. unfold pfilter, pmark. induction a as [|x a IH]; [reflexivity|]. cbn.
  rewrite Hp, IH. destruct (pl x); reflexivity.
Qed.

(* a filter that keeps the rows whose mark is true, then drops the mark = semi join
   (the LeftMark -> LeftSemi conversion of filter_pushdown) *)
Lemma pmark_true_is_semi la ra on a b :
  map (fun x => removelast x) (filter (fun x => is_true (last x VNull)) (pmark a b on)) = pjoin JSemi a b la ra on.
Proof.
  unfold pmark. cbn [pjoin]. induction a as [|x a IH]; [reflexivity|]. cbn.
  rewrite last_last. destruct (existsb (fun r => on (x ++ r)) b); cbn; rewrite IH; [|reflexivity].
  rewrite removelast_last. reflexivity.
Qed.

Lemma pfilter_project (p : row -> bool) (f : row -> row) r :
  pfilter p (pproject f r) = pproject f (pfilter (fun x => p (f x)) r).
Proof.
  unfold pfilter, pproject. induction r as [|x r IH]; [reflexivity|]. cbn.
  destruct (p (f x)); cbn; rewrite IH; reflexivity.
Qed.

(* filters commute with DISTINCT and with a stable ORDER BY (pushdown_distinct, pushdown_order_by) *)
Lemma filter_filter_comm {A} (p q : A -> bool) l : filter p (filter q l) = filter q (filter p l).
Proof.
  induction l as [|x l IH]; [reflexivity|]. cbn.
  destruct (q x) eqn:Hq, (p x) eqn:Hp; cbn; rewrite ?Hq, ?Hp, IH; reflexivity.
Qed.

Lemma pfilter_distinct p r : pfilter p (rdistinct r) = rdistinct (pfilter p r).
Proof.
  unfold pfilter, rdistinct. induction r as [|x r IH]; [reflexivity|]. cbn [dedup_rows filter].
  destruct (p x) eqn:Hp.
  - cbn [dedup_rows]. f_equal. rewrite filter_filter_comm, IH. reflexivity.
  - rewrite filter_filter_comm, IH.
    (* x is rejected: removing the rows equal to x from the kept rows removes nothing *)
    rewrite (filter_ext_in (fun y => negb (row_same x y)) (fun _ => true)).
    + clear. induction (dedup_rows (filter p r)) as [|y l IH]; [reflexivity|]. cbn. rewrite IH. reflexivity.
    + intros y Hy. apply (proj1 (dedup_rows_In _ _)) in Hy. apply filter_In in Hy as [_ Hpy].
      destruct (row_same x y) eqn:Hs; [|reflexivity]. apply row_same_eq in Hs. congruence.
Qed.

Lemma insert_by_perm keys x l : Permutation (insert_by keys x l) (x :: l).
Proof.
  induction l as [|y l IH]; [apply Permutation_refl|]. cbn. destruct (keys_le keys x y); [apply Permutation_refl|].
  eapply Permutation_trans; [apply perm_skip, IH|apply perm_swap].
Qed.

Lemma sort_by_perm keys l : Permutation (sort_by keys l) l.
Proof.
  unfold sort_by. induction l as [|x l IH]; [apply Permutation_refl|]. cbn.
  eapply Permutation_trans; [apply insert_by_perm|apply perm_skip, IH].
Qed.

Lemma filter_perm {A} (p : A -> bool) l l' : Permutation l l' -> Permutation (filter p l) (filter p l').
Proof.
  induction 1 as [|x l l' H IH|x y l|l l' l'' H1 IH1 H2 IH2]; cbn.
  - apply Permutation_refl.
  - destruct (p x); [apply perm_skip|]; exact IH.
  - destruct (p x), (p y); try apply Permutation_refl. apply perm_swap.
  - eapply Permutation_trans; eauto.
Qed.

Lemma pfilter_sort_bag keys p r : pfilter p (rsort keys r) ≡b rsort keys (pfilter p r).
Proof.
  unfold pfilter, rsort, bag_eq. eapply Permutation_trans; [apply filter_perm, sort_by_perm|].
  apply Permutation_sym, sort_by_perm.
Qed.

(* ---------------------------------------------------------------- limits *)

Lemma rlimit_map off lim (f : row -> row) r : rlimit off lim (map f r) = map f (rlimit off lim r).
Proof.
  unfold rlimit, slice_rows. destruct lim as [n|].
  - rewrite <- firstn_map, <- skipn_map. reflexivity.
  - rewrite <- skipn_map. reflexivity.
Qed.

(* the ORDER BY below a LIMIT only has to deliver its first lim + off rows (SortLimitHint) *)
Lemma rlimit_firstn_hint off n (l : rel) : rlimit off (Some n) (firstn (n + off) l) = rlimit off (Some n) l.
Proof.
  unfold rlimit, slice_rows. rewrite (Nat.add_comm n off), <- firstn_skipn_comm.
  rewrite firstn_firstn, Nat.min_id. reflexivity.
Qed.

Lemma in_firstn' {A} n (l : list A) x : In x (firstn n l) -> In x l.
Proof. intros H. rewrite <- (firstn_skipn n l). apply in_or_app. left. exact H. Qed.
Lemma in_skipn' {A} n (l : list A) x : In x (skipn n l) -> In x l.
Proof. intros H. rewrite <- (firstn_skipn n l). apply in_or_app. right. exact H. Qed.

Lemma rlimit_incl off lim r : incl (rlimit off lim r) r.
Proof.
  unfold rlimit, slice_rows. intros x Hx. destruct lim as [n|].
  - apply in_firstn' in Hx. eapply in_skipn'; eauto.
  - eapply in_skipn'; eauto.
Qed.

(* ---------------------------------------------------------------- membership in joins *)

Lemma matches_In on l b x : In x (matches on l b) -> exists r, In r b /\ x = l ++ r /\ on (l ++ r) = true.
Proof.
  unfold matches. intros H. apply in_flat_map in H as [r [Hr Hx]].
  destruct (on (l ++ r)) eqn:Hon; [|destruct Hx]. destruct Hx as [<-|[]]. eauto.
Qed.

Lemma pjoin_inner_In la ra on a b x :
  In x (pjoin JInner a b la ra on) -> exists l r, In l a /\ In r b /\ x = l ++ r.
Proof.
  cbn [pjoin]. intros H. apply in_flat_map in H as [l [Hl Hx]].
  apply matches_In in Hx as [r [Hr [-> _]]]. eauto.
Qed.

Lemma pjoin_left_In la ra on a b x :
  In x (pjoin JLeft a b la ra on) -> exists l, In l a /\ ((exists r, In r b /\ x = l ++ r) \/ x = l ++ nulls ra).
Proof.
  cbn [pjoin]. intros H. apply in_flat_map in H as [l [Hl Hx]]. exists l. split; [exact Hl|].
  destruct (matches on l b) as [|m ms] eqn:Hm.
  - destruct Hx as [<-|[]]. right. reflexivity.
  - rewrite <- Hm in Hx. apply matches_In in Hx as [r [Hr [-> _]]]. left. eauto.
Qed.

Lemma rcross_In a b x : In x (rcross a b) -> exists l r, In l a /\ In r b /\ x = l ++ r.
Proof.
  unfold rcross. intros H. apply in_flat_map in H as [l [Hl Hx]]. apply in_map_iff in Hx as [r [<- Hr]]. eauto.
Qed.

Lemma pfilter_incl p r : incl (pfilter p r) r.
Proof. intros x Hx. apply filter_In in Hx. tauto. Qed.

Lemma arity_filter la p a : arity la a -> arity la (pfilter p a).
Proof.
  unfold arity, pfilter. rewrite !Forall_forall. intros H x Hx. apply H. apply filter_In in Hx. tauto.
Qed.

Lemma pairs_total_incl on a a' b b' : incl a' a -> incl b' b -> pairs_total on a b -> pairs_total on a' b'.
Proof. intros Ha Hb Ht l r Hl Hr. apply Ht; auto. Qed.

Lemma pfilter_ext_in (p q : list value -> bool) r : (forall x, In x r -> p x = q x) -> pfilter p r = pfilter q r.
Proof. apply filter_ext_in. Qed.

Lemma pjoin_ext_in k a b la ra (on on' : list value -> bool) :
  (forall l r, In l a -> In r b -> on (l ++ r) = on' (l ++ r)) ->
  pjoin k a b la ra on = pjoin k a b la ra on'.
Proof.
  intros He.
  assert (Hm : forall l, In l a -> matches on l b = matches on' l b).
  { intros l Hl. unfold matches. apply flat_map_ext_in. intros r Hr. rewrite (He l r Hl Hr). reflexivity. }
  assert (Hx : forall l, In l a -> existsb (fun r => on (l ++ r)) b = existsb (fun r => on' (l ++ r)) b).
  { intros l Hl. clear Hm. induction b as [|r b IH]; [reflexivity|]. cbn [existsb].
    rewrite (He l r Hl (or_introl eq_refl)), IH; [reflexivity|]. intros l' r' Hl' Hr'. apply He; [exact Hl'|right; exact Hr']. }
  destruct k; cbn [pjoin].
  - apply flat_map_ext_in. exact Hm.
  - apply flat_map_ext_in. exact Hm.
  - apply flat_map_ext_in. intros l Hl. rewrite (Hm l Hl). reflexivity.
  - apply flat_map_ext_in. intros r Hr.
    rewrite (flat_map_ext_in (fun l => if on (l ++ r) then [l ++ r] else []) (fun l => if on' (l ++ r) then [l ++ r] else [])); [reflexivity|].
    intros l Hl. rewrite (He l r Hl Hr). reflexivity.
  - apply flat_map_ext_in. intros l Hl. rewrite (Hx l Hl). reflexivity.
  - apply flat_map_ext_in. intros l Hl. rewrite (Hx l Hl). reflexivity.
Qed.

(* ---------------------------------------------------------------- conjunction of collapsed predicates *)

Lemma pand_total_on (p q : list value -> res bool) r : total_on (pand p q) r <-> total_on p r /\ total_on q r.
Proof.
  unfold total_on, pand. split.
  - intros H. split; intros x Hx; destruct (H x Hx) as [v Hv]; destruct (p x); cbn [bind] in Hv; try discriminate;
      destruct (q x); cbn [bind] in Hv; try discriminate; eauto.
  - intros [Hp Hq] x Hx. destruct (Hp x Hx) as [a ->], (Hq x Hx) as [b ->]. cbn [bind]. eauto.
Qed.

Lemma pure_of_pand (p q : list value -> res bool) x :
  (exists a, p x = Ok a) -> (exists b, q x = Ok b) -> pure_of (pand p q) x = pure_of p x && pure_of q x.
Proof. intros [a Ha] [b Hb]. unfold pure_of, pand. rewrite Ha, Hb. reflexivity. Qed.
