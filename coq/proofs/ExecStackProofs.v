(* C04 — proofs about model/ExecStack.v (ExecutionStack::pop_next with AbandonOperator /
   next_to_finalize, commits 131551599 + c83fc4e4d, and the poll_execute loop).
   Every theorem about runs quantifies over ALL runs from `new n` (any n >= 1, any answers), by
   invariant + induction.  A history `h : list ev` lists the Effects calls NEWEST FIRST; so
   `h = post ++ e2 :: mid ++ e1 :: pre` reads "e1 was called before e2". *)
From Coq Require Import List Arith Bool Lia ZifyBool.
From GV Require Import model.ExecStack.
Import ListNotations.

Definition nx (s : stack) (p : poll) : stack := fst (fst (pop_next s p)).
Definition ctl (s : stack) (p : poll) : control := snd (fst (pop_next s p)).
Definition cl (s : stack) (p : poll) : call := snd (pop_next s p).

Lemma pop_eq s p : pop_next s p = (nx s p, ctl s p, cl s p).
Proof. unfold nx, ctl, cl. destruct (pop_next s p) as [[a b] c]. reflexivity. Qed.

(* all states + histories reachable from `new n` by arbitrary pop_next calls (re-polls after Pending,
   after Error and after Finished included) *)
Inductive reach (n : nat) : stack -> list ev -> Prop :=
| reach_new s0 : new n = Some s0 -> reach n s0 []
| reach_pop s h p : reach n s h -> reach n (nx s p) (ev_of (cl s p) p ++ h).

(* the same, as a script run (what the correspondence driver executes) *)
Fixpoint run_h (s : stack) (h : list ev) (script : list poll) : stack * list ev :=
  match script with
  | [] => (s, h)
  | p :: more => run_h (nx s p) (ev_of (cl s p) p ++ h) more
  end.

Lemma reach_run_h n script : forall s h, reach n s h -> reach n (fst (run_h s h script)) (snd (run_h s h script)).
Proof.
  induction script as [|p more IH]; intros s h R; cbn [run_h]; [exact R|].
  apply IH. apply reach_pop. exact R.
Qed.

Definition mk (n : nat) : stack := {| nops := n; instrs := [IExec 0 true]; ntf := 1 |}.

(* case analysis of one pop_next; leaves one goal per source branch *)
Ltac pop_cases s p :=
  let n0 := fresh "n0" in let l := fresh "l" in let f0 := fresh "f0" in let op := fresh "op" in
  let st := fresh "st" in let rest := fresh "rest" in
  let Ea := fresh "Ea" in let Ef := fresh "Ef" in let Ez := fresh "Ez" in
  unfold nx, ctl, cl, pop_next in *; destruct s as [n0 l f0]; cbn [instrs nops ntf] in *;
  destruct l as [|[op st|op|op] rest];
  [ | destruct (on_exec p) as [[| | | |]|] eqn:Ea
    | destruct (Nat.eqb_spec op 0) as [Ez|Ez]; [|destruct (on_fin p) as [[| |]|] eqn:Ef]
    | destruct (on_fin p) as [[| |]|] eqn:Ef ];
  unfold is_last, with_instrs, with_both in *; cbn [nops instrs ntf fst snd] in *;
  repeat match goal with
  | |- context [?a =? ?b] => destruct (Nat.eqb_spec a b)
  | H : context [?a =? ?b] |- _ => destruct (Nat.eqb_spec a b)
  end; cbn [nops instrs ntf fst snd] in *.

(* ---------- 1. re-poll after Pending goes to the operator that parked ---------- *)
Theorem stack_replays_after_pending s p s' c :
  pop_next s p = (s', Pending, c) ->
  s' = s /\ (exists op, c = CExec op \/ c = CFin op) /\
  forall p', cl s' p' = c.
Proof.
  intros H. pop_cases s p; inversion H; subst; clear H.
  - split; [reflexivity|]. split; [eexists; left; reflexivity|].
    intros p'. unfold cl, pop_next. cbn [instrs]. unfold is_last. cbn [nops].
    destruct (on_exec p') as [[| | | |]|]; try reflexivity; destruct (op =? n0 - 1); reflexivity.
  - split; [reflexivity|]. split; [eexists; right; reflexivity|].
    intros p'. unfold cl, pop_next. cbn [instrs]. unfold is_last. cbn [nops].
    destruct (Nat.eqb_spec op 0); [contradiction|].
    destruct (on_fin p') as [[| |]|]; try reflexivity; destruct (op =? n0 - 1); reflexivity.
  - split; [reflexivity|]. split; [eexists; right; reflexivity|].
    intros p'. unfold cl, pop_next. cbn [instrs].
    destruct (on_fin p') as [[| |]|]; reflexivity.
Qed.
Example stack_replays_after_pending_hyps :
  exists s p s' c, pop_next s p = (s', Pending, c).
Proof.
  exists (mk 2), {| on_exec := ROk XPending; on_fin := RErr |}.
  eexists. eexists. reflexivity.
Qed.

(* ---------- shape of reachable stacks ---------- *)
(* the stack without its IAbandon instructions behaves exactly like the pre-131551599 stack *)
Fixpoint strip (l : list instr) : list instr :=
  match l with
  | [] => []
  | IAbandon _ :: r => strip r
  | x :: r => x :: strip r
  end.

Lemma strip_abandons l tl : strip (map IAbandon l ++ tl) = strip tl.
Proof. induction l as [|a l IH]; cbn [map app strip]; auto. Qed.

Definition iop (x : instr) : nat := match x with IExec op _ => op | IFin op => op | IAbandon op => op end.
Definition is_upper (x : instr) : bool := match x with IExec _ false => true | _ => false end.
Definition rank (x : instr) : nat :=
  match x with IExec i false => 2 * i | IExec i true => 2 * i + 1 | IFin b => 2 * b - 1 | IAbandon _ => 0 end.

(* (of the stripped stack) head = top.  Only the bottom element may be a pipeline start or a
   finalize; everything above is a non-start execute; ranks strictly decrease downwards. *)
Fixpoint wf (n : nat) (l : list instr) : Prop :=
  match l with
  | [] => True
  | x :: rest =>
      iop x < n /\ (match x with IFin b => 1 <= b | IAbandon _ => False | _ => True end) /\
      (match rest with [] => True | y :: _ => is_upper x = true /\ rank y < rank x end) /\
      wf n rest
  end.

Lemma wf_tail n x l : wf n (x :: l) -> wf n l.
Proof. cbn [wf]. tauto. Qed.

(* where IAbandon instructions sit: in increasing operator order going down, directly above the
   IFin at the bottom, never above an execute; IFin and pipeline starts are at the very bottom *)
Definition ab_head (x : instr) (rest : list instr) : Prop :=
  match x, rest with
  | IAbandon j, IAbandon j' :: _ => j < j'
  | IAbandon j, IFin b :: _ => j + 2 <= b
  | IAbandon j, IExec _ _ :: _ => False
  | IFin _, _ :: _ => False
  | IExec _ true, _ :: _ => False
  | _, _ => True
  end.
Fixpoint ab_ok (l : list instr) : Prop :=
  match l with [] => True | x :: rest => ab_head x rest /\ ab_ok rest end.

Lemma ab_ok_tail x l : ab_ok (x :: l) -> ab_ok l.
Proof. cbn [ab_ok]. tauto. Qed.

Lemma ab_ok_seq b : forall len a, len = 0 \/ a + len + 1 <= b -> ab_ok (map IAbandon (seq a len) ++ [IFin b]).
Proof.
  induction len as [|len IH]; intros a H; cbn [seq map app ab_ok ab_head]; [auto|].
  destruct H as [H|H]; [discriminate|].
  split; [|apply IH; right; lia]. destruct len; cbn [seq map app]; lia.
Qed.

Definition is_exec (x : instr) : bool := match x with IExec _ _ => true | _ => false end.

Lemma ab_above : forall rest j, ab_ok (IAbandon j :: rest) ->
  Forall (fun y => is_exec y = false /\ j < iop y) rest.
Proof.
  induction rest as [|y r IH]; intros j H; [constructor|].
  cbn [ab_ok] in H. destruct H as (H1 & H2 & H3).
  destruct y as [i st|b|j']; cbn [ab_head] in H1; [contradiction| |].
  - constructor; [cbn; split; [reflexivity|lia]|]. destruct r; [constructor|cbn [ab_head] in H2; contradiction].
  - constructor; [cbn; split; [reflexivity|lia]|].
    assert (A : ab_ok (IAbandon j' :: r)) by (cbn [ab_ok]; auto).
    eapply Forall_impl; [|apply (IH j' A)]. cbn. intros w [W1 W2]. split; [exact W1|lia].
Qed.

(* ---------- history bookkeeping ---------- *)
Definition fe_of (e : ev) : nat :=
  match e with
  | EvExec i (ROk XExhausted) => S i
  | EvFin j (ROk FFinalized) => S j
  | EvFin j (ROk FNeedsDrain) => j
  | _ => 0
  end.
Definition ff_of (e : ev) : nat :=
  match e with
  | EvFin j (ROk FFinalized) => S j
  | EvFin j (ROk FNeedsDrain) => S j
  | _ => 0
  end.
(* lowest operator that may still be executed / finalized after history h *)
Fixpoint floor_e (h : list ev) : nat := match h with [] => 0 | e :: pre => Nat.max (fe_of e) (floor_e pre) end.
Fixpoint floor_f (h : list ev) : nat := match h with [] => 0 | e :: pre => Nat.max (ff_of e) (floor_f pre) end.

(* why a handle_finalize(j) call is legitimate: the predecessor is exhausted or finalized
   (FinalizeOperator), or some operator downstream of j is exhausted (AbandonOperator) *)
Definition justified (j : nat) (h : list ev) : Prop :=
  In (EvExec (j - 1) (ROk XExhausted)) h \/ In (EvFin (j - 1) (ROk FFinalized)) h \/
  exists k, j < k /\ In (EvExec k (ROk XExhausted)) h.

Definition ev_ok (pre : list ev) (e : ev) : Prop :=
  match e with
  | EvExec i _ => floor_e pre <= i
  | EvFin j _ => floor_f pre <= j /\ 1 <= j /\ justified j pre
  end.
Fixpoint hist_ok (h : list ev) : Prop :=
  match h with [] => True | e :: pre => ev_ok pre e /\ hist_ok pre end.

Definition instr_ok (f : nat) (h : list ev) (x : instr) : Prop :=
  match x with
  | IExec op _ => floor_e h <= op /\ f <= S op
  | IFin b => floor_f h <= b /\ floor_e h <= b /\ justified b h /\ f <= b
  | IAbandon j => floor_f h <= j /\ 1 <= j /\ f <= j /\ S (S j) <= floor_e h /\ justified j h
  end.

Definition ev_op (e : ev) : nat := match e with EvExec i _ => i | EvFin j _ => j end.

Lemma floor_e_app post pre : floor_e pre <= floor_e (post ++ pre).
Proof. induction post as [|e post IH]; cbn [app floor_e]; lia. Qed.
Lemma floor_f_app post pre : floor_f pre <= floor_f (post ++ pre).
Proof. induction post as [|e post IH]; cbn [app floor_f]; lia. Qed.

Lemma justified_cons j e h : justified j h -> justified j (e :: h).
Proof. unfold justified. cbn [In]. intros [H|[H|(k & K1 & K2)]]; auto. right. right. exists k. auto. Qed.

(* pushing an event that moves neither floor *)
Lemma instr_ok_ev f e h x :
  floor_e (e :: h) = floor_e h -> floor_f (e :: h) = floor_f h -> instr_ok f h x -> instr_ok f (e :: h) x.
Proof.
  intros A B. destruct x as [op st|b|j]; cbn [instr_ok]; rewrite A, ?B; [auto| |].
  - intros (H1 & H2 & H3 & H4). repeat split; auto. apply justified_cons; exact H3.
  - intros (H1 & H2 & H3 & H4 & H5). repeat split; auto. apply justified_cons; exact H5.
Qed.
Lemma Forall_instr_ok_ev f e h l :
  floor_e (e :: h) = floor_e h -> floor_f (e :: h) = floor_f h ->
  Forall (instr_ok f h) l -> Forall (instr_ok f (e :: h)) l.
Proof. intros A B F. eapply Forall_impl; [|exact F]. intros x. apply instr_ok_ev; assumption. Qed.

(* pushing a completing abandon-finalize of j0: floor_e unchanged, floor_f and ntf rise to S j0 *)
Lemma instr_ok_ev_ab f e h x j0 :
  floor_e (e :: h) = floor_e h -> floor_f (e :: h) <= Nat.max (S j0) (floor_f h) ->
  is_exec x = false /\ j0 < iop x -> instr_ok f h x -> instr_ok (Nat.max f (S j0)) (e :: h) x.
Proof.
  intros A B [C1 C2]. destruct x as [op st|b|j]; cbn [instr_ok iop] in *; rewrite A; [discriminate| |].
  - intros (H1 & H2 & H3 & H4). repeat split; auto; [lia | apply justified_cons; exact H3 | lia].
  - intros (H1 & H2 & H3 & H4 & H5). repeat split; auto; [lia | lia | apply justified_cons; exact H5].
Qed.

Definition Xh (k : nat) : ev := EvExec k (ROk XExhausted).

Record SInv (n : nat) (s : stack) (h : list ev) : Prop := {
  si_n : nops s = n;
  si_pos : 1 <= n;
  si_wf : wf n (strip (instrs s));
  si_ab : ab_ok (instrs s);
  si_f1 : 1 <= ntf s;
  si_ff : floor_f h <= ntf s;
  si_ok : Forall (instr_ok (ntf s) h) (instrs s);
  si_h : hist_ok h;
  si_exh : forall k, In (Xh k) h -> S k <= floor_e h
}.

Lemma sinv_new n s0 : new n = Some s0 -> SInv n s0 [].
Proof.
  unfold new. destruct (Nat.eqb_spec n 0) as [E|E]; [discriminate|]. intros H; inversion H; subst; clear H.
  constructor; cbn [nops instrs ntf strip wf hist_ok iop ab_ok ab_head floor_f]; try lia; auto;
    first [ repeat split; auto; lia | constructor; [cbn; lia | constructor] | intros k [] ].
Qed.

Ltac inv_forall :=
  repeat match goal with
  | H : Forall _ (_ :: _) |- _ => inversion H; subst; clear H
  end.

Ltac exh_tac Hexh :=
  let k := fresh "k" in let E := fresh "E" in
  intros k [E|E]; cbn [floor_e];
  [ unfold Xh in E; try discriminate E; inversion E; subst; cbn [fe_of]; lia
  | pose proof (Hexh k E); lia ].
Ltac ok_same :=
  first [ apply Forall_instr_ok_ev; [reflexivity|reflexivity|assumption]
        | apply instr_ok_ev; [reflexivity|reflexivity|cbn [instr_ok]; auto] ].
Ltac abh := cbn [ab_ok ab_head]; auto.

Ltac s9 Hpos Hexh :=
  constructor; cbn [nops instrs ntf];
  [> reflexivity | exact Hpos | | | lia | (cbn [floor_f ff_of]; lia) |
   | (cbn [hist_ok ev_ok]; repeat split; try tauto; lia) | exh_tac Hexh ].

Lemma sinv_pop n s h p : SInv n s h -> SInv n (nx s p) (ev_of (cl s p) p ++ h).
Proof.
  intros [Hn Hpos Hwf Hab Hf1 Hff Hok Hh Hexh].
  pop_cases s p; subst; cbn [ev_of app]; try rewrite Ea; try rewrite Ef;
    pose proof Hok as Hok0; inv_forall; cbn [instr_ok] in *; cbn [strip] in Hwf;
    pose proof Hwf as Hwf0; cbn [wf iop] in Hwf; pose proof Hab as Hab0; cbn [ab_ok] in Hab.
  - (* empty *) constructor; cbn [nops instrs ntf]; auto.
  - (* Ready, last *)
    destruct Hwf as (W1 & W2 & W3 & W4). destruct Hab as [Ha1 Ha2]. s9 Hpos Hexh.
    + destruct st; cbn [strip]; [exact Hwf0 | exact W4].
    + destruct st; [exact Hab0 | exact Ha2].
    + destruct st; [constructor; [ok_same|]|]; ok_same.
  - (* Ready, not last *)
    destruct Hwf as (W1 & W2 & W3 & W4). destruct Hab as [Ha1 Ha2]. s9 Hpos Hexh.
    + destruct st; cbn [strip].
      * cbn [wf iop is_upper rank]. destruct (strip rest); [|destruct W3; discriminate]. repeat split; auto; lia.
      * cbn [wf iop is_upper rank]. split; [lia|]. split; [auto|]. split; [|exact W4].
        destruct (strip rest) as [|y r]; [auto|]. destruct W3 as [_ W3]. cbn [rank] in W3. split; [reflexivity|lia].
    + destruct st; abh.
    + destruct st.
      * constructor; [cbn [instr_ok floor_e fe_of]; lia|]. constructor; ok_same.
      * constructor; [cbn [instr_ok floor_e fe_of]; lia | ok_same].
  - (* exec Pending *)
    s9 Hpos Hexh; [exact Hwf0 | exact Hab0 | constructor; ok_same].
  - (* NeedsMore *)
    s9 Hpos Hexh; [eapply wf_tail; exact Hwf0 | tauto | ok_same].
  - (* HasMore, last: error, instruction pushed back *)
    s9 Hpos Hexh; [exact Hwf0 | exact Hab0 | constructor; ok_same].
  - (* HasMore, not last *)
    destruct Hwf as (W1 & W2 & W3 & W4). s9 Hpos Hexh.
    + cbn [strip wf iop is_upper rank]. split; [lia|]. split; [auto|].
      split; [split; [reflexivity|destruct st; lia]|]. auto.
    + abh.
    + constructor; [cbn [instr_ok floor_e fe_of]; lia|]. constructor; ok_same.
  - (* Exhausted, last *)
    s9 Hpos Hexh; [exact I | exact I | constructor].
  - (* Exhausted, not last *)
    destruct Hwf as (W1 & W2 & W3 & W4). s9 Hpos Hexh.
    + cbn [strip]. rewrite strip_abandons. cbn [strip wf iop is_upper rank]. repeat split; auto; lia.
    + cbn [ab_ok]. split; [exact I|]. apply ab_ok_seq. lia.
    + constructor; [cbn [instr_ok floor_e fe_of]; lia|].
      apply Forall_app. split.
      * apply Forall_forall. intros x Hx. apply in_map_iff in Hx. destruct Hx as (j & Ej & Hj).
        apply in_seq in Hj. subst x. cbn [instr_ok floor_e floor_f fe_of ff_of].
        repeat split; try lia. right. right. exists op. split; [lia | left; reflexivity].
      * constructor; [|constructor]. cbn [instr_ok floor_e floor_f fe_of ff_of].
        repeat split; try lia.
        left. replace (S op - 1) with op by lia. left. reflexivity.
  - (* exec RErr *)
    s9 Hpos Hexh; [eapply wf_tail; exact Hwf0 | tauto | ok_same].
  - (* IFin 0: panic *)
    constructor; cbn [nops instrs ntf]; auto; [eapply wf_tail; exact Hwf0 | tauto].
  - (* Finalized, last *)
    destruct Hab as [Ha1 Ha2]. destruct rest; [|cbn [ab_head] in Ha1; contradiction].
    s9 Hpos Hexh; [exact I | exact I | constructor].
  - (* Finalized, not last *)
    destruct Hwf as (W1 & W2 & W3 & W4). destruct Hab as [Ha1 Ha2].
    destruct rest; [|cbn [ab_head] in Ha1; contradiction]. s9 Hpos Hexh.
    + cbn [strip wf iop]. repeat split; auto; lia.
    + abh.
    + constructor; [|constructor]. cbn [instr_ok floor_e floor_f fe_of ff_of].
      repeat split; try lia. right. left. replace (S op - 1) with op by lia. left. reflexivity.
  - (* NeedsDrain, last: error *)
    destruct Hab as [Ha1 Ha2]. destruct rest; [|cbn [ab_head] in Ha1; contradiction].
    s9 Hpos Hexh; [exact I | exact I | constructor].
  - (* NeedsDrain, not last *)
    destruct Hwf as (W1 & W2 & W3 & W4). destruct Hab as [Ha1 Ha2].
    destruct rest; [|cbn [ab_head] in Ha1; contradiction]. s9 Hpos Hexh.
    + cbn [strip wf iop]. repeat split; auto; lia.
    + abh.
    + constructor; [|constructor]. cbn [instr_ok floor_e fe_of]. lia.
  - (* fin Pending *)
    s9 Hpos Hexh; [exact Hwf0 | exact Hab0 |].
    constructor; [apply instr_ok_ev; [reflexivity|reflexivity|cbn [instr_ok]; tauto] | ok_same].
  - (* fin RErr *)
    s9 Hpos Hexh; [eapply wf_tail; exact Hwf0 | tauto | ok_same].
  - (* abandon Finalized *)
    pose proof (ab_above _ _ Hab0) as AB. destruct Hab as [Ha1 Ha2].
    s9 Hpos Hexh; [exact Hwf0 | exact Ha2 |].
    apply Forall_forall. intros x Hx.
    apply (instr_ok_ev_ab _ _ _ _ op); [cbn [floor_e fe_of]; lia | cbn [floor_f ff_of]; lia | |].
    + rewrite Forall_forall in AB. apply AB. exact Hx.
    + match goal with H : Forall _ rest |- _ => rewrite Forall_forall in H; apply H; exact Hx end.
  - (* abandon NeedsDrain *)
    pose proof (ab_above _ _ Hab0) as AB. destruct Hab as [Ha1 Ha2].
    s9 Hpos Hexh; [exact Hwf0 | exact Ha2 |].
    apply Forall_forall. intros x Hx.
    apply (instr_ok_ev_ab _ _ _ _ op); [cbn [floor_e fe_of]; lia | cbn [floor_f ff_of]; lia | |].
    + rewrite Forall_forall in AB. apply AB. exact Hx.
    + match goal with H : Forall _ rest |- _ => rewrite Forall_forall in H; apply H; exact Hx end.
  - (* abandon Pending *)
    s9 Hpos Hexh; [exact Hwf0 | exact Hab0 |].
    constructor; [apply instr_ok_ev; [reflexivity|reflexivity|cbn [instr_ok]; tauto] | ok_same].
  - (* abandon RErr *)
    s9 Hpos Hexh; [exact Hwf0 | tauto | ok_same].
Qed.

Lemma sinv_reach n s h : reach n s h -> SInv n s h.
Proof. induction 1 as [s0 H|s h p R IH]; [apply sinv_new; exact H | apply sinv_pop; exact IH]. Qed.

Lemma hist_ok_app post pre : hist_ok (post ++ pre) -> hist_ok pre.
Proof. induction post as [|e post IH]; cbn [app hist_ok]; [auto | intros [_ H]; auto]. Qed.

Lemma hist_ok_mid post e pre : hist_ok (post ++ e :: pre) -> ev_ok pre e.
Proof. intros H. apply hist_ok_app in H. cbn [hist_ok] in H. tauto. Qed.

Lemma floor_f_mid post e pre : ff_of e <= floor_f (post ++ e :: pre).
Proof. pose proof (floor_f_app post (e :: pre)). cbn [floor_f] in *. lia. Qed.
Lemma floor_e_mid post e pre : fe_of e <= floor_e (post ++ e :: pre).
Proof. pose proof (floor_e_app post (e :: pre)). cbn [floor_e] in *. lia. Qed.

(* ---------- 3. finalize: once, in order, only when justified ---------- *)
Definition fin_completes (a : res pfin) : bool :=
  match a with ROk FFinalized | ROk FNeedsDrain => true | _ => false end.

(* handle_finalize calls come from FinalizeOperator AND AbandonOperator; the history does not
   distinguish them, and the theorem covers both:
   (a) once handle_finalize(j) has answered Finalized/NeedsDrain, every later handle_finalize call
       (whatever it answers, from either instruction) is for a strictly larger operator: every
       operator receives AT MOST ONE completing finalize, and all completing finalizes of a run
       happen in strictly increasing operator order (in particular the abandon-finalizes of
       ntf..k-1 run in increasing order and all before IFin (S k));
   (b) handle_finalize(j) is only ever called when j >= 1 and operator j-1 answered Exhausted, or
       finalize (j-1) answered Finalized, or (abandon) some operator k > j answered Exhausted. *)
Theorem stack_finalize_once_in_order n s h :
  reach n s h ->
  (forall post k b mid j a pre,
     h = post ++ EvFin k b :: mid ++ EvFin j a :: pre -> fin_completes a = true -> j < k) /\
  (forall post j a pre,
     h = post ++ EvFin j a :: pre ->
     1 <= j /\ (In (EvExec (j - 1) (ROk XExhausted)) pre \/ In (EvFin (j - 1) (ROk FFinalized)) pre \/
                exists k, j < k /\ In (EvExec k (ROk XExhausted)) pre)).
Proof.
  intros R. pose proof (si_h _ _ _ (sinv_reach _ _ _ R)) as Hh. split.
  - intros post k b mid j a pre E Ha. subst h.
    apply hist_ok_mid in Hh. cbn [ev_ok] in Hh. destruct Hh as (F & _ & _).
    pose proof (floor_f_mid mid (EvFin j a) pre) as M.
    destruct a as [[| |]|]; try discriminate; cbn [ff_of] in M; lia.
  - intros post j a pre E. subst h. apply hist_ok_mid in Hh. cbn [ev_ok] in Hh. tauto.
Qed.
Definition px (a : pexec) : poll := {| on_exec := ROk a; on_fin := ROk FFinalized |}.
Example stack_finalize_once_in_order_hyps :
  exists n s h post k b mid j a pre, reach n s h /\
    h = post ++ EvFin k b :: mid ++ EvFin j a :: pre /\ fin_completes a = true.
Proof.
  pose (r := run_h (mk 3) [] [px XExhausted; px XNeedsMore; px XReady; px XReady]).
  exists 3, (fst r), (snd r), [], 2, (ROk FFinalized), [], 1, (ROk FFinalized),
    [EvExec 1 (ROk XNeedsMore); EvExec 0 (ROk XExhausted)].
  split; [apply reach_run_h; apply reach_new; reflexivity | split; reflexivity].
Qed.

(* an operator that answered Exhausted, and every operator upstream of it, is never EXECUTED again
   (upstream operators may still be finalized by AbandonOperator) *)
Theorem stack_exhausted_ops_never_run_again n s h :
  reach n s h ->
  forall post i pre j a, h = post ++ EvExec i (ROk XExhausted) :: pre -> In (EvExec j a) post -> i < j.
Proof.
  intros R post i pre j a E Hin. pose proof (si_h _ _ _ (sinv_reach _ _ _ R)) as Hh. subst h.
  destruct (in_split _ _ Hin) as (x & y & Eab). subst post.
  rewrite <- app_assoc in Hh. cbn [app] in Hh. apply hist_ok_mid in Hh.
  pose proof (floor_e_mid y (EvExec i (ROk XExhausted)) pre) as Me.
  cbn [fe_of ev_ok] in *. lia.
Qed.
Example stack_exhausted_ops_never_run_again_hyps :
  exists n s h post i pre j a, reach n s h /\ h = post ++ EvExec i (ROk XExhausted) :: pre /\ In (EvExec j a) post.
Proof.
  pose (r := run_h (mk 2) [] [px XExhausted; px XNeedsMore]).
  exists 2, (fst r), (snd r), [EvExec 1 (ROk XNeedsMore)], 0, [], 1, (ROk XNeedsMore).
  split; [apply reach_run_h; apply reach_new; reflexivity | split; [reflexivity | left; reflexivity]].
Qed.

(* ---------- 4b. Finished is final ---------- *)
Theorem stack_finished_is_final n s h p s' j :
  reach n s h -> pop_next s p = (s', Finished, CFin j) ->
  is_last s j = true /\ on_fin p = ROk FFinalized /\ instrs s' = [] /\
  forall p', pop_next s' p' = (s', Finished, CNone).
Proof.
  intros R H. pose proof (si_ab _ _ _ (sinv_reach _ _ _ R)) as Hab. revert H.
  pop_cases s p; intros H; inversion H; subst; clear H; try congruence.
  cbn [ab_ok] in Hab. destruct Hab as [Ha1 _].
  destruct rest; [|cbn [ab_head] in Ha1; contradiction].
  split; [first [reflexivity | apply Nat.eqb_refl]|]. split; [reflexivity|]. split; [reflexivity|]. intros p'. reflexivity.
Qed.
Example stack_finished_is_final_hyps :
  exists n s h p s' j, reach n s h /\ pop_next s p = (s', Finished, CFin j).
Proof.
  pose (r := run_h (mk 2) [] [px XExhausted; px XNeedsMore]).
  exists 2, (fst r), (snd r), (px XReady). eexists. exists 1.
  split; [apply reach_run_h; apply reach_new; reflexivity | reflexivity].
Qed.

(* ---------- pipeline level ---------- *)
Lemma pipe_done_taken answers : forall pl pl' rest evs,
  pipe_poll pl answers = (pl', PDone, rest, evs) -> profile_taken pl' = true.
Proof.
  induction answers as [|p more IH]; intros pl pl' rest evs H.
  - cbn [pipe_poll] in H. destruct (profile_taken pl); [discriminate|].
    destruct (instrs (pstack pl)); inversion H; subst; reflexivity.
  - cbn [pipe_poll] in H. destruct (profile_taken pl); [discriminate|].
    destruct (pop_next (pstack pl) p) as [[s1 c1] k1].
    destruct c1; try (inversion H; subst; reflexivity; fail); try discriminate.
    destruct (pipe_poll {| pstack := s1; profile_taken := false |} more) as [[[pl2 r2] rest2] evs2] eqn:E.
    inversion H; subst. eapply IH. exact E.
Qed.

(* after Ready(Ok) every later poll_execute answers the "already completed" error, makes no
   operator call, consumes nothing and leaves the pipeline as it is: forever *)
Theorem pipe_completed_stays_completed pl answers pl' rest evs :
  pipe_poll pl answers = (pl', PDone, rest, evs) ->
  forall answers', pipe_poll pl' answers' = (pl', PErrCompleted, answers', []).
Proof.
  intros H answers'. pose proof (pipe_done_taken _ _ _ _ _ H) as T.
  destruct answers'; cbn [pipe_poll]; rewrite T; reflexivity.
Qed.
Example pipe_completed_stays_completed_hyps :
  exists pl answers pl' rest evs, pipe_poll pl answers = (pl', PDone, rest, evs).
Proof.
  exists {| pstack := mk 2; profile_taken := false |}, [px XExhausted; px XNeedsMore; px XReady].
  eexists. eexists. eexists. reflexivity.
Qed.

(* poll_execute does not remember that it returned an error: a second call continues with whatever
   pop_next left on the stack and calls operators again. *)
Theorem pipe_repoll_after_error_continues :
  exists s0 answers pl' e rest evs,
    new 2 = Some s0 /\
    pipe_poll {| pstack := s0; profile_taken := false |} answers = (pl', PErr e, rest, evs) /\
    exists answers2 pl'' r rest2 evs2,
      pipe_poll pl' answers2 = (pl'', r, rest2, evs2) /\ evs2 <> [].
Proof.
  pose (py := fun a => {| on_exec := a; on_fin := RErr |}).
  eexists. exists [py (ROk XReady); py RErr]. eexists. eexists. eexists. eexists.
  split; [reflexivity|]. split; [vm_compute; reflexivity|].
  exists [py (ROk XPending)]. eexists. eexists. eexists. eexists.
  split; [vm_compute; reflexivity | discriminate].
Qed.
(* worse: after an operator error a re-poll can report SUCCESS (Ready(Ok)) without any finalize *)
Theorem pipe_repoll_after_error_can_report_done :
  exists s0 answers pl' e rest evs,
    new 2 = Some s0 /\
    pipe_poll {| pstack := s0; profile_taken := false |} answers = (pl', PErr e, rest, evs) /\
    exists pl'' rest2, pipe_poll pl' [] = (pl'', PDone, rest2, []).
Proof.
  pose (py := fun a => {| on_exec := a; on_fin := RErr |}).
  eexists. exists [py RErr]. eexists. eexists. eexists. eexists.
  split; [reflexivity|]. split; [vm_compute; reflexivity|].
  eexists. eexists. vm_compute. reflexivity.
Qed.

(* ---------- Exhausted at k finalizes every not-yet-finalized upstream operator ---------- *)
Definition fin_done (h : list ev) (j : nat) : bool :=
  existsb (fun e => match e with EvFin j' a => (j' =? j) && fin_completes a | _ => false end) h.
Definition exhausted (h : list ev) (j : nat) : bool :=
  existsb (fun e => match e with EvExec j' (ROk XExhausted) => j' =? j | _ => false end) h.

(* Remark (machine of commit 131551599, before c83fc4e4d): there next_to_finalize was advanced to k
   already when k answered Exhausted, and the statement below was REFUTED with n = 5:
   Ready(0) Ready(1) Exhausted(2) Exhausted(3) NeedsMore(4) Finalized(abandon 2) Finalized(fin 4)
   -> Finished, operator 1 never finalized (the second Exhausted cleared the pending Abandon 1 and
   the new range ntf..3 = {2} no longer contained it).  On the present machine the same script
   re-creates Abandon 1; see stack_exhausted_op_itself_finalized_only_by_later_exhaust. *)

Definition has_abandon (l : list instr) : bool :=
  existsb (fun x => match x with IAbandon _ => true | _ => false end) l.
(* The discipline: (i) no AbandonOperator's handle_finalize fails (RErr pops the instruction
   unfinalized); (ii) the SINK does not answer Exhausted while an IAbandon is pending (that is a
   pop_next error, "Last operator returned Exhausted", which clears the stack).  Both are implied by
   "pop_next never returns Err" (no_error_step_ok); nothing is assumed about execute RErr, finalize
   RErr of FinalizeOperator, or later Exhausted answers of non-sink operators. *)
Definition ab_step_ok (s : stack) (p : poll) : bool :=
  match instrs s with
  | IAbandon _ :: _ => match on_fin p with RErr => false | _ => true end
  | IExec op _ :: _ =>
      match on_exec p with
      | ROk XExhausted => negb (is_last s op && has_abandon (instrs s))
      | _ => true
      end
  | _ => true
  end.

Lemma no_error_step_ok s p : (forall e, ctl s p <> Error e) -> ab_step_ok s p = true.
Proof.
  unfold ab_step_ok.
  pop_cases s p; intros H; try reflexivity; try (exfalso; eapply H; reflexivity).
Qed.

Inductive reachD (n : nat) : stack -> list ev -> Prop :=
| reachD_new s0 : new n = Some s0 -> reachD n s0 []
| reachD_pop s h p : reachD n s h -> ab_step_ok s p = true -> reachD n (nx s p) (ev_of (cl s p) p ++ h).

Lemma reachD_reach n s h : reachD n s h -> reach n s h.
Proof. induction 1; [apply reach_new; assumption | apply reach_pop; assumption]. Qed.

Lemma fin_done_cons e h j : fin_done h j = true -> fin_done (e :: h) j = true.
Proof. unfold fin_done. cbn [existsb]. intros H. rewrite H. apply orb_true_r. Qed.
Lemma exhausted_cons e h j : exhausted h j = true -> exhausted (e :: h) j = true.
Proof. unfold exhausted. cbn [existsb]. intros H. rewrite H. apply orb_true_r. Qed.
Lemma exhausted_in h k : In (Xh k) h -> exhausted h k = true.
Proof.
  unfold exhausted. intros H. apply existsb_exists. exists (Xh k). split; [exact H|].
  cbn. apply Nat.eqb_refl.
Qed.
Lemma has_abandon_false l j : has_abandon l = false -> ~ In (IAbandon j) l.
Proof.
  induction l as [|x l IH]; cbn [has_abandon existsb In]; [tauto|].
  destruct x; cbn [orb]; try discriminate; intros H [E|E]; try discriminate; apply IH; assumption.
Qed.

(* the pending abandons are exactly the contiguous range starting at next_to_finalize, and the
   FinalizeOperator below them is for the next operator, or skips exactly one EXHAUSTED operator *)
Fixpoint gap_ok (h : list ev) (l : list instr) (f : nat) : Prop :=
  match l with
  | [] => True
  | IExec _ _ :: rest => gap_ok h rest f
  | IAbandon j :: rest => j = f /\ gap_ok h rest (S j)
  | IFin b :: _ => b = f \/ (b = S f /\ exhausted h f = true)
  end.

Lemma gap_ok_cons e h : forall l f, gap_ok h l f -> gap_ok (e :: h) l f.
Proof.
  induction l as [|x l IH]; intros f; cbn [gap_ok]; [auto|].
  destruct x as [op st|b|j]; [apply IH | | intros [A B]; split; [exact A | apply IH; exact B]].
  intros [A|[A B]]; [left; exact A | right; split; [exact A | apply exhausted_cons; exact B]].
Qed.

Lemma gap_ok_seq h b : forall len a,
  (b = a + len \/ (b = S (a + len) /\ exhausted h (a + len) = true)) ->
  gap_ok h (map IAbandon (seq a len) ++ [IFin b]) a.
Proof.
  induction len as [|len IH]; intros a H; cbn [seq map app gap_ok].
  - rewrite Nat.add_0_r in H. exact H.
  - split; [reflexivity|]. apply IH. replace (S a + len) with (a + S len) by lia. exact H.
Qed.

Record CInv (n : nat) (s : stack) (h : list ev) : Prop := {
  c_done : forall j, 1 <= j < ntf s -> fin_done h j = true \/ exhausted h j = true;
  c_gap : gap_ok h (instrs s) (ntf s);
  c_pend : forall k, In (Xh k) h -> k <> n - 1 -> forall j, ntf s <= j < k -> In (IAbandon j) (instrs s)
}.

Lemma cinv_fin_complete f b h a :
  (b = f \/ (b = S f /\ exhausted h f = true)) ->
  (forall j, 1 <= j < f -> fin_done h j = true \/ exhausted h j = true) ->
  fin_completes a = true ->
  forall j, 1 <= j < Nat.max f (S b) ->
    fin_done (EvFin b a :: h) j = true \/ exhausted (EvFin b a :: h) j = true.
Proof.
  intros G C Hc j Hj. destruct (Nat.eq_dec j b) as [E|E].
  - left. subst j. unfold fin_done. cbn [existsb]. rewrite Nat.eqb_refl, Hc. reflexivity.
  - destruct (le_lt_dec f j) as [L|L].
    + right. apply exhausted_cons. destruct G as [G|[G1 G2]]; [lia|]. replace j with f by lia. exact G2.
    + destruct (C j (conj (proj1 Hj) L)) as [D|X];
        [left; apply fin_done_cons; exact D | right; apply exhausted_cons; exact X].
Qed.

Ltac c_weak C1 C2 C3 :=
  constructor; cbn [nops instrs ntf];
  [ let j := fresh "j" in let Hj := fresh "Hj" in let D := fresh "D" in
    intros j Hj; destruct (C1 j Hj) as [D|D];
    [ left; first [exact D | apply fin_done_cons; exact D]
    | right; first [exact D | apply exhausted_cons; exact D] ]
  | first [ exact C2 | apply gap_ok_cons; exact C2 | (cbn [gap_ok]; exact I) ]
  | let k := fresh "k" in let E := fresh "E" in let Hk := fresh "Hk" in
    let j := fresh "j" in let Hj := fresh "Hj" in let Q := fresh "Q" in
    intros k E Hk j Hj;
    try (destruct E as [E|E]; [unfold Xh in E; discriminate E|]);
    pose proof (C3 k E Hk j Hj) as Q;
    first [ exact Q | cbn [In] in *; destruct Q as [Q|Q]; [discriminate Q|]; tauto ] ].

Lemma cinv_step n s h p :
  reach n s h -> CInv n s h -> ab_step_ok s p = true -> CInv n (nx s p) (ev_of (cl s p) p ++ h).
Proof.
  intros R. pose proof (sinv_reach _ _ _ R) as [Hn Hpos Hwf Hab Hf1 Hff Hok Hh Hexh]. clear R.
  intros [C1 C2 C3]. unfold ab_step_ok.
  pop_cases s p; intros Hd; subst; cbn [ev_of app]; try rewrite Ea; try rewrite Ef;
    try discriminate Hd; inv_forall; cbn [instr_ok] in *; cbn [nops instrs ntf] in *.
  - (* empty *) constructor; assumption.
  - (* Ready last *) destruct st; c_weak C1 C2 C3.
  - destruct st; c_weak C1 C2 C3.
  - c_weak C1 C2 C3.
  - c_weak C1 C2 C3.
  - c_weak C1 C2 C3.
  - c_weak C1 C2 C3.
  - (* Exhausted, last *)
    cbn [andb] in Hd. apply negb_true_iff in Hd.
    constructor; cbn [nops instrs ntf gap_ok]; [|exact I|].
    + intros j Hj. destruct (C1 j Hj) as [D|D];
        [left; apply fin_done_cons; exact D | right; apply exhausted_cons; exact D].
    + intros k [E|E] Hk j Hj; [unfold Xh in E; inversion E; subst; lia|].
      exfalso. exact (has_abandon_false _ _ Hd (C3 k E Hk j Hj)).
  - (* Exhausted, not last *)
    match goal with H : floor_e h <= op /\ f0 <= S op |- _ => destruct H as [K1 K2] end.
    assert (IN : forall j, f0 <= j < op ->
              In (IAbandon j) (IExec (S op) false :: map IAbandon (seq f0 (op - f0)) ++ [IFin (S op)])).
    { intros j Hj. right. apply in_or_app. left. apply in_map. apply in_seq. lia. }
    constructor; cbn [nops instrs ntf gap_ok].
    + intros j Hj. destruct (C1 j Hj) as [D|D];
        [left; apply fin_done_cons; exact D | right; apply exhausted_cons; exact D].
    + apply gap_ok_seq. destruct (le_lt_dec f0 op) as [L|L].
      * right. replace (f0 + (op - f0)) with op by lia. split; [reflexivity|].
        unfold exhausted. cbn [existsb]. rewrite Nat.eqb_refl. reflexivity.
      * left. lia.
    + intros k [E|E] Hk j Hj; [unfold Xh in E; inversion E; subst; apply IN; lia|].
      pose proof (Hexh k E). apply IN. lia.
  - c_weak C1 C2 C3.
  - (* panic: IFin 0 is never on the stack *) exfalso. cbn [strip wf] in Hwf. lia.
  - (* Finalized, last *)
    cbn [ab_ok] in Hab; destruct Hab as [Ha1 _]; destruct rest; [|cbn [ab_head] in Ha1; contradiction].
    cbn [gap_ok] in C2. constructor; cbn [nops instrs ntf gap_ok]; [|exact I|].
    + apply cinv_fin_complete; [exact C2 | exact C1 | reflexivity].
    + intros k [E|E] Hk j Hj; [unfold Xh in E; discriminate E|].
      exfalso. assert (Hj' : f0 <= j < k) by lia. destruct (C3 k E Hk j Hj') as [Q|[]]. discriminate Q.
  - (* Finalized, not last *)
    cbn [ab_ok] in Hab; destruct Hab as [Ha1 _]; destruct rest; [|cbn [ab_head] in Ha1; contradiction].
    cbn [gap_ok] in C2. constructor; cbn [nops instrs ntf gap_ok].
    + apply cinv_fin_complete; [exact C2 | exact C1 | reflexivity].
    + left. lia.
    + intros k [E|E] Hk j Hj; [unfold Xh in E; discriminate E|].
      exfalso. assert (Hj' : f0 <= j < k) by lia. destruct (C3 k E Hk j Hj') as [Q|[]]. discriminate Q.
  - (* NeedsDrain, last *)
    cbn [ab_ok] in Hab; destruct Hab as [Ha1 _]; destruct rest; [|cbn [ab_head] in Ha1; contradiction].
    cbn [gap_ok] in C2. constructor; cbn [nops instrs ntf gap_ok]; [|exact I|].
    + apply cinv_fin_complete; [exact C2 | exact C1 | reflexivity].
    + intros k [E|E] Hk j Hj; [unfold Xh in E; discriminate E|].
      exfalso. assert (Hj' : f0 <= j < k) by lia. destruct (C3 k E Hk j Hj') as [Q|[]]. discriminate Q.
  - (* NeedsDrain, not last *)
    cbn [ab_ok] in Hab; destruct Hab as [Ha1 _]; destruct rest; [|cbn [ab_head] in Ha1; contradiction].
    cbn [gap_ok] in C2. constructor; cbn [nops instrs ntf gap_ok]; [|exact I|].
    + apply cinv_fin_complete; [exact C2 | exact C1 | reflexivity].
    + intros k [E|E] Hk j Hj; [unfold Xh in E; discriminate E|].
      exfalso. assert (Hj' : f0 <= j < k) by lia. destruct (C3 k E Hk j Hj') as [Q|[]]. discriminate Q.
  - (* fin Pending *) c_weak C1 C2 C3.
  - (* fin RErr *)
    cbn [ab_ok] in Hab; destruct Hab as [Ha1 _]; destruct rest; [|cbn [ab_head] in Ha1; contradiction].
    c_weak C1 C2 C3.
  - (* abandon Finalized *)
    cbn [gap_ok] in C2. destruct C2 as [G1 G2]. subst f0.
    replace (Nat.max op (S op)) with (S op) by lia.
    constructor; cbn [nops instrs ntf].
    + intros j Hj. destruct (Nat.eq_dec j op) as [E|E].
      * left. subst j. unfold fin_done. cbn [existsb fin_completes]. rewrite Nat.eqb_refl. reflexivity.
      * destruct (C1 j ltac:(lia)) as [D|D];
          [left; apply fin_done_cons; exact D | right; apply exhausted_cons; exact D].
    + apply gap_ok_cons. exact G2.
    + intros k [E|E] Hk j Hj; [unfold Xh in E; discriminate E|].
      destruct (C3 k E Hk j ltac:(lia)) as [Q|Q]; [inversion Q; lia | exact Q].
  - (* abandon NeedsDrain *)
    cbn [gap_ok] in C2. destruct C2 as [G1 G2]. subst f0.
    replace (Nat.max op (S op)) with (S op) by lia.
    constructor; cbn [nops instrs ntf].
    + intros j Hj. destruct (Nat.eq_dec j op) as [E|E].
      * left. subst j. unfold fin_done. cbn [existsb fin_completes]. rewrite Nat.eqb_refl. reflexivity.
      * destruct (C1 j ltac:(lia)) as [D|D];
          [left; apply fin_done_cons; exact D | right; apply exhausted_cons; exact D].
    + apply gap_ok_cons. exact G2.
    + intros k [E|E] Hk j Hj; [unfold Xh in E; discriminate E|].
      destruct (C3 k E Hk j ltac:(lia)) as [Q|Q]; [inversion Q; lia | exact Q].
  - (* abandon Pending *) c_weak C1 C2 C3.
Qed.

Lemma cinv_reachD n s h : reachD n s h -> CInv n s h.
Proof.
  induction 1 as [s0 H|s h p R IH D].
  - unfold new in H. destruct (n =? 0); [discriminate|]. inversion H; subst.
    constructor; cbn [nops instrs ntf gap_ok]; [intros j Hj; lia | exact I | intros k []].
  - apply cinv_step; [apply reachD_reach; exact R | exact IH | exact D].
Qed.

(* FULL STRENGTH on the present machine.  On every run from `new n` that respects ab_step_ok
   (in particular: on every run where pop_next never returns Err), at every moment:
   (1) every operator 1 <= j < next_to_finalize received a completing handle_finalize, or is an
       operator that answered Exhausted itself (the one FinalizeOperator(S k) steps over);
   (2) for every non-sink operator k that answered Exhausted, every not yet finalized upstream
       operator next_to_finalize <= j < k is a pending IAbandon j on the stack -- later Exhausted
       answers re-create them, nothing is dropped;
   (3) hence when the stack is empty (the next pop_next reports Finished; in particular right after
       finalize(n-1) answered Finalized) every operator 1 <= j < k upstream of an exhausted non-sink
       operator k received its completing handle_finalize -- exactly one, by
       stack_finalize_once_in_order (a) -- or answered Exhausted itself. *)
Theorem stack_exhausted_finalizes_all_upstream n s h :
  reachD n s h ->
  (forall j, 1 <= j < ntf s -> fin_done h j = true \/ exhausted h j = true) /\
  (forall k, In (EvExec k (ROk XExhausted)) h -> k <> n - 1 ->
     forall j, ntf s <= j < k -> In (IAbandon j) (instrs s)) /\
  (instrs s = [] -> forall k j, In (EvExec k (ROk XExhausted)) h -> k <> n - 1 -> 1 <= j < k ->
     fin_done h j = true \/ exhausted h j = true).
Proof.
  intros R. destruct (cinv_reachD _ _ _ R) as [C1 C2 C3]. split; [exact C1|]. split; [exact C3|].
  intros E k j Hk Hl Hj. destruct (le_lt_dec (ntf s) j) as [L|L].
  - exfalso. pose proof (C3 k Hk Hl j (conj L (proj2 Hj))) as Q. rewrite E in Q. destruct Q.
  - apply C1. lia.
Qed.
Example stack_exhausted_finalizes_all_upstream_hyps :
  exists n s h k j, reachD n s h /\ instrs s = [] /\ In (EvExec k (ROk XExhausted)) h /\ k <> n - 1 /\ 1 <= j < k.
Proof.
  exists 5.
  pose (sc := [px XReady; px XReady; px XExhausted; px XExhausted; px XNeedsMore;
               px XReady; px XReady; px XReady]).
  exists (fst (run_h (mk 5) [] sc)), (snd (run_h (mk 5) [] sc)), 3, 1.
  split.
  - unfold sc. cbn [run_h].
    repeat (apply reachD_pop; [|reflexivity]). apply reachD_new. reflexivity.
  - split; [reflexivity|]. split; [|lia]. cbn. auto 12.
Qed.

(* The exhausted operator k itself.  FinalizeOperator(S k) steps over it, so after answering
   Exhausted it receives handle_finalize only through AbandonOperator(k), i.e. only if a later
   operator k' > k answers Exhausted before FinalizeOperator(S k) completed; otherwise never.
   Both behaviours, by computation (n = 5, k = 2):
   (a) Ready(0) Ready(1) Exhausted(2) Exhausted(3) NeedsMore(4), then Abandon 1, Abandon 2 and
       Fin 4 answer Finalized -> Finished: operators 1 and 2 finalized (3, exhausted last, is not);
   (b) Ready(0) Ready(1) Exhausted(2) NeedsMore(3), then Abandon 1, Fin 3 and Fin 4 answer
       Finalized -> Finished: operators 1 and 3 finalized, operator 2 never.
   (An operator can also have been finalized BEFORE it answers Exhausted: FinalizeOperator(k)
   answering NeedsDrain makes k the pipeline start, which later answers Exhausted.) *)
Theorem stack_exhausted_op_itself_finalized_only_by_later_exhaust :
  (exists script s h p, run_h (mk 5) [] script = (s, h) /\ ctl s p = Finished /\ cl s p = CFin 4 /\
     exhausted h 2 = true /\ exhausted h 3 = true /\
     fin_done h 1 = true /\ fin_done h 2 = true /\ fin_done h 3 = false) /\
  (exists script s h p, run_h (mk 5) [] script = (s, h) /\ ctl s p = Finished /\ cl s p = CFin 4 /\
     exhausted h 2 = true /\ exhausted h 3 = false /\
     fin_done h 1 = true /\ fin_done h 2 = false /\ fin_done h 3 = true).
Proof.
  split.
  - exists [px XReady; px XReady; px XExhausted; px XExhausted; px XNeedsMore; px XReady; px XReady].
    eexists. eexists. exists (px XReady). split; [reflexivity|]. repeat split; reflexivity.
  - exists [px XReady; px XReady; px XExhausted; px XNeedsMore; px XReady; px XReady].
    eexists. eexists. exists (px XReady). split; [reflexivity|]. repeat split; reflexivity.
Qed.

Definition bufs := nat -> bool.
Definition bset (b : bufs) (i : nat) (v : bool) : bufs := fun k => if k =? i then v else b k.

(* One monitor step for the call pop_next is about to make.  None = a REQUIRES failed:
   - execute of a non-start instruction for operator i requires i >= 1 and buffer i-1 Full
     (otherwise it would consume a batch twice / a batch that was never produced);
   - execute of a non-last operator i requires buffer i Empty (otherwise an unconsumed batch is
     overwritten = lost);
   - finalize of operator j by FinalizeOperator requires buffer j-1 Empty (otherwise a batch is
     left behind);
   - finalize of operator j by AbandonOperator requires NOTHING and changes nothing: it only runs
     for operators upstream of an exhausted one, whose buffers are abandoned on purpose (the
     abandoned operator's input buffer may well be Full; that batch is deliberately dropped).
   Effects: Ready/NeedsMore consume the input (non-start only); HasMore/Pending/Exhausted leave it;
   Ready/HasMore/Exhausted fill the output (non-last only). *)
Definition mon_step (s : stack) (p : poll) (b : bufs) : option bufs :=
  match instrs s with
  | [] => Some b
  | IExec i st :: _ =>
      match on_exec p with
      | RErr => Some b
      | ROk a =>
          let in_ok := if st then true else (1 <=? i) && b (i - 1) in
          let out_ok := if is_last s i then true else negb (b i) in
          if in_ok && out_ok then
            let b1 := if st then b else
                      match a with XReady | XNeedsMore => bset b (i - 1) false | _ => b end in
            Some (if is_last s i then b1 else
                  match a with XReady | XHasMore | XExhausted => bset b1 i true | _ => b1 end)
          else None
      end
  | IFin j :: _ => if j =? 0 then Some b else if b (j - 1) then None else Some b
  | IAbandon _ :: _ => Some b   (* abandon-finalize: no requirement, no effect (see comment) *)
  end.

(* the one answer discipline the theorem needs: the execute call itself does not fail *)
Definition exec_err (s : stack) (p : poll) : bool :=
  match instrs s with
  | IExec _ _ :: _ => match on_exec p with RErr => true | _ => false end
  | _ => false
  end.

(* run the monitor along a script; checking stops (true) at the first failed execute call *)
Fixpoint mon_run (s : stack) (b : bufs) (script : list poll) : bool :=
  match script with
  | [] => true
  | p :: more =>
      if exec_err s p then true else
      match mon_step s p b with None => false | Some b' => mon_run (nx s p) b' more end
  end.

Definition lo_out (x : instr) : nat := match x with IExec j _ => j | IFin k => k - 1 | IAbandon _ => 0 end.
Definition input_ok (b : bufs) (x : instr) : Prop :=
  match x with IExec j false => 1 <= j /\ b (j - 1) = true | _ => True end.
Fixpoint chain (b : bufs) (l : list instr) : Prop :=
  match l with
  | [] => True
  | x :: rest =>
      input_ok b x /\
      (match rest with [] => True | y :: _ => forall k, lo_out y <= k -> S k < iop x -> b k = false end) /\
      chain b rest
  end.
Definition top_ok (b : bufs) (l : list instr) : Prop :=
  match l with [] => True | x :: _ => forall k, lo_out x <= k -> b k = false end.
Definition rd (x : instr) : nat := match x with IExec j _ => j | _ => 0 end.
Definition rd_hd (l : list instr) : nat := match l with [] => 0 | x :: _ => rd x end.

Lemma chain_ext n b b' : forall l, wf n l -> (forall k, k < rd_hd l -> b k = b' k) -> chain b l -> chain b' l.
Proof.
  induction l as [|x rest IH]; intros W E C; [exact I|].
  cbn [wf] in W. destruct W as (W1 & W2 & W3 & W4). cbn [chain] in *. destruct C as (CI & CR & CC).
  cbn [rd_hd] in E. split; [|split].
  - destruct x as [j [|]|k0|k0]; cbn [input_ok rd] in *; auto. destruct CI as [C1 C2]. split; [exact C1|].
    rewrite <- E; [exact C2 | lia].
  - destruct rest as [|y r]; [exact I|]. destruct W3 as [U Rk].
    destruct x as [j [|]|k0|k0]; try discriminate. cbn [iop rd] in *.
    intros k K1 K2. rewrite <- E; [apply CR; assumption | lia].
  - apply IH; [exact W4 | | exact CC]. intros k Hk. apply E.
    destruct rest as [|y r]; [cbn in Hk; lia|]. destruct W3 as [U Rk].
    destruct x as [j [|]|k0|k0]; try discriminate.
    destruct y as [i [|]|b0|b0]; try (cbn [wf] in W4; tauto); cbn [rank rd rd_hd] in *; lia.
Qed.

Ltac bs T Rg :=
  unfold bset; repeat (match goal with |- context [?a =? ?b] => destruct (Nat.eqb_spec a b) end);
  try reflexivity; try lia; try (apply T; cbn [lo_out iop] in *; lia); try (apply Rg; cbn [lo_out iop] in *; lia);
  try (match type of T with forall k0, ?t <= k0 -> _ =>
         match goal with |- _ ?k = false =>
           destruct (le_lt_dec t k); [apply T; lia | apply Rg; cbn [lo_out iop] in *; lia] end end).

Lemma if_same {A} (c : bool) (x : A) : (if c then x else x) = x.
Proof. destruct c; reflexivity. Qed.

Ltac exec_prelude b T C Hwf :=
  match type of Hwf with
  | wf _ (IExec ?op ?st :: _) =>
      cbn [wf iop] in Hwf; destruct Hwf as (W1 & W2 & W3 & W4);
      cbn [top_ok lo_out] in T; cbn [chain] in C; destruct C as (CI & CR & CC);
      assert (Hout : b op = false) by (apply T; lia);
      assert (Hin : (if st then true else (1 <=? op) && b (op - 1)) = true)
        by (destruct st; [reflexivity|]; cbn [input_ok] in CI; destruct CI as [C1 C2]; rewrite C2;
            destruct (Nat.leb_spec 1 op); [reflexivity | lia]);
      rewrite Hin, ?Hout; cbn [negb andb]; rewrite ?if_same; (eexists; split; [reflexivity|])
  end.

Lemma strip_if_exec (c : bool) op st l :
  strip (if c then IExec op st :: l else l) = if c then IExec op st :: strip l else strip l.
Proof. destruct c; reflexivity. Qed.

Lemma bstep n s b p :
  nops s = n -> wf n (strip (instrs s)) -> top_ok b (strip (instrs s)) -> chain b (strip (instrs s)) ->
  exec_err s p = false ->
  exists b', mon_step s p b = Some b' /\ top_ok b' (strip (instrs (nx s p))) /\ chain b' (strip (instrs (nx s p))).
Proof.
  intros Hn Hwf T C. unfold mon_step, exec_err.
  pop_cases s p; intros He; try discriminate; subst;
    cbn [strip] in *; rewrite ?strip_abandons, ?strip_if_exec; cbn [strip];
    try (set (rs := strip rest) in *; clearbody rs).
  1: { exists b. auto. }
  18-21: (exists b; auto).
  (* execute cases *)
  1-10: exec_prelude b T C Hwf.
  - (* Ready, last *)
    destruct st; [split; [exact T | cbn [chain]; auto]|].
    cbn [input_ok] in CI. destruct CI as [C1 C2].
    split.
    + destruct rs as [|y r]; [exact I|]. cbn [top_ok]. intros k Hk. destruct W3 as [U Rk]. bs T CR.
    + eapply chain_ext; [exact W4 | | exact CC]. intros k Hk.
      destruct rs as [|y r]; [cbn in Hk; lia|]. destruct W3 as [U Rk].
      destruct y as [i [|]|b0|b0]; try (cbn [wf] in W4; tauto); cbn [rank rd rd_hd] in *; bs T CR.
  - (* Ready, not last *)
    destruct st.
    + destruct rs as [|y r]; [|destruct W3; discriminate].
      split; [cbn [top_ok lo_out]; intros k Hk; bs T CR|].
      cbn [chain input_ok lo_out iop]. split; [split; [lia|bs T CR]|]. split; [intros k K1 K2; lia|auto].
    + cbn [input_ok] in CI. destruct CI as [C1 C2].
      split; [cbn [top_ok lo_out]; intros k Hk; bs T CR|].
      cbn [chain input_ok lo_out iop]. split; [split; [lia|bs T CR]|]. split.
      * destruct rs as [|y r]; [exact I|]. intros k K1 K2. bs T CR.
      * eapply chain_ext; [exact W4 | | exact CC]. intros k Hk.
        destruct rs as [|y r]; [cbn in Hk; lia|]. destruct W3 as [U Rk].
        destruct y as [i [|]|b0|b0]; try (cbn [wf] in W4; tauto); cbn [rank rd rd_hd] in *; bs T CR.
  - (* Pending *)
    split; [exact T | cbn [chain]; auto].
  - split; [exact T | cbn [chain]; auto].
  - (* NeedsMore *)
    destruct st.
    + destruct rs as [|y r]; [|destruct W3; discriminate]. split; exact I.
    + cbn [input_ok] in CI. destruct CI as [C1 C2]. split.
      * destruct rs as [|y r]; [exact I|]. cbn [top_ok]. intros k Hk. destruct W3 as [U Rk]. bs T CR.
      * eapply chain_ext; [exact W4 | | exact CC]. intros k Hk.
        destruct rs as [|y r]; [cbn in Hk; lia|]. destruct W3 as [U Rk].
        destruct y as [i [|]|b0|b0]; try (cbn [wf] in W4; tauto); cbn [rank rd rd_hd] in *; bs T CR.
  - destruct st.
    + destruct rs as [|y r]; [|destruct W3; discriminate]. split; exact I.
    + cbn [input_ok] in CI. destruct CI as [C1 C2]. split.
      * destruct rs as [|y r]; [exact I|]. cbn [top_ok]. intros k Hk. destruct W3 as [U Rk]. bs T CR.
      * eapply chain_ext; [exact W4 | | exact CC]. intros k Hk.
        destruct rs as [|y r]; [cbn in Hk; lia|]. destruct W3 as [U Rk].
        destruct y as [i [|]|b0|b0]; try (cbn [wf] in W4; tauto); cbn [rank rd rd_hd] in *; bs T CR.
  - (* HasMore, last *)
    destruct st; (split; [exact T | cbn [chain]; auto]).
  - (* HasMore, not last *)
    split; [cbn [top_ok lo_out]; intros k Hk; bs T CR|].
    cbn [chain input_ok lo_out iop]. split; [split; [lia|bs T CR]|]. split; [intros k K1 K2; lia|].
    split; [|split].
    + destruct st; [exact I|]. cbn [input_ok] in *. destruct CI as [C1 C2]. split; [exact C1|bs T CR].
    + destruct rs as [|y r]; [exact I|]. intros k K1 K2. bs T CR.
    + eapply chain_ext; [exact W4 | | exact CC]. intros k Hk.
      destruct rs as [|y r]; [cbn in Hk; lia|]. destruct W3 as [U Rk].
      destruct st; [discriminate|].
      destruct y as [i [|]|b0|b0]; try (cbn [wf] in W4; tauto); cbn [rank rd rd_hd] in *; bs T CR.
  - (* Exhausted, last *)
    split; exact I.
  - (* Exhausted, not last *)
    split; [cbn [top_ok lo_out]; intros k Hk; destruct st; bs T CR|].
    cbn [chain input_ok lo_out iop]. split; [split; [lia | destruct st; bs T CR]|].
    split; [intros k K1 K2; lia | auto].
  - (* IFin 0 *)
    cbn [wf] in Hwf. lia.
  - (* Finalized, last *)
    cbn [wf iop] in Hwf. destruct Hwf as (W1 & W2 & W3 & W4). destruct rs; [|destruct W3; discriminate].
    cbn [top_ok lo_out] in T. rewrite T by lia. exists b. repeat split; exact I.
  - (* Finalized, not last *)
    cbn [wf iop] in Hwf. destruct Hwf as (W1 & W2 & W3 & W4). destruct rs; [|destruct W3; discriminate].
    cbn [top_ok lo_out] in T. rewrite T by lia. exists b. split; [reflexivity|].
    split; [cbn [top_ok lo_out]; intros k Hk; apply T; lia | cbn [chain input_ok]; auto].
  - (* NeedsDrain, last *)
    cbn [wf iop] in Hwf. destruct Hwf as (W1 & W2 & W3 & W4). destruct rs; [|destruct W3; discriminate].
    cbn [top_ok lo_out] in T. rewrite T by lia. exists b. repeat split; exact I.
  - (* NeedsDrain, not last *)
    cbn [wf iop] in Hwf. destruct Hwf as (W1 & W2 & W3 & W4). destruct rs; [|destruct W3; discriminate].
    cbn [top_ok lo_out] in T. rewrite T by lia. exists b. split; [reflexivity|].
    split; [cbn [top_ok lo_out]; intros k Hk; apply T; lia | cbn [chain input_ok]; auto].
  - (* fin Pending *)
    cbn [top_ok lo_out] in T. rewrite T by lia. exists b. split; [reflexivity|].
    split; [exact T | exact C].
  - (* fin RErr *)
    cbn [wf iop] in Hwf. destruct Hwf as (W1 & W2 & W3 & W4). destruct rs; [|destruct W3; discriminate].
    cbn [top_ok lo_out] in T. rewrite T by lia. exists b. repeat split; exact I.
Qed.

Lemma mon_run_ok n script : forall s h b,
  reach n s h -> top_ok b (strip (instrs s)) -> chain b (strip (instrs s)) -> mon_run s b script = true.
Proof.
  induction script as [|p more IH]; intros s h b R T C; cbn [mon_run]; [reflexivity|].
  destruct (exec_err s p) eqn:Ee; [reflexivity|].
  pose proof (sinv_reach _ _ _ R) as [Hn _ Hwf _ _ _ _ _ _].
  destruct (bstep n s b p Hn Hwf T C Ee) as (b' & M & T' & C'). rewrite M.
  apply (IH _ (ev_of (cl s p) p ++ h)); [apply reach_pop; exact R | exact T' | exact C'].
Qed.

(* On every run from `new n` (any n >= 1), as long as no execute call fails (RErr), no REQUIRES of
   the buffer monitor fails, whatever the operators answer: a batch is never consumed twice, never
   overwritten before it is consumed, and none is left in a buffer when its consumer is finalized by
   FinalizeOperator.  (Batches upstream of an operator that answers Exhausted are abandoned on
   purpose; AbandonOperator finalizes are unconstrained.)  No further answer discipline is needed. *)
Theorem stack_delivers_each_batch_once n s0 script :
  new n = Some s0 -> mon_run s0 (fun _ => false) script = true.
Proof.
  intros H. apply (mon_run_ok n script s0 []); [apply reach_new; exact H | |].
  - destruct (strip (instrs s0)); [exact I | intros k _; reflexivity].
  - unfold new in H. destruct (n =? 0); [discriminate|]. inversion H; subst. cbn. auto.
Qed.
Example stack_delivers_each_batch_once_hyps : exists n s0, new n = Some s0.
Proof. exists 3. eexists. reflexivity. Qed.
Example mon_step_can_fail :
  mon_step {| nops := 3; instrs := [IExec 1 false]; ntf := 1 |}
           {| on_exec := ROk XReady; on_fin := RErr |} (fun _ => false) = None.
Proof. reflexivity. Qed.
Fixpoint mon_run_nodisc (s : stack) (b : bufs) (script : list poll) : bool :=
  match script with
  | [] => true
  | p :: more => match mon_step s p b with None => false | Some b' => mon_run_nodisc (nx s p) b' more end
  end.
(* WITHOUT the discipline (an execute call fails and the pipeline is polled again, which
   poll_execute permits) a REQUIRES fails: the failed operator's input batch is still in its
   buffer when the source is asked to produce again -- the batch is overwritten = lost. *)
Theorem stack_delivers_each_batch_once_without_discipline_refuted :
  exists s0 script, new 3 = Some s0 /\ mon_run_nodisc s0 (fun _ => false) script = false.
Proof.
  pose (py := fun a => {| on_exec := a; on_fin := RErr |}).
  eexists. exists [py (ROk XReady); py RErr; py (ROk XReady)]. split; reflexivity.
Qed.

(* ---------- 4a. termination measure ---------- *)
(* progress = how far the BOTTOM instruction of the stripped stack (the current pipeline start, or
   the pending FinalizeOperator) has advanced; work in flight = sum over the stack of (n - operator),
   each pending AbandonOperator counting 1. *)
Definition prog (x : instr) : nat := match x with IExec b _ => 2 * b | IFin b => 2 * b - 1 | IAbandon _ => 0 end.
Definition M1 (s : stack) : nat :=
  match strip (instrs s) with [] => 0 | _ => 2 * nops s - prog (last (strip (instrs s)) (IFin 0)) end.
Definition wgt (n : nat) (x : instr) : nat := match x with IAbandon _ => 1 | _ => n - iop x end.
Definition M2 (s : stack) : nat := list_sum (map (wgt (nops s)) (instrs s)).
(* the only answers that put new work on the stack: HasMore (any operator) and Ready from a
   pipeline-start instruction -- i.e. "a new batch entered the pipeline" *)
Definition pushes_work (s : stack) (p : poll) : bool :=
  match instrs s with
  | IExec _ st :: _ => match on_exec p with ROk XHasMore => true | ROk XReady => st | _ => false end
  | _ => false
  end.

Lemma wf_last n d : forall rest x, wf n (x :: rest) -> prog (last (x :: rest) d) <= prog x.
Proof.
  induction rest as [|y r IH]; intros x W; [cbn [last]; lia|].
  change (last (x :: y :: r) d) with (last (y :: r) d).
  cbn [wf] in W. destruct W as (_ & _ & [U Rk] & W'). specialize (IH y W').
  destruct x as [j [|]|k|k]; try discriminate.
  destruct y as [i [|]|b|b]; try (cbn [wf] in W'; tauto); cbn [rank prog] in *; lia.
Qed.

(* Every Continue step that does not let a new batch in strictly decreases (M1, M2)
   lexicographically; M1 <= 2n and M2 are naturals, so between two batch-producing answers only
   finitely many Continue steps happen, and after the last such answer the loop stops. *)
Theorem stack_terminates n s h p :
  reach n s h -> ctl s p = Continue -> pushes_work s p = false ->
  M1 (nx s p) < M1 s \/ (M1 (nx s p) = M1 s /\ M2 (nx s p) < M2 s).
Proof.
  intros R. pose proof (sinv_reach _ _ _ R) as [Hn Hpos Hwf _ _ _ _ _ _]. clear R.
  unfold pushes_work, M1, M2.
  pop_cases s p; intros Hc Hw; try discriminate; subst;
    cbn [strip] in *; rewrite ?strip_abandons in *; cbn [strip] in *;
    try (pose proof (wf_last _ (IFin 0) _ _ Hwf) as WL; cbn [wf iop] in Hwf;
         destruct Hwf as (W1 & W2 & W3 & W4));
    unfold list_sum in *; cbn [map fold_right wgt iop] in *;
    destruct (strip rest) as [|y r]; try (destruct W3; discriminate);
    cbn [last prog] in *; try lia.
Qed.
Example stack_terminates_hyps :
  exists n s h p, reach n s h /\ ctl s p = Continue /\ pushes_work s p = false.
Proof.
  exists 2, (mk 2), [], {| on_exec := ROk XExhausted; on_fin := RErr |}.
  split; [apply reach_new; reflexivity | split; reflexivity].
Qed.

(* a batch-producing step leaves M1 alone and adds at most n to M2 *)
Theorem stack_work_step_bounded n s h p :
  reach n s h -> ctl s p = Continue -> pushes_work s p = true ->
  M1 (nx s p) = M1 s /\ M2 (nx s p) <= M2 s + n.
Proof.
  intros R. pose proof (sinv_reach _ _ _ R) as [Hn Hpos Hwf _ _ _ _ _ _]. clear R.
  unfold pushes_work, M1, M2.
  pop_cases s p; intros Hc Hw; try discriminate; subst; cbn [strip] in *;
    unfold list_sum in *; cbn [map fold_right wgt iop] in *;
    destruct (strip rest) as [|y r]; cbn [last prog] in *; try lia.
Qed.
Example stack_work_step_bounded_hyps :
  exists n s h p, reach n s h /\ ctl s p = Continue /\ pushes_work s p = true.
Proof.
  exists 2, (mk 2), [], (px XReady). split; [apply reach_new; reflexivity | split; reflexivity].
Qed.

Theorem stack_M1_bounded n s h : reach n s h -> M1 s <= 2 * n.
Proof.
  intros R. pose proof (sinv_reach _ _ _ R) as [Hn _ _ _ _ _ _ _ _]. unfold M1. destruct (strip (instrs s)); lia.
Qed.

(* ---------- Finished without finalize ---------- *)
(* FULL statement wanted: whenever pop_next answers Finished, the sink (operator n-1) has been
   finalized.  Refuted: a pipeline-start instruction answering NeedsMore (or any failed call) empties
   the stack, and the next pop_next answers Finished with no finalize at all. *)
Definition has_fin (h : list ev) : bool :=
  existsb (fun e => match e with EvFin _ _ => true | _ => false end) h.
Theorem stack_finished_implies_sink_finalized_refuted :
  exists s0 script s h p, new 2 = Some s0 /\ run_h s0 [] script = (s, h) /\
    Forall (fun q => on_exec q <> RErr /\ on_fin q <> RErr) script /\
    ctl s p = Finished /\ has_fin h = false.
Proof.
  eexists. exists [px XNeedsMore]. eexists. eexists. exists (px XReady).
  split; [reflexivity|]. split; [reflexivity|].
  split; [repeat constructor; discriminate | split; reflexivity].
Qed.

(* What holds: as long as every step so far returned Continue or Pending (no error, no panic) and
   no pipeline-start instruction answered NeedsMore, the stripped stack is not empty and its bottom
   is a pipeline start or a FinalizeOperator; so the first Finished is the one produced by
   finalize(n-1) = Finalized.  Discipline for the lead to cross-check: sources (PollPull) never
   answer NeedsMore by type; an operator in drain mode (IExec j true after NeedsDrain) must not
   answer NeedsMore. *)
Definition bottom_ok (l : list instr) : Prop :=
  strip l <> [] /\ is_upper (last (strip l) (IFin 0)) = false.
Definition start_needs_more (s : stack) (p : poll) : bool :=
  match instrs s with
  | IExec _ true :: _ => match on_exec p with ROk XNeedsMore => true | _ => false end
  | _ => false
  end.
Definition quiet (c : control) : bool := match c with Continue | Pending => true | _ => false end.

Lemma bottom_ok_step n s h p :
  reach n s h -> bottom_ok (instrs s) -> quiet (ctl s p) = true -> start_needs_more s p = false ->
  bottom_ok (instrs (nx s p)).
Proof.
  intros R. pose proof (sinv_reach _ _ _ R) as [Hn Hpos Hwf _ _ _ _ _ _]. clear R.
  unfold bottom_ok, start_needs_more.
  pop_cases s p; intros [B1 B2] Hq Hs; try discriminate; try congruence; subst;
    cbn [strip] in *; rewrite ?strip_abandons in *; cbn [strip] in *; try (split; assumption);
    cbn [wf iop] in Hwf; destruct Hwf as (W1 & W2 & W3 & W4);
    try (destruct st); try discriminate; cbn [strip] in *;
    destruct (strip rest) as [|y r]; try (destruct W3; discriminate); try discriminate;
    (split; [discriminate|]); cbn [last is_upper] in *; auto.
Qed.

Theorem stack_finished_only_by_sink_finalize_partial n script : forall s h,
  reach n s h -> bottom_ok (instrs s) ->
  forall p, let s' := fst (run_h s h script) in
  (forall pre q post, script = pre ++ q :: post ->
     let sq := fst (run_h s h pre) in quiet (ctl sq q) = true /\ start_needs_more sq q = false) ->
  ctl s' p = Finished -> exists j, cl s' p = CFin j /\ is_last s' j = true /\ on_fin p = ROk FFinalized.
Proof.
  induction script as [|q more IH]; intros s h R B p s' D Hf.
  - subst s'. clear D. cbn [run_h fst] in *. destruct B as [B1 B2].
    revert Hf. unfold is_last. pop_cases s p; intros Hf; try discriminate; cbn [strip] in *; try congruence.
    eexists. split; [reflexivity|]. split; [|reflexivity]. subst. apply Nat.eqb_refl.
  - subst s'. cbn [run_h] in *.
    destruct (D [] q more eq_refl) as [Q1 Q2]. cbn [run_h fst] in Q1, Q2.
    apply IH; [apply reach_pop; exact R | eapply bottom_ok_step; eassumption | | exact Hf].
    intros pre q' post E. apply (D (q :: pre) q' post). cbn [app]. rewrite E. reflexivity.
Qed.
Example stack_finished_only_by_sink_finalize_partial_hyps :
  exists n script s h p, reach n s h /\ bottom_ok (instrs s) /\
    (forall pre q post, script = pre ++ q :: post ->
       quiet (ctl (fst (run_h s h pre)) q) = true /\ start_needs_more (fst (run_h s h pre)) q = false) /\
    ctl (fst (run_h s h script)) p = Finished.
Proof.
  exists 2, [px XExhausted; px XNeedsMore], (mk 2), [], (px XReady).
  split; [apply reach_new; reflexivity|]. split; [split; [discriminate | reflexivity]|].
  split; [|reflexivity].
  intros pre q post E.
  destruct pre as [|a [|a2 [|a3 pre]]]; inversion E; subst; try (split; reflexivity).
Qed.

Print Assumptions stack_replays_after_pending.
Print Assumptions stack_delivers_each_batch_once.
Print Assumptions stack_delivers_each_batch_once_without_discipline_refuted.
Print Assumptions stack_exhausted_ops_never_run_again.
Print Assumptions stack_finalize_once_in_order.
Print Assumptions stack_exhausted_finalizes_all_upstream.
Print Assumptions stack_exhausted_op_itself_finalized_only_by_later_exhaust.
Print Assumptions no_error_step_ok.
Print Assumptions stack_terminates.
Print Assumptions stack_work_step_bounded.
Print Assumptions stack_M1_bounded.
Print Assumptions stack_finished_is_final.
Print Assumptions stack_finished_implies_sink_finalized_refuted.
Print Assumptions stack_finished_only_by_sink_finalize_partial.
Print Assumptions pipe_completed_stays_completed.
Print Assumptions pipe_repoll_after_error_continues.
Print Assumptions pipe_repoll_after_error_can_report_done.
