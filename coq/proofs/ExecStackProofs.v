(* C04 — proofs about model/ExecStack.v (ExecutionStack::pop_next and the poll_execute loop).
   Every theorem about runs quantifies over ALL runs from `new n` (any n >= 1, any answers), by
   invariant + induction.  A history `h : list ev` lists the Effects calls NEWEST FIRST; so
   `h = post ++ e2 :: mid ++ e1 :: pre` reads "e1 was called before e2". *)
From Coq Require Import List Arith Bool Lia ZifyBool.
From GV Require Import model.ExecStack.
Import ListNotations.

Definition nx (s : stack) (p : poll) : stack := fst (fst (pop_next s p)).
Definition ctl (s : stack) (p : poll) : control := snd (fst (pop_next s p)).
Definition cl (s : stack) (p : poll) : call := snd (pop_next s p).

Lemma pop_eq s p : pop_next s p = (nx s p, ctl s p, cl s p).
Proof. unfold nx, ctl, cl. destruct (pop_next s p) as [[a b] c]. reflexivity. Qed.

(* all states + histories reachable from `new n` by arbitrary pop_next calls (re-polls after Pending,
   after Error and after Finished included) *)
Inductive reach (n : nat) : stack -> list ev -> Prop :=
| reach_new s0 : new n = Some s0 -> reach n s0 []
| reach_pop s h p : reach n s h -> reach n (nx s p) (ev_of (cl s p) p ++ h).

(* the same, as a script run (what the correspondence driver executes) *)
Fixpoint run_h (s : stack) (h : list ev) (script : list poll) : stack * list ev :=
  match script with
  | [] => (s, h)
  | p :: more => run_h (nx s p) (ev_of (cl s p) p ++ h) more
  end.

Lemma reach_run_h n script : forall s h, reach n s h -> reach n (fst (run_h s h script)) (snd (run_h s h script)).
Proof.
  induction script as [|p more IH]; intros s h R; cbn [run_h]; [exact R|].
  apply IH. apply reach_pop. exact R.
Qed.

(* case analysis of one pop_next; leaves one goal per source branch, with
   Ea : on_exec p = ..  /  Ef : on_fin p = ..  and the is_last test decided *)
Ltac pop_cases s p :=
  let n0 := fresh "n0" in let l := fresh "l" in let op := fresh "op" in
  let st := fresh "st" in let rest := fresh "rest" in
  let Ea := fresh "Ea" in let Ef := fresh "Ef" in let Ez := fresh "Ez" in
  unfold nx, ctl, cl, pop_next in *; destruct s as [n0 l]; cbn [instrs nops] in *;
  destruct l as [|[op st|op] rest];
  [ | destruct (on_exec p) as [[| | | |]|] eqn:Ea
    | destruct (Nat.eqb_spec op 0) as [Ez|Ez]; [|destruct (on_fin p) as [[| |]|] eqn:Ef] ];
  unfold is_last, with_instrs in *; cbn [nops instrs fst snd] in *;
  repeat match goal with
  | |- context [?a =? ?b] => destruct (Nat.eqb_spec a b)
  | H : context [?a =? ?b] |- _ => destruct (Nat.eqb_spec a b)
  end; cbn [nops instrs fst snd] in *.

(* ---------- 1. re-poll after Pending goes to the operator that parked ---------- *)
Theorem stack_replays_after_pending s p s' c :
  pop_next s p = (s', Pending, c) ->
  s' = s /\ (exists op, c = CExec op \/ c = CFin op) /\
  forall p', cl s' p' = c.
Proof.
  intros H. pop_cases s p; inversion H; subst; clear H.
  - split; [reflexivity|]. split; [eexists; left; reflexivity|].
    intros p'. unfold cl, pop_next. cbn [instrs]. unfold is_last. cbn [nops].
    destruct (on_exec p') as [[| | | |]|]; try reflexivity; destruct (op =? n0 - 1); reflexivity.
  - split; [reflexivity|]. split; [eexists; right; reflexivity|].
    intros p'. unfold cl, pop_next. cbn [instrs]. unfold is_last. cbn [nops].
    destruct (Nat.eqb_spec op 0); [contradiction|].
    destruct (on_fin p') as [[| |]|]; try reflexivity; destruct (op =? n0 - 1); reflexivity.
Qed.
Example stack_replays_after_pending_hyps :
  exists s p s' c, pop_next s p = (s', Pending, c).
Proof.
  exists {| nops := 2; instrs := [IExec 0 true] |}, {| on_exec := ROk XPending; on_fin := RErr |}.
  eexists. eexists. reflexivity.
Qed.

(* ---------- shape of reachable stacks ---------- *)
Definition iop (x : instr) : nat := match x with IExec op _ => op | IFin op => op end.
Definition is_upper (x : instr) : bool := match x with IExec _ false => true | _ => false end.
Definition rank (x : instr) : nat :=
  match x with IExec i false => 2 * i | IExec i true => 2 * i + 1 | IFin b => 2 * b - 1 end.

(* head = top.  Only the bottom element may be a pipeline start or a finalize; everything above is
   a non-start execute; ranks strictly decrease downwards. *)
Fixpoint wf (n : nat) (l : list instr) : Prop :=
  match l with
  | [] => True
  | x :: rest =>
      iop x < n /\ (match x with IFin b => 1 <= b | _ => True end) /\
      (match rest with [] => True | y :: _ => is_upper x = true /\ rank y < rank x end) /\
      wf n rest
  end.

Lemma wf_tail n x l : wf n (x :: l) -> wf n l.
Proof. cbn [wf]. tauto. Qed.

(* ---------- history bookkeeping ---------- *)
Definition fe_of (e : ev) : nat :=
  match e with
  | EvExec i (ROk XExhausted) => S i
  | EvFin j (ROk FFinalized) => S j
  | EvFin j (ROk FNeedsDrain) => j
  | _ => 0
  end.
Definition ff_of (e : ev) : nat :=
  match e with
  | EvExec i (ROk XExhausted) => S i
  | EvFin j (ROk FFinalized) => S j
  | EvFin j (ROk FNeedsDrain) => S j
  | _ => 0
  end.
(* lowest operator that may still be executed / finalized after history h *)
Fixpoint floor_e (h : list ev) : nat := match h with [] => 0 | e :: pre => Nat.max (fe_of e) (floor_e pre) end.
Fixpoint floor_f (h : list ev) : nat := match h with [] => 0 | e :: pre => Nat.max (ff_of e) (floor_f pre) end.

Definition justified (j : nat) (h : list ev) : Prop :=
  In (EvExec (j - 1) (ROk XExhausted)) h \/ In (EvFin (j - 1) (ROk FFinalized)) h.

Definition ev_ok (pre : list ev) (e : ev) : Prop :=
  match e with
  | EvExec i _ => floor_e pre <= i
  | EvFin j _ => floor_f pre <= j /\ 1 <= j /\ justified j pre
  end.
Fixpoint hist_ok (h : list ev) : Prop :=
  match h with [] => True | e :: pre => ev_ok pre e /\ hist_ok pre end.

Definition instr_ok (h : list ev) (x : instr) : Prop :=
  match x with
  | IExec op _ => floor_e h <= op
  | IFin k => floor_f h <= k /\ justified k h
  end.

Definition ev_op (e : ev) : nat := match e with EvExec i _ => i | EvFin j _ => j end.

Lemma fe_le_ff e : fe_of e <= ff_of e.
Proof. destruct e as [i [[| | | |]|]|j [[| |]|]]; cbn; lia. Qed.
Lemma ff_le_Sfe e : ff_of e <= S (fe_of e).
Proof. destruct e as [i [[| | | |]|]|j [[| |]|]]; cbn; lia. Qed.
Lemma floor_e_le_f h : floor_e h <= floor_f h.
Proof. induction h as [|e h IH]; cbn [floor_e floor_f]; [lia|]. pose proof (fe_le_ff e). lia. Qed.
Lemma floor_f_le_Se h : floor_f h <= S (floor_e h).
Proof. induction h as [|e h IH]; cbn [floor_e floor_f]; [lia|]. pose proof (ff_le_Sfe e). lia. Qed.

Lemma floor_e_app post pre : floor_e pre <= floor_e (post ++ pre).
Proof. induction post as [|e post IH]; cbn [app floor_e]; lia. Qed.
Lemma floor_f_app post pre : floor_f pre <= floor_f (post ++ pre).
Proof. induction post as [|e post IH]; cbn [app floor_f]; lia. Qed.

Lemma justified_cons j e h : justified j h -> justified j (e :: h).
Proof. unfold justified. cbn [In]. tauto. Qed.

Lemma instr_ok_same e h x :
  fe_of e = 0 -> ff_of e = 0 -> instr_ok h x -> instr_ok (e :: h) x.
Proof.
  intros A B. destruct x as [op st|k]; cbn [instr_ok floor_e floor_f]; rewrite ?A, ?B; cbn [Nat.max]; [auto|].
  intros [H1 H2]. split; [exact H1 | apply justified_cons; exact H2].
Qed.

Lemma Forall_instr_ok_same e h l :
  fe_of e = 0 -> ff_of e = 0 -> Forall (instr_ok h) l -> Forall (instr_ok (e :: h)) l.
Proof. intros A B F. eapply Forall_impl; [|exact F]. intros x. apply instr_ok_same; assumption. Qed.

Record SInv (n : nat) (s : stack) (h : list ev) : Prop := {
  si_n : nops s = n;
  si_pos : 1 <= n;
  si_wf : wf n (instrs s);
  si_ok : Forall (instr_ok h) (instrs s);
  si_h : hist_ok h
}.

Lemma sinv_new n s0 : new n = Some s0 -> SInv n s0 [].
Proof.
  unfold new. destruct (Nat.eqb_spec n 0) as [E|E]; [discriminate|]. intros H; inversion H; subst; clear H.
  constructor; cbn [nops instrs wf hist_ok iop]; try lia; auto.
  first [ repeat split; auto; lia | constructor; [cbn; lia | constructor] ].
Qed.

Ltac inv_forall :=
  repeat match goal with
  | H : Forall _ (_ :: _) |- _ => inversion H; subst; clear H
  end.

Lemma sinv_pop n s h p : SInv n s h -> SInv n (nx s p) (ev_of (cl s p) p ++ h).
Proof.
  intros [Hn Hpos Hwf Hok Hh].
  pop_cases s p; subst; cbn [ev_of app]; try rewrite Ea; try rewrite Ef;
    inv_forall; cbn [instr_ok] in *;
    pose proof (floor_f_le_Se h) as FE; pose proof (floor_e_le_f h) as EF;
    pose proof Hwf as Hwf0; cbn [wf iop] in Hwf.
  - (* empty *) constructor; cbn [nops instrs]; auto.
  - (* Ready, last *)
    destruct Hwf as (W1 & W2 & W3 & W4).
    constructor; cbn [nops instrs]; auto.
    + destruct st; [exact Hwf0 | exact W4].
    + destruct st; [constructor; [apply instr_ok_same; auto|]|]; apply Forall_instr_ok_same; auto.
    + cbn [hist_ok ev_ok]. auto.
  - (* Ready, not last *)
    destruct Hwf as (W1 & W2 & W3 & W4).
    constructor; cbn [nops instrs]; auto.
    + destruct st.
      * cbn [wf iop is_upper rank]. destruct rest; [|destruct W3; discriminate]. repeat split; auto; lia.
      * cbn [wf iop is_upper rank]. split; [lia|]. split; [auto|]. split; [|exact W4].
        destruct rest as [|y rest]; [auto|]. destruct W3 as [_ W3]. cbn [rank] in W3. split; [reflexivity|lia].
    + destruct st.
      * constructor; [cbn [instr_ok floor_e fe_of]; lia|].
        constructor; [apply instr_ok_same; auto | apply Forall_instr_ok_same; auto].
      * constructor; [cbn [instr_ok floor_e fe_of]; lia | apply Forall_instr_ok_same; auto].
    + cbn [hist_ok ev_ok]. auto.
  - (* exec Pending *)
    constructor; cbn [nops instrs]; auto.
    + constructor; [apply instr_ok_same; auto | apply Forall_instr_ok_same; auto].
    + cbn [hist_ok ev_ok]. auto.
  - (* NeedsMore *)
    constructor; cbn [nops instrs]; auto.
    + eapply wf_tail; exact Hwf0.
    + apply Forall_instr_ok_same; auto.
    + cbn [hist_ok ev_ok]. auto.
  - (* HasMore, last: error, instruction pushed back *)
    constructor; cbn [nops instrs]; auto.
    + constructor; [apply instr_ok_same; auto | apply Forall_instr_ok_same; auto].
    + cbn [hist_ok ev_ok]. auto.
  - (* HasMore, not last *)
    destruct Hwf as (W1 & W2 & W3 & W4).
    constructor; cbn [nops instrs]; auto.
    + cbn [wf iop is_upper rank]. split; [lia|]. split; [auto|].
      split; [split; [reflexivity|destruct st; lia]|]. auto.
    + constructor; [cbn [instr_ok floor_e fe_of]; lia|].
      constructor; [apply instr_ok_same; auto | apply Forall_instr_ok_same; auto].
    + cbn [hist_ok ev_ok]. auto.
  - (* Exhausted, last *)
    constructor; cbn [nops instrs wf]; auto. cbn [hist_ok ev_ok]. auto.
  - (* Exhausted, not last *)
    destruct Hwf as (W1 & W2 & W3 & W4).
    constructor; cbn [nops instrs]; auto.
    + cbn [wf iop is_upper rank]. repeat split; auto; lia.
    + constructor; [cbn [instr_ok floor_e fe_of]; lia|]. constructor; [|constructor].
      cbn [instr_ok floor_f ff_of]. split; [lia|]. left. replace (S op - 1) with op by lia. left. reflexivity.
    + cbn [hist_ok ev_ok]. auto.
  - (* exec RErr *)
    constructor; cbn [nops instrs]; auto.
    + eapply wf_tail; exact Hwf0.
    + apply Forall_instr_ok_same; auto.
    + cbn [hist_ok ev_ok]. auto.
  - (* IFin 0: panic *)
    constructor; cbn [nops instrs]; auto. eapply wf_tail; exact Hwf0.
  - (* Finalized, last *)
    destruct Hwf as (W1 & W2 & W3 & W4).
    destruct rest; [|destruct W3; discriminate].
    constructor; cbn [nops instrs wf]; auto.
    cbn [hist_ok ev_ok]. repeat split; try tauto; lia.
  - (* Finalized, not last *)
    destruct Hwf as (W1 & W2 & W3 & W4).
    destruct rest; [|destruct W3; discriminate].
    constructor; cbn [nops instrs]; auto.
    + cbn [wf iop]. repeat split; auto; lia.
    + constructor; [|constructor]. cbn [instr_ok floor_f ff_of]. split; [lia|].
      right. replace (S op - 1) with op by lia. left. reflexivity.
    + cbn [hist_ok ev_ok]. repeat split; try tauto; lia.
  - (* NeedsDrain, last: error *)
    destruct Hwf as (W1 & W2 & W3 & W4).
    destruct rest; [|destruct W3; discriminate].
    constructor; cbn [nops instrs wf]; auto.
    cbn [hist_ok ev_ok]. repeat split; try tauto; lia.
  - (* NeedsDrain, not last *)
    destruct Hwf as (W1 & W2 & W3 & W4).
    destruct rest; [|destruct W3; discriminate].
    constructor; cbn [nops instrs]; auto.
    + cbn [wf iop]. repeat split; auto; lia.
    + constructor; [|constructor]. cbn [instr_ok floor_e fe_of]. lia.
    + cbn [hist_ok ev_ok]. repeat split; try tauto; lia.
  - (* fin Pending *)
    constructor; cbn [nops instrs]; auto.
    + constructor; [apply instr_ok_same; auto | apply Forall_instr_ok_same; auto].
    + cbn [hist_ok ev_ok]. repeat split; try tauto; lia.
  - (* fin RErr *)
    constructor; cbn [nops instrs]; auto.
    + eapply wf_tail; exact Hwf0.
    + apply Forall_instr_ok_same; auto.
    + cbn [hist_ok ev_ok]. repeat split; try tauto; lia.
Qed.

Lemma sinv_reach n s h : reach n s h -> SInv n s h.
Proof. induction 1 as [s0 H|s h p R IH]; [apply sinv_new; exact H | apply sinv_pop; exact IH]. Qed.

Lemma hist_ok_app post pre : hist_ok (post ++ pre) -> hist_ok pre.
Proof. induction post as [|e post IH]; cbn [app hist_ok]; [auto | intros [_ H]; auto]. Qed.

Lemma hist_ok_mid post e pre : hist_ok (post ++ e :: pre) -> ev_ok pre e.
Proof. intros H. apply hist_ok_app in H. cbn [hist_ok] in H. tauto. Qed.

Lemma floor_f_mid post e pre : ff_of e <= floor_f (post ++ e :: pre).
Proof. pose proof (floor_f_app post (e :: pre)). cbn [floor_f] in *. lia. Qed.
Lemma floor_e_mid post e pre : fe_of e <= floor_e (post ++ e :: pre).
Proof. pose proof (floor_e_app post (e :: pre)). cbn [floor_e] in *. lia. Qed.

(* ---------- 3. finalize: once, in order, only when justified ---------- *)
Definition fin_completes (a : res pfin) : bool :=
  match a with ROk FFinalized | ROk FNeedsDrain => true | _ => false end.

(* (a) once finalize of j has answered Finalized/NeedsDrain, every later finalize call (whatever it
       answers) is for a strictly larger operator: at most once per j, strictly increasing order;
   (b) finalize j is only ever called after operator j-1 answered Exhausted or finalize (j-1)
       answered Finalized; and j >= 1. *)
Theorem stack_finalize_once_in_order n s h :
  reach n s h ->
  (forall post k b mid j a pre,
     h = post ++ EvFin k b :: mid ++ EvFin j a :: pre -> fin_completes a = true -> j < k) /\
  (forall post j a pre,
     h = post ++ EvFin j a :: pre ->
     1 <= j /\ (In (EvExec (j - 1) (ROk XExhausted)) pre \/ In (EvFin (j - 1) (ROk FFinalized)) pre)).
Proof.
  intros R. pose proof (si_h _ _ _ (sinv_reach _ _ _ R)) as Hh. split.
  - intros post k b mid j a pre E Ha. subst h.
    apply hist_ok_mid in Hh. cbn [ev_ok] in Hh. destruct Hh as (F & _ & _).
    pose proof (floor_f_mid mid (EvFin j a) pre) as M.
    destruct a as [[| |]|]; try discriminate; cbn [ff_of] in M; lia.
  - intros post j a pre E. subst h. apply hist_ok_mid in Hh. cbn [ev_ok] in Hh. tauto.
Qed.
Example stack_finalize_once_in_order_hyps :
  exists n s h post k b mid j a pre, reach n s h /\
    h = post ++ EvFin k b :: mid ++ EvFin j a :: pre /\ fin_completes a = true.
Proof.
  pose (px := fun a => {| on_exec := ROk a; on_fin := ROk FFinalized |}).
  pose (r := run_h {| nops := 3; instrs := [IExec 0 true] |} []
                   [px XExhausted; px XNeedsMore; px XReady; px XReady]).
  exists 3, (fst r), (snd r), [], 2, (ROk FFinalized), [], 1, (ROk FFinalized),
    [EvExec 1 (ROk XNeedsMore); EvExec 0 (ROk XExhausted)].
  split; [apply reach_run_h; apply reach_new; reflexivity | split; reflexivity].
Qed.

(* an operator that answered Exhausted, and every operator upstream of it, is never called again *)
Theorem stack_exhausted_ops_never_run_again n s h :
  reach n s h ->
  forall post i pre e, h = post ++ EvExec i (ROk XExhausted) :: pre -> In e post -> i < ev_op e.
Proof.
  intros R post i pre e E Hin. pose proof (si_h _ _ _ (sinv_reach _ _ _ R)) as Hh. subst h.
  destruct (in_split _ _ Hin) as (a & b & Eab). subst post.
  rewrite <- app_assoc in Hh. cbn [app] in Hh. apply hist_ok_mid in Hh.
  pose proof (floor_e_mid b (EvExec i (ROk XExhausted)) pre) as Me.
  pose proof (floor_f_mid b (EvExec i (ROk XExhausted)) pre) as Mf.
  cbn [fe_of ff_of] in Me, Mf.
  destruct e as [i' a'|j' a']; cbn [ev_ok ev_op] in *; [lia | destruct Hh as (F & _ & _); lia].
Qed.
Example stack_exhausted_ops_never_run_again_hyps :
  exists n s h post i pre e, reach n s h /\ h = post ++ EvExec i (ROk XExhausted) :: pre /\ In e post.
Proof.
  pose (px := fun a => {| on_exec := ROk a; on_fin := ROk FFinalized |}).
  pose (r := run_h {| nops := 2; instrs := [IExec 0 true] |} [] [px XExhausted; px XNeedsMore]).
  exists 2, (fst r), (snd r), [EvExec 1 (ROk XNeedsMore)], 0, [], (EvExec 1 (ROk XNeedsMore)).
  split; [apply reach_run_h; apply reach_new; reflexivity | split; [reflexivity | left; reflexivity]].
Qed.

(* ---------- 4b. Finished is final ---------- *)
Theorem stack_finished_is_final n s h p s' j :
  reach n s h -> pop_next s p = (s', Finished, CFin j) ->
  is_last s j = true /\ on_fin p = ROk FFinalized /\ instrs s' = [] /\
  forall p', pop_next s' p' = (s', Finished, CNone).
Proof.
  intros R H. pose proof (si_wf _ _ _ (sinv_reach _ _ _ R)) as Hwf. revert H.
  pop_cases s p; intros H; inversion H; subst; clear H; try congruence.
  cbn [wf] in Hwf. destruct Hwf as (_ & _ & W3 & _).
  destruct rest; [|destruct W3; discriminate].
  split; [first [reflexivity | apply Nat.eqb_refl]|]. split; [reflexivity|]. split; [reflexivity|]. intros p'. reflexivity.
Qed.
Example stack_finished_is_final_hyps :
  exists n s h p s' j, reach n s h /\ pop_next s p = (s', Finished, CFin j).
Proof.
  pose (px := fun a => {| on_exec := ROk a; on_fin := ROk FFinalized |}).
  pose (r := run_h {| nops := 2; instrs := [IExec 0 true] |} [] [px XExhausted; px XNeedsMore]).
  exists 2, (fst r), (snd r), (px XReady). eexists. exists 1.
  split; [apply reach_run_h; apply reach_new; reflexivity | reflexivity].
Qed.

(* ---------- pipeline level ---------- *)
Lemma pipe_done_taken answers : forall pl pl' rest evs,
  pipe_poll pl answers = (pl', PDone, rest, evs) -> profile_taken pl' = true.
Proof.
  induction answers as [|p more IH]; intros pl pl' rest evs H.
  - cbn [pipe_poll] in H. destruct (profile_taken pl); [discriminate|].
    destruct (instrs (pstack pl)); inversion H; subst; reflexivity.
  - cbn [pipe_poll] in H. destruct (profile_taken pl); [discriminate|].
    destruct (pop_next (pstack pl) p) as [[s1 c1] k1].
    destruct c1; try (inversion H; subst; reflexivity; fail); try discriminate.
    destruct (pipe_poll {| pstack := s1; profile_taken := false |} more) as [[[pl2 r2] rest2] evs2] eqn:E.
    inversion H; subst. eapply IH. exact E.
Qed.

(* after Ready(Ok) every later poll_execute answers the "already completed" error, makes no
   operator call, consumes nothing and leaves the pipeline as it is: forever *)
Theorem pipe_completed_stays_completed pl answers pl' rest evs :
  pipe_poll pl answers = (pl', PDone, rest, evs) ->
  forall answers', pipe_poll pl' answers' = (pl', PErrCompleted, answers', []).
Proof.
  intros H answers'. pose proof (pipe_done_taken _ _ _ _ _ H) as T.
  destruct answers'; cbn [pipe_poll]; rewrite T; reflexivity.
Qed.
Example pipe_completed_stays_completed_hyps :
  exists pl answers pl' rest evs, pipe_poll pl answers = (pl', PDone, rest, evs).
Proof.
  pose (px := fun a => {| on_exec := ROk a; on_fin := ROk FFinalized |}).
  exists {| pstack := {| nops := 2; instrs := [IExec 0 true] |}; profile_taken := false |},
    [px XExhausted; px XNeedsMore; px XReady].
  eexists. eexists. eexists. reflexivity.
Qed.

(* poll_execute does not remember that it returned an error: a second call continues with whatever
   pop_next left on the stack and calls operators again. *)
Theorem pipe_repoll_after_error_continues :
  exists s0 answers pl' e rest evs,
    new 2 = Some s0 /\
    pipe_poll {| pstack := s0; profile_taken := false |} answers = (pl', PErr e, rest, evs) /\
    exists answers2 pl'' r rest2 evs2,
      pipe_poll pl' answers2 = (pl'', r, rest2, evs2) /\ evs2 <> [].
Proof.
  pose (px := fun a => {| on_exec := a; on_fin := RErr |}).
  eexists. exists [px (ROk XReady); px RErr]. eexists. eexists. eexists. eexists.
  split; [reflexivity|]. split; [vm_compute; reflexivity|].
  exists [px (ROk XPending)]. eexists. eexists. eexists. eexists.
  split; [vm_compute; reflexivity | discriminate].
Qed.
(* worse: after an operator error a re-poll can report SUCCESS (Ready(Ok)) without any finalize *)
Theorem pipe_repoll_after_error_can_report_done :
  exists s0 answers pl' e rest evs,
    new 2 = Some s0 /\
    pipe_poll {| pstack := s0; profile_taken := false |} answers = (pl', PErr e, rest, evs) /\
    exists pl'' rest2, pipe_poll pl' [] = (pl'', PDone, rest2, []).
Proof.
  pose (px := fun a => {| on_exec := a; on_fin := RErr |}).
  eexists. exists [px RErr]. eexists. eexists. eexists. eexists.
  split; [reflexivity|]. split; [vm_compute; reflexivity|].
  eexists. eexists. vm_compute. reflexivity.
Qed.

(* ---------- 4a. termination measure ---------- *)
(* progress of the pipeline = how far the BOTTOM instruction (the current pipeline start, or the
   pending finalize) has advanced; work in flight = sum over the stack of (n - operator). *)
Definition prog (x : instr) : nat := match x with IExec b _ => 2 * b | IFin b => 2 * b - 1 end.
Definition M1 (s : stack) : nat :=
  match instrs s with [] => 0 | _ => 2 * nops s - prog (last (instrs s) (IFin 0)) end.
Definition M2 (s : stack) : nat := list_sum (map (fun x => nops s - iop x) (instrs s)).
(* the only answers that put new work on the stack: HasMore (any operator) and Ready from a
   pipeline-start instruction -- i.e. "a new batch entered the pipeline" *)
Definition pushes_work (s : stack) (p : poll) : bool :=
  match instrs s with
  | IExec _ st :: _ => match on_exec p with ROk XHasMore => true | ROk XReady => st | _ => false end
  | _ => false
  end.

Lemma wf_last n d : forall rest x, wf n (x :: rest) -> prog (last (x :: rest) d) <= prog x.
Proof.
  induction rest as [|y r IH]; intros x W; [cbn [last]; lia|].
  change (last (x :: y :: r) d) with (last (y :: r) d).
  cbn [wf] in W. destruct W as (_ & _ & [U Rk] & W'). specialize (IH y W').
  destruct x as [j [|]|k]; try discriminate. destruct y as [i [|]|b]; cbn [rank prog] in *; lia.
Qed.

(* Every Continue step that does not let a new batch in strictly decreases (M1, M2)
   lexicographically; M1 <= 2n and M2 are naturals, so between two batch-producing answers only
   finitely many Continue steps happen, and after the last such answer the loop stops. *)
Theorem stack_terminates n s h p :
  reach n s h -> ctl s p = Continue -> pushes_work s p = false ->
  M1 (nx s p) < M1 s \/ (M1 (nx s p) = M1 s /\ M2 (nx s p) < M2 s).
Proof.
  intros R. pose proof (sinv_reach _ _ _ R) as [Hn Hpos Hwf _ _]. clear R.
  unfold pushes_work, M1, M2.
  pop_cases s p; intros Hc Hw; try discriminate; subst;
    pose proof (wf_last _ (IFin 0) _ _ Hwf) as WL; cbn [wf iop] in Hwf;
    destruct Hwf as (W1 & W2 & W3 & W4); subst;
    destruct rest as [|y r]; try (destruct W3; discriminate);
    unfold list_sum in *; cbn [last map fold_right prog iop] in *; try lia.
Qed.
Example stack_terminates_hyps :
  exists n s h p, reach n s h /\ ctl s p = Continue /\ pushes_work s p = false.
Proof.
  exists 2, {| nops := 2; instrs := [IExec 0 true] |}, [], {| on_exec := ROk XExhausted; on_fin := RErr |}.
  split; [apply reach_new; reflexivity | split; reflexivity].
Qed.

(* a batch-producing step leaves M1 alone and adds at most n to M2 *)
Theorem stack_work_step_bounded n s h p :
  reach n s h -> ctl s p = Continue -> pushes_work s p = true ->
  M1 (nx s p) = M1 s /\ M2 (nx s p) <= M2 s + n.
Proof.
  intros R. pose proof (sinv_reach _ _ _ R) as [Hn Hpos Hwf _ _]. clear R.
  unfold pushes_work, M1, M2.
  pop_cases s p; intros Hc Hw; try discriminate; subst;
    destruct rest as [|y r]; unfold list_sum in *; cbn [last map fold_right prog iop] in *; try lia.
Qed.

Theorem stack_M1_bounded n s h : reach n s h -> M1 s <= 2 * n.
Proof.
  intros R. pose proof (sinv_reach _ _ _ R) as [Hn _ _ _ _]. unfold M1. destruct (instrs s); lia.
Qed.

(* ---------- 2. ghost batch buffers: each produced batch is consumed exactly once ---------- *)
(* bufs i = true: buffer i (output of operator i = input of operator i+1) holds an unconsumed batch *)
Definition bufs := nat -> bool.
Definition bset (b : bufs) (i : nat) (v : bool) : bufs := fun k => if k =? i then v else b k.

(* One monitor step for the call pop_next is about to make.  None = a REQUIRES failed:
   - execute of a non-start instruction for operator i requires i >= 1 and buffer i-1 Full
     (otherwise it would consume a batch twice / a batch that was never produced);
   - execute of a non-last operator i requires buffer i Empty (otherwise an unconsumed batch is
     overwritten = lost);
   - finalize of operator j requires buffer j-1 Empty (otherwise a batch is left behind).
   Effects: Ready/NeedsMore consume the input (non-start only); HasMore/Pending/Exhausted leave it;
   Ready/HasMore/Exhausted fill the output (non-last only). *)
Definition mon_step (s : stack) (p : poll) (b : bufs) : option bufs :=
  match instrs s with
  | [] => Some b
  | IExec i st :: _ =>
      match on_exec p with
      | RErr => Some b
      | ROk a =>
          let in_ok := if st then true else (1 <=? i) && b (i - 1) in
          let out_ok := if is_last s i then true else negb (b i) in
          if in_ok && out_ok then
            let b1 := if st then b else
                      match a with XReady | XNeedsMore => bset b (i - 1) false | _ => b end in
            Some (if is_last s i then b1 else
                  match a with XReady | XHasMore | XExhausted => bset b1 i true | _ => b1 end)
          else None
      end
  | IFin j :: _ => if j =? 0 then Some b else if b (j - 1) then None else Some b
  end.

(* the one answer discipline the theorem needs: the execute call itself does not fail *)
Definition exec_err (s : stack) (p : poll) : bool :=
  match instrs s with
  | IExec _ _ :: _ => match on_exec p with RErr => true | _ => false end
  | _ => false
  end.

(* run the monitor along a script; checking stops (true) at the first failed execute call *)
Fixpoint mon_run (s : stack) (b : bufs) (script : list poll) : bool :=
  match script with
  | [] => true
  | p :: more =>
      if exec_err s p then true else
      match mon_step s p b with None => false | Some b' => mon_run (nx s p) b' more end
  end.

Definition lo_out (x : instr) : nat := match x with IExec j _ => j | IFin k => k - 1 end.
Definition input_ok (b : bufs) (x : instr) : Prop :=
  match x with IExec j false => 1 <= j /\ b (j - 1) = true | _ => True end.
Fixpoint chain (b : bufs) (l : list instr) : Prop :=
  match l with
  | [] => True
  | x :: rest =>
      input_ok b x /\
      (match rest with [] => True | y :: _ => forall k, lo_out y <= k -> S k < iop x -> b k = false end) /\
      chain b rest
  end.
Definition top_ok (b : bufs) (l : list instr) : Prop :=
  match l with [] => True | x :: _ => forall k, lo_out x <= k -> b k = false end.
Definition rd (x : instr) : nat := match x with IExec j _ => j | IFin _ => 0 end.
Definition rd_hd (l : list instr) : nat := match l with [] => 0 | x :: _ => rd x end.

Lemma chain_ext n b b' : forall l, wf n l -> (forall k, k < rd_hd l -> b k = b' k) -> chain b l -> chain b' l.
Proof.
  induction l as [|x rest IH]; intros W E C; [exact I|].
  cbn [wf] in W. destruct W as (W1 & W2 & W3 & W4). cbn [chain] in *. destruct C as (CI & CR & CC).
  cbn [rd_hd] in E. split; [|split].
  - destruct x as [j [|]|k0]; cbn [input_ok rd] in *; auto. destruct CI as [C1 C2]. split; [exact C1|].
    rewrite <- E; [exact C2 | lia].
  - destruct rest as [|y r]; [exact I|]. destruct W3 as [U Rk].
    destruct x as [j [|]|k0]; try discriminate. cbn [iop rd] in *.
    intros k K1 K2. rewrite <- E; [apply CR; assumption | lia].
  - apply IH; [exact W4 | | exact CC]. intros k Hk. apply E.
    destruct rest as [|y r]; [cbn in Hk; lia|]. destruct W3 as [U Rk].
    destruct x as [j [|]|k0]; try discriminate.
    destruct y as [i [|]|b0]; cbn [rank rd rd_hd] in *; lia.
Qed.

Ltac bs T Rg :=
  unfold bset; repeat (match goal with |- context [?a =? ?b] => destruct (Nat.eqb_spec a b) end);
  try reflexivity; try lia; try (apply T; cbn [lo_out iop] in *; lia); try (apply Rg; cbn [lo_out iop] in *; lia);
  try (match type of T with forall k0, ?t <= k0 -> _ =>
         match goal with |- _ ?k = false =>
           destruct (le_lt_dec t k); [apply T; lia | apply Rg; cbn [lo_out iop] in *; lia] end end).

Lemma if_same {A} (c : bool) (x : A) : (if c then x else x) = x.
Proof. destruct c; reflexivity. Qed.

Ltac exec_prelude b T C Hwf :=
  match type of Hwf with
  | wf _ (IExec ?op ?st :: _) =>
      cbn [wf iop] in Hwf; destruct Hwf as (W1 & W2 & W3 & W4);
      cbn [top_ok lo_out] in T; cbn [chain] in C; destruct C as (CI & CR & CC);
      assert (Hout : b op = false) by (apply T; lia);
      assert (Hin : (if st then true else (1 <=? op) && b (op - 1)) = true)
        by (destruct st; [reflexivity|]; cbn [input_ok] in CI; destruct CI as [C1 C2]; rewrite C2;
            destruct (Nat.leb_spec 1 op); [reflexivity | lia]);
      rewrite Hin, ?Hout; cbn [negb andb]; rewrite ?if_same; (eexists; split; [reflexivity|])
  end.

Lemma bstep n s b p :
  nops s = n -> wf n (instrs s) -> top_ok b (instrs s) -> chain b (instrs s) -> exec_err s p = false ->
  exists b', mon_step s p b = Some b' /\ top_ok b' (instrs (nx s p)) /\ chain b' (instrs (nx s p)).
Proof.
  intros Hn Hwf T C. unfold mon_step, exec_err.
  pop_cases s p; intros He; try discriminate; subst.
  1: { exists b. auto. }
  (* execute cases *)
  1-10: exec_prelude b T C Hwf.
  - (* Ready, last *)
    destruct st; [split; [exact T | cbn [chain]; auto]|].
    cbn [input_ok] in CI. destruct CI as [C1 C2].
    split.
    + destruct rest as [|y r]; [exact I|]. cbn [top_ok]. intros k Hk. destruct W3 as [U Rk]. bs T CR.
    + eapply chain_ext; [exact W4 | | exact CC]. intros k Hk.
      destruct rest as [|y r]; [cbn in Hk; lia|]. destruct W3 as [U Rk].
      destruct y as [i [|]|b0]; cbn [rank rd rd_hd] in *; bs T CR.
  - (* Ready, not last *)
    destruct st.
    + destruct rest as [|y r]; [|destruct W3; discriminate].
      split; [cbn [top_ok lo_out]; intros k Hk; bs T CR|].
      cbn [chain input_ok lo_out iop]. split; [split; [lia|bs T CR]|]. split; [intros k K1 K2; lia|auto].
    + cbn [input_ok] in CI. destruct CI as [C1 C2].
      split; [cbn [top_ok lo_out]; intros k Hk; bs T CR|].
      cbn [chain input_ok lo_out iop]. split; [split; [lia|bs T CR]|]. split.
      * destruct rest as [|y r]; [exact I|]. intros k K1 K2. bs T CR.
      * eapply chain_ext; [exact W4 | | exact CC]. intros k Hk.
        destruct rest as [|y r]; [cbn in Hk; lia|]. destruct W3 as [U Rk].
        destruct y as [i [|]|b0]; cbn [rank rd rd_hd] in *; bs T CR.
  - (* Pending *)
    split; [exact T | cbn [chain]; auto].
  - split; [exact T | cbn [chain]; auto].
  - (* NeedsMore *)
    destruct st.
    + destruct rest as [|y r]; [|destruct W3; discriminate]. split; exact I.
    + cbn [input_ok] in CI. destruct CI as [C1 C2]. split.
      * destruct rest as [|y r]; [exact I|]. cbn [top_ok]. intros k Hk. destruct W3 as [U Rk]. bs T CR.
      * eapply chain_ext; [exact W4 | | exact CC]. intros k Hk.
        destruct rest as [|y r]; [cbn in Hk; lia|]. destruct W3 as [U Rk].
        destruct y as [i [|]|b0]; cbn [rank rd rd_hd] in *; bs T CR.
  - destruct st.
    + destruct rest as [|y r]; [|destruct W3; discriminate]. split; exact I.
    + cbn [input_ok] in CI. destruct CI as [C1 C2]. split.
      * destruct rest as [|y r]; [exact I|]. cbn [top_ok]. intros k Hk. destruct W3 as [U Rk]. bs T CR.
      * eapply chain_ext; [exact W4 | | exact CC]. intros k Hk.
        destruct rest as [|y r]; [cbn in Hk; lia|]. destruct W3 as [U Rk].
        destruct y as [i [|]|b0]; cbn [rank rd rd_hd] in *; bs T CR.
  - (* HasMore, last *)
    destruct st; (split; [exact T | cbn [chain]; auto]).
  - (* HasMore, not last *)
    split; [cbn [top_ok lo_out]; intros k Hk; bs T CR|].
    cbn [chain input_ok lo_out iop]. split; [split; [lia|bs T CR]|]. split; [intros k K1 K2; lia|].
    split; [|split].
    + destruct st; [exact I|]. cbn [input_ok] in *. destruct CI as [C1 C2]. split; [exact C1|bs T CR].
    + destruct rest as [|y r]; [exact I|]. intros k K1 K2. bs T CR.
    + eapply chain_ext; [exact W4 | | exact CC]. intros k Hk.
      destruct rest as [|y r]; [cbn in Hk; lia|]. destruct W3 as [U Rk].
      destruct st; [discriminate|].
      destruct y as [i [|]|b0]; cbn [rank rd rd_hd] in *; bs T CR.
  - (* Exhausted, last *)
    split; exact I.
  - (* Exhausted, not last *)
    split; [cbn [top_ok lo_out]; intros k Hk; destruct st; bs T CR|].
    cbn [chain input_ok lo_out iop]. split; [split; [lia | destruct st; bs T CR]|].
    split; [intros k K1 K2; lia | auto].
  - (* IFin 0 *)
    cbn [wf] in Hwf. lia.
  - (* Finalized, last *)
    cbn [wf iop] in Hwf. destruct Hwf as (W1 & W2 & W3 & W4). destruct rest; [|destruct W3; discriminate].
    cbn [top_ok lo_out] in T. rewrite T by lia. exists b. repeat split; exact I.
  - (* Finalized, not last *)
    cbn [wf iop] in Hwf. destruct Hwf as (W1 & W2 & W3 & W4). destruct rest; [|destruct W3; discriminate].
    cbn [top_ok lo_out] in T. rewrite T by lia. exists b. split; [reflexivity|].
    split; [cbn [top_ok lo_out]; intros k Hk; apply T; lia | cbn [chain input_ok]; auto].
  - (* NeedsDrain, last *)
    cbn [wf iop] in Hwf. destruct Hwf as (W1 & W2 & W3 & W4). destruct rest; [|destruct W3; discriminate].
    cbn [top_ok lo_out] in T. rewrite T by lia. exists b. repeat split; exact I.
  - (* NeedsDrain, not last *)
    cbn [wf iop] in Hwf. destruct Hwf as (W1 & W2 & W3 & W4). destruct rest; [|destruct W3; discriminate].
    cbn [top_ok lo_out] in T. rewrite T by lia. exists b. split; [reflexivity|].
    split; [cbn [top_ok lo_out]; intros k Hk; apply T; lia | cbn [chain input_ok]; auto].
  - (* fin Pending *)
    cbn [top_ok lo_out] in T. rewrite T by lia. exists b. split; [reflexivity|].
    split; [exact T | exact C].
  - (* fin RErr *)
    cbn [wf iop] in Hwf. destruct Hwf as (W1 & W2 & W3 & W4). destruct rest; [|destruct W3; discriminate].
    cbn [top_ok lo_out] in T. rewrite T by lia. exists b. repeat split; exact I.
Qed.

Lemma mon_run_ok n script : forall s h b,
  reach n s h -> top_ok b (instrs s) -> chain b (instrs s) -> mon_run s b script = true.
Proof.
  induction script as [|p more IH]; intros s h b R T C; cbn [mon_run]; [reflexivity|].
  destruct (exec_err s p) eqn:Ee; [reflexivity|].
  pose proof (sinv_reach _ _ _ R) as [Hn _ Hwf _ _].
  destruct (bstep n s b p Hn Hwf T C Ee) as (b' & M & T' & C'). rewrite M.
  apply (IH _ (ev_of (cl s p) p ++ h)); [apply reach_pop; exact R | exact T' | exact C'].
Qed.

(* On every run from `new n` (any n >= 1), as long as no execute call fails (RErr), no REQUIRES of
   the buffer monitor fails, whatever the operators answer: a batch is never consumed twice, never
   overwritten before it is consumed, and none is left in a buffer when its consumer is finalized.
   (Batches upstream of an operator that answers Exhausted are abandoned on purpose, see
   stack_exhausted_ops_never_run_again.)  No further answer discipline is needed for this. *)
Theorem stack_delivers_each_batch_once n s0 script :
  new n = Some s0 -> mon_run s0 (fun _ => false) script = true.
Proof.
  intros H. apply (mon_run_ok n script s0 []); [apply reach_new; exact H | |].
  - destruct (instrs s0); [exact I | intros k _; reflexivity].
  - unfold new in H. destruct (n =? 0); [discriminate|]. inversion H; subst. cbn. auto.
Qed.
Example stack_delivers_each_batch_once_hyps : exists n s0, new n = Some s0.
Proof. exists 3. eexists. reflexivity. Qed.
(* the monitor is not vacuous: it does reject a bad stack/buffer combination ... *)
Example mon_step_can_fail :
  mon_step {| nops := 3; instrs := [IExec 1 false] |} {| on_exec := ROk XReady; on_fin := RErr |} (fun _ => false) = None.
Proof. reflexivity. Qed.
(* ... and WITHOUT the discipline (an execute call fails and the pipeline is polled again, which
   poll_execute permits) a REQUIRES does fail: the failed operator's input batch is still in its
   buffer when the source is asked to overwrite/produce again -- the batch is lost. *)
Fixpoint mon_run_nodisc (s : stack) (b : bufs) (script : list poll) : bool :=
  match script with
  | [] => true
  | p :: more => match mon_step s p b with None => false | Some b' => mon_run_nodisc (nx s p) b' more end
  end.
Theorem stack_delivers_each_batch_once_without_discipline_refuted :
  exists s0 script, new 3 = Some s0 /\ mon_run_nodisc s0 (fun _ => false) script = false.
Proof.
  pose (px := fun a => {| on_exec := a; on_fin := RErr |}).
  eexists. exists [px (ROk XReady); px RErr; px (ROk XReady)]. split; reflexivity.
Qed.

(* ---------- Finished without finalize ---------- *)
(* FULL statement wanted: whenever pop_next answers Finished, the sink (operator n-1) has been
   finalized.  Refuted: a pipeline-start instruction answering NeedsMore (or any failed call) empties
   the stack, and the next pop_next answers Finished with no finalize at all. *)
Definition has_fin (h : list ev) : bool :=
  existsb (fun e => match e with EvFin _ _ => true | _ => false end) h.
Theorem stack_finished_implies_sink_finalized_refuted :
  exists s0 script s h p, new 2 = Some s0 /\ run_h s0 [] script = (s, h) /\
    Forall (fun q => on_exec q <> RErr /\ on_fin q <> RErr) script /\
    ctl s p = Finished /\ has_fin h = false.
Proof.
  pose (px := fun a => {| on_exec := ROk a; on_fin := ROk FFinalized |}).
  eexists. exists [px XNeedsMore]. eexists. eexists. exists (px XReady).
  split; [reflexivity|]. split; [reflexivity|].
  split; [repeat constructor; discriminate | split; reflexivity].
Qed.

(* What holds: as long as every step so far returned Continue or Pending (no error, no panic) and
   no pipeline-start instruction answered NeedsMore, the stack is not empty and its bottom is a
   pipeline start or a finalize; so the first Finished is the one produced by finalize(n-1) =
   Finalized.  Discipline for the lead to cross-check: sources (PollPull) never answer NeedsMore
   by type; an operator in drain mode (IExec j true after NeedsDrain) must not answer NeedsMore. *)
Definition bottom_ok (l : list instr) : Prop :=
  l <> [] /\ is_upper (last l (IFin 0)) = false.
Definition start_needs_more (s : stack) (p : poll) : bool :=
  match instrs s with
  | IExec _ true :: _ => match on_exec p with ROk XNeedsMore => true | _ => false end
  | _ => false
  end.
Definition quiet (c : control) : bool := match c with Continue | Pending => true | _ => false end.

Lemma bottom_ok_step n s h p :
  reach n s h -> bottom_ok (instrs s) -> quiet (ctl s p) = true -> start_needs_more s p = false ->
  bottom_ok (instrs (nx s p)).
Proof.
  intros R. pose proof (sinv_reach _ _ _ R) as [Hn Hpos Hwf _ _]. clear R.
  unfold bottom_ok, start_needs_more.
  pop_cases s p; intros [B1 B2] Hq Hs; try discriminate; try congruence; subst;
    cbn [wf iop] in Hwf; destruct Hwf as (W1 & W2 & W3 & W4);
    try (destruct st); try discriminate;
    destruct rest as [|y r]; try (destruct W3; discriminate); try discriminate;
    (split; [discriminate|]); cbn [last is_upper] in *; auto.
Qed.

Theorem stack_finished_only_by_sink_finalize_partial n script : forall s h,
  reach n s h -> bottom_ok (instrs s) ->
  forall p, let s' := fst (run_h s h script) in
  (forall pre q post, script = pre ++ q :: post ->
     let sq := fst (run_h s h pre) in quiet (ctl sq q) = true /\ start_needs_more sq q = false) ->
  ctl s' p = Finished -> exists j, cl s' p = CFin j /\ is_last s' j = true /\ on_fin p = ROk FFinalized.
Proof.
  induction script as [|q more IH]; intros s h R B p s' D Hf.
  - subst s'. cbn [run_h fst] in *. destruct B as [B1 B2].
    pose proof (sinv_reach _ _ _ R) as [Hn Hpos Hwf _ _].
    revert Hf. unfold is_last. pop_cases s p; intros Hf; try discriminate; try congruence.
    eexists. split; [reflexivity|]. split; [|reflexivity]. subst. apply Nat.eqb_refl.
  - subst s'. cbn [run_h] in *.
    destruct (D [] q more eq_refl) as [Q1 Q2]. cbn [run_h fst] in Q1, Q2.
    apply IH; [apply reach_pop; exact R | eapply bottom_ok_step; eassumption | | exact Hf].
    intros pre q' post E. apply (D (q :: pre) q' post). cbn [app]. rewrite E. reflexivity.
Qed.
Example stack_finished_only_by_sink_finalize_partial_hyps :
  exists n script s h p, reach n s h /\ bottom_ok (instrs s) /\
    (forall pre q post, script = pre ++ q :: post ->
       quiet (ctl (fst (run_h s h pre)) q) = true /\ start_needs_more (fst (run_h s h pre)) q = false) /\
    ctl (fst (run_h s h script)) p = Finished.
Proof.
  pose (px := fun a => {| on_exec := ROk a; on_fin := ROk FFinalized |}).
  exists 2, [px XExhausted; px XNeedsMore], {| nops := 2; instrs := [IExec 0 true] |}, [], (px XReady).
  split; [apply reach_new; reflexivity|]. split; [split; [discriminate | reflexivity]|].
  split; [|reflexivity].
  intros pre q post E.
  destruct pre as [|a [|a2 [|a3 pre]]]; inversion E; subst; try (split; reflexivity).
Qed.

Print Assumptions stack_replays_after_pending.
Print Assumptions stack_delivers_each_batch_once.
Print Assumptions stack_delivers_each_batch_once_without_discipline_refuted.
Print Assumptions stack_exhausted_ops_never_run_again.
Print Assumptions stack_finalize_once_in_order.
Print Assumptions stack_terminates.
Print Assumptions stack_work_step_bounded.
Print Assumptions stack_M1_bounded.
Print Assumptions stack_finished_is_final.
Print Assumptions stack_finished_implies_sink_finalized_refuted.
Print Assumptions stack_finished_only_by_sink_finalize_partial.
Print Assumptions pipe_completed_stays_completed.
Print Assumptions pipe_repoll_after_error_continues.
Print Assumptions pipe_repoll_after_error_can_report_done.
