(* C04 — proofs about model/TaskSched.v (thread-pool task state machine, one task).
   All theorems quantify over every event interleaving from `init` (reachable), by invariant. *)
From Coq Require Import List Arith Bool Lia ZifyBool.
From GV Require Import model.TaskSched.
Import ListNotations.

Definition reachable (s : tstate) : Prop := exists tr, run init tr = Some s.

(* ---------- counting worker phases ---------- *)
Definition cnt (f : wphase -> bool) (l : list wphase) : nat := length (filter f l).
Definition is_ready p := match p with WSpawned | WLoop => true | _ => false end.
(* is_gotdone: execute() returned `true` (Ready(Ok) or, since baf9ea120, Ready(Err)) *)
Definition is_gotdone p := match p with WGot XDone | WGot XErr => true | _ => false end.
Definition is_gotother p := match p with WGot XPend => true | _ => false end.

Ltac sf := cbn [running pending completed canceled workers pipe_done owed cancel_reports errored
                execs_after_err execs_after_done].
Ltac sfa := cbn [running pending completed canceled workers pipe_done owed cancel_reports errored
                 execs_after_err execs_after_done] in *.
Ltac ph := cbn [alive is_ready in_execute is_gotdone is_gotother xres_completed] in *.

Lemma cnt_cons f a l : cnt f (a :: l) = (if f a then 1 else 0) + cnt f l.
Proof. unfold cnt. cbn [filter]. destruct (f a); reflexivity. Qed.

Lemma cnt_snoc f l p : cnt f (l ++ [p]) = cnt f l + (if f p then 1 else 0).
Proof. unfold cnt. rewrite filter_app, app_length. cbn [filter]. destruct (f p); reflexivity. Qed.

Lemma cnt_set_nth f l i old p : nth_error l i = Some old ->
  cnt f (set_nth l i p) + (if f old then 1 else 0) = cnt f l + (if f p then 1 else 0).
Proof.
  revert i. induction l as [|a l IH]; intros [|i] H; cbn [nth_error] in H; try discriminate.
  - inversion H; subst. cbn [set_nth]. rewrite !cnt_cons. destruct (f old), (f p); lia.
  - specialize (IH i H). cbn [set_nth]. rewrite !cnt_cons. lia.
Qed.

Lemma cnt_nth_pos f l i p : nth_error l i = Some p -> f p = true -> 1 <= cnt f l.
Proof.
  revert i. induction l as [|a l IH]; intros [|i] H Hf; cbn [nth_error] in H; try discriminate.
  - inversion H; subst. rewrite cnt_cons, Hf. lia.
  - rewrite cnt_cons. specialize (IH i H Hf). lia.
Qed.

Lemma cnt_pos_nth f l : 1 <= cnt f l -> exists i p, nth_error l i = Some p /\ f p = true.
Proof.
  induction l as [|a l IH]; [unfold cnt; cbn; lia|]. rewrite cnt_cons. destruct (f a) eqn:E.
  - intros _. exists 0, a. cbn. auto.
  - intros H. destruct (IH H) as (i & p & Hi & Hp). exists (S i), p. auto.
Qed.

Lemma nth_set_nth_same l i old p : nth_error l i = Some old -> nth_error (set_nth l i p) i = Some p.
Proof.
  revert i. induction l as [|a l IH]; intros [|i] H; cbn [nth_error] in H; try discriminate.
  - reflexivity.
  - cbn [set_nth nth_error]. apply IH. exact H.
Qed.

Lemma cnt_alive_split l :
  cnt alive l = cnt is_ready l + cnt in_execute l + cnt is_gotdone l + cnt is_gotother l.
Proof.
  induction l as [|a l IH]; [reflexivity|]. rewrite !cnt_cons, IH.
  destruct a as [| |[| |]| |]; ph; lia.
Qed.

Lemma n_alive_cnt s : n_alive s = cnt alive (workers s).
Proof. reflexivity. Qed.
Lemma n_in_execute_cnt s : n_in_execute s = cnt in_execute (workers s).
Proof. reflexivity. Qed.

(* ---------- the invariant ---------- *)
Record Inv (s : tstate) : Prop := {
  iA1 : cnt alive (workers s) <= 1;
  iA2 : cnt alive (workers s) = 1 -> running s = true;
  iA3 : running s = true -> cnt alive (workers s) = 1 \/ completed s = true;
  iA4 : completed s = true -> cnt alive (workers s) = 0;
  iA5 : pending s = true -> cnt alive (workers s) = 1;
  iA6 : owed s = true -> completed s = true \/ pending s = true \/ 1 <= cnt is_ready (workers s);
  iA7 : execs_after_done s = 0;
  iA8 : pipe_done s = true -> completed s = true \/ 1 <= cnt is_gotdone (workers s);
  iA9 : execs_after_err s = 0;
  iA10 : errored s = true -> completed s = true \/ 1 <= cnt is_gotdone (workers s)
}.

Lemma inv_init : Inv init.
Proof. constructor; cbn; intros; try lia; try discriminate; auto. Qed.

Ltac counts Hn newp :=
  pose proof (cnt_set_nth alive _ _ _ newp Hn);
  pose proof (cnt_set_nth is_ready _ _ _ newp Hn);
  pose proof (cnt_set_nth in_execute _ _ _ newp Hn);
  pose proof (cnt_set_nth is_gotdone _ _ _ newp Hn);
  pose proof (cnt_set_nth is_gotother _ _ _ newp Hn);
  ph.

Lemma inv_step s e s' : Inv s -> step s e = Some s' -> Inv s'.
Proof.
  intros I0 Hs. pose proof I0 as [A1 A2 A3 A4 A5 A6 A7 A8 A9 A10].
  pose proof (cnt_alive_split (workers s)) as SP.
  destruct e as [| | w | w r | w]; cbn [step] in Hs.
  - (* wake *)
    inversion Hs; subst s'; clear Hs. unfold do_wake.
    destruct (completed s) eqn:Ec; [exact I0|].
    destruct (canceled s) eqn:Eca.
    { constructor; sf; rewrite ?Ec; intros; lia. }
    destruct (running s) eqn:Er.
    + constructor; sf; rewrite ?Ec; intros; lia.
    + constructor; sf; rewrite ?Ec, ?cnt_snoc; ph; intros; lia.
  - (* cancel_set *)
    inversion Hs; subst s'; clear Hs. constructor; unfold do_cancel_set; sf; assumption.
  - (* begin *)
    unfold do_begin in Hs. destruct (nth_error (workers s) w) as [p|] eqn:Hn; [|discriminate].
    destruct p; try discriminate; inversion Hs; subst s'; clear Hs; counts Hn WExec;
      (destruct (pipe_done s) eqn:Epd; [exfalso; lia|]);
      (destruct (errored s) eqn:Eer; [exfalso; lia|]);
      constructor; sf; intros; try lia; try discriminate.
  - (* exec_done *)
    unfold do_exec_done in Hs. destruct (nth_error (workers s) w) as [p|] eqn:Hn; [|discriminate].
    destruct p; try discriminate.
    destruct (pipe_done s && negb match r with XErr => true | _ => false end) eqn:Eg; [discriminate|].
    inversion Hs; subst s'; clear Hs.
    destruct r; counts Hn (WGot XDone); counts Hn (WGot XErr); counts Hn (WGot XPend);
      constructor; sf; intros; try lia; try discriminate.
  - (* end *)
    unfold do_end in Hs. destruct (nth_error (workers s) w) as [p|] eqn:Hn; [|discriminate].
    destruct p as [| |r| |]; try discriminate.
    destruct (pending s) eqn:Ep; inversion Hs; subst s'; clear Hs;
      destruct r; ph; counts Hn WExited; counts Hn WLoop;
      constructor; sf; intros; try lia; try discriminate.
Qed.

Lemma inv_run tr : forall s s', Inv s -> run s tr = Some s' -> Inv s'.
Proof.
  induction tr as [|e tr IH]; intros s s' I H; cbn [run] in H.
  - inversion H; subst; exact I.
  - destruct (step s e) as [s1|] eqn:Es; [|discriminate].
    eapply IH; [eapply inv_step; eassumption | exact H].
Qed.

Lemma inv_reachable s : reachable s -> Inv s.
Proof. intros [tr H]. eapply inv_run; [apply inv_init | exact H]. Qed.

Lemma run_app a : forall s b s', run s (a ++ b) = Some s' <->
  exists m, run s a = Some m /\ run m b = Some s'.
Proof.
  induction a as [|e a IH]; intros s b s'; cbn [app run].
  - split; [intros H; exists s; auto | intros (m & Hm & H); inversion Hm; subst; exact H].
  - destruct (step s e) as [s1|]; [apply IH|].
    split; [discriminate | intros (m & Hm & _); discriminate].
Qed.

Lemma reachable_run s tr s' : reachable s -> run s tr = Some s' -> reachable s'.
Proof. intros [t H] R. exists (t ++ tr). apply run_app. exists s. auto. Qed.

Lemma reachable_step s e s' : reachable s -> step s e = Some s' -> reachable s'.
Proof. intros R H. apply (reachable_run s [e] s' R). cbn [run]. rewrite H. reflexivity. Qed.

(* ---------- 1. at most one worker closure alive ---------- *)
Theorem sched_single_worker s :
  reachable s -> n_alive s <= 1 /\ (n_alive s = 1 -> running s = true).
Proof. intros R. destruct (inv_reachable _ R). rewrite n_alive_cnt. auto. Qed.

(* hence never two concurrent execute() *)
Corollary sched_no_concurrent_execute s : reachable s -> n_in_execute s <= 1.
Proof.
  intros R. destruct (inv_reachable _ R). rewrite n_in_execute_cnt.
  pose proof (cnt_alive_split (workers s)). lia.
Qed.

(* ---------- 2. no lost wake ---------- *)
Theorem sched_no_lost_wake s :
  reachable s -> n_alive s = 0 -> owed s = true -> completed s = true.
Proof.
  intros R. destruct (inv_reachable _ R). rewrite n_alive_cnt.
  pose proof (cnt_alive_split (workers s)). intros. lia.
Qed.
Example sched_no_lost_wake_hyps :
  exists s, reachable s /\ n_alive s = 0 /\ owed s = true.
Proof.
  exists (match run init [EWake; EBegin 0; EWake; EExecDone 0 XDone; EEnd 0] with Some s => s | None => init end).
  split; [exists [EWake; EBegin 0; EWake; EExecDone 0 XDone; EEnd 0]; reflexivity | split; reflexivity].
Qed.

Definition is_worker_ev (w : nat) (e : event) : Prop :=
  e = EBegin w \/ (exists r, e = EExecDone w r) \/ e = EEnd w.

Lemma wev_begin w : is_worker_ev w (EBegin w). Proof. left; reflexivity. Qed.
Lemma wev_exec w r : is_worker_ev w (EExecDone w r). Proof. right; left; eexists; reflexivity. Qed.
Lemma wev_end w : is_worker_ev w (EEnd w). Proof. right; right; reflexivity. Qed.
Ltac wevs := repeat first [apply Forall_nil
  | apply Forall_cons; [first [apply wev_begin | apply wev_exec | apply wev_end]|]].

Lemma exec_done_ok s w r :
  nth_error (workers s) w = Some WExec -> pipe_done s = false ->
  exists s1, do_exec_done s w r = Some s1 /\ nth_error (workers s1) w = Some (WGot r) /\
             pending s1 = pending s /\ completed s1 = completed s /\ owed s1 = owed s.
Proof.
  intros Hn Hp. unfold do_exec_done. rewrite Hn, Hp. cbn [andb].
  eexists. split; [reflexivity|]. sf. split; [eapply nth_set_nth_same; exact Hn | auto].
Qed.

Lemma end_pending_ok s w r :
  nth_error (workers s) w = Some (WGot r) -> pending s = true ->
  exists s1, do_end s w = Some s1 /\ completed s1 = xres_completed r /\
             (xres_completed r = false -> nth_error (workers s1) w = Some WLoop).
Proof.
  intros Hn Hp. unfold do_end. rewrite Hn, Hp.
  eexists. split; [reflexivity|]. sf. split; [reflexivity|].
  intros E. rewrite E. eapply nth_set_nth_same; exact Hn.
Qed.

Lemma begin_ok s w p :
  nth_error (workers s) w = Some p -> is_ready p = true ->
  exists s1, do_begin s w = Some s1 /\ owed s1 = false.
Proof.
  intros Hn Hp. unfold do_begin. rewrite Hn.
  destruct p; try discriminate; eexists; (split; [reflexivity|]); reflexivity.
Qed.

(* enabledness: an owed wake is served by at most three events of the single alive worker, whatever
   result r the pipeline gives (or the task completes, which legitimately drops the wake). *)
Theorem sched_owed_wake_is_served s :
  reachable s -> owed s = true -> completed s = false ->
  exists w, forall r, exists tr s',
    length tr <= 3 /\ Forall (is_worker_ev w) tr /\ (forall r', In (EExecDone w r') tr -> r' = r) /\
    run s tr = Some s' /\ (owed s' = false \/ completed s' = true).
Proof.
  intros R Ho Hc. destruct (inv_reachable _ R) as [A1 A2 A3 A4 A5 A6 A7 A8 A9 A10].
  pose proof (cnt_alive_split (workers s)) as SP.
  destruct (le_lt_dec 1 (cnt is_ready (workers s))) as [Hr|Hr].
  - destruct (cnt_pos_nth _ _ Hr) as (w & p & Hn & Hp).
    destruct (begin_ok _ _ _ Hn Hp) as (s1 & B1 & B2).
    exists w. intros r. exists [EBegin w], s1.
    split; [cbn; lia|]. split; [wevs|]. split.
    { intros r' [H|[]]; discriminate. }
    split; [cbn [run step]; rewrite B1; reflexivity | left; exact B2].
  - assert (Hp : pending s = true) by lia.
    assert (Ha : 1 <= cnt alive (workers s)) by lia.
    destruct (cnt_pos_nth _ _ Ha) as (w & p & Hn & Hal).
    exists w. intros r.
    destruct p as [| |r0| |]; try discriminate;
      try (exfalso; pose proof (cnt_nth_pos is_ready _ _ _ Hn eq_refl); lia).
    + (* WExec *)
      assert (Hpd : pipe_done s = false).
      { destruct (pipe_done s) eqn:E; [|reflexivity]. exfalso.
        pose proof (cnt_nth_pos in_execute _ _ _ Hn eq_refl). lia. }
      destruct (exec_done_ok s w r Hn Hpd) as (s1 & E1 & N1 & P1 & C1 & O1).
      assert (P1' : pending s1 = true) by congruence.
      destruct (end_pending_ok s1 w r N1 P1') as (s2 & E2 & C2 & N2).
      destruct (xres_completed r) eqn:Ex.
      * exists [EExecDone w r; EEnd w], s2.
        split; [cbn; lia|]. split; [wevs|]. split.
        { intros r' [H|[H|[]]]; [inversion H; reflexivity | discriminate]. }
        split; [cbn [run step]; rewrite E1, E2; reflexivity | right; exact C2].
      * destruct (begin_ok s2 w WLoop (N2 eq_refl) eq_refl) as (s3 & E3 & O3).
        exists [EExecDone w r; EEnd w; EBegin w], s3.
        split; [cbn; lia|]. split; [wevs|]. split.
        { intros r' [H|[H|[H|[]]]]; [inversion H; reflexivity | discriminate | discriminate]. }
        split; [cbn [run step]; rewrite E1, E2, E3; reflexivity | left; exact O3].
    + (* WGot r0 *)
      destruct (end_pending_ok s w r0 Hn Hp) as (s2 & E2 & C2 & N2).
      destruct (xres_completed r0) eqn:Ex.
      * exists [EEnd w], s2.
        split; [cbn; lia|]. split; [wevs|]. split.
        { intros r' [H|[]]; discriminate. }
        split; [cbn [run step]; rewrite E2; reflexivity | right; exact C2].
      * destruct (begin_ok s2 w WLoop (N2 eq_refl) eq_refl) as (s3 & E3 & O3).
        exists [EEnd w; EBegin w], s3.
        split; [cbn; lia|]. split; [wevs|]. split.
        { intros r' [H|[H|[]]]; discriminate. }
        split; [cbn [run step]; rewrite E2, E3; reflexivity | left; exact O3].
Qed.
Example sched_owed_wake_is_served_hyps :
  exists s, reachable s /\ owed s = true /\ completed s = false.
Proof.
  exists (match run init [EWake; EBegin 0; EWake] with Some s => s | None => init end).
  split; [exists [EWake; EBegin 0; EWake]; reflexivity | split; reflexivity].
Qed.

(* ---------- 3. a completed task never runs ---------- *)
Lemma completed_step s e s' :
  Inv s -> completed s = true -> step s e = Some s' ->
  completed s' = true /\ execs_after_done s' = execs_after_done s.
Proof.
  intros [A1 A2 A3 A4 A5 A6 A7 A8 A9 A10] Hc Hs. specialize (A4 Hc).
  destruct e as [| | w | w r | w]; cbn [step] in Hs.
  - inversion Hs; subst. unfold do_wake. rewrite Hc. auto.
  - inversion Hs; subst. unfold do_cancel_set; sf. auto.
  - unfold do_begin in Hs. destruct (nth_error (workers s) w) as [p|] eqn:Hn; [|discriminate].
    exfalso. destruct p; try discriminate; pose proof (cnt_nth_pos alive _ _ _ Hn eq_refl); lia.
  - unfold do_exec_done in Hs. destruct (nth_error (workers s) w) as [p|] eqn:Hn; [|discriminate].
    exfalso. destruct p; try discriminate; pose proof (cnt_nth_pos alive _ _ _ Hn eq_refl); lia.
  - unfold do_end in Hs. destruct (nth_error (workers s) w) as [p|] eqn:Hn; [|discriminate].
    exfalso. destruct p; try discriminate; pose proof (cnt_nth_pos alive _ _ _ Hn eq_refl); lia.
Qed.

Theorem sched_completed_never_runs s :
  reachable s -> completed s = true ->
  n_alive s = 0 /\
  forall tr s', run s tr = Some s' ->
    completed s' = true /\ n_in_execute s' = 0 /\ execs_after_done s' = execs_after_done s.
Proof.
  intros R Hc. pose proof (inv_reachable _ R) as I.
  split; [rewrite n_alive_cnt; apply (iA4 _ I Hc)|].
  intros tr. revert s R Hc I. induction tr as [|e tr IH]; intros s R Hc I s' H; cbn [run] in H.
  - inversion H; subst s'. split; [exact Hc|]. split; [|reflexivity].
    rewrite n_in_execute_cnt. pose proof (cnt_alive_split (workers s)).
    pose proof (iA4 _ I Hc). lia.
  - destruct (step s e) as [s1|] eqn:Es; [|discriminate].
    destruct (completed_step _ _ _ I Hc Es) as [C1 D1].
    assert (R1 : reachable s1) by (eapply reachable_step; [exact R | exact Es]).
    destruct (IH s1 R1 C1 (inv_reachable _ R1) s' H) as (X1 & X2 & X3).
    split; [exact X1|]. split; [exact X2 | congruence].
Qed.
Example sched_completed_never_runs_hyps : exists s, reachable s /\ completed s = true.
Proof.
  exists (match run init [EWake; EBegin 0; EExecDone 0 XDone; EEnd 0] with Some s => s | None => init end).
  split; [exists [EWake; EBegin 0; EExecDone 0 XDone; EEnd 0]; reflexivity | reflexivity].
Qed.

(* execute() is never entered again once some execute() returned Ready(Ok) *)
Theorem sched_done_never_reexecuted s : reachable s -> execs_after_done s = 0.
Proof. intros R. apply (iA7 _ (inv_reachable _ R)). Qed.

(* ---------- 4. a task that finished WITH AN ERROR is never run again ---------- *)
(* Since baf9ea120 execute() returns true for Ready(Err) as well, so the EEnd after the failing
   execute sets `completed`.  (Previous machine: Ready(Err) left completed = false and the statement
   was refuted by  wake, begin 0, exec_done 0 XErr, end 0, wake, begin 1  -- execs_after_err = 1 --
   and, with the wake arriving during the failing execute, by
   wake, begin 0, wake, exec_done 0 XErr, end 0, begin 0.) *)
Theorem sched_errored_task_never_reruns s : reachable s -> execs_after_err s = 0.
Proof. intros R. apply (iA9 _ (inv_reachable _ R)). Qed.
(* the two scripts that re-executed the failed task on the previous machine are now either rejected
   or harmless: the second wake is a no-op / the worker exits *)
Example sched_errored_old_witnesses_now_fail :
  accepts [EWake; EBegin 0; EExecDone 0 XErr; EEnd 0; EWake; EBegin 1] = false /\
  accepts [EWake; EBegin 0; EWake; EExecDone 0 XErr; EEnd 0; EBegin 0] = false.
Proof. split; reflexivity. Qed.

(* once the worker that ran the failing execute() has left (no closure alive), the task is completed;
   and the EEnd of the failing execute is what sets it *)
Theorem sched_errored_implies_completed_at_end s :
  reachable s -> errored s = true ->
  (n_alive s = 0 -> completed s = true) /\
  (forall w s', nth_error (workers s) w = Some (WGot XErr) -> step s (EEnd w) = Some s' -> completed s' = true).
Proof.
  intros R He. destruct (inv_reachable _ R) as [A1 A2 A3 A4 A5 A6 A7 A8 A9 A10].
  pose proof (cnt_alive_split (workers s)) as SP. split.
  - rewrite n_alive_cnt. intros Z. destruct (A10 He) as [C|C]; [exact C | lia].
  - intros w s' Hn Hs. cbn [step] in Hs. unfold do_end in Hs. rewrite Hn in Hs.
    destruct (pending s); inversion Hs; subst; reflexivity.
Qed.
Example sched_errored_implies_completed_at_end_hyps :
  exists s, reachable s /\ errored s = true /\ nth_error (workers s) 0 = Some (WGot XErr).
Proof.
  exists (match run init [EWake; EBegin 0; EWake; EExecDone 0 XErr] with Some s => s | None => init end).
  split; [exists [EWake; EBegin 0; EWake; EExecDone 0 XErr]; reflexivity | split; reflexivity].
Qed.

(* ---------- 5. cancel ---------- *)
Theorem sched_cancel_reports s :
  reachable s -> canceled s = true -> completed s = false ->
  cancel_reports (do_wake s) = S (cancel_reports s).
Proof. intros _ Hc Hn. unfold do_wake. rewrite Hn, Hc. reflexivity. Qed.
Example sched_cancel_reports_hyps :
  exists s, reachable s /\ canceled s = true /\ completed s = false.
Proof.
  exists (do_cancel_set init). split; [exists [ECancelSet]; reflexivity | split; reflexivity].
Qed.

Lemma canceled_step s e s' : canceled s = true -> step s e = Some s' -> canceled s' = true.
Proof.
  intros Hc Hs. destruct e as [| | w | w r | w]; cbn [step] in Hs.
  - inversion Hs; subst. unfold do_wake. destruct (completed s); [exact Hc|]. rewrite Hc. reflexivity.
  - inversion Hs; subst. reflexivity.
  - unfold do_begin in Hs. destruct (nth_error (workers s) w) as [[| | | |]|]; try discriminate;
      inversion Hs; subst; exact Hc.
  - unfold do_exec_done in Hs. destruct (nth_error (workers s) w) as [[| | | |]|]; try discriminate.
    destruct (pipe_done s && _); [discriminate|]. inversion Hs; subst; exact Hc.
  - unfold do_end in Hs. destruct (nth_error (workers s) w) as [[| | | |]|]; try discriminate.
    destruct (pending s); inversion Hs; subst; exact Hc.
Qed.

Lemma canceled_run tr : forall s s', canceled s = true -> run s tr = Some s' -> canceled s' = true.
Proof.
  induction tr as [|e tr IH]; intros s s' Hc H; cbn [run] in H.
  - inversion H; subst; exact Hc.
  - destruct (step s e) as [s1|] eqn:Es; [|discriminate].
    eapply IH; [eapply canceled_step; eassumption | exact H].
Qed.

(* cancel() = ECancelSet, later followed by its schedule() call (an EWake): on every interleaving
   the error "Query canceled" is reported unless the task had completed. *)
Theorem sched_cancel_reports_trace tr1 tr2 s :
  run init (tr1 ++ ECancelSet :: tr2 ++ [EWake]) = Some s ->
  completed s = true \/ cancel_reports s >= 1.
Proof.
  intros H. apply run_app in H. destruct H as (a & _ & H).
  cbn [run step] in H. apply run_app in H. destruct H as (b & Hb & H).
  assert (Cb : canceled b = true) by (eapply canceled_run; [|exact Hb]; reflexivity).
  cbn [run step] in H. inversion H; subst s; clear H.
  unfold do_wake. destruct (completed b) eqn:Ec; [left; exact Ec|].
  rewrite Cb. right. sf. lia.
Qed.
Example sched_cancel_reports_trace_hyps :
  exists tr1 tr2 s, run init (tr1 ++ ECancelSet :: tr2 ++ [EWake]) = Some s.
Proof. exists [EWake; EBegin 0], [EExecDone 0 XPend; EEnd 0]. eexists. vm_compute. reflexivity. Qed.

(* caveat: cancel does not stop a worker that is already alive; with a pending wake it even
   re-enters execute() after cancel was set. *)
Theorem sched_cancel_does_not_stop_worker :
  exists s, reachable s /\ canceled s = true /\
    exists s', run s [EBegin 0; EExecDone 0 XPend; EEnd 0; EBegin 0] = Some s' /\
               canceled s' = true /\ n_in_execute s' = 1 /\ cancel_reports s' = 0.
Proof.
  exists (match run init [EWake; EWake; ECancelSet] with Some s => s | None => init end).
  split; [exists [EWake; EWake; ECancelSet]; reflexivity|]. split; [reflexivity|].
  eexists. split; [vm_compute; reflexivity|]. repeat split.
Qed.

Print Assumptions sched_single_worker.
Print Assumptions sched_no_concurrent_execute.
Print Assumptions sched_no_lost_wake.
Print Assumptions sched_owed_wake_is_served.
Print Assumptions sched_completed_never_runs.
Print Assumptions sched_done_never_reexecuted.
Print Assumptions sched_errored_task_never_reruns.
Print Assumptions sched_errored_implies_completed_at_end.
Print Assumptions sched_cancel_reports.
Print Assumptions sched_cancel_reports_trace.
Print Assumptions sched_cancel_does_not_stop_worker.
