(* C17 — the lattice theorems of CSV type inference (model/CsvInfer.v), at full strength since the re-validation
   pass of CsvSchema::infer_from_records:
     int_is_float                  every Int64 literal is a Float64 literal
     bool_not_number               a Boolean word is neither an Int64 nor a Float64 literal
     candidate_is_narrowest        the inferred type of a column accepts every sampled non-empty value, and every
                                   narrower type of Boolean < Int64 < Float64 < Utf8 rejects one of them
     candidate_order_irrelevant    the inferred type does not depend on the row order
     candidate_all_bool            only Boolean words / empty values: Boolean
     schema_column_type            column j of infer_schema is col_type of the j-th fields (rectangular sample)
     dialect_choice_spec           what infer_dialect = Some (Some d) means
   The chain alone (col_type_old, the code before the repair) has these only without Boolean words among the
   values: chain_inv is what it guarantees in general. *)
From Coq Require Import NArith ZArith List Bool Arith Lia Permutation.
From GV Require Import model.Csv model.CsvInfer proofs.CsvInferProofs.
Import ListNotations.

(* ------------------------------------------------------------------ (1) Int64 literals are Float64 literals *)
Lemma number_ok_digits : forall body ds,
  span_digits body = (ds, []) -> (length ds =? 0) = false -> number_ok body = true.
Proof.
  intros body ds Hs Hl. unfold number_ok. rewrite Hs.
  rewrite Nat.add_0_r. rewrite Hl. reflexivity.
Qed.

Theorem int_is_float : forall f, is_int f = true -> is_float f = true.
Proof.
  intros f Hi. destruct f as [|c r]; [discriminate Hi|].
  unfold is_int in Hi. unfold is_float.
  destruct (span_digits (if is_sign c then r else c :: r)) as [ds rest] eqn:Hs.
  apply andb_true_iff in Hi. destruct Hi as [Hi _].
  apply andb_true_iff in Hi. destruct Hi as [Hn Hr].
  apply negb_true_iff in Hn.
  destruct rest as [|x rest]; [|discriminate Hr].
  rewrite (number_ok_digits _ _ Hs Hn). reflexivity.
Qed.

(* a Boolean word is not a number *)
Lemma bytes_eqb_eq : forall a b, bytes_eqb a b = true -> a = b.
Proof.
  induction a as [|x a IH]; intros [|y b] H; try reflexivity; try discriminate H.
  unfold bytes_eqb in H. cbn [length combine forallb fst snd] in H.
  apply andb_prop in H. destruct H as [Hl H]. apply andb_prop in H. destruct H as [Hxy H].
  apply N.eqb_eq in Hxy. subst y. f_equal. apply IH. unfold bytes_eqb.
  change (S (length a) =? S (length b)) with (length a =? length b) in Hl. rewrite Hl, H. reflexivity.
Qed.

Theorem bool_not_number : forall v, is_bool v = true -> is_int v = false /\ is_float v = false.
Proof.
  intros v H. unfold is_bool in H. apply existsb_exists in H. destruct H as [w [Hin Heq]].
  apply bytes_eqb_eq in Heq. subst w. unfold bool_words in Hin. cbn [In] in Hin.
  repeat (destruct Hin as [<-|Hin]; [split; vm_compute; reflexivity|]). contradiction.
Qed.

(* ------------------------------------------------------------------ update on a non-empty value *)
Definition update_ne (c : cand) (f : list N) : cand :=
  match c with
  | CBool => if is_bool f then CBool else if is_int f then CInt else if is_float f then CFloat else CUtf8
  | CInt => if is_int f then CInt else if is_float f then CFloat else CUtf8
  | CFloat => if is_float f then CFloat else CUtf8
  | CTimestamp => CUtf8
  | CUtf8 => CUtf8
  end.

Lemma update_nonempty : forall c f, f <> [] -> update c f = update_ne c f.
Proof. intros c f Hf. destruct f as [|a f]; [contradiction|reflexivity]. Qed.

Lemma list_nil_dec : forall (f : list N), f = [] \/ f <> [].
Proof. intros [|a f]; [left; reflexivity|right; discriminate]. Qed.

(* ------------------------------------------------------------------ (2) what the chain alone guarantees *)
(* the invariant of the fold over the values seen so far: every value is accepted OR is a Boolean word; every
   narrower candidate was left because of some value *)
Definition chain_inv (vs : list (list N)) (c : cand) : Prop :=
  c <> CTimestamp /\
  (forall v, In v vs -> v <> [] -> is_valid c v = true \/ is_bool v = true) /\
  (forall c', (cand_rank c' < cand_rank c)%nat -> c' <> CTimestamp ->
              exists v, In v vs /\ v <> [] /\ is_valid c' v = false).

Lemma update_ne_not_ts : forall c f, update_ne c f <> CTimestamp.
Proof.
  intros c f. destruct c; unfold update_ne;
    repeat match goal with |- context [if ?b then _ else _] => destruct b end; discriminate.
Qed.

(* widening keeps a value accepted, except when leaving Boolean *)
Lemma valid_widen : forall c v w, is_valid c w = true ->
  is_valid (update_ne c v) w = true \/ is_bool w = true.
Proof.
  intros c v w H. destruct c; cbn [is_valid] in H.
  - right. exact H.
  - left. unfold update_ne. destruct (is_int v); [exact H|]. destruct (is_float v); [|reflexivity].
    cbn [is_valid]. apply int_is_float. exact H.
  - left. unfold update_ne. destruct (is_float v); [exact H|reflexivity].
  - discriminate H.
  - left. reflexivity.
Qed.

(* every candidate passed over by one update rejects the value that caused it *)
Lemma update_skips : forall c v c', c <> CTimestamp -> c' <> CTimestamp ->
  (cand_rank c <= cand_rank c')%nat -> (cand_rank c' < cand_rank (update_ne c v))%nat ->
  is_valid c' v = false.
Proof.
  intros c v c' Hc Hc' Hle Hlt.
  destruct c; try (exfalso; apply Hc; reflexivity);
    destruct c'; try (exfalso; apply Hc'; reflexivity);
    unfold update_ne in Hlt; cbn [is_valid];
    destruct (is_bool v); destruct (is_int v); destruct (is_float v);
    cbn [cand_rank] in Hle, Hlt; try lia; reflexivity.
Qed.

Lemma chain_inv_step : forall vs c v, chain_inv vs c -> chain_inv (vs ++ [v]) (update c v).
Proof.
  intros vs c v [Hts [Hval Hnar]].
  destruct (list_nil_dec v) as [He|Hne].
  - subst v. rewrite update_empty. split; [exact Hts|]. split.
    + intros w Hin Hw. apply in_app_or in Hin. destruct Hin as [Hin|[Hin|[]]].
      * apply Hval; assumption.
      * subst w. contradiction.
    + intros c' Hr Hc'. destruct (Hnar c' Hr Hc') as [w [Hin [Hw Hf]]].
      exists w. split; [apply in_or_app; left; exact Hin|]. split; assumption.
  - pose proof (update_valid c v Hne) as Hnew. rewrite (update_nonempty c v Hne) in *.
    split; [apply update_ne_not_ts|]. split.
    + intros w Hin Hw. apply in_app_or in Hin. destruct Hin as [Hin|[Hin|[]]].
      * destruct (Hval w Hin Hw) as [H|H]; [apply valid_widen; exact H|right; exact H].
      * subst w. left. exact Hnew.
    + intros c' Hr Hc'.
      destruct (Nat.lt_ge_cases (cand_rank c') (cand_rank c)) as [Hlt|Hge].
      * destruct (Hnar c' Hlt Hc') as [w [Hin [Hw Hf]]].
        exists w. split; [apply in_or_app; left; exact Hin|]. split; assumption.
      * exists v. split; [apply in_or_app; right; left; reflexivity|]. split; [exact Hne|].
        apply (update_skips c v c'); assumption.
Qed.

Lemma chain_inv_col : forall vs, chain_inv vs (col_type_old vs).
Proof.
  intros vs. induction vs as [|v vs IH] using rev_ind.
  - unfold col_type_old. cbn [fold_left]. split; [discriminate|]. split.
    + intros v [].
    + intros c' Hr. cbn [cand_rank] in Hr. lia.
  - unfold col_type_old. rewrite fold_left_app. cbn [fold_left]. apply chain_inv_step. exact IH.
Qed.

(* ------------------------------------------------------------------ (3) the re-validation pass *)
Lemma revalidate_utf8 : forall vs, fold_left revalidate vs CUtf8 = CUtf8.
Proof.
  induction vs as [|v vs IH]; [reflexivity|]. cbn [fold_left]. destruct v; cbn [revalidate is_valid]; exact IH.
Qed.

Lemma fold_revalidate : forall vs c,
  fold_left revalidate vs c = if forallb (fun v => is_empty v || is_valid c v) vs then c else CUtf8.
Proof.
  induction vs as [|v vs IH]; intros c; [reflexivity|].
  cbn [fold_left forallb]. destruct v as [|b v].
  - cbn [revalidate is_empty orb andb]. apply IH.
  - cbn [revalidate is_empty orb]. destruct (is_valid c (b :: v)); cbn [andb].
    + apply IH.
    + apply revalidate_utf8.
Qed.

Lemma forallb_false_exists : forall A (f : A -> bool) l, forallb f l = false -> exists x, In x l /\ f x = false.
Proof.
  intros A f l. induction l as [|x l IH]; intros H; [discriminate H|].
  cbn [forallb] in H. destruct (f x) eqn:E.
  - destruct (IH H) as [y [Hin Hy]]. exists y. split; [right; exact Hin|exact Hy].
  - exists x. split; [left; reflexivity|exact E].
Qed.

(* FULL STATEMENT: the inferred type accepts every sampled non-empty value and is the narrowest such type *)
Theorem candidate_is_narrowest : forall vs,
  let c := col_type vs in
  c <> CTimestamp /\
  (forall v, In v vs -> v <> [] -> is_valid c v = true) /\
  (forall c', (cand_rank c' < cand_rank c)%nat -> c' <> CTimestamp ->
     exists v, In v vs /\ v <> [] /\ is_valid c' v = false).
Proof.
  intros vs. cbv zeta. unfold col_type. rewrite fold_revalidate.
  destruct (chain_inv_col vs) as [Hts [Hval Hnar]].
  change (fold_left update vs CBool) with (col_type_old vs).
  destruct (forallb (fun v => is_empty v || is_valid (col_type_old vs) v) vs) eqn:Hall.
  - split; [exact Hts|]. split; [|exact Hnar].
    intros v Hin Hne. rewrite forallb_forall in Hall. specialize (Hall v Hin).
    destruct v; [contradiction|]. exact Hall.
  - apply forallb_false_exists in Hall. destruct Hall as [v0 [Hin0 Hf0]].
    apply orb_false_elim in Hf0. destruct Hf0 as [He0 Hv0].
    assert (Hne0 : v0 <> []) by (intros ->; discriminate He0).
    assert (Hb0 : is_bool v0 = true).
    { destruct (Hval v0 Hin0 Hne0) as [H|H]; [rewrite H in Hv0; discriminate Hv0|exact H]. }
    destruct (bool_not_number v0 Hb0) as [Hi0 Hfl0].
    assert (Hc0 : col_type_old vs <> CBool).
    { intros E. rewrite E in Hv0. cbn [is_valid] in Hv0. rewrite Hb0 in Hv0. discriminate Hv0. }
    split; [discriminate|]. split; [intros; reflexivity|].
    intros c' Hr Hc'. destruct c'; cbn [cand_rank] in Hr; try lia.
    + apply Hnar; [|discriminate]. destruct (col_type_old vs); cbn [cand_rank]; try lia.
      exfalso. apply Hc0. reflexivity.
    + exists v0. split; [exact Hin0|]. split; [exact Hne0|exact Hi0].
    + exists v0. split; [exact Hin0|]. split; [exact Hne0|exact Hfl0].
    + exfalso. apply Hc'. reflexivity.
Qed.

Example candidate_is_narrowest_sat : col_type [[116]; []; [49]]%N = CUtf8 /\ col_type [[49]; [50;46]]%N = CFloat.
Proof. split; vm_compute; reflexivity. Qed.

Lemma cand_rank_inj : forall a b, cand_rank a = cand_rank b -> a = b.
Proof. intros a b H. destruct a; destruct b; try reflexivity; discriminate H. Qed.

(* FULL STATEMENT: the inferred type does not depend on the row order *)
Theorem candidate_order_irrelevant : forall vs1 vs2, Permutation vs1 vs2 -> col_type vs1 = col_type vs2.
Proof.
  intros vs1 vs2 HP.
  pose proof (candidate_is_narrowest vs1) as H1. pose proof (candidate_is_narrowest vs2) as H2.
  cbv zeta in H1, H2. destruct H1 as [T1 [V1 N1]]. destruct H2 as [T2 [V2 N2]].
  apply cand_rank_inj.
  destruct (lt_eq_lt_dec (cand_rank (col_type vs1)) (cand_rank (col_type vs2))) as [[Hlt|Heq]|Hgt].
  - exfalso. destruct (N2 _ Hlt T1) as [v [Hin [Hne Hf]]].
    rewrite (V1 v (Permutation_in v (Permutation_sym HP) Hin) Hne) in Hf. discriminate Hf.
  - exact Heq.
  - exfalso. destruct (N1 _ Hgt T2) as [v [Hin [Hne Hf]]].
    rewrite (V2 v (Permutation_in v HP Hin) Hne) in Hf. discriminate Hf.
Qed.

(* only Boolean words and empty values (in particular: no value at all): Boolean *)
Theorem candidate_all_bool : forall vs,
  Forall (fun v => v = [] \/ is_bool v = true) vs -> col_type vs = CBool.
Proof.
  intros vs H.
  assert (Hold : col_type_old vs = CBool).
  { unfold col_type_old. induction H as [|v vs Hv _ IH]; [reflexivity|].
    cbn [fold_left]. destruct (list_nil_dec v) as [He|Hne].
    - subst v. rewrite update_empty. exact IH.
    - destruct Hv as [Hv|Hv]; [contradiction|].
      rewrite (update_nonempty _ _ Hne). unfold update_ne. rewrite Hv. exact IH. }
  unfold col_type. change (fold_left update vs CBool) with (col_type_old vs). rewrite Hold, fold_revalidate.
  destruct (forallb (fun v => is_empty v || is_valid CBool v) vs) eqn:Hall; [reflexivity|].
  exfalso. apply forallb_false_exists in Hall. destruct Hall as [v [Hin Hf]].
  rewrite Forall_forall in H. destruct (H v Hin) as [->|Hb]; [discriminate Hf|].
  cbn [is_valid] in Hf. rewrite Hb, orb_true_r in Hf. discriminate Hf.
Qed.

(* ------------------------------------------------------------------ (3') columns of the schema *)
Lemma zip_row_length : forall g cs fs, length (zip_row g cs fs) = length cs.
Proof.
  intros g. induction cs as [|c cs IH]; intros fs; [reflexivity|].
  destruct fs as [|f fs]; [reflexivity|]. cbn [zip_row length]. rewrite IH. reflexivity.
Qed.

Lemma zip_row_nth : forall g cs fs j, length fs = length cs -> (j < length cs)%nat ->
  nth j (zip_row g cs fs) CUtf8 = g (nth j cs CUtf8) (nth j fs []).
Proof.
  intros g. induction cs as [|c cs IH]; intros fs j Hl Hj; [cbn [length] in Hj; lia|].
  destruct fs as [|f fs]; [discriminate Hl|]. cbn [zip_row]. destruct j as [|j]; [reflexivity|].
  cbn [nth]. apply IH; cbn [length] in *; lia.
Qed.

Lemma fold_zip_row_length : forall g rows cs, length (fold_left (zip_row g) rows cs) = length cs.
Proof.
  intros g. induction rows as [|r rows IH]; intros cs; [reflexivity|].
  cbn [fold_left]. rewrite IH. apply zip_row_length.
Qed.

Lemma fold_zip_row_nth : forall g rows cs j,
  Forall (fun r => length r = length cs) rows -> (j < length cs)%nat ->
  nth j (fold_left (zip_row g) rows cs) CUtf8 = fold_left g (map (fun r => nth j r []) rows) (nth j cs CUtf8).
Proof.
  intros g. induction rows as [|r rows IH]; intros cs j HF Hj; [reflexivity|].
  inversion HF as [|x l Hr Hrest]; subst. cbn [fold_left map].
  rewrite IH.
  - rewrite zip_row_nth by assumption. reflexivity.
  - rewrite zip_row_length. exact Hrest.
  - rewrite zip_row_length. exact Hj.
Qed.

Lemma nth_repeat_lt : forall (c dflt : cand) n j, (j < n)%nat -> nth j (repeat c n) dflt = c.
Proof.
  intros c dflt. induction n as [|n IH]; intros j Hj; [lia|].
  cbn [repeat]. destruct j as [|j]; [reflexivity|]. cbn [nth]. apply IH. lia.
Qed.

(* on a rectangular sample, column j of the inferred schema is col_type of the j-th fields of the rows after the
   first: the column-level theorems above are theorems about infer_schema *)
Theorem schema_column_type : forall first rest s j,
  infer_schema (first :: rest) = Some s ->
  Forall (fun r => length r = length first) rest -> (j < length first)%nat ->
  nth j (col_types s) CUtf8 = col_type (map (fun r => nth j r []) rest).
Proof.
  intros first rest s j H HF Hj. unfold infer_schema in H. inversion H as [Hs]. clear H. cbn [col_types].
  unfold revalidate_row, update_row, col_type.
  assert (HF0 : Forall (fun r => length r = length (repeat CBool (length first))) rest).
  { rewrite repeat_length. exact HF. }
  rewrite fold_zip_row_nth.
  - rewrite fold_zip_row_nth; [|exact HF0|rewrite repeat_length; exact Hj].
    rewrite nth_repeat_lt by exact Hj. reflexivity.
  - rewrite fold_zip_row_length. exact HF0.
  - rewrite fold_zip_row_length, repeat_length. exact Hj.
Qed.

Example schema_column_type_sat :
  exists s, infer_schema [[[97]; [98]]; [[116]; [49]]; [[49]; [50]]]%N = Some s /\ col_types s = [CUtf8; CInt].
Proof. eexists. split; reflexivity. Qed.

(* ------------------------------------------------------------------ (4) the dialect choice *)
(* d parses the sample into at least two records, all with the same n >= 2 fields *)
Definition qualifies (sample : list N) (eof : bool) (d : dialect) (n : nat) : Prop :=
  exists r0 r1 tl, run_sample d eof sample = Some (r0 :: r1 :: tl) /\
    length r0 = n /\ (2 <= n)%nat /\ Forall (fun r => length r = n) (r0 :: r1 :: tl).

Lemma forallb_len_Forall : forall n (recs : list (list (list N))),
  forallb (fun r => length r =? n) recs = true <-> Forall (fun r => length r = n) recs.
Proof.
  intros n recs. rewrite forallb_forall, Forall_forall. split; intros H r Hin.
  - apply Nat.eqb_eq. apply H. exact Hin.
  - apply Nat.eqb_eq. apply H. exact Hin.
Qed.

Lemma try_dialect_spec : forall sample eof b k d b' k',
  try_dialect sample eof (b, k) d = Some (b', k') ->
  (b' = b /\ k' = k /\ forall n, qualifies sample eof d n -> (n <= k)%nat) \/
  (b' = Some d /\ qualifies sample eof d k' /\ (k < k')%nat).
Proof.
  intros sample eof b k d b' k' H. unfold try_dialect in H.
  destruct (run_sample d eof sample) as [recs|] eqn:Hr; [|discriminate H].
  destruct recs as [|r0 [|r1 tl]].
  - left. injection H as H1 H2. subst. split; [reflexivity|]. split; [reflexivity|].
    intros n [q0 [q1 [qt [Hq _]]]]. rewrite Hr in Hq. discriminate Hq.
  - left. injection H as H1 H2. subst. split; [reflexivity|]. split; [reflexivity|].
    intros n [q0 [q1 [qt [Hq _]]]]. rewrite Hr in Hq. discriminate Hq.
  - cbn [snd] in H.
    assert (Hq : forall n, qualifies sample eof d n ->
              n = length r0 /\ (2 <= n)%nat /\ Forall (fun r => length r = n) (r0 :: r1 :: tl)).
    { intros n [q0 [q1 [qt [Hq [Hl [H2 HF]]]]]]. rewrite Hr in Hq. injection Hq as E0 E1 Et. subst.
      split; [reflexivity|]. split; assumption. }
    destruct (length r0 <? 2) eqn:H2.
    { left. injection H as H1 H3. subst. split; [reflexivity|]. split; [reflexivity|].
      intros n Hn. destruct (Hq n Hn) as [En [Hn2 _]]. apply Nat.ltb_lt in H2. lia. }
    destruct (length r0 <=? k) eqn:Hk.
    { left. injection H as H1 H3. subst. split; [reflexivity|]. split; [reflexivity|].
      intros n Hn. destruct (Hq n Hn) as [En _]. apply Nat.leb_le in Hk. lia. }
    destruct (forallb (fun r => length r =? length r0) (r0 :: r1 :: tl)) eqn:Hall.
    + right. injection H as H1 H3. subst. apply Nat.ltb_ge in H2. apply Nat.leb_gt in Hk.
      split; [reflexivity|]. split; [|exact Hk].
      exists r0, r1, tl. split; [exact Hr|]. split; [reflexivity|]. split; [exact H2|].
      apply forallb_len_Forall. exact Hall.
    + left. injection H as H1 H3. subst. split; [reflexivity|]. split; [reflexivity|].
      intros n Hn. destruct (Hq n Hn) as [En [_ HF]]. subst n.
      apply forallb_len_Forall in HF. rewrite HF in Hall. discriminate Hall.
Qed.

(* the loop: the final field count bounds every qualifying dialect of the list; either nothing changed,
   or the result is the first dialect of the list that reaches the final count *)
Lemma infer_loop_spec : forall sample eof ds b k res m,
  infer_loop sample eof ds (b, k) = Some (res, m) ->
  (k <= m)%nat /\
  (forall d' n', In d' ds -> qualifies sample eof d' n' -> (n' <= m)%nat) /\
  ((res = b /\ m = k) \/
   (exists l1 d l2, ds = l1 ++ d :: l2 /\ res = Some d /\ qualifies sample eof d m /\ (k < m)%nat /\
      forall d' n', In d' l1 -> qualifies sample eof d' n' -> (n' < m)%nat)).
Proof.
  intros sample eof ds. induction ds as [|d ds IH]; intros b k res m H.
  - cbn [infer_loop] in H. injection H as H1 H2. subst.
    split; [lia|]. split; [intros d' n' []|]. left. split; reflexivity.
  - cbn [infer_loop] in H.
    destruct (try_dialect sample eof (b, k) d) as [[b1 k1]|] eqn:Ht; [|discriminate H].
    destruct (IH b1 k1 res m H) as [Hle [Hmax Hres]].
    destruct (try_dialect_spec _ _ _ _ _ _ _ Ht) as [[Eb [Ek Hd]]|[Eb [Hqd Hlt]]].
    + subst b1 k1. split; [exact Hle|]. split.
      * intros d' n' [Hin|Hin] Hq; [subst d'; specialize (Hd n' Hq); lia|exact (Hmax d' n' Hin Hq)].
      * destruct Hres as [Hres|[l1 [d0 [l2 [Eds [Er [Hq0 [Hk0 Hfirst]]]]]]]]; [left; exact Hres|].
        right. exists (d :: l1), d0, l2. split; [rewrite Eds; reflexivity|].
        split; [exact Er|]. split; [exact Hq0|]. split; [exact Hk0|].
        intros d' n' [Hin|Hin] Hq; [subst d'; specialize (Hd n' Hq); lia|exact (Hfirst d' n' Hin Hq)].
    + subst b1. split; [lia|]. split.
      * intros d' n' [Hin|Hin] Hq; [|exact (Hmax d' n' Hin Hq)].
        subst d'. destruct Hq as [q0 [q1 [qt [Hq [Hl _]]]]].
        destruct Hqd as [p0 [p1 [pt [Hp [Hpl _]]]]]. rewrite Hq in Hp. injection Hp as E0 E1 Et. subst. lia.
      * right. destruct Hres as [[Er Em]|[l1 [d0 [l2 [Eds [Er [Hq0 [Hk0 Hfirst]]]]]]]].
        -- subst m. exists [], d, ds. split; [reflexivity|]. split; [exact Er|]. split; [exact Hqd|].
           split; [exact Hlt|]. intros d' n' [].
        -- exists (d :: l1), d0, l2. split; [rewrite Eds; reflexivity|].
           split; [exact Er|]. split; [exact Hq0|]. split; [lia|].
           intros d' n' [Hin|Hin] Hq; [|exact (Hfirst d' n' Hin Hq)].
           subst d'. destruct Hq as [q0 [q1 [qt [Hq [Hl _]]]]].
           destruct Hqd as [p0 [p1 [pt [Hp [Hpl _]]]]]. rewrite Hq in Hp. injection Hp as E0 E1 Et. subst. lia.
Qed.

Theorem dialect_choice_spec : forall sample eof d,
  infer_dialect sample eof = Some (Some d) ->
  exists n l1 l2,
    dialects = l1 ++ d :: l2 /\                       (* d is one of the eight dialects ... *)
    qualifies sample eof d n /\                           (* ... it parses >= 2 records of n >= 2 fields each ... *)
    (forall d' n', In d' dialects -> qualifies sample eof d' n' -> (n' <= n)%nat) /\   (* ... n is the maximum ... *)
    (forall d' n', In d' l1 -> qualifies sample eof d' n' -> (n' < n)%nat).           (* ... d is the first to reach it *)
Proof.
  intros sample eof d H. unfold infer_dialect in H.
  destruct (infer_loop sample eof dialects (None, 0%nat)) as [[res m]|] eqn:Hl; [|discriminate H].
  cbn [option_map fst] in H. injection H as H. subst res.
  destruct (infer_loop_spec _ _ _ _ _ _ _ Hl) as [_ [Hmax [[Er _]|[l1 [d0 [l2 [Eds [Er [Hq [_ Hfirst]]]]]]]]]].
  - discriminate Er.
  - injection Er as Er. subst d0. exists m, l1, l2.
    split; [exact Eds|]. split; [exact Hq|]. split; [exact Hmax|exact Hfirst].
Qed.

Corollary dialect_choice_in : forall sample eof d,
  infer_dialect sample eof = Some (Some d) -> In d dialects.
Proof.
  intros sample eof d H. destruct (dialect_choice_spec sample eof d H) as [n [l1 [l2 [E _]]]].
  rewrite E. apply in_or_app. right. left. reflexivity.
Qed.

(* conversely: no dialect found means no dialect of the list qualifies (when no parse panics) *)
Theorem dialect_none_spec : forall sample eof,
  infer_dialect sample eof = Some None ->
  forall d' n', In d' dialects -> qualifies sample eof d' n' -> False.
Proof.
  intros sample eof H d' n' Hin Hq. unfold infer_dialect in H.
  destruct (infer_loop sample eof dialects (None, 0%nat)) as [[res m]|] eqn:Hl; [|discriminate H].
  cbn [option_map fst] in H. injection H as H. subst res.
  destruct (infer_loop_spec _ _ _ _ _ _ _ Hl) as [_ [Hmax [[_ Em]|[l1 [d0 [l2 [_ [Er _]]]]]]]].
  - subst m. specialize (Hmax d' n' Hin Hq). destruct Hq as [_ [_ [_ [_ [_ [H2 _]]]]]]. lia.
  - discriminate Er.
Qed.

Print Assumptions int_is_float.
Print Assumptions bool_not_number.
Print Assumptions candidate_is_narrowest.
Print Assumptions candidate_order_irrelevant.
Print Assumptions candidate_all_bool.
Print Assumptions schema_column_type.
Print Assumptions dialect_choice_spec.
Print Assumptions dialect_choice_in.
Print Assumptions dialect_none_spec.
