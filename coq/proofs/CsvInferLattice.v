(* C17 — the partial lattice theorems of CSV type inference (model/CsvInfer.v).
   The full-strength statement ("the inferred type is the narrowest of Boolean < Int64 < Float64 < Utf8
   accepting every sampled non-empty value, whatever the row order") is false for the code, because the
   Boolean words are not valid Int64/Float64 (refuted in CsvInferProofs.v).  What is true, and proved here:
     int_is_float                         every Int64 literal is a Float64 literal
     candidate_is_narrowest_partial       without Boolean words among the values the candidate is the narrowest
     candidate_all_bool                   only Boolean words / empty values: the candidate stays Boolean
     candidate_order_irrelevant_partial   without Boolean words the candidate does not depend on the row order
     dialect_choice_spec                  what infer_dialect = Some (Some d) means *)
From Coq Require Import NArith ZArith List Bool Arith Lia Permutation.
From GV Require Import model.Csv model.CsvInfer.
Import ListNotations.

Definition col_cand (vs : list (list N)) : cand := fold_left update vs CBool.

(* ------------------------------------------------------------------ (1) Int64 literals are Float64 literals *)
Lemma number_ok_digits : forall body ds,
  span_digits body = (ds, []) -> (length ds =? 0) = false -> number_ok body = true.
Proof.
  intros body ds Hs Hl. unfold number_ok. rewrite Hs.
  rewrite Nat.add_0_r. rewrite Hl. reflexivity.
Qed.

Theorem int_is_float : forall f, is_int f = true -> is_float f = true.
Proof.
  intros f Hi. destruct f as [|c r]; [discriminate Hi|].
  unfold is_int in Hi. unfold is_float.
  destruct (span_digits (if is_sign c then r else c :: r)) as [ds rest] eqn:Hs.
  apply andb_true_iff in Hi. destruct Hi as [Hi _].
  apply andb_true_iff in Hi. destruct Hi as [Hn Hr].
  apply negb_true_iff in Hn.
  destruct rest as [|x rest]; [|discriminate Hr].
  rewrite (number_ok_digits _ _ Hs Hn). reflexivity.
Qed.

(* ------------------------------------------------------------------ update on a non-empty value *)
Definition update_ne (c : cand) (f : list N) : cand :=
  match c with
  | CBool => if is_bool f then CBool else if is_int f then CInt else if is_float f then CFloat else CUtf8
  | CInt => if is_int f then CInt else if is_float f then CFloat else CUtf8
  | CFloat => if is_float f then CFloat else CUtf8
  | CTimestamp => CUtf8
  | CUtf8 => CUtf8
  end.

Lemma update_nonempty : forall c f, f <> [] -> update c f = update_ne c f.
Proof. intros c f Hf. destruct f as [|a f]; [contradiction|reflexivity]. Qed.

Lemma update_empty : forall c, update c [] = c.
Proof. reflexivity. Qed.

Lemma is_bool_nil : is_bool [] = false.
Proof. reflexivity. Qed.

Lemma list_nil_dec : forall (f : list N), f = [] \/ f <> [].
Proof. intros [|a f]; [left; reflexivity|right; discriminate]. Qed.

(* ------------------------------------------------------------------ (2) the candidate is the narrowest *)
(* the invariant of the fold over the values seen so far *)
Definition lat_inv (vs : list (list N)) (c : cand) : Prop :=
  c <> CTimestamp /\
  (forall v, In v vs -> v <> [] -> is_valid c v = true) /\
  (forall c', (cand_rank c' < cand_rank c)%nat -> c' <> CTimestamp ->
              exists v, In v vs /\ v <> [] /\ is_valid c' v = false).

Lemma lat_inv_step : forall vs c v,
  (forall w, In w vs -> is_bool w = false) -> is_bool v = false ->
  lat_inv vs c -> lat_inv (vs ++ [v]) (update c v).
Proof.
  intros vs c v Hnb Hv [Hts [Hval Hnar]].
  destruct (list_nil_dec v) as [He|Hne].
  - subst v. rewrite update_empty. split; [exact Hts|]. split.
    + intros w Hin Hw. apply in_app_or in Hin. destruct Hin as [Hin|[Hin|[]]].
      * apply Hval; assumption.
      * subst w. contradiction.
    + intros c' Hr Hc'. destruct (Hnar c' Hr Hc') as [w [Hin [Hw Hf]]].
      exists w. split; [apply in_or_app; left; exact Hin|]. split; assumption.
  - rewrite (update_nonempty c v Hne).
    assert (Hnew : In v (vs ++ [v])) by (apply in_or_app; right; left; reflexivity).
    assert (Hold : forall c', (cand_rank c' < cand_rank c)%nat -> c' <> CTimestamp ->
              exists w, In w (vs ++ [v]) /\ w <> [] /\ is_valid c' w = false).
    { intros c' Hr Hc'. destruct (Hnar c' Hr Hc') as [w [Hin [Hw Hf]]].
      exists w. split; [apply in_or_app; left; exact Hin|]. split; assumption. }
    assert (Hwit : forall c', is_valid c' v = false ->
              exists w, In w (vs ++ [v]) /\ w <> [] /\ is_valid c' w = false).
    { intros c' Hf. exists v. split; [exact Hnew|]. split; assumption. }
    assert (Hvalb : forall w, In w vs -> w <> [] -> is_valid c w = true) by exact Hval.
    destruct c; try (exfalso; apply Hts; reflexivity); unfold update_ne.
    + (* CBool: there is no earlier non-empty value *)
      assert (Hnone : forall w, In w vs -> w <> [] -> False).
      { intros w Hin Hw. pose proof (Hval w Hin Hw) as H1. cbn [is_valid] in H1.
        rewrite (Hnb w Hin) in H1. discriminate H1. }
      rewrite Hv.
      destruct (is_int v) eqn:Hi; [|destruct (is_float v) eqn:Hfl].
      * split; [discriminate|]. split.
        -- intros w Hin Hw. apply in_app_or in Hin. destruct Hin as [Hin|[Hin|[]]].
           ++ exfalso. exact (Hnone w Hin Hw).
           ++ subst w. exact Hi.
        -- intros c' Hr Hc'. destruct c'; cbn [cand_rank] in Hr; try lia.
           apply Hwit. exact Hv.
      * split; [discriminate|]. split.
        -- intros w Hin Hw. apply in_app_or in Hin. destruct Hin as [Hin|[Hin|[]]].
           ++ exfalso. exact (Hnone w Hin Hw).
           ++ subst w. exact Hfl.
        -- intros c' Hr Hc'. destruct c'; cbn [cand_rank] in Hr; try lia.
           ++ apply Hwit. exact Hv.
           ++ apply Hwit. exact Hi.
      * split; [discriminate|]. split.
        -- intros w Hin Hw. reflexivity.
        -- intros c' Hr Hc'. destruct c'; cbn [cand_rank] in Hr; try lia.
           ++ apply Hwit. exact Hv.
           ++ apply Hwit. exact Hi.
           ++ apply Hwit. exact Hfl.
           ++ exfalso. apply Hc'. reflexivity.
    + (* CInt *)
      destruct (is_int v) eqn:Hi; [|destruct (is_float v) eqn:Hfl].
      * split; [discriminate|]. split.
        -- intros w Hin Hw. apply in_app_or in Hin. destruct Hin as [Hin|[Hin|[]]].
           ++ apply Hval; assumption.
           ++ subst w. exact Hi.
        -- exact Hold.
      * split; [discriminate|]. split.
        -- intros w Hin Hw. apply in_app_or in Hin. destruct Hin as [Hin|[Hin|[]]].
           ++ cbn [is_valid]. apply int_is_float. exact (Hval w Hin Hw).
           ++ subst w. exact Hfl.
        -- intros c' Hr Hc'. destruct c'; cbn [cand_rank] in Hr; try lia.
           ++ apply Hwit. exact Hv.
           ++ apply Hwit. exact Hi.
      * split; [discriminate|]. split.
        -- intros w Hin Hw. reflexivity.
        -- intros c' Hr Hc'. destruct c'; cbn [cand_rank] in Hr; try lia.
           ++ apply Hwit. exact Hv.
           ++ apply Hwit. exact Hi.
           ++ apply Hwit. exact Hfl.
           ++ exfalso. apply Hc'. reflexivity.
    + (* CFloat *)
      destruct (is_float v) eqn:Hfl.
      * split; [discriminate|]. split.
        -- intros w Hin Hw. apply in_app_or in Hin. destruct Hin as [Hin|[Hin|[]]].
           ++ apply Hval; assumption.
           ++ subst w. exact Hfl.
        -- exact Hold.
      * split; [discriminate|]. split.
        -- intros w Hin Hw. reflexivity.
        -- intros c' Hr Hc'. destruct c'; cbn [cand_rank] in Hr; try lia.
           ++ apply Hwit. exact Hv.
           ++ apply Hold; [cbn [cand_rank]; lia|discriminate].
           ++ apply Hwit. exact Hfl.
           ++ exfalso. apply Hc'. reflexivity.
    + (* CUtf8 *)
      split; [discriminate|]. split.
      * intros w Hin Hw. reflexivity.
      * exact Hold.
Qed.

Lemma lat_inv_col_cand : forall vs,
  (forall w, In w vs -> is_bool w = false) -> lat_inv vs (col_cand vs).
Proof.
  intros vs. induction vs as [|v vs IH] using rev_ind; intros Hnb.
  - unfold col_cand. cbn [fold_left]. split; [discriminate|]. split.
    + intros v [].
    + intros c' Hr. cbn [cand_rank] in Hr. lia.
  - unfold col_cand. rewrite fold_left_app. cbn [fold_left].
    apply lat_inv_step.
    + intros w Hin. apply Hnb. apply in_or_app. left. exact Hin.
    + apply Hnb. apply in_or_app. right. left. reflexivity.
    + apply IH. intros w Hin. apply Hnb. apply in_or_app. left. exact Hin.
Qed.

(* the strong form: a narrower candidate always has a counterexample among the values *)
Theorem candidate_is_narrowest_strong : forall vs,
  Forall (fun v => is_bool v = false) vs ->
  let c := col_cand vs in
  c <> CTimestamp /\
  (forall v, In v vs -> v <> [] -> is_valid c v = true) /\
  (forall c', (cand_rank c' < cand_rank c)%nat -> c' <> CTimestamp ->
     exists v, In v vs /\ v <> [] /\ is_valid c' v = false).
Proof.
  intros vs Hnb. apply lat_inv_col_cand. apply Forall_forall. exact Hnb.
Qed.

Theorem candidate_is_narrowest_partial : forall vs,
  Forall (fun v => is_bool v = false) vs ->          (* no Boolean word among the sampled values *)
  let c := col_cand vs in
  (forall v, In v vs -> v <> [] -> is_valid c v = true) /\
  (forall c', (cand_rank c' < cand_rank c)%nat -> c' <> CTimestamp ->
     (exists v, In v vs /\ v <> []) ->
     exists v, In v vs /\ v <> [] /\ is_valid c' v = false).
Proof.
  intros vs Hnb c. destruct (candidate_is_narrowest_strong vs Hnb) as [_ [Hval Hnar]].
  split; [exact Hval|]. intros c' Hr Hc' _. exact (Hnar c' Hr Hc').
Qed.

(* every value empty: the candidate is still Boolean (and nothing is narrower) *)
Theorem candidate_all_empty : forall vs,
  Forall (fun v => v = []) vs -> col_cand vs = CBool.
Proof.
  intros vs H. unfold col_cand. induction H as [|v vs Hv _ IH]; [reflexivity|].
  cbn [fold_left]. subst v. rewrite update_empty. exact IH.
Qed.

(* only Boolean words and empty values: the candidate stays Boolean *)
Theorem candidate_all_bool : forall vs,
  Forall (fun v => v = [] \/ is_bool v = true) vs -> col_cand vs = CBool.
Proof.
  intros vs H. unfold col_cand. induction H as [|v vs Hv _ IH]; [reflexivity|].
  cbn [fold_left]. destruct Hv as [Hv|Hv].
  - subst v. rewrite update_empty. exact IH.
  - destruct (list_nil_dec v) as [He|Hne].
    + subst v. rewrite update_empty. exact IH.
    + rewrite (update_nonempty _ _ Hne). unfold update_ne. rewrite Hv. exact IH.
Qed.

(* ------------------------------------------------------------------ (3) the row order does not matter *)
Lemma update_comm_nobool : forall c f g,
  is_bool f = false -> is_bool g = false ->
  update (update c f) g = update (update c g) f.
Proof.
  intros c f g Hf Hg.
  destruct (list_nil_dec f) as [Ef|Nf]; [subst f; rewrite !update_empty; reflexivity|].
  destruct (list_nil_dec g) as [Eg|Ng]; [subst g; rewrite !update_empty; reflexivity|].
  rewrite (update_nonempty c f Nf), (update_nonempty c g Ng).
  rewrite (update_nonempty _ g Ng), (update_nonempty _ f Nf).
  pose proof (int_is_float f) as If. pose proof (int_is_float g) as Ig.
  destruct c; unfold update_ne; rewrite ?Hf, ?Hg;
    destruct (is_int f); destruct (is_float f); destruct (is_int g); destruct (is_float g);
    rewrite ?Hf, ?Hg; try reflexivity;
    try (specialize (If eq_refl); discriminate If);
    try (specialize (Ig eq_refl); discriminate Ig).
Qed.

Lemma fold_update_perm : forall vs1 vs2, Permutation vs1 vs2 ->
  Forall (fun v => is_bool v = false) vs1 ->
  forall c, fold_left update vs1 c = fold_left update vs2 c.
Proof.
  intros vs1 vs2 HP. induction HP as [|x l l' HP IH|x y l|l l' l'' HP1 IH1 HP2 IH2]; intros HF c.
  - reflexivity.
  - cbn [fold_left]. apply IH. inversion HF; assumption.
  - cbn [fold_left]. inversion HF as [|a1 l1 Hy HF1]; subst. inversion HF1 as [|a2 l2 Hx HF2]; subst.
    rewrite (update_comm_nobool c y x Hy Hx). reflexivity.
  - rewrite (IH1 HF c). apply IH2.
    apply Forall_forall. intros w Hin. rewrite Forall_forall in HF. apply HF.
    apply (Permutation_in w (Permutation_sym HP1)). exact Hin.
Qed.

Theorem candidate_order_irrelevant_partial : forall vs1 vs2,
  Permutation vs1 vs2 -> Forall (fun v => is_bool v = false) vs1 ->
  col_cand vs1 = col_cand vs2.
Proof.
  intros vs1 vs2 HP HF. unfold col_cand. apply fold_update_perm; assumption.
Qed.

(* ------------------------------------------------------------------ (4) the dialect choice *)
(* d parses the sample into at least two records, all with the same n >= 2 fields *)
Definition qualifies (sample : list N) (d : dialect) (n : nat) : Prop :=
  exists r0 r1 tl, run_dfa d sample = Some (r0 :: r1 :: tl) /\
    length r0 = n /\ (2 <= n)%nat /\ Forall (fun r => length r = n) (r0 :: r1 :: tl).

Lemma forallb_len_Forall : forall n (recs : list (list (list N))),
  forallb (fun r => length r =? n) recs = true <-> Forall (fun r => length r = n) recs.
Proof.
  intros n recs. rewrite forallb_forall, Forall_forall. split; intros H r Hin.
  - apply Nat.eqb_eq. apply H. exact Hin.
  - apply Nat.eqb_eq. apply H. exact Hin.
Qed.

Lemma try_dialect_spec : forall sample b k d b' k',
  try_dialect sample (b, k) d = Some (b', k') ->
  (b' = b /\ k' = k /\ forall n, qualifies sample d n -> (n <= k)%nat) \/
  (b' = Some d /\ qualifies sample d k' /\ (k < k')%nat).
Proof.
  intros sample b k d b' k' H. unfold try_dialect in H.
  destruct (run_dfa d sample) as [recs|] eqn:Hr; [|discriminate H].
  destruct recs as [|r0 [|r1 tl]].
  - left. injection H as H1 H2. subst. split; [reflexivity|]. split; [reflexivity|].
    intros n [q0 [q1 [qt [Hq _]]]]. rewrite Hr in Hq. discriminate Hq.
  - left. injection H as H1 H2. subst. split; [reflexivity|]. split; [reflexivity|].
    intros n [q0 [q1 [qt [Hq _]]]]. rewrite Hr in Hq. discriminate Hq.
  - cbn [snd] in H.
    assert (Hq : forall n, qualifies sample d n ->
              n = length r0 /\ (2 <= n)%nat /\ Forall (fun r => length r = n) (r0 :: r1 :: tl)).
    { intros n [q0 [q1 [qt [Hq [Hl [H2 HF]]]]]]. rewrite Hr in Hq. injection Hq as E0 E1 Et. subst.
      split; [reflexivity|]. split; assumption. }
    destruct (length r0 <? 2) eqn:H2.
    { left. injection H as H1 H3. subst. split; [reflexivity|]. split; [reflexivity|].
      intros n Hn. destruct (Hq n Hn) as [En [Hn2 _]]. apply Nat.ltb_lt in H2. lia. }
    destruct (length r0 <=? k) eqn:Hk.
    { left. injection H as H1 H3. subst. split; [reflexivity|]. split; [reflexivity|].
      intros n Hn. destruct (Hq n Hn) as [En _]. apply Nat.leb_le in Hk. lia. }
    destruct (forallb (fun r => length r =? length r0) (r0 :: r1 :: tl)) eqn:Hall.
    + right. injection H as H1 H3. subst. apply Nat.ltb_ge in H2. apply Nat.leb_gt in Hk.
      split; [reflexivity|]. split; [|exact Hk].
      exists r0, r1, tl. split; [exact Hr|]. split; [reflexivity|]. split; [exact H2|].
      apply forallb_len_Forall. exact Hall.
    + left. injection H as H1 H3. subst. split; [reflexivity|]. split; [reflexivity|].
      intros n Hn. destruct (Hq n Hn) as [En [_ HF]]. subst n.
      apply forallb_len_Forall in HF. rewrite HF in Hall. discriminate Hall.
Qed.

(* the loop: the final field count bounds every qualifying dialect of the list; either nothing changed,
   or the result is the first dialect of the list that reaches the final count *)
Lemma infer_loop_spec : forall sample ds b k res m,
  infer_loop sample ds (b, k) = Some (res, m) ->
  (k <= m)%nat /\
  (forall d' n', In d' ds -> qualifies sample d' n' -> (n' <= m)%nat) /\
  ((res = b /\ m = k) \/
   (exists l1 d l2, ds = l1 ++ d :: l2 /\ res = Some d /\ qualifies sample d m /\ (k < m)%nat /\
      forall d' n', In d' l1 -> qualifies sample d' n' -> (n' < m)%nat)).
Proof.
  intros sample ds. induction ds as [|d ds IH]; intros b k res m H.
  - cbn [infer_loop] in H. injection H as H1 H2. subst.
    split; [lia|]. split; [intros d' n' []|]. left. split; reflexivity.
  - cbn [infer_loop] in H.
    destruct (try_dialect sample (b, k) d) as [[b1 k1]|] eqn:Ht; [|discriminate H].
    destruct (IH b1 k1 res m H) as [Hle [Hmax Hres]].
    destruct (try_dialect_spec _ _ _ _ _ _ Ht) as [[Eb [Ek Hd]]|[Eb [Hqd Hlt]]].
    + subst b1 k1. split; [exact Hle|]. split.
      * intros d' n' [Hin|Hin] Hq; [subst d'; specialize (Hd n' Hq); lia|exact (Hmax d' n' Hin Hq)].
      * destruct Hres as [Hres|[l1 [d0 [l2 [Eds [Er [Hq0 [Hk0 Hfirst]]]]]]]]; [left; exact Hres|].
        right. exists (d :: l1), d0, l2. split; [rewrite Eds; reflexivity|].
        split; [exact Er|]. split; [exact Hq0|]. split; [exact Hk0|].
        intros d' n' [Hin|Hin] Hq; [subst d'; specialize (Hd n' Hq); lia|exact (Hfirst d' n' Hin Hq)].
    + subst b1. split; [lia|]. split.
      * intros d' n' [Hin|Hin] Hq; [|exact (Hmax d' n' Hin Hq)].
        subst d'. destruct Hq as [q0 [q1 [qt [Hq [Hl _]]]]].
        destruct Hqd as [p0 [p1 [pt [Hp [Hpl _]]]]]. rewrite Hq in Hp. injection Hp as E0 E1 Et. subst. lia.
      * right. destruct Hres as [[Er Em]|[l1 [d0 [l2 [Eds [Er [Hq0 [Hk0 Hfirst]]]]]]]].
        -- subst m. exists [], d, ds. split; [reflexivity|]. split; [exact Er|]. split; [exact Hqd|].
           split; [exact Hlt|]. intros d' n' [].
        -- exists (d :: l1), d0, l2. split; [rewrite Eds; reflexivity|].
           split; [exact Er|]. split; [exact Hq0|]. split; [lia|].
           intros d' n' [Hin|Hin] Hq; [|exact (Hfirst d' n' Hin Hq)].
           subst d'. destruct Hq as [q0 [q1 [qt [Hq [Hl _]]]]].
           destruct Hqd as [p0 [p1 [pt [Hp [Hpl _]]]]]. rewrite Hq in Hp. injection Hp as E0 E1 Et. subst. lia.
Qed.

Theorem dialect_choice_spec : forall sample d,
  infer_dialect sample = Some (Some d) ->
  exists n l1 l2,
    dialects = l1 ++ d :: l2 /\                       (* d is one of the eight dialects ... *)
    qualifies sample d n /\                           (* ... it parses >= 2 records of n >= 2 fields each ... *)
    (forall d' n', In d' dialects -> qualifies sample d' n' -> (n' <= n)%nat) /\   (* ... n is the maximum ... *)
    (forall d' n', In d' l1 -> qualifies sample d' n' -> (n' < n)%nat).           (* ... d is the first to reach it *)
Proof.
  intros sample d H. unfold infer_dialect in H.
  destruct (infer_loop sample dialects (None, 0%nat)) as [[res m]|] eqn:Hl; [|discriminate H].
  cbn [option_map fst] in H. injection H as H. subst res.
  destruct (infer_loop_spec _ _ _ _ _ _ Hl) as [_ [Hmax [[Er _]|[l1 [d0 [l2 [Eds [Er [Hq [_ Hfirst]]]]]]]]]].
  - discriminate Er.
  - injection Er as Er. subst d0. exists m, l1, l2.
    split; [exact Eds|]. split; [exact Hq|]. split; [exact Hmax|exact Hfirst].
Qed.

Corollary dialect_choice_in : forall sample d,
  infer_dialect sample = Some (Some d) -> In d dialects.
Proof.
  intros sample d H. destruct (dialect_choice_spec sample d H) as [n [l1 [l2 [E _]]]].
  rewrite E. apply in_or_app. right. left. reflexivity.
Qed.

(* conversely: no dialect found means no dialect of the list qualifies (when no parse panics) *)
Theorem dialect_none_spec : forall sample,
  infer_dialect sample = Some None ->
  forall d' n', In d' dialects -> qualifies sample d' n' -> False.
Proof.
  intros sample H d' n' Hin Hq. unfold infer_dialect in H.
  destruct (infer_loop sample dialects (None, 0%nat)) as [[res m]|] eqn:Hl; [|discriminate H].
  cbn [option_map fst] in H. injection H as H. subst res.
  destruct (infer_loop_spec _ _ _ _ _ _ Hl) as [_ [Hmax [[_ Em]|[l1 [d0 [l2 [_ [Er _]]]]]]]].
  - subst m. specialize (Hmax d' n' Hin Hq). destruct Hq as [_ [_ [_ [_ [_ [H2 _]]]]]]. lia.
  - discriminate Er.
Qed.

Print Assumptions int_is_float.
Print Assumptions candidate_is_narrowest_strong.
Print Assumptions candidate_is_narrowest_partial.
Print Assumptions candidate_all_empty.
Print Assumptions candidate_all_bool.
Print Assumptions candidate_order_irrelevant_partial.
Print Assumptions dialect_choice_spec.
Print Assumptions dialect_choice_in.
Print Assumptions dialect_none_spec.
