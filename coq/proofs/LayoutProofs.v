(* C16 — bounds and alignment of the modelled address arithmetic (model/Layout.v). *)
From Coq Require Import NArith ZArith List Bool Lia ZifyBool ZifyNat ZifyN.
From GV Require Import model.Layout.
Import ListNotations.
Open Scope N_scope.
Ltac Zify.zify_post_hook ::= Z.div_mod_to_equations.

(* ---------------------------------------------------------------- running offsets *)
Lemma offsets_from_end_ge : forall A (w : A -> N) ts s, s <= snd (offsets_from w s ts).
Proof.
  intros A w ts. induction ts as [|t r IH]; intros s; cbn [offsets_from snd]; [lia|].
  specialize (IH (s + w t)). lia.
Qed.

Lemma offsets_from_ge : forall A (w : A -> N) ts s c off,
  nth_error (fst (offsets_from w s ts)) c = Some off -> s <= off.
Proof.
  intros A w ts. induction ts as [|t r IH]; intros s c off H; cbn [offsets_from fst] in H.
  - destruct c; discriminate.
  - destruct c as [|c']; cbn [nth_error] in H.
    + injection H as H. lia.
    + apply IH in H. lia.
Qed.

Lemma offsets_from_length : forall A (w : A -> N) ts s, List.length (fst (offsets_from w s ts)) = List.length ts.
Proof.
  intros A w ts. induction ts as [|t r IH]; intros s; cbn [offsets_from fst List.length]; [reflexivity|].
  rewrite IH. reflexivity.
Qed.

Lemma offsets_from_spec : forall A (w : A -> N) ts s c off,
  nth_error (fst (offsets_from w s ts)) c = Some off ->
  exists t, nth_error ts c = Some t /\ s <= off /\ off + w t <= snd (offsets_from w s ts) /\
            forall c2 off2, (c < c2)%nat -> nth_error (fst (offsets_from w s ts)) c2 = Some off2 -> off + w t <= off2.
Proof.
  intros A w ts. induction ts as [|t r IH]; intros s c off H; cbn [offsets_from fst snd] in *.
  - destruct c; discriminate.
  - destruct c as [|c']; cbn [nth_error] in H.
    + injection H as H. subst off. exists t. split; [reflexivity|]. split; [lia|].
      split; [apply offsets_from_end_ge|].
      intros c2 off2 Hlt H2. destruct c2 as [|c2']; [lia|]. cbn [nth_error] in H2.
      apply offsets_from_ge in H2. exact H2.
    + destruct (IH (s + w t) c' off H) as [t' [Ht [Hge [Hend Hlater]]]].
      exists t'. split; [exact Ht|]. split; [lia|]. split; [exact Hend|].
      intros c2 off2 Hlt H2. destruct c2 as [|c2']; [lia|]. cbn [nth_error] in H2.
      apply (Hlater c2' off2); [lia|exact H2].
Qed.

(* ---------------------------------------------------------------- RowLayout *)
Theorem write_within_row : forall ts c off,
  nth_error (rl_offsets (row_layout_of ts)) c = Some off ->
  exists t, nth_error ts c = Some t /\
            rl_validity (row_layout_of ts) <= off /\ off + row_w t <= rl_width (row_layout_of ts).
Proof.
  intros ts c off H. unfold row_layout_of in *. cbn [rl_offsets rl_width rl_validity] in *.
  destruct (offsets_from_spec _ row_w ts _ c off H) as [t [Ht [Hge [Hend _]]]].
  exists t. auto.
Qed.

Theorem offsets_disjoint : forall ts c1 c2 off1 off2 t1,
  (c1 < c2)%nat ->
  nth_error (rl_offsets (row_layout_of ts)) c1 = Some off1 ->
  nth_error (rl_offsets (row_layout_of ts)) c2 = Some off2 ->
  nth_error ts c1 = Some t1 ->
  off1 + row_w t1 <= off2.
Proof.
  intros ts c1 c2 off1 off2 t1 Hlt H1 H2 Ht. unfold row_layout_of in *. cbn [rl_offsets] in *.
  destruct (offsets_from_spec _ row_w ts _ c1 off1 H1) as [t [Ht' [_ [_ Hlater]]]].
  rewrite Ht in Ht'. injection Ht' as Ht'. subst t. apply (Hlater c2 off2 Hlt H2).
Qed.

Lemma validity_bytes_cover : forall n, N.of_nat n <= 8 * validity_bytes n.
Proof. intros n. unfold validity_bytes. lia. Qed.

(* every column has an offset: the layout is total on the column list *)
Lemma row_layout_columns : forall ts, List.length (rl_offsets (row_layout_of ts)) = List.length ts.
Proof. intros ts. unfold row_layout_of. cbn [rl_offsets]. apply offsets_from_length. Qed.

(* ---------------------------------------------------------------- blocks *)
Theorem row_within_block : forall b rw n r,
  b_res b <= b_cap b -> num_rows b rw = Some n -> r < n ->
  r * rw + rw <= b_res b /\ b_res b <= b_cap b.
Proof.
  intros b rw n r Hinv Hn Hr. unfold num_rows in Hn. destruct (rw =? 0) eqn:E; [discriminate|].
  injection Hn as Hn. subst n. split; [|exact Hinv].
  apply N.eqb_neq in E.
  assert (Hm : rw * (b_res b / rw) <= b_res b) by (apply N.mul_div_le; exact E).
  assert (Hs : (r + 1) * rw <= (b_res b / rw) * rw) by (apply N.mul_le_mono_r; lia).
  lia.
Qed.

(* ---------------------------------------------------------------- align_len *)
Lemma align_len_spec : forall cur al x, align_len cur al = Some x ->
  al <> 0 /\ cur <= x /\ x < cur + al /\ (al | x).
Proof.
  intros cur al x H. unfold align_len in H. destruct (al =? 0) eqn:E; [discriminate|].
  apply N.eqb_neq in E. injection H as H. subst x. split; [exact E|].
  split; [|split].
  - assert (Hd : cur + al - 1 < al * N.succ ((cur + al - 1) / al)) by (apply N.mul_succ_div_gt; exact E). lia.
  - assert (Hd : al * ((cur + al - 1) / al) <= cur + al - 1) by (apply N.mul_div_le; exact E). lia.
  - exists ((cur + al - 1) / al). reflexivity.
Qed.

(* ---------------------------------------------------------------- aggregate layout *)
Definition is_pow2 (a : N) : Prop := exists k, a = 2 ^ k.

Lemma pow2_divide : forall a b, is_pow2 a -> is_pow2 b -> a <= b -> (a | b).
Proof.
  intros a b [k Ha] [m Hb] Hle. subst a b.
  assert (Hkm : k <= m) by (apply (N.pow_le_mono_r_iff 2); [lia|exact Hle]).
  exists (2 ^ (m - k)). rewrite <- N.pow_add_r. f_equal. lia.
Qed.

Lemma fold_max_ge_init : forall (l : list (N * N)) m0, m0 <= fold_left (fun m s => N.max m (snd s)) l m0.
Proof.
  induction l as [|x r IH]; intros m0; cbn [fold_left]; [lia|].
  specialize (IH (N.max m0 (snd x))). lia.
Qed.

Lemma fold_max_ge_elem : forall (l : list (N * N)) m0 s, In s l -> snd s <= fold_left (fun m s => N.max m (snd s)) l m0.
Proof.
  induction l as [|x r IH]; intros m0 s Hin; [contradiction|]. cbn [fold_left].
  destruct Hin as [Heq|Hin].
  - subst x. pose proof (fold_max_ge_init r (N.max m0 (snd s))). lia.
  - apply IH. exact Hin.
Qed.

Lemma fold_max_in : forall (l : list (N * N)) m0,
  fold_left (fun m s => N.max m (snd s)) l m0 = m0 \/
  exists s, In s l /\ fold_left (fun m s => N.max m (snd s)) l m0 = snd s.
Proof.
  induction l as [|x r IH]; intros m0; cbn [fold_left]; [left; reflexivity|].
  destruct (IH (N.max m0 (snd x))) as [H|[s [Hin H]]].
  - rewrite H. destruct (N.max_spec m0 (snd x)) as [[_ Hm]|[_ Hm]]; rewrite Hm.
    + right. exists x. split; [left; reflexivity|reflexivity].
    + left. reflexivity.
  - right. exists s. split; [right; exact Hin|exact H].
Qed.

Lemma base_align_pow2 : forall states, (forall s, In s states -> is_pow2 (snd s)) -> is_pow2 (base_align_of states).
Proof.
  intros states H. unfold base_align_of. destruct states as [|x r]; [exists 0; reflexivity|].
  destruct (fold_max_in (x :: r) 0) as [H0|[s [Hin Hs]]].
  - (* the maximum is 0: impossible, x's alignment is a power of two *)
    exfalso. pose proof (fold_max_ge_elem (x :: r) 0 x (or_introl eq_refl)) as Hge.
    destruct (H x (or_introl eq_refl)) as [k Hk]. rewrite H0 in Hge. rewrite Hk in Hge.
    assert (0 < 2 ^ k) by (apply N.neq_0_lt_0; apply N.pow_nonzero; lia). lia.
  - rewrite Hs. apply H. exact Hin.
Qed.

Lemma base_align_ge : forall states s, In s states -> snd s <= base_align_of states.
Proof.
  intros states s Hin. unfold base_align_of. destruct states as [|x r]; [contradiction|].
  apply fold_max_ge_elem. exact Hin.
Qed.

Lemma agg_offsets_spec : forall base states off p,
  agg_offsets base off states = Some p -> (base | off) ->
  (base | snd p) /\ off <= snd p /\
  forall i o s, nth_error (fst p) i = Some o -> nth_error states i = Some s ->
    (base | o) /\ off <= o /\ o + fst s <= snd p /\
    forall j o2, (i < j)%nat -> nth_error (fst p) j = Some o2 -> o + fst s <= o2.
Proof.
  intros base states. induction states as [|s r IH]; intros off p H Hdiv; cbn [agg_offsets] in H.
  - injection H as H. subst p. cbn [fst snd]. split; [exact Hdiv|]. split; [lia|].
    intros i o s Hn. destruct i; discriminate.
  - destruct (align_len (off + fst s) base) as [off'|] eqn:EA; [|discriminate].
    destruct (agg_offsets base off' r) as [q|] eqn:ER; [|discriminate].
    injection H as H. subst p. cbn [fst snd].
    destruct (align_len_spec _ _ _ EA) as [Hnz [Hge [_ Hd]]].
    destruct (IH off' q ER Hd) as [Hdq [Hleq Hall]].
    split; [exact Hdq|]. split; [lia|].
    intros i o s0 Hn Hs. destruct i as [|i']; cbn [nth_error] in Hn, Hs.
    + injection Hn as Hn. injection Hs as Hs. subst o s0. split; [exact Hdiv|]. split; [lia|]. split; [lia|].
      intros j o2 Hlt Hj. destruct j as [|j']; [lia|]. cbn [nth_error] in Hj.
      destruct (nth_error r j') as [sj|] eqn:Esj.
      * destruct (Hall j' o2 sj Hj Esj) as [_ [Hge2 _]]. lia.
      * (* offsets and states have the same length *)
        exfalso. clear - ER Hj Esj. revert off' q j' ER Hj Esj.
        induction r as [|x r IHr]; intros off' q j' ER Hj Esj; cbn [agg_offsets] in ER.
        -- injection ER as ER. subst q. destruct j'; discriminate.
        -- destruct (align_len (off' + fst x) base) as [o'|]; [|discriminate].
           destruct (agg_offsets base o' r) as [q'|] eqn:E'; [|discriminate].
           injection ER as ER. subst q. destruct j' as [|j'']; cbn [fst nth_error] in Hj, Esj; [discriminate|].
           eapply IHr; eassumption.
    + destruct (Hall i' o s0 Hn Hs) as [Hd1 [Hge1 [Hin1 Hlater]]].
      split; [exact Hd1|]. split; [lia|]. split; [exact Hin1|].
      intros j o2 Hlt Hj. destruct j as [|j']; [lia|]. cbn [nth_error] in Hj.
      apply (Hlater j' o2); [lia|exact Hj].
Qed.

(* every aggregate state lies inside the row, after the group values, does not overlap the next state, and is
   aligned to its own alignment whenever the row starts at a multiple of base_align; rows are base_align apart *)
Theorem agg_state_aligned : forall groups states L,
  agg_layout_of groups states = Some L ->
  (forall s, In s states -> is_pow2 (snd s)) ->
  (al_base L | al_width L) /\
  forall i off size align, nth_error (al_offsets L) i = Some off -> nth_error states i = Some (size, align) ->
    rl_width (al_groups L) <= off /\ off + size <= al_width L /\
    (forall j off2, (i < j)%nat -> nth_error (al_offsets L) j = Some off2 -> off + size <= off2) /\
    forall base row, (al_base L | base) -> (base + row * al_width L + off) mod align = 0.
Proof.
  intros groups states L H Hpow. unfold agg_layout_of in H.
  destruct (align_len (rl_width (row_layout_of groups)) (base_align_of states)) as [off0|] eqn:E0; [|discriminate].
  destruct (agg_offsets (base_align_of states) off0 states) as [p|] eqn:EP; [|discriminate].
  destruct (align_len (snd p) (base_align_of states)) as [w|] eqn:EW; [|discriminate].
  injection H as H. subst L. cbn [al_base al_width al_offsets al_groups].
  destruct (align_len_spec _ _ _ E0) as [Hnz [Hge0 [_ Hd0]]].
  destruct (align_len_spec _ _ _ EW) as [_ [HgeW [_ HdW]]].
  destruct (agg_offsets_spec _ _ _ _ EP Hd0) as [_ [_ Hall]].
  split; [exact HdW|].
  intros i off size align Ho Hs. destruct (Hall i off (size, align) Ho Hs) as [Hdo [Hgeo [Hino Hlater]]].
  cbn [fst] in Hino, Hlater.
  split; [lia|]. split; [lia|]. split; [exact Hlater|].
  intros base row Hb.
  assert (Hin : In (size, align) states) by (eapply nth_error_In; exact Hs).
  assert (Hal : (align | base_align_of states)).
  { apply pow2_divide; [exact (Hpow _ Hin)|apply base_align_pow2; exact Hpow|exact (base_align_ge _ _ Hin)]. }
  assert (Hanz : align <> 0).
  { destruct (Hpow _ Hin) as [k Hk]. cbn [snd] in Hk. rewrite Hk. apply N.pow_nonzero. lia. }
  apply N.mod_divide; [exact Hanz|].
  apply N.divide_add_r; [apply N.divide_add_r|].
  - eapply N.divide_trans; [exact Hal|exact Hb].
  - apply N.divide_mul_r. eapply N.divide_trans; [exact Hal|exact HdW].
  - eapply N.divide_trans; [exact Hal|exact Hdo].
Qed.

Example agg_hypotheses_satisfiable :
  exists L, agg_layout_of [PI32; PUtf8] [(5, 4); (16, 8); (1, 1)] = Some L /\
            (forall s, In s [(5, 4); (16, 8); (1, 1)] -> is_pow2 (snd s)) /\ al_offsets L = [24; 32; 48] /\ al_width L = 56.
Proof.
  eexists. split; [vm_compute; reflexivity|]. split; [|split; reflexivity].
  intros s [H|[H|[H|[]]]]; subst s; cbn [snd]; [exists 2|exists 3|exists 0]; reflexivity.
Qed.

(* ---------------------------------------------------------------- sort layout *)
Lemma forallb_key_w : forall ts, forallb (fun t => match key_w t with Some _ => true | None => false end) ts = true ->
  forall t, In t ts -> key_w t = Some (key_w0 t).
Proof.
  intros ts H t Hin. rewrite forallb_forall in H. specialize (H t Hin). unfold key_w0.
  destruct (key_w t); [reflexivity|discriminate].
Qed.

Theorem sort_row_index_slot_in_bounds : forall ts L,
  sort_layout_of ts = Ok L ->
  sl_compare L + row_index_width = sl_width L /\
  forall c off, nth_error (sl_offsets L) c = Some off ->
    exists t w, nth_error ts c = Some t /\ key_w t = Some w /\ nth_error (sl_widths L) c = Some w /\
                off + w <= sl_compare L /\
                forall c2 off2, (c < c2)%nat -> nth_error (sl_offsets L) c2 = Some off2 -> off + w <= off2.
Proof.
  intros ts L H. unfold sort_layout_of in H.
  destruct (existsb is_nested ts); [discriminate|].
  destruct (forallb (fun t => match key_w t with Some _ => true | None => false end) ts) eqn:EF; [|discriminate].
  injection H as H. subst L. cbn [sl_offsets sl_widths sl_compare sl_width]. split; [reflexivity|].
  intros c off Ho. destruct (offsets_from_spec _ key_w0 ts 0 c off Ho) as [t [Ht [_ [Hend Hlater]]]].
  exists t, (key_w0 t). split; [exact Ht|].
  split; [apply (forallb_key_w ts EF); eapply nth_error_In; exact Ht|].
  split; [apply map_nth_error; exact Ht|]. split; [exact Hend|exact Hlater].
Qed.

(* lists and structs as sort keys are refused with an error; the width function's `unimplemented!()` is never
   reached: the layout never panics *)
Theorem sort_layout_list_errs : sort_layout_of [PI32; PList] = Err.
Proof. reflexivity. Qed.

Theorem sort_layout_never_panics : forall ts, sort_layout_of ts <> Panic.
Proof.
  intros ts H. unfold sort_layout_of in H.
  destruct (existsb is_nested ts) eqn:EN; [discriminate|].
  destruct (forallb (fun t => match key_w t with Some _ => true | None => false end) ts) eqn:EF; [discriminate|].
  clear H. induction ts as [|t r IH]; cbn [existsb forallb] in EN, EF; [discriminate|].
  apply orb_false_iff in EN. destruct EN as [Ht Hr].
  destruct (key_w t) eqn:EK.
  - cbn [andb] in EF. exact (IH Hr EF).
  - destruct t; cbn in EK, Ht; discriminate.
Qed.

(* ---------------------------------------------------------------- prepare_append *)
Definition okb (b : block) : Prop := b_res b <= b_cap b.
Definition ptr_ok (rw : N) (bs : list block) (p : nat * N) : Prop :=
  exists b, nth_error bs (fst p) = Some b /\ snd p + rw <= b_res b.

Lemma nrange_spec : forall k start j, In j (nrange start k) -> start <= j /\ j < start + N.of_nat k.
Proof.
  induction k as [|k IH]; intros start j H; cbn [nrange] in H; [contradiction|].
  destruct H as [H|H]; [subst; lia|]. apply IH in H. lia.
Qed.
Lemma nrange_length : forall k start, List.length (nrange start k) = k.
Proof. induction k as [|k IH]; intros start; cbn [nrange List.length]; [reflexivity|]. rewrite IH. reflexivity. Qed.

Lemma ptr_ok_grow_last : forall rw done cur cur' p,
  b_res cur <= b_res cur' -> ptr_ok rw (done ++ [cur]) p -> ptr_ok rw (done ++ [cur']) p.
Proof.
  intros rw done cur cur' [i off] Hle [b [Hn Hb]]. unfold ptr_ok. cbn [fst snd] in *.
  destruct (Nat.lt_ge_cases i (List.length done)) as [Hlt|Hge].
  - rewrite nth_error_app1 in Hn by exact Hlt. exists b. rewrite nth_error_app1 by exact Hlt. auto.
  - rewrite nth_error_app2 in Hn by exact Hge. rewrite nth_error_app2 by exact Hge.
    destruct (i - List.length done)%nat as [|d]; cbn [nth_error] in *.
    + injection Hn as Hn. subst b. exists cur'. split; [reflexivity|lia].
    + destruct d; discriminate.
Qed.

Lemma ptr_ok_extend : forall rw bs extra p, ptr_ok rw bs p -> ptr_ok rw (bs ++ extra) p.
Proof.
  intros rw bs extra [i off] [b [Hn Hb]]. unfold ptr_ok. cbn [fst snd] in *. exists b. split; [|exact Hb].
  rewrite nth_error_app1; [exact Hn|]. apply nth_error_Some. rewrite Hn. discriminate.
Qed.

Lemma pa_loop_inv : forall fuel rw rc done cur rem ptrs bs ps,
  rw <> 0 -> Forall okb (done ++ [cur]) -> Forall (ptr_ok rw (done ++ [cur])) ptrs ->
  pa_loop fuel rw rc done cur rem ptrs = PaOk bs ps ->
  Forall okb bs /\ Forall (ptr_ok rw bs) ps /\ List.length ps = (List.length ptrs + N.to_nat rem)%nat.
Proof.
  induction fuel as [|f IH]; intros rw rc done cur rem ptrs bs ps Hrw Hok Hptr H; cbn [pa_loop] in H; [discriminate|].
  destruct (rem =? 0) eqn:ER.
  - injection H as H1 H2. subst bs ps. apply N.eqb_eq in ER. subst rem. split; [exact Hok|]. split; [exact Hptr|].
    cbn. lia.
  - apply N.eqb_neq in ER.
    unfold remaining_rows, num_rows in H. destruct (rw =? 0) eqn:ERW; [apply N.eqb_eq in ERW; contradiction|].
    destruct (b_cap cur <? b_res cur) eqn:EC; [discriminate|]. apply N.ltb_ge in EC.
    set (free := (b_cap cur - b_res cur) / rw) in *.
    set (k := N.min free rem) in *.
    set (start := b_res cur / rw) in *.
    set (cur' := {| b_cap := b_cap cur; b_res := b_res cur + k * rw |}) in *.
    set (newp := map (fun j => (List.length done, rw * j)) (nrange start (N.to_nat k))) in *.
    assert (Hfree : free * rw <= b_cap cur - b_res cur).
    { unfold free. rewrite N.mul_comm. apply N.mul_div_le. exact Hrw. }
    assert (Hk : k * rw <= b_cap cur - b_res cur).
    { assert (k <= free) by (unfold k; lia). assert (k * rw <= free * rw) by (apply N.mul_le_mono_r; assumption). lia. }
    assert (Hstart : rw * start <= b_res cur) by (unfold start; apply N.mul_div_le; exact Hrw).
    assert (Hok' : Forall okb (done ++ [cur'])).
    { apply Forall_app. apply Forall_app in Hok. destruct Hok as [Hd _]. split; [exact Hd|].
      constructor; [|constructor]. unfold okb, cur'. cbn [b_res b_cap]. lia. }
    assert (Hptr' : Forall (ptr_ok rw (done ++ [cur'])) (ptrs ++ newp)).
    { apply Forall_app. split.
      - eapply Forall_impl; [|exact Hptr]. intros p Hp. eapply ptr_ok_grow_last; [|exact Hp].
        unfold cur'. cbn [b_res]. lia.
      - apply Forall_forall. intros p Hp. unfold newp in Hp. apply in_map_iff in Hp.
        destruct Hp as [j [Hj Hin]]. subst p. apply nrange_spec in Hin. exists cur'. cbn [fst snd].
        split; [rewrite nth_error_app2 by lia; rewrite Nat.sub_diag; reflexivity|].
        unfold cur'. cbn [b_res].
        assert (rw * (j + 1) <= rw * (start + k)) by (apply N.mul_le_mono_l; lia). lia. }
    assert (Hlen : List.length (ptrs ++ newp) = (List.length ptrs + N.to_nat k)%nat).
    { rewrite app_length. unfold newp. rewrite map_length, nrange_length. reflexivity. }
    assert (Hkr : k <= rem) by (unfold k; lia).
    destruct (rem - k =? 0) eqn:ER2.
    + injection H as H1 H2. subst bs ps. split; [exact Hok'|]. split; [exact Hptr'|].
      apply N.eqb_eq in ER2. rewrite Hlen. lia.
    + apply IH in H; [|exact Hrw| |].
      * destruct H as [A [B C]]. split; [exact A|]. split; [exact B|]. rewrite C, Hlen. apply N.eqb_neq in ER2. lia.
      * apply Forall_app. split; [exact Hok'|]. constructor; [|constructor]. unfold okb. cbn [b_res b_cap]. lia.
      * eapply Forall_impl; [|exact Hptr']. intros p Hp. apply ptr_ok_extend. exact Hp.
Qed.

Lemma split_last_app : forall l d c, split_last l = Some (d, c) -> l = d ++ [c].
Proof.
  induction l as [|x r IH]; intros d c H; cbn [split_last] in H; [discriminate|].
  destruct r as [|y r'].
  - injection H as H1 H2. subst. reflexivity.
  - destruct (split_last (y :: r')) as [[d' c']|] eqn:E; [|discriminate].
    injection H as H1 H2. subst d c. rewrite (IH d' c' eq_refl). reflexivity.
Qed.

(* an append never reserves past a block's capacity; every row pointer it hands out addresses `row_width` bytes
   inside the reserved (hence allocated) part of its block; it hands out exactly `rows` pointers *)
Theorem prepare_append_never_overfills : forall fuel rw rc blocks rows bs ps,
  rw <> 0 -> Forall okb blocks ->
  prepare_append fuel rw rc blocks rows = PaOk bs ps ->
  Forall okb bs /\
  Forall (fun p => exists b, nth_error bs (fst p) = Some b /\ snd p + rw <= b_res b /\ b_res b <= b_cap b) ps /\
  List.length ps = N.to_nat rows.
Proof.
  intros fuel rw rc blocks rows bs ps Hrw Hok H. unfold prepare_append in H.
  assert (Hgoal : Forall okb bs /\ Forall (ptr_ok rw bs) ps /\ List.length ps = (0 + N.to_nat rows)%nat).
  { destruct (split_last blocks) as [[d c]|] eqn:ES.
    - apply split_last_app in ES. subst blocks.
      eapply (pa_loop_inv fuel rw rc d c rows [] bs ps Hrw Hok); [constructor|exact H].
    - eapply (pa_loop_inv fuel rw rc [] _ rows [] bs ps Hrw); [|constructor|exact H].
      constructor; [|constructor]. unfold okb. cbn [b_res b_cap]. lia. }
  destruct Hgoal as [A [B C]]. split; [exact A|]. split; [|lia].
  apply Forall_forall. intros p Hp. rewrite Forall_forall in B. destruct (B p Hp) as [b [Hn Hb]].
  exists b. split; [exact Hn|]. split; [exact Hb|].
  rewrite Forall_forall in A. apply A. eapply nth_error_In. exact Hn.
Qed.

Example prepare_append_example :
  prepare_append 10 5 4 [] 9 =
  PaOk [{| b_cap := 20; b_res := 20 |}; {| b_cap := 20; b_res := 20 |}; {| b_cap := 20; b_res := 5 |}]
       [(0%nat, 0); (0%nat, 5); (0%nat, 10); (0%nat, 15); (1%nat, 0); (1%nat, 5); (1%nat, 10); (1%nat, 15); (2%nat, 0)].
Proof. vm_compute. reflexivity. Qed.

(* the two preconditions are needed: a zero row width panics (division), a zero row capacity never terminates *)
Theorem prepare_append_zero_width_panics : forall fuel rc, prepare_append (S fuel) 0 rc [] 1 = PaPanic.
Proof. intros fuel rc. reflexivity. Qed.

Lemma pa_loop_zero_capacity : forall fuel rw done cur rem ptrs, rw <> 0 -> rem <> 0 ->
  b_cap cur = 0 -> b_res cur = 0 -> pa_loop fuel rw 0 done cur rem ptrs = PaDiverge.
Proof.
  induction fuel as [|f IH]; intros rw done cur rem ptrs Hrw Hrem Hc Hr; cbn [pa_loop]; [reflexivity|].
  destruct (rem =? 0) eqn:E; [apply N.eqb_eq in E; contradiction|].
  unfold remaining_rows, num_rows. destruct (rw =? 0) eqn:E2; [apply N.eqb_eq in E2; contradiction|].
  rewrite Hc, Hr. change (0 <? 0) with false. cbv iota.
  replace ((0 - 0) / rw) with 0 by (rewrite N.sub_diag, N.div_0_l; [reflexivity|exact Hrw]).
  replace (N.min 0 rem) with 0 by lia.
  rewrite N.sub_0_r, E. apply IH; [exact Hrw|exact Hrem|apply N.mul_0_r|reflexivity].
Qed.
Theorem prepare_append_zero_capacity_diverges : forall fuel rw rows, rw <> 0 -> rows <> 0 ->
  prepare_append fuel rw 0 [] rows = PaDiverge.
Proof.
  intros fuel rw rows Hrw Hrows. unfold prepare_append. cbn [split_last].
  apply pa_loop_zero_capacity; [exact Hrw|exact Hrows|apply N.mul_0_r|reflexivity].
Qed.

(* ---------------------------------------------------------------- string views *)
Theorem string_view_inline_threshold : forall max_inline literal len,
  max_inline = literal ->
  (sv_is_inline literal (sv_new max_inline len) = true <-> len <= max_inline) /\
  (sv_is_inline literal (sv_new max_inline len) = true <-> exists l, sv_new max_inline len = SInline l) /\
  sv_len (sv_new max_inline len) = len.
Proof.
  intros mx lit len Heq. subst lit. unfold sv_is_inline, sv_new.
  destruct (len <=? mx) eqn:E; cbn [sv_len]; rewrite E.
  - apply N.leb_le in E. split; [split; auto|]. split; [|reflexivity]. split; [intros _; eexists; reflexivity|auto].
  - apply N.leb_gt in E. split; [split; [discriminate|lia]|]. split; [|reflexivity].
    split; [discriminate|]. intros [l Hl]. discriminate.
Qed.

(* ---------------------------------------------------------------- directories *)
Theorem mask_in_bounds : forall hash cap k, cap = 2 ^ k -> N.land hash (cap - 1) < cap.
Proof.
  intros hash cap k Hc. subst cap.
  replace (2 ^ k - 1) with (N.ones k) by (rewrite N.ones_equiv; lia).
  rewrite N.land_ones. apply N.mod_lt. apply N.pow_nonzero. lia.
Qed.

Theorem directory_offsets_in_bounds : forall hash offset cap k, cap = 2 ^ k ->
  offset_from_hash hash cap < cap /\ inc_and_wrap offset cap < cap.
Proof.
  intros hash offset cap k Hc. unfold offset_from_hash, inc_and_wrap.
  split; eapply mask_in_bounds; exact Hc.
Qed.

(* ---------------------------------------------------------------- inline / reference predicates agree *)
Lemma le_thr_spec : forall p k, le_thr p = Some k -> forall len, holds p len = (len <=? k).
Proof.
  intros [op rhs] k H len. unfold le_thr, holds in *. cbn [pr_op pr_rhs] in *.
  destruct op as [|[[q|q|]|[q|q|]|]]; cbv iota beta in H |- *; try discriminate.
  - destruct (rhs =? 0) eqn:E; [discriminate|]. injection H as H. apply N.eqb_neq in E.
    destruct (len <? rhs) eqn:A; destruct (len <=? k) eqn:B; try reflexivity; lia.
  - injection H as H. subst k. reflexivity.
Qed.

Lemma gt_thr_spec : forall p k, gt_thr p = Some k -> forall len, holds p len = negb (len <=? k).
Proof.
  intros [op rhs] k H len. unfold gt_thr, holds in *. cbn [pr_op pr_rhs] in *.
  destruct op as [|[[q|q|]|[q|q|]|]]; cbv iota beta in H |- *; try discriminate.
  - destruct (rhs =? 0) eqn:E; [discriminate|]. injection H as H. apply N.eqb_neq in E.
    destruct (rhs <=? len) eqn:A; destruct (len <=? k) eqn:B; try reflexivity; lia.
  - injection H as H. subst k. destruct (rhs <? len) eqn:A; destruct (len <=? rhs) eqn:B; try reflexivity; lia.
Qed.

Lemma optN_is_eq : forall o k, optN_is o k = true -> o = Some k.
Proof. intros [x|] k H; cbn in H; [apply N.eqb_eq in H; subst; reflexivity|discriminate]. Qed.

(* if every site tests the same threshold, then for EVERY length: the array holds the variant the row writer
   expects, the row writer stores the variant the row reader expects, no assertion fires, the bytes read back are
   the `len` bytes written; and the value is inline exactly when len <= k *)
Theorem string_repr_roundtrip : forall S k, preds_agree S k = true ->
  forall len,
    roundtrip S len = Safe len /\
    push_view S len = Safe (if len <=? k then RInline else RReference) /\
    (holds (sv_inline S) len = holds (sp_inline S) len) /\
    (holds (sv_reference S) len = negb (holds (sv_inline S) len)) /\
    (holds (sp_reference S) len = negb (holds (sp_inline S) len)).
Proof.
  intros S k H len. unfold preds_agree in H.
  repeat (apply andb_true_iff in H; destruct H as [H ?H]).
  apply optN_is_eq in H, H0, H1, H2, H3, H4, H5, H6, H7.
  pose proof (le_thr_spec _ _ H len) as A1. pose proof (le_thr_spec _ _ H7 len) as A2.
  pose proof (le_thr_spec _ _ H6 len) as A3. pose proof (le_thr_spec _ _ H5 len) as A4.
  pose proof (le_thr_spec _ _ H4 len) as A5. pose proof (gt_thr_spec _ _ H3 len) as B1.
  pose proof (gt_thr_spec _ _ H2 len) as B2. pose proof (gt_thr_spec _ _ H1 len) as B3.
  pose proof (gt_thr_spec _ _ H0 len) as B4.
  unfold roundtrip, push_view, row_write, row_read.
  rewrite A1, A2, A3, A4, B1, B2, B3, B4.
  destruct (len <=? k); cbn [negb]; repeat split; try reflexivity; try (rewrite A5; reflexivity).
Qed.

(* the bug class: a reader whose test is `len < k` where the writers use `len <= k` reads the k-byte value,
   stored inline, through the pointer variant *)
Example string_repr_mismatch_is_wild :
  let le12 := {| pr_op := 1; pr_rhs := 12 |} in let gt12 := {| pr_op := 2; pr_rhs := 12 |} in
  let S := {| push_inline := le12; sv_inline := le12; sv_reference := gt12; sv_inline_assert := le12;
              sv_reference_assert := gt12; sp_inline := {| pr_op := 0; pr_rhs := 12 |};
              sp_reference := {| pr_op := 3; pr_rhs := 12 |}; sp_inline_assert := le12; sp_reference_assert := gt12 |} in
  roundtrip S 12 = Wild /\ roundtrip S 11 = Safe 11 /\ roundtrip S 13 = Safe 13 /\ preds_agree S 12 = false.
Proof. cbn zeta. repeat split; reflexivity. Qed.

(* ---------------------------------------------------------------- heap sizes cover the heap writes *)
Lemma write_contrib_eq : forall S a row c, heap_contrib S a row = Some c -> write_contrib S a row = Some c.
Proof.
  intros S a row c H. unfold heap_contrib in H. unfold write_contrib.
  destruct (nth_error (a_valid a) row) as [v|] eqn:EV; [|discriminate].
  destruct (forallb (fun b => b) (a_valid a)) eqn:EA.
  - rewrite forallb_forall in EA. assert (v = true) by (apply EA; eapply nth_error_In; exact EV). subst v.
    destruct (nth_error (a_sel a) row); [|discriminate]. destruct (nth_error (a_lens a) n); [|discriminate].
    injection H as H. subst c. destruct (holds (sv_inline S) n0); reflexivity.
  - destruct v; [|exact H].
    destruct (nth_error (a_sel a) row); [|discriminate]. destruct (nth_error (a_lens a) n); [|discriminate].
    injection H as H. subst c. destruct (holds (sv_inline S) n0); reflexivity.
Qed.

Lemma add_array_spec : forall S a rows sizes sizes',
  add_array S a rows sizes = Some sizes' ->
  List.length sizes' = List.length rows /\ List.length sizes = List.length rows /\
  forall i row s, nth_error rows i = Some row -> nth_error sizes i = Some s ->
    exists c, heap_contrib S a row = Some c /\ nth_error sizes' i = Some (s + c).
Proof.
  intros S a rows. induction rows as [|r rs IH]; intros sizes sizes' H; destruct sizes as [|s ss]; cbn [add_array] in H; try discriminate.
  - injection H as H. subst sizes'. repeat split; intros i row s0 Hr; destruct i; discriminate.
  - destruct (heap_contrib S a r) as [c|] eqn:EC; [|discriminate].
    destruct (add_array S a rs ss) as [rest|] eqn:ER; [|discriminate]. injection H as H. subst sizes'.
    destruct (IH ss rest ER) as [L1 [L2 Hall]]. cbn [List.length]. split; [lia|]. split; [lia|].
    intros i row s0 Hr Hs. destruct i as [|i']; cbn [nth_error] in *.
    + injection Hr as Hr. injection Hs as Hs. subst. exists c. auto.
    + apply (Hall i' row s0 Hr Hs).
Qed.

Lemma heap_sizes_fold : forall S arrays rows sizes0 sizes,
  fold_left (fun acc a => match acc with Some sz => add_array S a rows sz | None => None end) arrays (Some sizes0) = Some sizes ->
  List.length sizes0 = List.length rows ->
  List.length sizes = List.length rows /\
  forall i row s0, nth_error rows i = Some row -> nth_error sizes0 i = Some s0 ->
    exists w, fold_left (fun acc a => match acc, write_contrib S a row with Some x, Some c => Some (x + c) | _, _ => None end)
                        arrays (Some s0) = Some w /\ nth_error sizes i = Some w.
Proof.
  intros S arrays. induction arrays as [|a rest IH]; intros rows sizes0 sizes H Hlen; cbn [fold_left] in H.
  - injection H as H. subst sizes. split; [exact Hlen|]. intros i row s0 Hr Hs. exists s0. cbn [fold_left]. auto.
  - destruct (add_array S a rows sizes0) as [sz1|] eqn:EA.
    + destruct (add_array_spec S a rows sizes0 sz1 EA) as [L1 [_ Hall]].
      destruct (IH rows sz1 sizes H L1) as [L2 Hrest]. split; [exact L2|].
      intros i row s0 Hr Hs. destruct (Hall i row s0 Hr Hs) as [c [Hc Hn]].
      destruct (Hrest i row (s0 + c) Hr Hn) as [w [Hw Hnw]].
      exists w. split; [|exact Hnw]. cbn [fold_left]. rewrite (write_contrib_eq S a row c Hc). exact Hw.
    + exfalso. clear -H. induction rest as [|b r IHr]; cbn [fold_left] in H; [discriminate|exact (IHr H)].
Qed.

(* the heap size computed for output row i is exactly the number of bytes the writer copies to the heap for the
   row SELECTED at position i (valid, non-inline strings of every array), whatever the selection *)
Theorem heap_sizes_cover_writes : forall S arrays rows sizes,
  compute_heap_sizes S arrays rows = Some sizes ->
  List.length sizes = List.length rows /\
  forall i row, nth_error rows i = Some row ->
    exists w, bytes_written S arrays row = Some w /\ nth_error sizes i = Some w.
Proof.
  intros S arrays rows sizes H. unfold compute_heap_sizes in H.
  destruct (heap_sizes_fold S arrays rows _ sizes H (repeat_length _ _)) as [L Hall].
  split; [exact L|]. intros i row Hr. unfold bytes_written. apply (Hall i row 0 Hr).
  apply nth_error_repeat. apply nth_error_Some. rewrite Hr. discriminate.
Qed.

(* and the heap block reserved for the append holds them: pointer i starts at the sum of the sizes before it,
   row i's bytes end before pointer i+1 and before the end of the block, whose size is the sum of all sizes *)
Theorem heap_rows_within_block : forall sizes i off,
  nth_error (fst (heap_block_of sizes)) i = Some off ->
  exists s, nth_error sizes i = Some s /\ off + s <= snd (heap_block_of sizes) /\
            forall j off2, (i < j)%nat -> nth_error (fst (heap_block_of sizes)) j = Some off2 -> off + s <= off2.
Proof.
  intros sizes i off H. unfold heap_block_of in *.
  destruct (offsets_from_spec _ (fun s => s) sizes 0 i off H) as [s [Hs [_ [Hend Hlater]]]].
  exists s. auto.
Qed.

Lemma heap_block_total : forall sizes s0, snd (offsets_from (fun s : N => s) s0 sizes) = s0 + fold_left N.add sizes 0.
Proof.
  induction sizes as [|x xs IH]; intros s0; cbn [offsets_from snd fold_left]; [lia|].
  rewrite IH. assert (G : forall l a, fold_left N.add l a = a + fold_left N.add l 0).
  { induction l as [|y ys IHl]; intros a; cbn [fold_left]; [lia|]. rewrite IHl. rewrite (IHl (0 + y)). lia. }
  rewrite (G xs (0 + x)). lia.
Qed.

Example heap_sizes_example :
  let le12 := {| pr_op := 1; pr_rhs := 12 |} in let gt12 := {| pr_op := 2; pr_rhs := 12 |} in
  let S := {| push_inline := le12; sv_inline := le12; sv_reference := gt12; sv_inline_assert := le12;
              sv_reference_assert := gt12; sp_inline := le12; sp_reference := gt12; sp_inline_assert := le12;
              sp_reference_assert := gt12 |} in
  (* rows 3 and 1 selected; row 1 is NULL, row 3 holds a 20-byte string, row 0 a 12-byte string *)
  compute_heap_sizes S [{| a_valid := [true; false; true; true]; a_sel := [0; 1; 2; 3]%nat; a_lens := [12; 30; 13; 20] |}] [3; 1; 0]%nat
  = Some [20; 0; 0].
Proof. reflexivity. Qed.

(* ---------------------------------------------------------------- the constants of the current source *)
From GV Require gen.TablesLayout.

(* MAX_INLINE_LEN, the literals `is_inline` / `is_reference` compare with, and the inline buffer length agree:
   a view built by new_inline / new_reference is classified the same way by every reader, the inline bytes fit
   their buffer, and only a view with len > threshold is ever dereferenced into a heap buffer *)
Theorem src_string_view_threshold :
  exists k, TablesLayout.max_inline_len = Some k /\ TablesLayout.is_inline_literal = Some k /\
            TablesLayout.is_reference_literal = Some k /\ TablesLayout.inline_buffer_len = Some k /\
  forall len,
    (sv_is_inline k (sv_new k len) = true <-> len <= k) /\
    (sv_is_inline k (sv_new k len) = true <-> exists l, sv_new k len = SInline l) /\
    sv_len (sv_new k len) = len.
Proof.
  exists 12. repeat (split; [reflexivity|]). intros len. apply string_view_inline_threshold. reflexivity.
Qed.

Theorem src_row_index_width : TablesLayout.row_index_width = Some Layout.row_index_width.
Proof. reflexivity. Qed.

(* every inline/reference test of the current source - array push, StringView and StringPtr is_inline /
   is_reference, the four constructor assertions - is the same threshold k = MAX_INLINE_LEN = the inline buffer
   length; the row writer takes its decision from StringView::is_inline and compute_heap_sizes tests the validity
   of the SELECTED row (scanned) *)
From GV Require model.LayoutSrc.
Theorem src_string_predicates_agree :
  exists S k, LayoutSrc.src_str_preds = Some S /\ TablesLayout.max_inline_len = Some k /\
              TablesLayout.inline_buffer_len = Some k /\ preds_agree S k = true /\
              (exists n, TablesLayout.row_writer_uses_view_is_inline = Some n) /\
              TablesLayout.heap_sizes_validity_by_selected_row = Some 1 /\
  forall len,
    roundtrip S len = Safe len /\
    push_view S len = Safe (if len <=? k then RInline else RReference) /\
    (holds (sv_inline S) len = holds (sp_inline S) len) /\
    (holds (sv_reference S) len = negb (holds (sv_inline S) len)) /\
    (holds (sp_reference S) len = negb (holds (sp_inline S) len)).
Proof.
  eexists. exists 12. split; [reflexivity|]. split; [reflexivity|]. split; [reflexivity|].
  split; [reflexivity|]. split; [eexists; reflexivity|]. split; [reflexivity|].
  apply string_repr_roundtrip. reflexivity.
Qed.
