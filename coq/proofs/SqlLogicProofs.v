(* C05 — proofs about the three-valued logic of model/Sql.v, the WHERE filter, IN lists, CASE,
   and the independence of closed expressions from the evaluation context.

   The Kleene tables are defined here a second time, independently of Sql.v, by the order
   F < U < T (AND = min, OR = max, NOT = reflection); the theorems say Sql.v's and3/or3/not3
   are exactly these tables on {TRUE, FALSE, NULL} and a type error everywhere else. *)
From Coq Require Import NArith ZArith List Bool Lia.
From GV Require Import lib.Bytes model.Sql.
Import ListNotations.
Local Open Scope nat_scope.

(* ------------------------------------------------------------------ a. Kleene's tables *)

Inductive tv := T | F | U.

Definition tv_rank (t : tv) : nat := match t with F => 0 | U => 1 | T => 2 end.
Definition tv_of_rank (n : nat) : tv := match n with 0 => F | 1 => U | _ => T end.

Definition kand (a b : tv) : tv := tv_of_rank (Nat.min (tv_rank a) (tv_rank b)).
Definition kor (a b : tv) : tv := tv_of_rank (Nat.max (tv_rank a) (tv_rank b)).
Definition knot (a : tv) : tv := tv_of_rank (2 - tv_rank a).

Definition tv_of (v : value) : option tv :=
  match v with
  | VBool true => Some T
  | VBool false => Some F
  | VNull => Some U
  | _ => None
  end.
Definition val_of_tv (t : tv) : value :=
  match t with T => VBool true | F => VBool false | U => VNull end.

(* boolean-or-NULL *)
Definition is_b3 (v : value) : bool := match v with VNull | VBool _ => true | _ => false end.

Lemma tv_of_val_of_tv t : tv_of (val_of_tv t) = Some t.
Proof. destruct t; reflexivity. Qed.

Lemma is_b3_tv_of v : is_b3 v = true <-> exists t, tv_of v = Some t /\ v = val_of_tv t.
Proof.
  split.
  - destruct v as [|[|]|z|s]; intros H; try discriminate H;
      [exists U|exists T|exists F]; split; reflexivity.
  - intros [t [_ Hv]]. subst v. destruct t; reflexivity.
Qed.

Lemma is_b3_false_tv_of v : is_b3 v = false <-> tv_of v = None.
Proof. destruct v as [|[|]|z|s]; cbn; split; intros H; try discriminate H; reflexivity. Qed.

Theorem and3_is_kleene : forall a b,
  and3 a b = match tv_of a, tv_of b with
             | Some x, Some y => Ok (val_of_tv (kand x y))
             | _, _ => Err EType
             end.
Proof. intros [|[|]|z|s] [|[|]|z'|s']; reflexivity. Qed.

Theorem or3_is_kleene : forall a b,
  or3 a b = match tv_of a, tv_of b with
            | Some x, Some y => Ok (val_of_tv (kor x y))
            | _, _ => Err EType
            end.
Proof. intros [|[|]|z|s] [|[|]|z'|s']; reflexivity. Qed.

Theorem not3_is_kleene : forall a,
  not3 a = match tv_of a with
           | Some x => Ok (val_of_tv (knot x))
           | None => Err EType
           end.
Proof. intros [|[|]|z|s]; reflexivity. Qed.

(* the only failure is a type error, and it happens exactly when an operand is not boolean-or-NULL *)
Theorem and3_err_iff : forall a b e,
  and3 a b = Err e <-> e = EType /\ (is_b3 a = false \/ is_b3 b = false).
Proof.
  intros [|[|]|z|s] [|[|]|z'|s'] e; cbn;
    (split;
     [ intros H; first [discriminate H | inversion H; subst; split; [reflexivity|auto]]
     | intros [He Hd]; subst e; first [reflexivity | destruct Hd as [Hd|Hd]; discriminate Hd] ]).
Qed.

Theorem or3_err_iff : forall a b e,
  or3 a b = Err e <-> e = EType /\ (is_b3 a = false \/ is_b3 b = false).
Proof.
  intros [|[|]|z|s] [|[|]|z'|s'] e; cbn;
    (split;
     [ intros H; first [discriminate H | inversion H; subst; split; [reflexivity|auto]]
     | intros [He Hd]; subst e; first [reflexivity | destruct Hd as [Hd|Hd]; discriminate Hd] ]).
Qed.

Theorem not3_err_iff : forall a e, not3 a = Err e <-> e = EType /\ is_b3 a = false.
Proof.
  intros [|[|]|z|s] e; cbn;
    (split;
     [ intros H; first [discriminate H | inversion H; subst; split; reflexivity]
     | intros [He Hd]; subst e; first [reflexivity | discriminate Hd] ]).
Qed.

(* results stay inside {TRUE, FALSE, NULL} *)
Lemma and3_b3 a b v : and3 a b = Ok v -> is_b3 v = true.
Proof. destruct a as [|[|]|z|s], b as [|[|]|z'|s']; cbn; intros H; inversion H; reflexivity. Qed.
Lemma or3_b3 a b v : or3 a b = Ok v -> is_b3 v = true.
Proof. destruct a as [|[|]|z|s], b as [|[|]|z'|s']; cbn; intros H; inversion H; reflexivity. Qed.
Lemma not3_b3 a v : not3 a = Ok v -> is_b3 v = true.
Proof. destruct a as [|[|]|z|s]; cbn; intros H; inversion H; reflexivity. Qed.
Lemma cmp3_b3 op a b v : cmp3 op a b = Ok v -> is_b3 v = true.
Proof.
  destruct a as [|x|x|x], b as [|y|y|y]; cbn; intros H; inversion H; reflexivity.
Qed.

(* ------------------------------------------------------------------ b. algebraic laws
   Stated in the res monad for ALL values: with a non-boolean operand both sides are Err EType
   (every operand occurs on both sides and EType is the only failure). *)

Ltac all_values :=
  repeat match goal with v : value |- _ => destruct v as [|[|]|?|?] end; reflexivity.

Theorem and3_comm : forall a b, and3 a b = and3 b a.
Proof. intros a b. all_values. Qed.
Theorem or3_comm : forall a b, or3 a b = or3 b a.
Proof. intros a b. all_values. Qed.

Theorem and3_assoc : forall a b c,
  (do x <- and3 a b; and3 x c) = (do y <- and3 b c; and3 a y).
Proof. intros a b c. all_values. Qed.
Theorem or3_assoc : forall a b c,
  (do x <- or3 a b; or3 x c) = (do y <- or3 b c; or3 a y).
Proof. intros a b c. all_values. Qed.

Theorem de_morgan_and : forall a b,
  (do x <- and3 a b; not3 x) = (do x <- not3 a; do y <- not3 b; or3 x y).
Proof. intros a b. all_values. Qed.
Theorem de_morgan_or : forall a b,
  (do x <- or3 a b; not3 x) = (do x <- not3 a; do y <- not3 b; and3 x y).
Proof. intros a b. all_values. Qed.

(* a OR (b AND c) = (a OR b) AND (a OR c) *)
Theorem or3_distr_and : forall a b c,
  (do x <- and3 b c; or3 a x) = (do x <- or3 a b; do y <- or3 a c; and3 x y).
Proof. intros a b c. all_values. Qed.
(* a AND (b OR c) = (a AND b) OR (a AND c): the optimizer's distributive-OR rewrite *)
Theorem and3_distr_or : forall a b c,
  (do x <- or3 b c; and3 a x) = (do x <- and3 a b; do y <- and3 a c; or3 x y).
Proof. intros a b c. all_values. Qed.

(* dominant and neutral elements; these need the other operand to be boolean-or-NULL *)
Theorem and3_false_l : forall x, is_b3 x = true -> and3 (VBool false) x = Ok (VBool false).
Proof. intros [|[|]|z|s] H; try discriminate H; reflexivity. Qed.
Theorem and3_false_r : forall x, is_b3 x = true -> and3 x (VBool false) = Ok (VBool false).
Proof. intros [|[|]|z|s] H; try discriminate H; reflexivity. Qed.
Theorem or3_true_l : forall x, is_b3 x = true -> or3 (VBool true) x = Ok (VBool true).
Proof. intros [|[|]|z|s] H; try discriminate H; reflexivity. Qed.
Theorem or3_true_r : forall x, is_b3 x = true -> or3 x (VBool true) = Ok (VBool true).
Proof. intros [|[|]|z|s] H; try discriminate H; reflexivity. Qed.
Theorem and3_false_dominates : forall x, is_b3 x = true ->
  and3 (VBool false) x = Ok (VBool false) /\ and3 x (VBool false) = Ok (VBool false).
Proof. intros x H. split; [exact (and3_false_l x H)|exact (and3_false_r x H)]. Qed.
Theorem or3_true_dominates : forall x, is_b3 x = true ->
  or3 (VBool true) x = Ok (VBool true) /\ or3 x (VBool true) = Ok (VBool true).
Proof. intros x H. split; [exact (or3_true_l x H)|exact (or3_true_r x H)]. Qed.
Theorem and3_true_l : forall x, is_b3 x = true -> and3 (VBool true) x = Ok x.
Proof. intros [|[|]|z|s] H; try discriminate H; reflexivity. Qed.
Theorem or3_false_l : forall x, is_b3 x = true -> or3 (VBool false) x = Ok x.
Proof. intros [|[|]|z|s] H; try discriminate H; reflexivity. Qed.
Theorem and3_idem : forall x, is_b3 x = true -> and3 x x = Ok x.
Proof. intros [|[|]|z|s] H; try discriminate H; reflexivity. Qed.
Theorem or3_idem : forall x, is_b3 x = true -> or3 x x = Ok x.
Proof. intros [|[|]|z|s] H; try discriminate H; reflexivity. Qed.

Theorem not3_involutive : forall x, is_b3 x = true -> (do y <- not3 x; not3 y) = Ok x.
Proof. intros [|[|]|z|s] H; try discriminate H; reflexivity. Qed.
(* without the hypothesis: *)
Theorem not3_not3 : forall x, (do y <- not3 x; not3 y) = if is_b3 x then Ok x else Err EType.
Proof. intros [|[|]|z|s]; reflexivity. Qed.

Example b3_hyp_satisfiable : is_b3 VNull = true /\ is_b3 (VBool true) = true /\ is_b3 (VInt 3) = false.
Proof. repeat split. Qed.

(* NULL AND FALSE = FALSE, NULL AND TRUE = NULL, NULL OR TRUE = TRUE, NOT NULL = NULL, 1 AND TRUE: type error *)
Example ex_null_and_false : and3 VNull (VBool false) = Ok (VBool false).
Proof. vm_compute. reflexivity. Qed.
Example ex_null_and_true : and3 VNull (VBool true) = Ok VNull.
Proof. vm_compute. reflexivity. Qed.
Example ex_null_or_true : or3 VNull (VBool true) = Ok (VBool true).
Proof. vm_compute. reflexivity. Qed.
Example ex_not_null : not3 VNull = Ok VNull.
Proof. vm_compute. reflexivity. Qed.
Example ex_int_and_true : and3 (VInt 1) (VBool true) = Err EType.
Proof. vm_compute. reflexivity. Qed.

(* ------------------------------------------------------------------ monad helpers *)

Lemma mapM_cons {A B} (f : A -> res B) x l :
  mapM f (x :: l) = (do y <- f x; do ys <- mapM f l; Ok (y :: ys)).
Proof. reflexivity. Qed.

Lemma mapM_ok_map {A B} (f : A -> res B) (g : A -> B) l :
  (forall x, In x l -> f x = Ok (g x)) -> mapM f l = Ok (map g l).
Proof.
  induction l as [|x l IH]; intros H; [reflexivity|].
  rewrite mapM_cons, (H x (or_introl eq_refl)), IH; [reflexivity|].
  intros y Hy. apply H. right. exact Hy.
Qed.

Lemma mapM_err_at {A B} (f : A -> res B) (g : A -> B) l1 x l2 e :
  (forall y, In y l1 -> f y = Ok (g y)) -> f x = Err e -> mapM f (l1 ++ x :: l2) = Err e.
Proof.
  induction l1 as [|y l1 IH]; intros H Hx.
  - cbn [app]. rewrite mapM_cons, Hx. reflexivity.
  - cbn [app]. rewrite mapM_cons, (H y (or_introl eq_refl)), IH; [reflexivity| |exact Hx].
    intros z Hz. apply H. right. exact Hz.
Qed.

Lemma mapM_ext_in {A B} (f g : A -> res B) l :
  (forall x, In x l -> f x = g x) -> mapM f l = mapM g l.
Proof.
  induction l as [|x l IH]; intros H; [reflexivity|].
  rewrite !mapM_cons, (H x (or_introl eq_refl)), IH; [reflexivity|].
  intros y Hy. apply H. right. exact Hy.
Qed.

Lemma concat_singletons_filter {A} (p : A -> bool) l :
  concat (map (fun r => if p r then [r] else []) l) = filter p l.
Proof.
  induction l as [|x l IH]; [reflexivity|].
  cbn [map concat filter]. rewrite IH. destruct (p x); reflexivity.
Qed.

(* ------------------------------------------------------------------ c. WHERE *)

Lemma eval_select_where_unfold d en f w sel :
  eval_query d en (QSelect (Some f) (Some w) None None sel false) =
  (do src <- eval_from d en f;
   do kept <- mapM (fun r => do b <- opt_pred (eval_expr d (r :: en)) (Some w);
                             Ok (if b then [r] else [])) src;
   do out <- mapM (fun r => mapM (eval_expr d (r :: en)) sel) (concat kept);
   Ok out).
Proof. reflexivity. Qed.

(* SELECT sel FROM f WHERE w.  `pred r` is the value of the predicate on source row r (TRUE, FALSE
   or NULL), `proj r` the projected row; the projection only has to succeed on the rows that are
   kept.  The answer is the projection of exactly the rows where the predicate is TRUE, in source
   order; FALSE and NULL rows are dropped alike. *)
Theorem where_keeps_true_only :
  forall d en f w sel src (pred : row -> value) (proj : row -> row),
  eval_from d en f = Ok src ->
  (forall r, In r src -> eval_expr d (r :: en) w = Ok (pred r)) ->
  (forall r, In r src -> is_b3 (pred r) = true) ->
  (forall r, In r src -> pred r = VBool true -> mapM (eval_expr d (r :: en)) sel = Ok (proj r)) ->
  eval_query d en (QSelect (Some f) (Some w) None None sel false)
  = Ok (map proj (filter (fun r => is_true (pred r)) src)).
Proof.
  intros d en f w sel src pred proj Hsrc Hpred Hb3 Hproj.
  rewrite eval_select_where_unfold, Hsrc. cbn [bind].
  rewrite (mapM_ok_map _ (fun r => if is_true (pred r) then [r] else []) src).
  - cbn [bind]. rewrite concat_singletons_filter.
    rewrite (mapM_ok_map _ proj); [reflexivity|].
    intros r Hr. apply filter_In in Hr. destruct Hr as [Hin Ht].
    apply Hproj; [exact Hin|].
    destruct (pred r) as [|[|]|z|s]; try discriminate Ht. reflexivity.
  - intros r Hr. unfold opt_pred. rewrite (Hpred r Hr). cbn [bind].
    specialize (Hb3 r Hr). destruct (pred r) as [|[|]|z|s]; try discriminate Hb3; reflexivity.
Qed.

(* the row-wise reading: o is in the answer iff it is the projection of a source row on which the
   predicate evaluates to TRUE *)
Corollary where_row_kept_iff :
  forall d en f w sel src (pred : row -> value) (proj : row -> row),
  eval_from d en f = Ok src ->
  (forall r, In r src -> eval_expr d (r :: en) w = Ok (pred r)) ->
  (forall r, In r src -> is_b3 (pred r) = true) ->
  (forall r, In r src -> pred r = VBool true -> mapM (eval_expr d (r :: en)) sel = Ok (proj r)) ->
  exists out,
    eval_query d en (QSelect (Some f) (Some w) None None sel false) = Ok out /\
    forall o, In o out <->
              exists r, In r src /\ eval_expr d (r :: en) w = Ok (VBool true) /\ o = proj r.
Proof.
  intros d en f w sel src pred proj Hsrc Hpred Hb3 Hproj.
  exists (map proj (filter (fun r => is_true (pred r)) src)).
  split; [apply where_keeps_true_only; assumption|].
  intros o. rewrite in_map_iff. split.
  - intros [r [Ho Hr]]. apply filter_In in Hr. destruct Hr as [Hin Ht].
    exists r. split; [exact Hin|]. split; [|symmetry; exact Ho].
    rewrite (Hpred r Hin). destruct (pred r) as [|[|]|z|s]; try discriminate Ht. reflexivity.
  - intros [r [Hin [Hw Ho]]]. exists r. split; [symmetry; exact Ho|].
    apply filter_In. split; [exact Hin|].
    rewrite (Hpred r Hin) in Hw. inversion Hw as [Hp]. cbv beta. rewrite Hp. reflexivity.
Qed.

(* an error in the predicate on any source row aborts the whole query with that error *)
Theorem where_error_aborts :
  forall d en f w sel s1 r s2 (pred : row -> value) e,
  eval_from d en f = Ok (s1 ++ r :: s2) ->
  (forall r', In r' s1 -> eval_expr d (r' :: en) w = Ok (pred r') /\ is_b3 (pred r') = true) ->
  eval_expr d (r :: en) w = Err e ->
  eval_query d en (QSelect (Some f) (Some w) None None sel false) = Err e.
Proof.
  intros d en f w sel s1 r s2 pred e Hsrc Hpre Herr.
  rewrite eval_select_where_unfold, Hsrc. cbn [bind].
  rewrite (mapM_err_at _ (fun r => if is_true (pred r) then [r] else []) s1 r s2 e).
  - reflexivity.
  - intros r' Hr'. destruct (Hpre r' Hr') as [Hv Hb]. unfold opt_pred. rewrite Hv. cbn [bind].
    destruct (pred r') as [|[|]|z|s]; try discriminate Hb; reflexivity.
  - unfold opt_pred. rewrite Herr. reflexivity.
Qed.

(* a predicate that is neither boolean nor NULL is a type error, not "false" *)
Theorem where_non_boolean_is_type_error :
  forall d en f w sel s1 r s2 (pred : row -> value) v,
  eval_from d en f = Ok (s1 ++ r :: s2) ->
  (forall r', In r' s1 -> eval_expr d (r' :: en) w = Ok (pred r') /\ is_b3 (pred r') = true) ->
  eval_expr d (r :: en) w = Ok v -> is_b3 v = false ->
  eval_query d en (QSelect (Some f) (Some w) None None sel false) = Err EType.
Proof.
  intros d en f w sel s1 r s2 pred v Hsrc Hpre Hv Hnb.
  rewrite eval_select_where_unfold, Hsrc. cbn [bind].
  rewrite (mapM_err_at _ (fun r => if is_true (pred r) then [r] else []) s1 r s2 EType).
  - reflexivity.
  - intros r' Hr'. destruct (Hpre r' Hr') as [Hv' Hb]. unfold opt_pred. rewrite Hv'. cbn [bind].
    destruct (pred r') as [|[|]|z|s]; try discriminate Hb; reflexivity.
  - unfold opt_pred. rewrite Hv. cbn [bind].
    destruct v as [|[|]|z|s]; try discriminate Hnb; reflexivity.
Qed.

Module WhereExample.
  (* t0(a int, p bool) = (1,TRUE) (2,NULL) (3,FALSE) (4,TRUE);  SELECT a FROM t0 WHERE p *)
  Definition d : db := [[ [VInt 1; VBool true]; [VInt 2; VNull]; [VInt 3; VBool false]; [VInt 4; VBool true] ]].
  Definition f := FQuery (QTable 0).
  Definition w := ECol 0 1.
  Definition sel := [ECol 0 0].
  Definition pred (r : row) : value := nth 1 r VNull.
  Definition proj (r : row) : row := [nth 0 r VNull].

  Example hyps_satisfiable :
    exists src, eval_from d [] f = Ok src /\
      (forall r, In r src -> eval_expr d (r :: []) w = Ok (pred r)) /\
      (forall r, In r src -> is_b3 (pred r) = true) /\
      (forall r, In r src -> pred r = VBool true -> mapM (eval_expr d (r :: [])) sel = Ok (proj r)).
  Proof.
    eexists. split; [reflexivity|].
    repeat split; intros r Hr; cbn [In] in Hr;
      repeat (destruct Hr as [Hr|Hr]; [subst r; try reflexivity; intros Hp; try discriminate Hp; reflexivity|]);
      destruct Hr.
  Qed.

  Example answer : eval_query d [] (QSelect (Some f) (Some w) None None sel false) = Ok [[VInt 1]; [VInt 4]].
  Proof. vm_compute. reflexivity. Qed.

  (* SELECT a FROM t0 WHERE 10 / (a - 3) > 0 : the third row raises a division by zero *)
  Definition w_err := ECmp CGt (EArith Div 64 (EConst (VInt 10)) (EArith Sub 64 (ECol 0 0) (EConst (VInt 3))))
                               (EConst (VInt 0)).
  Example error_aborts : eval_query d [] (QSelect (Some f) (Some w_err) None None sel false) = Err EDivZero.
  Proof. vm_compute. reflexivity. Qed.
  Example error_hyps_satisfiable :
    exists s1 r s2 (pred : row -> value),
      eval_from d [] f = Ok (s1 ++ r :: s2) /\
      (forall r', In r' s1 -> eval_expr d (r' :: []) w_err = Ok (pred r') /\ is_b3 (pred r') = true) /\
      eval_expr d (r :: []) w_err = Err EDivZero.
  Proof.
    exists [[VInt 1; VBool true]; [VInt 2; VNull]], [VInt 3; VBool false], [[VInt 4; VBool true]],
           (fun _ => VBool false).
    split; [reflexivity|]. split; [|reflexivity].
    intros r' Hr'. cbn [In] in Hr'. destruct Hr' as [Hr'|[Hr'|Hr']]; [subst r'|subst r'|destruct Hr'];
      split; reflexivity.
  Qed.

  (* SELECT a FROM t0 WHERE a : an integer is not a predicate *)
  Example non_boolean_hyps_satisfiable :
    eval_from d [] f = Ok ([] ++ [VInt 1; VBool true] :: tl (nth 0 d [])) /\
    eval_expr d ([VInt 1; VBool true] :: []) (ECol 0 0) = Ok (VInt 1) /\ is_b3 (VInt 1) = false.
  Proof. repeat split. Qed.
  Example non_boolean_is_type_error :
    eval_query d [] (QSelect (Some f) (Some (ECol 0 0)) None None sel false) = Err EType.
  Proof. vm_compute. reflexivity. Qed.
End WhereExample.

(* ------------------------------------------------------------------ d. IN lists *)

(* x = v1 OR x = v2 OR ... on values, left-nested, starting from FALSE *)
Definition or_chain (x : value) (vs : list value) : res value :=
  fold_left (fun acc v => do a <- acc; do c <- cmp3 CEq x v; or3 a c) vs (Ok (VBool false)).

(* the same as an expression: ((FALSE OR a = e1) OR a = e2) OR ... *)
Definition or_chain_expr (a : expr) (es : list expr) : expr :=
  fold_left (fun acc e => EOr acc (ECmp CEq a e)) es (EConst (VBool false)).

Definition or_step (x : value) (acc : res value) (v : value) : res value :=
  do a <- acc; do c <- cmp3 CEq x v; or3 a c.

Lemma or_fold_err x vs e : fold_left (or_step x) vs (Err e) = Err e.
Proof. induction vs as [|v vs IH]; [reflexivity|exact IH]. Qed.

Definition is_null (v : value) : bool := match v with VNull => true | _ => false end.

(* summary of the comparison results seen so far *)
Definition in_summary (acc : value) (cs : list value) : value :=
  if is_true acc || existsb is_true cs then VBool true
  else if is_null acc || existsb is_null cs then VNull
  else VBool false.

Lemma or_fold_summary x : forall vs acc, is_b3 acc = true ->
  fold_left (or_step x) vs (Ok acc) = (do cs <- mapM (cmp3 CEq x) vs; Ok (in_summary acc cs)).
Proof.
  induction vs as [|v vs IH]; intros acc Hacc.
  - cbn [fold_left mapM bind]. unfold in_summary. cbn [existsb].
    destruct acc as [|[|]|z|s]; try discriminate Hacc; reflexivity.
  - cbn [fold_left]. rewrite mapM_cons. unfold or_step at 2. cbn [bind].
    destruct (cmp3 CEq x v) as [c|e] eqn:Ec.
    + pose proof (cmp3_b3 _ _ _ _ Ec) as Hc. cbn [bind].
      destruct (or3 acc c) as [acc'|e'] eqn:Eo.
      * rewrite (IH acc' (or3_b3 _ _ _ Eo)).
        destruct (mapM (cmp3 CEq x) vs) as [cs|e'']; [|reflexivity]. cbn [bind]. f_equal.
        unfold in_summary. cbn [existsb].
        destruct acc as [|[|]|z|s]; try discriminate Hacc;
          destruct c as [|[|]|z'|s']; try discriminate Hc;
          cbn in Eo; inversion Eo; subst acc'; cbn;
          destruct (existsb is_true cs); destruct (existsb is_null cs); reflexivity.
      * apply or3_err_iff in Eo. destruct Eo as [_ [H|H]]; congruence.
    + cbn [bind]. apply or_fold_err.
Qed.

(* the specification's in_set IS the OR chain, for every probe value and every list (even with
   type errors: both sides are then Err EType) *)
Theorem in_set_is_or_chain : forall x vs, in_set x vs = or_chain x vs.
Proof.
  intros x vs. unfold or_chain. change (fun acc v => do a <- acc; do c <- cmp3 CEq x v; or3 a c)
    with (or_step x).
  rewrite (or_fold_summary x vs (VBool false) eq_refl).
  destruct vs as [|v vs]; [reflexivity|].
  destruct x as [|b|z|s].
  - (* NULL probe: every comparison is NULL *)
    unfold in_set.
    assert (H : forall l, mapM (cmp3 CEq VNull) l = Ok (map (fun _ => VNull) l)).
    { intros l. apply mapM_ok_map. intros y _. reflexivity. }
    rewrite H. cbn [bind]. unfold in_summary. cbn [map existsb is_true is_null orb].
    assert (H2 : forall l, existsb is_true (map (fun _ : value => VNull) l) = false).
    { intros l. induction l as [|y l IHl]; [reflexivity|exact IHl]. }
    rewrite H2. reflexivity.
  - unfold in_set. destruct (mapM (cmp3 CEq (VBool b)) (v :: vs)) as [cs|e]; reflexivity.
  - unfold in_set. destruct (mapM (cmp3 CEq (VInt z)) (v :: vs)) as [cs|e]; reflexivity.
  - unfold in_set. destruct (mapM (cmp3 CEq (VStr s)) (v :: vs)) as [cs|e]; reflexivity.
Qed.

Lemma eval_or_unfold d en a b :
  eval_expr d en (EOr a b) = (do x <- eval_expr d en a; do y <- eval_expr d en b; or3 x y).
Proof. reflexivity. Qed.
Lemma eval_and_unfold d en a b :
  eval_expr d en (EAnd a b) = (do x <- eval_expr d en a; do y <- eval_expr d en b; and3 x y).
Proof. reflexivity. Qed.
Lemma eval_not_unfold d en a :
  eval_expr d en (ENot a) = (do x <- eval_expr d en a; not3 x).
Proof. reflexivity. Qed.
Lemma eval_cmp_unfold d en op a b :
  eval_expr d en (ECmp op a b) = (do x <- eval_expr d en a; do y <- eval_expr d en b; cmp3 op x y).
Proof. reflexivity. Qed.
Lemma eval_inlist_unfold d en neg a es :
  eval_expr d en (EInList neg a es) =
  (do x <- eval_expr d en a; do vs <- mapM (eval_expr d en) es; do r <- in_set x vs;
   if neg then not3 r else Ok r).
Proof. reflexivity. Qed.

Lemma eval_or_chain_expr d en a x : eval_expr d en a = Ok x ->
  forall es vs acc, mapM (eval_expr d en) es = Ok vs ->
  eval_expr d en (fold_left (fun acc e => EOr acc (ECmp CEq a e)) es acc)
  = fold_left (or_step x) vs (eval_expr d en acc).
Proof.
  intros Ha. induction es as [|e es IH]; intros vs acc Hes.
  - inversion Hes. reflexivity.
  - rewrite mapM_cons in Hes.
    destruct (eval_expr d en e) as [v|err] eqn:Ee; [|discriminate Hes]. cbn [bind] in Hes.
    destruct (mapM (eval_expr d en) es) as [vs'|err] eqn:Ees; [|discriminate Hes].
    cbn [bind] in Hes. inversion Hes; subst vs. cbn [fold_left].
    rewrite (IH vs' (EOr acc (ECmp CEq a e)) eq_refl).
    rewrite eval_or_unfold, eval_cmp_unfold, Ha, Ee. reflexivity.
Qed.

(* a IN (e1, ..., en) evaluates like a = e1 OR ... OR a = en whenever the operands themselves
   evaluate (if one of them raises, both forms raise, but possibly different errors because the
   OR chain interleaves evaluation and comparison). *)
Theorem inlist_is_or_chain : forall d en a es x vs,
  eval_expr d en a = Ok x -> mapM (eval_expr d en) es = Ok vs ->
  eval_expr d en (EInList false a es) = eval_expr d en (or_chain_expr a es)
  /\ eval_expr d en (EInList false a es) = or_chain x vs.
Proof.
  intros d en a es x vs Ha Hes.
  assert (H : eval_expr d en (EInList false a es) = or_chain x vs).
  { rewrite eval_inlist_unfold, Ha, Hes. cbn [bind]. rewrite in_set_is_or_chain.
    destruct (or_chain x vs); reflexivity. }
  split; [|exact H]. rewrite H. unfold or_chain_expr.
  rewrite (eval_or_chain_expr d en a x Ha es vs _ Hes). reflexivity.
Qed.

Theorem not_inlist_is_not_or_chain : forall d en a es x vs,
  eval_expr d en a = Ok x -> mapM (eval_expr d en) es = Ok vs ->
  eval_expr d en (EInList true a es) = eval_expr d en (ENot (or_chain_expr a es))
  /\ eval_expr d en (EInList true a es) = (do r <- or_chain x vs; not3 r).
Proof.
  intros d en a es x vs Ha Hes.
  destruct (inlist_is_or_chain d en a es x vs Ha Hes) as [H1 H2].
  rewrite eval_not_unfold, <- H1, H2.
  rewrite eval_inlist_unfold, Ha, Hes. cbn [bind]. rewrite in_set_is_or_chain. split; reflexivity.
Qed.

Module InListExample.
  Definition a := EConst (VInt 1).
  Definition es := [EConst (VInt 2); EConst VNull].
  Example hyps_satisfiable :
    eval_expr [] [] a = Ok (VInt 1) /\ mapM (eval_expr [] []) es = Ok [VInt 2; VNull].
  Proof. split; reflexivity. Qed.
  (* 1 IN (2, NULL) = NULL;  1 NOT IN (2, NULL) = NULL;  1 IN (2, NULL, 1) = TRUE; 1 IN () = FALSE *)
  Example in_null : eval_expr [] [] (EInList false a es) = Ok VNull.
  Proof. vm_compute. reflexivity. Qed.
  Example not_in_null : eval_expr [] [] (EInList true a es) = Ok VNull.
  Proof. vm_compute. reflexivity. Qed.
  Example in_hit : eval_expr [] [] (EInList false a (es ++ [EConst (VInt 1)])) = Ok (VBool true).
  Proof. vm_compute. reflexivity. Qed.
  Example in_empty : eval_expr [] [] (EInList false (EConst VNull) []) = Ok (VBool false).
  Proof. vm_compute. reflexivity. Qed.
  Example chain_form : eval_expr [] [] (or_chain_expr a es) = Ok VNull.
  Proof. vm_compute. reflexivity. Qed.
End InListExample.

(* the optimizer's distributive rewrite  (a AND b) OR (a AND c)  ==>  a AND (b OR c)  *)
Theorem distributive_or_rewrite_sound : forall d en a b c x y z,
  eval_expr d en a = Ok x -> eval_expr d en b = Ok y -> eval_expr d en c = Ok z ->
  eval_expr d en (EOr (EAnd a b) (EAnd a c)) = eval_expr d en (EAnd a (EOr b c)).
Proof.
  intros d en a b c x y z Ha Hb Hc.
  rewrite eval_or_unfold, !eval_and_unfold, eval_or_unfold, Ha, Hb, Hc. cbn [bind].
  symmetry. apply and3_distr_or.
Qed.

Example distributive_hyps_satisfiable :
  eval_expr [] [] (EConst VNull) = Ok VNull /\ eval_expr [] [] (EConst (VBool false)) = Ok (VBool false)
  /\ eval_expr [] [] (EConst (VBool true)) = Ok (VBool true).
Proof. repeat split. Qed.
(* (NULL AND FALSE) OR (NULL AND TRUE) = NULL = NULL AND (FALSE OR TRUE) *)
Example distributive_example :
  eval_expr [] [] (EOr (EAnd (EConst VNull) (EConst (VBool false))) (EAnd (EConst VNull) (EConst (VBool true))))
  = Ok VNull.
Proof. vm_compute. reflexivity. Qed.

(* ------------------------------------------------------------------ e. CASE *)

Definition case_go (d : db) (en : env) (els : expr) : list (expr * expr) -> res value :=
  fix go (bs : list (expr * expr)) : res value :=
    match bs with
    | [] => eval_expr d en els
    | (c, t) :: bs' => do cv <- eval_expr d en c; if is_true cv then eval_expr d en t else go bs'
    end.

Lemma eval_case_unfold d en bs els : eval_expr d en (ECase bs els) = case_go d en els bs.
Proof. reflexivity. Qed.

(* a WHEN that evaluates (to anything but TRUE) is skipped *)
Definition when_not_true (d : db) (en : env) (ct : expr * expr) : Prop :=
  exists v, eval_expr d en (fst ct) = Ok v /\ is_true v = false.

Lemma case_go_skip d en els pre : Forall (when_not_true d en) pre ->
  forall rest, case_go d en els (pre ++ rest) = case_go d en els rest.
Proof.
  intros H. induction H as [|[c t] pre [v [Hv Hnt]] Hpre IH]; intros rest; [reflexivity|].
  cbn [app case_go]. cbn [fst] in Hv. rewrite Hv. cbn [bind]. rewrite Hnt. apply IH.
Qed.

(* CASE returns the THEN of the first branch whose WHEN is TRUE; the THENs of the skipped branches
   and everything in the later branches (`post`, `els`) is never evaluated, so errors there do not
   matter. *)
Theorem case_first_true_branch : forall d en pre c t post els,
  Forall (when_not_true d en) pre ->
  eval_expr d en c = Ok (VBool true) ->
  eval_expr d en (ECase (pre ++ (c, t) :: post) els) = eval_expr d en t.
Proof.
  intros d en pre c t post els Hpre Hc.
  rewrite eval_case_unfold, (case_go_skip d en els pre Hpre). cbn [case_go]. rewrite Hc. reflexivity.
Qed.

Theorem case_else_branch : forall d en bs els,
  Forall (when_not_true d en) bs ->
  eval_expr d en (ECase bs els) = eval_expr d en els.
Proof.
  intros d en bs els Hbs.
  rewrite eval_case_unfold, <- (app_nil_r bs), (case_go_skip d en els bs Hbs). reflexivity.
Qed.

(* an error in a WHEN that is reached aborts *)
Theorem case_when_error : forall d en pre c t post els e,
  Forall (when_not_true d en) pre ->
  eval_expr d en c = Err e ->
  eval_expr d en (ECase (pre ++ (c, t) :: post) els) = Err e.
Proof.
  intros d en pre c t post els e Hpre Hc.
  rewrite eval_case_unfold, (case_go_skip d en els pre Hpre). cbn [case_go]. rewrite Hc. reflexivity.
Qed.

Module CaseExample.
  Definition boom := EArith Div 64 (EConst (VInt 1)) (EConst (VInt 0)).
  (* CASE WHEN NULL THEN 1/0 WHEN FALSE THEN 1/0 WHEN TRUE THEN 7 WHEN 1/0 THEN 1/0 ELSE 1/0 END = 7 *)
  Definition pre := [(EConst VNull, boom); (EConst (VBool false), boom)].
  Example hyps_satisfiable :
    Forall (when_not_true [] []) pre /\ eval_expr [] [] (EConst (VBool true)) = Ok (VBool true).
  Proof.
    split; [|reflexivity].
    repeat constructor; eexists; split; reflexivity.
  Qed.
  Example later_errors_do_not_matter :
    eval_expr [] [] (ECase (pre ++ (EConst (VBool true), EConst (VInt 7)) :: [(boom, boom)]) boom) = Ok (VInt 7).
  Proof. vm_compute. reflexivity. Qed.
  Example boom_is_an_error : eval_expr [] [] boom = Err EDivZero.
  Proof. vm_compute. reflexivity. Qed.
  Example else_taken : eval_expr [] [] (ECase pre (EConst (VInt 9))) = Ok (VInt 9).
  Proof. vm_compute. reflexivity. Qed.
  Example reached_when_error :
    eval_expr [] [] (ECase (pre ++ (boom, EConst (VInt 1)) :: []) (EConst VNull)) = Err EDivZero.
  Proof. vm_compute. reflexivity. Qed.
End CaseExample.

(* ------------------------------------------------------------------ f. closed expressions *)

(* no column reference and no subquery *)
Fixpoint closed_expr (e : expr) : bool :=
  match e with
  | EConst _ => true
  | ECol _ _ => false
  | ECmp _ a b | EDistinct _ a b | EAnd a b | EOr a b | EArith _ _ a b => closed_expr a && closed_expr b
  | ENot a | EIsNull _ a | ENeg _ a => closed_expr a
  | ECase bs els =>
      forallb (fun ct => match ct with (c, t) => closed_expr c && closed_expr t end) bs && closed_expr els
  | EInList _ a es => closed_expr a && forallb closed_expr es
  | EExists _ _ | EInSub _ _ _ | EScalar _ => false
  end.

(* induction principle for the nested occurrences of expr (queries are leaves here) *)
Section ExprInd.
  Variable P : expr -> Prop.
  Hypothesis HConst : forall v, P (EConst v).
  Hypothesis HCol : forall dp i, P (ECol dp i).
  Hypothesis HCmp : forall op a b, P a -> P b -> P (ECmp op a b).
  Hypothesis HDistinct : forall neg a b, P a -> P b -> P (EDistinct neg a b).
  Hypothesis HAnd : forall a b, P a -> P b -> P (EAnd a b).
  Hypothesis HOr : forall a b, P a -> P b -> P (EOr a b).
  Hypothesis HNot : forall a, P a -> P (ENot a).
  Hypothesis HIsNull : forall neg a, P a -> P (EIsNull neg a).
  Hypothesis HArith : forall op w a b, P a -> P b -> P (EArith op w a b).
  Hypothesis HNeg : forall w a, P a -> P (ENeg w a).
  Hypothesis HCase : forall bs els, Forall (fun ct => P (fst ct) /\ P (snd ct)) bs -> P els -> P (ECase bs els).
  Hypothesis HInList : forall neg a es, P a -> Forall P es -> P (EInList neg a es).
  Hypothesis HExists : forall neg q, P (EExists neg q).
  Hypothesis HInSub : forall neg a q, P a -> P (EInSub neg a q).
  Hypothesis HScalar : forall q, P (EScalar q).

  Fixpoint expr_nested_ind (e : expr) : P e :=
    match e as e0 return P e0 with
    | EConst v => HConst v
    | ECol dp i => HCol dp i
    | ECmp op a b => HCmp op a b (expr_nested_ind a) (expr_nested_ind b)
    | EDistinct neg a b => HDistinct neg a b (expr_nested_ind a) (expr_nested_ind b)
    | EAnd a b => HAnd a b (expr_nested_ind a) (expr_nested_ind b)
    | EOr a b => HOr a b (expr_nested_ind a) (expr_nested_ind b)
    | ENot a => HNot a (expr_nested_ind a)
    | EIsNull neg a => HIsNull neg a (expr_nested_ind a)
    | EArith op w a b => HArith op w a b (expr_nested_ind a) (expr_nested_ind b)
    | ENeg w a => HNeg w a (expr_nested_ind a)
    | ECase bs els =>
        HCase bs els
          ((fix go (l : list (expr * expr)) : Forall (fun ct => P (fst ct) /\ P (snd ct)) l :=
              match l with
              | [] => Forall_nil _
              | ct :: l' =>
                  Forall_cons ct
                    (match ct as p return P (fst p) /\ P (snd p) with
                     | (c, t) => conj (expr_nested_ind c) (expr_nested_ind t)
                     end) (go l')
              end) bs)
          (expr_nested_ind els)
    | EInList neg a es =>
        HInList neg a es (expr_nested_ind a)
          ((fix go (l : list expr) : Forall P l :=
              match l with
              | [] => Forall_nil _
              | x :: l' => Forall_cons x (expr_nested_ind x) (go l')
              end) es)
    | EExists neg q => HExists neg q
    | EInSub neg a q => HInSub neg a q (expr_nested_ind a)
    | EScalar q => HScalar q
    end.
End ExprInd.

Lemma eval_distinct_unfold d en neg a b :
  eval_expr d en (EDistinct neg a b) =
  (do x <- eval_expr d en a; do y <- eval_expr d en b;
   Ok (VBool (if neg then val_same x y else negb (val_same x y)))).
Proof. reflexivity. Qed.
Lemma eval_isnull_unfold d en neg a :
  eval_expr d en (EIsNull neg a) =
  (do x <- eval_expr d en a; Ok (VBool (match x with VNull => negb neg | _ => neg end))).
Proof. reflexivity. Qed.
Lemma eval_arith_unfold d en op w a b :
  eval_expr d en (EArith op w a b) = (do x <- eval_expr d en a; do y <- eval_expr d en b; arith op w x y).
Proof. reflexivity. Qed.
Lemma eval_neg_unfold d en w a :
  eval_expr d en (ENeg w a) =
  (do x <- eval_expr d en a; arith Sub w (match x with VNull => VNull | _ => VInt 0 end) x).
Proof. reflexivity. Qed.

(* The value (or error) of a closed expression is the same in every database and every row
   environment: constant folding may evaluate it once, anywhere. *)
Theorem closed_expr_eval_indep : forall e, closed_expr e = true ->
  forall d en d' en', eval_expr d en e = eval_expr d' en' e.
Proof.
  intros e. induction e using expr_nested_ind; intros Hc d en d' en'; cbn [closed_expr] in Hc;
    try discriminate Hc; try reflexivity.
  - apply andb_prop in Hc. destruct Hc as [Ha Hb].
    rewrite !eval_cmp_unfold, (IHe1 Ha d en d' en'), (IHe2 Hb d en d' en'). reflexivity.
  - apply andb_prop in Hc. destruct Hc as [Ha Hb].
    rewrite !eval_distinct_unfold, (IHe1 Ha d en d' en'), (IHe2 Hb d en d' en'). reflexivity.
  - apply andb_prop in Hc. destruct Hc as [Ha Hb].
    rewrite !eval_and_unfold, (IHe1 Ha d en d' en'), (IHe2 Hb d en d' en'). reflexivity.
  - apply andb_prop in Hc. destruct Hc as [Ha Hb].
    rewrite !eval_or_unfold, (IHe1 Ha d en d' en'), (IHe2 Hb d en d' en'). reflexivity.
  - rewrite !eval_not_unfold, (IHe Hc d en d' en'). reflexivity.
  - rewrite !eval_isnull_unfold, (IHe Hc d en d' en'). reflexivity.
  - apply andb_prop in Hc. destruct Hc as [Ha Hb].
    rewrite !eval_arith_unfold, (IHe1 Ha d en d' en'), (IHe2 Hb d en d' en'). reflexivity.
  - rewrite !eval_neg_unfold, (IHe Hc d en d' en'). reflexivity.
  - (* CASE *)
    apply andb_prop in Hc. destruct Hc as [Hbs Hels].
    rewrite !eval_case_unfold.
    match goal with HF : Forall _ bs |- _ => rename HF into HF0 end.
    induction HF0 as [|[c t] bs [Pc Pt] HF IHbs]; cbn [case_go].
    + apply (IHe Hels).
    + cbn [forallb] in Hbs. apply andb_prop in Hbs. destruct Hbs as [Hct Hbs].
      apply andb_prop in Hct. destruct Hct as [Hcc Hct]. cbn [fst snd] in Pc, Pt.
      rewrite (Pc Hcc d en d' en'), (Pt Hct d en d' en'), (IHbs Hbs). reflexivity.
  - (* IN list *)
    apply andb_prop in Hc. destruct Hc as [Ha Hes].
    rewrite !eval_inlist_unfold, (IHe Ha d en d' en').
    match goal with HF : Forall _ es |- _ => rename HF into HF0 end.
    assert (Hm : mapM (eval_expr d en) es = mapM (eval_expr d' en') es).
    { induction HF0 as [|x es Px HF IHes]; [reflexivity|].
      cbn [forallb] in Hes. apply andb_prop in Hes. destruct Hes as [Hx Hes].
      rewrite !mapM_cons, (Px Hx d en d' en'), (IHes Hes). reflexivity. }
    rewrite Hm. reflexivity.
Qed.

Module ClosedExample.
  (* CASE WHEN 2 + 3 > 4 AND NULL IS NULL THEN 10 IN (1, 10) ELSE NOT TRUE END *)
  Definition e :=
    ECase [(EAnd (ECmp CGt (EArith Add 64 (EConst (VInt 2)) (EConst (VInt 3))) (EConst (VInt 4)))
                 (EIsNull false (EConst VNull)),
            EInList false (EConst (VInt 10)) [EConst (VInt 1); EConst (VInt 10)])]
          (ENot (EConst (VBool true))).
  Example hyp_satisfiable : closed_expr e = true.
  Proof. vm_compute. reflexivity. Qed.
  Example value_anywhere : forall d en, eval_expr d en e = Ok (VBool true).
  Proof. intros d en. rewrite (closed_expr_eval_indep e hyp_satisfiable d en [] []). vm_compute. reflexivity. Qed.
  Example column_is_not_closed : closed_expr (EAnd (EConst (VBool true)) (ECol 0 0)) = false.
  Proof. vm_compute. reflexivity. Qed.
End ClosedExample.

Print Assumptions and3_is_kleene.
Print Assumptions or3_is_kleene.
Print Assumptions not3_is_kleene.
Print Assumptions and3_distr_or.
Print Assumptions where_keeps_true_only.
Print Assumptions where_row_kept_iff.
Print Assumptions in_set_is_or_chain.
Print Assumptions inlist_is_or_chain.
Print Assumptions not_inlist_is_not_or_chain.
Print Assumptions case_first_true_branch.
Print Assumptions closed_expr_eval_indep.
