(* Proofs about the proleptic Gregorian calendar model (model/Calendar.v):
   civil_from_days and days_from_civil are mutually inverse on ALL of Z (no range restriction).
   The two facts about a single 400-year era are established by exhaustive evaluation (vm_compute over
   2^18 indices through all_bits); everything else is era arithmetic. *)
From Coq Require Import ZArith Bool Lia ZifyBool.
From GV Require Import model.Calendar.
Open Scope Z_scope.

Ltac Zify.zify_post_hook ::= Z.div_mod_to_equations.

(* ---------- bounded quantification by binary splitting ---------- *)

Lemma all_bits_sound : forall depth acc f, all_bits depth acc f = true ->
  forall k, 0 <= k < 2 ^ Z.of_nat depth -> f (acc * 2 ^ Z.of_nat depth + k) = true.
Proof.
  induction depth as [|n IH]; intros acc f Hall k Hk.
  - cbn [all_bits] in Hall. change (Z.of_nat 0) with 0 in *. rewrite Z.pow_0_r in *.
    assert (Hk0 : k = 0) by lia. subst k.
    replace (acc * 1 + 0) with acc by ring. exact Hall.
  - cbn [all_bits] in Hall. apply andb_true_iff in Hall. destruct Hall as [H1 H2].
    rewrite Nat2Z.inj_succ in *. rewrite Z.pow_succ_r in * by apply Nat2Z.is_nonneg.
    assert (Hp : 0 < 2 ^ Z.of_nat n) by (apply Z.pow_pos_nonneg; [lia | apply Nat2Z.is_nonneg]).
    remember (2 ^ Z.of_nat n) as p eqn:Ep.
    destruct (Z_lt_ge_dec k p) as [Hlt|Hge].
    + replace (acc * (2 * p) + k) with (2 * acc * p + k) by ring.
      apply IH; [exact H1 | lia].
    + replace (acc * (2 * p) + k) with ((2 * acc + 1) * p + (k - p)) by ring.
      apply IH; [exact H2 | lia].
Qed.

(* ---------- the two exhaustive era facts ---------- *)

Lemma era_split_all : all_bits 18 0 era_check_split = true.
Proof. vm_compute. reflexivity. Qed.

Lemma era_join_all : all_bits 18 0 era_check_join = true.
Proof. vm_compute. reflexivity. Qed.

Lemma pow2_18 : 2 ^ Z.of_nat 18 = 262144.
Proof. reflexivity. Qed.

Lemma era_split_ok : forall doe, 0 <= doe < 146097 -> era_check_split doe = true.
Proof.
  intros doe Hd.
  pose proof (all_bits_sound 18 0 era_check_split era_split_all doe) as HH.
  rewrite pow2_18 in HH. rewrite Z.mul_0_l, Z.add_0_l in HH. apply HH. lia.
Qed.

Lemma era_join_ok : forall i, 0 <= i < 262144 -> era_check_join i = true.
Proof.
  intros i Hi.
  pose proof (all_bits_sound 18 0 era_check_join era_join_all i) as HH.
  rewrite pow2_18 in HH. rewrite Z.mul_0_l, Z.add_0_l in HH. apply HH. lia.
Qed.

(* ---------- small helpers ---------- *)

(* destruct comparisons in the goal one at a time, pruning contradictory branches *)
Ltac case_cmp :=
  repeat (match goal with
          | |- context [?a <=? ?b] => destruct (Z.leb_spec a b)
          | |- context [?a <? ?b] => destruct (Z.ltb_spec a b)
          | |- context [?a =? ?b] => destruct (Z.eqb_spec a b)
          end; try lia).

Lemma is_leap_congr : forall a b, (a - b) mod 400 = 0 -> is_leap a = is_leap b.
Proof.
  intros a b Hab. unfold is_leap.
  assert (E4 : a mod 4 = b mod 4) by lia.
  assert (E100 : a mod 100 = b mod 100) by lia.
  assert (E400 : a mod 400 = b mod 400) by lia.
  rewrite E4, E100, E400. reflexivity.
Qed.

Lemma is_leap_add400 : forall a k, is_leap (a + 400 * k) = is_leap a.
Proof. intros a k. apply is_leap_congr. lia. Qed.

Lemma mp_len_bound : forall yoe mp, 28 <= mp_len yoe mp <= 31.
Proof.
  intros yoe mp. unfold mp_len.
  destruct (mp =? 11); [destruct (is_leap (yoe + 1)); lia|].
  destruct ((mp =? 1) || (mp =? 3) || (mp =? 6) || (mp =? 8)); lia.
Qed.

Lemma split_facts : forall doe, 0 <= doe < 146097 ->
  forall yoe mp d, split_doe doe = (yoe, mp, d) ->
  0 <= yoe < 400 /\ 0 <= mp < 12 /\ 1 <= d <= mp_len yoe mp /\ doe_of yoe mp d = doe.
Proof.
  intros doe Hd yoe mp d Hs.
  pose proof (era_split_ok doe Hd) as H. unfold era_check_split in H.
  rewrite Hs in H.
  destruct (Z.ltb_spec doe 146097) as [_|Hge]; [|lia].
  repeat rewrite andb_true_iff in H.
  destruct H as [[[[[[H1 H2] H3] H4] H5] H6] H7].
  apply Z.leb_le in H1. apply Z.ltb_lt in H2. apply Z.leb_le in H3. apply Z.ltb_lt in H4.
  apply Z.leb_le in H5. apply Z.leb_le in H6. apply Z.eqb_eq in H7.
  repeat split; assumption.
Qed.

Lemma join_facts : forall yoe mp d, 0 <= yoe < 400 -> 0 <= mp < 12 -> 1 <= d <= mp_len yoe mp ->
  0 <= doe_of yoe mp d < 146097 /\ split_doe (doe_of yoe mp d) = (yoe, mp, d).
Proof.
  intros yoe mp d Hy Hm Hd.
  pose proof (mp_len_bound yoe mp) as Hlen.
  remember ((yoe * 12 + mp) * 32 + d) as i eqn:Ei.
  assert (Hi : 0 <= i < 262144) by lia.
  assert (E1 : i mod 32 = d) by lia.
  assert (E2 : (i / 32) mod 12 = mp) by lia.
  assert (E3 : i / 384 = yoe) by lia.
  pose proof (era_join_ok i Hi) as H. unfold era_check_join in H. cbv zeta in H.
  rewrite E1, E2, E3 in H.
  assert (Hc : (yoe <? 400) && (1 <=? d) && (d <=? mp_len yoe mp) = true).
  { repeat rewrite andb_true_iff. repeat split;
      [apply Z.ltb_lt | apply Z.leb_le | apply Z.leb_le]; lia. }
  rewrite Hc in H.
  destruct (split_doe (doe_of yoe mp d)) as [[a b] c].
  repeat rewrite andb_true_iff in H.
  destruct H as [[H1 H2] [[H3 H4] H5]].
  apply Z.leb_le in H1. apply Z.ltb_lt in H2.
  apply Z.eqb_eq in H3. apply Z.eqb_eq in H4. apply Z.eqb_eq in H5.
  subst a b c. split; [lia | reflexivity].
Qed.

(* ---------- era arithmetic ---------- *)

Lemma dfc_eq : forall y m d era yoe mp,
  (if m <=? 2 then y - 1 else y) = yoe + era * 400 -> 0 <= yoe < 400 ->
  (if 2 <? m then m - 3 else m + 9) = mp ->
  days_from_civil y m d = era * 146097 + doe_of yoe mp d - 719468.
Proof.
  intros y m d era yoe mp Hy' Hyoe Hmp.
  unfold days_from_civil. cbv zeta. rewrite Hy', Hmp.
  assert (E1 : (yoe + era * 400) / 400 = era) by lia.
  assert (E2 : (yoe + era * 400) mod 400 = yoe) by lia.
  rewrite E1, E2. reflexivity.
Qed.

Lemma parts_facts : forall era yoe mp d m y,
  0 <= yoe < 400 -> 0 <= mp < 12 ->
  m = (if mp <? 10 then mp + 3 else mp - 9) ->
  y = yoe + era * 400 + (if m <=? 2 then 1 else 0) ->
  days_from_civil y m d = era * 146097 + doe_of yoe mp d - 719468
  /\ days_in_month y m = mp_len yoe mp
  /\ 1 <= m <= 12.
Proof.
  intros era yoe mp d m y Hyoe Hmp Em Ey.
  assert (Hm : 1 <= m <= 12) by (subst m; case_cmp).
  assert (Hmp' : (if 2 <? m then m - 3 else m + 9) = mp) by (subst m; case_cmp).
  split; [|split].
  - apply dfc_eq; [| exact Hyoe | exact Hmp'].
    subst y. case_cmp.
  - clear Hmp'. subst y. subst m. unfold days_in_month, mp_len.
    case_cmp;
    match goal with
    | |- (if is_leap ?a then _ else _) = (if is_leap ?b then _ else _) =>
        rewrite (is_leap_congr a b) by lia; reflexivity
    end.
  - exact Hm.
Qed.

(* ---------- main theorems ---------- *)

Theorem calendar_roundtrip_days : forall z,
  let '(y, m, d) := civil_from_days z in
  days_from_civil y m d = z /\ valid_ymd y m d = true.
Proof.
  intros z. unfold civil_from_days. cbv zeta.
  assert (Hpos : 0 < 146097) by lia.
  pose proof (Z.mod_pos_bound (z + 719468) 146097 Hpos) as Hdoe.
  pose proof (Z.div_mod (z + 719468) 146097 ltac:(lia)) as Hdm.
  remember ((z + 719468) / 146097) as era eqn:Eera.
  remember ((z + 719468) mod 146097) as doe eqn:Edoe.
  destruct (split_doe doe) as [[yoe mp] d] eqn:Hs.
  destruct (split_facts doe Hdoe yoe mp d Hs) as (Hyoe & Hmp & Hd & Hdoe_eq).
  remember (if mp <? 10 then mp + 3 else mp - 9) as m eqn:Em.
  remember (yoe + era * 400 + (if m <=? 2 then 1 else 0)) as y eqn:Ey.
  destruct (parts_facts era yoe mp d m y Hyoe Hmp Em Ey) as (H1 & H2 & H3).
  split.
  - rewrite H1, Hdoe_eq. clear - Hdm. lia.
  - unfold valid_ymd. rewrite H2.
    repeat rewrite andb_true_iff. repeat split; apply Z.leb_le; lia.
Qed.

Theorem calendar_roundtrip_ymd : forall y m d,
  valid_ymd y m d = true -> civil_from_days (days_from_civil y m d) = (y, m, d).
Proof.
  intros y m d Hv. unfold valid_ymd in Hv.
  repeat rewrite andb_true_iff in Hv.
  destruct Hv as [[[Hm1 Hm2] Hd1] Hd2].
  apply Z.leb_le in Hm1. apply Z.leb_le in Hm2. apply Z.leb_le in Hd1. apply Z.leb_le in Hd2.
  remember (if m <=? 2 then y - 1 else y) as y' eqn:Ey'.
  remember (y' / 400) as era eqn:Eera.
  remember (y' mod 400) as yoe eqn:Eyoe.
  remember (if 2 <? m then m - 3 else m + 9) as mp eqn:Emp.
  assert (Hyoe : 0 <= yoe < 400) by lia.
  assert (Hmp : 0 <= mp < 12) by (subst mp; case_cmp).
  assert (Em : m = (if mp <? 10 then mp + 3 else mp - 9)) by (subst mp; case_cmp).
  assert (Hy'' : y' = yoe + era * 400) by lia.
  assert (Ey : y = yoe + era * 400 + (if m <=? 2 then 1 else 0)).
  { rewrite <- Hy''. rewrite Ey'. clear. case_cmp. }
  destruct (parts_facts era yoe mp d m y Hyoe Hmp Em Ey) as (H1 & H2 & H3).
  rewrite H2 in Hd2.
  destruct (join_facts yoe mp d Hyoe Hmp (conj Hd1 Hd2)) as (Hdoe & Hsplit).
  rewrite H1. unfold civil_from_days. cbv zeta.
  remember (doe_of yoe mp d) as doe eqn:Edoe.
  assert (E1 : (era * 146097 + doe - 719468 + 719468) / 146097 = era) by (clear - Hdoe; lia).
  assert (E2 : (era * 146097 + doe - 719468 + 719468) mod 146097 = doe) by (clear - Hdoe; lia).
  rewrite E1, E2, Hsplit.
  rewrite <- Em. rewrite <- Ey. reflexivity.
Qed.

(* ---------- corollaries ---------- *)

Corollary civil_from_days_valid : forall z y m d,
  civil_from_days z = (y, m, d) -> valid_ymd y m d = true /\ days_from_civil y m d = z.
Proof.
  intros z y m d H. pose proof (calendar_roundtrip_days z) as R. rewrite H in R.
  destruct R as [R1 R2]. split; assumption.
Qed.

Corollary days_from_civil_inj : forall y1 m1 d1 y2 m2 d2,
  valid_ymd y1 m1 d1 = true -> valid_ymd y2 m2 d2 = true ->
  days_from_civil y1 m1 d1 = days_from_civil y2 m2 d2 ->
  (y1, m1, d1) = (y2, m2, d2).
Proof.
  intros y1 m1 d1 y2 m2 d2 H1 H2 E.
  rewrite <- (calendar_roundtrip_ymd y1 m1 d1 H1), <- (calendar_roundtrip_ymd y2 m2 d2 H2).
  rewrite E. reflexivity.
Qed.

Corollary civil_from_days_inj : forall z1 z2, civil_from_days z1 = civil_from_days z2 -> z1 = z2.
Proof.
  intros z1 z2 E.
  destruct (civil_from_days z2) as [[y m] d] eqn:E2.
  destruct (civil_from_days_valid z1 y m d E) as [_ R1].
  destruct (civil_from_days_valid z2 y m d E2) as [_ R2].
  congruence.
Qed.

(* hypotheses are satisfiable; epoch sanity *)
Example valid_ymd_sat : valid_ymd 1970 1 1 = true.
Proof. reflexivity. Qed.
Example epoch_day : civil_from_days 0 = (1970, 1, 1) /\ days_from_civil 1970 1 1 = 0.
Proof. split; reflexivity. Qed.
Example leap_day_2000 : civil_from_days 11016 = (2000, 2, 29) /\ valid_ymd 1900 2 29 = false.
Proof. split; reflexivity. Qed.
Example negative_era : civil_from_days (-719529) = (-1, 12, 31) /\ days_from_civil 0 1 1 = -719528.
Proof. split; reflexivity. Qed.

Print Assumptions calendar_roundtrip_days.
Print Assumptions calendar_roundtrip_ymd.
