(* Resumability of the DELTA_BINARY_PACKED value decoder (model/PqDelta.v):
   one read of n1 + n2 values = a read of n1 followed by a read of n2, for EVERY decoder state. *)
From Coq Require Import NArith ZArith List Bool Lia ZifyBool ZifyNat ZifyN.
From GV Require Import model.PqBits model.PqDelta proofs.PqBitsProofs.
Import ListNotations.
Local Open Scope N_scope.

Definition dbp_avail (s : dbp) : N := (if d_first s then 1 else 0) + d_rem s.

(* ---------- generic helpers ---------- *)
Lemma bind_assoc {A B C} (o : outcome A) (f : A -> outcome B) (g : B -> outcome C) :
  bind (bind o f) g = bind o (fun a => bind (f a) g).
Proof. destruct o; reflexivity. Qed.

Lemma take_bytes_count : forall k b bs r, take_bytes k b = Ok (bs, r) -> length bs = k.
Proof.
  induction k as [|k IH]; intros b bs r H.
  - cbn [take_bytes] in H. injection H as Hb _. subst bs. reflexivity.
  - cbn [take_bytes] in H. destruct b as [|x b]; [discriminate H|].
    destruct (take_bytes k b) as [[bs' r']| | |] eqn:E; cbn [bind] in H; try discriminate H.
    injection H as Hb _. subst bs. apply IH in E. cbn [length]. rewrite E. reflexivity.
Qed.

Lemma unpack_n_count tw w : forall n buf pos vs b p,
  unpack_n tw w n buf pos = Ok (vs, b, p) -> length vs = n.
Proof.
  induction n as [|n IH]; intros buf pos vs b p H.
  - cbn [unpack_n] in H. injection H as Hv _ _. subst vs. reflexivity.
  - rewrite unpack_n_S in H.
    apply bind_ok in H. destruct H as [[[v b1] p1] [E H]].
    apply bind_ok in H. destruct H as [[[vs2 b2] p2] [E2 H]].
    injection H as Hv _ _. subst vs. apply IH in E2. cbn [length]. rewrite E2. reflexivity.
Qed.

Lemma bit_unpack_count tw w n buf pos vs b p :
  bit_unpack tw w n buf pos = Ok (vs, b, p) -> length vs = n.
Proof.
  intros H. unfold bit_unpack in H.
  destruct (64 <? w); [discriminate H|].
  destruct (w =? 0).
  - injection H as Hv _ _. subst vs. apply repeat_length.
  - eapply unpack_n_count; exact H.
Qed.

(* ---------- (a) prefix sums ---------- *)
Lemma dbp_accum_app bits mn : forall a prev b,
  dbp_accum bits mn prev (a ++ b) =
  (let (va, la) := dbp_accum bits mn prev a in
   let (vb, lb) := dbp_accum bits mn la b in (va ++ vb, lb)).
Proof.
  induction a as [|d a IH]; intros prev b.
  - cbn [app dbp_accum]. destruct (dbp_accum bits mn prev b); reflexivity.
  - cbn [app dbp_accum]. cbv zeta. rewrite IH.
    destruct (dbp_accum bits mn ((d + mn + prev) mod 2 ^ bits) a) as [va la].
    destruct (dbp_accum bits mn la b) as [vb lb]. reflexivity.
Qed.

Lemma dbp_accum_length bits mn : forall ds prev,
  length (fst (dbp_accum bits mn prev ds)) = length ds.
Proof.
  induction ds as [|d ds IH]; intros prev.
  - reflexivity.
  - cbn [dbp_accum]. cbv zeta.
    specialize (IH ((d + mn + prev) mod 2 ^ bits)).
    destruct (dbp_accum bits mn ((d + mn + prev) mod 2 ^ bits) ds) as [vs l].
    cbn [fst length] in *. rewrite IH. reflexivity.
Qed.

(* ---------- (b) load_next_block ---------- *)
Lemma nth_panic_0_nonempty ws w : nth_panic ws 0 = Ok w -> (0 < length ws)%nat.
Proof.
  unfold nth_panic. change (N.to_nat 0) with O.
  destruct ws as [|x ws]; cbn [nth_error length]; intros H; [discriminate H|lia].
Qed.

Lemma dbp_load_ok bits s s1 : dbp_load bits s = Ok s1 ->
  d_rem s1 = d_rem s /\ d_per s1 = d_per s /\ d_first s1 = d_first s /\
  d_total s1 = d_total s /\ d_mbc s1 = d_mbc s /\
  d_mb_val s1 = 0 /\ d_mb_idx s1 = 0 /\ 0 < d_mbc s1.
Proof.
  intros H. unfold dbp_load in H.
  apply bind_ok in H. destruct H as [[z buf1] [E1 H]].
  apply bind_ok in H. destruct H as [mn [E2 H]].
  apply bind_ok in H. destruct H as [[ws buf2] [E3 H]].
  apply bind_ok in H. destruct H as [w0 [E4 H]].
  injection H as Hs. subst s1. cbn [d_rem d_per d_first d_total d_mbc d_mb_val d_mb_idx].
  apply take_bytes_count in E3. apply nth_panic_0_nonempty in E4.
  split; [reflexivity|]. split; [reflexivity|]. split; [reflexivity|].
  split; [reflexivity|]. split; [reflexivity|]. split; [reflexivity|]. split; [reflexivity|].
  clear - E3 E4. lia.
Qed.

(* ---------- one loop iteration, in two parts ---------- *)
(* the part that does not depend on the output capacity: block load + miniblock start *)
Definition dbp_prep (bits : N) (s : dbp) : outcome dbp :=
  s1 <- (if (d_per s <=? d_mb_val s) || (d_mbc s <=? d_mb_idx s) then dbp_load bits s else Ok s) ;;
  (if d_mb_val s1 =? 0 then
     w <- nth_panic (d_widths s1) (d_mb_idx s1) ;;
     Ok (mk_dbp (d_buf s1) (d_mbc s1) (d_total s1) (d_rem s1) (d_widths s1) (d_mb_idx s1)
                (d_mb_val s1) (d_per s1) (d_min s1) (d_prev s1) (d_first s1) 0 w)
   else Ok s1).

(* unpack `count` deltas of the current miniblock *)
Definition dbp_step (bits : N) (count : nat) (s2 : dbp) : outcome (list N * dbp) :=
  '(raw, buf1, pos1) <- bit_unpack bits (d_w s2) count (d_buf s2) (d_pos s2) ;;
  if d_rem s2 <? N.of_nat count then Err else
  let '(vs, last) := dbp_accum bits (d_min s2) (d_prev s2) raw in
  let mv := d_mb_val s2 + N.of_nat count in
  Ok (vs, mk_dbp buf1 (d_mbc s2) (d_total s2) (d_rem s2 - N.of_nat count) (d_widths s2)
                 (if d_per s2 <=? mv then d_mb_idx s2 + 1 else d_mb_idx s2)
                 (if d_per s2 <=? mv then 0 else mv)
                 (d_per s2) (d_min s2) last (d_first s2) pos1 (d_w s2)).

Lemma dbp_go_0 bits f s : dbp_go bits f 0 s = Ok ([], s).
Proof. destruct f; reflexivity. Qed.

Lemma dbp_go_S bits f c s : (d_rem s =? 0) = false ->
  dbp_go bits (S f) (S c) s =
  (s2 <- dbp_prep bits s ;;
   let count := Nat.min (S c) (N.to_nat (d_per s2 - d_mb_val s2)) in
   '(vs, s3) <- dbp_step bits count s2 ;;
   '(rest, s4) <- dbp_go bits f (S c - count) s3 ;; Ok (vs ++ rest, s4)).
Proof.
  intros Hrem. cbn [dbp_go]. rewrite Hrem. unfold dbp_prep.
  rewrite bind_assoc.
  match goal with |- bind ?o _ = _ => destruct o as [s1| | |]; cbn [bind]; try reflexivity end.
  match goal with |- bind ?o _ = _ => destruct o as [s2| | |]; cbn [bind]; try reflexivity end.
  cbv zeta. unfold dbp_step.
  set (count := Nat.min (S c) (N.to_nat (d_per s2 - d_mb_val s2))).
  destruct (bit_unpack bits (d_w s2) count (d_buf s2) (d_pos s2)) as [[[raw b1] p1]| | |];
    cbn [bind]; try reflexivity.
  destruct (d_rem s2 <? N.of_nat count); [reflexivity|].
  destruct (dbp_accum bits (d_min s2) (d_prev s2) raw) as [vs last]. cbn [bind]. reflexivity.
Qed.

Lemma dbp_go_rem0 bits f c s : (d_rem s =? 0) = true -> dbp_go bits f c s = Ok ([], s).
Proof. intros H. destruct f, c; cbn [dbp_go]; try rewrite H; reflexivity. Qed.

(* ---------- facts about the two parts ---------- *)
Lemma dbp_prep_ok bits s s2 : 0 < d_per s -> dbp_prep bits s = Ok s2 ->
  d_rem s2 = d_rem s /\ d_per s2 = d_per s /\ d_first s2 = d_first s /\
  d_mb_val s2 < d_per s2 /\ d_mb_idx s2 < d_mbc s2.
Proof.
  intros Hper H. unfold dbp_prep in H.
  apply bind_ok in H. destruct H as [s1 [E1 H]].
  assert (H1 : d_rem s1 = d_rem s /\ d_per s1 = d_per s /\ d_first s1 = d_first s /\
               d_mb_val s1 < d_per s1 /\ d_mb_idx s1 < d_mbc s1).
  { destruct ((d_per s <=? d_mb_val s) || (d_mbc s <=? d_mb_idx s)) eqn:Ec.
    - apply dbp_load_ok in E1.
      destruct E1 as [L1 [L2 [L3 [_ [_ [L6 [L7 L8]]]]]]].
      split; [exact L1|]. split; [exact L2|]. split; [exact L3|].
      split; [rewrite L6, L2; exact Hper|rewrite L7; exact L8].
    - injection E1 as E1. subst s1.
      split; [reflexivity|]. split; [reflexivity|]. split; [reflexivity|].
      clear - Ec. split; lia. }
  destruct H1 as [A1 [A2 [A3 [A4 A5]]]].
  destruct (d_mb_val s1 =? 0).
  - apply bind_ok in H. destruct H as [w [_ H]]. injection H as H. subst s2.
    cbn [d_rem d_per d_first d_mb_val d_mb_idx d_mbc].
    split; [exact A1|]. split; [exact A2|]. split; [exact A3|]. split; [exact A4|exact A5].
  - injection H as H. subst s2.
    split; [exact A1|]. split; [exact A2|]. split; [exact A3|]. split; [exact A4|exact A5].
Qed.

(* a partially read miniblock: the next iteration neither loads a block nor restarts a miniblock *)
Lemma dbp_prep_stable bits s :
  d_mb_val s < d_per s -> d_mb_idx s < d_mbc s -> d_mb_val s <> 0 -> dbp_prep bits s = Ok s.
Proof.
  intros H1 H2 H3. unfold dbp_prep.
  replace ((d_per s <=? d_mb_val s) || (d_mbc s <=? d_mb_idx s)) with false by (clear - H1 H2; lia).
  cbn [bind].
  replace (d_mb_val s =? 0) with false by (clear - H3; lia).
  reflexivity.
Qed.

Lemma dbp_step_ok bits count s2 vs s3 : dbp_step bits count s2 = Ok (vs, s3) ->
  length vs = count /\ N.of_nat count <= d_rem s2 /\
  d_rem s3 = d_rem s2 - N.of_nat count /\ d_per s3 = d_per s2 /\ d_first s3 = d_first s2.
Proof.
  intros H. unfold dbp_step in H.
  apply bind_ok in H. destruct H as [[[raw b1] p1] [E H]].
  apply bit_unpack_count in E.
  destruct (d_rem s2 <? N.of_nat count) eqn:Er; [discriminate H|].
  pose proof (dbp_accum_length bits (d_min s2) raw (d_prev s2)) as Hl.
  destruct (dbp_accum bits (d_min s2) (d_prev s2) raw) as [vs' last].
  cbn [fst] in Hl. cbv zeta in H. injection H as Hv Hs. subst vs' s3.
  cbn [d_rem d_per d_first].
  split; [rewrite Hl; exact E|]. split; [clear - Er; lia|].
  split; [reflexivity|]. split; reflexivity.
Qed.

(* splitting one unpack inside a miniblock *)
Lemma dbp_step_split bits a c s2 :
  d_mb_val s2 + N.of_nat a < d_per s2 -> N.of_nat (a + c) <= d_rem s2 ->
  dbp_step bits (a + c) s2 =
  ('(v1, sa) <- dbp_step bits a s2 ;; '(v2, sb) <- dbp_step bits c sa ;; Ok (v1 ++ v2, sb)).
Proof.
  intros Hmv Hrem. unfold dbp_step at 1 2.
  rewrite bit_unpack_split. rewrite !bind_assoc.
  destruct (bit_unpack bits (d_w s2) a (d_buf s2) (d_pos s2)) as [[[r1 b1] p1]| | |] eqn:E1;
    cbn [bind]; try reflexivity.
  replace (d_rem s2 <? N.of_nat a) with false by (clear - Hrem; lia).
  replace (d_rem s2 <? N.of_nat (a + c)) with false by (clear - Hrem; lia).
  destruct (dbp_accum bits (d_min s2) (d_prev s2) r1) as [va la] eqn:Ea.
  cbv zeta. cbn [bind]. unfold dbp_step.
  cbn [d_w d_buf d_pos d_rem d_min d_prev d_mb_val d_per d_mbc d_total d_widths d_mb_idx d_first].
  replace (d_per s2 <=? d_mb_val s2 + N.of_nat a) with false by (clear - Hmv; lia).
  rewrite bind_assoc.
  destruct (bit_unpack bits (d_w s2) c b1 p1) as [[[r2 b2] p2]| | |] eqn:E2;
    cbn [bind]; try reflexivity.
  replace (d_rem s2 - N.of_nat a <? N.of_nat c) with false by (clear - Hrem; lia).
  rewrite dbp_accum_app. rewrite Ea.
  destruct (dbp_accum bits (d_min s2) la r2) as [vb lb].
  cbn [bind].
  replace (d_mb_val s2 + N.of_nat a + N.of_nat c) with (d_mb_val s2 + N.of_nat (a + c)) by (clear; lia).
  replace (d_rem s2 - N.of_nat a - N.of_nat c) with (d_rem s2 - N.of_nat (a + c)) by (clear; lia).
  reflexivity.
Qed.

Lemma dbp_step_partial bits a s2 v1 sa :
  d_mb_val s2 + N.of_nat a < d_per s2 -> dbp_step bits a s2 = Ok (v1, sa) ->
  d_mb_val sa = d_mb_val s2 + N.of_nat a /\ d_mb_idx sa = d_mb_idx s2 /\ d_mbc sa = d_mbc s2.
Proof.
  intros Hmv H. unfold dbp_step in H.
  apply bind_ok in H. destruct H as [[[raw b1] p1] [_ H]].
  destruct (d_rem s2 <? N.of_nat a); [discriminate H|].
  destruct (dbp_accum bits (d_min s2) (d_prev s2) raw) as [vs' last].
  cbv zeta in H. injection H as _ Hs. subst sa.
  cbn [d_mb_val d_mb_idx d_mbc].
  replace (d_per s2 <=? d_mb_val s2 + N.of_nat a) with false by (clear - Hmv; lia).
  split; [reflexivity|]. split; reflexivity.
Qed.

(* ---------- (c) shape of a successful loop ---------- *)
Lemma dbp_go_shape bits : forall f cap s vs s',
  0 < d_per s -> N.of_nat cap <= d_rem s -> (cap <= f)%nat ->
  dbp_go bits f cap s = Ok (vs, s') ->
  length vs = cap /\ d_rem s' = d_rem s - N.of_nat cap /\ d_per s' = d_per s /\ d_first s' = d_first s.
Proof.
  induction f as [|f IH]; intros cap s vs s' Hper Hrem Hf H.
  - assert (Hc : cap = O) by (clear - Hf; lia). subst cap.
    rewrite dbp_go_0 in H. injection H as Hv Hs. subst vs s'. cbn [length].
    split; [reflexivity|]. split; [clear; lia|]. split; reflexivity.
  - destruct cap as [|c].
    + rewrite dbp_go_0 in H. injection H as Hv Hs. subst vs s'. cbn [length].
      split; [reflexivity|]. split; [clear; lia|]. split; reflexivity.
    + rewrite dbp_go_S in H by (clear - Hrem; lia).
      apply bind_ok in H. destruct H as [s2 [E2 H]].
      apply dbp_prep_ok in E2; [|exact Hper]. destruct E2 as [P1 [P2 [P3 [P4 P5]]]].
      cbv zeta in H.
      remember (Nat.min (S c) (N.to_nat (d_per s2 - d_mb_val s2))) as count eqn:Ecount.
      assert (Hc : (1 <= count <= S c)%nat) by (clear - Ecount P4; lia).
      clear Ecount.
      apply bind_ok in H. destruct H as [[v1 s3] [E3 H]].
      apply dbp_step_ok in E3. destruct E3 as [S1 [S2 [S3 [S4 S5]]]].
      apply bind_ok in H. destruct H as [[rest s4] [E4 H]].
      injection H as Hv Hs. subst vs s4.
      apply IH in E4.
      * destruct E4 as [G1 [G2 [G3 G4]]].
        split; [rewrite app_length, S1, G1; clear - Hc; lia|].
        split; [rewrite G2, S3, P1; clear - Hc; lia|].
        split; [rewrite G3, S4, P2; reflexivity|rewrite G4, S5, P3; reflexivity].
      * rewrite S4, P2. exact Hper.
      * rewrite S3, P1. clear - Hc Hrem. lia.
      * clear - Hc Hf. lia.
Qed.

(* ---------- (d) fuel independence ---------- *)
Lemma dbp_go_fuel bits : forall f f' cap s,
  0 < d_per s -> (cap <= f)%nat -> (cap <= f')%nat ->
  dbp_go bits f cap s = dbp_go bits f' cap s.
Proof.
  induction f as [|f IH]; intros f' cap s Hper Hf Hf'.
  - assert (Hc : cap = O) by (clear - Hf; lia). subst cap. rewrite !dbp_go_0. reflexivity.
  - destruct cap as [|c]; [rewrite !dbp_go_0; reflexivity|].
    destruct f' as [|f']; [exfalso; clear - Hf'; lia|].
    destruct (d_rem s =? 0) eqn:Er.
    + rewrite !dbp_go_rem0 by exact Er. reflexivity.
    + rewrite !dbp_go_S by exact Er.
      destruct (dbp_prep bits s) as [s2| | |] eqn:E2; cbn [bind]; try reflexivity.
      apply dbp_prep_ok in E2; [|exact Hper]. destruct E2 as [P1 [P2 [P3 [P4 P5]]]].
      cbv zeta.
      remember (Nat.min (S c) (N.to_nat (d_per s2 - d_mb_val s2))) as count eqn:Ecount.
      assert (Hc : (1 <= count <= S c)%nat) by (clear - Ecount P4; lia).
      clear Ecount.
      destruct (dbp_step bits count s2) as [[v1 s3]| | |] eqn:E3; cbn [bind]; try reflexivity.
      apply dbp_step_ok in E3. destruct E3 as [S1 [S2 [S3 [S4 S5]]]].
      rewrite (IH f' (S c - count)%nat s3).
      * reflexivity.
      * rewrite S4, P2. exact Hper.
      * clear - Hc Hf. lia.
      * clear - Hc Hf'. lia.
Qed.

(* ---------- (e) splitting the loop ---------- *)
Lemma dbp_go_split bits : forall f a b s,
  0 < d_per s -> N.of_nat (a + b) <= d_rem s -> (a + b <= f)%nat ->
  dbp_go bits f (a + b) s =
  ('(v1, s1) <- dbp_go bits f a s ;; '(v2, s2) <- dbp_go bits f b s1 ;; Ok (v1 ++ v2, s2)).
Proof.
  induction f as [|f IH]; intros a b s Hper Hrem Hf.
  - assert (Ha : a = O) by (clear - Hf; lia). assert (Hb : b = O) by (clear - Hf; lia).
    subst a b. cbn [Nat.add]. rewrite !dbp_go_0. reflexivity.
  - destruct a as [|a].
    { cbn [Nat.add]. rewrite (dbp_go_0 bits (S f) s). cbn [bind].
      destruct (dbp_go bits (S f) b s) as [[v s2]| | |]; reflexivity. }
    destruct b as [|b].
    { rewrite Nat.add_0_r.
      destruct (dbp_go bits (S f) (S a) s) as [[v1 s1]| | |]; cbn [bind]; try reflexivity.
      rewrite dbp_go_0. cbn [bind]. rewrite app_nil_r. reflexivity. }
    change (S a + S b)%nat with (S (a + S b)) in *.
    assert (Er : (d_rem s =? 0) = false) by (clear - Hrem; lia).
    rewrite (dbp_go_S bits f (a + S b) s Er), (dbp_go_S bits f a s Er).
    rewrite bind_assoc.
    destruct (dbp_prep bits s) as [s2| | |] eqn:E2; cbn [bind]; try reflexivity.
    apply dbp_prep_ok in E2; [|exact Hper]. destruct E2 as [P1 [P2 [P3 [P4 P5]]]].
    cbv zeta.
    remember (N.to_nat (d_per s2 - d_mb_val s2)) as r eqn:Er2.
    assert (Hr : (1 <= r)%nat) by (clear - Er2 P4; lia).
    destruct (Nat.ltb (S a) r) eqn:Ear.
    + (* the first read stops inside the miniblock *)
      remember (Nat.min (S b) (r - S a)) as c eqn:Ec.
      replace (Nat.min (S (a + S b)) r) with (S a + c)%nat by (clear - Ec Ear; lia).
      replace (Nat.min (S a) r) with (S a) by (clear - Ear; lia).
      replace (S a - S a)%nat with O by (clear; lia).
      assert (Hmv : d_mb_val s2 + N.of_nat (S a) < d_per s2) by (clear - Er2 Ear P4; lia).
      rewrite dbp_step_split; [|exact Hmv|rewrite P1; clear - Hrem Ec; lia].
      rewrite !bind_assoc.
      destruct (dbp_step bits (S a) s2) as [[v1 sa]| | |] eqn:Ea; cbn [bind]; try reflexivity.
      pose proof (dbp_step_partial bits (S a) s2 v1 sa Hmv Ea) as [Q1 [Q2 Q3]].
      apply dbp_step_ok in Ea. destruct Ea as [S1 [S2 [S3 [S4 S5]]]].
      rewrite dbp_go_0. cbn [bind].
      rewrite (dbp_go_S bits f b sa) by (rewrite S3, P1; clear - Hrem; lia).
      rewrite dbp_prep_stable;
        [|rewrite Q1, S4; exact Hmv|rewrite Q2, Q3; exact P5|rewrite Q1; clear; lia].
      cbn [bind]. cbv zeta.
      replace (Nat.min (S b) (N.to_nat (d_per sa - d_mb_val sa))) with c
        by (rewrite Q1, S4; clear - Ec Er2 Ear; lia).
      rewrite !bind_assoc.
      destruct (dbp_step bits c sa) as [[v2 sb]| | |]; cbn [bind]; try reflexivity.
      replace (S (a + S b) - (S a + c))%nat with (S b - c)%nat by (clear - Ec; lia).
      rewrite !bind_assoc.
      destruct (dbp_go bits f (S b - c) sb) as [[rest s4]| | |]; cbn [bind]; try reflexivity.
      rewrite app_nil_r, app_assoc. reflexivity.
    + (* the first read finishes the miniblock *)
      replace (Nat.min (S (a + S b)) r) with r by (clear - Ear; lia).
      replace (Nat.min (S a) r) with r by (clear - Ear; lia).
      rewrite !bind_assoc.
      destruct (dbp_step bits r s2) as [[v1 s3]| | |] eqn:E3; cbn [bind]; try reflexivity.
      apply dbp_step_ok in E3. destruct E3 as [S1 [S2 [S3 [S4 S5]]]].
      replace (S (a + S b) - r)%nat with ((S a - r) + S b)%nat by (clear - Ear; lia).
      assert (Hper3 : 0 < d_per s3) by (rewrite S4, P2; exact Hper).
      rewrite IH; [|exact Hper3|rewrite S3, P1; clear - Hrem Ear Hr; lia|clear - Hf Ear Hr; lia].
      rewrite !bind_assoc.
      destruct (dbp_go bits f (S a - r) s3) as [[v1' s1]| | |] eqn:E4; cbn [bind]; try reflexivity.
      apply dbp_go_shape in E4;
        [|exact Hper3|rewrite S3, P1; clear - Hrem Ear Hr; lia|clear - Hf Ear Hr; lia].
      destruct E4 as [G1 [G2 [G3 G4]]].
      rewrite (dbp_go_fuel bits f (S f) (S b) s1);
        [|rewrite G3; exact Hper3|clear - Hf Ear Hr; lia|clear - Hf Ear Hr; lia].
      destruct (dbp_go bits (S f) (S b) s1) as [[v2 s2']| | |]; cbn [bind]; try reflexivity.
      rewrite app_assoc. reflexivity.
Qed.

(* ---------- (f) read = optional header value + loop; no padding when enough values remain ---------- *)
Lemma dbp_read_nofirst bits n s :
  0 < d_per s -> d_first s = false -> N.of_nat n <= d_rem s ->
  dbp_read bits n s = dbp_go bits n n s.
Proof.
  intros Hper Hfirst Hrem. destruct n as [|k].
  - rewrite dbp_go_0. reflexivity.
  - unfold dbp_read. rewrite Hfirst.
    destruct (dbp_go bits (S k) (S k) s) as [[vs s']| | |] eqn:E; cbn [bind]; try reflexivity.
    apply dbp_go_shape in E; [|exact Hper|exact Hrem|clear; lia].
    destruct E as [G1 _]. rewrite G1. rewrite Nat.sub_diag. cbn [repeat]. rewrite app_nil_r. reflexivity.
Qed.

Lemma dbp_read_first bits k s :
  0 < d_per s -> d_first s = true -> N.of_nat k <= d_rem s ->
  dbp_read bits (S k) s = ('(vs, s') <- dbp_go bits k k (dbp_clear_first s) ;; Ok (d_prev s :: vs, s')).
Proof.
  intros Hper Hfirst Hrem. unfold dbp_read. rewrite Hfirst.
  destruct (dbp_go bits k k (dbp_clear_first s)) as [[vs s']| | |] eqn:E; cbn [bind]; try reflexivity.
  apply dbp_go_shape in E; [|exact Hper|exact Hrem|clear; lia].
  destruct E as [G1 _]. rewrite G1. rewrite Nat.sub_diag. cbn [repeat]. rewrite app_nil_r. reflexivity.
Qed.

(* a successful read keeps values_per_mini_block and consumes exactly n available values *)
Lemma dbp_read_ok bits n s vs s' :
  0 < d_per s -> N.of_nat n <= dbp_avail s -> dbp_read bits n s = Ok (vs, s') ->
  length vs = n /\ d_per s' = d_per s /\ dbp_avail s' = dbp_avail s - N.of_nat n.
Proof.
  intros Hper Hav H. destruct n as [|k].
  - cbn [dbp_read] in H. injection H as Hv Hs. subst vs s'.
    split; [reflexivity|]. split; [reflexivity|clear; lia].
  - unfold dbp_avail in *. destruct (d_first s) eqn:Hfirst.
    + rewrite dbp_read_first in H; [|exact Hper|exact Hfirst|clear - Hav; lia].
      apply bind_ok in H. destruct H as [[v1 s1] [E H]]. injection H as Hv Hs. subst vs s1.
      apply dbp_go_shape in E; [|exact Hper|cbn [dbp_clear_first d_rem]; clear - Hav; lia|clear; lia].
      cbn [dbp_clear_first d_rem d_per d_first] in E. destruct E as [G1 [G2 [G3 G4]]].
      rewrite G4, G2. cbn [length]. rewrite G1.
      split; [reflexivity|]. split; [exact G3|clear - Hav; lia].
    + rewrite dbp_read_nofirst in H; [|exact Hper|exact Hfirst|clear - Hav; lia].
      apply dbp_go_shape in H; [|exact Hper|clear - Hav; lia|clear; lia].
      destruct H as [G1 [G2 [G3 G4]]]. rewrite G4, G2, Hfirst.
      split; [exact G1|]. split; [exact G3|clear; lia].
Qed.

Theorem dbp_read_split : forall bits n1 n2 s,
  0 < d_per s -> N.of_nat (n1 + n2) <= dbp_avail s ->
  dbp_read bits (n1 + n2) s =
  ('(v1, s1) <- dbp_read bits n1 s ;; '(v2, s2) <- dbp_read bits n2 s1 ;; Ok (v1 ++ v2, s2)).
Proof.
  intros bits n1 n2 s Hper Hav.
  destruct n1 as [|k1].
  { cbn [Nat.add dbp_read bind].
    destruct (dbp_read bits n2 s) as [[v2 s2]| | |]; reflexivity. }
  unfold dbp_avail in Hav. destruct (d_first s) eqn:Hfirst.
  - (* the header value is still pending *)
    change (S k1 + n2)%nat with (S (k1 + n2)).
    rewrite (dbp_read_first bits (k1 + n2) s Hper Hfirst) by (clear - Hav; lia).
    rewrite (dbp_read_first bits k1 s Hper Hfirst) by (clear - Hav; lia).
    assert (Hperc : 0 < d_per (dbp_clear_first s)) by exact Hper.
    assert (Hremc : N.of_nat (k1 + n2) <= d_rem (dbp_clear_first s))
      by (cbn [dbp_clear_first d_rem]; clear - Hav; lia).
    rewrite (dbp_go_split bits (k1 + n2) k1 n2 _ Hperc Hremc) by (clear; lia).
    rewrite (dbp_go_fuel bits (k1 + n2) k1 k1 _ Hperc) by (clear; lia).
    rewrite !bind_assoc.
    destruct (dbp_go bits k1 k1 (dbp_clear_first s)) as [[v1 s1]| | |] eqn:E1; cbn [bind]; try reflexivity.
    apply dbp_go_shape in E1; [|exact Hperc|clear - Hremc; lia|clear; lia].
    destruct E1 as [G1 [G2 [G3 G4]]].
    cbn [dbp_clear_first d_rem d_per d_first] in G2, G3, G4.
    assert (Hper1 : 0 < d_per s1) by (rewrite G3; exact Hper).
    rewrite (dbp_read_nofirst bits n2 s1 Hper1 G4) by (rewrite G2; clear - Hav; lia).
    rewrite (dbp_go_fuel bits (k1 + n2) n2 n2 s1 Hper1) by (clear; lia).
    rewrite !bind_assoc.
    destruct (dbp_go bits n2 n2 s1) as [[v2 s2]| | |]; cbn [bind]; reflexivity.
  - (* plain continuation *)
    assert (Hrem : N.of_nat (S k1 + n2) <= d_rem s) by (clear - Hav; lia).
    rewrite (dbp_read_nofirst bits (S k1 + n2) s Hper Hfirst Hrem).
    rewrite (dbp_read_nofirst bits (S k1) s Hper Hfirst) by (clear - Hrem; lia).
    rewrite (dbp_go_split bits (S k1 + n2) (S k1) n2 s Hper Hrem) by (clear; lia).
    rewrite (dbp_go_fuel bits (S k1 + n2) (S k1) (S k1) s Hper) by (clear; lia).
    destruct (dbp_go bits (S k1) (S k1) s) as [[v1 s1]| | |] eqn:E1; cbn [bind]; try reflexivity.
    apply dbp_go_shape in E1; [|exact Hper|clear - Hrem; lia|clear; lia].
    destruct E1 as [G1 [G2 [G3 G4]]].
    assert (Hper1 : 0 < d_per s1) by (rewrite G3; exact Hper).
    rewrite (dbp_read_nofirst bits n2 s1 Hper1) ; [|rewrite G4; exact Hfirst|rewrite G2; clear - Hrem; lia].
    rewrite (dbp_go_fuel bits (S k1 + n2) n2 n2 s1 Hper1) by (clear; lia).
    reflexivity.
Qed.

(* ---------- any sequence of reads = one read of the total ---------- *)
Theorem dbp_reads_concat : forall bits ns s out,
  0 < d_per s -> N.of_nat (fold_right Nat.add O ns) <= dbp_avail s ->
  dbp_reads bits ns s = Ok out ->
  exists s', dbp_read bits (fold_right Nat.add O ns) s = Ok (concat out, s').
Proof.
  intros bits ns. induction ns as [|n r IH]; intros s out Hper Hav H.
  - cbn [dbp_reads] in H. injection H as H. subst out.
    exists s. reflexivity.
  - cbn [dbp_reads] in H. cbn [fold_right] in *.
    apply bind_ok in H. destruct H as [[vs s1] [E1 H]].
    apply bind_ok in H. destruct H as [rest [E2 H]].
    injection H as H. subst out.
    pose proof (dbp_read_ok bits n s vs s1 Hper ltac:(clear - Hav; lia) E1) as [R1 [R2 R3]].
    apply IH in E2; [|rewrite R2; exact Hper|rewrite R3; clear - Hav; lia].
    destruct E2 as [s' E2]. exists s'.
    rewrite dbp_read_split; [|exact Hper|exact Hav].
    rewrite E1. cbn [bind]. rewrite E2. cbn [bind concat]. reflexivity.
Qed.

(* ---------- reachable states ---------- *)
Lemma dbp_new_avail bits buf s : dbp_new bits buf = Ok s ->
  dbp_avail s = d_total s /\
  exists block, d_per s = block / d_mbc s /\ 0 < d_mbc s.
Proof.
  intros H. unfold dbp_new in H.
  apply bind_ok in H. destruct H as [[block b1] [_ H]].
  apply bind_ok in H. destruct H as [[mbc b2] [_ H]].
  apply bind_ok in H. destruct H as [[total b3] [_ H]].
  apply bind_ok in H. destruct H as [[fz b4] [_ H]].
  apply bind_ok in H. destruct H as [first [_ H]].
  destruct (mbc =? 0) eqn:Em; [discriminate H|].
  cbv zeta in H.
  destruct (1 <? total) eqn:Et.
  - apply dbp_load_ok in H.
    cbn [d_rem d_per d_first d_total d_mbc] in H.
    destruct H as [L1 [L2 [L3 [L4 [L5 [_ [_ L8]]]]]]].
    unfold dbp_avail. rewrite L1, L3, L4. split.
    + replace (0 <? total) with true by (clear - Et; lia). clear - Et. lia.
    + exists block. rewrite L2, L5. split; [reflexivity|clear - Em; lia].
  - injection H as H. subst s. unfold dbp_avail. cbn [d_rem d_per d_first d_total d_mbc]. split.
    + destruct (0 <? total) eqn:E0; clear - Et E0; lia.
    + exists block. split; [reflexivity|clear - Em; lia].
Qed.

(* hypotheses of dbp_read_split are satisfiable, and the split read returns the two halves *)
Example dbp_read_split_ex :
  let s  := mk_dbp [] 4 4 3 [0; 0; 0; 0] 0 0 32 1 1 true 0 0 in
  let s1 := mk_dbp [] 4 4 2 [0; 0; 0; 0] 0 1 32 1 2 false 0 0 in
  let s2 := mk_dbp [] 4 4 0 [0; 0; 0; 0] 0 3 32 1 4 false 0 0 in
  dbp_new 32 (dbp_encode 32 128 4 [1; 2; 3; 4]) = Ok s /\
  0 < d_per s /\ N.of_nat (2 + 2) <= dbp_avail s /\
  dbp_read 32 2 s = Ok ([1; 2], s1) /\
  dbp_read 32 2 s1 = Ok ([3; 4], s2) /\
  dbp_read 32 (2 + 2) s = Ok ([1; 2; 3; 4], s2).
Proof.
  cbv zeta.
  split; [vm_compute; reflexivity|].
  split; [vm_compute; reflexivity|].
  split; [vm_compute; intros Hc; discriminate Hc|].
  split; [vm_compute; reflexivity|].
  split; vm_compute; reflexivity.
Qed.

(* the availability hypothesis is necessary: asking for more than remains, the single read panics
   (values_remaining underflow) where the split reads succeed (the second one finds
   values_remaining = 0 and leaves its 29 slots at 0) *)
Example dbp_read_split_needs_avail :
  let s := mk_dbp [] 4 4 3 [0; 0; 0; 0] 0 0 32 1 1 true 0 0 in
  0 < d_per s /\
  dbp_read 32 (4 + 29) s = Err /\
  ('(v1, s1) <- dbp_read 32 4 s ;; '(v2, s2) <- dbp_read 32 29 s1 ;; Ok (v1 ++ v2, s2)) =
  Ok ([1; 2; 3; 4] ++ repeat 0 29, mk_dbp [] 4 4 0 [0; 0; 0; 0] 0 3 32 1 4 false 0 0).
Proof.
  cbv zeta.
  split; [vm_compute; reflexivity|].
  split; vm_compute; reflexivity.
Qed.

(* the hypothesis 0 < values_per_mini_block is necessary: with 0 an iteration loads a block and
   unpacks nothing, so only the fuel (the real loop: nothing) stops it; here enough values are
   available, the single read runs out of input, the split read runs out of fuel *)
Example dbp_read_split_needs_per :
  let s := mk_dbp [0; 0; 0; 0] 1 10 9 [0] 0 0 0 0 0 false 0 0 in
  N.of_nat (1 + 2) <= dbp_avail s /\
  dbp_read 32 (1 + 2) s = OOB /\
  ('(v1, s1) <- dbp_read 32 1 s ;; '(v2, s2) <- dbp_read 32 2 s1 ;; Ok (v1 ++ v2, s2)) = Err.
Proof.
  cbv zeta.
  split; [vm_compute; intros Hc; discriminate Hc|].
  split; vm_compute; reflexivity.
Qed.

(* hypotheses of dbp_reads_concat are satisfiable (an empty read in the middle included) *)
Example dbp_reads_concat_ex :
  let s := mk_dbp [] 4 4 3 [0; 0; 0; 0] 0 0 32 1 1 true 0 0 in
  0 < d_per s /\ N.of_nat (fold_right Nat.add O [1; 0; 2; 1]%nat) <= dbp_avail s /\
  dbp_reads 32 [1; 0; 2; 1]%nat s = Ok [[1]; []; [2; 3]; [4]].
Proof.
  cbv zeta.
  split; [vm_compute; reflexivity|].
  split; [vm_compute; intros Hc; discriminate Hc|vm_compute; reflexivity].
Qed.

Print Assumptions dbp_read_split.
Print Assumptions dbp_reads_concat.
