(* Bytes as N < 256, byte strings as lists; big-endian encodings and the
   lexicographic comparison that memcmp / slice::cmp compute. *)
From Coq Require Import NArith ZArith List Lia Bool.
Import ListNotations.
Open Scope N_scope.

Fixpoint be_bytes (w : nat) (n : N) : list N :=
  match w with
  | O => []
  | S k => be_bytes k (n / 256) ++ [n mod 256]
  end.

(* what <[u8]>::cmp computes: first differing byte decides, then length *)
Fixpoint lex_cmp (a b : list N) : comparison :=
  match a, b with
  | [], [] => Eq
  | [], _ => Lt
  | _, [] => Gt
  | x :: xs, y :: ys => match N.compare x y with Eq => lex_cmp xs ys | c => c end
  end.

Definition inv_byte (b : N) : N := 255 - b.
Definition inv_bytes (l : list N) : list N := map inv_byte l.

Definition is_byte (b : N) : Prop := b < 256.
Definition all_bytes (l : list N) : Prop := Forall is_byte l.

Lemma be_bytes_length w n : length (be_bytes w n) = w.
Proof.
  revert n; induction w as [|w IH]; cbn [be_bytes]; intros; [reflexivity|].
  rewrite app_length, IH. simpl. lia.
Qed.

Lemma be_bytes_all_bytes w n : all_bytes (be_bytes w n).
Proof.
  revert n; induction w as [|w IH]; cbn [be_bytes]; intros n; [constructor|].
  apply Forall_app; split; [apply IH|]. constructor; [|constructor].
  unfold is_byte. apply N.mod_lt. lia.
Qed.

Lemma lex_cmp_refl l : lex_cmp l l = Eq.
Proof. induction l as [|x l IH]; cbn; [reflexivity|]. rewrite N.compare_refl. exact IH. Qed.

Lemma lex_cmp_eq_iff a b : lex_cmp a b = Eq <-> a = b.
Proof.
  split; [|intros ->; apply lex_cmp_refl].
  revert b; induction a as [|x a IH]; intros [|y b]; cbn; try discriminate; [reflexivity|].
  destruct (N.compare_spec x y) as [E|L|G]; try discriminate.
  intros H. f_equal; [exact E|apply IH, H].
Qed.

Lemma lex_cmp_antisym a b : lex_cmp b a = CompOpp (lex_cmp a b).
Proof.
  revert b; induction a as [|x a IH]; intros [|y b]; cbn; try reflexivity.
  rewrite (N.compare_antisym x y). destruct (x ?= y); cbn; [apply IH|reflexivity|reflexivity].
Qed.

Lemma lex_cmp_snoc xs ys x y : length xs = length ys ->
  lex_cmp (xs ++ [x]) (ys ++ [y]) = match lex_cmp xs ys with Eq => N.compare x y | c => c end.
Proof.
  revert ys. induction xs as [|a xs IH]; intros [|b ys] Hl; try discriminate.
  - cbn. destruct (x ?= y); reflexivity.
  - cbn [app lex_cmp]. destruct (a ?= b); try reflexivity. apply IH. simpl in Hl. lia.
Qed.

(* concatenation of equal-width segments = lexicographic product *)
Lemma lex_cmp_app a1 a2 b1 b2 : length a1 = length b1 ->
  lex_cmp (a1 ++ a2) (b1 ++ b2) = match lex_cmp a1 b1 with Eq => lex_cmp a2 b2 | c => c end.
Proof.
  revert b1. induction a1 as [|x a1 IH]; intros [|y b1] Hl; try discriminate.
  - reflexivity.
  - cbn [app lex_cmp]. destruct (x ?= y); try reflexivity. apply IH. simpl in Hl. lia.
Qed.

Lemma lex_cmp_trans_lt a b c : lex_cmp a b = Lt -> lex_cmp b c = Lt -> lex_cmp a c = Lt.
Proof.
  revert b c; induction a as [|x a IH]; intros [|y b] [|z c]; cbn; try discriminate; try reflexivity.
  destruct (N.compare_spec x y) as [E|L|G]; try discriminate.
  - subst y. destruct (N.compare_spec x z); try discriminate; [apply IH|reflexivity].
  - intros _. destruct (N.compare_spec y z) as [E|L'|G]; try discriminate; intros _.
    + subst z. destruct (N.compare_spec x y); try lia; reflexivity.
    + destruct (N.compare_spec x z); try lia; reflexivity.
Qed.

(* complementing every byte reverses the order (equal lengths) *)
Lemma lex_cmp_inv a b : length a = length b -> all_bytes a -> all_bytes b ->
  lex_cmp (inv_bytes a) (inv_bytes b) = CompOpp (lex_cmp a b).
Proof.
  revert b; induction a as [|x a IH]; intros [|y b] Hl Ha Hb; try discriminate; [reflexivity|].
  inversion Ha as [|? ? Hx Ha']; inversion Hb as [|? ? Hy Hb']; subst.
  cbn [inv_bytes map lex_cmp]. unfold inv_byte at 1 2. unfold is_byte in Hx, Hy.
  destruct (N.compare_spec x y) as [E|L|G].
  - subst y. rewrite N.compare_refl. apply IH; [simpl in Hl; lia|assumption|assumption].
  - destruct (N.compare_spec (255 - x) (255 - y)); try lia. reflexivity.
  - destruct (N.compare_spec (255 - x) (255 - y)); try lia. reflexivity.
Qed.

Lemma inv_bytes_length l : length (inv_bytes l) = length l.
Proof. apply map_length. Qed.

Theorem be_bytes_order w a b :
  a < 256 ^ N.of_nat w -> b < 256 ^ N.of_nat w ->
  lex_cmp (be_bytes w a) (be_bytes w b) = N.compare a b.
Proof.
  revert a b. induction w as [|w IH]; intros a b Ha Hb.
  - cbn in *. assert (a = 0) by lia. assert (b = 0) by lia. subst. reflexivity.
  - cbn [be_bytes]. rewrite lex_cmp_snoc by (rewrite !be_bytes_length; reflexivity).
    rewrite Nat2N.inj_succ, N.pow_succ_r' in Ha, Hb.
    assert (Ha' : a / 256 < 256 ^ N.of_nat w) by (apply N.div_lt_upper_bound; [lia| exact Ha]).
    assert (Hb' : b / 256 < 256 ^ N.of_nat w) by (apply N.div_lt_upper_bound; [lia| exact Hb]).
    rewrite IH by assumption.
    pose proof (N.div_mod a 256 ltac:(lia)) as Ea. pose proof (N.div_mod b 256 ltac:(lia)) as Eb.
    pose proof (N.mod_lt a 256 ltac:(lia)) as La. pose proof (N.mod_lt b 256 ltac:(lia)) as Lb.
    clear IH Ha Hb Ha' Hb'.
    generalize dependent (a / 256). generalize dependent (b / 256).
    generalize dependent (a mod 256). generalize dependent (b mod 256).
    intros rb Lb ra La qb Eb qa Ea.
    destruct (N.compare_spec qa qb) as [E|L|G].
    + destruct (N.compare_spec ra rb); symmetry;
        [apply N.compare_eq_iff | apply N.compare_lt_iff | apply N.compare_gt_iff]; lia.
    + symmetry. apply N.compare_lt_iff. lia.
    + symmetry. apply N.compare_gt_iff. lia.
Qed.

(* zero-padded fixed-width prefix of a byte string (sort layout string prefix) *)
Fixpoint pad_prefix (w : nat) (s : list N) : list N :=
  match w with
  | O => []
  | S k => match s with
           | [] => 0 :: pad_prefix k []
           | x :: xs => x :: pad_prefix k xs
           end
  end.

Lemma pad_prefix_length w s : length (pad_prefix w s) = w.
Proof. revert s; induction w as [|w IH]; intros s; [reflexivity|]. destruct s; cbn; rewrite IH; reflexivity. Qed.

Lemma pad_prefix_all_bytes w s : all_bytes s -> all_bytes (pad_prefix w s).
Proof.
  revert s; induction w as [|w IH]; intros s Hs; [constructor|].
  destruct s as [|x s]; cbn.
  - constructor; [unfold is_byte; lia|apply IH; constructor].
  - inversion Hs; subst. constructor; [assumption|apply IH; assumption].
Qed.

Lemma pad_prefix_nil_le w s : lex_cmp (pad_prefix w []) (pad_prefix w s) <> Gt.
Proof.
  revert s; induction w as [|w IH]; intros s; [discriminate|].
  destruct s as [|x s]; cbn [pad_prefix lex_cmp].
  - rewrite N.compare_refl. apply IH.
  - destruct (N.compare_spec 0 x); try lia; [apply IH|discriminate].
Qed.

(* If the padded prefixes differ, the full strings are ordered the same way. *)
Theorem pad_prefix_lt_sound w s1 s2 :
  lex_cmp (pad_prefix w s1) (pad_prefix w s2) = Lt -> lex_cmp s1 s2 = Lt.
Proof.
  revert s1 s2; induction w as [|w IH]; intros s1 s2; [discriminate|].
  destruct s1 as [|x s1], s2 as [|y s2]; cbn [pad_prefix lex_cmp].
  - rewrite N.compare_refl. intros H. exfalso. rewrite lex_cmp_refl in H. discriminate.
  - intros _. reflexivity.
  - destruct (N.compare_spec x 0) as [E|L|G]; try lia; try discriminate.
    intros H. exfalso. generalize (pad_prefix_nil_le w s1). rewrite lex_cmp_antisym, H. cbn. congruence.
  - destruct (x ?= y); try discriminate; [apply IH|reflexivity].
Qed.

Theorem pad_prefix_gt_sound w s1 s2 :
  lex_cmp (pad_prefix w s1) (pad_prefix w s2) = Gt -> lex_cmp s1 s2 = Gt.
Proof.
  intros H. rewrite lex_cmp_antisym. rewrite lex_cmp_antisym in H.
  destruct (lex_cmp (pad_prefix w s2) (pad_prefix w s1)) eqn:E; try discriminate.
  rewrite (pad_prefix_lt_sound _ _ _ E). reflexivity.
Qed.
