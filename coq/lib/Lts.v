(* Generic helpers for the C04 transition systems: a system of N symmetric agents is a list of
   phases; a step rewrites one position (`upd`) and/or maps a wake function over the list.
   Invariants are counting facts (`count`) and weighted sums (`sumw`), closed by lia. *)
From Coq Require Import List Arith Lia Bool.
Import ListNotations.

Definition upd {A} (l : list A) (i : nat) (p : A) : list A := firstn i l ++ p :: skipn (S i) l.
Definition count {A} (f : A -> bool) (l : list A) : nat := length (filter f l).
Definition sumw {A} (w : A -> nat) (l : list A) : nat := fold_right (fun p acc => w p + acc) 0 l.
Definition b2n (b : bool) : nat := if b then 1 else 0.

Lemma count_nil {A} (f : A -> bool) : count f [] = 0.
Proof. reflexivity. Qed.

Lemma count_cons {A} (f : A -> bool) a l : count f (a :: l) = b2n (f a) + count f l.
Proof. unfold count. cbn [filter]. destruct (f a); reflexivity. Qed.

Lemma sumw_cons {A} (w : A -> nat) a l : sumw w (a :: l) = w a + sumw w l.
Proof. reflexivity. Qed.

Lemma upd_cons_S {A} (a : A) l i p : upd (a :: l) (S i) p = a :: upd l i p.
Proof. reflexivity. Qed.

Lemma upd_cons_0 {A} (a : A) l p : upd (a :: l) 0 p = p :: l.
Proof. reflexivity. Qed.

Lemma count_upd {A} (f : A -> bool) l i old p :
  nth_error l i = Some old ->
  count f (upd l i p) + b2n (f old) = count f l + b2n (f p).
Proof.
  revert i. induction l as [|a l IH]; intros [|i] H; cbn [nth_error] in H; try discriminate.
  - inversion H; subst. rewrite upd_cons_0, !count_cons. lia.
  - specialize (IH i H). rewrite upd_cons_S, !count_cons. lia.
Qed.

Lemma sumw_upd {A} (w : A -> nat) l i old p :
  nth_error l i = Some old ->
  sumw w (upd l i p) + w old = sumw w l + w p.
Proof.
  revert i. induction l as [|a l IH]; intros [|i] H; cbn [nth_error] in H; try discriminate.
  - inversion H; subst. rewrite upd_cons_0, !sumw_cons. lia.
  - specialize (IH i H). rewrite upd_cons_S, !sumw_cons. lia.
Qed.

Lemma length_upd {A} (l : list A) i old p : nth_error l i = Some old -> length (upd l i p) = length l.
Proof.
  revert i. induction l as [|a l IH]; intros [|i] H; cbn [nth_error] in H; try discriminate.
  - reflexivity.
  - rewrite upd_cons_S. cbn [length]. f_equal. eauto.
Qed.

Lemma nth_upd_eq {A} (l : list A) i old p : nth_error l i = Some old -> nth_error (upd l i p) i = Some p.
Proof.
  revert i. induction l as [|a l IH]; intros [|i] H; cbn [nth_error] in H; try discriminate.
  - reflexivity.
  - rewrite upd_cons_S. cbn [nth_error]. eauto.
Qed.

Lemma upd_id {A} (l : list A) i p : nth_error l i = Some p -> upd l i p = l.
Proof.
  revert i. induction l as [|a l IH]; intros [|i] H; cbn [nth_error] in H; try discriminate.
  - inversion H; subst. reflexivity.
  - rewrite upd_cons_S. f_equal. eauto.
Qed.

Lemma upd_neq {A} (l : list A) i old p : nth_error l i = Some old -> old <> p -> upd l i p <> l.
Proof.
  intros H Hn E. pose proof (nth_upd_eq l i old p H) as X. rewrite E in X. congruence.
Qed.

Lemma count_map {A} (f : A -> bool) (w : A -> A) l : count f (map w l) = count (fun p => f (w p)) l.
Proof. induction l as [|a l IH]; [reflexivity|]. cbn [map]. rewrite !count_cons, IH. reflexivity. Qed.

Lemma sumw_map {A} (wt : A -> nat) (w : A -> A) l : sumw wt (map w l) = sumw (fun p => wt (w p)) l.
Proof. induction l as [|a l IH]; [reflexivity|]. cbn [map]. rewrite !sumw_cons, IH. reflexivity. Qed.

Lemma count_ext {A} (f g : A -> bool) l : (forall p, f p = g p) -> count f l = count g l.
Proof. intros E. induction l as [|a l IH]; [reflexivity|]. rewrite !count_cons, IH, E. reflexivity. Qed.

Lemma sumw_ext {A} (f g : A -> nat) l : (forall p, f p = g p) -> sumw f l = sumw g l.
Proof. intros E. induction l as [|a l IH]; [reflexivity|]. rewrite !sumw_cons, IH, E. reflexivity. Qed.

Lemma count_false {A} (l : list A) : count (fun _ => false) l = 0.
Proof. induction l as [|a l IH]; [reflexivity|]. rewrite count_cons, IH. reflexivity. Qed.

Lemma count_orb {A} (f g : A -> bool) l :
  (forall p, f p && g p = false) -> count (fun p => f p || g p) l = count f l + count g l.
Proof.
  intros D. induction l as [|a l IH]; [reflexivity|]. rewrite !count_cons, IH.
  specialize (D a). destruct (f a), (g a); cbn in *; try discriminate; lia.
Qed.

Lemma count_le_length {A} (f : A -> bool) l : count f l <= length l.
Proof. induction l as [|a l IH]; [cbn; lia|]. rewrite count_cons. cbn [length]. destruct (f a); cbn [b2n]; lia. Qed.

Lemma count_split {A} (f : A -> bool) l : count f l + count (fun p => negb (f p)) l = length l.
Proof. induction l as [|a l IH]; [reflexivity|]. rewrite !count_cons. cbn [length]. destruct (f a); cbn [b2n negb]; lia. Qed.

Lemma count_pos_nth {A} (f : A -> bool) l : 0 < count f l -> exists i p, nth_error l i = Some p /\ f p = true.
Proof.
  induction l as [|a l IH]; [cbn; lia|]. rewrite count_cons. destruct (f a) eqn:E.
  - intros _. exists 0, a. cbn. auto.
  - cbn [b2n]. intros H. destruct (IH H) as (i & p & Hi & Hp). exists (S i), p. auto.
Qed.

Lemma count_nth_pos {A} (f : A -> bool) l i p : nth_error l i = Some p -> f p = true -> 0 < count f l.
Proof.
  revert i. induction l as [|a l IH]; intros [|i] H Hp; cbn [nth_error] in H; try discriminate.
  - inversion H; subst. rewrite count_cons, Hp. cbn. lia.
  - rewrite count_cons. specialize (IH i H Hp). lia.
Qed.

Lemma count_nth_ge {A} (f : A -> bool) l i p : nth_error l i = Some p -> b2n (f p) <= count f l.
Proof.
  intros H. destruct (f p) eqn:E; cbn [b2n]; [|lia]. pose proof (count_nth_pos f l i p H E). lia.
Qed.

Lemma count_zero_nth {A} (f : A -> bool) l i p : count f l = 0 -> nth_error l i = Some p -> f p = false.
Proof.
  intros Z H. destruct (f p) eqn:E; [|reflexivity]. pose proof (count_nth_pos f l i p H E). lia.
Qed.

Lemma count_repeat {A} (f : A -> bool) a n : count f (repeat a n) = n * b2n (f a).
Proof. induction n as [|n IH]; [reflexivity|]. cbn [repeat]. rewrite count_cons, IH. lia. Qed.

Lemma count_all_length {A} (f : A -> bool) l : (forall p, In p l -> f p = true) -> count f l = length l.
Proof.
  induction l as [|a l IH]; intros H; [reflexivity|]. rewrite count_cons. cbn [length].
  rewrite (H a (or_introl eq_refl)), IH; [reflexivity|]. intros p Hp. apply H. right. exact Hp.
Qed.

Lemma count_length_all {A} (f : A -> bool) l : count f l = length l -> forall p, In p l -> f p = true.
Proof.
  induction l as [|a l IH]; intros H p Hp; [destruct Hp|]. rewrite count_cons in H. cbn [length] in H.
  pose proof (count_le_length f l). destruct (f a) eqn:E; cbn [b2n] in H; [|lia].
  destruct Hp as [->|Hp]; [exact E|]. apply IH; [lia|exact Hp].
Qed.

Lemma nth_error_lt {A} (l : list A) i p : nth_error l i = Some p -> i < length l.
Proof. intros H. apply nth_error_Some. congruence. Qed.
