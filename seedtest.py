#!/usr/bin/env python3
"""Lead-side helper: confirm a seeded change in the scratch worktree /tmp/alt and record which checks
report it.   usage: seedtest.py <seed-id> <dir with patch.diff demo.sql meta.json> <crate for unit tests> <check>..."""
import json, os, shutil, subprocess, sys, time
sid, src, crate, checks = sys.argv[1], sys.argv[2], sys.argv[3], sys.argv[4:]
ALT = "/tmp/alt"
def sh(cmd, **kw):
    return subprocess.run(cmd, shell=True, stdout=subprocess.PIPE, stderr=subprocess.STDOUT, text=True, **kw)
sh("git -C %s checkout -q -- ." % ALT)
head = sh("git -C /repo rev-parse HEAD").stdout.strip()
sh("git -C %s checkout -q --detach %s" % (ALT, head))
r = sh("git -C %s apply %s/patch.diff" % (ALT, src))
assert r.returncode == 0, r.stdout
out = {"id": sid, "applied": True, "checks": {}}
env = dict(os.environ, VERIF_REPO=ALT)
for c in checks:
    t0 = time.time()
    r = subprocess.run(["./check", c, "--tier", "quick"], cwd="/verif", env=env, stdout=subprocess.PIPE, stderr=subprocess.STDOUT, text=True)
    viol = [l for l in r.stdout.splitlines() if l.startswith("VIOLATION")]
    out["checks"][c] = {"exit": r.returncode, "violations": len(viol), "first": viol[:1], "wall_s": round(time.time() - t0),
                        "summary": r.stdout.strip().splitlines()[-1][:200]}
    print(c, out["checks"][c])
# demonstration on both trees through the harness binaries (unchanged: /verif/.work/target, changed: alt target)
demo = os.path.join(src, "demo.sql")
if os.path.exists(demo):
    import hashlib
    tag = hashlib.sha256(ALT.encode()).hexdigest()[:8]
    stmts = [x.strip() for x in open(demo).read().split(";\n") if x.strip() and not all(l.strip().startswith("--") or not l.strip() for l in x.splitlines())]
    stmts = ["\n".join(l for l in s.splitlines() if not l.strip().startswith("--")) for s in stmts]
    case = json.dumps({"id": "d", "mode": "threaded", "threads": 4, "stmts": stmts, "timeout_s": 60}) + "\n"
    res = {}
    # the checks may not have built this binary on the changed tree
    subprocess.run(["python3", "-c", "import sys; sys.path.insert(0,'/verif'); from vlib import common; common.build_harness(bin='gverif')"],
                   env=env, cwd="/verif", stdout=subprocess.PIPE, stderr=subprocess.STDOUT)
    for name, b in (("unchanged", "/verif/.work/target/debug/gverif"), ("changed", "/verif/.work/alt/%s/target/debug/gverif" % tag)):
        p = subprocess.run([b, "sql"], input=case, stdout=subprocess.PIPE, stderr=subprocess.PIPE, text=True)
        try:
            rr = json.loads(p.stdout.splitlines()[0])["results"]
            res[name] = [x.get("rows") if x.get("ok") else (x.get("err") or x) for x in rr]
        except Exception as e:
            res[name] = "harness: %s %s" % (e, p.stderr[-200:])
    out["demo_differs"] = res.get("unchanged") != res.get("changed")
    print("demo differs:", out["demo_differs"])
# unit tests of the touched crate on the changed tree
if crate != "-":
    r = sh("cd %s && CARGO_TARGET_DIR=/tmp/alt_test_target timeout 3000 cargo test --offline -p %s --lib 2>&1 | tail -4" % (ALT, crate))
    out["unit_tests"] = r.stdout.strip().splitlines()[-3:]
    print(out["unit_tests"])
d = "/verif/seeded/%s" % sid
os.makedirs(d, exist_ok=True)
for f in os.listdir(src):
    if os.path.getsize(os.path.join(src, f)) < 2_000_000:
        if os.path.isdir(os.path.join(src, f)):
            shutil.copytree(os.path.join(src, f), os.path.join(d, f), dirs_exist_ok=True)
        else:
            shutil.copy(os.path.join(src, f), d)
meta = json.load(open(os.path.join(src, "meta.json"))) if os.path.exists(os.path.join(src, "meta.json")) else {}
meta["lead_confirmation"] = out
json.dump(meta, open(os.path.join(d, "meta.json"), "w"), indent=1)
sh("git -C %s checkout -q -- ." % ALT)
