"""Regenerate coq/gen/TablesFault.v from /repo's current source (topic `fault`, C19).

Two constants of metadata/mod.rs (FOOTER_SIZE, MIN_FILE_SIZE) and six *shape* facts of the footer loader and
of the thrift compact reader: does the source contain the bounds check the model's `cfg` flag stands for?
    footer_len_checked   loader.rs: `metadata_len` compared with the file size before `read_buf.resize(metadata_len ..)`
    setmap_implemented   thrift.rs: read_set_begin / read_map_begin are something else than `unimplemented!()`
    double_checked       thrift.rs: read_double does not slice `self.buf[..8]` unconditionally
    vlq_shift_checked    thrift.rs: read_vlq bounds `shift` (or uses checked_shl)
    fid_add_checked      thrift.rs: read_field_begin adds the field delta with wrapping_/checked_add
    list_len_checked     thrift.rs: read_list_set_begin compares the element count with the remaining input
    page_copy_len_checked  column/page_reader.rs: src.len() != dest.len() tested before every dest.copy_from_slice(src)
A fact that cannot be decided is emitted as None, so the theorems that name it stop checking."""
import os, re
from . import common

PQ = os.path.join(common.REPO, "crates", "glaredb_ext_parquet", "src")


def _read(rel):
    try:
        return re.sub(r"//[^\n]*", "", open(os.path.join(PQ, rel)).read())
    except FileNotFoundError:
        return ""


def _fn_body(src, name):
    m = re.search(r"fn\s+%s\s*(<[^>]*>)?\s*\(" % re.escape(name), src)
    if not m:
        return None
    i = src.find("{", m.end())
    if i < 0:
        return None
    depth, j = 0, i
    while j < len(src):
        if src[j] == "{":
            depth += 1
        elif src[j] == "}":
            depth -= 1
            if depth == 0:
                return src[i:j + 1]
        j += 1
    return None


def scan():
    t = {"footer_size": None, "min_file_size": None, "footer_len_checked": None, "setmap_implemented": None,
         "double_checked": None, "vlq_shift_checked": None, "fid_add_checked": None, "list_len_checked": None,
         "page_copy_len_checked": None, "chunk_range_checked": None,
         "v2_levels_le_compressed": None, "v2_levels_le_uncompressed": None}
    md = _read("metadata/mod.rs")
    m = re.search(r"const\s+FOOTER_SIZE\s*:\s*usize\s*=\s*(\d+)\s*;", md)
    if m:
        t["footer_size"] = int(m.group(1))
    m = re.search(r"const\s+MIN_FILE_SIZE\s*:\s*u64\s*=\s*(\d+)\s*;", md)
    if m:
        t["min_file_size"] = int(m.group(1))
    body = _fn_body(_read("metadata/loader.rs"), "load_from_file")
    if body:
        a = body.find("let metadata_len")
        b = body.find("read_buf.resize(metadata_len")
        if 0 <= a < b:
            mid = body[a:b]
            t["footer_len_checked"] = bool(re.search(r"\bsize\b", mid))
    th = _read("thrift.rs")
    sb, mb = _fn_body(th, "read_set_begin"), _fn_body(th, "read_map_begin")
    if sb is not None and mb is not None:
        t["setmap_implemented"] = ("unimplemented!" not in sb) and ("unimplemented!" not in mb)
    db = _fn_body(th, "read_double")
    if db is not None:
        if re.search(r"self\.buf\[\s*\.\.\s*8\s*\]", db) and ".get(" not in db and "len()" not in db:
            t["double_checked"] = False
        elif ".get(" in db or "len()" in db:
            t["double_checked"] = True
    vb = _fn_body(th, "read_vlq")
    if vb is not None and "<< shift" in vb.replace("<<shift", "<< shift"):
        t["vlq_shift_checked"] = bool(re.search(r"shift\s*(>=|>|==)\s*\d+|\d+\s*(<=|<)\s*shift", vb))
    elif vb is not None and ("checked_shl" in vb or "wrapping_shl" in vb):
        t["vlq_shift_checked"] = True
    fb = _fn_body(th, "read_field_begin")
    if fb is not None:
        if re.search(r"last_read_field_id\s*\+=\s*field_delta", fb):
            t["fid_add_checked"] = False
        elif "wrapping_add" in fb or "checked_add" in fb:
            t["fid_add_checked"] = True
    lb = _fn_body(th, "read_list_set_begin")
    if lb is not None and "element_count" in lb:
        t["list_len_checked"] = ("buf.len()" in lb) or ("remaining" in lb)
    # column/page_reader.rs: is the length of the page body compared with the decompressed buffer before copy_from_slice?
    pr = _read("column/page_reader.rs")
    ncopy = len(re.findall(r"dest\.copy_from_slice\(src\)", pr))
    if ncopy:
        nchk = len(re.findall(r"src\.len\(\)\s*!=\s*dest\.len\(\)|dest\.len\(\)\s*!=\s*src\.len\(\)", pr))
        # alternative shape of the repair: both header sizes converted with usize::try_from and compared once up front
        conv = re.search(r"usize::try_from\(\s*metadata\.compressed_page_size", pr) and re.search(r"usize::try_from\(\s*metadata\.uncompressed_page_size", pr)
        t["page_copy_len_checked"] = nchk >= ncopy or bool(conv)
    # page_reader.rs prepare_data_page_v2, compressed branch: rep + def level byte lengths compared with BOTH page sizes
    v2 = _fn_body(pr, "prepare_data_page_v2")
    if v2 is not None and "rep_levels_byte_len" in v2:
        a = v2.find("let uncompressed_len")
        b = v2.find("let levels_dest")
        if 0 <= a < b:
            mid = re.sub(r"\s+", " ", v2[a:b])
            t["v2_levels_le_compressed"] = bool(re.search(r"len\s*<=\s*compressed_size|compressed_size\s*>=\s*len", mid))
            t["v2_levels_le_uncompressed"] = bool(re.search(r"len\s*<=\s*uncompressed_size|uncompressed_size\s*>=\s*len", mid))
    # reader.rs fetch loop: chunk range compared with the file size before the buffer is sized, and a read of 0 bytes
    # into a non-empty buffer is an error
    rd = _read("reader.rs")
    a, b = rd.find("col.byte_range()"), rd.find("prepare_for_chunk(")
    if 0 <= a < b and "call_poll_read" in rd:
        range_chk = "call_size()" in rd[a:b] and "checked_add" in rd[a:b]
        eof_chk = bool(re.search(r"Poll::Ready\(Ok\(0\)\)\s*if\s*!read_buf\.is_empty\(\)", rd))
        t["chunk_range_checked"] = range_chk and eof_chk
    return t


def render(t):
    on = lambda x: "None" if x is None else "(Some %d)" % x
    ob = lambda x: "None" if x is None else "(Some %s)" % ("true" if x else "false")
    return "\n".join([
        "(* GENERATED on every run by vlib/tables_fault.py from /repo's working tree. Do not edit. *)",
        "From Coq Require Import NArith.", "Open Scope N_scope.", "",
        "(* crates/glaredb_ext_parquet/src/metadata/mod.rs *)",
        "Definition footer_size : option N := %s." % on(t["footer_size"]),
        "Definition min_file_size : option N := %s." % on(t["min_file_size"]), "",
        "(* shape of metadata/loader.rs and thrift.rs: is the bounds check present? *)",
        "Definition footer_len_checked : option bool := %s." % ob(t["footer_len_checked"]),
        "Definition setmap_implemented : option bool := %s." % ob(t["setmap_implemented"]),
        "Definition double_checked : option bool := %s." % ob(t["double_checked"]),
        "Definition vlq_shift_checked : option bool := %s." % ob(t["vlq_shift_checked"]),
        "Definition fid_add_checked : option bool := %s." % ob(t["fid_add_checked"]),
        "Definition list_len_checked : option bool := %s." % ob(t["list_len_checked"]),
        "(* column/page_reader.rs: every `dest.copy_from_slice(src)` of an uncompressed page is guarded by a length test *)",
        "Definition page_copy_len_checked : option bool := %s." % ob(t["page_copy_len_checked"]),
        "(* reader.rs: chunk range checked against the file size before prepare_for_chunk, and Ok(0) reads are errors *)",
        "Definition chunk_range_checked : option bool := %s." % ob(t["chunk_range_checked"]),
        "(* page_reader.rs prepare_data_page_v2 (compressed): rep + def level byte lengths <= compressed_page_size / <= uncompressed_page_size *)",
        "Definition v2_levels_le_compressed : option bool := %s." % ob(t["v2_levels_le_compressed"]),
        "Definition v2_levels_le_uncompressed : option bool := %s." % ob(t["v2_levels_le_uncompressed"]), ""])


def regenerate():
    t = scan()
    path = os.path.join(common.COQ, "gen", "TablesFault.v")
    os.makedirs(os.path.dirname(path), exist_ok=True)
    body = render(t)
    cur = open(path).read() if os.path.exists(path) else ""
    if cur != body:
        with common.Lock("coq"):
            open(path, "w").write(body)
    return t
