"""C11 — Scan pushdown and multi-file scans only skip work, never change rows.

K1: the REAL PrimitiveRowGroupPruner::should_prune / statistics::from_thrift (binary gv_prune) vs the extracted
    model (coq/model/Pruner.v) on generated (statistics, constants).
K2: Parquet files with controlled statistics from the extracted spec writer (`pq write`): SELECT cols FROM
    read_parquet(f) WHERE p  ==  the same query over a materialised copy  ==  the rows computed from the table;
    a deviation is compared with the faithful model (row groups dropped by rg_should_prune for the filters the
    engine's own EXPLAIN shows as pushed).
K3: the REAL GlobHandle over in-memory directory trees (gv_prune glob) vs the extracted walk (exact order) and
    vs the declarative meaning of the pattern; glob() / read_csv('pattern') over directory trees on disk.
K4: read_csv([..]) / read_parquet([..]) / glob forms vs the union of the single files, partitions 1..8.
K5: reusable per-partition state: read_text / read_csv / read_parquet over lists and globs of 3-8 files of
    deliberately different sizes (0, 1, around 4096, > 8000 bytes; descending / ascending / shuffled) under
    partitions 1, 2, #files-1, #files+3: rows (content byte-exact) == rows of the single files == text_multi.
K6: the glob() table function's batching: select * / count(*), count(distinct filename) from glob(pattern) under
    batch_size {1,2,3,5,2048} x partitions {1,2,4} over directories with 0,1,5,9,21 files and a nested tree
    (`**` patterns): the listed bag == the model's expansion (each path once, extracted glob_multi); read_text /
    read_csv / read_parquet over the same kind of globs with batch sizes 1..5: each file's rows exactly once."""
import fnmatch, json, os, shutil, struct, time
from . import common

PID = "C11"
PROPS = "props/C11.v"
WDIR = os.path.join(common.WORK, "prune")

# name -> (logical bits, signed, physical bits, converted_type, sql type)
ITYPES = {"i8": (8, True, 32, 15, "tinyint"), "i16": (16, True, 32, 16, "smallint"), "i32": (32, True, 32, None, "int"),
          "i64": (64, True, 64, None, "bigint"), "u8": (8, False, 32, 11, "utinyint"), "u16": (16, False, 32, 12, "usmallint"),
          "u32": (32, False, 32, 13, "uint"), "u64": (64, False, 64, 14, "ubigint")}
BOUND = [0, 1, -1, 2, 7, 20, 30, 127, 128, -128, -129, 255, 256, 32767, 32768, -32768, -32769, 65535, 65536,
         2 ** 31 - 1, 2 ** 31, -2 ** 31, -2 ** 31 - 1, 2 ** 32 - 1, 2 ** 32, 3000000000, -1294967296,
         2 ** 63 - 1, -2 ** 63, 2 ** 63, 2 ** 64 - 1]


def conv(lt, z):
    bits, signed = ITYPES[lt][0], ITYPES[lt][1]
    m = z % (1 << bits)
    return m - (1 << bits) if signed and m >= 1 << (bits - 1) else m


def lt_range(lt):
    bits, signed = ITYPES[lt][0], ITYPES[lt][1]
    return (-(1 << (bits - 1)), (1 << (bits - 1)) - 1) if signed else (0, (1 << bits) - 1)


def rel(path):
    """paths are given to the engine relative to the working directory: the local glob splitter drops the
    leading '/' of an absolute pattern (a known finding), so absolute paths cannot be used for globs"""
    return os.path.relpath(path, os.getcwd())


# ---------------------------------------------------------------- K1: should_prune
def k1_cases(rng, tier):
    n = 20000 if tier == "quick" else 200000
    cases = []
    for i in range(n):
        lt = rng.choice(list(ITYPES))
        pb = ITYPES[lt][2]
        plo, phi = -(1 << (pb - 1)), (1 << (pb - 1)) - 1
        pool = [b for b in BOUND if plo <= b <= phi]

        def pv():
            if rng.chance(60):
                return rng.choice(pool)
            return plo + rng.next() % (phi - plo + 1)
        mn = None if rng.chance(8) else pv()
        mx = None if rng.chance(8) else pv()
        if mn is not None and mx is not None and rng.chance(70) and mn > mx:
            mn, mx = mx, mn
        lo, hi = lt_range(lt)
        consts = []
        for _ in range(rng.choice([0, 1, 1, 1, 2, 2, 3])):
            r = rng.below(100)
            if r < 66:
                near = [conv(lt, x) + d for x in (mn, mx) if x is not None for d in (-1, 0, 1)]
                cand = [c for c in near if lo <= c <= hi] or [lo]
                v = rng.choice(cand) if rng.chance(60) else rng.choice([b for b in BOUND if lo <= b <= hi] + [lo, hi])
                consts.append((lt, v))
            elif r < 74:
                consts.append(("null", None))
            elif r < 80:
                consts.append(("unknown", None))
            elif r < 86:
                other = rng.choice([t for t in ITYPES if t != lt])
                olo, ohi = lt_range(other)
                consts.append((other, rng.choice([b for b in BOUND if olo <= b <= ohi])))
            elif r < 97:
                k = rng.choice(["date32", "date64", "dec64", "ts"])
                # moderate magnitudes only: the error path formats the constant, and Display of an extreme
                # Date32 / Timestamp / Decimal64 scalar panics (outside this property, reported to the lead)
                consts.append((k, rng.choice([b for b in BOUND if -70000 <= b <= 70000])))
            else:
                consts.append(("utf8", None))
        if rng.chance(45):
            # through the thrift struct
            use_old, use_new = rng.choice([(True, False), (False, True), (True, True), (False, False)])
            c = {"id": i, "op": "thrift", "lt": lt, "phys": "i%d" % pb,
                 "old_min": None if not use_old or mn is None else str(mn), "old_max": None if not use_old or mx is None else str(mx),
                 "new_min": None if not use_new or mn is None else str(mn if not use_old else pv()),
                 "new_max": None if not use_new or mx is None else str(mx if not use_old else pv()),
                 "nulls": rng.choice([None, "0", "5", "-1" if rng.chance(10) else "3"]),
                 "min_exact": rng.choice([None, True, False]), "max_exact": rng.choice([None, True, False])}
        else:
            c = {"id": i, "op": "prune", "lt": lt, "phys": "i%d" % pb, "min": None if mn is None else str(mn),
                 "max": None if mx is None else str(mx), "min_exact": not rng.chance(10), "max_exact": not rng.chance(10)}
        c["consts"] = [{"k": k} if v is None else {"k": k, "v": str(v)} for k, v in consts]
        cases.append(c)
    return cases


def const_tok(c):
    k = c["k"]
    if k == "null":
        return "N"
    if k == "unknown":
        return "U"
    if k == "utf8":
        return "(other 0)"
    return "(%s %s)" % (k, c["v"])


def oz(x):
    return "-" if x is None else str(x)


def k1_model_line(c):
    cs = " ".join(const_tok(x) for x in c["consts"])
    if c["op"] == "prune":
        return "(sp %s (st %s %s %d %d) (cs %s))" % (c["lt"], oz(c["min"]), oz(c["max"]), c["min_exact"], c["max_exact"], cs)
    return "(th %s (t %s %s %s %s %s) (cs %s))" % (c["lt"], oz(c["old_max"]), oz(c["old_min"]), oz(c["nulls"]),
                                                  oz(c["new_max"]), oz(c["new_min"]), cs)


def stage_prune(ctx, rng, gvprune, gmodel):
    cases = k1_cases(rng, ctx["tier"])
    real = common.run_harness(gvprune, [], cases, timeout=600)
    model = common.run_model(gmodel, "run", [k1_model_line(c) for c in cases], timeout=600)
    mism, distinct, pruned = [], set(), 0
    for c, r, m in zip(cases, real, model):
        if c["op"] == "prune":
            got = r.get("out", "ABORT")
        else:
            got = "%s | %s" % (r.get("out", "ABORT"), r.get("stats", "?"))
            if r.get("stats") == "ERR":
                got = "ERR | ERR"
        if got != m:
            mism.append({"case": c, "real": r, "model": m})
            continue
        pruned += got.startswith("true")
        distinct.add((c["lt"], c["op"], got.split(" | ")[0], tuple(x["k"] for x in c["consts"]),
                      c.get("min") is None, c.get("max") is None))
    return {"cases": len(cases), "mismatches": mism, "distinct": len(distinct), "pruned_true": pruned,
            "sample": {"case": cases[0], "real": real[0], "model": model[0]}}


# ---------------------------------------------------------------- K3: glob over in-memory trees
FILE_NAMES = ["a.csv", "b.csv", "ab.csv", "c.txt", "x", "s1", "d.csv", "z.csv"]
DIR_NAMES = ["s1", "s2", "t", "d.csv", "a"]
SEG_POOL = ["*", "*.csv", "s*", "?.csv", "s1", "**", "[ab].csv", "{a,b}.csv", "*.{csv,txt}", "a.csv", "t", "?", "**", "*.csv", "s?"]


def gen_tree(rng, name, depth):
    kids, used = [], set()
    for _ in range(rng.below(5)):
        if depth > 0 and rng.chance(45):
            n = rng.choice(DIR_NAMES)
            if n not in used:
                used.add(n)
                kids.append(gen_tree(rng, n, depth - 1))
        else:
            n = rng.choice(FILE_NAMES)
            if n not in used:
                used.add(n)
                kids.append({"n": n})
    return {"n": name, "c": kids}


def gen_pattern(rng):
    k = 1 + rng.below(4)
    segs = [rng.choice(SEG_POOL) for _ in range(k)]
    if not any(ch in s for s in segs for ch in "*?[{"):
        segs[rng.below(k)] = rng.choice(["*", "*.csv", "**"])
    return segs


def find_dir(tree, comps):
    node = tree
    if not comps or comps[0] != tree["n"]:
        return None
    for c in comps[1:]:
        nxt = [k for k in node.get("c", []) if k["n"] == c and "c" in k]
        if not nxt:
            return None
        node = nxt[0]
    return node


def dstar_not_last(segments):
    return any(s == "**" for s in segments[:-1])


def glob_model_line(node, segments, oracle):
    ids = {}

    def nid(n):
        return ids.setdefault(n, len(ids))

    def sx(t):
        if "c" in t:
            return "(d %d %s)" % (nid(t["n"]), " ".join(sx(k) for k in t["c"]))
        return "(f %d)" % nid(t["n"])
    tree = sx(node)
    segs = " ".join("(%s %d)" % ("d" if s == "**" else "s", i) for i, s in enumerate(segments))
    table = {}
    for i, n, ok in oracle:
        if ok and n in ids:
            table.setdefault(i, []).append(ids[n])
    m = " ".join("(%d %s)" % (i, " ".join(str(x) for x in v)) for i, v in sorted(table.items()))
    return "(glob (segs %s) (tree %s) (m %s))" % (segs, tree, m), {v: k for k, v in ids.items()}


def parse_glob_model(out, names, root_dir):
    impl_s, rest = out[len("impl:"):].split("; spec:")
    spec_s, stack_s = rest.split("; stack:")

    def paths(s):
        return [root_dir + "/" + "/".join(names[int(x)] for x in p.split("/")[0:]) for p in s.split()]
    return paths(impl_s), paths(spec_s), (None if stack_s.strip() == "FUEL" else paths(stack_s))


def simple_seg(s):
    return s != "**" and all(ch.isalnum() or ch in ".*?" for ch in s)


def glob_eval(cases, real, gmodel):
    """-> per case dict(real paths, model impl, spec, status)"""
    lines, idx, names_of = [], [], {}
    res = [None] * len(cases)
    for i, (c, r) in enumerate(zip(cases, real)):
        if "segments" not in r:
            res[i] = {"status": "harness", "real": r}
            continue
        node = find_dir(c["tree"], [x for x in r["root"].split("/") if x])
        if node is None or "err" in r:
            res[i] = {"status": "root-missing" if node is None and "err" in r else "error", "real": r}
            continue
        line, names = glob_model_line(node, r["segments"], r["oracle"])
        # the root's own id is not part of the printed paths
        lines.append(line)
        idx.append(i)
        names_of[i] = names
    outs = common.run_model(gmodel, "run", lines, timeout=600)
    for i, o in zip(idx, outs):
        r = real[i]
        if not o.startswith("impl:"):
            res[i] = {"status": "model-error", "model": o, "real": r}
            continue
        impl, spec, stack = parse_glob_model(o, names_of[i], r["root"])
        if stack != impl:
            res[i] = {"status": "model-error", "model": o, "real": r, "why": "expand_stack differs from expand"}
            continue
        res[i] = {"status": "ok", "impl": impl, "spec": spec, "real": r["paths"], "segments": r["segments"], "root": r["root"]}
    return res


def stage_glob_mem(ctx, rng, gvprune, gmodel, known_ids):
    n = 8000 if ctx["tier"] == "quick" else 60000
    cases = []
    for i in range(n):
        tree = gen_tree(rng, "r", 1 + rng.below(4))
        segs = gen_pattern(rng)
        prefix = "/" if rng.chance(5) else ""
        cases.append({"id": i, "op": "glob", "pattern": prefix + "r/" + "/".join(segs), "tree": tree, "chunk": rng.choice([0, 0, 0, 1, 2])})
    # the closed witnesses of props/C11.v
    wt = {"n": "r", "c": [{"n": "a.csv"}, {"n": "s1", "c": [{"n": "b.csv"}, {"n": "s2", "c": [{"n": "c.csv"}, {"n": "s3", "c": [{"n": "d.csv"}]}]}]}]}
    cases.append({"id": n, "op": "glob", "pattern": "r/**/*.csv", "tree": wt, "chunk": 0})
    cases.append({"id": n + 1, "op": "glob", "pattern": "r/**/**/*.csv", "tree": wt, "chunk": 0})
    real = common.run_harness(gvprune, [], cases, timeout=600)
    ev = glob_eval(cases, real, gmodel)
    mism, viol, known, distinct = [], [], {}, set()
    st = {"cases": len(cases), "equal_spec": 0, "root_missing": 0, "oracle_pairs_vs_fnmatch": 0, "abs_patterns": 0}
    for c, r, e in zip(cases, real, ev):
        if e["status"] in ("root-missing", "error"):
            st["root_missing"] += 1
            continue
        if e["status"] != "ok":
            mism.append({"case": c, "eval": e})
            continue
        if c["pattern"].startswith("/"):
            st["abs_patterns"] += 1
            if not e["root"].startswith("/") and not any(v["what"].startswith("an absolute glob pattern") for v in viol):
                viol.append({"what": "an absolute glob pattern loses its leading '/': it is resolved against the working directory (repaired by ce090d193)",
                             "replay": {"gv_prune_case": c, "root_dir": e["root"]}, "no_input": False})
        same_order = e["real"] == e["impl"] if c["chunk"] == 0 else sorted(e["real"]) == sorted(e["impl"])
        if not same_order:
            mism.append({"case": c, "real": e["real"], "model": e["impl"]})
        # the segment oracle against an independent matcher, for the simple segments
        for i, nm, ok in r["oracle"]:
            seg = e["segments"][i]
            if simple_seg(seg):
                st["oracle_pairs_vs_fnmatch"] += 1
                if fnmatch.fnmatchcase(nm, seg) != ok:
                    viol.append({"what": "segment matcher disagrees with fnmatch", "replay": {"segment": seg, "name": nm, "engine": ok}, "no_input": False})
        if sorted(e["real"]) == sorted(e["spec"]):
            st["equal_spec"] += 1
            distinct.add((tuple(e["segments"]), len(e["spec"]), c["chunk"]))
            continue
        narrow = dstar_not_last(e["segments"]) and set(e["real"]) <= set(e["spec"]) and same_order
        if narrow and "glob-dstar-not-last" in known_ids:
            k = known.setdefault("glob-dstar-not-last", {"n": 0, "example": None})
            k["n"] += 1
            if c["id"] >= n or k["example"] is None:
                missing = sorted(set(e["spec"]) - set(e["real"]))
                dups = sorted(set(p for p in e["real"] if e["real"].count(p) > 1))
                k["example"] = "GlobHandle('%s') over the tree of C11_glob_exact_refuted_*: missing %s, returned twice %s" % (c["pattern"], missing[:3], dups[:3]) \
                    if c["id"] >= n else "GlobHandle('%s'): missing %s, twice %s" % (c["pattern"], missing[:3], dups[:3])
        else:
            viol.append({"what": "glob expansion differs from the files matching the pattern",
                         "replay": {"gv_prune_case": c, "real": e["real"], "want": e["spec"], "faithful_model": e["impl"]}, "no_input": False})
    return {"stats": st, "mismatches": mism, "viol": viol, "known": known, "distinct": len(distinct),
            "sample": {"pattern": cases[0]["pattern"], "real": ev[0].get("real") if isinstance(ev[0], dict) else None}}


# ---------------------------------------------------------------- K3b: glob() / read_csv(pattern) on disk
def write_tree(base, tree, counter, rows_of):
    os.makedirs(base, exist_ok=True)
    for k in tree.get("c", []):
        p = os.path.join(base, k["n"])
        if "c" in k:
            write_tree(p, k, counter, rows_of)
        else:
            fid = counter[0]
            counter[0] += 1
            rows = [(fid, j) for j in range(1 + fid % 3)]
            rows_of[p] = rows
            with open(p, "w") as g:
                g.write("a,b\n" + "".join("%d,%d\n" % r for r in rows))


def sql_fail(res):
    if res is None:
        return "not-run"
    if "panic" in res:
        return "panic:" + res["panic"][:160]
    if "hang" in res or "timeout" in res:
        return "hang"
    if res.get("ok") is False:
        return "err:" + res.get("err", "")[:160]
    return None


def stage_glob_disk(ctx, rng, gverif, gvprune, gmodel, known_ids):
    ntrees = 16 if ctx["tier"] == "quick" else 80
    base = os.path.join(WDIR, "gt")
    shutil.rmtree(base, ignore_errors=True)
    mem_cases, plan = [], []
    wt = {"n": "r", "c": [{"n": "a.csv"}, {"n": "s1", "c": [{"n": "b.csv"}, {"n": "s2", "c": [{"n": "c.csv"}, {"n": "s3", "c": [{"n": "d.csv"}]}]}]}]}
    for t in range(ntrees):
        tree = wt if t == 0 else gen_tree(rng, "r", 1 + rng.below(3))
        rows_of = {}
        root = os.path.join(base, "t%d" % t)
        write_tree(os.path.join(root, "r"), tree, [t * 100], rows_of)
        pats = [["**", "*.csv"], ["**", "**", "*.csv"], ["*.csv"], ["**"]] if t == 0 else [gen_pattern(rng) for _ in range(5)]
        for segs in pats:
            mem_cases.append({"id": len(mem_cases), "op": "glob", "pattern": "r/" + "/".join(segs), "tree": tree, "chunk": 0})
            plan.append((t, root, segs, rows_of))
    real_mem = common.run_harness(gvprune, [], mem_cases, timeout=300)
    ev = glob_eval(mem_cases, real_mem, gmodel)
    send = []
    for i, (t, root, segs, rows_of) in enumerate(list(plan)):
        use_abs = bool(i % 2)
        pat = (os.path.join(root, "r") if use_abs else rel(os.path.join(root, "r"))) + "/" + "/".join(segs)
        plan[i] = (t, root, segs, rows_of, use_abs)
        send.append({"id": "g%d" % i, "mode": "threaded", "threads": 2, "timeout_s": 60,
                     "stmts": ["set partitions to %d" % rng.choice([1, 3]), "select * from glob('%s')" % pat,
                               "select a, b, _filename from read_csv('%s')" % pat]})
    res = common.run_harness(gverif, "sql", send, timeout=900)
    viol, known, st = [], {}, {"patterns": len(plan), "glob_equal_spec": 0, "read_csv_equal_spec": 0, "skipped": 0, "absolute_patterns": 0}
    for i, ((t, root, segs, rows_of, use_abs), e, r) in enumerate(zip(plan, ev, res)):
        if e["status"] != "ok":
            st["skipped"] += 1
            continue
        st["absolute_patterns"] += use_abs
        pre = (root if use_abs else rel(root)) + "/"
        want_spec = sorted(pre + p for p in e["spec"])
        want_impl = sorted(pre + p for p in e["impl"])
        rs = r.get("results") or []
        g = rs[1] if len(rs) > 1 else None
        rc = rs[2] if len(rs) > 2 else None
        got = sorted(x[0][1:] for x in g["rows"]) if g is not None and sql_fail(g) is None else None
        replay = {"dir": os.path.join(root, "r"), "sql": send[i]["stmts"], "want_files": want_spec, "faithful_model_files": want_impl}

        def rows_for(files):
            out = []
            for f in files:
                out += [["I%d" % a, "I%d" % b, "S" + f] for a, b in rows_of[os.path.abspath(f)]]
            return sorted(json.dumps(x) for x in out)
        ok_glob = got == want_spec
        if rc is not None and sql_fail(rc) is None:
            got_rows = sorted(json.dumps(x) for x in rc["rows"])
        elif rc is not None and "No files for path" in rc.get("err", ""):
            got_rows = []
        else:
            got_rows = None
        ok_csv = got_rows == rows_for(want_spec)
        st["glob_equal_spec"] += ok_glob
        st["read_csv_equal_spec"] += ok_csv
        if ok_glob and ok_csv:
            continue
        narrow = dstar_not_last(segs) and got == want_impl and got_rows == rows_for(want_impl)
        if narrow and "glob-dstar-not-last" in known_ids:
            k = known.setdefault("glob-dstar-not-last", {"n": 0, "example": None})
            k["n"] += 1
            if t == 0 or k["example"] is None:
                k["example"] = "%s -> %d file name(s) instead of %d; read_csv over it returns %d row(s) instead of %d" % (
                    send[i]["stmts"][1], len(got), len(want_spec), len(got_rows), len(rows_for(want_spec)))
        else:
            viol.append({"what": "glob() / read_csv(pattern) differs from the files matching the pattern",
                         "replay": dict(replay, got_files=got, got_rows=None if got_rows is None else len(got_rows),
                                        failure=[sql_fail(g), sql_fail(rc)]), "no_input": False})
    return {"stats": st, "viol": viol, "known": known}


# ---------------------------------------------------------------- K2: Parquet files with controlled statistics
def phys_tok(v, pb):
    return "N" if v is None else str(v & ((1 << pb) - 1))


def le_hex(v, pb):
    return "x" + (v & ((1 << pb) - 1)).to_bytes(pb // 8, "little").hex()


def gen_pq_col(rng, name, t, n, rgs):
    bits, signed, pb, convt, sqlt = ITYPES[t]
    lo, hi = lt_range(t)
    pool = sorted(set([lo, hi, 0, 1, 7, 20, 25, 30, 3000000000, hi // 2 + 1, max(lo, hi - 5)]))
    pool = [v for v in pool if lo <= v <= hi]
    dom = [rng.choice(pool) for _ in range(2 + rng.below(4))]
    optional = rng.chance(40)
    vals = [rng.choice(dom) for _ in range(n)]
    if optional:
        nullrg = rng.below(len(rgs)) if rng.chance(40) else -1
        for gi, (a, b) in enumerate(rgs):
            for i in range(a, b):
                if gi == nullrg or rng.chance(20):
                    vals[i] = None
    mode = rng.choice(["none", "new", "new", "old", "old", "both", "nulls", "new-inexact", "new-exact", "raw-wide"])
    if not signed and rng.chance(30):
        mode = "old"
    chunks = {}
    if rng.chance(20):
        chunks[rng.below(len(rgs))] = "absent"
    return {"name": name, "t": t, "optional": optional, "vals": vals, "mode": mode, "chunks": chunks, "dom": dom, "pool": pool}


def phys_val(t, v):
    """logical value -> the signed native value of the physical type"""
    pb = ITYPES[t][2]
    m = v & ((1 << pb) - 1)
    return m - (1 << pb) if m >= 1 << (pb - 1) else m


def col_chunk_stats(col, rgs):
    """per row group: (writer clause override or None, thrift view (omx, omn, nulls, nmx, nmn) or None)"""
    t = col["t"]
    bits, signed, pb, convt, sqlt = ITYPES[t]
    mode = col["mode"]
    out = []
    for gi, (a, b) in enumerate(rgs):
        cells = col["vals"][a:b]
        nn = [v for v in cells if v is not None]
        nulls = len(cells) - len(nn)
        if col["chunks"].get(gi) == "absent" or mode == "none":
            out.append(("absent" if col["chunks"].get(gi) == "absent" else None, None))
            continue
        if mode == "nulls":
            out.append((None, (None, None, nulls, None, None)))
            continue
        # `both`: one order for the two pairs of fields; the reader takes min_value/max_value when present,
        # so the order must be the logical type's for the file to be valid
        order_signed = True if mode == "old" else signed
        key = (lambda v: phys_val(t, v)) if order_signed else (lambda v: v & ((1 << pb) - 1))
        mn = min(nn, key=key) if nn else None
        mx = max(nn, key=key) if nn else None
        if mode == "raw-wide" and nn:
            lo, hi = lt_range(t)
            mn, mx = max(lo, mn - 5), min(hi, mx + 5)
            clause = "(chunk %d raw %s %s %d)" % (gi, le_hex(mn, pb), le_hex(mx, pb), nulls)
        else:
            clause = None
        pmn = None if mn is None else phys_val(t, mn)
        pmx = None if mx is None else phys_val(t, mx)
        if mode == "old":
            out.append((clause, (pmx, pmn, nulls, None, None)))
        elif mode == "both":
            out.append((clause, (pmx, pmn, nulls, pmx, pmn)))
        else:
            out.append((clause, (None, None, nulls, pmx, pmn)))
    return out


def pq_col_clause(col, rgs):
    t = col["t"]
    if t == "utf8":
        return '(col (name "%s") (type bytes) (conv 0) (optional 0) (stats new nulls unsigned) (vals %s))' % (
            col["name"], " ".join("x" + v.encode().hex() for v in col["vals"]))
    if t == "f64":
        return '(col (name "%s") (type f64) (optional 0) (stats new nulls) (vals %s))' % (
            col["name"], " ".join(str(struct.unpack("<Q", struct.pack("<d", v))[0]) for v in col["vals"]))
    if t == "date":
        return '(col (name "%s") (type i32) (conv 6) (optional 0) (stats new nulls) (vals %s))' % (
            col["name"], " ".join(str(v & 0xffffffff) for v in col["vals"]))
    bits, signed, pb, convt, sqlt = ITYPES[t]
    mode = col["mode"]
    items = []
    if mode != "none":
        if mode == "old":
            items += ["old", "signed"]
        elif mode == "both":
            items += ["old", "new", "signed" if signed else "unsigned"]
        elif mode != "nulls":
            items += ["new", "signed" if signed else "unsigned"]
        items.append("nulls")
        if mode in ("new-inexact", "raw-wide"):
            items.append("exact:0")
        if mode == "new-exact":
            items.append("exact:1")
    for gi, (clause, _) in enumerate(col_chunk_stats(col, rgs)):
        if clause == "absent":
            items.append("(chunk %d absent)" % gi)
        elif clause:
            items.append(clause)
    stats = "(stats %s)" % " ".join(items) if items else ""
    return '(col (name "%s") (type i%d) (conv %s) (optional %d) %s (vals %s))' % (
        col["name"], pb, "none" if convt is None else convt, 1 if col["optional"] else 0, stats,
        " ".join(phys_tok(v, pb) for v in col["vals"]))


def cell_of(col, v):
    if v is None:
        return "N"
    if col["t"] == "utf8":
        return "S" + v
    if col["t"] == "date":
        return "T%d" % v
    if col["t"] == "f64":
        return "F%x" % struct.unpack("<Q", struct.pack("<d", v))[0]
    return "I%d" % v


def lit(col, v, typed):
    if v is None:
        return "NULL"
    if col["t"] in ITYPES:
        return "cast('%d' as %s)" % (v, ITYPES[col["t"]][4]) if typed else str(v)
    if col["t"] == "f64":
        return "cast('%r' as double)" % v
    if col["t"] == "date":
        import datetime
        return "date '%s'" % (datetime.date(1970, 1, 1) + datetime.timedelta(days=v)).isoformat()
    return "'%s'" % v


def gen_pq_file(rng, path, like=None, directed=None):
    """one Parquet file; `like`: same column names / types / optionality as that file, everything else new"""
    if directed == "w29":
        rgs, n, sizes = [(0, 3), (3, 6)], 6, [3]
        cols = [{"name": "rid", "t": "i32", "optional": False, "vals": list(range(6)), "mode": "none", "chunks": {}, "dom": [], "pool": []},
                {"name": "a", "t": "u32", "optional": False, "vals": [1, 3000000000, 7, 20, 25, 30], "mode": "old", "chunks": {},
                 "dom": [1, 3000000000, 7, 25], "pool": [1, 3000000000, 7, 25, 8]}]
    else:
        n = rng.choice([1, 2, 3, 6, 9, 14, 20])
        sizes = [rng.choice([1, 2, 3, 5, n])]
        rgs, pos = [], 0
        while pos < n:
            rgs.append((pos, min(n, pos + sizes[0])))
            pos += sizes[0]
        base = 0 if like is None else 100
        cols = [{"name": "rid", "t": "i32", "optional": False, "vals": list(range(base, base + n)), "mode": rng.choice(["none", "new"]), "chunks": {},
                 "dom": list(range(base, base + n)), "pool": list(range(base, base + n)) + [n + 3]}]
        if like is None:
            for ci in range(1 + rng.below(3)):
                cols.append(gen_pq_col(rng, "c%d" % ci, rng.choice(list(ITYPES)), n, rgs))
            extra = [t for t, pct in (("utf8", 35), ("f64", 25), ("date", 25)) if rng.chance(pct)]
        else:
            for c in like["cols"][1:]:
                if c["t"] in ITYPES:
                    nc = gen_pq_col(rng, c["name"], c["t"], n, rgs)
                    if not c["optional"]:
                        nc["optional"] = False
                        nc["vals"] = [rng.choice(nc["dom"]) if v is None else v for v in nc["vals"]]
                    else:
                        nc["optional"] = True
                    if rng.chance(50):      # share values with the first file so that lookups hit both
                        nc["vals"] = [v if v is None or rng.chance(50) else rng.choice(c["dom"]) for v in nc["vals"]]
                    cols.append(nc)
            extra = [c["t"] for c in like["cols"] if c["t"] not in ITYPES]
        for t in extra:
            if t == "utf8":
                cols.append({"name": "s", "t": "utf8", "optional": False, "vals": [rng.choice(["a", "b", "zz"]) for _ in range(n)], "dom": ["a", "b", "q"], "pool": ["a", "b", "q"]})
            elif t == "f64":
                cols.append({"name": "x", "t": "f64", "optional": False, "vals": [rng.choice([0.5, -1.5, 2.0]) for _ in range(n)], "dom": [0.5, -1.5, 7.25], "pool": [0.5, 2.0, 7.25]})
            else:
                cols.append({"name": "d", "t": "date", "optional": False, "vals": [rng.choice([0, 3, 20000]) for _ in range(n)], "dom": [0, 3, 5], "pool": [0, 3, 5]})
    spec = '(file (out "%s") (rgs %s) %s)' % (path, " ".join(str(x) for x in sizes), " ".join(pq_col_clause(c, rgs) for c in cols))
    return {"path": path, "f": rel(path), "spec": spec, "cols": cols, "rgs": rgs, "n": n}


def gen_pq_case(rng, idx, directed=None):
    f0 = gen_pq_file(rng, os.path.join(WDIR, "p%d.parquet" % idx), directed=directed)
    files = [f0]
    if not directed and rng.chance(30):
        for k in range(1 + rng.below(2)):
            files.append(gen_pq_file(rng, os.path.join(WDIR, "p%d_%d.parquet" % (idx, k + 1)), like=f0))
        if rng.chance(20):
            files.append(files[0])         # the same file twice
    cols = f0["cols"]
    ncols = len(cols)

    def value_for(ci):
        fl = rng.choice(files)
        c = fl["cols"][ci]
        v = rng.choice(c["dom"]) if rng.chance(70) else rng.choice(c["pool"])
        return None if rng.chance(5) else v
    queries = []
    names = [c["name"] for c in cols]
    nq = 3 if directed else 7
    for qi in range(nq):
        sel = [rng.choice(names + ["_filename", "_rowid"]) for _ in range(1 + rng.below(4))]
        conj = []
        if directed == "w29":
            sel = ["a"] if qi < 2 else ["a", "_rowid", "a"]
            conj = [("eq", 1, [1, 7, 3000000000][qi], True)]
        else:
            for _ in range(1 + rng.below(2)):
                ci = rng.below(ncols)
                c = cols[ci]
                isint = c["t"] in ITYPES
                r = rng.below(100)
                if r < 55 or not isint:
                    conj.append(("eq", ci, value_for(ci), rng.chance(80) or not isint))
                elif r < 65:
                    conj.append(("eqrev", ci, value_for(ci), True))
                elif r < 75:
                    v = value_for(ci)
                    conj.append(("ge", ci, 0 if v is None else v, True))
                elif r < 83:
                    conj.append(("in", ci, [x for x in (value_for(ci), value_for(ci)) if x is not None] or [0], True))
                elif r < 90:
                    conj.append(("isnull", ci, None, False))
                elif r < 95:
                    conj.append(("neq_not", ci, value_for(ci) or 0, True))
                else:
                    # the same column twice: two constants for one pruner
                    v1, v2 = value_for(ci), value_for(ci)
                    conj.append(("eq", ci, v1, True))
                    conj.append(("eq", ci, v2, True))
            r = rng.below(100)
            if r < 8:
                conj.append(("rid_ge", 0, 0, False))
            elif r < 18:
                conj.append(("rowid_eq", None, rng.below(max(f["n"] for f in files)), False))
            elif r < 24:
                conj.append(("fname_eq", None, rng.choice(files)["f"], False))
            elif r < 28 and ncols > 2 and cols[1]["t"] in ITYPES and cols[2]["t"] in ITYPES:
                conj.append(("coleq", 1, 2, False))
        orform = (not directed) and rng.chance(10) and len(conj) == 2
        queries.append({"sel": sel, "conj": conj, "or": orform})
    return {"id": "p%d" % idx, "files": files, "queries": queries, "directed": directed}


def where_sql(case, q):
    cols = case["files"][0]["cols"]
    parts = []
    for kind, ci, v, typed in q["conj"]:
        c = cols[ci] if isinstance(ci, int) else None
        if kind == "eq":
            parts.append("%s = %s" % (c["name"], lit(c, v, typed)))
        elif kind == "eqrev":
            parts.append("%s = %s" % (lit(c, v, typed), c["name"]))
        elif kind == "ge":
            parts.append("%s >= %s" % (c["name"], lit(c, v, typed)))
        elif kind == "in":
            parts.append("%s in (%s)" % (c["name"], ", ".join(lit(c, x, typed) for x in v)))
        elif kind == "isnull":
            parts.append("%s is null" % c["name"])
        elif kind == "neq_not":
            parts.append("not (%s <> %s)" % (c["name"], lit(c, v, typed)))
        elif kind == "rid_ge":
            parts.append("rid >= 0")
        elif kind == "rowid_eq":
            parts.append("_rowid = %d" % v)
        elif kind == "fname_eq":
            parts.append("_filename = '%s'" % v)
        elif kind == "coleq":
            parts.append("%s = %s" % (cols[ci]["name"], cols[v]["name"]))
    return (" or " if q["or"] else " and ").join("(%s)" % x for x in parts)


def row_passes(fl, q, i):
    res = []
    for kind, ci, v, typed in q["conj"]:
        cell = fl["cols"][ci]["vals"][i] if isinstance(ci, int) else None
        if kind in ("eq", "eqrev", "neq_not"):
            res.append(cell is not None and v is not None and cell == v)
        elif kind == "ge":
            res.append(cell is not None and cell >= v)
        elif kind == "in":
            res.append(cell is not None and cell in v)
        elif kind == "isnull":
            res.append(cell is None)
        elif kind == "rid_ge":
            res.append(True)
        elif kind == "rowid_eq":
            res.append(i == v)
        elif kind == "fname_eq":
            res.append(fl["f"] == v)
        elif kind == "coleq":
            a, b = fl["cols"][ci], fl["cols"][v]
            x, y = a["vals"][i], b["vals"][i]
            res.append(x is not None and y is not None and x == y)
    return any(res) if q["or"] else all(res)


def proj_row(fl, q, i):
    out = []
    for s in q["sel"]:
        if s == "_filename":
            out.append("S" + fl["f"])
        elif s == "_rowid":
            out.append("I%d" % i)
        else:
            c = [c for c in fl["cols"] if c["name"] == s][0]
            out.append(cell_of(c, c["vals"][i]))
    return out


def parse_pushed(explain_rows):
    """`data_scan_filters: [a = 3, rid = 2]` of the optimized plan -> [(column name, int or None)]"""
    for row in explain_rows or []:
        if row and row[0] == "Soptimized":
            txt = row[1]
            k = txt.find("data_scan_filters: [")
            if k < 0:
                return []
            body = txt[k + len("data_scan_filters: ["):]
            body = body[:body.find("]")]
            out = []
            for part in [p.strip() for p in body.split(",") if p.strip()]:
                part = part.strip("()")
                if " = " not in part:
                    out.append((None, part))
                    continue
                l, r = [x.strip() for x in part.split(" = ", 1)]
                col, const = (l, r) if not l.lstrip("-").isdigit() and l != "NULL" else (r, l)
                try:
                    out.append((col, int(const)))
                except ValueError:
                    out.append((col, None if const == "NULL" else const))
            return out
    return []


def stage_pq(ctx, rng, gverif, gmodel, known_ids):
    nfiles = 120 if ctx["tier"] == "quick" else 2000
    os.makedirs(WDIR, exist_ok=True)
    cases = [gen_pq_case(rng, 0, "w29")] + [gen_pq_case(rng, i) for i in range(1, nfiles)]
    gpq = common.build_ocaml("pq")
    specs, seen = [], set()
    for c in cases:
        for fl in c["files"]:
            if fl["path"] not in seen:
                seen.add(fl["path"])
                specs.append(fl["spec"])
    metas = common.run_model(gpq, "write", specs, timeout=900)
    wfail = [m for m in metas if '"error"' in m]
    send = []
    for c in cases:
        fs = [fl["f"] for fl in c["files"]]
        arg = "'%s'" % fs[0] if len(fs) == 1 else "[" + ", ".join("'%s'" % f for f in fs) + "]"
        c["arg"] = arg
        stmts = ["create temp table m as select *, _filename, _rowid from read_parquet(%s)" % arg]
        c["slots"] = []
        for q in c["queries"]:
            w = where_sql(c, q)
            sel = ", ".join(q["sel"])
            s0 = len(stmts)
            stmts.append("explain select %s from read_parquet(%s) where %s" % (sel, arg, w))
            for p in (1, 4):
                stmts += ["set partitions to %d" % p, "select %s from read_parquet(%s) where %s" % (sel, arg, w),
                          "select %s from m where %s" % (sel, w)]
            c["slots"].append(s0)
        send.append({"id": c["id"], "mode": "threaded", "threads": 4, "stmts": stmts, "timeout_s": 90})
    real = common.run_harness(gverif, "sql", send, timeout=1800)
    viol, known = [], {}
    if wfail:
        viol.append({"what": "spec writer failed", "replay": {"errors": wfail[:3]}, "no_input": False})
    st = {"cases": len(cases), "files": len(specs), "multi_file_cases": sum(len(c["files"]) > 1 for c in cases), "queries": 0, "equal_spec": 0,
          "pushed_queries": 0, "model_predicts_drop": 0, "multi_file_queries_with_drop": 0}
    distinct = set()
    model_lines, pending = [], []
    for c, r, sd in zip(cases, real, send):
        rs = r.get("results") or []
        wspecs = [fl["spec"] for fl in c["files"]]
        if not rs or sql_fail(rs[0]):
            viol.append({"what": "reading / materialising valid Parquet file(s) fails",
                         "replay": {"write_spec": wspecs, "sql": sd["stmts"][:1], "failure": sql_fail(rs[0]) if rs else json.dumps(r)[:300]}, "no_input": False})
            continue
        cols0 = c["files"][0]["cols"]
        for q, s0 in zip(c["queries"], c["slots"]):
            ex = rs[s0] if s0 < len(rs) else None
            pushed = parse_pushed(ex.get("rows")) if ex and ex.get("ok") else []
            want = sorted(json.dumps(proj_row(fl, q, i)) for fl in c["files"] for i in range(fl["n"]) if row_passes(fl, q, i))
            # faithful model: which row groups does rg_should_prune drop for the pushed filters
            refd = set(i for i, col in enumerate(cols0) if col["name"] in q["sel"])
            for k, ci, v, t in q["conj"]:
                if isinstance(ci, int):
                    refd.add(ci)
                if k == "coleq":
                    refd.add(v)
            refd = sorted(refd)
            fl_tokens = []
            for colname, const in pushed:
                ci = [i for i, col in enumerate(cols0) if col["name"] == colname]
                if not ci or cols0[ci[0]]["t"] not in ITYPES or not isinstance(const, int):
                    if ci and const is None:
                        fl_tokens.append("(f %d N)" % ci[0])
                    continue
                fl_tokens.append("(f %d (%s %d))" % (ci[0], cols0[ci[0]]["t"], const))
            per_file = []
            for fl in c["files"]:
                stats_of = {ci: col_chunk_stats(fl["cols"][ci], fl["rgs"]) for ci in refd if fl["cols"][ci]["t"] in ITYPES}
                per_rg = []
                for gi in range(len(fl["rgs"])):
                    colcl = []
                    for ci in refd:
                        col = fl["cols"][ci]
                        if col["t"] not in ITYPES:
                            colcl.append("(col %d nop none)" % ci)
                            continue
                        tv = stats_of[ci][gi][1]
                        colcl.append("(col %d %s %s)" % (ci, col["t"], "none" if tv is None else "(t %s %s %s %s %s)" % tuple(oz(x) for x in tv)))
                    model_lines.append("(rg (prj %s) %s (fs %s))" % (" ".join(str(x) for x in refd), " ".join(colcl), " ".join(fl_tokens)))
                    per_rg.append(len(model_lines) - 1)
                per_file.append(per_rg)
            pending.append((c, q, s0, rs, sd, pushed, want, per_file))
    outs = common.run_model(gmodel, "run", model_lines, timeout=900) if model_lines else []
    for (c, q, s0, rs, sd, pushed, want, per_file) in pending:
        drops = [[outs[k] for k in per_rg] for per_rg in per_file]
        faithful = sorted(json.dumps(proj_row(fl, q, i)) for fl, dr in zip(c["files"], drops) for gi, (a, b) in enumerate(fl["rgs"])
                          if dr[gi] != "true" for i in range(a, b) if row_passes(fl, q, i))
        anydrop = any(d == "true" for dr in drops for d in dr)
        st["pushed_queries"] += bool(pushed)
        st["model_predicts_drop"] += anydrop
        st["multi_file_queries_with_drop"] += anydrop and len(c["files"]) > 1
        if faithful != want:
            # the model itself says a pruned row group holds a passing row: outside every proved case
            viol.append({"what": "the faithful pruner model drops a row group that holds a row passing the predicate (valid statistics)",
                         "replay": {"case": c["id"], "write_spec": [fl["spec"] for fl in c["files"]], "where": where_sql(c, q),
                                    "pushed_filters_per_explain": pushed, "row_groups_dropped_by_model": drops}, "no_input": False})
        for pi, p in enumerate((1, 4)):
            k = s0 + 1 + 3 * pi
            rq = rs[k + 1] if k + 1 < len(rs) else None
            rm = rs[k + 2] if k + 2 < len(rs) else None
            st["queries"] += 1
            sqls = [sd["stmts"][k], sd["stmts"][k + 1]]
            replay = {"case": c["id"], "write_spec": [fl["spec"] for fl in c["files"]], "sql": sqls, "materialised_sql": [sd["stmts"][0], sd["stmts"][k + 2]],
                      "pushed_filters_per_explain": pushed,
                      "how": "echo '<write_spec>' | .work/ocaml/pq/pq write (one line per file); run the sql with gverif sql from " + os.getcwd()}
            fq, fm = sql_fail(rq), sql_fail(rm)
            if fm or sorted(json.dumps(x) for x in rm["rows"]) != want:
                viol.append({"what": "query over the materialised copy differs from the table the file(s) encode",
                             "replay": dict(replay, failure=fm, want=want[:10], got=(rm or {}).get("rows", [])[:10]), "no_input": False})
                continue
            if fq is None:
                got = sorted(json.dumps(x) for x in rq["rows"])
                if got == want:
                    st["equal_spec"] += 1
                    distinct.add((tuple(sorted(set((col["t"], col.get("mode")) for fl in c["files"] for col in fl["cols"]))), len(c["files"]),
                                  tuple(q["sel"]), tuple((kk[0], kk[3]) for kk in q["conj"]), q["or"], p, len(want) > 0, anydrop))
                    continue
                viol.append({"what": "pushed-down scan returns different rows than filtering the materialised table",
                             "replay": dict(replay, want=want[:10], got=rq["rows"][:10], faithful_model=faithful[:10],
                                            matches_faithful_model=got == faithful, row_groups_dropped_by_model=drops), "no_input": False})
                continue
            viol.append({"what": "query with pushed-down scan fails, the same query over the materialised table succeeds",
                         "replay": dict(replay, failure=fq), "no_input": False})
    return {"stats": st, "viol": viol, "known": known, "distinct": len(distinct),
            "sample": {"write_spec": cases[1]["files"][0]["spec"][:300] if len(cases) > 1 else None, "sql": send[1]["stmts"][1:4] if len(send) > 1 else None}}


# ---------------------------------------------------------------- K4: multi-file scans
def stage_multi(ctx, rng, gverif, gmodel, known_ids):
    d = os.path.join(WDIR, "mf")
    shutil.rmtree(d, ignore_errors=True)
    os.makedirs(d)
    nf = 6
    csv_rows, pq_rows, specs = {}, {}, []
    for i in range(nf):
        p = os.path.join(d, "f%d.csv" % i)
        rows = [(i, j) for j in range(rng.choice([1, 2, 5]) if i else 3)]
        csv_rows[p] = rows
        open(p, "w").write("a,b\n" + "".join("%d,%d\n" % r for r in rows))
        q = os.path.join(d, "f%d.parquet" % i)
        n = rng.choice([1, 3, 4, 7])
        vals = [rng.choice([1, 5, 9, 100 + i]) for _ in range(n)]
        pq_rows[q] = [(i * 100 + j, vals[j]) for j in range(n)]
        specs.append('(file (out "%s") (rgs %d) (col (name "rid") (type i32) (vals %s)) (col (name "a") (type i64) (stats new nulls) (vals %s)))' % (
            q, rng.choice([1, 2, 3]), " ".join(str(i * 100 + j) for j in range(n)), " ".join(str(v) for v in vals)))
    gpq = common.build_ocaml("pq")
    common.run_model(gpq, "write", specs, timeout=300)
    nlists = 15 if ctx["tier"] == "quick" else 250
    send, plan = [], []
    for li in range(nlists):
        k = 1 + rng.below(6)
        idx = [rng.below(nf) for _ in range(k)] if rng.chance(40) else rng.shuffle(list(range(nf)))[:k]
        if li == 0:
            idx = list(range(nf))
        for kind, rowsmap, ext in (("csv", csv_rows, "csv"), ("parquet", pq_rows, "parquet")):
            files = [os.path.join(d, "f%d.%s" % (i, ext)) for i in idx]
            lst = "[" + ", ".join("'%s'" % rel(f) for f in files) + "]"
            cols = "a, b" if kind == "csv" else "rid, a"
            flt = rng.choice([1, 5, 9])
            stmts = []
            for p in range(1, 9):
                stmts += ["set partitions to %d" % p, "select %s, _filename, _rowid from read_%s(%s)" % (cols, kind, lst)]
            stmts.append("select %s from read_%s(%s) where a = cast('%d' as bigint)" % (cols, kind, lst, flt))
            stmts.append(" union all ".join("select %s from read_%s('%s')" % (cols, kind, rel(f)) for f in files))
            send.append({"id": "m%d%s" % (li, kind), "mode": "threaded", "threads": 4, "stmts": stmts, "timeout_s": 120})
            plan.append((kind, files, rowsmap, flt, None))
    # glob forms over the whole directory
    for kind, rowsmap, ext in (("csv", csv_rows, "csv"), ("parquet", pq_rows, "parquet")):
        files = sorted(rowsmap)
        cols = "a, b" if kind == "csv" else "rid, a"
        stmts = []
        for p in range(1, 9):
            stmts += ["set partitions to %d" % p, "select %s, _filename, _rowid from read_%s('%s/*.%s')" % (cols, kind, rel(d), ext)]
        stmts.append("select %s from read_%s('%s/f?.%s') where a = cast('5' as bigint)" % (cols, kind, rel(d), ext))
        stmts.append(" union all ".join("select %s from read_%s('%s')" % (cols, kind, rel(f)) for f in files))
        send.append({"id": "mg" + kind, "mode": "threaded", "threads": 4, "stmts": stmts, "timeout_s": 120})
        plan.append((kind, files, rowsmap, 5, "glob"))
    real = common.run_harness(gverif, "sql", send, timeout=1800)
    viol, st, distinct = [], {"scans": 0, "equal_union": 0}, set()
    for (kind, files, rowsmap, flt, form), sd, r in zip(plan, send, real):
        rs = r.get("results") or []
        want_full = sorted(json.dumps(["I%d" % a, "I%d" % b, "S" + rel(f), "I%d" % j]) for f in files for j, (a, b) in enumerate(rowsmap[f]))
        want_plain = sorted(json.dumps(["I%d" % a, "I%d" % b]) for f in files for (a, b) in rowsmap[f])
        want_flt = sorted(json.dumps(["I%d" % a, "I%d" % b]) for f in files for (a, b) in rowsmap[f] if (a if kind == "csv" else b) == flt)
        checks = [(2 * p + 1, want_full, "partitions %d" % (p + 1)) for p in range(8)] + [(16, want_flt, "filter"), (17, want_plain, "union-all")]
        for si, want, label in checks:
            res = rs[si] if si < len(rs) else None
            st["scans"] += 1
            f = sql_fail(res)
            got = None if f else sorted(json.dumps(x) for x in res["rows"])
            if got == want:
                st["equal_union"] += 1
                distinct.add((kind, len(files), len(set(files)), label, form))
            else:
                viol.append({"what": "multi-file scan differs from the union of its files (%s)" % label,
                             "replay": {"dir": os.path.dirname(files[0]), "sql": sd["stmts"][max(0, si - 1):si + 1], "failure": f,
                                        "want_rows": len(want), "got_rows": None if got is None else len(got),
                                        "first_missing": [x for x in want if got is not None and x not in got][:3]}, "no_input": False})
                break
    deal = common.run_model(gmodel, "run", ["(deal 4 6)"])[0]
    return {"stats": st, "viol": viol, "distinct": len(distinct),
            "sample": {"sql": send[0]["stmts"][1], "files": len(plan[0][1]), "model_deal_6_files_4_partitions(skip/step_by ; idx%p)": deal}}


# ---------------------------------------------------------------- K5: reusable per-partition state, files of different sizes
SIZE_PLANS = [[5000, 1, 0, 4097, 300, 2, 8192, 17], [9000, 4096, 64, 3, 1, 0], [0, 1, 4097], [6000, 10, 6000, 0, 5], [4097, 4096, 4095, 1]]


def text_of(rng, fid, size):
    """valid UTF-8 of exactly `size` bytes, distinct per file"""
    alphabet = ["a", "b", "Z", "0", "\n", " ", ",", "é", "中", "q", "x", "y"]
    head = ("<%d>" % fid).encode()
    out = bytearray(head[:size])
    while len(out) < size:
        ch = rng.choice(alphabet).encode()
        if len(out) + len(ch) <= size:
            out += ch
        else:
            out += b"~"
    return bytes(out)


def stage_state_reuse(ctx, rng, gverif, gmodel):
    base = os.path.join(WDIR, "sz")
    shutil.rmtree(base, ignore_errors=True)
    nsets = 5 if ctx["tier"] == "quick" else 40
    send, plan, model_lines, model_keys = [], [], [], []
    gpq = common.build_ocaml("pq")
    specs = []
    for si in range(nsets):
        sizes = list(SIZE_PLANS[si % len(SIZE_PLANS)]) if si < len(SIZE_PLANS) else [rng.choice([0, 1, 2, 17, 300, 4095, 4096, 4097, 5000, 9000]) for _ in range(3 + rng.below(6))]
        order = ["desc", "asc", "given", "shuffle"][si % 4]
        if order == "desc":
            sizes.sort(reverse=True)
        elif order == "asc":
            sizes.sort()
        elif order == "shuffle":
            sizes = rng.shuffle(sizes)
        k = len(sizes)
        parts = sorted(set([1, 2, max(1, k - 1), k + 3]))
        for kind in ("text", "csv", "parquet"):
            d = os.path.join(base, "s%d_%s" % (si, kind))
            os.makedirs(d)
            files, rows_of = [], {}
            for fi, size in enumerate(sizes):
                ext = {"text": "txt", "csv": "csv", "parquet": "parquet"}[kind]
                pth = os.path.join(d, "f%d.%s" % (fi, ext))
                files.append(pth)
                if kind == "text":
                    data = text_of(rng, si * 100 + fi, size)
                    open(pth, "wb").write(data)
                    rows_of[pth] = [{"content": data.decode("utf-8"), "bytes": data}]
                elif kind == "csv":
                    # the size drives the shape: number of rows and the width of the text field
                    nrows = 1 + size % 7 if size < 4096 else 40 + size % 50
                    # records stay well below 4096 bytes: a CSV file whose first record is longer than the sniffer's
                    # sample is inferred as all-Boolean (CSV inference, outside this property; reported to the lead)
                    width = max(1, min(size, 1500) // max(1, nrows // 8 + 1))
                    rws = [(si * 1000 + fi * 50 + j, "xq_" + "".join(rng.choice("abcdef") for _ in range((width + j) % (width + 1)))) for j in range(nrows)]
                    open(pth, "w").write("a,s\n" + "".join("%d,%s\n" % r for r in rws))
                    rows_of[pth] = rws
                else:
                    nrows = 1 + size % 5 if size < 4096 else 30 + size % 40
                    width = max(1, min(size, 3000) // nrows)
                    rws = [(si * 1000 + fi * 50 + j, "p" + "".join(rng.choice("ghijk") for _ in range((width * (j + 1)) % (width + 3)))) for j in range(nrows)]
                    specs.append('(file (out "%s") (rgs %d) (col (name "rid") (type i32) (vals %s)) (col (name "s") (type bytes) (conv 0) (pages %d) (vals %s)))' % (
                        pth, rng.choice([1, 2, 7, max(1, nrows)]), " ".join(str(r[0]) for r in rws), rng.choice([1, 3, max(1, nrows)]),
                        " ".join("x" + r[1].encode().hex() for r in rws)))
                    rows_of[pth] = rws
            lst = "[" + ", ".join("'%s'" % rel(f) for f in files) + "]"
            glb = "'%s/*.%s'" % (rel(d), {"text": "txt", "csv": "csv", "parquet": "parquet"}[kind])
            fn = {"text": "read_text", "csv": "read_csv", "parquet": "read_parquet"}[kind]
            projs = {"text": ["content, length(content), octet_length(content), _filename, _rowid", "content", "_filename", "_rowid, _filename", "length(content)"],
                     "csv": ["a, s, length(s), _filename, _rowid", "s", "_filename, _rowid"],
                     "parquet": ["rid, s, length(s), _filename, _rowid", "s", "_rowid, _filename"]}[kind]
            stmts, checks = [], []
            for form, arg in (("list", lst), ("glob", glb)):
                for p in parts:
                    stmts.append("set partitions to %d" % p)
                    for pj in (projs if p in (1, parts[-2]) else projs[:2]):
                        stmts.append("select %s from %s(%s)" % (pj, fn, arg))
                        checks.append((len(stmts) - 1, pj, form, p))
            for pj in projs[:1]:
                stmts.append(" union all ".join("select %s from %s('%s')" % (pj, fn, rel(f)) for f in files))
                checks.append((len(stmts) - 1, pj, "union-all-of-single-scans", 0))
            send.append({"id": "z%d%s" % (si, kind), "mode": "threaded", "threads": 4, "stmts": stmts, "timeout_s": 120})
            plan.append((kind, files, rows_of, checks, sizes))
            if kind == "text":
                for p in parts:
                    model_lines.append("(text 1 %d %s)" % (p, " ".join(rows_of[f][0]["bytes"].hex() or "-" for f in files)))
                    model_keys.append((len(plan) - 1, p))
    if specs:
        common.run_model(gpq, "write", specs, timeout=600)
    mouts = common.run_model(gmodel, "run", model_lines, timeout=300)
    model_bag = {}
    for key, o in zip(model_keys, mouts):
        model_bag[key] = sorted(bytes.fromhex(t[1:]) for t in o.split())
    real = common.run_harness(gverif, "sql", send, timeout=1800)
    viol, st, distinct = [], {"scans": 0, "equal_union": 0, "content_bytes_compared": 0, "model_bags_equal_files": 0}, set()

    def cell(kind, f, r, j, item):
        item = item.strip()
        if item == "_filename":
            return "S" + rel(f)
        if item == "_rowid":
            return "I%d" % j
        if kind == "text":
            return {"content": "S" + r["content"], "length(content)": "I%d" % len(r["content"]), "octet_length(content)": "I%d" % len(r["bytes"])}[item]
        return {"a": "I%d" % r[0], "rid": "I%d" % r[0], "s": "S" + r[1], "length(s)": "I%d" % len(r[1])}[item]
    for pi, ((kind, files, rows_of, checks, sizes), sd, r) in enumerate(zip(plan, send, real)):
        rs = r.get("results") or []
        if kind == "text":
            want_bag = sorted(rows_of[f][0]["bytes"] for f in files)
            for (qi, p), bag in model_bag.items():
                if qi == pi:
                    if bag == want_bag:
                        st["model_bags_equal_files"] += 1
                    else:
                        viol.append({"what": "model/MultiFile.v text_multi does not return the files' contents", "replay": {"files": files, "partitions": p}, "no_input": True})
        for si_, pj, form, p in checks:
            res = rs[si_] if si_ < len(rs) else None
            st["scans"] += 1
            items = pj.split(", ")
            want = sorted(json.dumps([cell(kind, f, rw, j, it) for it in items]) for f in files for j, rw in enumerate(rows_of[f]))
            f_ = sql_fail(res)
            got = None if f_ else sorted(json.dumps(x) for x in res["rows"])
            if got == want:
                st["equal_union"] += 1
                if kind == "text" and "content" in items:
                    st["content_bytes_compared"] += sum(sizes)
                distinct.add((kind, form, p, pj, tuple(sizes)))
                continue
            first = None
            if got is not None:
                bad = [x for x in got if x not in want][:1]
                first = bad[0][:200] if bad else None
            viol.append({"what": "multi-file %s: the rows of a file depend on the other files of the scan (result differs from the union of the single-file scans; %s form, %d partition(s))" % (
                             {"text": "read_text", "csv": "read_csv", "parquet": "read_parquet"}[kind], form, p),
                         "replay": {"dir": os.path.dirname(files[0]), "file_sizes_in_list_order": [os.path.getsize(f) for f in files],
                                    "sql": ["set partitions to %d" % p, sd["stmts"][si_]], "failure": f_,
                                    "want_rows": len(want), "got_rows": None if got is None else len(got), "first_unexpected_row": first,
                                    "how": "the files are under <dir> (written by vlib/c11.py stage_state_reuse); run the sql with gverif sql from " + os.getcwd()},
                         "no_input": False})
            break
    grow = common.run_model(gmodel, "run", ["(textgrow 010203 09)"])[0]
    return {"stats": st, "viol": viol, "distinct": len(distinct),
            "sample": {"sql": send[0]["stmts"][1], "sizes": plan[0][4], "refuted_grow_only_variant(010203 then 09)": grow}}


# ---------------------------------------------------------------- K6: the glob() table function's batching
def stage_glob_batches(ctx, rng, gverif, gvprune, gmodel, known_ids):
    base = os.path.join(WDIR, "gb")
    shutil.rmtree(base, ignore_errors=True)
    BS = [1, 2, 3, 5, 2048]
    PS = [1, 2, 4]
    gpq = common.build_ocaml("pq")
    trees, specs = [], []
    for n in ([0, 1, 5, 9, 21] if ctx["tier"] == "quick" else [0, 1, 2, 5, 9, 21, 40]):
        trees.append(("flat%d" % n, {"n": "r", "c": [{"n": "f%02d.txt" % i} for i in range(n)]}, [["*.txt"], ["*"]] if n else [["*.txt"]]))
    deep = {"n": "r", "c": [{"n": "a.txt"}, {"n": "b.txt"}, {"n": "s1", "c": [{"n": "c.txt"}, {"n": "d.txt"}, {"n": "e.txt"},
            {"n": "s2", "c": [{"n": "g.txt"}, {"n": "h.txt"}, {"n": "s3", "c": [{"n": "i.txt"}, {"n": "j.txt"}]}]}]}, {"n": "t", "c": [{"n": "k.txt"}, {"n": "l.txt"}]}]}
    trees.append(("deep", deep, [["**"], ["**", "*.txt"], ["*", "*.txt"], ["s1", "**"]]))
    mem_cases, plan, content_of = [], [], {}
    for name, tree, pats in trees:
        root = os.path.join(base, name)

        def wr(b, t):
            os.makedirs(b, exist_ok=True)
            for k in t.get("c", []):
                q = os.path.join(b, k["n"])
                if "c" in k:
                    wr(q, k)
                else:
                    content_of[q] = "<%s>%s" % (os.path.relpath(q, base), "z" * (len(content_of) % 7))
                    open(q, "w").write(content_of[q])
        wr(os.path.join(root, "r"), tree)
        for segs in pats:
            mem_cases.append({"id": len(mem_cases), "op": "glob", "pattern": "r/" + "/".join(segs), "tree": tree, "chunk": 0})
            plan.append((name, root, segs))
    ev = glob_eval(mem_cases, common.run_harness(gvprune, [], mem_cases, timeout=300), gmodel)
    # csv / parquet directories for the readers (5 and 9 files)
    rdirs = []
    for n in (5, 9):
        d = os.path.join(base, "rd%d" % n)
        os.makedirs(d)
        rows = {}
        for i in range(n):
            rws = [(n * 100 + i, j) for j in range(1 + i % 4)]
            open(os.path.join(d, "f%d.csv" % i), "w").write("a,b\n" + "".join("%d,%d\n" % r for r in rws))
            specs.append('(file (out "%s") (rgs %d) (col (name "a") (type i64) (vals %s)) (col (name "b") (type i64) (vals %s)))' % (
                os.path.join(d, "f%d.parquet" % i), 1 + i % 3, " ".join(str(r[0]) for r in rws), " ".join(str(r[1]) for r in rws)))
            rows[i] = rws
        rdirs.append((d, n, rows))
    common.run_model(gpq, "write", specs, timeout=300)
    send, checks = [], []
    for pi, ((name, root, segs), e) in enumerate(zip(plan, ev)):
        if e["status"] != "ok":
            continue
        use_abs = bool(pi % 2)
        pre = (root if use_abs else rel(root)) + "/"
        pat = pre + "r/" + "/".join(segs)
        want_files = sorted(pre + p for p in e["impl"])          # the model's expansion (faithful walk)
        spec_files = sorted(pre + p for p in e["spec"])
        stmts, idx = [], []
        for bs in BS:
            for p in PS:
                stmts += ["set batch_size to %d" % bs, "set partitions to %d" % p, "select * from glob('%s')" % pat,
                          "select count(*), count(distinct filename) from glob('%s')" % pat]
                idx.append((bs, p, len(stmts) - 2))
        for bs in (1, 2, 3):
            for p in (1, 2):
                stmts += ["set batch_size to %d" % bs, "set partitions to %d" % p, "select content, _filename from read_text('%s')" % pat]
                idx.append((bs, p, -(len(stmts) - 1)))
        send.append({"id": "b%d" % pi, "mode": "threaded", "threads": 4, "stmts": stmts, "timeout_s": 120})
        checks.append(("glob", pat, want_files, spec_files, idx, segs, None))
    for d, n, rows in rdirs:
        for kind, cols in (("csv", "a, b, _filename"), ("parquet", "a, b, _filename")):
            pat = "%s/*.%s" % (rel(d), kind)
            stmts, idx = [], []
            for bs in (1, 2, 3, 5):
                for p in (1, 2, 4):
                    stmts += ["set batch_size to %d" % bs, "set partitions to %d" % p, "select %s from read_%s('%s')" % (cols, kind, pat)]
                    idx.append((bs, p, len(stmts) - 1))
            send.append({"id": "r%d%s" % (n, kind), "mode": "threaded", "threads": 4, "stmts": stmts, "timeout_s": 120})
            want = sorted(json.dumps(["I%d" % a, "I%d" % b, "S%s/f%d.%s" % (rel(d), i, kind)]) for i in range(n) for (a, b) in rows[i])
            checks.append((kind, pat, want, None, idx, None, None))
    real = common.run_harness(gverif, "sql", send, timeout=1800)
    # the model's emission for every (n, bs, p): each index exactly once
    mlines, mkeys = [], []
    for kind, pat, want, spec_files, idx, segs, _ in checks:
        if kind == "glob":
            for bs, p, si in idx:
                if si > 0 and (len(want), bs, p) not in mkeys:
                    mkeys.append((len(want), bs, p))
                    mlines.append("(globpull %d %d %d)" % (p, bs, len(want)))
    mouts = common.run_model(gmodel, "run", mlines, timeout=300) if mlines else []
    viol, known, st, distinct = [], {}, {"statements": 0, "equal_model_expansion": 0, "model_emissions_exact": 0, "reader_scans_small_batches": 0}, set()
    for (n, bs, p), o in zip(mkeys, mouts):
        if sorted(int(x) for x in o.split()) == list(range(n)):
            st["model_emissions_exact"] += 1
        else:
            viol.append({"what": "model/MultiFile.v glob_multi does not emit every path once", "replay": {"n": n, "batch": bs, "partitions": p, "model": o}, "no_input": True})
    for (kind, pat, want, spec_files, idx, segs, _), sd, r in zip(checks, send, real):
        rs = r.get("results") or []
        for bs, p, si in idx:
            st["statements"] += 1
            cfg = ["set batch_size to %d" % bs, "set partitions to %d" % p]
            if kind == "glob" and si > 0:
                g, cnt = (rs[si] if si < len(rs) else None), (rs[si + 1] if si + 1 < len(rs) else None)
                fg, fc = sql_fail(g), sql_fail(cnt)
                got = None if fg else sorted(x[0][1:] for x in g["rows"])
                gotc = None if fc else cnt["rows"]
                wantc = [["I%d" % len(want), "I%d" % len(set(want))]]
                if got == want and gotc == wantc:
                    st["equal_model_expansion"] += 1
                    distinct.add((tuple(segs), len(want), bs, p))
                    if want != spec_files and "glob-dstar-not-last" in known_ids and dstar_not_last(segs):
                        known.setdefault("glob-dstar-not-last", {"n": 0, "example": "select * from glob('%s') lists %d file(s), %d match" % (pat, len(want), len(spec_files))})["n"] += 1
                    elif want != spec_files:
                        viol.append({"what": "glob() differs from the files matching the pattern", "replay": {"sql": cfg + [sd["stmts"][si]], "want": spec_files, "got": got}, "no_input": False})
                    continue
                rep = sorted(set(x for x in (got or []) if got.count(x) > 1))
                viol.append({"what": "the glob() table function does not list every expanded path exactly once (batch_size %d, partitions %d)" % (bs, p),
                             "replay": {"dir": os.path.dirname(pat), "sql": cfg + [sd["stmts"][si], sd["stmts"][si + 1]], "failure": [fg, fc],
                                        "want_paths": want, "got_paths": got, "listed_more_than_once": rep[:5],
                                        "never_listed": [x for x in want if got is not None and x not in got][:5], "count_row": gotc,
                                        "how": "directory tree written by vlib/c11.py stage_glob_batches; run the sql with gverif sql from " + os.getcwd()}, "no_input": False})
                break
            else:
                si = abs(si)
                res = rs[si] if si < len(rs) else None
                f_ = sql_fail(res)
                if kind == "glob":
                    wantr = sorted(json.dumps(["S" + content_of[os.path.abspath(x)], "S" + x]) for x in want)
                    if not want and f_ and "No files for path" in f_:
                        got = []
                    else:
                        got = None if f_ else sorted(json.dumps(x) for x in res["rows"])
                else:
                    wantr = want
                    got = None if f_ else sorted(json.dumps(x) for x in res["rows"])
                st["reader_scans_small_batches"] += 1
                if got == wantr:
                    st["equal_model_expansion"] += 1
                    distinct.add((kind, len(wantr), bs, p))
                    continue
                viol.append({"what": "a reader over a glob does not return each matching file's rows exactly once (batch_size %d, partitions %d)" % (bs, p),
                             "replay": {"sql": cfg + [sd["stmts"][si]], "failure": f_, "want_rows": len(wantr), "got_rows": None if got is None else len(got),
                                        "first_unexpected": [x for x in (got or []) if x not in wantr][:2]}, "no_input": False})
                break
    norev = common.run_model(gmodel, "run", ["(globnorev 2 5)"])[0]
    return {"stats": st, "viol": viol, "known": known, "distinct": len(distinct),
            "sample": {"sql": send[0]["stmts"][:4] if send else None, "refuted_variant_without_rev(cap 2, 5 paths)": norev}}


KNOWN_TEXT = {
    "glob-dstar-not-last": "`**` followed by another segment never stands for zero directories (and `**/**` lists a directory once per split): matching files are omitted or returned twice (glob.rs GlobHandle::poll_expand, source TODO)",
}


def run(ctx):
    t0 = time.time()
    rng = common.Rng(ctx["seed"])
    out = {"violations": [], "known": [], "assumptions": []}
    kf = common.known_findings()
    known_ids = set(k["id"] for k in kf.get("known", []) if k.get("property") == PID)
    global WDIR
    WDIR = os.path.join(common.WORK, "prune", "%s-%d" % (ctx["tier"], ctx["seed"]))   # one directory per (tier, seed)
    shutil.rmtree(WDIR, ignore_errors=True)
    os.makedirs(WDIR, exist_ok=True)
    gverif, _ = common.build_harness()
    gvprune, _ = common.build_harness(bin="gv_prune")
    pr = common.coq_props(PROPS)
    audit = [a for a in common.audit_sources() if any(x in a for x in ("Pruner", "Glob", "MultiFile", "C11", "ExtractPrune"))]
    obligations = pr["declared"]
    bad_assum = common.check_assumptions(pr) if pr["ok"] else []
    proof_broken = (not pr["ok"]) or bool(bad_assum) or bool(audit)
    discharged = 0 if proof_broken else len(obligations)
    gmodel = common.build_ocaml("prune")
    tm = {"build+proofs": round(time.time() - t0, 1)}
    t1 = time.time()
    k1 = stage_prune(ctx, rng, gvprune, gmodel)
    tm["K1"] = round(time.time() - t1, 1); t1 = time.time()
    k3 = stage_glob_mem(ctx, rng, gvprune, gmodel, known_ids)
    tm["K3"] = round(time.time() - t1, 1); t1 = time.time()
    k3b = stage_glob_disk(ctx, rng, gverif, gvprune, gmodel, known_ids)
    tm["K3b"] = round(time.time() - t1, 1); t1 = time.time()
    k2 = stage_pq(ctx, rng, gverif, gmodel, known_ids)
    tm["K2"] = round(time.time() - t1, 1); t1 = time.time()
    k4 = stage_multi(ctx, rng, gverif, gmodel, known_ids)
    tm["K4"] = round(time.time() - t1, 1); t1 = time.time()
    k5 = stage_state_reuse(ctx, rng, gverif, gmodel)
    tm["K5"] = round(time.time() - t1, 1); t1 = time.time()
    k6 = stage_glob_batches(ctx, rng, gverif, gvprune, gmodel, known_ids)
    tm["K6"] = round(time.time() - t1, 1)
    prop_viol = k3["viol"] + k3b["viol"] + k2["viol"] + k4["viol"] + k5["viol"] + k6["viol"]
    out["violations"] += prop_viol
    merged = {}
    for src in (k2["known"], k3["known"], k3b["known"], k6["known"]):
        for kid, info in src.items():
            m = merged.setdefault(kid, {"n": 0, "examples": []})
            m["n"] += info["n"]
            if info.get("example"):
                m["examples"].append(info["example"])
    for kid in sorted(merged):
        out["known"].append("%s: %s [%d occurrence(s); e.g. %s]" % (kid, KNOWN_TEXT.get(kid, ""), merged[kid]["n"], " || ".join(merged[kid]["examples"][:2])))
    if k1["mismatches"]:
        out["violations"].append({"what": "correspondence real should_prune / from_thrift vs model/Pruner.v no longer holds (%d of %d cases)" % (len(k1["mismatches"]), k1["cases"]),
                                  "replay": {"first": k1["mismatches"][:3]}, "no_input": not prop_viol})
    if k3["mismatches"]:
        out["violations"].append({"what": "correspondence real GlobHandle vs model/Glob.v no longer holds (%d of %d cases)" % (len(k3["mismatches"]), k3["stats"]["cases"]),
                                  "replay": {"first": k3["mismatches"][:3]}, "no_input": not prop_viol})
    if proof_broken:
        out["violations"].append({"what": "theorem(s) in %s no longer check" % PROPS,
                                  "replay": {"failed_at": pr.get("failed_at"), "log_tail": pr["log"][-1500:] if not pr["ok"] else "",
                                             "assumption_problems": bad_assum, "audit": audit}, "no_input": not prop_viol})
    out["coverage"] = {
        "obligations": len(obligations), "discharged": discharged,
        "checker_cmd": "cd coq && make props/C11.vo (Print Assumptions parsed; Admitted/Axiom audit)",
        "trusted_base": ["Coq 8.16.1 kernel (vm_compute in the closed witness lemmas)",
                         "extraction (ExtrOcamlBasic only) + ocaml/prune.ml parsing/printing; the spec Parquet writer is C10's extracted model (pq write)",
                         "harness/src/bin/gv_prune.rs (in-memory FileSystem around the real GlobHandle; hook glaredb_rt_native::verif re-exporting LocalFileSystem), harness/src/sql.rs",
                         "globset segment matching is an oracle (Section parameter m): observed per (segment, name) from the real matcher and cross-checked against Python fnmatch for the *, ?, [..] segments",
                         "pushed filters of a query are read from the engine's own EXPLAIN (data_scan_filters)",
                         "modelled not verified: column_prune.rs / scan_filter.rs rewriting (checked through SQL only), the partition assignment of files (model/MultiFile.v is checked at the level of result bags only), S3/GCS/HTTP directory handles"],
        "theorems": obligations,
        "evaluations": k1["cases"] + k3["stats"]["cases"] + k3b["stats"]["patterns"] * 2 + k2["stats"]["queries"] + k4["stats"]["scans"] + k5["stats"]["scans"] + k6["stats"]["statements"],
        "distinct_nontrivial": k1["distinct"] + k3["distinct"] + k2["distinct"] + k4["distinct"] + k5["distinct"] + k6["distinct"],
        "rule": "K1: real should_prune/from_thrift output string == extracted model's, every generated (type, statistics, constants); distinct = (type, op, outcome, constant kinds, bounds present). K3: real GlobHandle path list == extracted walk (exact order when the directory lists at once, bag otherwise) and == declarative matches unless the pattern is in the known class; distinct = (segments, matches, chunking). K2: rows of SELECT..FROM read_parquet WHERE == rows over the materialised copy == rows computed from the table, per (query, partitions); distinct = (column types/statistics modes, row groups, projection, predicate shape, partitions, result size, model's dropped groups). K4: multi-file / glob scan bag == union of the files per partitions 1..8. K5: read_text / read_csv / read_parquet over lists and globs of 3-8 files of deliberately different sizes (0, 1, 4095..4097, > 8000 bytes; descending, ascending, shuffled), projections with and without content/_filename/_rowid, partitions 1, 2, #files-1, #files+3: rows (content byte-exact, char and byte lengths) == rows of the single files; read_text contents also == extracted text_multi.",
        "samples": [k1["sample"], k3["sample"], k2["sample"], k4["sample"], k5["sample"], k6["sample"]],
        "prune_cases": k1["cases"], "prune_cases_true": k1["pruned_true"], "prune_model_mismatches": len(k1["mismatches"]),
        "glob_mem": k3["stats"], "glob_model_mismatches": len(k3["mismatches"]), "glob_disk": k3b["stats"],
        "stage_seconds": tm, "parquet": k2["stats"], "multifile": k4["stats"], "state_reuse_different_sizes": k5["stats"], "glob_table_function_batches": k6["stats"], "exhaustive": False,
    }
    out["assumptions"] = [
        "generated Parquet statistics are valid for the format (min/max of the chunk in the order the format prescribes, or wider bounds flagged inexact) and their bounds lie in the range of the logical type (the hypothesis C11_prune_sound_bounds_in_lrange needs for Int8/Int16/UInt8/UInt16; refuted without it); statistics that lie about the data are outside the property",
        "files are given to the engine by relative and by absolute paths",
        "directory listing order of the local file system is unspecified: disk results are compared as bags; exact order only over the in-memory file system",
        "symbolic links, hidden files and non-UTF-8 names are not generated; files of one multi-file scan share one schema"]
    out["wall"] = time.time() - t0
    return out


def replay(ctx, payload):
    rp = payload.get("replay", payload)
    gverif, _ = common.build_harness()
    if "write_spec" in rp:
        gpq = common.build_ocaml("pq")
        print(common.run_model(gpq, "write", [rp["write_spec"]])[0][:300])
    if "gv_prune_case" in rp:
        gvp, _ = common.build_harness(bin="gv_prune")
        print(common.run_harness(gvp, [], [rp["gv_prune_case"]]))
        return 0
    if "sql" in rp:
        sql = rp["sql"] if isinstance(rp["sql"], list) else [rp["sql"]]
        r = common.run_harness(gverif, "sql", [{"id": "replay", "mode": "threaded", "threads": 4, "stmts": sql, "timeout_s": 60}])
        print(json.dumps(r[0])[:3000])
        return 0
    print(json.dumps(rp)[:2000])
    return 0
