"""Regenerate coq/gen/TablesLexer.v from /repo's current source (C15 / topic lexer): the keyword table of
crates/glaredb_parser/src/keywords.rs (`define_keywords!(...)`, in source order: the order IS the binary-search
order of keyword_from_str) and the Pratt precedences of ast/expr.rs.  What cannot be found is emitted as an empty
list / None so that the theorems depending on it stop checking."""
import os, re
from . import common

SRC = os.path.join(common.REPO, "crates", "glaredb_parser", "src")
PRECS = ["PREC_OR", "PREC_AND", "PREC_NOT", "PREC_IS", "PREC_COMPARISON", "PREC_CONTAINMENT", "PREC_EVERYTHING_ELSE",
         "PREC_ADD_SUB", "PREC_MUL_DIV_MOD", "PREC_EXPONENTIATION", "PREC_UNARY_MINUS", "PREC_ARRAY_ELEM", "PREC_CAST"]


def _read(rel):
    try:
        return open(os.path.join(SRC, rel)).read()
    except FileNotFoundError:
        return ""


def scan():
    t = {"keywords": [], "precs": {}, "reserved_col": []}
    src = re.sub(r"//[^\n]*", "", _read("keywords.rs"))
    m = re.search(r"RESERVED_FOR_COLUMN_ALIAS: &\[Keyword\] = &\[(.*?)\];", src, re.S)
    if m:
        t["reserved_col"] = re.findall(r"Keyword::(\w+)", m.group(1))
    m = re.search(r"\ndefine_keywords!\(\s*(.*?)\);", src, re.S)
    if m:
        t["keywords"] = [w.strip() for w in m.group(1).split(",") if w.strip()]
        if not all(re.fullmatch(r"[A-Za-z_][A-Za-z_0-9]*", w) for w in t["keywords"]):
            t["keywords"] = []
    ex = _read("ast/expr.rs")
    for p in PRECS:
        m = re.search(r"const %s: u8 = (\d+);" % p, ex)
        t["precs"][p] = int(m.group(1)) if m else None
    return t


def render(t):
    rows = ";\n   ".join("[%s]" % "; ".join(str(ord(c)) for c in w) + "  (* %s *)" % w for w in t["keywords"])
    # the comment after the last row must stay inside the list brackets
    lines = [
        "(* GENERATED on every run by vlib/tables_lexer.py from /repo's working tree. Do not edit. *)",
        "From Coq Require Import NArith List.", "Import ListNotations.", "Open Scope N_scope.", "",
        "(* define_keywords!(...) of crates/glaredb_parser/src/keywords.rs, in source order (code points) *)",
        "Definition keywords : list (list N) :=\n  [%s\n  ]." % rows, ""]
    lines.append("(* index of each keyword = `Keyword as usize` = position in ALL_KEYWORDS *)")
    for i, w in enumerate(t["keywords"]):
        lines.append("Definition kw_%s : nat := %d%%nat." % (w, i))
    lines.append("")
    lines.append("(* RESERVED_FOR_COLUMN_ALIAS of keywords.rs (Parser::parse_comma_separated stops before these) *)")
    idx = {w: i for i, w in enumerate(t["keywords"])}
    lines.append("Definition reserved_for_column_alias : list nat :=\n  [%s]."
                 % "; ".join("%d%%nat (* %s *)" % (idx[w], w) for w in t["reserved_col"] if w in idx))
    lines.append("")
    lines.append("(* precedences of Expr::parse_subexpr (ast/expr.rs) *)")
    for p in PRECS:
        v = t["precs"].get(p)
        lines.append("Definition %s : option N := %s." % (p.lower(), "None" if v is None else "Some %d" % v))
    lines.append("")
    return "\n".join(lines)


def regenerate():
    t = scan()
    path = os.path.join(common.COQ, "gen", "TablesLexer.v")
    os.makedirs(os.path.dirname(path), exist_ok=True)
    body = render(t)
    cur = open(path).read() if os.path.exists(path) else ""
    if cur != body:
        with common.Lock("coq"):
            open(path, "w").write(body)
    return {"keywords": t["keywords"], "precs": t["precs"], "reserved_col": t["reserved_col"]}
