"""C12 — Integer and decimal arithmetic is exact or fails; never wraps or crashes."""
import json, time
from . import common, tables_arith, gen

PID = "C12"
PROPS = "props/C12.v"

INT_TYPES = {"i8": (8, "s"), "i16": (16, "s"), "i32": (32, "s"), "i64": (64, "s"),
             "u8": (8, "u"), "u16": (16, "u"), "u32": (32, "u"), "u64": (64, "u")}
OPS = {"add": "+", "sub": "-", "mul": "*", "div": "/", "rem": "%"}
PROFILE_MODE = {"dev": "d", "relfast": "r"}


def rng_int(rng, bits, sg):
    w = bits // 8
    if rng.chance(55):
        return rng.choice(gen.int_pool(w, sg == "s"))
    x = 0
    for _ in range(bits // 64 + 1):
        x = (x << 64) | rng.next()
    x &= (1 << bits) - 1
    if rng.chance(40):
        x &= (1 << (bits // 2)) - 1          # small magnitudes: products that fit
    if rng.chance(25):
        x &= 0xF
    if sg == "s" and x >= 1 << (bits - 1):
        x -= 1 << bits
    if sg == "s" and rng.chance(30):
        x = -x if -(1 << (bits - 1)) <= -x < (1 << (bits - 1)) else x
    return x


# ---------------------------------------------------------------- outcome of one statement
def stmt_outcome(res):
    """harness statement result -> ('ok', rows, schema) | ('err', msg) | ('panic', msg)"""
    if res is None:
        return ("panic", "no result (process died)")
    if "panic" in res:
        return ("panic", res["panic"])
    if "hang" in res:
        return ("hang", res["hang"])
    if res.get("ok"):
        return ("ok", res["rows"], res.get("schema"))
    return ("err", res.get("err", ""))


def case_last(r, nstmts):
    """outcome of the last statement of a case (abort/timeout of the process counts as panic/hang)"""
    if "abort" in r:
        return ("panic", "process abort rc=%s %s" % (r.get("abort"), r.get("stderr", "")[-120:]))
    if "timeout" in r:
        return ("hang", "timeout")
    res = r.get("results", [])
    if not res:
        return ("panic", "no result")
    if len(res) < nstmts:
        o = stmt_outcome(res[-1])
        return o if o[0] != "ok" else ("panic", "case stopped early")
    return stmt_outcome(res[-1])


class Job:
    """One (types, operator) family: pairs of operand cells, the model's answer for each."""
    def __init__(self, jid, kind, ta, tb, op, pairs, info=None):
        self.id, self.kind, self.ta, self.tb, self.op, self.pairs = jid, kind, ta, tb, op, pairs
        self.info = info or {}
        self.model = []      # per pair: dict(impl=, spec=, known=, ty=)
        self.exh = None      # (sql filter) for the exhaustive 8-bit jobs


def expr_sql(job, a, b):
    if job.op == "neg":
        return "-(%s)" % a
    if job.op == "abs":
        return "abs(%s)" % a
    return "%s %s %s" % (a, OPS[job.op], b)


def literal_stmt(job, pair):
    a = gen.sql_lit(job.ta, pair[0])
    b = gen.sql_lit(job.tb, pair[1]) if job.tb else None
    return "select " + expr_sql(job, a, b)


# ---------------------------------------------------------------- model requests
def dec_opnd(t, cell):
    if t.startswith("dec("):
        u, p, s = cell[1:].split("/")
        return "d:%s:%s:%s" % (p, s, u)
    return "i:%d:%s" % (INT_TYPES[t][0], cell[1:])


def dec_kind(ta, tb):
    k = 64
    for t in (ta, tb):
        if t.startswith("dec("):
            if int(t[4:-1].split(",")[0]) > 18:
                k = 128
        elif INT_TYPES[t][0] == 64:
            k = 128
    return k


def model_line(job, pair, tb, mode):
    if job.kind == "int":
        bits, sg = INT_TYPES[job.ta]
        st = "n" if tb.get("%s_native" % job.op, 1) == 1 else "c"
        return "bin %s %s %s %d %s %s %s" % (st, mode, sg, bits, job.op, pair[0][1:], pair[1][1:])
    if job.kind == "neg":
        st = "n" if tb.get("neg_native", 1) == 1 else "c"
        return "neg %s %s %d %s" % (st, mode, INT_TYPES[job.ta][0], pair[0][1:])
    if job.kind == "abs":
        return "abs %s" % pair[0][1:]
    if job.kind == "dec":
        k = dec_kind(job.ta, job.tb)
        m64, m128 = tb.get("d64_max_precision") or 18, tb.get("d128_max_precision") or 38
        if job.op in ("add", "sub"):
            st = "n" if tb.get("dec_%s_native" % job.op, 1) == 1 else "c"
            return "decadd %s %s %d %d %d %d %d %d %d %s %s" % (st, mode, k, 1 if job.op == "sub" else 0, m64, m128,
                                                               1 if tb.get("int_to_decimal_pow_i32") == 1 else 0,
                                                               0 if tb.get("decimal_to_decimal_validates") == 0 else 1,
                                                               0 if tb.get("dec_%s_validates" % job.op) == 0 else 1,
                                                               dec_opnd(job.ta, pair[0]), dec_opnd(job.tb, pair[1]))
        st = "n" if tb.get("dec_mul_native", 1) == 1 else "c"
        return "decmul %s %s %d %d %d %d %s %s" % (st, mode, k, m64, m128, 0 if tb.get("dec_mul_validates") == 0 else 1, dec_opnd(job.ta, pair[0]), dec_opnd(job.tb, pair[1]))
    raise ValueError(job.kind)


def parse_model(job, line):
    f = line.split()
    if job.kind == "int":
        return {"impl": f[0], "spec": f[1], "known": f[2] == "1", "ty": None}
    if job.kind == "neg":
        return {"impl": f[0], "spec": f[1], "known": f[0] != f[1], "ty": None}
    if job.kind == "abs":
        return {"impl": "ok:" + f[0][5:] if f[0].startswith("some:") else "inexact", "spec": "ok:" + f[0][5:] if f[0].startswith("some:") else "inexact",
                "known": False, "ty": None}
    if f[0] == "none":
        return {"impl": "err", "spec": "err", "known": False, "ty": None, "binderr": True}
    return {"impl": f[3], "spec": f[4], "known": f[2] == "1", "ty": (int(f[0]), int(f[1])), "clamped": f[2] == "1"}


# ---------------------------------------------------------------- real-side canonicalisation
def real_value(job, cell, schema_t, m, tb):
    """result cell -> ('ok:<int>', notes) in the model's vocabulary; notes = list of type deviations"""
    notes = []
    if cell == "N":
        return "null", notes
    if job.kind in ("int", "neg"):
        return "ok:" + cell[1:], notes
    if job.kind == "abs":
        if cell[0] != "F":
            return "ok:" + cell[1:], notes
        x = gen.bits_f64(int(cell[1:], 16))
        return ("ok:%d" % int(x) if x == int(x) else "ok:%r" % x), notes
    # decimal: D<unscaled>/<p>/<s>; schema type Decimal64(p,s)
    u, p, s = cell[1:].split("/")
    k = dec_kind(job.ta, job.tb)
    want_t = "Decimal%d(%d,%d)" % (k, m["ty"][0], m["ty"][1])
    if schema_t != want_t:
        notes.append("schema-type:%s!=%s" % (schema_t, want_t))
    if int(s) != m["ty"][1]:
        notes.append("array-scale:%s" % s)
    if int(p) != m["ty"][0]:
        # the produced array must carry the announced type (repaired: fix "physical planning of arithmetic must
        # keep the announced result type"); a drift to precision+1 is the old defect coming back
        notes.append("array-precision:%s (schema %s)" % (p, schema_t))
    return "ok:" + u, notes


def finding_id(job, pair, m, real, tb):
    """Which known-finding class does this deviating case fall in (None = outside every class)."""
    if job.kind == "int":
        bits, sg = INT_TYPES[job.ta]
        a, b = int(pair[0][1:]), int(pair[1][1:])
        lo = -(1 << (bits - 1)) if sg == "s" else 0
        if not m["known"]:
            return None
        if job.op in ("div", "rem") and b == 0:
            return "int-div-rem-by-zero" if real == "panic" else None
        if job.op == "div" and sg == "s" and a == lo and b == -1:
            return "int-min-div-neg1" if real == "panic" else None
        if job.op == "rem" and sg == "s" and a == lo and b == -1:
            return "int-min-rem-neg1" if real == "panic" else None
        if job.op in ("add", "sub", "mul") and m["spec"] == "err":
            return "int-native-overflow"
        return None
    if job.kind == "neg":
        return "int-native-overflow" if m["spec"] == "err" else None
    if job.kind == "dec":
        mixed = not (job.ta.startswith("dec(") and job.tb.startswith("dec("))
        if job.op in ("add", "sub") and mixed and m["ty"] and m["ty"][1] >= 10 and tb.get("int_to_decimal_pow_i32") == 1:
            return "int-to-decimal-scale-pow-i32"
        if m.get("clamped") and job.op in ("add", "sub"):
            # the one listed shape (C12_dec_addsub_meets_spec_or_cast_error): the precision was clamped AND an operand
            # cast to the common type fails although the exact result is representable
            if real == "err" and m["spec"].startswith("ok:"):
                return "dec-addsub-clamped-operand-cast-error"
            # repaired shapes (no longer listed => a violation if they come back): a value with too many digits,
            # a panic / wrapped value of the unchecked add
            return "dec-addsub-clamped-precision"
        if m.get("clamped") and job.op == "mul":
            return "dec-mul-clamped-precision"
        return None
    return None


# ---------------------------------------------------------------- job construction
def int_jobs(rng, tier, profile="dev"):
    """quick tier, relfast: only what the dev profile cannot show (wrap-around of + - *): the exhaustive
    8-bit sweeps of + - * and a sample for the 32/64-bit types; everything in thorough."""
    jobs = []
    n = 60 if tier == "quick" else 1500
    lite = tier == "quick" and profile != "dev"
    for t, (bits, sg) in INT_TYPES.items():
        for op in OPS:
            if lite and (op in ("div", "rem") or bits == 16):
                continue
            if bits == 8:
                lo, hi = (-128, 127) if sg == "s" else (0, 255)
                pairs = [("I%d" % a, "I%d" % b) for a in range(lo, hi + 1) for b in range(lo, hi + 1)]
                j = Job("exh-%s-%s" % (t, op), "int", t, t, op, pairs)
                if op in ("add", "sub", "mul"):
                    j.exh = "cast(a as int) %s cast(b as int) between %d and %d" % (OPS[op], lo, hi)
                else:
                    j.exh = "b <> 0" + (" and not (a = -128 and b = -1)" if sg == "s" else "")
                jobs.append(j)
            else:
                pool = gen.int_pool(bits // 8, sg == "s")
                pairs = set()
                for a in pool:
                    for b in (pool if tier != "quick" else [pool[0], pool[-1], 0, 1, 2, pool[len(pool) // 2]] + ([-1] if sg == "s" else [])):
                        pairs.add((a, b))
                for _ in range(n):
                    pairs.add((rng_int(rng, bits, sg), rng_int(rng, bits, sg)))
                pairs = sorted(pairs)
                jobs.append(Job("rnd-%s-%s" % (t, op), "int", t, t, op, [("I%d" % a, "I%d" % b) for a, b in pairs]))
    for t in (("i8", "i64") if lite else ("i8", "i16", "i32", "i64")):
        bits = INT_TYPES[t][0]
        vals = sorted(set(gen.int_pool(bits // 8, True) + [rng_int(rng, bits, "s") for _ in range(20)])) if bits > 8 else list(range(-128, 128))
        jobs.append(Job("neg-%s" % t, "neg", t, None, "neg", [("I%d" % v, None) for v in vals]))
    for t in (() if lite else ("i8", "i16", "i32")):
        bits = INT_TYPES[t][0]
        vals = sorted(set(gen.int_pool(bits // 8, True))) if bits > 8 else list(range(-128, 128))
        jobs.append(Job("abs-%s" % t, "abs", t, None, "abs", [("I%d" % v, None) for v in vals]))
    return jobs


DEC_GRID = [(1, 0), (1, 1), (4, 1), (6, 2), (9, 0), (9, 9), (10, 3), (17, 4), (17, 17), (18, 0), (18, 9), (18, 18),
            (19, 0), (19, 5), (20, 10), (28, 14), (37, 1), (38, 0), (38, 19), (38, 38)]


def dec_cell(rng, p, s):
    lim = 10 ** p - 1
    c = rng.below(10)
    if c < 4:
        x = rng.choice([0, 1, -1, lim, -lim, 10 ** (p - 1), -(10 ** (p - 1)), lim // 2 + 1, 5 * 10 ** max(p - 1, 0) if p > 0 else 0])
        if abs(x) > lim:
            x = lim
    elif c < 7:
        x = rng.next() % (2 * lim + 1) - lim
    else:
        x = (rng.next() % 2001) - 1000
        if abs(x) > lim:
            x = x % (lim + 1)
    return "D%d/%d/%d" % (x, p, s)


def dec_jobs(rng, tier, profile="dev"):
    jobs = []
    combos = []
    grid = DEC_GRID
    for i, a in enumerate(grid):
        for b in grid:
            combos.append(("dec(%d,%d)" % a, "dec(%d,%d)" % b))
    for a in grid:
        for it in ("i8", "i16", "i32", "i64"):
            combos.append(("dec(%d,%d)" % a, it))
            combos.append((it, "dec(%d,%d)" % a))
    combos = rng.shuffle(combos)
    ncomb = (70 if profile == "dev" else 8) if tier == "quick" else len(combos)
    # always keep the Decimal64/128 boundary and the clamped corners
    must = [("dec(18,0)", "dec(18,0)"), ("dec(18,18)", "dec(18,18)"), ("dec(18,0)", "dec(19,0)"), ("dec(38,0)", "dec(38,0)"),
            ("dec(9,0)", "dec(9,0)"), ("dec(9,0)", "dec(10,3)"), ("dec(17,4)", "i32"), ("i64", "dec(4,1)"), ("dec(18,18)", "i8"),
            ("dec(17,17)", "dec(17,4)"), ("dec(38,38)", "dec(38,0)"), ("dec(19,5)", "i64")]
    chosen = must + [c for c in combos if c not in must][:ncomb]
    nrow = 10 if tier == "quick" else 60
    for ci, (ta, tb) in enumerate(chosen):
        for op in ("add", "sub", "mul"):
            pairs = []
            for _ in range(nrow):
                cells = []
                for t in (ta, tb):
                    if t.startswith("dec("):
                        p, s = [int(x) for x in t[4:-1].split(",")]
                        cells.append(dec_cell(rng, p, s))
                    else:
                        cells.append("I%d" % rng_int(rng, INT_TYPES[t][0], "s"))
                pairs.append(tuple(cells))
            if (ta, tb) == ("dec(18,0)", "dec(18,0)"):
                pairs.append(("D999999999999999999/18/0", "D1/18/0"))
            if (ta, tb) == ("dec(18,18)", "dec(18,18)"):
                pairs.append(("D500000000000000000/18/18", "D500000000000000000/18/18"))
            if (ta, tb) == ("dec(9,0)", "dec(10,3)") or (ta, tb) == ("dec(9,0)", "dec(9,0)"):
                pairs.append(("D500000000/9/0", "D%d/%s" % (10 ** int(tb[4:-1].split(",")[0]) - 1, tb[4:-1].replace(",", "/"))))
            jobs.append(Job("dec%d-%s" % (ci, op), "dec", ta, tb, op, sorted(set(pairs))))
    return jobs


# ---------------------------------------------------------------- running the pair jobs
def run_pair_jobs(jobs, profile, gbin, gmodel, tb, rng, tier, stats):
    mode = PROFILE_MODE[profile]
    lines, exh_req = [], []
    for j in jobs:
        if j.exh is not None:
            bits, sg = INT_TYPES[j.ta]
            st = "n" if tb.get("%s_native" % j.op, 1) == 1 else "c"
            lines.append("all8 %s %s %s %s" % (st, mode, sg, j.op))
        else:
            lines += [model_line(j, p, tb, mode) for p in j.pairs]
    mout = common.run_model(gmodel, "arith", lines, timeout=900)
    pos = 0
    for j in jobs:
        n = len(j.pairs)
        if j.exh is not None:
            j.model = [parse_model(j, " ".join(l.split()[2:])) for l in mout[pos:pos + n]]
        else:
            j.model = [parse_model(j, l) for l in mout[pos:pos + n]]
        pos += n
    # build cases
    cases, plan = [], []   # plan: (case_id, job, 'safe'|'single'|'batch', indices)
    for j in jobs:
        safe = [i for i, m in enumerate(j.model) if m["impl"].startswith("ok")]
        unsafe = [i for i, m in enumerate(j.model) if not m["impl"].startswith("ok")]
        cols = [("a", j.ta)] + ([("b", j.tb)] if j.tb else [])
        e = expr_sql(j, "a", "b")
        if j.exh is not None:
            lo, hi = (-128, 127) if INT_TYPES[j.ta][1] == "s" else (0, 255)
            if j.op == "rem" and lo < 0 and j.model[j.pairs.index(("I-128", "I-1"))]["impl"].startswith("ok"):
                j.exh = "b <> 0"            # rem_checked: MIN % -1 = 0 is an ordinary in-range pair
            sqlt = gen.tinfo(j.ta)[0]
            setup = ["create temp table p as select cast(x as %s) as a, cast(y as %s) as b from generate_series(%d,%d) g(x), generate_series(%d,%d) h(y)"
                     % (sqlt, sqlt, lo, hi, lo, hi)]
            full_safe = len(unsafe) == 0
            q = "select a, b, %s from p" % e + ("" if full_safe else " where " + j.exh)
            cid = "%s/%s/safe" % (profile, j.id)
            cases.append({"id": cid, "mode": "det", "partitions": 1, "stmts": setup + [q], "timeout_s": 120})
            plan.append((cid, j, "safe", safe))
            if unsafe:
                cid = "%s/%s/batch" % (profile, j.id)
                cases.append({"id": cid, "mode": "det", "partitions": 1,
                              "stmts": setup + ["select a, b, %s from p where not (%s)" % (e, j.exh)], "timeout_s": 120})
                plan.append((cid, j, "batch", unsafe))
            # individual statements: all faults of / and %, boundary + sampled overflow pairs
            if tier == "quick" and len(unsafe) > 300:
                keep = set(unsafe[:3] + unsafe[-3:])
                sh = rng.shuffle(unsafe)
                keep.update(sh[:260])
                unsafe_run = sorted(keep)
            else:
                unsafe_run = unsafe
        else:
            if safe:
                rows = [[c for c in j.pairs[i] if c is not None] for i in safe]
                stmts = [gen.create_table("t", cols)] + gen.insert_rows("t", cols, rows) + \
                        ["select a, %s%s from t" % ("b, " if j.tb else "", e)]
                cid = "%s/%s/safe" % (profile, j.id)
                cases.append({"id": cid, "mode": "det", "partitions": 1, "stmts": stmts, "timeout_s": 120})
                plan.append((cid, j, "safe", safe))
            unsafe_run = unsafe
        for i in unsafe_run:
            cid = "%s/%s/%d" % (profile, j.id, i)
            cases.append({"id": cid, "mode": "det", "partitions": 1, "stmts": [literal_stmt(j, j.pairs[i])], "timeout_s": 30})
            plan.append((cid, j, "single", [i]))
    real = common.run_harness(gbin, "sql", cases, timeout=1500)
    by_id = {c["id"]: (c, r) for c, r in zip(cases, real)}
    viol, known = [], {}

    def note_known(fid, j, pair, m, realv, sql):
        k = known.setdefault(fid, {"count": 0, "example": None})
        k["count"] += 1
        if k["example"] is None:
            k["example"] = {"profile": profile, "types": [j.ta, j.tb], "op": j.op, "operands": list(pair), "real": realv,
                            "model": m["impl"], "spec": m["spec"], "sql": sql}

    def judge(j, i, realv, notes, sql):
        """compare one pair's real outcome with spec and model (sql None: the literal statement, built on demand)"""
        m, pair = j.model[i], j.pairs[i]
        stats["evaluations"] += 1
        stats["distinct"].add((j.kind, j.ta, j.tb, j.op, m["impl"][:2], m["spec"][:2], profile))
        if realv == m["spec"] and realv == m["impl"] and not notes:
            return
        if sql is None:
            sql = [literal_stmt(j, pair)]
        for nt in notes:
            viol.append({"kind": "result-type", "note": nt, "profile": profile, "types": [j.ta, j.tb], "op": j.op,
                         "operands": list(pair), "real": realv, "stmts": sql})
        if realv == m["spec"]:
            if realv != m["impl"]:
                stats["model_unfaithful"].append({"profile": profile, "types": [j.ta, j.tb], "op": j.op, "operands": list(pair),
                                                  "real": realv, "model": m["impl"], "stmts": sql})
            return
        fid = finding_id(j, pair, m, realv, tb) if realv == m["impl"] else None
        if fid:
            note_known(fid, j, pair, m, realv, sql)
        else:
            viol.append({"kind": "arith-result", "profile": profile, "types": [j.ta, j.tb], "op": j.op, "operands": list(pair),
                         "real": realv, "model": m["impl"], "spec": m["spec"], "stmts": sql})

    for cid, j, what, idx in plan:
        c, r = by_id[cid]
        o = case_last(r, len(c["stmts"]))
        replay = c["stmts"] if len(c["stmts"]) < 6 else c["stmts"][:2] + ["..."] + c["stmts"][-1:]
        if what == "single":
            i = idx[0]
            if o[0] == "ok":
                rows, schema = o[1], o[2]
                if len(rows) != 1:
                    viol.append({"kind": "row-count", "stmts": c["stmts"], "rows": rows[:3]})
                    continue
                rv, notes = real_value(j, rows[0][0], schema[0][1], j.model[i], tb) if j.model[i]["ty"] or j.kind != "dec" else ("ok:" + rows[0][0], [])
                judge(j, i, rv, notes, c["stmts"])
            else:
                judge(j, i, "err" if o[0] == "err" else o[0], [], c["stmts"])
        elif what == "batch":
            stats["batch_statements"] += 1
            if o[0] == "ok":
                # every pair in the batch is expected to fail; a row that came back is judged on its own
                for row in o[1][:20]:
                    key = (row[0], row[1])
                    ii = [i for i in idx if j.pairs[i] == key]
                    if ii:
                        judge(j, ii[0], "ok:" + row[2][1:], [], c["stmts"])
            elif o[0] != "err":
                # every pair of the batch is unrepresentable: the statement has to FAIL WITH AN ERROR (not panic / hang)
                i0 = idx[0]
                m0 = j.model[i0]
                if m0["impl"] == o[0] and finding_id(j, j.pairs[i0], m0, o[0], tb):
                    note_known(finding_id(j, j.pairs[i0], m0, o[0], tb), j, j.pairs[i0], m0, o[0], replay)
                else:
                    viol.append({"kind": "arith-batch-not-error", "profile": profile, "types": [j.ta, j.tb], "op": j.op,
                                 "outcome": list(o)[:2], "stmts": replay})
            # a failing statement only shows that the first evaluated pair fails; the individual statements decide each pair
        else:  # safe group
            if o[0] != "ok":
                # the model said every pair is fine but the statement failed: find the culprit(s) individually
                bad = []
                sub = idx if len(idx) <= 400 else rng.shuffle(idx)[:400]
                sc = [{"id": "x%d" % i, "mode": "det", "partitions": 1, "stmts": [literal_stmt(j, j.pairs[i])], "timeout_s": 30} for i in sub]
                for i, rr in zip(sub, common.run_harness(gbin, "sql", sc, timeout=600)):
                    oo = case_last(rr, 1)
                    if oo[0] != "ok":
                        bad.append(i)
                        judge(j, i, oo[0], [], [literal_stmt(j, j.pairs[i])])
                if not bad:
                    viol.append({"kind": "group-statement-failed", "profile": profile, "outcome": list(o)[:2], "stmts": replay})
                continue
            rows, schema = o[1], o[2]
            got = {}
            ncol = 2 if j.tb else 1
            for row in rows:
                got.setdefault(tuple(row[:ncol]), []).append(row[ncol])
            st = schema[ncol][1]
            for i in idx:
                pair = j.pairs[i]
                key = tuple(c for c in pair if c is not None)
                lst = got.get(key)
                if not lst:
                    viol.append({"kind": "missing-row", "profile": profile, "types": [j.ta, j.tb], "op": j.op, "operands": list(pair), "stmts": replay})
                    continue
                cell = lst.pop()
                rv, notes = real_value(j, cell, st, j.model[i], tb)
                judge(j, i, rv, notes, None)
            extra = [(k, v) for k, v in got.items() if v]
            if extra:
                viol.append({"kind": "unexpected-rows", "profile": profile, "types": [j.ta, j.tb], "op": j.op,
                             "rows": [list(k) + v for k, v in extra[:5]], "stmts": replay})
    return viol, known


# ---------------------------------------------------------------- SUM / AVG
I64MAX, I64MIN = (1 << 63) - 1, -(1 << 63)


def agg_cases(rng, tier):
    """columns that overflow early / late / never"""
    cols = []
    base = [("never-small", [1, 2, 3, -4, 100, 7]), ("never-big", [I64MAX, I64MIN, 5, -5, I64MAX // 2, -(I64MAX // 2)]),
            ("early", [I64MAX, 1, 5]), ("early-back", [I64MAX, 1, -1]), ("back-ok", [I64MAX, -1, 1]), ("min-ok", [I64MIN, 1, -1, 0]), ("late", [1, 2, 3, 4, I64MAX - 9, 5]),
            ("neg-early", [I64MIN, -1, 7]), ("twice", [I64MAX, I64MAX, I64MIN, I64MIN, I64MAX, 3]),
            ("exact-max", [I64MAX - 6, 1, 2, 3]), ("single", [I64MAX]), ("empty", []), ("nulls", [None, 5, None, I64MAX, None])]
    for name, v in base:
        cols.append((name, v))
    n = 6 if tier == "quick" else 80
    for i in range(n):
        k = 2 + rng.below(40)
        v = []
        for _ in range(k):
            c = rng.below(10)
            v.append(rng.choice([I64MAX, I64MIN, I64MAX // 2, I64MAX // 3, -(I64MAX // 3)]) if c < 3 else
                     (rng.next() % 2001) - 1000 if c < 7 else rng_int(rng, 64, "s"))
        cols.append(("rnd%d" % i, v))
    return cols


def stage_agg(rng, tier, profile, gbin, gmodel, tb, stats):
    mode = PROFILE_MODE[profile]
    viol, known = [], {}
    cols = agg_cases(rng, tier)
    cases, meta = [], []
    parts_list = [1, 2, 3, 8] if tier == "quick" else [1, 2, 3, 4, 5, 6, 7, 8]
    for name, vals in cols:
        for parts in parts_list:
            rows = [["N" if v is None else "I%d" % v] for v in vals]
            stmts = ["set partitions to %d" % parts, gen.create_table("t", [("a", "i64")])] + \
                    gen.insert_rows("t", [("a", "i64")], rows) + ["select avg(a), count(a) from t", "select sum(a) from t"]
            cid = "%s/agg/%s/p%d" % (profile, name, parts)
            cases.append({"id": cid, "mode": "det" if parts == 1 else "threaded", "threads": 4, "partitions": parts,
                          "stmts": stmts, "timeout_s": 60})
            meta.append((cid, name, [v for v in vals if v is not None], parts, stmts))
    # decimal SUM / AVG
    dcols = [("dec(38,0)", [10 ** 38 - 1, 1]), ("dec(38,0)", [10 ** 38 - 1, 10 ** 38 - 1]), ("dec(38,3)", [10 ** 38 - 1, -(10 ** 38 - 1), 5]),
             ("dec(18,2)", [10 ** 18 - 1, 10 ** 18 - 1, 10 ** 18 - 1]), ("dec(10,3)", [1500, 2500, -125, 7]), ("dec(4,1)", [15, 25, 35]),
             ("dec(20,10)", [10 ** 20 - 1, 12345678901, -3])]
    dmeta = []
    for di, (t, vals) in enumerate(dcols):
        p, s = [int(x) for x in t[4:-1].split(",")]
        rows = [["D%d/%d/%d" % (v, p, s)] for v in vals]
        for what in ("sum", "avg"):
            stmts = [gen.create_table("t", [("a", t)])] + gen.insert_rows("t", [("a", t)], rows) + ["select %s(a) from t" % what]
            cid = "%s/agg/dec%d/%s" % (profile, di, what)
            cases.append({"id": cid, "mode": "det", "partitions": 1, "stmts": stmts, "timeout_s": 60})
            dmeta.append((cid, t, s, vals, what, stmts))
    real = common.run_harness(gbin, "sql", cases, timeout=900)
    by_id = {c["id"]: (c, r) for c, r in zip(cases, real)}
    lines = []
    for cid, name, vals, parts, stmts in meta:
        lines.append("sum 64 " + " ".join(str(v) for v in vals))
        lines.append("avgint " + " ".join(str(v) for v in vals))
    m64, m128 = tb.get("d64_max_precision") or 18, tb.get("d128_max_precision") or 38
    for cid, t, s, vals, what, stmts in dmeta:
        lines.append(("sumdec %d %d " % (m64, m128) if what == "sum" else "avgdec %s " % mode) + " ".join(str(v) for v in vals))
    mout = common.run_model(gmodel, "arith", lines)
    # second round for the float results
    avg_req, pos = [], 0
    for cid, name, vals, parts, stmts in meta:
        s_, c_ = mout[pos + 1].split()
        avg_req.append("avgf %s %s 0" % (s_, c_) if int(c_) > 0 else "")
        pos += 2
    for k, (cid, t, s, vals, what, stmts) in enumerate(dmeta):
        if what == "avg" and mout[pos + k].startswith("ok:"):
            avg_req.append("avgf %s %d %d" % (mout[pos + k][3:], len(vals), s))
        else:
            avg_req.append("")
    aout = common.run_model(gmodel, "arith", avg_req)

    def known_add(fid, ex):
        k = known.setdefault(fid, {"count": 0, "example": None})
        k["count"] += 1
        if k["example"] is None:
            k["example"] = ex

    pos = 0
    for mi, (cid, name, vals, parts, stmts) in enumerate(meta):
        c, r = by_id[cid]
        o = case_last(r, len(stmts))
        impl, spec = mout[pos].split()
        pos += 2
        stats["evaluations"] += 2
        stats["distinct"].add(("sum", name, parts, profile))
        replay = stmts
        overflow_possible = sum(abs(v) for v in vals) > I64MAX
        # --- SUM (last statement): value / null / err / panic in the model's vocabulary
        if o[0] == "ok":
            cell = o[1][0][0]
            rsum = "ok:null" if cell == "N" else "ok:" + cell[1:]
        else:
            rsum = o[0]
        sum_replay = stmts[:-2] + stmts[-1:]
        if rsum == spec:
            if parts == 1 and rsum != impl:
                stats["model_unfaithful"].append({"what": "sum", "values": vals, "real": rsum, "model": impl, "stmts": sum_replay})
        elif rsum == "err" and spec.startswith("ok:") and overflow_possible and (parts > 1 or impl == "err"):
            # exact-or-error holds, but the error is raised on an intermediate overflow (the split into partitions is
            # only known for 1 partition, where the model must agree)
            known_add("sum-error-on-intermediate-overflow", {"profile": profile, "partitions": parts, "values": vals, "real": rsum,
                                                             "spec": spec, "sql": sum_replay})
        else:
            # a wrong value (e.g. the accumulator restarting from 0), a panic, or an error without any possible overflow
            viol.append({"kind": "sum-int", "profile": profile, "partitions": parts, "values": vals, "real": rsum,
                         "model_1_partition": impl, "spec": spec, "stmts": sum_replay})
        # --- AVG(bigint), COUNT (second to last statement): exact sum in i128, then one rounding: compare bit patterns
        res = r.get("results", [])
        oa = stmt_outcome(res[-2]) if len(res) == len(stmts) else ("panic", "missing")
        avg_replay = stmts[:-1]
        if oa[0] != "ok":
            viol.append({"kind": "avg-int", "profile": profile, "outcome": list(oa)[:2], "stmts": avg_replay})
            continue
        row = oa[1][0]
        want = aout[mi]
        ravg = row[0]
        if not vals:
            if ravg != "N":
                viol.append({"kind": "avg-int", "what": "avg over no rows is not NULL", "real": ravg, "stmts": avg_replay})
        elif want.startswith("some:"):
            if ravg != "F%x" % int(want[5:]):
                viol.append({"kind": "avg-int", "profile": profile, "partitions": parts, "values": vals, "real": ravg,
                             "want_bits": "F%x" % int(want[5:]), "stmts": avg_replay})
        if row[1] != "I%d" % len(vals):
            viol.append({"kind": "count", "real": row[1], "want": len(vals), "stmts": avg_replay})
    for k, (cid, t, s, vals, what, stmts) in enumerate(dmeta):
        c, r = by_id[cid]
        o = case_last(r, len(stmts))
        ml = mout[pos + k]
        stats["evaluations"] += 1
        stats["distinct"].add((what, t, tuple(vals), profile))
        if what == "sum":
            impl, spec = ml.split()
            if o[0] == "ok":
                cell = o[1][0][0]
                st = o[2][0][1]
                if cell == "N":
                    rs = "ok:null"
                elif cell[0] != "D":
                    viol.append({"kind": "sum-dec-type", "real_type": st, "cell": cell, "stmts": stmts})
                    rs = "ok:" + cell[1:]
                else:
                    u, p_, s_ = cell[1:].split("/")
                    if st != "Decimal128(%d,%d)" % (m128, s) or int(s_) != s or int(p_) != m128:
                        viol.append({"kind": "sum-dec-type", "real_type": st, "cell": cell, "stmts": stmts})
                    rs = "ok:" + u
            else:
                rs = o[0]
            if rs == spec:
                if rs != impl:
                    stats["model_unfaithful"].append({"what": "sum-dec", "values": [str(v) for v in vals], "real": rs, "model": impl, "stmts": stmts})
            elif rs == impl and spec == "err" and rs.startswith("ok:") and rs == "ok:%d" % sum(vals):
                # the exact total, but with more digits than Decimal128(38,_) allows
                known_add("sum-dec-exceeds-precision", {"profile": profile, "type": t, "values": [str(v) for v in vals], "real": rs,
                                                        "spec": spec, "sql": stmts})
            else:
                viol.append({"kind": "sum-dec", "profile": profile, "type": t, "values": [str(v) for v in vals], "real": rs,
                             "model": impl, "spec": spec, "stmts": stmts})
        else:
            exact_fits = abs(sum(vals)) < (1 << 127)
            if o[0] == "ok":
                want = aout[len(meta) + k]
                cell = o[1][0][0]
                if exact_fits and want.startswith("some:"):
                    if cell != "F%x" % int(want[5:]):
                        viol.append({"kind": "avg-dec", "profile": profile, "type": t, "values": [str(v) for v in vals], "real": cell,
                                     "want_bits": "F%x" % int(want[5:]), "stmts": stmts})
                elif not exact_fits:
                    # a value although the exact total is outside the i128 accumulator (a wrapped sum): since 2f7b0a8b9 the
                    # accumulator is checked, the model says err
                    viol.append({"kind": "avg-dec", "profile": profile, "type": t, "real": cell, "model": ml, "stmts": stmts})
            else:
                # the checked accumulator (model avg_dec_acc = err) must report an error; a panic is a violation
                if not exact_fits and o[0] == "err" and ml == "err":
                    pass
                else:
                    viol.append({"kind": "avg-dec", "profile": profile, "type": t, "outcome": list(o)[:2], "model": ml, "stmts": stmts})
    return viol, known


# ---------------------------------------------------------------- round() on decimals
def stage_round(rng, tier, gbin, gmodel, stats):
    viol = []
    lines, cases, meta = [], [], []
    n = 40 if tier == "quick" else 600
    for i in range(n):
        p, s = rng.choice([(4, 2), (9, 3), (18, 6), (18, 18), (20, 4), (38, 10)])
        nd = rng.below(s)           # 0 <= n < s
        lim = 10 ** p - 1
        k = s - nd
        half = 10 ** k // 2
        v = rng.choice([half, -half, half - 1, -half + 1, 3 * half, -3 * half, lim, -lim, 0, 10 ** k + half, -(10 ** k) - half]) \
            if rng.chance(60) else rng.next() % (2 * lim + 1) - lim
        if abs(v) > lim:
            v = lim
        t = "dec(%d,%d)" % (p, s)
        lines.append("round %d %d %d" % (64 if p <= 18 else 128, v, k))
        sql = "select round(%s, %d)" % (gen.sql_lit(t, "D%d/%d/%d" % (v, p, s)), nd)
        cases.append({"id": "round%d" % i, "mode": "det", "partitions": 1, "stmts": [sql], "timeout_s": 30})
        meta.append((p, s, nd, v, sql))
    mout = common.run_model(gmodel, "arith", lines)
    real = common.run_harness(gbin, "sql", cases, timeout=300)
    for (p, s, nd, v, sql), m, r in zip(meta, mout, real):
        o = case_last(r, 1)
        stats["evaluations"] += 1
        stats["distinct"].add(("round", p, s, nd, v))
        if o[0] == "ok":
            cell = o[1][0][0]
            u, p_, s_ = cell[1:].split("/")
            rv = "ok:" + u
            if int(s_) != nd or o[2][0][1] != "Decimal%d(%d,%d)" % (64 if p <= 18 else 128, p, nd):
                viol.append({"kind": "round-type", "real_type": o[2][0][1], "cell": cell, "stmts": [sql]})
        else:
            rv = o[0]
        if rv != m:
            viol.append({"kind": "round-decimal", "value": str(v), "type": [p, s], "digits": nd, "real": rv, "model": m, "stmts": [sql]})
    return viol


KNOWN_WHAT = {}


def run(ctx):
    t0 = time.time()
    rng = common.Rng(ctx["seed"])
    tier = ctx["tier"]
    out = {"violations": [], "known": [], "assumptions": []}
    tb = tables_arith.regenerate()
    # the release-like profile is a guard that debug and release agree (no more profile-dependent behaviour since the
    # operators are checked): thorough tier only
    profiles = ("dev",) if tier == "quick" else ("dev", "relfast")
    bins = {pf: common.build_harness(profile=pf, bin="gverif")[0] for pf in profiles}
    # --- proof stage
    pr = common.coq_props(PROPS)
    mine = [f for f in common.coq_sources() if any(f.endswith(x) for x in
            ("model/Arith.v", "model/Decimal.v", "proofs/ArithProofs.v", "proofs/DecimalProofs.v", "props/C12.v",
             "extract/ExtractArith.v", "gen/TablesArith.v"))]
    audit = common.audit_sources(mine)
    obligations = pr["declared"]
    bad_assum = common.check_assumptions(pr) if pr["ok"] else []
    discharged = len(obligations) if pr["ok"] and not bad_assum and not audit else 0
    gmodel = common.build_ocaml("arith")
    missing_consts = [k for k, v in tb.items() if v is None]
    # --- correspondence stage
    stats = {"evaluations": 0, "distinct": set(), "model_unfaithful": [], "batch_statements": 0}
    viol, known = [], {}
    per_profile = {}
    for profile in profiles:
        prng = common.Rng(ctx["seed"] * 7919 + (1 if profile == "dev" else 2))
        jobs = int_jobs(prng, tier, profile) + dec_jobs(prng, tier, profile)
        v1, k1 = run_pair_jobs(jobs, profile, bins[profile], gmodel, tb, prng, tier, stats)
        v2, k2 = stage_agg(prng, tier, profile, bins[profile], gmodel, tb, stats)
        viol += v1 + v2
        for kk in (k1, k2):
            for fid, d in kk.items():
                e = known.setdefault(fid, {"count": 0, "example": d["example"]})
                e["count"] += d["count"]
        per_profile[profile] = {"pair_jobs": len(jobs), "pairs": sum(len(j.pairs) for j in jobs)}
    viol += stage_round(rng, tier, bins["dev"], gmodel, stats)
    # --- verdicts
    listed = {e["id"]: e for e in common.known_findings()["known"] if e.get("property") == PID}
    for fid in sorted(known):
        d = known[fid]
        if fid in listed:
            out["known"].append("%s: %s [%d cases; e.g. %s]" % (fid, listed[fid]["what"], d["count"],
                                                                 json.dumps(d["example"].get("sql", d["example"]))[:300]))
        else:
            out["violations"].append({"what": "deviation in class %s, which is not a listed known finding" % fid,
                                      "replay": d["example"], "no_input": False})
    not_reproduced = sorted(fid for fid in listed if fid not in known)
    per_kind = {}
    for v in viol:
        kk = (v["kind"], v.get("profile"), v.get("op"))
        per_kind[kk] = per_kind.get(kk, 0) + 1
        if per_kind[kk] <= 4 and len(out["violations"]) < 80:      # a few replays per kind are enough
            out["violations"].append({"what": v["kind"], "replay": v, "no_input": False})
    proof_broken = (not pr["ok"]) or bad_assum or audit or missing_consts
    if proof_broken:
        reason = {"proof_failed_at": pr.get("failed_at"), "log_tail": pr["log"][-1500:] if not pr["ok"] else "",
                  "assumption_problems": bad_assum, "audit": audit, "missing_source_constants": missing_consts, "tables": tb}
        if not viol:
            out["violations"].append({"what": "theorem(s) in %s no longer check and the correspondence runs found no failing input" % PROPS,
                                      "replay": reason, "no_input": True})
        else:
            out["violations"][0]["replay"] = dict(out["violations"][0]["replay"], broken=reason)
    if stats["model_unfaithful"]:
        out["violations"].append({"what": "correspondence: engine meets the spec where model/Arith.v|Decimal.v predicts a deviation "
                                          "(model no longer faithful; source changed?)",
                                  "replay": {"cases": stats["model_unfaithful"][:5], "tables": tb}, "no_input": True})
    out["coverage"] = {
        "obligations": len(obligations), "discharged": discharged,
        "checker_cmd": "cd coq && make props/C12.vo (Print Assumptions parsed; forbidden-construct audit over the arith files)",
        "trusted_base": ["Coq 8.16.1 kernel (vm_compute in closed witness lemmas only)",
                         "vlib/tables_arith.py scanner (MAX_PRECISION, integer->decimal precisions, native-vs-checked per operator file)",
                         "extraction (ExtrOcamlBasic only) + ocaml/arith.ml parsing/printing",
                         "harness gverif sql (det mode, dev = overflow-checks on, relfast = off); SQL text -> typed cells via casts from text",
                         "BinaryExecutor / cast planning are exercised, not modelled; float results of avg compared by bit pattern with model/Decimal.v round_q_f64"],
        "theorems": obligations,
        "evaluations": stats["evaluations"], "distinct_nontrivial": len(stats["distinct"]),
        "rule": "every (operand pair, operator, type, build profile): real outcome class/value vs spec (exact or Err) and vs the extracted "
                "faithful model; all 65 536 pairs of Int8 and UInt8 for + - * / % (in-range pairs in one statement per operator, "
                "faulting pairs as individual statements: all of them in thorough, a seeded sample + every / % fault in quick; release: every "
                "wrapping pair in one statement); boundary-biased pairs for 16/32/64-bit; decimal (p,s) grid incl. Decimal64/128 boundary and "
                "int/decimal mixes; SUM/AVG(bigint) under 1..8 partitions; SUM/AVG(decimal); round(decimal,n). distinct = distinct "
                "(kind, types, op, model class, spec class, profile).",
        "samples": [known[k]["example"] for k in sorted(known)][:4],
        "profiles": per_profile, "batch_statements": stats["batch_statements"],
        "known_classes_reproduced": {k: v["count"] for k, v in known.items()},
        "known_classes_not_reproduced": not_reproduced,   # a note, not an alarm: the defect may have been repaired
        "source_constants": tb, "exhaustive": False,
    }
    out["assumptions"] = ["text -> integer/decimal casts deliver the intended operands (operands are read back from the result rows in the "
                          "grouped statements)",
                          "with more than one partition the split of rows is not observable: SUM is then only required to be exact when no "
                          "order of additions can overflow",
                          "Int128/UInt128 have no SQL spelling exercised here; the 128-bit theorems are proofs only (Decimal128 exercises i128)"]
    out["wall"] = time.time() - t0
    # SUM/AVG state machines (update/merge/finalize) over any split of the input: model/AggFn.v, props/C07fn.v
    from . import c07fn, c05num
    out = common.merge_results(out, c07fn.run(ctx), "aggregate_function_states")
    # abs, rounding functions, gcd/lcm/factorial, shifts: model/NumFn.v, props/C05num.v
    return common.merge_results(out, c05num.run(ctx), "numeric_bitwise_functions")
