"""C18 — The announced schema is the schema of the rows produced.

Stages: tables (gv_typing dump-tables -> coq/gen/TablesTyping.v, every run) -> proofs (props/C18.v) ->
correspondence 1 (`gv_typing resolve` = the real FunctionSet::find_exact / CandidateSignature::find_candidates
against the extracted model/Resolve.v on every argument tuple up to arity 2 and sampled arity 3..5, every
function set) -> correspondence 2 (SQL: DESCRIBE <query> == result output schema == the datatype of every
produced array == the variant of every produced value, optimizer on/off, partitions 1/4; set-operation
output types against the extracted unify_cols)."""
import json, re, time
from . import common, tables_typing

PID = "C18"
PROPS = "props/C18.v"

# ---------------------------------------------------------------- correspondence 1: resolution
LIT_REPR = {("Int32", "L8"): 5, ("Int32", "L16"): 300, ("Int32", "L32"): 70000,
            ("Int64", "L8"): 5, ("Int64", "L16"): 300, ("Int64", "L32"): 70000, ("Int64", "L64"): 5000000000}
LIT_EDGE = {"Int32": [127, 128, -128, -129, 32767, 32768, -32768, -32769, 2147483647, -2147483648],
            "Int64": [127, 128, -128, -129, 32767, 32768, -32768, -32769, 2147483647, 2147483648, -2147483648, -2147483649,
                      9223372036854775807, -9223372036854775808]}


def input_kinds(d):
    names = d["type_ids"]
    kinds = [str(i) for i in range(len(names))]
    for (t, _), v in sorted(LIT_REPR.items()):
        kinds.append("%d:%d" % (names.index(t), v))
    return kinds


def stage_resolve(ctx, rng, d, gtyping, gmodel):
    kinds = input_kinds(d)
    names = d["type_ids"]
    edge = ["%d:%d" % (names.index(t), v) for t, vs in LIT_EDGE.items() for v in vs]
    cases, lines = [], []
    n3 = 150 if ctx["tier"] == "quick" else 3000
    for kind in ("scalar", "aggregate"):
        for si, f in enumerate(d[kind]):
            tuples = [[]] + [[a] for a in kinds] + [[a, b] for a in kinds for b in kinds]
            tuples += [[a] for a in edge] + [[a, rng.choice(kinds)] for a in edge] + [[rng.choice(kinds), a] for a in edge]
            maxar = max([len(s["pos"]) for s in f["sigs"]] + [0])
            variadic = any(s["var"] is not None for s in f["sigs"])
            k3 = n3 * (8 if (maxar >= 3 or variadic) else 1)
            for _ in range(k3):
                ar = 3 if not variadic else 3 + rng.below(3)
                tuples.append([rng.choice(kinds + edge) if rng.chance(15) else rng.choice(kinds) for _ in range(ar)])
            cases.append({"id": "%s%d" % (kind[0], si), "kind": kind, "set": si,
                          "tuples": [[int(a) if ":" not in a else a for a in t] for t in tuples]})
            for t in tuples:
                lines.append("%s %d %s" % (kind, si, " ".join(t)))
    real = common.run_harness(gtyping, "resolve", cases, timeout=900)
    model = common.run_model(gmodel, "resolve", lines, timeout=900)
    pos, mism, n, distinct, nexact, ncand, nnone, multi = 0, [], 0, set(), 0, 0, 0, 0
    sample = None
    for c, r in zip(cases, real):
        out = r.get("out")
        k = len(c["tuples"])
        want = model[pos:pos + k]
        pos += k
        fname = d[c["kind"]][c["set"]]["name"]
        if out is None or len(out) != k:
            mism.append({"function": fname, "kind": c["kind"], "harness": str(r)[:300]})
            continue
        for t, a, b in zip(c["tuples"], out, want):
            n += 1
            ok = False
            if a == b:
                ok = True           # E<idx> / X
            elif a.startswith("C") and b.startswith("C"):
                fa, ba = a[1:].split("|", 1)
                fb, bb = b[1:].split("|", 1)
                mx = fb.split(",")
                ok = ba == bb and fa in mx
                if len(mx) > 1:
                    multi += 1
            if a.startswith("E"):
                nexact += 1
            elif a.startswith("C"):
                ncand += 1
            else:
                nnone += 1
            if not ok:
                if len(mism) < 50:
                    mism.append({"function": fname, "kind": c["kind"], "set": c["set"],
                                 "args": [names[int(str(x).split(":")[0])] + (":" + str(x).split(":")[1] if ":" in str(x) else "") for x in t],
                                 "real": a[:600], "model": b[:600]})
            distinct.add((c["kind"], c["set"], a[:40]))
            if sample is None and a.startswith("C") and len(t) == 2:
                sample = {"function": fname, "args": [names[int(str(x).split(":")[0])] for x in t], "real": a[:200], "model": b[:200]}
    return {"n": n, "mismatches": mism, "distinct": len(distinct), "exact": nexact, "candidates": ncand, "none": nnone,
            "several_maximal": multi, "functions": len(cases), "sample": sample}


def real_ties(ctx, rng, d, gtyping):
    """Search on the implementation only: resolve every tuple of arity <= 2 with the REAL find_candidates and look
    for maximal-score candidates that differ in cast vector or return type (what sort_unstable_by would decide)."""
    kinds = input_kinds(d)
    names = d["type_ids"]
    cases = []
    for kind in ("scalar", "aggregate"):
        for si, f in enumerate(d[kind]):
            tuples = [[a] for a in kinds] + [[a, b] for a in kinds for b in kinds]
            cases.append({"id": "%s%d" % (kind[0], si), "kind": kind, "set": si, "tuples": [[int(a) if ":" not in a else a for a in t] for t in tuples]})
    real = common.run_harness(gtyping, "resolve", cases, timeout=900)
    found, n = [], 0
    for c, r in zip(cases, real):
        f = d[c["kind"]][c["set"]]
        for t, a in zip(c["tuples"], r.get("out") or []):
            n += 1
            if not a.startswith("C"):
                continue
            cands = [x.split(":") for x in a.split("|", 1)[1].split(";")]
            mx = max(int(x[1]) for x in cands)
            top = [x for x in cands if int(x[1]) == mx]
            if len(set((x[2], f["sigs"][int(x[0])]["ret"]) for x in top)) > 1 and len(found) < 40:
                found.append({"function": f["name"], "kind": c["kind"], "arg_types": [names[int(str(x).split(":")[0])] for x in t], "real_find_candidates": a[:800]})
    return found, n


def stage_ties(d, gmodel):
    """The extracted ties_of over the regenerated tables: the tuples whose maximal candidates disagree."""
    out = common.run_model(gmodel, "ties", [], timeout=900)
    names = d["type_ids"]
    ties, multi = [], 0
    for l in out:
        p = l.split()
        if p and p[0] == "T":
            f = d[p[1]][int(p[2])]
            args = [names[int(a.split(":")[0])] + (":" + a.split(":")[1] if ":" in a else "") for a in p[3:]]
            ties.append({"kind": p[1], "set": int(p[2]), "function": f["name"], "args": args, "raw": p[3:]})
        elif p and p[0] == "M":
            multi += 1
    return ties, multi, ("done" in out)


# ---------------------------------------------------------------- correspondence 2: SQL
COLS = [("ci8", "tinyint", "Int8"), ("ci16", "smallint", "Int16"), ("ci32", "int", "Int32"), ("ci64", "bigint", "Int64"),
        ("cu8", "utinyint", "UInt8"), ("cu16", "usmallint", "UInt16"), ("cu32", "uint", "UInt32"), ("cu64", "ubigint", "UInt64"),
        ("ch", "half", "Float16"), ("cf32", "float", "Float32"), ("cf64", "double", "Float64"),
        ("cd1", "decimal(10,2)", "Decimal64(10,2)"), ("cd2", "decimal(18,9)", "Decimal64(18,9)"),
        ("cd3", "decimal(30,5)", "Decimal128(30,5)"), ("cd4", "decimal(5,0)", "Decimal64(5,0)"),
        ("cd5", "decimal(38,10)", "Decimal128(38,10)"), ("cd6", "decimal(4,3)", "Decimal64(4,3)"),
        ("cb", "boolean", "Boolean"), ("ct", "text", "Utf8"), ("cdt", "date", "Date32"),
        ("cts", "timestamp", "Timestamp(μs)"), ("civ", "interval", "Interval"), ("cbin", "blob", "Binary")]
CAST_TARGETS = ["tinyint", "smallint", "int", "bigint", "utinyint", "usmallint", "uint", "ubigint", "half", "float", "double",
                "decimal(10,2)", "decimal(18,9)", "decimal(30,5)", "decimal(5,0)", "decimal(38,10)", "decimal(3,1)", "decimal(38,0)",
                "boolean", "text", "date", "timestamp", "interval", "blob"]
LITS = ["1", "100", "100000", "3000000000", "1.5", "0.001", "12345678901234567890.5", "'2'", "null", "1e0", "true",
        "date '2020-01-02'", "interval '1 day'", "cast(1 as decimal(4,1))", "cast(2 as bigint)", "-1", "'abc'"]


def setup_stmts():
    stmts = ["create temp table t (%s)" % ", ".join("%s %s" % (n, t) for n, t, _ in COLS)]
    for k in (1, 2, 3):
        vals = {"ci8": k, "ci16": k, "ci32": k, "ci64": k, "cu8": k, "cu16": k, "cu32": k, "cu64": k, "ch": "%d.5" % k,
                "cf32": "%d.5" % k, "cf64": "%d.25" % k, "cd1": "%d.25" % k, "cd2": "%d.5" % k, "cd3": "%d.125" % k, "cd4": k,
                "cd5": "%d.75" % k, "cd6": "%d.125" % k, "cb": "true" if k % 2 else "false", "ct": "'%d'" % k,
                "cdt": "date '2020-01-0%d'" % k, "cts": "epoch(%d)" % k, "civ": "interval '%d day'" % k, "cbin": "'a%d'" % k}
        stmts.append("insert into t values (%s)" % ", ".join(str(vals[n]) for n, _, _ in COLS))
    stmts.append("insert into t values (%s)" % ", ".join("epoch(cast(null as bigint))" if n == "cts" else "null" for n, _, _ in COLS))
    # identifiers with upper-case letters: unquoted mixed case, quoted mixed case, quoted with a space / non-ASCII,
    # two columns that differ only in case
    stmts.append('create temp table Tm (OrderId int, "unitPrice" double, "Line Total" int, "Größe" text, "a" int, "A" int)')
    stmts.append("insert into Tm values (1, 2.5, 3, 'x', 4, 5), (2, 3.5, 4, 'y', 6, 7)")
    return stmts


# the announced name of an output column (what DESCRIBE and the result schema must both show, character for
# character): a bare column reference -> the column's name AS DECLARED (whatever case the reference is written in);
# an alias -> the alias as written (quoted or not, case kept); a function call -> the function's lower-case name;
# any other expression -> ?column?; a column list of a CTE / derived table / table function alias renames in order
NAME_EXPECT = {
    'select * from Tm': ["OrderId", "unitPrice", "Line Total", "Größe", "a", "A"],
    'select OrderId, orderid, ORDERID, "unitPrice", "Line Total", "Größe", "a", "A" from Tm': ["OrderId", "OrderId", "OrderId", "unitPrice", "Line Total", "Größe", "a", "A"],
    'select OrderId, "unitPrice" * 2 AS LineTotal, orderid as "Mixed Alias", "Line Total" + 1, "Größe" as "Ünï Code", OrderId AS oRDER from Tm':
        ["OrderId", "LineTotal", "Mixed Alias", "?column?", "Ünï Code", "oRDER"],
    'select X.OrderId, X."unitPrice" as "unitprice", x."A" as Aa, X."a" from Tm X': ["OrderId", "unitprice", "Aa", "a"],
    'select S.OrderId, s."unitPrice" from Tm S': ["OrderId", "unitPrice"],
    'with C(Xa, "yB") as (select OrderId, "unitPrice" from Tm) select * from C': ["Xa", "yB"],
    'with C(Xa, "yB") as (select OrderId, "unitPrice" from Tm) select xa, "yB" as YB, XA + 1 as "xa" from C': ["Xa", "YB", "xa"],
    'with MyCte as (select OrderId as "Order Id", "Größe" from Tm) select * from mycte': ["Order Id", "Größe"],
    'select * from (select OrderId, "unitPrice" from Tm) S(Aa, "b C")': ["Aa", "b C"],
    'select aa, "b C" as "B c" from (select OrderId, "unitPrice" from Tm) S(Aa, "b C")': ["Aa", "B c"],
    'select * from generate_series(1, 2) G(Val)': ["Val"],
    'select val as VAL, G.Val from generate_series(1, 2) G(Val)': ["VAL", "Val"],
    'select * from generate_series(1, 2) "Gen Ser"("The Value")': ["The Value"],
    'select Sum(OrderId), COUNT(*), Max("Größe"), MIN("a") as "Min A" from Tm': ["sum", "count", "max", "Min A"],
    'select Upper("Größe"), ABS(OrderId) as AbsId, Length("Größe") + 1 from Tm': ["upper", "AbsId", "?column?"],
    'select "Größe", count(*) as "N Rows" from Tm group by "Größe"': ["Größe", "N Rows"],
    'select OrderId from Tm union all select "A" from Tm': ["OrderId"],
    'select "A" as "Left Name" from Tm union select OrderId as other from Tm': ["Left Name"],
    'select OrderId as "Id", "a" from Tm order by "Id" limit 1': ["Id", "a"],
    'select distinct "A", "a" as "AA" from Tm': ["A", "AA"],
    'select (select max("A") from Tm) as "Sub Q", exists (select 1 from Tm) as EX from Tm': ["Sub Q", "EX"],
    'select t1."a", T2."A" from Tm t1 join Tm T2 on t1.OrderId = T2.ORDERID': ["a", "A"],
    'select "a", "A", "a" as X, "A" as y from Tm': ["a", "A", "X", "y"],
}
# table-level DESCRIBE against the schema of SELECT *
DESCRIBE_OBJECTS = [("describe Tm", "select * from Tm"), ("describe generate_series(1, 2)", "select * from generate_series(1, 2)"),
                    ('describe (select OrderId as "Order Id" from Tm)', 'select OrderId as "Order Id" from Tm')]


def gen_exprs(ctx, rng, d):
    """-> (scalar expressions, aggregate expressions, whole statements)"""
    quick = ctx["tier"] == "quick"
    cols = [c for c, _, _ in COLS]
    ex = []
    pairs = [(a, b) for a in cols for b in cols]
    for op in ("+", "-", "*", "/", "%"):
        ps = pairs if not quick else ([rng.choice(pairs) for _ in range(260 if op in ("+", "*") else 90)] + ([(a, a) for a in cols] if op == "+" else []))
        ex += ["%s %s %s" % (a, op, b) for a, b in ps]
        for a in cols:
            for l in (LITS if op == "+" or not quick else [rng.choice(LITS) for _ in range(4)]):
                ex.append("%s %s %s" % (a, op, l))
                if rng.chance(50):
                    ex.append("%s %s %s" % (l, op, a))
    for op in ("=", "<>", "<", ">=", "is distinct from"):
        ps = pairs if not quick else [rng.choice(pairs) for _ in range(70)]
        ex += ["%s %s %s" % (a, op, b) for a, b in ps]
        ex += ["%s %s %s" % (a, op, rng.choice(LITS)) for a in cols]
    for a in cols:
        for t in CAST_TARGETS:
            ex.append("cast(%s as %s)" % (a, t))
        ex += ["-%s" % a, "%s is null" % a, "%s is not null" % a, "%s between 1 and 2" % a, "%s in (1, 2)" % a, "not %s" % a,
               "%s and cb" % a, "%s or cb" % a]
    for a, b in (pairs if not quick else [rng.choice(pairs) for _ in range(120)] + [(a, a) for a in cols]):
        ex.append("case when cb then %s else %s end" % (a, b))
    for a in cols:
        ex.append("case when cb then %s end" % a)
        ex.append("case %s when 1 then 'x' else 'y' end" % a)
        ex.append("case when cb then %s else null end" % a)
    ex += LITS + ["1 + 1", "1 + 1.5", "1.5 * 1.5", "1.5 / 3", "'a' || 'b'", "1 = 1", "null + 1", "1.25 + cast(1 as decimal(38,10))",
                  "3000000000 * 2", "cast(1.5 as decimal(38,37)) * cast(1.5 as decimal(38,37))", "cast(1 as decimal(38,0)) + cast(1 as decimal(38,38))",
                  "cast(1 as decimal(18,0)) + cast(0.5 as decimal(18,18))", "cast(1 as decimal(18,2)) * cast(2 as decimal(18,2))",
                  "cast(1 as decimal(18,9)) / cast(2 as decimal(18,9))", "cast(1 as decimal(38,9)) % cast(2 as decimal(10,3))",
                  "[1, 2]", "[1.5, 2]", "[ci8, ci32]", "[ct]", "list_value(ci8, ci64)", "struct_pack(ci8, ct)", "[1,2][1]"]
    # function calls from the dump
    ident = re.compile(r"^[a-z_][a-z0-9_]*$")
    for f in d["scalar"]:
        if not ident.match(f["name"]) or f["name"] in ("and", "or", "not", "like", "left", "right"):
            continue
        ars = set()
        for s in f["sigs"]:
            ars.add(len(s["pos"]))
            if s["var"] is not None:
                ars |= {len(s["pos"]) + 1, len(s["pos"]) + 2}
        for ar in sorted(ars):
            if ar == 0:
                ex.append("%s()" % f["name"])
            elif ar == 1:
                ex += ["%s(%s)" % (f["name"], a) for a in cols]
            else:
                k = (24 if quick else 400) if ar == 2 else (16 if quick else 250)
                for _ in range(k):
                    args = [rng.choice(cols) if rng.chance(75) else rng.choice(["1", "2", "'1'", "'day'", "'year'", "1.5", "null", "'a'"]) for _ in range(ar)]
                    ex.append("%s(%s)" % (f["name"], ", ".join(args)))
    for nm in ("left", "right"):
        ex += ["%s(%s, %s)" % (nm, a, b) for a in ("ct", "ci32", "cd1") for b in ("ci8", "ci64", "cu64", "ct", "2")]
    # never-terminating inputs of a different property's finding (C15/C20): substring(_, from <= 0, _)
    ex = [e for e in ex if not (e.startswith("substring(") and ("null" in e))]
    agg = []
    for f in d["aggregate"]:
        if not ident.match(f["name"]):
            continue
        ars = sorted({len(s["pos"]) for s in f["sigs"]})
        for ar in ars:
            if ar == 1:
                agg += ["%s(%s)" % (f["name"], a) for a in cols]
                agg += ["%s(distinct %s)" % (f["name"], a) for a in cols if rng.chance(15)]
            elif ar == 2:
                for _ in range(30 if quick else 300):
                    agg.append("%s(%s, %s)" % (f["name"], rng.choice(cols), rng.choice(cols + ["','", "0.5", "1"])))
    agg += ["count(*)", "sum(ci32 + cd1)", "avg(cd1 * cd3)", "sum(ci32) + 1", "sum(cd1) / count(*)", "min(ct || 'x')"]
    stm = []
    ups = pairs if not quick else [rng.choice(pairs) for _ in range(90)] + [(a, a) for a in cols if rng.chance(40)]
    for a, b in ups:
        kw = rng.choice(["union all", "union", "union all", "union all", "except", "intersect"])
        stm.append("select %s from t %s select %s from t" % (a, kw, b))
    for a in cols:
        l = rng.choice(LITS)
        stm.append("select %s from t union all select %s" % (a, l))
        stm.append("select %s union all select %s from t" % (l, a))
    stm += ["select 1 union all select 2.5", "select 2.5 union all select 1", "select 1 union all select 2 union all select 3.5",
            "select 1 union all select 'a'", "select null union all select 1", "select 1 union all select null",
            "select cd1 from t union all select cd2 from t union all select cd3 from t",
            "select cast(1 as decimal(10,2)) union all select cast(1 as decimal(12,4))",
            "select ci8, ct from t union all select ci64, cd1 from t",
            "select ci32 from t union all select ci32, ci64 from t", "select ci32, ci64 from t union all select ci32 from t",
            "select * from (values (1, 'a'), (2, 'b')) v(x, y)", "select * from (values (cast(2 as bigint)), (1), (null)) v(x)",
            "select * from (values (1), (cast(2 as bigint))) v(x)", "select * from (values (2.5), (1)) v(x)",
            "select * from t", "select ci8 as a, ci8 as a, ct from t", "select t.* , 1 as one from t", "select count(*), cb from t group by cb",
            "select x + 1 from (select ci8 + cd1 as x from t) s", "select * from (select ci8 x, ct y from t) s where x > 1",
            "select ci8, sum(cd1) over () from t", "select a.ci8, b.ct from t a, t b where a.ci8 = b.ci8",
            "select ci8 from t order by cd1 limit 2", "select distinct cb, ci8 + 1 from t", "select ci32 from t where false",
            "with c as (select cf32 + 1 as y from t) select y, y * 2 from c", "select (select max(cd3) from t), ci8 from t",
            "select cb, avg(ci8), sum(cd1), min(ct), max(cdt), count(cts) from t group by cb",
            "insert into t (ci8) values (9)", "create temp table t2 as select ci8 + cd1 as x, ct from t", "select * from t2",
            "describe t2", "explain select 1", "show tables", "select * from generate_series(1, 3)", "select * from unnest([1, 2, 3])"]
    stm += list(NAME_EXPECT) + [q for _, q in DESCRIBE_OBJECTS]
    return ex, agg, stm


def run_stmts(gverif, setup, pre, stmts, chunk=60, timeout_s=40, threads=2):
    """Run each statement after `setup + pre` in fresh engines, `chunk` statements per engine; a panic, hang or
    abort costs only the statement that caused it.  -> list of result dicts aligned with stmts"""
    out = [None] * len(stmts)
    todo = [list(range(i, min(i + chunk, len(stmts)))) for i in range(0, len(stmts), chunk)]
    rounds = 0
    while todo and rounds < 6:
        rounds += 1
        cases = [{"id": "c%d" % k, "mode": "threaded", "threads": threads, "timeout_s": timeout_s if len(ix) > 1 else 15,
                  "stmts": setup + pre + [stmts[i] for i in ix]} for k, ix in enumerate(todo)]
        res = common.run_harness(gverif, "sql", cases, timeout=1800)
        nxt = []
        for ix, r in zip(todo, res):
            rs = r.get("results")
            base = len(setup) + len(pre)
            if rs is None:
                # the process died or timed out inside this case: retry the statements one per engine
                if len(ix) == 1:
                    out[ix[0]] = {"ok": False, "abort": str({k: v for k, v in r.items() if k != "id"})[:200]}
                else:
                    nxt += [[i] for i in ix]
                continue
            got = rs[base:]
            for j, i in enumerate(ix):
                if j < len(got):
                    out[i] = got[j]
            if len(got) < len(ix):
                # the last reported statement panicked (the harness stops the case there)
                rest = ix[len(got):]
                if len(rs) < base:
                    for i in ix:
                        out[i] = {"ok": False, "setup_failed": str(rs[-1])[:200] if rs else "?"}
                elif rest:
                    nxt.append(rest)
        todo = nxt
    for i, o in enumerate(out):
        if o is None:
            out[i] = {"ok": False, "abort": "no result"}
    return out


def desc_schema(r):
    """DESCRIBE result -> [[name, type]] or None"""
    if not r.get("ok"):
        return None
    if [c[0] for c in r.get("schema", [])] != ["column_name", "datatype"]:
        return "bad-describe-format"
    return [[row[0][1:], row[1][1:]] for row in r["rows"]]


CONFIGS = [(True, 1), (False, 1), (True, 4), (False, 4)]


def classify(sql, problem, res):
    """known classes of findings/C18.json; -> id or None"""
    if problem == "a produced value's variant differs from its array type" and ("list_value(" in sql or "[" in sql):
        if re.match(r"^value type List\[Null\] differs from array type List\[.*\]$", res.get("value_err") or ""):
            return "list-scalar-loses-element-type"
    return None


def stage_sql(ctx, rng, d, gverif, gmodel):
    t_0 = time.time()
    quick = ctx["tier"] == "quick"
    setup = setup_stmts()
    ex, agg, stm = gen_exprs(ctx, rng, d)
    ex = list(dict.fromkeys(ex))
    agg = list(dict.fromkeys(agg))
    viol, known, info = [], {}, {"not_produced": {}, "not_produced_samples": []}
    # --- probe: which expressions bind (DESCRIBE only plans)
    probe = run_stmts(gverif, setup, [], ["describe select %s from t" % e for e in ex] + ["describe select %s from t" % e for e in agg], chunk=500)
    sres = run_stmts(gverif, setup, [], ["select * from t"], chunk=1)[0]
    if not sres.get("ok") or [c[1] for c in sres.get("schema", [])] != [c[2] for c in COLS] or len(sres.get("rows", [])) != 4:
        viol.append({"kind": "setup table differs from its declaration", "result": str(sres)[:600]})
    plan_err, plan_panic = 0, []
    for e, r in zip(ex + agg, probe):
        ds = desc_schema(r)
        if ds == "bad-describe-format":
            viol.append({"kind": "DESCRIBE output format changed", "sql": "describe select %s from t" % e, "schema": r.get("schema")})
        elif ds is None:
            if "panic" in r or "abort" in r:
                plan_panic.append({"sql": "describe select %s from t" % e, "result": str(r)[:200]})
            else:
                plan_err += 1
    nex = len(ex)
    bound_e = [e for e, r in zip(ex, probe[:nex]) if isinstance(desc_schema(r), list)]
    bound_a = [e for e, r in zip(agg, probe[nex:]) if isinstance(desc_schema(r), list)]
    info["expressions_generated"] = len(ex) + len(agg)
    info["expressions_bound"] = len(bound_e) + len(bound_a)
    info["plan_errors"] = plan_err
    info["plan_panics"] = plan_panic[:10]
    t_1 = time.time()

    G = 12

    def mk_group(members, idx, kind):
        if kind == "agg":
            return "select %s from t" % ", ".join(members)
        if kind == "aggby":
            return "select cb, %s from t group by cb" % ", ".join(members)
        if idx % 2 == 0:
            return "select %s from t" % ", ".join(members)
        return "select %s from t" % ", ".join("%s as x%d" % (e, j) for j, e in enumerate(members))

    groups = []      # (kind, members, idx)
    # list-valued expressions get their own statements (their values hit the known list-scalar finding, which
    # must not hide another value error of the same statement)
    listy = [e for e in bound_e if "list_value(" in e or "[" in e]
    sh = rng.shuffle([e for e in bound_e if e not in set(listy)])
    for i in range(0, len(sh), G):
        groups.append(("expr", sh[i:i + G], i // G))
    for i in range(0, len(listy), G):
        groups.append(("expr", listy[i:i + G], i // G))
    sa = rng.shuffle(bound_a)
    for i in range(0, len(sa), G):
        groups.append(("agg", sa[i:i + G], i // G))
        if (i // G) % 3 == 0:
            groups.append(("aggby", sa[i:i + G], i // G))

    def pre_of(cfg):
        return ["set enable_optimizer to %s" % ("true" if cfg[0] else "false"), "set partitions to %d" % cfg[1]]

    def pair_up(sts):
        out = []
        for x in sts:
            out += ["describe " + x, x]
        return out

    def is_query(x):
        return x.startswith("select") or x.startswith("with")

    def compare(dr, rr):
        """-> None | problem string"""
        ds = desc_schema(dr)
        if ds == "bad-describe-format":
            return "DESCRIBE output format changed"
        if ds is None:
            if rr.get("ok"):
                return "DESCRIBE fails but the statement runs"
            return None   # both fail: nothing announced, nothing produced
        if not rr.get("ok"):
            return "not-produced"
        sch = [list(x) for x in rr["schema"]]
        if sch != ds:
            return "DESCRIBE differs from the result's output schema"
        want = [x[1] for x in sch]
        for bt in rr.get("batch_types", []):
            if bt != want:
                return "a produced batch's array types differ from the announced schema"
        if "value_err" in rr:
            return "a produced value's variant differs from its array type"
        return None

    def note_not_produced(sql, rr):
        """the statement was announced but failed before producing anything: not a schema observation; counted by class"""
        if "panic" in rr or "abort" in rr:
            k = "panic"
        elif "Not yet implemented" in (rr.get("err") or ""):
            k = "not implemented"
        elif rr.get("phase") == "plan":
            k = "error while planning (constant folding of a failing cast, unsupported plan)"
        else:
            k = "error while executing"
        info["not_produced"][k] = info["not_produced"].get(k, 0) + 1
        if len([x for x in info["not_produced_samples"] if x["class"] == k]) < 4:
            info["not_produced_samples"].append({"class": k, "sql": sql[:300], "result": (rr.get("err") or rr.get("panic") or rr.get("abort") or "")[:200]})

    results, schema_by_stmt, checked = {}, {}, 0

    def run_cfg(cfg, sts, collect_failed=None):
        nonlocal checked
        res = run_stmts(gverif, setup, pre_of(cfg), pair_up(sts), chunk=120, threads=4 if cfg[1] == 4 else 1)
        for k, x in enumerate(sts):
            dr, rr = res[2 * k], res[2 * k + 1]
            p = compare(dr, rr)
            checked += 1
            if rr.get("ok"):
                schema_by_stmt.setdefault(x, set()).add(json.dumps(rr["schema"]))
                if NAME_EXPECT.get(x) is not None and [c0[0] for c0 in rr["schema"]] != NAME_EXPECT[x]:
                    results.setdefault((x, "output column names differ from the announced-name rule (raw case of declarations and aliases)"), []).append(
                        (cfg, dr, dict(rr, expected_names=NAME_EXPECT[x])))
            elif x in NAME_EXPECT and not p:
                results.setdefault((x, "a statement over mixed-case identifiers fails"), []).append((cfg, dr, rr))
            if p == "not-produced":
                kk = classify(x, "exec-error-after-describe", rr)
                if kk:
                    known.setdefault(kk, []).append({"sql": x, "config": cfg, "describe": desc_schema(dr), "result": {"err": rr.get("err")}})
                elif collect_failed is not None:
                    collect_failed.append((x, rr))
                else:
                    note_not_produced(x, rr)
            elif p:
                results.setdefault((x, p), []).append((cfg, dr, rr))

    # configuration 0: every group; a group that fails at run time is split to find the failing members, which
    # are then left out (a value-level failure is not a schema observation)
    cfg0 = CONFIGS[0]
    gsql = [mk_group(m, i, k) for k, m, i in groups]
    failed = []
    run_cfg(cfg0, gsql, failed)
    failed_sql = set(x for x, _ in failed)
    final = [x for x in gsql if x not in failed_sql]
    nsingle = 0
    if failed:
        singles, owner = [], []
        for gi, (k, m, i) in enumerate(groups):
            if gsql[gi] in failed_sql:
                for e in m:
                    singles.append(mk_group([e], 0, k))
                    owner.append((gi, e))
        res = run_stmts(gverif, setup, pre_of(cfg0), singles, chunk=120, threads=1)
        good = {}
        for (gi, e), x, rr in zip(owner, singles, res):
            nsingle += 1
            if rr.get("ok"):
                good.setdefault(gi, []).append(e)
            else:
                note_not_produced(x, rr)
        cleaned = [mk_group(m2, groups[gi][2], groups[gi][0]) for gi, m2 in sorted(good.items()) if m2]
        again = []
        run_cfg(cfg0, cleaned, again)
        for x, rr in again:
            note_not_produced(x, rr)
        bad2 = set(x for x, _ in again)
        final += [x for x in cleaned if x not in bad2]
    info["single_statements"] = nsingle
    info["group_statements"] = len(final)
    queries = [x for x in stm if is_query(x)]
    other = [x for x in stm if not is_query(x)]
    run_cfg(cfg0, queries)
    for cfg in CONFIGS[1:]:
        run_cfg(cfg, final + queries)
    # non-query statements: DDL/DML/utility announce and produce their own schema (run in order, one engine)
    rs = run_stmts(gverif, setup, pre_of(cfg0), other, chunk=len(other) or 1)
    for x, rr in zip(other, rs):
        checked += 1
        if rr.get("ok"):
            want = [y[1] for y in rr["schema"]]
            bad = [bt for bt in rr.get("batch_types", []) if bt != want]
            if bad or "value_err" in rr:
                results.setdefault((x, "a produced batch's array types differ from the announced schema"), []).append((cfg0, None, rr))
    # DESCRIBE <table | table function | (query)> against the schema of the corresponding SELECT
    dres = run_stmts(gverif, setup, pre_of(cfg0), [a0 for a0, _ in DESCRIBE_OBJECTS] + [b0 for _, b0 in DESCRIBE_OBJECTS], chunk=50)
    for i, (da, qb) in enumerate(DESCRIBE_OBJECTS):
        checked += 1
        ds0, rb = desc_schema(dres[i]), dres[len(DESCRIBE_OBJECTS) + i]
        if not isinstance(ds0, list) or not rb.get("ok"):
            viol.append({"kind": "DESCRIBE of a table / table function / query fails", "sql": da, "stmts": setup + [da, qb], "result": str(dres[i])[:200] + str(rb)[:200]})
        elif ds0 != [list(c0) for c0 in rb["schema"]]:
            viol.append({"kind": "DESCRIBE differs from the result's output schema", "sql": da, "stmts": setup + [da, qb], "describe": ds0, "result": {"schema": rb["schema"]}})
    info["statements"] = len(final) + len(stm)
    # the same statement must get the same schema in every configuration
    for x, schs in schema_by_stmt.items():
        if len(schs) > 1:
            results.setdefault((x, "output schema depends on optimizer/partitions setting"), []).append((None, None, {"schemas": sorted(schs)}))
    for (x, p), occ in results.items():
        cfg, dr, rr = occ[0]
        kk = classify(x, p, rr)
        if kk:
            known.setdefault(kk, []).append({"sql": x, "config": cfg, "result": {"value_err": rr.get("value_err")}})
            continue
        rep = {"kind": p, "sql": x, "stmts": setup + ([] if cfg is None else pre_of(cfg)) + ["describe " + x, x],
               "configs": [c for c, _, _ in occ], "describe": desc_schema(dr) if dr else None,
               "result": {k2: v for k2, v in rr.items() if k2 in ("schema", "batch_types", "value_err", "err", "panic", "phase", "schemas", "abort", "expected_names")}}
        viol.append(rep)
    # --- set-operation output types against the extracted unify_cols
    names = d["type_ids"]

    def enc_parts(tn):
        """engine type name -> (id index, [metadata integers]) : the model's dtype (id + metadata code)"""
        m = re.match(r"^List\[(.*)\]$", tn)
        if m:
            i, meta = enc_parts(m.group(1))
            return names.index("List"), [i] + meta
        m = re.match(r"^([A-Za-z0-9]+)(?:\((.*)\))?$", tn)
        if not m or m.group(1) not in names:
            raise ValueError("type name " + tn)
        meta = []
        if m.group(2) is not None:
            for y in m.group(2).split(","):
                meta.append(int(y) if re.match(r"^-?\d+$", y) else sum(ord(ch) for ch in y))
        return names.index(m.group(1)), meta

    def enc(tn):
        i, meta = enc_parts(tn)
        return "/".join([str(i)] + [str(x) for x in meta])

    def dec_name(p_, s_):
        return "Decimal%d(%d,%d)" % (64 if p_ <= 18 else 128, p_, s_)

    # branch items: (SQL expression, announced type).  Columns, and PARAMETRISED types of one id with different
    # parameters: decimals of different (p,s) within and across Decimal64/128, lists of different element types
    # (timestamps exist in one unit only in this tree: there is no cast to another unit)
    colty = {c: t for c, _, t in COLS}
    cols = [c for c, _, _ in COLS]
    DECS = [(10, 2), (12, 4), (18, 9), (18, 0), (5, 0), (4, 3), (10, 4), (20, 2), (30, 5), (38, 10), (38, 0), (19, 2)]
    items = {c: colty[c] for c in cols}
    dec_items = []
    for p_, s_ in DECS:
        e = "cast(ci32 as decimal(%d,%d))" % (p_, s_)
        items[e] = dec_name(p_, s_)
        dec_items.append(e)
    list_items = []
    for e, t in (("[ci8]", "List[Int8]"), ("[ci32]", "List[Int32]"), ("[ci64]", "List[Int64]"), ("[ct]", "List[Utf8]"), ("[cd1]", "List[Decimal64(10,2)]"),
                 ("[cd2]", "List[Decimal64(18,9)]"), ("[[ci32]]", "List[List[Int32]]"), ("[cts]", "List[Timestamp(μs)]")):
        items[e] = t
        list_items.append(e)
    upairs = [([a], [b]) for a in cols for b in cols]
    ncolpairs = len(upairs)
    param_pairs = [([a], [b]) for a in dec_items for b in dec_items] + [([a], [b]) for a in list_items for b in list_items] + \
                  [([a], [b]) for a in dec_items[:4] + list_items[:3] for b in ("ci32", "cd1", "cd3", "cf64", "ct", "cts")] + \
                  [([b], [a]) for a in dec_items[:4] + list_items[:3] for b in ("ci32", "cd1", "cd3", "cf64", "ct", "cts")] + \
                  [(["ci32", dec_items[0]], ["ci64", dec_items[1]]), ([dec_items[1], "ct"], [dec_items[0], "ct"]), ([dec_items[8], dec_items[0]], [dec_items[0], dec_items[8]])]
    upairs += param_pairs
    nparam = len(param_pairs)
    # several columns, and branches of different column counts (the binder must refuse those: C18_union_arity_checked)
    upairs += [(["ci32"], ["ci32", "ci64"]), (["ci32", "ci64"], ["ci32"]), (["ci32", "ct"], ["ci32", "ct", "cb"]), (["ci8", "ci8", "ci8"], ["ci8", "ci8"])]
    allitems = list(items)
    for _ in range(120 if quick else 2000):
        la = 1 + rng.below(3)
        lb = la if rng.chance(55) else 1 + rng.below(3)
        upairs.append(([rng.choice(allitems) for _ in range(la)], [rng.choice(allitems) for _ in range(lb)]))
    ulines = ["%s | %s" % (" ".join(enc(items[a]) for a in l), " ".join(enc(items[b]) for b in r)) for l, r in upairs]
    uout = common.run_model(gmodel, "union", ulines) if gmodel else [None] * len(ulines)
    kws = ["union all", "union", "union all", "except", "intersect"]
    usql = ["select %s from t %s select %s from t" % (", ".join(l), kws[i % len(kws)] if i >= ncolpairs + nparam else "union all", ", ".join(r)) for i, (l, r) in enumerate(upairs)]
    res1 = run_stmts(gverif, setup, [], ["describe " + x for x in usql], chunk=600)
    nun, nun_arity = 0, 0
    to_run = []      # accepted by model and binder: must also RUN and produce the announced types
    for i, ((l, r0), x, mo, r) in enumerate(zip(upairs, usql, uout, res1)):
        nun += 1
        ds = desc_schema(r)
        if len(l) != len(r0):
            nun_arity += 1
        if mo is None:
            # no model prediction (a resolution constant is missing): implementation-side rules only
            if ds is not None and len(l) != len(r0):
                viol.append({"kind": "set operation with different column counts is announced (bind_setop.rs must reject it)", "sql": x, "stmts": setup + ["describe " + x, x], "describe": ds})
            elif ds is not None and " union all " in x:
                to_run.append((x, [c[1] for c in ds], "no model"))
            continue
        if mo == "err":
            if ds is not None:
                viol.append({"kind": "set operation with different column counts is announced (bind_setop.rs must reject it)" if len(l) != len(r0)
                             else "set operation binds although the modelled rule finds no common type", "sql": x, "stmts": setup + ["describe " + x, x], "describe": ds})
            continue
        outs = mo.split()
        want = []
        for a, b, o in zip(l, r0, outs):
            ty, sd = o.split(":")
            parts = ty.split("/")
            nm = names[int(parts[0])]
            if nm in ("Decimal64", "Decimal128") and len(parts) == 3:
                want.append("%s(%s,%s)" % (nm, parts[1], parts[2]))      # the unified decimal may be neither branch's type
            else:
                want.append(items[a] if sd in ("n", "r") else items[b])
        if ds is None:
            viol.append({"kind": "set operation fails to bind although the modelled rule unifies", "sql": x, "model": mo, "result": str(r)[:300]})
        elif [c[1] for c in ds] != want:
            viol.append({"kind": "set operation output type differs from the modelled rule (bind_setop.rs)", "sql": x, "describe": ds, "model_type": want})
        elif " union all " in x and (ncolpairs <= i < ncolpairs + nparam or rng.chance(25)):
            to_run.append((x, want, mo))
    # run them: the branch the model says needs a cast must have been cast to the ONE announced full type
    value_level = re.compile(r"Failed to parse|Failed cast|Failed to cast|overflow|out of range|too large|Cannot create decimal|Not yet implemented")
    nrun = 0
    for parts in (1, 4):
        rr = run_stmts(gverif, setup, ["set partitions to %d" % parts], [x for x, _, _ in to_run], chunk=150, threads=parts)
        for (x, want, mo), r in zip(to_run, rr):
            nrun += 1
            if r.get("ok"):
                got = [c[1] for c in r["schema"]]
                bad = [bt for bt in r.get("batch_types", []) if bt != want]
                if got != want or bad or ("value_err" in r and not re.match(r"^value type List\[Null\]", r["value_err"])):
                    viol.append({"kind": "a set operation produces types different from the ONE announced type per column", "sql": x, "stmts": setup + ["set partitions to %d" % parts, x],
                                 "announced": want, "schema": got, "batch_types": r.get("batch_types"), "value_err": r.get("value_err")})
            else:
                msg = r.get("err") or r.get("panic") or str(r.get("abort"))
                if value_level.search(msg or ""):
                    note_not_produced(x, r)
                else:
                    viol.append({"kind": "a set operation accepted by the binder fails at run time (a branch was not cast to the announced type)", "sql": x,
                                 "stmts": setup + ["set partitions to %d" % parts, "describe " + x, x], "announced": want, "model": mo, "error": msg})
    info["setop_statements_run"] = nrun
    info["setop_parametrised_pairs"] = nparam
    info["setop_unequal_column_counts_checked"] = nun_arity
    info["setop_types_checked"] = nun
    info["checked"] = checked
    info["seconds"] = {"probe": round(t_1 - t_0, 1), "run": round(time.time() - t_1, 1)}
    ok_sample = None
    for x in final:
        if x in schema_by_stmt:
            ok_sample = {"sql": x[:300], "schema": json.loads(sorted(schema_by_stmt[x])[0])}
            break
    return {"violations": viol, "known": known, "info": info, "n": checked + len(probe) + nun,
            "distinct": len(schema_by_stmt) + len(set(json.dumps(desc_schema(r)) for r in probe if isinstance(desc_schema(r), list))),
            "sample": ok_sample}


# ---------------------------------------------------------------- correspondence 3: the Gallina type_of
TY_COLS = [("ci8", "i8"), ("ci16", "i16"), ("ci32", "i32"), ("ci64", "i64"), ("cb", "bool"), ("ct", "str")]
TY_INTS = [0, 1, 5, 100, 127, 128, 200, 32767, 32768, 70000, 2147483647, 2147483648, 3000000000, 9223372036854775807]
CMP = [("eq", "="), ("ne", "<>"), ("lt", "<"), ("le", "<="), ("gt", ">"), ("ge", ">=")]
ARI = [("add", "+"), ("sub", "-"), ("mul", "*"), ("div", "/"), ("rem", "%")]


def gen_typed(rng, kind, depth):
    """-> (sql, s-expression) of a random expression meant to have the given kind (int/bool/str/any)"""
    if kind == "any" or rng.chance(4):
        kind = rng.choice(["int", "int", "bool", "str"])
    if depth <= 0 or rng.chance(25):
        if rng.chance(8):
            return "null", "(null)"
        if kind == "int":
            if rng.chance(55):
                i = rng.below(4)
                return TY_COLS[i][0], "(col %d)" % i
            z = rng.choice(TY_INTS)
            return str(z), "(int %d)" % z
        if kind == "bool":
            if rng.chance(70):
                return "cb", "(col 4)"
            b = rng.choice(["true", "false"])
            return b, "(%s)" % b
        if rng.chance(70):
            return "ct", "(col 5)"
        return "'a'", "(str)"
    if kind == "int":
        r = rng.below(10)
        if r < 6:
            (a, xa), (b, xb) = gen_typed(rng, "int", depth - 1), gen_typed(rng, "int", depth - 1)
            op = rng.choice(ARI)
            return "(%s %s %s)" % (a, op[1], b), "(arith %s %s %s)" % (op[0], xa, xb)
        if r < 7:
            i = rng.below(4)
            return "(-%s)" % TY_COLS[i][0], "(neg (col %d))" % i
    if kind == "bool":
        r = rng.below(10)
        if r < 3:
            k = rng.choice(["int", "int", "str", "bool"])
            (a, xa), (b, xb) = gen_typed(rng, k, depth - 1), gen_typed(rng, k, depth - 1)
            op = rng.choice(CMP)
            return "(%s %s %s)" % (a, op[1], b), "(cmp %s %s %s)" % (op[0], xa, xb)
        if r < 4:
            k = rng.choice(["int", "str", "bool"])
            (a, xa), (b, xb) = gen_typed(rng, k, depth - 1), gen_typed(rng, k, depth - 1)
            n = rng.below(2)
            return "(%s is %sdistinct from %s)" % (a, "not " if n else "", b), "(dist %d %s %s)" % (n, xa, xb)
        if r < 6:
            (a, xa), (b, xb) = gen_typed(rng, "bool", depth - 1), gen_typed(rng, "bool", depth - 1)
            w = rng.choice(["and", "or"])
            return "(%s %s %s)" % (a, w, b), "(%s %s %s)" % (w, xa, xb)
        if r < 7:
            a, xa = gen_typed(rng, "bool", depth - 1)
            return "(not %s)" % a, "(not %s)" % xa
        if r < 8:
            a, xa = gen_typed(rng, "any", depth - 1)
            n = rng.below(2)
            return "(%s is %snull)" % (a, "not " if n else ""), "(isnull %d %s)" % (n, xa)
        if r < 9:
            k = rng.choice(["int", "str"])
            a, xa = gen_typed(rng, k, depth - 1)
            es = [gen_typed(rng, k, 0) for _ in range(1 + rng.below(3))]
            n = rng.below(2)
            return "(%s %sin (%s))" % (a, "not " if n else "", ", ".join(e for e, _ in es)), "(in %d %s (%s))" % (n, xa, " ".join(x for _, x in es))
    # CASE of the requested kind
    nb = 1 + rng.below(2)
    brs = [(gen_typed(rng, "bool", depth - 1), gen_typed(rng, kind, depth - 1)) for _ in range(nb)]
    els = gen_typed(rng, kind, depth - 1)
    return ("(case %s else %s end)" % (" ".join("when %s then %s" % (c[0], t[0]) for c, t in brs), els[0]),
            "(case (%s) %s)" % (" ".join("(%s %s)" % (c[1], t[1]) for c, t in brs), els[1]))


def stage_typeof(ctx, rng, gverif, gmodel):
    """engine's announced type (DESCRIBE) == extracted type_of, for random expressions of the modelled core"""
    n = 2500 if ctx["tier"] == "quick" else 40000
    exprs = []
    seen = set()
    for _ in range(n):
        sql, sx = gen_typed(rng, "any", 1 + rng.below(3))
        if sql not in seen:
            seen.add(sql)
            exprs.append((sql, sx))
    ctxs = ",".join(t for _, t in TY_COLS)
    mout = common.run_model(gmodel, "typeof", ["%s %s" % (ctxs, sx) for _, sx in exprs], timeout=600)
    cols = ", ".join("%s %s" % (c, {"i8": "tinyint", "i16": "smallint", "i32": "int", "i64": "bigint", "bool": "boolean", "str": "text"}[t]) for c, t in TY_COLS)
    setup = ["create temp table t (%s)" % cols]
    res = run_stmts(gverif, setup, [], ["describe select %s from t" % sql for sql, _ in exprs], chunk=500)
    # aggregates
    aggs = [(f, c, t) for f in ("sum", "min", "max", "count", "bool_and", "bool_or") for c, t in TY_COLS] + [("count_star", "*", "i8")]
    amod = common.run_model(gmodel, "aggtype", ["%s %s" % (f, t) for f, _, t in aggs])
    ares = run_stmts(gverif, setup, [], ["describe select %s from t" % ("count(*)" if f == "count_star" else "%s(%s)" % (f, c)) for f, c, _ in aggs], chunk=500)
    viol, stats, samples = [], {"agree": 0, "model_untyped_engine_binds": 0, "model_typed_engine_rejects": 0, "both_reject": 0}, {}
    distinct = set()
    for (sql, sx), m, r in list(zip(exprs, mout, res)) + [(("count(*)" if f == "count_star" else "%s(%s)" % (f, c), "agg"), m, r) for (f, c, _), m, r in zip(aggs, amod, ares)]:
        ds = desc_schema(r)
        eng = ds[0][1] if isinstance(ds, list) and len(ds) == 1 else None
        if eng is None and m == "none":
            k = "both_reject"
        elif eng is None:
            k = "model_typed_engine_rejects"
        elif m == "none":
            k = "model_untyped_engine_binds"
        elif eng == m:
            k = "agree"
            distinct.add((m, sx[:24]))
        else:
            k = None
            viol.append({"kind": "the engine announces a type different from the modelled type_of (model/Typing.v)", "sql": "select %s from t" % sql,
                         "stmts": setup + ["describe select %s from t" % sql], "engine_type": eng, "model_type": m, "model_expr": sx})
        if k:
            stats[k] += 1
            if k != "agree" and len(samples.setdefault(k, [])) < 4:
                samples[k].append({"sql": sql, "engine": eng or (r.get("err") or "")[:120], "model": m})
    return {"violations": viol, "stats": stats, "samples": samples, "n": len(exprs) + len(aggs), "distinct": len(distinct)}


def split_top(body):
    """split a select list on top-level commas"""
    out, depth, cur, q = [], 0, "", False
    for ch in body:
        if ch == "'":
            q = not q
        if not q:
            if ch in "([":
                depth += 1
            elif ch in ")]":
                depth -= 1
            elif ch == "," and depth == 0:
                out.append(cur.strip())
                cur = ""
                continue
        cur += ch
    if cur.strip():
        out.append(cur.strip())
    return out


# ---------------------------------------------------------------- driver
def run(ctx):
    t0 = time.time()
    rng = common.Rng(ctx["seed"])
    out = {"violations": [], "known": [], "assumptions": []}
    gtyping, _ = common.build_harness(bin="gv_typing")
    try:
        d = tables_typing.regenerate(gtyping)
    except (SystemExit, Exception) as e:
        # the built crates cannot be dumped: nothing the model could run over; reported, not raised
        out["violations"].append({"what": "gv_typing dump-tables failed: the signature / score tables of the build cannot be read",
                                  "replay": {"error": str(e)[:600]}, "no_input": True})
        out["coverage"] = {"obligations": 0, "discharged": 0, "evaluations": 0, "theorems": [], "trusted_base": [], "rule": "", "samples": []}
        out["wall"] = time.time() - t0
        return out
    gverif, _ = common.build_harness()
    pr = common.coq_props(PROPS)
    audit = [a for a in common.audit_sources() if re.search(r"(Resolve|Typing|C18)", a)]
    obligations = pr["declared"]
    bad_assum = common.check_assumptions(pr) if pr["ok"] else []
    proof_broken = (not pr["ok"]) or bool(bad_assum) or bool(audit)
    discharged = 0 if proof_broken else len(obligations)
    t1 = time.time()
    ties, multi, s1, s2, s3 = [], 0, None, None, None
    t2 = t3 = t1
    machinery = []
    # the model runs over src_params: every constant it is built from must have been found
    need = ["no_cast_score", "refined_literal_bonus", "default_score_i8", "default_score_i16", "default_score_i32", "default_score_i64"]
    missing = [k for k in need if d.get(k) is None] + [k for k in ("variadic_same_score", "setop_full_type_equality", "setop_arity_check", "setop_decimal_rule", "dec64_max_precision", "dec128_max_precision") if d["_src"].get(k) is None] + \
              [n for n in ("Any", "Int8", "Int16", "Int32", "Int64") if n not in d["type_ids"]]
    params_ok = not [k for k in missing if not (k.startswith("setop_") or k.startswith("dec"))] and "Decimal64" in d["type_ids"] and "Decimal128" in d["type_ids"]
    gmodel = None
    try:
        gmodel = common.build_ocaml("typing")
    except (SystemExit, Exception) as e:
        machinery.append("extraction of model/Resolve.v over the regenerated tables failed: %s" % str(e)[:300])

    def guarded(name, f):
        try:
            return f()
        except (SystemExit, Exception) as e:
            machinery.append("%s: %s" % (name, str(e)[:300]))
            return None

    pmodel = gmodel if params_ok else None        # commands that need src_params
    if pmodel:
        tr = guarded("ties", lambda: stage_ties(d, pmodel))
        if tr:
            ties, multi, complete = tr
        s1 = guarded("resolve correspondence", lambda: stage_resolve(ctx, rng, d, gtyping, pmodel))
    else:
        # no model predictions: search the implementation for a tie directly
        rtie = guarded("real tie search", lambda: real_ties(ctx, rng, d, gtyping))
        if rtie:
            for w in rtie[0]:
                out["violations"].append({"what": "function resolution has a genuine tie on the implementation: maximal-score candidates with different casts/return type (sort_unstable_by decides)",
                                          "replay": w, "no_input": False})
            s1 = {"n": rtie[1], "mismatches": [], "distinct": 0, "sample": None}
    t2 = time.time()
    s2 = guarded("sql", lambda: stage_sql(ctx, rng, d, gverif, pmodel))
    if gmodel:
        s3 = guarded("type_of correspondence", lambda: stage_typeof(ctx, rng, gverif, gmodel))
    t3 = time.time()
    for v in (s3 or {"violations": []})["violations"][:40]:
        out["violations"].append({"what": v["kind"], "replay": v, "no_input": False})
    for m in (s1 or {"mismatches": []})["mismatches"][:30]:
        out["violations"].append({"what": "real find_exact/find_candidates differs from the model (model/Resolve.v)", "replay": m, "no_input": False})
    # a genuine tie: the tuple is the witness; show what the real binder does with it
    if ties:
        cases = [{"id": "t%d" % i, "kind": t["kind"], "set": t["set"],
                  "tuples": [[int(a) if ":" not in a else "%s:%d" % (a.split(":")[0], {"L8": 5, "L16": 300, "L32": 70000, "L64": 5000000000}[a.split(":")[1]]) for a in t["raw"]]]}
                 for i, t in enumerate(ties[:40])]
        real = common.run_harness(gtyping, "resolve", cases, timeout=300)
        for t, r in zip(ties[:40], real):
            out["violations"].append({"what": "function resolution has a genuine tie: maximal-score candidates with different casts/return type (sort_unstable_by decides)",
                                      "replay": {"function": t["function"], "kind": t["kind"], "arg_types": t["args"], "real_find_candidates": (r.get("out") or ["?"])[0][:800]},
                                      "no_input": False})
    if s2:
        for v in s2["violations"]:
            out["violations"].append({"what": v.get("kind", "violation"), "replay": v, "no_input": False})
        listed = {k["id"]: k for k in common.known_findings()["known"] if k["property"] == PID}
        for k, v in sorted(s2["known"].items()):
            if k in listed:
                out["known"].append("%s: %s (%d statement(s), e.g. %s)" % (k, listed[k]["what"], len(v), v[0]["sql"]))
            else:
                out["violations"].append({"what": "finding class %s is not listed in findings/C18.json" % k, "replay": v[0], "no_input": False})
    if (missing or machinery) and not proof_broken:
        found = [v["replay"] for v in out["violations"][:3]]
        out["violations"].append({"what": ("source constants not found (vlib/tables_typing.py / gv_typing dump-tables): %s" % ", ".join(missing)) if missing else machinery[0],
                                  "replay": {"missing_constants": missing, "machinery": machinery, "failing_inputs_found_on_the_implementation": found},
                                  "no_input": not found})
    if proof_broken:
        out["violations"].append({"what": "theorem(s) in %s no longer check" % PROPS,
                                  "replay": {"failed_at": pr.get("failed_at"), "log_tail": pr["log"][-1500:] if not pr["ok"] else "",
                                             "assumption_problems": bad_assum, "audit": audit, "ties_found_by_the_extracted_model": ties[:10],
                                             "missing_constants": missing, "machinery": machinery,
                                             "failing_inputs_found_on_the_implementation": [v["replay"] for v in out["violations"][:3]]},
                                  "no_input": not ties and not out["violations"]})
    cov = {
        "obligations": len(obligations), "discharged": discharged,
        "checker_cmd": "cd coq && make props/C18.vo (Print Assumptions parsed; Admitted/Axiom audit over the C18 files)",
        "trusted_base": ["Coq 8.16.1 kernel incl. vm_compute (the finite sweep check_src_true and the closed witness lemmas)",
                         "harness/src/bin/gv_typing.rs: dump of the registries / implicit_cast_score of the built crates (DataTypeId order is an exhaustive match)",
                         "vlib/tables_typing.py: rendering of the dump into coq/gen/TablesTyping.v; source scan for the `+= 200` of best_datatype_for_variadic_any",
                         "extraction (ExtrOcamlBasic) + ocaml/typing.ml parsing/printing",
                         "gverif sql (schema / batch_types / value_err observation)",
                         "the typing of whole queries (Expression::datatype, bind-time return types incl. decimal (p,s)) is NOT modelled: it is covered by the DESCRIBE == schema == arrays == values correspondence only"],
        "theorems": obligations,
        "evaluations": (s1["n"] if s1 else 0) + (s2["n"] if s2 else 0) + (s3["n"] if s3 else 0),
        "distinct_nontrivial": (s1["distinct"] if s1 else 0) + (s2["distinct"] if s2 else 0) + (s3["distinct"] if s3 else 0),
        "type_of_vs_engine": {k: v for k, v in (s3 or {}).items() if k in ("stats", "samples", "n")},
        "rule": "resolve: one evaluation = one (function set, argument tuple) resolved by the real find_exact/find_candidates and by the extracted model "
                "(all tuples of arity <= 2 over 27 type ids + 7 literal classes, literal boundary values, sampled arity 3-5); compared: exact index, the full candidate list "
                "(index, total score, cast vector) and that the real first candidate is one of the model's maximal ones; distinct = distinct (function, outcome prefix). "
                "sql: one evaluation = one DESCRIBE probe, or one statement run in one configuration with DESCRIBE == output schema == every batch's array types == value variants; "
                "distinct = distinct schemas seen",
        "samples": [s1["sample"] if s1 else None, s2["sample"] if s2 else None],
        "resolve": {k: v for k, v in (s1 or {}).items() if k not in ("mismatches", "sample")},
        "ties_in_tables": len(ties), "tuples_with_several_maximal_candidates_all_agreeing": multi,
        "missing_source_constants": missing, "machinery_failures": machinery,
        "sql": (s2 or {}).get("info"),
        "tables": {"type_ids": len(d["type_ids"]), "scalar_sets": len(d["scalar"]), "aggregate_sets": len(d["aggregate"]),
                   "signatures": sum(len(f["sigs"]) for f in d["scalar"] + d["aggregate"]),
                   "no_cast_score": d["no_cast_score"], "refined_literal_bonus": d["refined_literal_bonus"], "source_scan": d["_src"]},
        "exhaustive": False,
        "stage_seconds": {"build+proofs": round(t1 - t0, 1), "ties+resolve": round(t2 - t1, 1), "sql": round(t3 - t2, 1)},
    }
    out["coverage"] = cov
    out["assumptions"] = [
        "resolution_deterministic is bounded: arity <= 3, inputs = the 27 DataTypeId values and integer literals (by the width class i8/i16/i32/i64 that try_refine_literal tests); variadic calls with more than 3 arguments are covered by correspondence samples only",
        "table functions are not in the sweep (BUILTIN_TABLE_FUNCTION_SETS resolve through the same code but take constant arguments)",
        "sort_unstable_by is modelled as 'any maximal candidate may come first'; the real first candidate is checked to be one of them",
        "u32 overflow of score sums is not modelled (scores < 2^11, at most a few arguments)",
        "query-level typing (decimal precision/scale rules, timestamp units, CASE unification) is tied by DESCRIBE/result correspondence, not by a Gallina type_of",
        "timestamp values come from epoch(); there is no text->timestamp cast in this tree"]
    out["wall"] = time.time() - t0
    return out
