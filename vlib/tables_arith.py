"""Regenerate coq/gen/TablesArith.v from /repo's current source (topic `arith`, C12).

Constants the arithmetic model depends on and that behaviour alone does not pin down:
  * MAX_PRECISION of Decimal64Type / Decimal128Type (arrays/scalar/decimal.rs)
  * DecimalTypeMeta::new_for_datatype_id precisions of the signed integer widths (arrays/datatype.rs)
  * per operator file: does the executor closure use the *native* operator (`a + b`: overflow panics
    in a debug build, wraps in release) or a `checked_*`/`wrapping_*` method?  1 = native, 0 = checked
  * sum.rs SumStateCheckedAdd: 1 = `checked_add(..).unwrap_or_default()` (overflow resets the running sum
    to 0), 0 = every checked_add propagates an error (`.ok_or_else(..)?`)
  * to_decimal.rs IntToDecimal::bind: 1 = scale factor `10.pow(scale)` on an i32 literal, 0 = on the primitive
A constant that cannot be found is emitted as None, so every theorem that names it stops checking."""
import os, re
from . import common

SRC = os.path.join(common.REPO, "crates", "glaredb_core", "src")


def _read(rel):
    try:
        return open(os.path.join(SRC, rel)).read()
    except FileNotFoundError:
        return ""


def _style(src, struct, sym, checked_name):
    """style of the closure inside `impl ... ScalarFunction for <struct>`: 1 native, 0 checked, None unknown"""
    m = re.search(r"impl<[^>]*>\s*ScalarFunction\s+for\s+%s<" % struct, src)
    if not m:
        return None
    body = src[m.end():]
    n = re.search(r"\nimpl<|\n#\[derive", body)
    if n:
        body = body[:n.start()]
    if sym == "neg":
        native = re.search(r"buf\.put\(&\(-a\)\)", body)
    else:
        native = re.search(r"buf\.put\(&\(a\s*%s\s*b\)\)" % re.escape(sym), body)
    # checked: a.<op>_checked(b) / a.checked_<op>(&b) routed to `failed = true` and `return Err(`
    checked = re.search(r"\.%s_checked\(|\.checked_%s\(" % (checked_name, checked_name), body) and \
        re.search(r"failed\s*=\s*true", body) and re.search(r"if\s+failed\s*\{\s*return\s+Err\(", body)
    if native and not checked:
        return 1
    if checked and not native:
        return 0
    return None


def scan():
    t = {}
    dec = _read("arrays/scalar/decimal.rs")
    for name, key in (("Decimal64Type", "d64_max_precision"), ("Decimal128Type", "d128_max_precision")):
        m = re.search(r"impl\s+DecimalType\s+for\s+%s\s*\{.*?const\s+MAX_PRECISION:\s*u8\s*=\s*(\d+);" % name, dec, re.S)
        t[key] = int(m.group(1)) if m else None
    dt = _read("arrays/datatype.rs")
    m = re.search(r"fn\s+new_for_datatype_id.*?\n    \}", dt, re.S)
    blk = m.group(0) if m else ""
    for w in (8, 16, 32, 64):
        m = re.search(r"DataTypeId::Int%d\s*=>\s*\{?.*?precision:\s*(\d+),\s*scale:\s*(\d+)" % w, blk, re.S)
        t["int%d_dec_precision" % w] = int(m.group(1)) if m and m.group(2) == "0" else None
    ar = "functions/scalar/builtin/arith/"
    for f, struct, dstruct, sym, cn in (("add.rs", "Add", "DecimalAdd", "+", "add"), ("sub.rs", "Sub", "DecimalSub", "-", "sub"),
                                        ("mul.rs", "Mul", "DecimalMul", "*", "mul"), ("div.rs", "Div", None, "/", "div"),
                                        ("rem.rs", "Rem", None, "%", "rem")):
        src = _read(ar + f)
        t["%s_native" % cn] = _style(src, struct, sym, cn)
        if dstruct:
            t["dec_%s_native" % cn] = _style(src, dstruct, sym, cn)
    t["neg_native"] = _style(_read("functions/scalar/builtin/negate.rs"), "Negate", "neg", "neg")
    sm = _read("functions/aggregate/builtin/sum.rs")
    m = re.search(r"for\s+SumStateCheckedAdd<S,\s*I>.*?\n\}", sm, re.S)
    blk = m.group(0) if m else ""
    n_add = len(re.findall(r"checked_add\(", blk))
    n_reset = len(re.findall(r"checked_add\([^;]*?unwrap_or_default\(\)", blk, re.S))
    n_fail = len(re.findall(r"checked_add\([^;]*?\.ok_or_else\([^;]*?\)\s*\?\s*;", blk, re.S))
    # 1: an overflowing step resets the sum to 0; 0: every checked_add propagates an error; None: neither
    t["sum_resets_on_overflow"] = 1 if n_reset else (0 if n_add >= 2 and n_fail == n_add else None)
    # DecimalAdd/Sub validate the result against the (clamped) precision?  0 = no validation
    # Decimal{Add,Sub,Mul}::execute validate the result against the precision of the OUTPUT type: 1 / 0
    for f, key, dstruct in (("add.rs", "dec_add_validates", "DecimalAdd"), ("sub.rs", "dec_sub_validates", "DecimalSub"),
                            ("mul.rs", "dec_mul_validates", "DecimalMul")):
        src = _read(ar + f)
        m = re.search(r"impl<D>\s*ScalarFunction\s+for\s+%s<D>.*?\n\}" % dstruct, src, re.S)
        blk = m.group(0) if m else ""
        if not blk:
            t[key] = None
        else:
            t[key] = 1 if (re.search(r"decimal_meta\(output\.datatype\(\)\)\?\.precision", blk) and
                           re.search(r"Some\(v\)\s+if\s+D::validate_precision\(v,\s*precision\)\.is_ok\(\)", blk)) else 0
    # checked.rs: rem_checked returns None only for divisor 0 and 0 for MIN % -1
    ck = _read(ar + "checked.rs")
    m = re.search(r"fn rem_checked\(self, rhs: Self\) -> Option<Self> \{(.*?)\n            \}", ck, re.S)
    blk = m.group(1) if m else ""
    if not blk:
        t["rem_checked_min_neg1_is_zero"] = None
    else:
        t["rem_checked_min_neg1_is_zero"] = 1 if (re.search(r"if rhs == 0\s*\{\s*return None;", blk) and
                                                  re.search(r"Some\(self\.checked_rem\(rhs\)\.unwrap_or\(0\)\)", blk)) else 0
    td = _read("functions/cast/builtin/to_decimal.rs")
    m = re.search(r"impl<S, D> CastFunction for IntToDecimal<S, D>.*?fn bind\(.*?\n    \}", td, re.S)
    blk = m.group(0) if m else ""
    if not blk or "pow" not in blk:
        t["int_to_decimal_pow_i32"] = None
    elif re.search(r"from\(\s*10\.pow\(", blk):
        t["int_to_decimal_pow_i32"] = 1          # `10` is an i32 literal: 10.pow(scale) overflows for scale >= 10
    else:
        t["int_to_decimal_pow_i32"] = 0          # the power is taken on the decimal primitive
    m = re.search(r"impl<D1, D2> CastFunction for DecimalToDecimal<D1, D2>.*?\n\}", td, re.S)
    blk = m.group(0) if m else ""
    if not blk:
        t["decimal_to_decimal_validates"] = None
    else:
        # 1: the rescaled value is validated against the target precision before it is stored
        t["decimal_to_decimal_validates"] = 1 if re.search(r"validate_precision\(\s*v\s*,\s*state\.precision\s*\)", blk) else 0
    return t


def render(t):
    lines = ["(* GENERATED on every run by vlib/tables_arith.py from /repo's working tree. Do not edit. *)",
             "From Coq Require Import ZArith.", "Open Scope Z_scope.", ""]
    for k in sorted(t):
        v = t[k]
        lines.append("Definition %s : option Z := %s." % (k, "None" if v is None else "Some %d" % v))
    lines.append("")
    return "\n".join(lines)


def regenerate():
    t = scan()
    body = render(t)
    path = os.path.join(common.COQ, "gen", "TablesArith.v")
    os.makedirs(os.path.dirname(path), exist_ok=True)
    with common.Lock("coq"):
        cur = open(path).read() if os.path.exists(path) else None
        if cur != body:
            open(path, "w").write(body)
    return t


if __name__ == "__main__":
    import json
    print(json.dumps(regenerate(), indent=1))
