"""C04 — Every schedule terminates with the same result; no wake-up is lost."""
import collections, json, time
from . import common

PID = "C04"
PROPS = "props/C04.v"

SETUP = ["create temp table t1 as select a, a % 7 as g, a % 1000 as k from generate_series(1, 30000) s(a)",
         "create temp table t2 as select b, b % 1000 as k from generate_series(1, 3000) s(b)"]

# every cross-partition barrier kind; integer results only (no float sums: order independent)
QUERIES = {
    "hash_join": (SETUP, "select count(*), sum(t1.a + t2.b) from t1 join t2 on t1.k = t2.k"),
    "hash_join_left_drain": (SETUP, "select count(*), sum(a) from t2 left join t1 on t2.b = t1.a + 2000"),
    "hash_join_semi": (SETUP, "select count(*) from t1 where k in (select k from t2 where b < 500)"),
    "nested_loop_join": (SETUP + ["set enable_hash_joins to false"],
                         "select count(*), sum(x.b) from t2 x join (select * from t2 where b <= 200) y on x.k = y.k"),
    "group_by": (SETUP, "select g, count(*), sum(a) from t1 group by g"),
    "distinct_aggregate": (SETUP, "select g, count(distinct k), sum(distinct k) from t1 group by g"),
    "ungrouped_aggregate": (SETUP, "select count(*), sum(a), min(a), max(a) from t1"),
    "ungrouped_distinct": (SETUP, "select count(distinct k) from t1"),
    "order_by_limit": (SETUP, "select a, k from t1 order by k desc, a limit 50"),
    "order_by_full": (SETUP, "select a from t1 where g = 3 order by a desc"),
    "materialized_cte": (SETUP, "with c as materialized (select a, k from t1 where g = 1) select * from c union all select * from c"),
    "materialized_cte_subq": (SETUP, "with c as materialized (select k, count(*) n from t1 group by k) select (select sum(n) from c), (select count(*) from c)"),
    "union_all": (SETUP, "select a from t1 where g = 0 union all select b from t2"),
    "union_distinct": (SETUP, "select k from t1 union select k from t2"),
    "create_table_as": (SETUP, "create temp table out1 as select k, count(*) c from t1 group by k"),
    "large_result": (SETUP, "select a, k from t1"),
    "series_join": ([], "select count(*) from generate_series(1,5000) a(x), generate_series(1,5000) b(y) where x = y"),
}
ORDERED = {"order_by_limit", "order_by_full"}          # row order is part of the result
READONLY = set(QUERIES) - {"create_table_as"}
ERR_QUERIES = {
    "err_scan": (SETUP, "select cast(case when a = 17777 then 'x' else '1' end as int) from t1"),
    "err_under_aggregate": (SETUP, "select g, sum(cast(case when a = 17777 then 'x' else '1' end as int)) from t1 group by g"),
    "err_join_build": (SETUP, "select count(*), sum(u.c) from t2 join (select cast(case when a = 17777 then 'x' else '1' end as int) c, k from t1) u on t2.k = u.k"),
    "err_under_sort": (SETUP, "select cast(case when a = 17777 then 'x' else '1' end as int) c from t1 order by 1"),
}
SETUP_AB = ["create temp table a (x int)", "insert into a values (cast('1' as int)),(cast('2' as int)),(cast('3' as int))",
            "create temp table b (y int)", "insert into b values (cast('1' as int)),(cast('3' as int))"]
# LIMIT (or uncorrelated EXISTS, planned as LIMIT 1) above a barrier: the limit answers Exhausted and the
# ExecutionStack abandons everything upstream (since commit 131551599 with an AbandonOperator finalize).
#   name -> (setup, sql, expected row count, class)
#   class "ok": must terminate on every schedule with `count` rows, each a row of the un-limited query
#   class "upstream_pipeline": other pipelines feed the limited one (UNION ALL, materialized CTE; known finding)
LIMIT_QUERIES = {
    "lim_left_small": (SETUP_AB, "select 1 from b left join a a3 on a3.x = b.y limit 1", 1, "ok"),
    "exists_left_small": (SETUP_AB, "select exists (select 1 from b left join a a3 on a3.x = b.y)", 1, "ok"),
    "lim_left": (SETUP, "select t2.b from t2 left join t1 on t2.b = t1.a limit 5", 5, "ok"),
    "lim_left_big": (SETUP, "select t1.a, t2.b from t1 left join t2 on t2.b = t1.a limit 4100", 4100, "ok"),
    "lim_nlj_left": (SETUP + ["set enable_hash_joins to false"],
                     "select t2.b from t2 left join (select * from t1 where a < 300) u on t2.b = u.a limit 5", 5, "ok"),
    "lim_semi": (SETUP, "select a from t1 where k in (select k from t2 where b < 500) limit 5", 5, "ok"),
    "lim_anti": (SETUP, "select a from t1 where k not in (select k from t2 where b < 500) limit 5", 5, "ok"),
    "lim_mark": (SETUP, "select a, k in (select k from t2 where b < 500) from t1 limit 5", 5, "ok"),
    "lim_agg_then_left": (SETUP, "select x.k, x.c, t2.b from (select k, count(*) c from t1 group by k) x left join t2 on x.k = t2.b limit 5", 5, "ok"),
    "lim_left_then_left": (SETUP, "select t2.b, t1.a, z.b from t2 left join t1 on t2.b = t1.a left join t2 z on z.b = t1.a + 1 limit 5", 5, "ok"),
    "lim_left_then_inner": (SETUP, "select t2.b, z.k from t2 left join t1 on t2.b = t1.a join t2 z on z.b = t2.b limit 5", 5, "ok"),
    "lim_left_filter": (SETUP, "select t2.b from t2 left join t1 on t2.b = t1.a where t2.b % 3 = 0 limit 5", 5, "ok"),
    "lim_left_offset": (SETUP, "select t2.b from t2 left join t1 on t2.b = t1.a limit 5 offset 7", 5, "ok"),
    "lim_sort_left": (SETUP, "select * from (select t2.b from t2 left join t1 on t2.b = t1.a order by t2.b desc) limit 5", 5, "ok"),
    "lim_inner": (SETUP, "select t2.b from t2 join t1 on t2.b = t1.a limit 5", 5, "ok"),
    "lim_right": (SETUP, "select t2.b from t2 right join t1 on t2.b = t1.a limit 5", 5, "ok"),
    "lim_group_by": (SETUP, "select g, count(*) from t1 group by g limit 2", 2, "ok"),
    "lim_distinct_agg": (SETUP, "select g, count(distinct k) from t1 group by g limit 2", 2, "ok"),
    "lim_sort": (SETUP, "select * from (select a from t1 order by k, a) limit 5", 5, "ok"),
    "lim_union_distinct": (SETUP, "select k from t1 union select k from t2 limit 5", 5, "ok"),
    "lim_scan": (SETUP, "select a from t1 limit 5", 5, "ok"),
    "exists_group_by": (SETUP, "select exists (select g from t1 group by g)", 1, "ok"),
    # two or more exhausting operators above a drain join (hung until commit c83fc4e4d)
    "lim_lim_left": (SETUP, "select * from (select t2.b from t2 left join t1 on t2.b = t1.a limit 5) limit 3", 3, "ok"),
    "exists_lim_left": (SETUP, "select exists (select t2.b from t2 left join t1 on t2.b = t1.a limit 5)", 1, "ok"),
    "lim_lim_lim_left": (SETUP, "select * from (select * from (select t2.b from t2 left join t1 on t2.b = t1.a limit 9) limit 5 offset 1) limit 2", 2, "ok"),
    "lim_lim_nlj_left": (SETUP + ["set enable_hash_joins to false"],
                         "select * from (select t2.b from t2 left join (select * from t1 where a < 300) u on t2.b = u.a limit 5) limit 3", 3, "ok"),
    "lim_lim_left_left": (SETUP, "select * from (select t2.b, z.b from t2 left join t1 on t2.b = t1.a left join t2 z on z.b = t1.a + 1 limit 6) limit 4", 4, "ok"),
    "exists_lim_semi": (SETUP, "select exists (select a from t1 where k in (select k from t2 where b < 500) limit 5)", 1, "ok"),
    "lim_union_all": (SETUP, "select a from t1 union all select b from t2 limit 5", 5, "upstream_pipeline"),
    "lim_materialized": (SETUP, "with c as materialized (select a, k from t1 where g = 1) select * from c union all select * from c limit 5", 5, "upstream_pipeline"),
}


# Joins in which one side never yields a batch: every probe partition reaches poll_finalize_execute without
# poll_execute ever being called and parks as a drainer BEFORE the build side completes (released only by
# the last hash inserter's pending_drainers.wake_all()); and the symmetric case (empty build side).
SETUP_EMPTY = ["create temp table t2 as select b from generate_series(1, 3000) s(b)", "create temp table e (y int)"]
EMPTY_KINDS = {"series0": "generate_series(1,0)", "empty_table": "e", "where_false": "(select b from t2 where b < 0)",
               "join_nomatch": "(select u.b from t2 u join t2 v on u.b = v.b + 100000)"}
SIDE_SIZES = {"0": "generate_series(1,0)", "small": "generate_series(1,50)", "big": "generate_series(1,30000)"}


def join_sql(jt, left, right):
    if jt in ("left", "right", "inner"):
        kw = {"left": "left join", "right": "right join", "inner": "join"}[jt]
        return "select count(*), sum(a.x), count(b.y) from %s a(x) %s %s b(y) on a.x = b.y" % (left, kw, right)
    if jt == "semi":
        return "select count(*), sum(a.x) from %s a(x) where a.x in (select y from %s b(y))" % (left, right)
    return "select count(*), sum(a.x) from %s a(x) where a.x not in (select y from %s b(y))" % (left, right)


def empty_side_queries():
    out = {}
    for jt in ("left", "right", "inner", "semi", "anti"):
        for ek, ee in EMPTY_KINDS.items():
            for sk, se in SIDE_SIZES.items():
                out["emptyR-%s-%s-%s" % (jt, ek, sk)] = join_sql(jt, se, ee)      # right (probe) side empty
            out["emptyL-%s-%s" % (jt, ek)] = join_sql(jt, ee, "generate_series(1,100000)")   # left (build) side empty
    return out


# Nested-loop LEFT / SEMI / ANTI / MARK joins: the left drain must not start before EVERY partition finished
# probing.  Build side = table filled by several INSERTs (>= 2 segments); probe side = generate_series whose
# matching rows come only in the last batches (skewed onto one partition).  Row-level comparison with the
# 1-partition run is what detects a drain that starts early (spurious unmatched / unmarked rows).
SETUP_NLJ = ["create temp table bt (k int)"] + \
    ["insert into bt select a from generate_series(%d, %d) s(a)" % (199951 + 10 * i, 199960 + 10 * i) for i in range(5)] + \
    ["insert into bt select a from generate_series(300001, 300010) s(a)", "set enable_hash_joins to false"]
NLJ_QUERIES = {
    "nlj_left_rows": "select bt.k, g.a from bt left join generate_series(1,200000) g(a) on bt.k = g.a",
    "nlj_left_nonequi": "select bt.k, g.a from bt left join generate_series(1,200000) g(a) on bt.k <= g.a and bt.k + 0 >= g.a",
    "nlj_semi_rows": "select k from bt where k in (select a from generate_series(1,200000) g(a))",
    "nlj_anti_rows": "select k from bt where k not in (select a from generate_series(1,200000) g(a))",
    "nlj_mark_rows": "select k, k in (select a from generate_series(1,200000) g(a)) from bt",
    "nlj_left_agg": "select count(*), count(g.a), sum(bt.k) from bt left join generate_series(1,200000) g(a) on bt.k = g.a",
}


def nolimit_sql(sql):
    """the un-limited query whose rows a LIMIT result must be drawn from (None if not of that shape)"""
    import re
    m = re.match(r"^(select .*) limit \d+( offset \d+)?$", sql)
    if not m or sql.startswith("select * from (") or sql.startswith("select exists"):
        return None
    return m.group(1)


ERR_TEXT = "Failed to parse 'x' into Int32"
PARTS = [1, 2, 3, 4, 8]
KINDS = ["fifo", "lifo", "random", "random", "starve_last", "starve_first"]


def canon(name, res):
    """outcome of one run, canonicalised"""
    if res is None:
        return ("missing",)
    if "hang" in res:
        return ("hang", res["hang"])
    if "panic" in res:
        return ("panic", res["panic"])
    if not res.get("ok"):
        return ("err", res.get("err", ""))
    rows = [json.dumps(r) for r in res.get("rows", [])]
    if name not in ORDERED:
        rows = sorted(rows)
    return ("rows", len(rows), hash(tuple(rows)))


def sched(rng, kind=None):
    kind = kind or rng.choice(KINDS)
    return {"kind": kind, "seed": rng.below(1 << 30), "spurious": rng.choice([0, 0, 10, 30, 60]) if kind == "random" else 0}


# ---------------------------------------------------------------- K1: ExecutionStack correspondence
def stage_stack(ctx, rng, gbin, gmodel):
    n = 700 if ctx["tier"] == "quick" else 20000
    cases = []
    for i in range(n):
        nops = rng.choice([1, 2, 2, 3, 3, 4, 5, 6, 9]) if i else 0
        steps = 10 + rng.below(70)
        mode = rng.below(4)
        s = []
        for _ in range(steps):
            if mode == 0:      # well-behaved-ish pipelines: deep runs
                e = rng.choice("RRRHHNNNXP")
                f = rng.choice("FFFDDP")
            elif mode == 1:    # errors and pendings sprinkled in
                e = rng.choice("RRHHNNXPPE")
                f = rng.choice("FFDPPE")
            elif mode == 2:
                e = rng.choice("RPNHXE")
                f = rng.choice("FDPE")
            else:              # long streaming phase, then exhaustion
                e = rng.choice("HHHHRRNNNN" if len(s) < steps // 2 else "XNNRHP")
                f = rng.choice("FFD")
            s.append(e + f)
        cases.append({"id": "k%d" % i, "nops": nops, "script": "".join(s)})
    real = common.run_harness(gbin, "stack", cases, timeout=300)
    mout = common.run_model(gmodel, "stack", ["case %d %s" % (c["nops"], c["script"]) for c in cases], timeout=300)
    mism, steps_total, distinct = [], 0, set()
    for c, r, m in zip(cases, real, mout):
        if r.get("new_panic"):
            got = "new_panic"
        elif "steps" in r:
            got = ",".join(r["steps"])
        else:
            got = "harness:" + json.dumps(r)[:200]
        steps_total += len(c["script"]) // 2
        distinct.add(m)
        if got != m:
            gl, ml = got.split(","), m.split(",")
            k = next((j for j, (a, b) in enumerate(zip(gl, ml)) if a != b), min(len(gl), len(ml)))
            mism.append({"case": c, "first_diff_step": k, "real": gl[k:k + 3], "model": ml[k:k + 3]})
    return {"scripts": len(cases), "steps": steps_total, "distinct": len(distinct), "mismatches": mism,
            "sample": {"nops": cases[-1]["nops"], "script": cases[-1]["script"][:24] + "..", "real": real[-1].get("steps", [])[:8]}}



# ---------------------------------------------------------------- K1b: MergeQueue bookkeeping correspondence
def mq_script(rng, parts, budget, depth=0):
    """random nested operation script for `gv_sched mq` / the extracted q_* functions"""
    toks = []
    while budget[0] > 0:
        budget[0] -= 1
        r = rng.below(100)
        p = rng.below(parts)
        if r < 30:
            toks.append("f%d:%d" % (p, rng.choice([0, 1, 1, 2, 2, 3, 4])))
        elif r < 85:
            toks.append("p%d[" % p)
            if depth < 3 and rng.chance(75):
                sub = [max(1, min(budget[0], 1 + rng.below(6)))]
                budget[0] -= sub[0]
                toks += mq_script(rng, parts, sub, depth + 1)
            toks.append("]")
        else:
            toks.append("t%d" % p)
        if depth and rng.chance(25):
            break
    return toks


def stage_mq(ctx, rng, gbin, gmodel):
    n = 600 if ctx["tier"] == "quick" else 20000
    cases = []
    for i in range(n):
        parts = rng.choice([1, 2, 2, 3, 3, 4, 5])
        if rng.chance(50):      # orderly prefix: every partition finalizes once, then free-for-all
            pre = ["f%d:%d" % (p, rng.choice([0, 1, 2, 3, 5])) for p in rng.shuffle(range(parts))]
            cut = rng.below(parts + 1)
            toks = pre[:cut] + mq_script(rng, parts, [10 + rng.below(25)]) + pre[cut:] + mq_script(rng, parts, [8 + rng.below(20)])
        else:
            toks = mq_script(rng, parts, [10 + rng.below(40)])
        cases.append({"id": "q%d" % i, "parts": parts, "script": " ".join(toks)})
    real = common.run_harness(gbin, "mq", cases, timeout=600)
    mout = common.run_model(gmodel, "mq", ["case %d %s" % (c["parts"], c["script"]) for c in cases], timeout=600)
    mism, events, distinct, window = [], 0, set(), 0
    for c, r, m in zip(cases, real, mout):
        got = r.get("events")
        ml = m.split(";")
        events += len(ml)
        distinct.add(m)
        # states in which exactly one run is queued, no input remains, and a merge is in flight
        window += sum(1 for e in ml if e.split("| ")[-1].startswith("1/0/") and not e.split("| ")[-1].startswith("1/0/0/"))
        if got != ml:
            k = next((j for j, (a, b) in enumerate(zip(got or [], ml)) if a != b), min(len(got or []), len(ml)))
            mism.append({"case": c, "first_diff_event": k, "real": (got or [json.dumps(r)[:200]])[k:k + 2], "model": ml[k:k + 2]})
    return {"scripts": len(cases), "events": events, "distinct": len(distinct), "mismatches": mism,
            "in_flight_single_run_states": window,
            "sample": {"parts": cases[-1]["parts"], "script": cases[-1]["script"][:60] + "..", "real": (real[-1].get("events") or [])[:6]}}

# ---------------------------------------------------------------- K2: real queries under schedules
def det_case(cid, name, setup, sql, parts, sch, **kw):
    c = {"id": cid, "partitions": parts, "stmts": setup + [sql], "sched": sch, "timeout_s": 120, "_name": name}
    c.update(kw)
    return c


def stage_det(ctx, rng, gbin):
    quick = ctx["tier"] == "quick"
    cases = []
    for name, (setup, sql) in QUERIES.items():
        cases.append(det_case("base-" + name, name, setup, sql, 1, {"kind": "fifo", "seed": 1}))
        reps = 4 if quick else 40
        for j in range(reps):
            parts = PARTS[(j + rng.below(5)) % 5] if j else rng.choice([2, 3, 4, 8])
            kw = {}
            if rng.chance(35) or name == "large_result":
                kw["consumer_every"] = rng.choice([2, 3, 7, 50, 1000])
            cases.append(det_case("%s-%d" % (name, j), name, setup, sql, parts, sched(rng), **kw))
    # errors must surface on every schedule
    for name, (setup, sql) in ERR_QUERIES.items():
        for j in range(4 if quick else 30):
            cases.append(det_case("%s-%d" % (name, j), name, setup, sql, rng.choice(PARTS), sched(rng),
                                  **({"consumer_every": 5} if j % 2 else {})))
    # cancellation at a random step
    cancel_names = ["hash_join", "group_by", "order_by_full", "large_result", "union_all", "materialized_cte"]
    for name in cancel_names:
        setup, sql = QUERIES[name]
        for j in range(3 if quick else 25):
            cases.append(det_case("cancel-%s-%d" % (name, j), name, setup, sql, rng.choice([2, 3, 4, 8]), sched(rng),
                                  cancel_after=rng.below(12)))
    # LIMIT / EXISTS above a barrier
    for name, (setup, sql, nrows, cls) in LIMIT_QUERIES.items():
        full = nolimit_sql(sql) if cls == "ok" else None
        if full:
            cases.append(det_case("full-" + name, name, setup, full, 1, {"kind": "fifo", "seed": 1}, _full=True))
        for parts in [1, 2, 3, 4] + ([] if quick else [8]):
            for j in range(1 if quick or parts == 1 else 6):
                cases.append(det_case("%s-p%d-%d" % (name, parts, j), name, setup, sql, parts,
                                      sched(rng, None if j or parts > 1 else "fifo"), _limit=(nrows, cls)))
    # one join side never yields a batch (hash join and nested-loop join)
    eq = empty_side_queries()
    pol = ["lifo", "starve_first", "starve_last", "fifo", "random"]
    for qi, (name, sql) in enumerate(sorted(eq.items())):
        for nlj in ([False, True] if (not quick or qi % 4 == 0) else [False]):
            setup = SETUP_EMPTY + (["set enable_hash_joins to false"] if nlj else [])
            nm = name + ("-nlj" if nlj else "")
            cases.append(det_case("base-" + nm, nm, setup, sql, 1, {"kind": "fifo", "seed": 1}))
            combos = [(pp, kk) for pp in (2, 4, 8, 16) for kk in pol]
            picks = rng.shuffle(combos)[:(3 if quick else 20)]
            if nm.startswith("emptyR-left-series0-big") and not nlj:
                picks = [(16, "fifo"), (16, "lifo"), (8, "starve_first"), (4, "starve_last"), (2, "lifo")]
            for j, (pp, kk) in enumerate(picks):
                cases.append(det_case("%s-%d" % (nm, j), nm, setup, sql, pp, sched(rng, kk)))
    # nested-loop joins with a left drain: barrier order
    for name, sql in NLJ_QUERIES.items():
        cases.append(det_case("base-" + name, name, SETUP_NLJ, sql, 1, {"kind": "fifo", "seed": 1}))
        combos = rng.shuffle([(pp, kk) for pp in (2, 4, 8, 16) for kk in ("fifo", "lifo", "starve_first", "starve_last", "random")])
        picks = [(8, "fifo")] + combos[:(4 if quick else 20)]
        for j, (pp, kk) in enumerate(picks):
            cases.append(det_case("%s-%d" % (name, j), name, SETUP_NLJ, sql, pp, sched(rng, kk)))
    # systematic enumeration of every schedule prefix for small partition counts
    enum_names = ["hash_join", "hash_join_left_drain", "group_by", "distinct_aggregate", "order_by_limit", "order_by_full",
                  "union_all", "materialized_cte", "large_result", "series_join", "nested_loop_join", "ungrouped_distinct"]
    for name in enum_names:
        setup, sql = QUERIES[name]
        for parts in ([2] if quick else [2, 3]):
            cases.append(det_case("enum-%s-p%d" % (name, parts), name, setup, sql, parts, {"kind": "fifo", "seed": 1},
                                  enumerate={"max_runs": 120 if quick else 3000, "depth": 7 if quick else 10}))
    send = [{k: v for k, v in c.items() if not k.startswith("_")} for c in cases]
    real = common.run_harness(gbin, "det", send, timeout=3000)
    base, viol, known, nruns, distinct, poll_err, full_rows, planfail = {}, [], [], 0, set(), 0, {}, set()
    sample = None
    for c, r in zip(cases, real):
        name = c["_name"]
        replay = {"case": {k: v for k, v in c.items() if not k.startswith("_")}, "query_kind": name}
        if "abort" in r or "timeout" in r or "bad_input" in r:
            viol.append(("engine died / timed out under a schedule", dict(replay, result=r)))
            continue
        bad_setup = [x for x in r.get("setup", []) if not x.get("ok")]
        if bad_setup:
            viol.append(("setup statement failed under the deterministic runtime", dict(replay, setup=bad_setup[:2])))
            continue
        if "enum" in r:
            e = r["enum"]
            nruns += e["runs"]
            distinct.add((name, c["partitions"], "enum", e["runs"]))
            want = base.get(name)
            outs = [o["outcome"] for o in e.get("outcomes", [])]
            if e["n_hangs"] or e["n_unfinished"] or e["distinct_results"] != 1 or e.get("polls_after_done"):
                viol.append(("schedule enumeration: hang / unfinished task / differing results",
                             dict(replay, enum={k: e[k] for k in ("runs", "n_hangs", "hangs", "n_unfinished", "unfinished",
                                                                 "distinct_results", "outcomes", "polls_after_done")})))
            elif want and want[0] == "rows" and outs and not outs[0].startswith("rows:%d:" % want[1]):
                viol.append(("schedule enumeration: row count differs from the sequential run", dict(replay, outcomes=outs, want_rows=want[1])))
            continue
        res = r.get("result")
        out = canon(name, res)
        nruns += 1
        distinct.add((name, c["partitions"], c["sched"]["kind"], c["sched"].get("spurious", 0), c.get("consumer_every", 1),
                      c.get("cancel_after")))
        poll_err += r.get("polls_after_error", 0)
        if r.get("polls_after_done"):
            viol.append(("a task that returned Ready(Ok) was polled again", dict(replay, polls_after_done=r["polls_after_done"])))
        if r.get("polls_after_error"):
            viol.append(("a task was polled again after its poll_execute returned an error",
                         dict(replay, polls_after_error=r["polls_after_error"], after_error_results=r.get("after_error_results"))))
        if c.get("_full"):
            full_rows[name] = collections.Counter(json.dumps(x) for x in (res or {}).get("rows", [])) if out[0] == "rows" else None
            if out[0] != "rows":
                viol.append(("un-limited baseline query failed", dict(replay, outcome=out[:2])))
            continue
        if "_limit" in c:
            nrows, cls = c["_limit"]
            ok_rows = out[0] == "rows" and out[1] == nrows
            if ok_rows and full_rows.get(name):
                got = collections.Counter(json.dumps(x) for x in res["rows"])
                extra = got - full_rows[name]
                if extra:
                    viol.append(("LIMIT above a barrier returned rows that the un-limited query does not have",
                                 dict(replay, rows=list(extra)[:5])))
                    continue
            if ok_rows and r.get("unfinished") and cls == "upstream_pipeline":
                known.append(("limit-leaves-upstream-tasks-parked", dict(replay, unfinished=r["unfinished"])))
            elif not ok_rows:
                viol.append(("LIMIT above a barrier: %s" % out[0], dict(replay, outcome=out[:2], want_rows=nrows, steps=r.get("steps"))))
            elif r.get("unfinished"):
                viol.append(("LIMIT above a barrier: tasks left parked for ever after the stream ended", dict(replay, unfinished=r["unfinished"])))
            continue
        if c["id"].startswith("base-"):
            base[name] = out
            if out[0] == "err" and (res or {}).get("phase") == "plan" and name.startswith("empty"):
                planfail.add(name)      # a planner limitation/defect of another property: shape not executable
                continue
            if out[0] != "rows":
                viol.append(("sequential (1 partition, fifo) run failed", dict(replay, outcome=out)))
            sample = sample or {"sql": c["stmts"][-1], "partitions": 1, "steps": r.get("steps"), "rows": out[1] if out[0] == "rows" else None}
            continue
        if name in planfail:
            continue
        if out[0] in ("hang", "panic", "missing"):
            viol.append(("query %s under a schedule" % out[0], dict(replay, outcome=out, steps=r.get("steps"))))
            continue
        if name in ERR_QUERIES:
            if out[0] != "err" or ERR_TEXT not in out[1]:
                viol.append(("an error in one partition did not reach the client", dict(replay, outcome=out[:2])))
            continue
        if "cancel_after" in c:
            cancelled = out[0] == "err" and "cancel" in out[1].lower()
            if not cancelled and out != base.get(name):
                viol.append(("cancelled query neither ended with the cancel error nor with the full result",
                             dict(replay, outcome=out[:2], steps=r.get("steps"))))
            elif not cancelled and c["cancel_after"] + 1 < (r.get("steps") or 0) and False:
                pass
            continue
        if out != base.get(name):
            viol.append(("result differs from the sequential run", dict(replay, outcome=out[:2], sequential=base.get(name, ("?",))[:2])))
        elif r.get("unfinished"):
            viol.append(("tasks left unfinished after the stream ended normally", dict(replay, unfinished=r["unfinished"])))
    return {"cases": len(cases), "shapes_not_plannable": sorted(planfail), "runs": nruns, "distinct": len(distinct), "violations": viol, "known": known,
            "polls_after_error": poll_err, "sample": sample}


# ---------------------------------------------------------------- K3: real thread pool, task-state traces
def stage_threaded(ctx, rng, gbin, gmodel):
    quick = ctx["tier"] == "quick"
    cases = []
    names = ["hash_join", "group_by", "order_by_full", "union_all", "distinct_aggregate", "large_result", "materialized_cte"]
    for j, name in enumerate(names if not quick else names[:5]):
        setup, sql = QUERIES[name]
        cases.append({"id": "tl-%s" % name, "threads": [1, 2, 4, 8][j % 4], "stmts": setup + [sql], "repeat": 2 if quick else 10,
                      "timeout_s": 120, "_name": name})
    setup, sql = ERR_QUERIES["err_under_aggregate"]
    cases.append({"id": "tl-err", "threads": 4, "stmts": setup + [sql], "repeat": 2, "timeout_s": 120, "_name": "err"})
    cases.append({"id": "tl-cancel", "threads": 2, "cancel_after_us": 20000, "cancel_jitter": True, "repeat": 4 if quick else 30,
                  "stmts": ["select count(*) from generate_series(1,6000) a(x), generate_series(1,6000) b(y)"],
                  "timeout_s": 120, "settle_ms": 20000, "_name": "cancel"})
    send = [{k: v for k, v in c.items() if not k.startswith("_")} for c in cases]
    real = common.run_harness(gbin, "tasklog", send, timeout=1500)
    viol, known, traces, lines, owners, events = [], [], 0, [], [], 0
    for c, r in zip(cases, real):
        replay = {"case": {k: v for k, v in c.items() if not k.startswith("_")}}
        if "tasks" not in r:
            viol.append(("multi-threaded run hung or died", dict(replay, result=r)))
            continue
        digests = set()
        for run in r.get("runs", []):
            if run.get("ok"):
                digests.add(run.get("digest"))
            elif c["_name"] == "cancel":
                if "cancel" not in run.get("err", "").lower():
                    viol.append(("cancelled query ended with an unexpected error", dict(replay, run=run)))
            elif c["_name"] == "err":
                if ERR_TEXT not in run.get("err", ""):
                    viol.append(("error did not reach the client (threaded)", dict(replay, run=run)))
            else:
                viol.append(("query failed on the thread pool", dict(replay, run=run)))
        if c["_name"] == "err" and digests:
            viol.append(("error query returned rows on the thread pool", replay))
        if len(digests) > 1:
            viol.append(("results differ between multi-threaded runs", dict(replay, digests=sorted(digests))))
        for t in r["tasks"]:
            lines.append("trace " + " ".join(t))
            owners.append((c, r.get("settled"), t))
            events += len(t)
    verdicts = common.run_model(gmodel, "tasklog", lines, timeout=600) if lines else []
    for (c, settled, t), v in zip(owners, verdicts):
        traces += 1
        replay = {"case": {k: x for k, x in c.items() if not k.startswith("_")}, "task_trace": t, "model_verdict": v}
        if not v.startswith("OK"):
            viol.append(("task-state trace of the real thread pool is not a run of model/TaskSched.v", replay))
            continue
        f = dict(x.split("=") for x in v.split()[2:])
        if int(f["after_done"]):
            viol.append(("a completed task was executed again", replay))
        if int(f["after_err"]):
            viol.append(("a task was executed again after its execute() returned Err (done:E)", replay))
        if settled and int(f["alive"]):
            viol.append(("worker still alive after the log settled", replay))
    return {"traces": traces, "events": events, "violations": viol, "known": known,
            "sample": {"trace": owners[0][2][:12], "verdict": verdicts[0]} if owners else None}


def search_sort(ctx, rng, gbin):
    """property-level search used when the merge-queue correspondence broke: big ORDER BY under schedules"""
    setup = ["create temp table tb as select a, (a * 7919) % 100003 as k from generate_series(1, 200000) s(a)"]
    sql = "select k, a from tb order by k, a"
    cases = [det_case("sortbase", "order_by_full", setup, sql, 1, {"kind": "fifo", "seed": 1})]
    for j in range(10):
        cases.append(det_case("sort-%d" % j, "order_by_full", setup, sql, rng.choice([3, 4, 8, 16]), sched(rng, rng.choice(["random", "lifo", "starve_first"]))))
    send = [{k: v for k, v in c.items() if not k.startswith("_")} for c in cases]
    real = common.run_harness(gbin, "det", send, timeout=1200)
    base, found = None, []
    for c, r in zip(cases, real):
        out = canon("order_by_full", r.get("result"))
        if c["id"] == "sortbase":
            base = out
        elif out != base:
            found.append(("ORDER BY result differs from the sequential run (merge queue)",
                          {"case": {k: v for k, v in c.items() if not k.startswith("_")}, "query_kind": "order_by_full",
                           "outcome": out[:2], "sequential": (base or ("?",))[:2]}))
    return found[:3]


def match_known(kind, replay, kf):
    for k in kf:
        if k.get("property") == PID and k.get("id") == kind:
            return "%s: %s" % (k["id"], k["what"])
    return None


def run(ctx):
    t0 = time.time()
    rng = common.Rng(ctx["seed"])
    out = {"violations": [], "known": [], "assumptions": []}
    gbin, _ = common.build_harness(bin="gv_sched")
    pr = common.coq_props(PROPS)
    audit = common.audit_sources()
    obligations = pr["declared"]
    bad_assum = common.check_assumptions(pr) if pr["ok"] else []
    proof_broken = (not pr["ok"]) or bool(bad_assum) or bool(audit)
    discharged = 0 if proof_broken else len(obligations)
    gmodel = common.build_ocaml("sched")
    k1 = stage_stack(ctx, rng, gbin, gmodel)
    k1b = stage_mq(ctx, rng, gbin, gmodel)
    k2 = stage_det(ctx, rng, gbin)
    k3 = stage_threaded(ctx, rng, gbin, gmodel)
    kf = common.known_findings().get("known", [])
    seen_known = set()
    for kind, replay in k2["known"] + k3["known"]:
        line = match_known(kind, replay, kf)
        if line:
            seen_known.add(line)
        else:
            out["violations"].append({"what": kind, "replay": replay, "no_input": False})
    out["known"] = sorted(seen_known)
    for what, replay in k2["violations"] + k3["violations"]:
        out["violations"].append({"what": what, "replay": replay, "no_input": False})
    for m in k1["mismatches"][:3]:
        out["violations"].append({"what": "correspondence: real ExecutionStack::pop_next differs from model/ExecStack.v pop_next",
                                  "replay": m, "no_input": False})
    if k1b["mismatches"]:
        # the merge queue's bookkeeping differs from the model the theorems are about: look for a query
        # whose ORDER BY result is wrong on some schedule, and report the operation script in any case
        for what, replay in search_sort(ctx, rng, gbin):
            out["violations"].append({"what": what, "replay": replay, "no_input": False})
        for m in k1b["mismatches"][:3]:
            out["violations"].append({"what": "correspondence: real MergeQueue bookkeeping (is_complete / poll_merge_next / take_sorted_run) differs from model/BarrierMergeQueue.v",
                                      "replay": m, "no_input": False})
    if proof_broken and not (k2["violations"] or k3["violations"] or k1["mismatches"] or k1b["mismatches"]):
        reason = {"proof_failed_at": pr.get("failed_at"), "log_tail": pr["log"][-1500:] if not pr["ok"] else "",
                  "assumption_problems": bad_assum, "audit": audit}
        out["violations"].append({"what": "theorem(s) in %s no longer check" % PROPS, "replay": reason, "no_input": True})
    out["coverage"] = {
        "obligations": len(obligations), "discharged": discharged,
        "checker_cmd": "cd coq && make props/C04.vo (Print Assumptions parsed; Admitted/Axiom audit over coq/)",
        "trusted_base": ["Coq 8.16.1 kernel", "hand transcription of the lock regions into model/Barrier*.v (atomic step = one critical section)",
                         "extraction (ExtrOcamlBasic) + ocaml/sched.ml", "harness/src/bin/gv_sched.rs (deterministic scheduler, scripted Effects)",
                         "hooks: execution::verif_execution_stack re-export; threaded::verif_log event log; sort::verif_merge_queue re-export, MergeQueue::verif_state, verif_hooks::IN_FLIGHT callback",
                         "not exhibitable: parking_lot / rayon internals, OS timing, weak-memory effects of the Relaxed/Release atomics"],
        "theorems": obligations,
        "evaluations": k1["steps"] + k1b["events"] + k2["runs"] + k3["traces"],
        "distinct_nontrivial": k1["distinct"] + k1b["distinct"] + k2["distinct"] + k3["traces"],
        "merge_queue_scripts": k1b["scripts"], "merge_queue_events_compared": k1b["events"],
        "merge_queue_in_flight_single_run_states": k1b["in_flight_single_run_states"],
        "rule": "K1: every pop_next step of random answer scripts compared between the real ExecutionStack and the extracted model (exact; distinct = distinct step sequences). "
                "K1b: every event (result, woken partitions, runs/remaining/running_merges/is_complete) of random nested operation scripts (finalize, poll_merge_next with other operations while the merge is in flight, take_sorted_run) compared between the real MergeQueue and the extracted q_* functions (exact). "
                "K2: real queries with every barrier kind under seed-chosen deterministic schedules (fifo/lifo/random+spurious/starve, slow consumer, cancel, exhaustive choice-prefix enumeration): no hang, no unfinished task, same rows as the 1-partition fifo run, errors surface, cancel ends the stream (distinct = distinct (query, partitions, policy, spurious, consumer rate, cancel step)). "
                "K3: per-task event logs of the real rayon pool accepted by the extracted TaskSched.step.",
        "samples": [k1["sample"], k1b["sample"], k2["sample"], k3["sample"]],
        "stack_scripts": k1["scripts"], "stack_steps_compared": k1["steps"], "det_cases": k2["cases"], "det_runs": k2["runs"],
        "threaded_task_traces": k3["traces"], "threaded_task_events": k3["events"],
        "polls_after_error_observed": k2["polls_after_error"], "shapes_not_plannable": k2["shapes_not_plannable"], "exhaustive": False,
    }
    out["assumptions"] = ["atomic steps of the barrier models are the operator mutex critical sections; the lock-free fetch_sub of the hash-join build is one step",
                          "deterministic runs use one OS thread; multi-threaded runs are sampled (1-8 threads), not enumerated",
                          "stored wakers are identified with the parked phases; stale wakers only add wakes, covered by spurious polls"]
    out["level"] = "partial"
    out["wall"] = time.time() - t0
    return out


def replay(ctx, payload):
    """./check C04 --replay file: re-run the recorded case on the current tree; exit 1 if it still fails."""
    rp = payload.get("replay", payload)
    gbin, _ = common.build_harness(bin="gv_sched")
    case = rp.get("case")
    if not case:
        print("replay has no engine input (proof / correspondence breakage): %s" % payload.get("what"))
        return 2
    if "script" in case and "parts" in case:
        gmodel = common.build_ocaml("sched")
        r = common.run_harness(gbin, "mq", [case])[0]
        m = common.run_model(gmodel, "mq", ["case %d %s" % (case["parts"], case["script"])])[0].split(";")
        got = r.get("events", [])
        for a, b in zip(got, m):
            print("%-40s %s %s" % (a, "==" if a == b else "!=", b))
        return 1 if got != m else 0
    if "script" in case:
        gmodel = common.build_ocaml("sched")
        r = common.run_harness(gbin, "stack", [case])[0]
        m = common.run_model(gmodel, "stack", ["case %d %s" % (case["nops"], case["script"])])[0]
        got = "new_panic" if r.get("new_panic") else ",".join(r.get("steps", []))
        print("real :", got)
        print("model:", m)
        return 1 if got != m else 0
    if "task_trace" in rp:
        gmodel = common.build_ocaml("sched")
        v = common.run_model(gmodel, "tasklog", ["trace " + " ".join(rp["task_trace"])])[0]
        print("model verdict on the recorded trace:", v)
        return 0 if v.startswith("OK") and "after_done=0" in v else 1
    sub = "tasklog" if "threads" in case else "det"
    r = common.run_harness(gbin, sub, [dict(case, log=True)], timeout=600)[0]
    if sub == "tasklog":
        print(json.dumps(r)[:2000])
        return 1 if "tasks" not in r else 0
    res = r.get("result", r.get("enum"))
    name = rp.get("query_kind", "")
    out = canon(name, res) if "result" in r else ("enum", json.dumps(res)[:300])
    print("outcome:", out[:2], "steps:", r.get("steps"), "unfinished:", r.get("unfinished"))
    if r.get("log"):
        print("schedule log:", r["log"][:1500])
    bad = out[0] in ("hang", "panic", "missing") or "abort" in r or "timeout" in r
    if "want_rows" in rp and not (out[0] == "rows" and out[1] == rp["want_rows"]):
        bad = True
    if name in ERR_QUERIES and out[0] != "err":
        bad = True
    if r.get("unfinished") and out[0] == "rows":
        bad = True
    if "enum" in r and (res.get("n_hangs") or res.get("n_unfinished") or res.get("distinct_results") != 1):
        bad = True
    return 1 if bad else 0
