"""C07 — Grouping, aggregates and duplicate elimination are exact per group."""
from . import sqlprop, sqlgen

PID = "C07"


def make_work(rng, tier):
    n = 120 if tier == "quick" else 2000
    work = []
    for i in range(n):
        tables = sqlgen.make_db(rng, max_rows=rng.choice([9, 30, 120, 400]))
        g = sqlgen.Gen(rng, tables, {"max_depth": 2, "joins": rng.chance(40), "subqueries": rng.chance(20),
                                     "ctes": False, "case": rng.chance(40)})
        runs = []
        for _ in range(3):
            q = g.query()
            tries = 0
            while not ({"group", "distinct", "union"} & q.classes) and tries < 6:
                q = g.query(); tries += 1
            for parts in rng.shuffle([1, 2, 3, 8])[:2]:
                runs.append((q, {"partitions": parts, "batch_size": rng.choice([1, 3, 64, 2048]),
                                 "enable_optimizer": bool(rng.below(2))}))
        work.append({"id": "c07-%d" % i, "tables": tables, "runs": runs, "mode": "det" if rng.chance(70) else "threaded",
                     "threads": rng.choice([1, 8]), "det_partitions": 2,
                     "sched": {"kind": rng.choice(["fifo", "lifo", "random"]), "seed": rng.below(1 << 30)}})
    return work


def run(ctx):
    return sqlprop.run_property(
        ctx, PID, "props/C07.v", make_work,
        "partial-state algebra of count/sum/min/max/bool_and/bool_or: combining per-partition states in any split and order gives the aggregate of the whole group (sum: that value or an overflow error, never another value); empty input values; one row per group, NULLs one group, every row in exactly one group; DISTINCT/UNION as duplicate elimination; DISTINCT aggregates; the open-addressing group table and the two-level partitioned scheme",
        "GROUP BY / HAVING / DISTINCT / UNION queries with count(*), count, sum, min, max, bool_and, bool_or and DISTINCT aggregates over 1-2 grouping columns with NULL keys, few and many groups (tables up to 400 rows), each under two partition counts from {1,2,3,8} and batch sizes {1,3,64,2048}; distinct = distinct (SQL text, config)")
