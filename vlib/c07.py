"""C07 — Grouping, aggregates and duplicate elimination are exact per group."""
from . import sqlprop, sqlgen

PID = "C07"


def make_work(rng, tier):
    n = 120 if tier == "quick" else 2000
    work = []
    for i in range(n):
        tables = sqlgen.make_db(rng, max_rows=rng.choice([9, 30, 120, 400]))
        g = sqlgen.Gen(rng, tables, {"max_depth": 2, "joins": rng.chance(40), "subqueries": rng.chance(20),
                                     "ctes": False, "case": rng.chance(40)})
        runs = []
        for _ in range(3):
            q = g.query()
            tries = 0
            while not ({"group", "distinct", "union"} & q.classes) and tries < 6:
                q = g.query(); tries += 1
            for parts in rng.shuffle([1, 2, 3, 8])[:2]:
                runs.append((q, {"partitions": parts, "batch_size": rng.choice([1, 3, 64, 2048]),
                                 "enable_optimizer": bool(rng.below(2))}))
        work.append({"id": "c07-%d" % i, "tables": tables, "runs": runs, "mode": "det" if rng.chance(70) else "threaded",
                     "threads": rng.choice([1, 8]), "det_partitions": 2,
                     "sched": {"kind": rng.choice(["fifo", "lifo", "random"]), "seed": rng.below(1 << 30)}})
    # many-groups family: more groups than the initial directory capacity (512) so that the group table
    # resizes (several times) while rows are still arriving; key sets are runs of consecutive integers from a
    # random base (collision chains that wrap around the directory depend on the base)
    nbig = 24 if tier == "quick" else 300
    for i in range(nbig):
        n = rng.choice([700, 1500, 3000, 3000])
        base = rng.below(2000000)
        reps = rng.choice([1, 2, 3])
        # every key occurs `reps` times, later occurrences arrive after the table has been resized
        rows = [["I%d" % (base + (j % n))] for j in range(1, reps * n + 1)]
        tables = [("t0", [("c0", "i64")], rows, "virtual")]
        src = "(SELECT ((s.i %% cast('%d' as bigint)) + cast('%d' as bigint)) AS c0 FROM generate_series(1, %d) AS s(i)) AS x1" % (n, base, reps * n)
        q1 = sqlgen.Q("SELECT x1.c0 AS r0, count(*) AS r1 FROM %s GROUP BY x1.c0" % src,
                      "(select (fq (table 0)) - (((col 0 0)) ((countstar 0 (const N)))) - ((col 0 0) (col 0 1)) 0)",
                      ["i64", "i64"], ["r0", "r1"], {"group", "many_groups"})
        q2 = sqlgen.Q("SELECT DISTINCT x1.c0 AS r0 FROM %s" % src,
                      "(select (fq (table 0)) - - - ((col 0 0)) 1)", ["i64"], ["r0"], {"distinct", "many_groups"})
        runs = []
        for q in (q1, q2):
            runs.append((q, {"partitions": rng.choice([1, 1, 2, 4]), "batch_size": rng.choice([64, 256, 256, 2048])}))
        work.append({"id": "c07-big-%d" % i, "tables": tables, "runs": runs, "mode": "threaded", "threads": 4})
    return work


def run(ctx):
    from . import c07fn, common
    res = run_sql(ctx)
    # every builtin aggregate's update/merge/finalize state machine (model/AggFn.v, props/C07fn.v)
    return common.merge_results(res, c07fn.run(ctx), "aggregate_function_states")


def run_sql(ctx):
    return sqlprop.run_property(
        ctx, PID, "props/C07.v", make_work,
        "partial-state algebra of count/sum/min/max/bool_and/bool_or: combining per-partition states in any split and order gives the aggregate of the whole group (sum: that value or an overflow error, never another value); empty input values; one row per group, NULLs one group, every row in exactly one group; DISTINCT/UNION as duplicate elimination; DISTINCT aggregates; the open-addressing group table and the two-level partitioned scheme",
        "GROUP BY / HAVING / DISTINCT / UNION queries with count(*), count, sum, min, max, bool_and, bool_or and DISTINCT aggregates over 1-2 grouping columns with NULL keys, few and many groups (tables up to 400 rows), each under two partition counts from {1,2,3,8} and batch sizes {1,3,64,2048}; distinct = distinct (SQL text, config)")


def replay(ctx, payload):
    from . import sqlrun
    return sqlrun.replay(ctx, payload)
