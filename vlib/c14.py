"""C14 — Catalog and table contents equal the sequential effect of DDL/DML.

Stages: proofs (props/C14.v) -> R: the witness schedules of the two refuted storage theorems replayed on the
real engine at real scale with the deterministic scheduler, the row counts compared with the extracted
Storage model run at the constants read from the source -> K: random statement histories over 3 schemas x 3
names and 1..3 sessions of ONE engine (gv_catalog), every outcome and probe result compared with the extracted
`Catalog.step_impl` (= `step` unless the storage layer leaked something, which is a known finding)."""
import json, os, re, subprocess, time
from . import common

PID = "C14"
PROPS = "props/C14.v"
REPO = common.REPO

SCHEMAS = {0: "temp", 1: "s1", 2: "s2"}
NAMES = {1: "t1", 2: "t2", 3: "t3"}


# ---------------------------------------------------------------- constants read from the source
def source_constants():
    out = {"segment_size": None, "chunk_capacity": None, "max_partitions": None, "max_batch_size": None}
    try:
        s = open(os.path.join(REPO, "crates/glaredb_core/src/execution/operators/catalog/create_table.rs")).read()
        m = re.search(r"DataTable::new\(\s*[^,]+,\s*(\d+),\s*DEFAULT_BATCH_SIZE", s)
        s2 = open(os.path.join(REPO, "crates/glaredb_core/src/execution/operators/catalog/create_table_as.rs")).read()
        m2 = re.search(r"DataTable::new\(\s*[^,]+,\s*(\d+),\s*DEFAULT_BATCH_SIZE", s2)
        if m and m2 and m.group(1) == m2.group(1):
            out["segment_size"] = int(m.group(1))
        c = open(os.path.join(REPO, "crates/glaredb_core/src/config/session.rs")).read()
        m = re.search(r"DEFAULT_BATCH_SIZE: usize = (\d+)", c)
        out["chunk_capacity"] = int(m.group(1)) if m else None
        m = re.search(r"MAX_PARTITION_COUNT: usize = (\d+)", c)
        out["max_partitions"] = int(m.group(1)) if m else None
        m = re.search(r"MAX_BATCH_SIZE: usize = (\d+)", c)
        out["max_batch_size"] = int(m.group(1)) if m else None
    except OSError:
        pass
    return out


# ---------------------------------------------------------------- error classes
def err_class(msg):
    m = msg or ""
    if "Duplicate entry" in m or "Duplicate schema" in m:
        return "exists"
    if ("Missing schema" in m or "Missing table or view" in m or "Missing entry" in m or "Missing setting" in m
            or "Cannot resolve" in m or "Missing catalog" in m):
        return "notfound"
    if ("Invalid number of inputs" in m or "cannot be less than" in m or "cannot be greater than" in m
            or "Not an integer" in m or "Not a bool" in m or "Int convert error" in m or "Not a string" in m):
        return "invalid"
    return "other"


# ---------------------------------------------------------------- interactive model
class Model:
    def __init__(self, exe):
        self.p = subprocess.Popen([exe, "history"], stdin=subprocess.PIPE, stdout=subprocess.PIPE, text=True, bufsize=1)

    def ask(self, line):
        self.p.stdin.write(line + "\n")
        self.p.stdin.flush()
        out = self.p.stdout.readline()
        if not out:
            raise SystemExit("catalog model driver died on: " + line)
        return out.rstrip("\n")

    def close(self):
        try:
            self.p.stdin.close()
            self.p.wait(timeout=10)
        except Exception:
            self.p.kill()


class Intern:
    def __init__(self):
        self.d, self.r = {}, []

    def id(self, x):
        if x not in self.d:
            self.d[x] = len(self.r) + 1
            self.r.append(x)
        return self.d[x]


# ---------------------------------------------------------------- history generator
def ref_sql(ref):
    s, n = ref
    return NAMES[n] if s is None else "%s.%s" % (SCHEMAS[s], NAMES[n])


def ref_sx(ref):
    s, n = ref
    return "(- %d)" % n if s is None else "(%d %d)" % (s, n)


def rand_ref(rng):
    s = rng.choice([None, None, None, 0, 1, 1, 2])
    return (s, rng.choice([1, 1, 2, 3]))


LAYOUTS = {1: [[("a", "Int32")], [("x", "Int32")]], 2: [[("a", "Int32"), ("b", "Utf8")], [("k", "Int32"), ("v", "Utf8")]]}
SQLT = {"Int32": "int", "Utf8": "text"}


def rand_rows(rng, arity, nmax=4):
    n = rng.below(nmax + 1)
    rows = []
    for _ in range(n):
        a = "N" if rng.chance(10) else "I%d" % (rng.below(7) - 2)
        if arity == 1:
            rows.append((a,))
        else:
            rows.append((a, "S" + rng.choice(["x", "y", "", "zz"])))   # text literals stay uncast (text -> text has no cast function)
    return rows


def lit(c):
    if c == "N":
        return "null"
    return c[1:] if c[0] == "I" else "'" + c[1:] + "'"


def values_sql(rows, arity, names):
    if not rows:   # an empty source of the right shape
        body = "(values (%s)) v(%s) where false" % (", ".join(["0", "''"][:arity]), ", ".join(names))
        return "select * from " + body
    vals = ", ".join("(" + ", ".join(("cast(%s as int)" % lit(c)) if i == 0 else lit(c) for i, c in enumerate(r)) + ")" for r in rows)
    return "select * from (values %s) v(%s)" % (vals, ", ".join(names))


def failing_sql(arity, names):
    if arity == 1:
        return "select cast(x as int) as %s from (values ('1'), ('boom')) v(x)" % names[0]
    return "select cast(x as int) as %s, y as %s from (values ('1', 'p'), ('boom', 'q')) v(x, y)" % (names[0], names[1])


def gen_history(rng, ci, cols_i, rows_i, nsess, length, allow_fail=True):
    """-> list of dict(u, sql, sx, kind, probe_of, ...)"""
    H = []

    def add(u, sql, sx, kind, **kw):
        H.append(dict(u=u, sql=sql, sx=sx, kind=kind, **kw))

    def probes(u, ref=None):
        add(u, "select * from list_tables()", "(lt)", "lt")
        if ref is not None:
            add(u, "select * from " + ref_sql(ref), "(sel %s)" % ref_sx(ref), "sel")

    for u in range(nsess):
        if rng.chance(60):
            add(u, "create schema s1", "(cs 1 0)", "cs")
    for _ in range(length):
        u = rng.below(nsess)
        k = rng.below(100)
        if k < 6:
            s = rng.choice([1, 2])
            ine = rng.chance(40)
            add(u, "create schema %s%s" % ("if not exists " if ine else "", SCHEMAS[s]), "(cs %d %d)" % (s, ine), "cs")
        elif k < 10:
            s = rng.choice([1, 2, 2, 0]) if rng.chance(15) else rng.choice([1, 2])
            ie, ca = rng.chance(40), rng.chance(10)
            add(u, "drop schema %s%s%s" % ("if exists " if ie else "", SCHEMAS[s], " cascade" if ca else ""),
                "(ds %d %d %d)" % (s, ie, ca), "ds")
            add(u, "select * from list_schemas()", "(ls)", "ls")
        elif k < 24:
            ref = rand_ref(rng)
            arity = rng.choice([1, 1, 2])
            lay = rng.choice(LAYOUTS[arity])
            oc = rng.choice(["e", "e", "i", "r"])
            sql = "create %stemp table %s%s (%s)" % ("or replace " if oc == "r" else "", "if not exists " if oc == "i" else "",
                                                     ref_sql(ref), ", ".join("%s %s" % (n, SQLT[t]) for n, t in lay))
            add(u, sql, "(ct %s (%s) %s)" % (ref_sx(ref), " ".join(str(cols_i.id(c)) for c in lay), oc), "ct")
        elif k < 30:
            ref, tgt = rand_ref(rng), rand_ref(rng)
            orr = rng.chance(20)
            add(u, "create %stemp view %s as select * from %s" % ("or replace " if orr else "", ref_sql(ref), ref_sql(tgt)),
                "(cv %s %s %d)" % (ref_sx(ref), ref_sx(tgt), orr), "cv")
            add(u, "select * from list_views()", "(lv)", "lv")
        elif k < 38:
            ref = rand_ref(rng)
            ie, ca = rng.chance(40), rng.chance(8)
            add(u, "drop table %s%s%s" % ("if exists " if ie else "", ref_sql(ref), " cascade" if ca else ""),
                "(dt %s %d %d)" % (ref_sx(ref), ie, ca), "dt")
        elif k < 58:
            ref = rand_ref(rng)
            arity = rng.choice([1, 1, 2])
            lay = LAYOUTS[arity][0]
            if allow_fail and rng.chance(12):
                add(u, "insert into %s %s" % (ref_sql(ref), failing_sql(arity, [n for n, _ in lay])),
                    "(ins %s (rows (%s) (%s) 1))" % (ref_sx(ref), " ".join(str(cols_i.id(c)) for c in lay), str(rows_i.id(("I1",) if arity == 1 else ("I1", "Sp")))),
                    "ins", fails=True, target=ref)
                probes(u, ref)
            else:
                rows = rand_rows(rng, arity)
                if not rows:
                    rows = [("I1",) if arity == 1 else ("I1", "Sx")]
                add(u, "insert into %s %s" % (ref_sql(ref), values_sql(rows, arity, [n for n, _ in lay])),
                    "(ins %s (rows (%s) (%s) 0))" % (ref_sx(ref), " ".join(str(cols_i.id(c)) for c in lay), " ".join(str(rows_i.id(r)) for r in rows)),
                    "ins")
        elif k < 66:
            ref, src = rand_ref(rng), rand_ref(rng)
            if rng.chance(35):
                src = ref
            add(u, "insert into %s select * from %s" % (ref_sql(ref), ref_sql(src)), "(ins %s (ref %s))" % (ref_sx(ref), ref_sx(src)), "insref", target=ref)
            add(u, "select * from " + ref_sql(ref), "(sel %s)" % ref_sx(ref), "sel")
        elif k < 78:
            ref = rand_ref(rng)
            oc = rng.choice(["e", "e", "i", "r"])
            head = "create %stemp table %s%s as " % ("or replace " if oc == "r" else "", "if not exists " if oc == "i" else "", ref_sql(ref))
            m = rng.below(10)
            if m < 2:
                src = rand_ref(rng)
                add(u, head + "select * from " + ref_sql(src), "(ctas %s %s (ref %s))" % (ref_sx(ref), oc, ref_sx(src)), "ctasref")
            elif m < 4 and oc != "i" and allow_fail:
                arity = rng.choice([1, 2])
                lay = LAYOUTS[arity][0]
                add(u, head + failing_sql(arity, [n for n, _ in lay]),
                    "(ctas %s %s (rows (%s) (%s) 1))" % (ref_sx(ref), oc, " ".join(str(cols_i.id(c)) for c in lay), str(rows_i.id(("I1",) if arity == 1 else ("I1", "Sp")))),
                    "ctas", fails=True, target=ref)
                probes(u, ref)
            else:
                arity = rng.choice([1, 2])
                lay = rng.choice(LAYOUTS[arity])
                rows = rand_rows(rng, arity)
                add(u, head + values_sql(rows, arity, [n for n, _ in lay]),
                    "(ctas %s %s (rows (%s) (%s) 0))" % (ref_sx(ref), oc, " ".join(str(cols_i.id(c)) for c in lay), " ".join(str(rows_i.id(r)) for r in rows)),
                    "ctas")
        elif k < 86:
            m = rng.below(10)
            if m < 4:
                v = rng.choice([1, 2, 3, 4, 8, 8, 64, 0, 513, -1])
                add(u, "set partitions to %d" % v, "(set p (i %d))" % v, "set")
                add(u, "show partitions", "(show p)", "show")
            elif m < 6:
                v = rng.choice([1, 2, 7, 100, 2048, 8192, 0, 8193])
                add(u, "set batch_size to %d" % v, "(set b (i %d))" % v, "set")
                add(u, "show batch_size", "(show b)", "show")
            elif m < 7:
                b = rng.below(2)
                add(u, "set enable_optimizer to %s" % ("true" if b else "false"), "(set o (b %d))" % b, "set")
                add(u, "show enable_optimizer", "(show o)", "show")
            elif m < 8:
                what = rng.below(4)
                if what == 0:
                    add(u, "set partitions to 'x'", "(set p (t))", "set")
                elif what == 1:
                    add(u, "set enable_optimizer to 3", "(set o (i 3))", "set")
                elif what == 2:
                    add(u, "set nosuch to 1", "(set u (i 1))", "set")
                else:
                    add(u, "show nosuch", "(show u)", "show")
            elif m < 9:
                v = rng.choice(["p", "b", "o", "u"])
                add(u, "reset %s" % {"p": "partitions", "b": "batch_size", "o": "enable_optimizer", "u": "nosuch"}[v], "(reset %s)" % v, "reset")
                add(u, "show partitions", "(show p)", "show")
            else:
                add(u, "reset all", "(resetall)", "reset")
                add(u, "show batch_size", "(show b)", "show")
        elif k < 94:
            ref = rand_ref(rng)
            add(u, "select * from " + ref_sql(ref), "(sel %s)" % ref_sx(ref), "sel")
        else:
            probes(u)
            if rng.chance(50):
                add(u, "select * from list_views()", "(lv)", "lv")
    # closing probes: every session sees exactly its own objects
    for u in range(nsess):
        add(u, "select * from list_tables()", "(lt)", "lt")
        add(u, "select * from list_views()", "(lv)", "lv")
        add(u, "select * from list_schemas()", "(ls)", "ls")
        add(u, "show partitions", "(show p)", "show")
        for s in (None, 1, 2):
            for n in (1, 2, 3):
                add(u, "select * from " + ref_sql((s, n)), "(sel %s)" % ref_sx((s, n)), "sel")
    return H


INV_S = {v: k for k, v in SCHEMAS.items()}
INV_N = {v: k for k, v in NAMES.items()}


def canon_engine(h, r, cols_i, rows_i):
    """engine result of statement h -> canonical outcome comparable with the model's line"""
    if "panic" in r or "hang" in r:
        return ("crash", json.dumps(r)[:200])
    if not r.get("ok"):
        return ("err", err_class(r.get("err", "")))
    kind = h["kind"]
    rows = r.get("rows", [])
    if kind in ("lt", "lv"):
        names = sorted((INV_S.get(x[1][1:], -1), INV_N.get(x[2][1:], -1)) for x in rows if x[0] == "Stemp")
        return ("names", names)
    if kind == "ls":
        return ("schemas", sorted(INV_S.get(x[1][1:], -1) for x in rows if x[0] == "Stemp"))
    if kind == "show":
        c = rows[0][0]
        return ("val", "b " + c[1:] if c[0] == "B" else "i " + c[1:])
    if kind == "sel":
        cols = [cols_i.id((n, t)) for n, t in r.get("schema", [])]
        return ("rows", cols, sorted(rows_i.id(tuple(x)) for x in rows))
    if kind in ("ins", "insref", "ctas", "ctasref"):
        if len(rows) == 1 and len(rows[0]) == 1 and rows[0][0].startswith("I"):
            return ("count", int(rows[0][0][1:]))
        return ("weird", json.dumps(rows)[:100])
    return ("none",)


def canon_model(line):
    """'F0 S0 ok rows 1,2 | 3 4' -> (flags, canonical outcome)"""
    f, s, rest = line.split(" ", 2)
    flags = {"fails": f == "F1", "self": s == "S1"}
    t = rest.split()
    if t[0] == "err":
        return flags, ("err", t[1])
    if t[1] == "none":
        return flags, ("none",)
    if t[1] == "count":
        return flags, ("count", int(t[2]))
    if t[1] == "rows":
        body = rest[len("ok rows "):]
        c, _, rws = body.partition(" | ")
        return flags, ("rows", [int(x) for x in c.split(",") if x], sorted(int(x) for x in rws.split()))
    if t[1] == "names":
        return flags, ("names", sorted(tuple(int(y) for y in x.split(".")) for x in t[2:]))
    if t[1] == "schemas":
        return flags, ("schemas", sorted(int(x) for x in t[2:]))
    if t[1] == "val":
        return flags, ("val", " ".join(t[2:]))
    return flags, ("?", rest)


NO_ORACLE = "(o (none) (extra))"


def stage_histories(ctx, rng, gcat, gmodel):
    tier = ctx["tier"]
    ncases = 120 if tier == "quick" else 1500
    cases, metas = [], []
    for i in range(ncases):
        cols_i, rows_i = Intern(), Intern()
        nsess = rng.choice([1, 2, 2, 3])
        parts = rng.choice([1, 2, 3, 4, 8])
        # statements that fail during execution only under the deterministic scheduler, which runs the failed
        # query's remaining tasks to completion before the next statement; on the threaded executor they keep running
        # concurrently with the session's next statements (what they leave behind appears at an arbitrary later time)
        H = gen_history(rng, i, cols_i, rows_i, nsess, 14 + rng.below(22), allow_fail=(i % 3 != 2))
        if i % 3 == 2:
            case = {"id": "h%d" % i, "mode": "threaded", "threads": rng.choice([1, 2, 4]), "sessions": nsess, "timeout_s": 120}
            # default partitions of the threaded executor = its thread count
            dparts = case["threads"]
        else:
            case = {"id": "h%d" % i, "mode": "det", "partitions": parts, "sessions": nsess, "timeout_s": 120,
                    "sched": {"kind": rng.choice(["fifo", "lifo", "random", "starve_last", "starve_first"]), "seed": rng.below(1 << 30),
                              "spurious": rng.choice([0, 0, 10])}}
            dparts = parts
        case["stmts"] = [[h["u"], h["sql"]] for h in H]
        cases.append(case)
        metas.append((H, cols_i, rows_i, nsess, dparts))
    real = common.run_harness(gcat, [], cases, timeout=1500)
    viol, known, nst, nprobe, distinct, samples = [], {}, 0, 0, set(), []
    model = Model(gmodel)
    try:
        for case, (H, cols_i, rows_i, nsess, dparts), r in zip(cases, metas, real):
            res = r.get("results")
            cfgd = {k: v for k, v in case.items() if k != "stmts"}
            if res is None:
                viol.append({"kind": "engine died or timed out", "config": cfgd, "result": r, "history": case["stmts"]})
                continue
            model.ask("(new %d %d)" % (dparts, nsess))
            for i, h in enumerate(H):
                if i >= len(res):
                    viol.append({"kind": "engine stopped mid-history", "config": cfgd, "last": res[-1] if res else None, "history": case["stmts"][:i + 1]})
                    break
                eng = canon_engine(h, res[i], cols_i, rows_i)
                oracle, used_leak = NO_ORACLE, None
                if h.get("fails") and eng[0] == "err" and i + 2 < len(res):
                    # what did the failed statement leave behind?  (the two probes that follow it)
                    lt = canon_engine(H[i + 1], res[i + 1], cols_i, rows_i)
                    sel = canon_engine(H[i + 2], res[i + 2], cols_i, rows_i)
                    before = canon_model(model.ask("(stmt %d %s (sel %s))" % (h["u"], NO_ORACLE, ref_sx(h["target"]))))[1]
                    if h["kind"] == "ctas" and before[0] == "err" and sel[0] == "rows":
                        used_leak = sel[2]
                        oracle = "(o (leak %s) (extra))" % " ".join(str(x) for x in used_leak)
                    elif h["kind"] == "ins" and before[0] == "rows" and sel[0] == "rows" and len(sel[2]) > len(before[2]):
                        rest = list(sel[2])
                        ok = True
                        for x in before[2]:
                            if x in rest:
                                rest.remove(x)
                            else:
                                ok = False
                        if ok:
                            used_leak = rest
                            oracle = "(o (leak %s) (extra))" % " ".join(str(x) for x in rest)
                used_extra = None
                if h["kind"] == "insref" and eng[0] == "count" and i + 1 < len(res):
                    # a self-reading INSERT may have read rows it appended itself (the probe that follows shows them)
                    before = canon_model(model.ask("(stmt %d %s (sel %s))" % (h["u"], NO_ORACLE, ref_sx(h["target"]))))[1]
                    after = canon_engine(H[i + 1], res[i + 1], cols_i, rows_i)
                    if before[0] == "rows" and after[0] == "rows" and before[2] and eng[1] > len(before[2]) \
                            and len(after[2]) == len(before[2]) + eng[1]:
                        rest, ok = list(after[2]), True
                        for x in before[2] + before[2]:
                            if x in rest:
                                rest.remove(x)
                            else:
                                ok = False
                        if ok and rest and all(x in before[2] for x in rest):
                            used_extra = rest
                if used_extra is not None:
                    viol.append({"kind": "INSERT .. SELECT from its own target inserted more than the snapshot "
                                         "(the defect repaired by 2e9960218 is back: theorem C14_insert_select_snapshot no longer describes the code)",
                                 "config": cfgd, "session": h["u"], "statement": h["sql"], "rows_inserted": eng[1],
                                 "table_rows_before": eng[1] - len(used_extra), "history": case["stmts"][:i + 2]})
                    break
                flags, mod = canon_model(model.ask("(stmt %d %s %s)" % (h["u"], oracle, h["sx"])))
                nst += 1
                if h["kind"] in ("sel", "lt", "lv", "ls", "show"):
                    nprobe += 1
                distinct.add((h["kind"], json.dumps(mod)))
                if used_leak is not None and mod == ("err", "other"):
                    kid = "failed-ctas-leaves-table" if h["kind"] == "ctas" else "failed-insert-keeps-flushed-segments"
                    if h["kind"] == "ins" and len(used_leak) < 30721:
                        viol.append({"kind": "a failing INSERT left rows behind without a segment flush", "config": cfgd,
                                     "history": case["stmts"][:i + 3], "left": len(used_leak)})
                        break
                    known.setdefault(kid, []).append({"config": cfgd, "history": case["stmts"][:i + 3], "left_rows": len(used_leak)})
                if h.get("fails") and eng[0] == "err" and mod[0] == "err":
                    # which error is raised first (the source's run-time failure or the catalog conflict) depends on
                    # which partition reaches the operator first; both leave the state to the oracle above
                    eng = mod
                if eng != mod:
                    viol.append({"kind": "history outcome differs from the sequential specification (%s)" % h["kind"],
                                 "config": cfgd, "session": h["u"], "statement": h["sql"], "engine": eng if len(str(eng)) < 400 else str(eng)[:400],
                                 "specification": mod if len(str(mod)) < 400 else str(mod)[:400],
                                 "engine_raw": {k: v for k, v in res[i].items() if k in ("err", "rows", "schema", "panic", "hang")},
                                 "history": case["stmts"][:i + 1]})
                    break
            if len(samples) < 3 and res:
                j = min(len(H) - 1, 7)
                samples.append({"config": cfgd, "statement": H[j]["sql"], "engine": str(res[j].get("rows", res[j].get("err")))[:120]})
    finally:
        model.close()
    return {"cases": len(cases), "statements": nst, "probes": nprobe, "distinct": len(distinct), "violations": viol, "known": known,
            "samples": samples}


# ---------------------------------------------------------------- R: the refutation witnesses at real scale
def stage_replay(ctx, rng, gcat, gmodel, consts):
    tier = ctx["tier"]
    segsz, cap = consts.get("segment_size"), consts.get("chunk_capacity")
    viol, known, n = [], {}, 0
    if not segsz or not cap:
        return {"violations": [{"kind": "segment size / chunk capacity not found in the source", "constants": consts}], "known": {}, "n": 0, "samples": []}
    seg_rows = segsz * cap
    # (rows in the table, partitions, batch_size of the inserting statement).  Before 2e9960218 the first group
    # inserted more than the snapshot under the ascending partition order and the second group never terminated.
    combos = [(200000, 8, cap), (3 * seg_rows + 1000, 8, cap), (seg_rows - 1, 2, cap), (2 * seg_rows, 3, cap), (5000, 4, 100),
              (3 * seg_rows + 1000, 4, cap), (seg_rows, 1, cap)]
    if tier != "quick":
        combos += [(rng.below(5 * seg_rows) + 1, rng.choice([1, 2, 3, 5, 8, 16]), rng.choice([cap, cap, 512, 100])) for _ in range(16)]
    cases, meta = [], []
    for nrows, p, bs in combos:
        pols = [("fifo", list(range(p - 1, -1, -1))), ("lifo", list(range(p)))]
        if (nrows, p, bs) == combos[0] or tier != "quick":
            pols += [("starve_last", list(range(p - 1, -1, -1))), ("starve_first", list(range(p)))]
        if p == 1:
            pols = pols[:1]
        for pol, order in pols:
            # pipeline.rs `create_partition_pipelines` pops the partition states: task i of the pipeline owns scan
            # state p-1-i; a task runs until it parks, i.e. one partition runs to completion at a time
            stmts = [[0, "set partitions to 1"],
                     [0, "create temp table t as select a from generate_series(1, %d) g(a)" % nrows],
                     [0, "set partitions to %d" % p], [0, "set batch_size to %d" % bs], [0, "insert into t select a from t"],
                     [0, "select count(*), count(distinct a) from t"]]
            cases.append({"id": "si-%d-%d-%d-%s" % (nrows, p, bs, pol), "mode": "det", "partitions": 1, "sessions": 1, "timeout_s": 25,
                          "sched": {"kind": pol, "seed": 1}, "stmts": stmts, "brief": True})
            meta.append((nrows, p, bs, pol, order))
    real = common.run_harness(gcat, [], cases, timeout=1500)
    lines = ["(selfinsert %d %d %d %d %d (%s))" % (segsz, cap, bs, nrows, p, " ".join(str(x) for x in order)) for nrows, p, bs, pol, order in meta]
    mout = run_model_big(gmodel, "storage", lines)
    samples = []
    for case, (nrows, p, bs, pol, order), r, m in zip(cases, meta, real, mout):
        n += 1
        res = r.get("results") or []
        stm = [x[1] for x in case["stmts"]]
        sched = {"scheduler": "deterministic, policy %s" % pol, "partition_order": order, "partitions": p, "batch_size": bs}
        mm = re.match(r"total (\d+) count (\d+) complete true", m)
        if not mm or (int(mm.group(1)), int(mm.group(2))) != (2 * nrows, nrows):
            viol.append({"kind": "the Storage model (table scan with segment limit) does not predict the snapshot", "case": case["id"], "model": m})
            continue
        if len(res) < 6 or not res[4].get("ok") or not res[5].get("ok"):
            def old_model():
                return run_model_big(gmodel, "storage", ["(selfinsert_old %d %d %d %d %d (%s) 600)" % (segsz, cap, bs, nrows, p, " ".join(str(x) for x in order))])[0]
            what = "self-reading INSERT did not terminate within 25 s" if "timeout" in r or len(res) < 5 else "self-insert replay did not run"
            viol.append({"kind": what, "case": case["id"], "schedule": sched, "stmts": stm, "engine": str(r)[:300],
                         "model_now": m, "model_before_2e9960218": old_model()})
            continue
        ins = int(res[4]["rows"][0][0][1:])
        total, dist = int(res[5]["rows"][0][0][1:]), int(res[5]["rows"][0][1][1:])
        if (ins, total, dist) != (nrows, 2 * nrows, nrows):
            old = run_model_big(gmodel, "storage", ["(selfinsert_old %d %d %d %d %d (%s) 600)" % (segsz, cap, bs, nrows, p, " ".join(str(x) for x in order))])[0]
            viol.append({"kind": "INSERT .. SELECT from its own target did not insert the snapshot under this schedule"
                                 + (" (equals the prediction of the model before 2e9960218: the repaired defect is back)" if old.startswith("total %d count %d " % (total, ins)) else ""),
                         "case": case["id"], "schedule": sched, "table_rows": nrows, "rows_inserted": ins, "total": total, "distinct": dist,
                         "model_now": m, "model_before_2e9960218": old, "stmts": stm})
        if len(samples) < 2:
            samples.append({"case": case["id"], "engine_rows_inserted": ins, "model": m})
    # threaded executor: the same statement, whatever the OS schedule
    tcases = [{"id": "sit-%d-%d" % (t, nr), "mode": "threaded", "threads": t, "sessions": 1, "timeout_s": 60, "brief": True,
               "stmts": [[0, "set partitions to 1"], [0, "create temp table t as select a from generate_series(1, %d) g(a)" % nr],
                         [0, "set partitions to %d" % pp], [0, "insert into t select a from t"], [0, "select count(*), count(distinct a) from t"]]}
              for t, nr, pp in ((1, 200000, 8), (4, 200000, 8), (4, 300000, 4))]
    for case, r in zip(tcases, common.run_harness(gcat, [], tcases, timeout=900)):
        n += 1
        res = r.get("results") or []
        stm = [x[1] for x in case["stmts"]]
        nr = int(re.search(r"generate_series\(1, (\d+)\)", stm[1]).group(1))
        if len(res) < 5 or not res[3].get("ok") or not res[4].get("ok"):
            viol.append({"kind": "self-reading INSERT (threaded executor) did not finish", "case": case["id"], "threads": case["threads"], "stmts": stm, "engine": str(r)[:300]})
            continue
        ins, total, dist = int(res[3]["rows"][0][0][1:]), int(res[4]["rows"][0][0][1:]), int(res[4]["rows"][0][1][1:])
        if (ins, total, dist) != (nr, 2 * nr, nr):
            viol.append({"kind": "INSERT .. SELECT from its own target did not insert the snapshot (threaded executor)", "case": case["id"],
                         "threads": case["threads"], "rows_inserted": ins, "total": total, "distinct": dist, "stmts": stm})
    # failing INSERT / CTAS after k full batches
    fcases, fmeta = [], []
    for boom, what in [(90000, "ins"), (90000, "ctas"), (1000, "ins"), (1000, "ctas"), (seg_rows + 5, "ins"), (seg_rows - 5, "ins")]:
        total_rows = boom + 10000
        q = "select cast(case when a = %d then 'boom' else cast(a as text) end as int) as a from generate_series(1, %d) g(a)" % (boom, total_rows)
        if what == "ins":
            stmts = [[0, "set partitions to 1"], [0, "create temp table t (a int)"], [0, "insert into t " + q], [0, "select * from list_tables()"], [0, "select count(*) from t"]]
        else:
            stmts = [[0, "set partitions to 1"], [0, "select 1"], [0, "create temp table t as " + q], [0, "select * from list_tables()"], [0, "select count(*) from t"]]
        fcases.append({"id": "fi-%s-%d" % (what, boom), "mode": "det", "partitions": 1, "sessions": 1, "timeout_s": 300, "sched": {"kind": "fifo", "seed": 1},
                       "stmts": stmts, "brief": True})
        fmeta.append((boom, what, (boom - 1) // cap))
    freal = common.run_harness(gcat, [], fcases, timeout=900)
    fm = run_model_big(gmodel, "storage", ["(failinsert %d %d %d)" % (segsz, cap, nb) for _, _, nb in fmeta])
    for case, (boom, what, nb), r, m in zip(fcases, fmeta, freal, fm):
        n += 1
        res = r.get("results") or []
        want = int(m.split()[1]) if m.startswith("visible") else None
        if len(res) < 5 or res[2].get("ok") or "err" not in res[2] or want is None:
            viol.append({"kind": "failing-statement replay did not run as planned", "case": case["id"], "engine": [x.get("err", x.get("rows")) for x in res][:5], "model": m})
            continue
        listed = any(x[2] == "St" for x in res[3].get("rows", []))
        left = int(res[4]["rows"][0][0][1:]) if res[4].get("ok") else None
        stm = [s[1] for s in case["stmts"]]
        if what == "ins":
            if left != want:
                viol.append({"kind": "engine and storage model disagree on what a failing INSERT leaves", "case": case["id"], "engine_rows_left": left, "model": m, "stmts": stm})
            elif left:
                if nb >= segsz:
                    known.setdefault("failed-insert-keeps-flushed-segments", []).append({"stmts": stm, "rows_left": left, "error": res[2]["err"]})
                else:
                    viol.append({"kind": "a failing INSERT left rows behind without a segment flush", "case": case["id"], "rows_left": left, "stmts": stm})
        else:
            if listed:
                if left != want:
                    viol.append({"kind": "engine and storage model disagree on what a failing CTAS leaves", "case": case["id"], "engine_rows_left": left, "model": m, "stmts": stm})
                else:
                    known.setdefault("failed-ctas-leaves-table", []).append({"stmts": stm, "rows_left": left, "error": res[2]["err"]})
                    if left:
                        known.setdefault("failed-insert-keeps-flushed-segments", []).append({"stmts": stm, "rows_left": left, "error": res[2]["err"]})
    return {"violations": viol, "known": known, "n": n, "samples": samples}



# ---------------------------------------------------------------- B: bulk appends, full content
BULK_BS = [1, 100, 2048, 2049, 4096, 4097, 8192]
BULK_SRC = ["gs", "tbl", "ctas", "join"]


def rle(ids):
    """sorted multiset of ints -> 'lo-hi*mult,...' (the model driver's coding)"""
    ids = sorted(ids)
    groups = []
    for x in ids:
        if groups and groups[-1][0] == x:
            groups[-1][1] += 1
        else:
            groups.append([x, 1])
    runs = []
    for x, m in groups:
        if runs and runs[-1][1] + 1 == x and runs[-1][2] == m:
            runs[-1][1] = x
        else:
            runs.append([x, x, m])
    return ",".join("%d-%d*%d" % (lo, hi, m) for lo, hi, m in runs)


def unrle(text):
    out = []
    for part in text.split(","):
        if not part:
            continue
        rng_, m = part.split("*")
        lo, hi = rng_.lstrip("-").split("-") if not rng_.startswith("-") else (None, None)
        for x in range(int(lo), int(hi) + 1):
            out += [x] * int(m)
    return out


def stage_bulk(ctx, rng, gcat, gmodel, consts):
    """INSERT / CTAS of many rows under batch sizes around and above the chunk capacity: the table's full content
    (aggregates and the exact sorted rows) against the extracted chunk-level model (Storage.bulk)."""
    tier = ctx["tier"]
    segsz, cap = consts.get("segment_size"), consts.get("chunk_capacity")
    if not segsz or not cap:
        return {"violations": [], "n": 0, "rows": 0, "samples": []}
    ks = [0, 2 * cap, cap + 1, cap - 1]          # k mod chunk capacity in {0, 0, 1, cap-1}
    combos = []
    for bi, bs in enumerate(BULK_BS):
        for si, src in enumerate(BULK_SRC):
            if tier == "quick":
                kk = [ks[(bi + si + ctx["seed"]) % 4]]
            else:
                kk = ks
            for k in kk:
                combos.append((bs, src, 0 if src == "ctas" else k))
    cases, meta = [], []
    for bs, src, k in combos:
        n = (2 * cap + 104) if bs == 1 else (4 * cap + 1808)      # spans >= 3 chunks; one batch of 8192 spans 4
        parts = 1 if (bs + len(src) + k) % 3 else 4
        st = []
        if src in ("tbl", "join"):
            st.append("create temp table src as select a, a * 3 + 1 as b from generate_series(1, %d) g(a)" % n)
        if src == "join":
            st.append("create temp table src2 as select a, a * 3 + 1 as b from generate_series(1, %d) g(a)" % n)
        if src != "ctas":
            st.append("create temp table t (a bigint, b bigint)")
            if k:
                st.append("insert into t select -a, -a * 3 from generate_series(1, %d) g(a)" % k)
        st.append("set partitions to %d" % parts)
        st.append("set batch_size to %d" % bs)
        q = {"gs": "insert into t select a, a * 3 + 1 from generate_series(1, %d) g(a)" % n,
             "tbl": "insert into t select * from src",
             "ctas": "create temp table t as select a, a * 3 + 1 as b from generate_series(1, %d) g(a)" % n,
             "join": "insert into t select l.a, r.b from src l inner join src2 r on l.a = r.a"}[src]
        st.append(q)
        st.append("reset batch_size")
        st.append("select count(*), sum(a), min(a), max(a), count(distinct a), sum(b) from t")
        st.append("select a, b from t order by a")
        cases.append({"id": "bulk-%d-%s-%d" % (bs, src, k), "mode": "det", "partitions": 1, "sessions": 1, "timeout_s": 120,
                      "sched": {"kind": rng.choice(["fifo", "lifo", "random"]), "seed": rng.below(1 << 20)}, "stmts": [[0, x] for x in st]})
        meta.append((bs, src, k, n, parts, q))
    real = common.run_harness(gcat, [], cases, timeout=1500)
    mout = run_model_big(gmodel, "storage", ["(bulk t %d %d %d %d %d)" % (segsz, cap, k, n, bs) for bs, src, k, n, parts, q in meta])
    viol, nrows, samples = [], 0, []
    for case, (bs, src, k, n, parts, q), r, m in zip(cases, meta, real, mout):
        stm = [x[1] for x in case["stmts"]]
        cfgd = {"batch_size": bs, "source": src, "rows_before": k, "rows_appended": n, "partitions": parts, "sched": case["sched"]}
        res = r.get("results") or []
        mm = re.match(r"count (\d+) rows (.*)$", m)
        if len(res) < len(stm) or any(not x.get("ok") for x in res) or not mm:
            bad = [(s_, x.get("err", x.get("panic", x.get("hang")))) for s_, x in zip(stm, res) if not x.get("ok")][:1]
            viol.append({"kind": "bulk append did not run", "config": cfgd, "first_error": str(bad)[:300], "model": m[:100], "stmts": stm})
            continue
        ids = []
        bad_rows = []
        for a, b in res[-1]["rows"]:
            av, bv = (int(a[1:]) if a != "N" else None), (int(b[1:]) if b != "N" else None)
            if av is not None and av < 0 and bv == 3 * av and -av <= k:
                ids.append(-av)
            elif av is not None and av > 0 and bv == 3 * av + 1 and av <= n:
                ids.append(k + av)
            else:
                bad_rows.append([a, b])
        nrows += len(res[-1]["rows"])
        got = rle(ids)
        model_ids = unrle(mm.group(2))
        avals = [(-i if i <= k else i - k) for i in model_ids]
        want_agg = [len(avals), sum(avals), min(avals), max(avals), len(set(avals)), sum((3 * a if a < 0 else 3 * a + 1) for a in avals)]
        agg = [int(c[1:]) if c != "N" else None for c in res[-2]["rows"][0]]
        if bad_rows or got != mm.group(2) or len(ids) != int(mm.group(1)) or agg != want_agg:
            alt = run_model_big(gmodel, "storage", ["(bulk f %d %d %d %d %d)" % (segsz, cap, k, n, bs)])[0]
            viol.append({"kind": "table content after a bulk append differs from the chunk-level model (rows lost / duplicated / altered)"
                                 + (" — equals the model of the `input_offset = copy_count` variant of append_batch" if alt == "count %d rows %s" % (len(ids), got) and not bad_rows else ""),
                         "config": cfgd, "statement": q, "engine_rows_run_length": got[:400], "model_rows_run_length": mm.group(2)[:400],
                         "rows_not_of_the_source": bad_rows[:5], "engine_aggregates": agg, "expected_aggregates": want_agg,
                         "aggregate_columns": ["count", "sum(a)", "min(a)", "max(a)", "count distinct a", "sum(b)"], "stmts": stm[:-1]})
        elif len(samples) < 2:
            samples.append({"config": cfgd, "statement": q, "rows": got[:80], "aggregates": agg})
    return {"violations": viol, "n": len(cases), "rows": nrows, "samples": samples}


def run_model_big(exe, sub, lines, timeout=900):
    """like common.run_model, with the stack limit raised (lists of 10^5 rows, extracted non-tail-recursive functions)"""
    import resource

    def lim():
        try:
            resource.setrlimit(resource.RLIMIT_STACK, (resource.RLIM_INFINITY, resource.RLIM_INFINITY))
        except Exception:
            try:
                soft, hard = resource.getrlimit(resource.RLIMIT_STACK)
                resource.setrlimit(resource.RLIMIT_STACK, (hard, hard))
            except Exception:
                pass
    p = subprocess.run([exe, sub], input="".join(l + "\n" for l in lines), stdout=subprocess.PIPE, stderr=subprocess.PIPE,
                       timeout=timeout, text=True, preexec_fn=lim)
    if p.returncode != 0:
        raise SystemExit("model driver failed: " + p.stderr[-2000:])
    return p.stdout.splitlines()


# ---------------------------------------------------------------- driver
def run(ctx):
    t0 = time.time()
    rng = common.Rng(ctx["seed"])
    out = {"violations": [], "known": [], "assumptions": []}
    consts = source_constants()
    gcat, _ = common.build_harness(bin="gv_catalog")
    pr = common.coq_props(PROPS)
    audit = [a for a in common.audit_sources() if re.search(r"(Catalog|Storage|C14)", a)]
    obligations = pr["declared"]
    bad_assum = common.check_assumptions(pr) if pr["ok"] else []
    proof_broken = (not pr["ok"]) or bool(bad_assum) or bool(audit)
    discharged = 0 if proof_broken else len(obligations)
    gmodel = common.build_ocaml("catalog")
    t1 = time.time()
    rp = stage_replay(ctx, rng, gcat, gmodel, consts)
    t2 = time.time()
    hs = stage_histories(ctx, rng, gcat, gmodel)
    t3 = time.time()
    bk = stage_bulk(ctx, rng, gcat, gmodel, consts)
    t4 = time.time()
    for v in rp["violations"] + hs["violations"] + bk["violations"]:
        out["violations"].append({"what": v.get("kind", "violation"), "replay": v, "no_input": False})
    if proof_broken:
        out["violations"].append({"what": "theorem(s) in %s no longer check" % PROPS,
                                  "replay": {"failed_at": pr.get("failed_at"), "log_tail": pr["log"][-1500:] if not pr["ok"] else "",
                                             "assumption_problems": bad_assum, "audit": audit},
                                  "no_input": not out["violations"]})
    listed = {k["id"]: k for k in common.known_findings()["known"] if k["property"] == PID}
    merged = {}
    for st in (rp, hs):
        for k, v in st["known"].items():
            merged.setdefault(k, []).extend(v)
    for k, v in sorted(merged.items()):
        if k in listed:
            out["known"].append("%s: %s (%d case(s), e.g. %s)" % (k, listed[k]["what"], len(v), json.dumps(v[0], default=str)[:300]))
        else:
            out["violations"].append({"what": "finding class %s is not listed in findings/C14.json" % k, "replay": {"cases": v[:3]}, "no_input": False})
    out["coverage"] = {
        "obligations": len(obligations), "discharged": discharged,
        "checker_cmd": "cd coq && make props/C14.vo (Print Assumptions parsed; Admitted/Axiom audit over the C14 files)",
        "trusted_base": ["Coq 8.16.1 kernel (vm_compute in the closed witness lemmas)",
                         "extraction (ExtrOcamlBasic) + ocaml/catalog.ml parsing/printing",
                         "harness/src/bin/gv_catalog.rs (Engine::new_session per session; DetRuntime / threaded executor)",
                         "vlib/c14.py: statement generator (SQL text and model statement built side by side), error-message -> class map, interning of rows and column descriptors",
                         "model/Storage.v atomic steps = the lock regions of concurrent.rs; scc::HashIndex / HashMap operations assumed linearizable",
                         "source scanner for segment size (16) and chunk capacity (2048)"],
        "theorems": obligations,
        "evaluations": hs["statements"] + rp["n"] + bk["n"],
        "distinct_nontrivial": hs["distinct"],
        "rule": "K: every statement of every generated history (1..3 sessions of one engine, partitions 1..8, deterministic scheduler with 5 policies or the "
                "threaded executor) = one evaluation: outcome class and result (row bag, column names/types, object lists, setting value) equal to the extracted "
                "Catalog.step_impl; distinct = distinct (statement kind, model outcome). R: each replay case = one evaluation: row counts of the engine under a "
                "named schedule equal to the extracted Storage model (table scan with the captured segment limit) run at the source's constants; "
                "a deviation is reported with the schedule and with the prediction of Storage.Old.self_insert. "
                "B: each bulk case (batch_size in {1,100,2048,2049,4096,4097,8192} x source in {generate_series, table, CTAS, join} x rows already in the table "
                "with k mod 2048 in {0,1,2047}) = one evaluation: count, sum, min, max, count distinct, sum of the second column and the exact sorted rows "
                "equal to the extracted chunk-level model Storage.bulk",
        "samples": hs["samples"][:2] + rp["samples"][:2] + bk["samples"][:1],
        "bulk_cases": bk["n"], "bulk_rows_compared": bk["rows"],
        "histories": hs["cases"], "history_statements": hs["statements"], "history_probes": hs["probes"], "replay_cases": rp["n"],
        "source_constants": consts, "exhaustive": False,
        "stage_seconds": {"build+proofs": round(t1 - t0, 1), "replay": round(t2 - t1, 1), "histories": round(t3 - t2, 1), "bulk": round(t4 - t3, 1)},
    }
    out["assumptions"] = ["rows are compared as bags of rendered cells; tables in the histories have the column types int / (int, text) only",
                          "views in the histories are `SELECT * FROM <ref>` (identity over a table or another view)",
                          "statements of different sessions are issued one after another (a session's statement completes before the next starts); "
                          "concurrency is between the partitions of one statement",
                          "the threaded executor's interleavings are sampled, the deterministic scheduler's are chosen by policy and seed; the quantifier over "
                          "interleavings is carried by the Storage theorems"]
    out["wall"] = time.time() - t0
    return out
