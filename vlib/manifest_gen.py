"""Regenerates MANIFEST.json from the per-property entries below (lead-owned)."""
import json, os
V = os.path.dirname(os.path.dirname(os.path.abspath(__file__)))

HOOK_COMMITS = ["4ac80b46a", "2757ad450", "cc54a897a", "c2179696b"]

CHECKS = {}

def entry(pid, text, note, technique, ref=None):
    CHECKS[pid] = {
        "property_id": pid, "quick_cmd": "./check %s --tier quick" % pid, "thorough_cmd": "./check %s --tier thorough" % pid,
        "evidence_file": "evidence/%s.json" % pid, "replay_cmd_template": "./check %s --replay {path}" % pid, "engine": "coq",
        "level_claimed": {"category": "proof", "text": text, "design_ref": ref or ("DESIGN.md §4 " + pid)},
        "level_note": note, "technique": technique}

entry("C08",
      "Coq theorems: the sort-key byte order equals the declared order for every value of every integer width, every f16/f32/f64 bit pattern (shift constants read from the current source), booleans, NULL placement, DESC inversion, any number of fixed-width keys; string prefixes never misorder; insertion sort / any binary merge tree / the limit-hinted merge yield the sorted permutation resp. its first k rows; the ORDER BY/LIMIT/OFFSET answer checker is sound (an accepted answer is the requested slice of some correctly sorted arrangement). Tied to the code by comparing real key bytes with the extracted model (exhaustive for 16-bit types) and by judging real ORDER BY/LIMIT/OFFSET results with the extracted checker.",
      "Trusted: Coq kernel, source scanner for the key constants, extraction+OCaml driver, Rust harness and hook; sorted_block.rs/binary_merge.rs pointer code modelled at algorithm level, tied by end-to-end ORDER BY checks only.",
      "Coq proof over hand-written model + constants regenerated from source + extracted-model correspondence")
entry("C13",
      "Coq theorems over a faithful model of the cast code: integer->integer is value-or-error for all 100 type pairs; float->integer is truncation-or-error for every bit pattern; integer/float->DECIMAL results fit the precision; decimal downscale rounds half away from zero; parse(format v)=v for every integer of every width and for booleans; day<->(y,m,d) for all integers; the precision, garbage-rejection and interval round-trip properties are REFUTED by closed witnesses that are replayed on the engine (known findings). Model tied to the code by comparing ~770k real parser/formatter calls and ~370k SQL cast outcomes (every value of 8-bit sources, every value of 16-bit sources for narrow targets) with the extracted model.",
      "Partial: decimal and date text round trips proved only for closed value sets (correspondence for the rest); decimal->float, float<->text, interval parsing of fractional quantities not modelled (Rust std / oracle). Trusted: Coq kernel, extraction + ocaml/cast.ml, gv_cast.rs and gverif sql, chrono modelled by hand and tied by correspondence only; panics observed with overflow checks on.",
      "Coq proof over hand-written model + extracted-model correspondence + refutation witnesses replayed via SQL")
entry("C20",
      "Coq theorems over a faithful model of string/*.rs, like.rs and expr_rewrite/like.rs: UTF-8 round trip and validity; for ALL patterns and strings the regex the engine builds accepts exactly the declarative LIKE language and the optimizer's rewrite of constant patterns accepts exactly the same strings (patterns with a backslash are proved to be left unrewritten); left/right (every count), lpad/rpad (every count, every pad incl. empty), strpos, substring (every i64 from, every count >= 0; terminates after consuming at most length(s) characters) equal their PostgreSQL definitions and return valid UTF-8; the remaining deviation substring(count<0) = '' is stated as a theorem. Tied to the code by running every modelled function and LIKE (all patterns x strings of length <=3 over 7 symbols incl. backslash, newline and a 3-byte character; optimizer on/off; pattern column) through SQL against the extracted transcription and definition.",
      "Trusted: Coq kernel; hand transcription (checked only by the SQL correspondence); std::str and regex-crate primitives taken at documented semantics; strings are code-point lists with byte offsets via cp_width; replace/translate/trim/repeat/concat/split_part have no theorems (correspondence only); regexp_*, case mapping, md5 not modelled; 5 known-finding classes in findings/C20.json.",
      "Coq proof over hand-written model + extracted-model correspondence through SQL (exhaustive small LIKE domain + seeded random Unicode inputs)")

PLANNED = "check not built yet in this revision (planned, see DESIGN.md §4/§7)"

def main(extra=()):
    props = [json.loads(l) for l in open(os.path.join(V, "properties.jsonl"))]
    claimed = sorted(CHECKS)
    m = {"version": 1, "setup_cmd": "./setup",
         "hooks": {"guard": "glaredb_verif",
                   "enable": "RUSTFLAGS=--cfg glaredb_verif (set by /verif/harness/.cargo/config.toml for the harness build only)",
                   "baseline_off_cmd": "cd /repo && cargo test --workspace --no-fail-fast --offline",
                   "source_commits": HOOK_COMMITS, "add_only": True},
         "engines": [
             {"name": "coq", "path": "coq", "serves_properties": claimed, "kind_free_text": "Coq 8.16.1 development: lib/ model/ proofs/ props/ gen/ (tables regenerated from source) extract/"},
             {"name": "gverif", "path": "harness", "serves_properties": claimed, "kind_free_text": "Rust harness linked against /repo crates by path (binaries gverif, gv_*): implementation side of every correspondence check"},
             {"name": "gmodel", "path": "ocaml", "serves_properties": claimed, "kind_free_text": "OCaml drivers around the extracted Coq models (one per topic)"}],
         "checks": [CHECKS[p] for p in claimed],
         "not_applicable": [{"property_id": p["id"], "reason": PLANNED} for p in props if p["id"] not in CHECKS],
         "notes": "See DESIGN.md. Every check = proof stage (Coq theorems over a model; constants regenerated from source) + correspondence stage (extracted model vs implementation) + failing-input search when either breaks. Known findings: KNOWN_FINDINGS.json and findings/<Cnn>.json."}
    json.dump(m, open(os.path.join(V, "MANIFEST.json"), "w"), indent=1)

if __name__ == "__main__":
    main()
