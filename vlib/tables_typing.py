"""Regenerate coq/gen/TablesTyping.v on every run.

The signature tables, the implicit-cast score table and the score constants are dumped by
`gv_typing dump-tables` from the BUILT crates (the registries BUILTIN_SCALAR_FUNCTION_SETS /
BUILTIN_AGGREGATE_FUNCTION_SETS, the function `implicit_cast_score`, NO_CAST_SCORE,
REFINED_LITERAL_SCORE_BONUS, DEFAULT_IMPLICIT_CAST_SCORES).  One constant is not observable that way (the
`total_score += 200` inside best_datatype_for_variadic_any) and is read from the source text.  Scalar
constants are emitted as `option N` so that a constant that cannot be found makes every theorem over it
stop checking instead of keeping an old value."""
import json, os, re, subprocess
from . import common

CAND = os.path.join(common.REPO, "crates/glaredb_core/src/functions/candidate.rs")


def dump(binpath):
    p = subprocess.run([binpath, "dump-tables"], stdout=subprocess.PIPE, stderr=subprocess.PIPE, timeout=120, text=True)
    if p.returncode != 0:
        raise SystemExit("gv_typing dump-tables failed: " + p.stderr[-2000:])
    return json.loads(p.stdout)


def scan_source():
    t = {}
    try:
        src = open(CAND).read()
    except FileNotFoundError:
        src = ""
    m = re.search(r"fn best_datatype_for_variadic_any.*?if input\.datatype\.id == test_type \{[^}]*?total_score \+= (\d+);", src, re.S)
    t["variadic_same_score"] = int(m.group(1)) if m else None
    # set operations: branch column types are compared as FULL data types (`left == right` on DataType values)
    try:
        so = open(os.path.join(common.REPO, "crates/glaredb_core/src/logical/binder/bind_query/bind_setop.rs")).read()
    except FileNotFoundError:
        so = ""
    m = re.search(r"for \(left, right\) in left_types\.into_iter\(\)\.zip\(right_types\) \{\s*if left == right \{\s*(?://[^\n]*\n\s*)*output_types\.push\(left\);", so)
    t["setop_full_type_equality"] = 1 if m else None
    m = re.search(r"if left_types\.len\(\) != right_types\.len\(\) \{\s*return Err", so)
    t["setop_arity_check"] = 1 if m else None
    # the decimal rule of set operations (2b1fb11f8) as written, and the two MAX_PRECISION constants it uses
    m = re.search(r"let scale = i8::max\(l\.scale, r\.scale\);\s*let int_digits = i16::max\(\s*l\.precision as i16 - l\.scale as i16,\s*r\.precision as i16 - r\.scale as i16,\s*\);"
                  r"\s*let prec = i16::clamp\(\s*int_digits \+ scale as i16,\s*1,\s*Decimal128Type::MAX_PRECISION as i16,\s*\) as u8;"
                  r".*?if prec <= Decimal64Type::MAX_PRECISION\s*&& left\.id\(\) == DataTypeId::Decimal64\s*&& right\.id\(\) == DataTypeId::Decimal64"
                  r".*?left_needs_cast = left_needs_cast \|\| left != output;\s*right_needs_cast = right_needs_cast \|\| right != output;", so, re.S)
    t["setop_decimal_rule"] = 1 if m else None
    try:
        dc = open(os.path.join(common.REPO, "crates/glaredb_core/src/arrays/scalar/decimal.rs")).read()
    except FileNotFoundError:
        dc = ""
    m = re.search(r"impl DecimalType for Decimal64Type \{.*?const MAX_PRECISION: u8 = (\d+);", dc, re.S)
    t["dec64_max_precision"] = int(m.group(1)) if m else None
    m = re.search(r"impl DecimalType for Decimal128Type \{.*?const MAX_PRECISION: u8 = (\d+);", dc, re.S)
    t["dec128_max_precision"] = int(m.group(1)) if m else None
    # how the final choice is made (recorded in the evidence; the model exposes the set of maximal candidates)
    t["uses_sort_unstable_by"] = 1 if re.search(r"candidates\.sort_unstable_by\(", src) else 0
    return t


def _optn(v):
    return "None" if v is None else "Some %d" % v


def _qs(s):
    return '"' + s.replace('"', '""') + '"'


def _sig(s):
    return "{| s_pos := [%s]; s_var := %s; s_ret := %d |}" % ("; ".join(str(x) for x in s["pos"]), _optn(s["var"]), s["ret"])


def _sets(name, sets):
    out = ["Definition %s : list fset := [" % name]
    items = []
    for f in sets:
        items.append("  (* %s *) {| f_sigs := [\n      %s] |}" % (f["name"].replace("*", "<star>"), ";\n      ".join(_sig(s) for s in f["sigs"])))
    out.append(";\n".join(items))
    out.append("].")
    return "\n".join(out)


def render(d, src):
    names = d["type_ids"]

    def tid(n):
        return names.index(n) if n in names else None

    lines = ["(* GENERATED on every run by vlib/tables_typing.py from `gv_typing dump-tables` (the built crates) and",
             "   crates/glaredb_core/src/functions/candidate.rs.  Do not edit. *)",
             "From Coq Require Import NArith List String.", "From GV Require Import model.Resolve.",
             "Import ListNotations.", "Open Scope string_scope.", "Open Scope N_scope.", "",
             "Definition type_names : list string := [%s]." % "; ".join(_qs(n) for n in names),
             "Definition n_types : N := %d." % len(names)]
    for k, n in (("tid_any", "Any"), ("tid_i8", "Int8"), ("tid_i16", "Int16"), ("tid_i32", "Int32"), ("tid_i64", "Int64"), ("tid_dec64", "Decimal64"), ("tid_dec128", "Decimal128")):
        lines.append("Definition %s : option N := %s." % (k, _optn(tid(n))))
    for k in ("no_cast_score", "refined_literal_bonus", "default_score_i8", "default_score_i16", "default_score_i32", "default_score_i64"):
        lines.append("Definition %s : option N := %s." % (k, _optn(d.get(k))))
    lines.append("Definition variadic_same_score : option N := %s." % _optn(src.get("variadic_same_score")))
    lines.append("Definition setop_full_type_equality : option N := %s." % _optn(src.get("setop_full_type_equality")))
    lines.append("Definition setop_arity_check : option N := %s." % _optn(src.get("setop_arity_check")))
    for k, nm in (("setop_decimal_rule", "setop_decimal_rule"), ("dec64_max_precision", "src_dec64_max_precision"), ("dec128_max_precision", "src_dec128_max_precision")):
        lines.append("Definition %s : option N := %s." % (nm, _optn(src.get(k))))
    lines.append("Definition score_table : list (list (option N)) := [")
    lines.append(";\n".join("  [%s]" % "; ".join(_optn(x) for x in row) for row in d["scores"]))
    lines.append("].")
    lines.append(_sets("scalar_sets", d["scalar"]))
    lines.append(_sets("aggregate_sets", d["aggregate"]))
    lines.append("Definition scalar_names : list string := [%s]." % "; ".join(_qs(f["name"]) for f in d["scalar"]))
    lines.append("Definition aggregate_names : list string := [%s]." % "; ".join(_qs(f["name"]) for f in d["aggregate"]))
    lines.append("")
    return "\n".join(lines)


def regenerate(binpath):
    d = dump(binpath)
    src = scan_source()
    body = render(d, src)
    path = os.path.join(common.COQ, "gen", "TablesTyping.v")
    os.makedirs(os.path.dirname(path), exist_ok=True)
    with common.Lock("coq"):
        cur = open(path).read() if os.path.exists(path) else None
        if cur != body:
            open(path, "w").write(body)
    d["_src"] = src
    return d
