"""Regenerate coq/gen/TablesLayout.v from /repo's current source on every run: the string-view inline
threshold (the constant and the literals the readers compare with) and the sort row-index width.
A constant that cannot be found becomes `None` so that the theorems over it stop checking."""
import os, re
from . import common

SRC = os.path.join(common.REPO, "crates/glaredb_core/src")


def _read(rel):
    try:
        return open(os.path.join(SRC, rel)).read()
    except FileNotFoundError:
        return ""


def scan():
    t = {}
    s = _read("arrays/string.rs")
    m = re.search(r"pub const MAX_INLINE_LEN: usize = (\d+);", s)
    t["max_inline_len"] = int(m.group(1)) if m else None
    # impl StringView (the first is_inline / is_reference in the file)
    m = re.search(r"pub const fn is_inline\(&self\) -> bool \{[^}]*?self\.inline\.len <= (\d+)", s, re.S)
    t["is_inline_literal"] = int(m.group(1)) if m else None
    m = re.search(r"pub const fn is_reference\(&self\) -> bool \{[^}]*?self\.inline\.len > (\d+)", s, re.S)
    t["is_reference_literal"] = int(m.group(1)) if m else None
    m = re.search(r"pub struct StringViewInline \{[^}]*?pub inline: \[u8; (\d+)\]", s, re.S)
    t["inline_buffer_len"] = int(m.group(1)) if m else None
    # the PREDICATES as written, site by site: (operator, right-hand side) of every length test that decides between
    # the inline and the reference representation.  operator code: 0 `<`, 1 `<=`, 2 `>`, 3 `>=`
    consts = {"MAX_INLINE_LEN": t["max_inline_len"]}

    def pred(name, m):
        ops = {"<": 0, "<=": 1, ">": 2, ">=": 3}
        if not m:
            t[name + "_op"], t[name + "_rhs"] = None, None
            return
        rhs = m.group(2)
        t[name + "_op"] = ops[m.group(1)]
        t[name + "_rhs"] = int(rhs) if rhs.isdigit() else consts.get(rhs)

    def impl_block(ty):
        m = re.search(r"\nimpl %s \{" % ty, s)
        if not m:
            return ""
        i = m.end() - 1
        depth, j = 0, i
        while j < len(s):
            if s[j] == "{":
                depth += 1
            elif s[j] == "}":
                depth -= 1
                if depth == 0:
                    return s[i:j + 1]
            j += 1
        return ""

    cmp_re = r"\s*(<=|>=|<|>)\s*([A-Za-z_0-9]+)"
    for ty, px in (("StringView", "sv"), ("StringPtr", "sp")):
        blk = impl_block(ty)
        pred(px + "_is_inline", re.search(r"fn is_inline\(&self\) -> bool \{[^}]*?self\.inline\.len" + cmp_re, blk, re.S))
        pred(px + "_is_reference", re.search(r"fn is_reference\(&self\) -> bool \{[^}]*?self\.inline\.len" + cmp_re, blk, re.S))
        pred(px + "_new_inline_assert", re.search(r"fn new_inline\([^)]*\) -> Self \{\s*let len = data\.len\(\);\s*assert!\(len" + cmp_re + r"\)", blk, re.S))
        pred(px + "_new_reference_assert", re.search(r"fn new_reference\([^)]*\) -> Self \{\s*let len = data\.len\(\);\s*assert!\(len" + cmp_re + r"\)", blk, re.S))
    ab = _read("arrays/array/array_buffer.rs")
    pred("array_push_inline", re.search(r"if value\.len\(\)" + cmp_re + r"\s*\{\s*Ok\(StringView::new_inline\(value\)\)", ab))
    # the row writer and the heap sizing take the reference path on `!view.is_inline()` (StringView's predicate)
    rl = _read("arrays/row/row_layout.rs")
    t["row_writer_uses_view_is_inline"] = len(re.findall(r"if !view\.is_inline\(\) \{", rl)) or None
    # compute_heap_sizes tests the validity of the SELECTED row
    m = re.search(r"pub fn compute_heap_sizes.*?for \(output, row\) in rows\.into_iter\(\)\.enumerate\(\) \{\s*if array\.validity\.is_valid\(row\) \{\s*let sel = buffer\.selection\.get\(row\)", rl, re.S)
    t["heap_sizes_validity_by_selected_row"] = 1 if m else None
    sl = _read("arrays/sort/sort_layout.rs")
    m = re.search(r"pub const ROW_INDEX_WIDTH: usize = std::mem::size_of::<u(\d+)>\(\);", sl)
    t["row_index_width"] = int(m.group(1)) // 8 if m else None
    return t


def render(t):
    lines = ["(* GENERATED on every run by vlib/tables_layout.py from /repo's working tree. Do not edit. *)",
             "From Coq Require Import NArith.", "Open Scope N_scope.", ""]
    for k in sorted(t):
        v = t[k]
        lines.append("Definition %s : option N := %s." % (k, "None" if v is None else "Some %d" % v))
    lines.append("")
    return "\n".join(lines)


def regenerate():
    t = scan()
    body = render(t)
    path = os.path.join(common.COQ, "gen", "TablesLayout.v")
    os.makedirs(os.path.dirname(path), exist_ok=True)
    with common.Lock("coq"):
        cur = open(path).read() if os.path.exists(path) else None
        if cur != body:
            open(path, "w").write(body)
    return t
