"""Regenerate coq/gen/TablesLayout.v from /repo's current source on every run: the string-view inline
threshold (the constant and the literals the readers compare with) and the sort row-index width.
A constant that cannot be found becomes `None` so that the theorems over it stop checking."""
import os, re
from . import common

SRC = os.path.join(common.REPO, "crates/glaredb_core/src")


def _read(rel):
    try:
        return open(os.path.join(SRC, rel)).read()
    except FileNotFoundError:
        return ""


def scan():
    t = {}
    s = _read("arrays/string.rs")
    m = re.search(r"pub const MAX_INLINE_LEN: usize = (\d+);", s)
    t["max_inline_len"] = int(m.group(1)) if m else None
    # impl StringView (the first is_inline / is_reference in the file)
    m = re.search(r"pub const fn is_inline\(&self\) -> bool \{[^}]*?self\.inline\.len <= (\d+)", s, re.S)
    t["is_inline_literal"] = int(m.group(1)) if m else None
    m = re.search(r"pub const fn is_reference\(&self\) -> bool \{[^}]*?self\.inline\.len > (\d+)", s, re.S)
    t["is_reference_literal"] = int(m.group(1)) if m else None
    m = re.search(r"pub struct StringViewInline \{[^}]*?pub inline: \[u8; (\d+)\]", s, re.S)
    t["inline_buffer_len"] = int(m.group(1)) if m else None
    sl = _read("arrays/sort/sort_layout.rs")
    m = re.search(r"pub const ROW_INDEX_WIDTH: usize = std::mem::size_of::<u(\d+)>\(\);", sl)
    t["row_index_width"] = int(m.group(1)) // 8 if m else None
    return t


def render(t):
    lines = ["(* GENERATED on every run by vlib/tables_layout.py from /repo's working tree. Do not edit. *)",
             "From Coq Require Import NArith.", "Open Scope N_scope.", ""]
    for k in sorted(t):
        v = t[k]
        lines.append("Definition %s : option N := %s." % (k, "None" if v is None else "Some %d" % v))
    lines.append("")
    return "\n".join(lines)


def regenerate():
    t = scan()
    body = render(t)
    path = os.path.join(common.COQ, "gen", "TablesLayout.v")
    os.makedirs(os.path.dirname(path), exist_ok=True)
    with common.Lock("coq"):
        cur = open(path).read() if os.path.exists(path) else None
        if cur != body:
            open(path, "w").write(body)
    return t
